/-!
# Model of the OFM-box → IFM-box transform and of the padding handed to the hardware

Hand transcription (import-free, total, computable) of

* `ethosu/vela/high_level_command_stream.py`: `Box.__init__` (the `start ≤ end` assertion),
  `Box.wrap`, `Box.transform_with_strides_and_skirt` (all four axes);
* `ethosu/vela/high_level_command_to_npu_op.py`: `create_padding`;
* `ethosu/vela/graph_optimiser_util.py`: `needed_total_padding`, `calc_explicit_padding`;
* `ethosu/vela/tflite_graph_optimiser.py`: `calc_padding_and_skirt`, `calc_upscaled_padding_and_skirt`;
* `ethosu/vela/architecture_allocator.py`: `_required_size`, `get_ifm_area_required`.

Python integers are `Int`; `//` and `%` by a positive divisor are `Int` `/` and `%` (floor / non-negative
remainder, as in Python).  A failed Python `assert` is `Err.assert`; nothing is defaulted.
-/
namespace VelaVerif.Box

inductive Err where
  | assert       -- AssertionError (Box.__init__: start > end)
  | value        -- ValueError / ZeroDivisionError (range() step 0, upscaling factor 0)
  | unsupported  -- UnsupportedFeatureError
deriving Repr, DecidableEq, Inhabited

def Err.str : Err → String
  | .assert => "err:assert"
  | .value => "err:value"
  | .unsupported => "err:unsupported"

/-- a 4-D coordinate (batch, height, width, depth) -/
structure Coord where
  n : Int
  h : Int
  w : Int
  c : Int
deriving Repr, DecidableEq, Inhabited

structure Box4 where
  s : Coord
  e : Coord
deriving Repr, DecidableEq, Inhabited

def Coord.le (a b : Coord) : Bool := a.n ≤ b.n && a.h ≤ b.h && a.w ≤ b.w && a.c ≤ b.c

/-- `Box(start, end)`: asserts `start[i] <= end[i]` on every axis -/
def mkBox (s e : Coord) : Except Err Box4 :=
  if s.le e then .ok ⟨s, e⟩ else .error .assert

/-- `Box.is_subbox_of` -/
def Box4.isSubboxOf (a b : Box4) : Bool := b.s.le a.s && a.e.le b.e

/-- one axis of `Box.wrap(a, b)` -/
def wrap1 (a b : Int) : Int :=
  if a = 0 then 0 else if a ≥ b ∧ b ≠ 0 then a % b else a

def wrap (a b : Coord) : Coord := ⟨wrap1 a.n b.n, wrap1 a.h b.h, wrap1 a.w b.w, wrap1 a.c b.c⟩

/-- result of the height axis: IFM rows `[a, b)` and the padding of this stripe -/
structure HOut where
  a : Int
  b : Int
  pt : Int
  pb : Int
deriving Repr, DecidableEq, Inhabited

/-- read offset of an axis (0 without a fused slice read) -/
def offOf (o : Option Int) : Int := match o with | some x => x | none => 0

/-- Height axis (`[-3]`) of `transform_with_strides_and_skirt`.
    `y0 y1`: OFM box rows; `concat`: write offset; `split`: read offset (rows) of a fused slice read;
    `ss = some (stride, skirt_top, skirt_bottom)` when both `strides` and `skirt` are given;
    `H`: number of rows the operator can read (the IFM height; the height of the slice when strides/skirt
    are given and the operator was fused with a slice read); `up`: upscaling factor (≥ 1, checked by the
    caller); `kdil`: dilated kernel height.
    With strides/skirt the box is computed in the rows of the slice and moved by the read offset at the end;
    without upscaling the kernel positions follow the OFM rows (`ofmEnd`), not the rows clipped to `H`. -/
def transformH (y0 y1 concat : Int) (split : Option Int) (ss : Option (Int × Int × Int))
    (H up kdil : Int) : HOut :=
  let off := offOf split
  match ss with
  | none =>
    let s0 := y0 - concat + off
    let e0 := y1 - concat + off
    ⟨s0, min e0 (H * up), 0, 0⟩
  | some (stride, skT, skB) =>
    let s0 := y0 - concat
    let e0 := y1 - concat
    let e1 := min e0 (H * up)
    let ofmEnd := if up = 1 then e0 else e1
    let rem := skT % up
    let total := stride * (ofmEnd - s0 - 1)
    let ns := s0 * stride - skT + rem
    let pt := max 0 (0 - ns) + rem
    let ns' := max ns 0
    let pb :=
      if ofmEnd * stride + skB > H * up then
        if up ≠ 1 ∧ e0 > H * up then e0 - H * up
        else max 0 (ns' - pt + total + kdil - H * up)
      else 0
    let a := max (ns' / up) 0 + off
    let b := max (min ((e1 * stride + skB + skB % up) / up) H) 1 + off
    ⟨a, b, pt, pb⟩

/-- Width axis (`[-2]`): IFM columns `[a, b)`.
    `split = some (offset, shape)` (width components of the read offset / read shape);
    `ss = some (stride, skirt_left, skirt_right)`. With strides/skirt and a fused slice read the columns are
    those of the slice, moved by the read offset after the scaling. -/
def transformW (x0 x1 concat : Int) (split : Option (Int × Int)) (ss : Option (Int × Int × Int))
    (W up : Int) : Int × Int :=
  match ss with
  | none =>
    let off := match split with | some (o, _) => o | none => 0
    (x0 - concat + off, min (x1 - concat + off) (W * up))
  | some (stride, skL, skR) =>
    let s0 := x0 - concat
    let e1 := min (x1 - concat) (W * up)
    match split with
    | none => (max (s0 * stride - skL) 0, min (e1 * stride + skR) W)
    | some (o, shp) => (max (s0 * stride - skL + o) o, min (e1 * stride + skR + o) (o + shp))

/-- Depth axis (`[-1]`). `fullDepth`: block type is ConvolutionMxN, VectorProduct or ReduceSum. -/
def transformC (c0 c1 concat : Int) (split : Option (Int × Int)) (fullDepth : Bool) (D : Int) : Int × Int :=
  let off := match split with | some (o, _) => o | none => 0
  let s0 := c0 - concat + off
  let e0 := c1 - concat + off
  let (s, e) :=
    if fullDepth then
      match split with
      | none => ((0 : Int), D)
      | some (o, shp) => (o, o + shp)
    else (s0, e0)
  (s, min e D)

structure TIn where
  box : Box4
  /-- `(strides[1], strides[2])` = (stride_y, stride_x) -/
  strides : Option (Int × Int)
  /-- `(top, left, bottom, right)` -/
  skirt : Option (Int × Int × Int × Int)
  ifm : Coord
  fullDepth : Bool
  concat : Coord
  kdil : Int
  /-- read offset and read shape -/
  split : Option (Coord × Coord)
  up : Int
  /-- `op_type.is_binary_elementwise_op()` -/
  binEw : Bool
deriving Repr, Inhabited

/-- `Box.transform_with_strides_and_skirt` → `(Box, pad_top, pad_bottom)` -/
def transform (i : TIn) : Except Err (Box4 × Int × Int) :=
  if i.up ≤ 0 then .error .value else
  let ssH := match i.strides, i.skirt with
    | some (sy, _), some (t, _, b, _) => some (sy, t, b)
    | _, _ => none
  let ssW := match i.strides, i.skirt with
    | some (_, sx), some (_, l, _, r) => some (sx, l, r)
    | _, _ => none
  let nOff := match i.split with | some (o, _) => o.n | none => 0
  let n0 := i.box.s.n - i.concat.n + nOff
  let n1 := i.box.e.n - i.concat.n + nOff
  -- `ifm_shape = ifm_shape.with_height(split_shape[-3])` for a fused slice read of a strided (non-elementwise) operator
  let hRows := match ssH, i.split with
    | some _, some (_, shp) => if i.binEw then i.ifm.h else shp.h
    | _, _ => i.ifm.h
  let hh := transformH i.box.s.h i.box.e.h i.concat.h (i.split.map (·.1.h)) ssH hRows i.up i.kdil
  let ww := transformW i.box.s.w i.box.e.w i.concat.w (i.split.map fun p => (p.1.w, p.2.w)) ssW i.ifm.w i.up
  let cc := transformC i.box.s.c i.box.e.c i.concat.c (i.split.map fun p => (p.1.c, p.2.c)) i.fullDepth i.ifm.c
  let s : Coord := ⟨n0, hh.a, ww.1, cc.1⟩
  let e : Coord := ⟨n1, hh.b, ww.2, cc.2⟩
  let (s, e) :=
    if i.binEw then
      let e1 : Coord := ⟨e.n - 1, e.h - 1, e.w - 1, e.c - 1⟩
      let we := wrap e1 i.ifm
      (wrap s i.ifm, (⟨we.n + 1, we.h + 1, we.w + 1, we.c + 1⟩ : Coord))
    else (s, e)
  match mkBox s e with
  | .ok b => .ok (b, hh.pt, hh.pb)
  | .error er => .error er

/-! ## `create_padding` -/

structure Pad where
  top : Int
  left : Int
  bottom : Int
  right : Int
deriving Repr, DecidableEq, Inhabited

structure PadIn where
  vectorProduct : Bool
  explicit : Pad
  isFirst : Bool
  isLast : Bool
  cmdTop : Int
  cmdBottom : Int
  boxX0 : Int
  boxX1 : Int
  /-- `(ifm_read_offset[-2], ifm_read_shape[-2])` when the op was fused with a split/slice read -/
  read : Option (Int × Int)
  ifmW : Int
  /-- `Padding.TILE` -/
  tile : Bool
deriving Repr, Inhabited

def createPadding (i : PadIn) : Pad :=
  if i.vectorProduct then ⟨0, 0, 0, 0⟩ else
  let top := if !(i.isFirst && i.isLast) then i.cmdTop else i.explicit.top
  let bottom := if !(i.isFirst && i.isLast) then i.cmdBottom else i.explicit.bottom
  let (mn, mx) := match i.read with
    | none => ((0 : Int), i.ifmW)
    | some (o, shp) => (o, shp)
  let left := if i.boxX0 > mn then 0 else i.explicit.left
  let right := if i.boxX1 < mx then 0 else i.explicit.right
  if i.tile then ⟨0, 0, 0, 0⟩ else ⟨top, left, bottom, right⟩

/-! ## padding and skirt of an operator -/

/-- `needed_total_padding(input_size, stride, filter_size)`; `stride = 0` is a ZeroDivisionError -/
def neededTotalPadding (input stride filter : Int) : Int :=
  if input % stride = 0 then max (filter - stride) 0 else max (filter - input % stride) 0

/-- `calc_explicit_padding(input_size, stride, filter_size, pad_before, pad_after)`: the padding after the input is the part of
    the PAD that the last window of the (VALID) operation over the padded input reaches:
    `output = max((input + before + after - filter) // stride + 1, 1)`, `covered = (output - 1) * stride + filter`,
    `after' = min(after, max(covered - before - input, 0))` -/
def calcExplicitPadding (input stride filter before : Int) (after : Nat) : Int × Int :=
  let padded := input + before + after
  let out := max ((padded - filter) / stride + 1) 1
  let covered := (out - 1) * stride + filter
  (before, min (after : Int) (max (covered - before - input) 0))

inductive PadMode where
  | same | valid | explicit | tile
deriving Repr, DecidableEq, Inhabited

/-- `calc_padding_and_skirt(padding_type, kernel, input_shape, explicit_padding)`:
    `kw kh` dilated kernel, `sx sy` strides, `ex = (top, left, bottom, right)` (bottom/right ≥ 0).
    Returns `(padding, skirt)`, both `(top, left, bottom, right)`. -/
def calcPaddingAndSkirt (mode : PadMode) (kw kh sx sy H W : Int) (ex : Int × Int × Nat × Nat) : Pad × Pad :=
  let ypad := neededTotalPadding H sy kh
  let xpad := neededTotalPadding W sx kw
  let p : Pad := match mode with
    | .same => ⟨(ypad + 0) / 2, (xpad + 0) / 2, (ypad + 1) / 2, (xpad + 1) / 2⟩
    | .valid => ⟨0, 0, 0, 0⟩
    | .explicit =>
      let (t, l, b, r) := ex
      let tb := calcExplicitPadding H sy kh t b
      let lr := calcExplicitPadding W sx kw l r
      ⟨tb.1, lr.1, tb.2, lr.2⟩
    | .tile => let (t, l, b, r) := ex; ⟨t, l, b, r⟩
  (p, ⟨p.top, p.left, ypad - p.top, xpad - p.left⟩)

/-- `calc_upscaled_padding_and_skirt` (SAME / VALID only; other modes raise UnsupportedFeatureError) -/
def calcUpscaledPaddingAndSkirt (mode : PadMode) (kh kw sy sx H W upY upX : Int) : Except Err (Pad × Pad) :=
  match mode with
  | .same =>
    let ypad := neededTotalPadding (H * upY) sy kh
    let xpad := neededTotalPadding (W * upX) sx kw
    let right := max ((xpad + 1) / upX - 1) 0
    let bottom := max ((ypad + 1) / upY - 1) 0
    let left := max (kw - 1 - right) 0
    let top := max (kh - 1 - bottom) 0
    .ok (⟨top, left, bottom, right⟩, ⟨top, left, bottom, right⟩)
  | .valid =>
    let p : Pad := ⟨kh - 1, kw - 1, max (kh - 2) 0, max (kw - 2) 0⟩
    .ok (p, p)
  | _ => .error .unsupported

/-- `_required_size(value, stride, border, upscale, nearest)` = ceil(((value-1)*stride + border + nearest) / upscale) -/
def requiredSize (value stride border upscale : Int) (nearest : Bool) : Int :=
  let x := (value - 1) * stride + border + (if nearest then 1 else 0)
  (x + upscale - 1) / upscale

/-- `get_ifm_area_required` → (w, h); `areaW areaH` = `kernel.area_width()/area_height()` (dilated) -/
def getIfmAreaRequired (ofmH ofmW sy sx areaH areaW upscale : Int) (nearest : Bool) : Int × Int :=
  (requiredSize ofmW sx areaW upscale nearest, requiredSize ofmH sy areaH upscale nearest)

/-! ## `Shape4D` arithmetic (`ethosu/vela/shape4d.py`) on `Coord`

Component-wise helpers of the named tuple `Shape4D(batch, height, width, depth)`.  `//` and `%` are Python's
floor operations, which for a positive divisor are Lean's `Int` `/` and `%`; the models are meant for
positive divisors only (a zero divisor raises in Python).  Tied to the source text by `Props/C10Src.lean`. -/

/-- `numeric_util.round_up(a, b)` -/
def roundUpI (a b : Int) : Int := (a + b - 1) / b * b

/-- `numeric_util.round_up_divide(a, b)` -/
def roundUpDivI (a b : Int) : Int := (a + b - 1) / b

/-- `Shape4D._clip_len(pos, length, size)`: length of `[pos, pos + length)` cut to `[0, size)` at both ends
    (may be negative when the interval lies outside) -/
def clipLen (pos len size : Int) : Int :=
  let len' := if pos < 0 then len + pos else len
  let pos' := if pos < 0 then 0 else pos
  min (pos' + len') size - pos'

def Coord.map2 (f : Int → Int → Int) (a b : Coord) : Coord := ⟨f a.n b.n, f a.h b.h, f a.w b.w, f a.c b.c⟩

/-- `Shape4D.round_up(lhs, rhs)` -/
def shapeRoundUp (a b : Coord) : Coord := Coord.map2 roundUpI a b
/-- `Shape4D.div_round_up(self, rhs)` -/
def shapeDivRoundUp (a b : Coord) : Coord := Coord.map2 roundUpDivI a b
/-- `Shape4D.__add__`, `__sub__`, `__floordiv__`, `__mod__` -/
def shapeAdd (a b : Coord) : Coord := Coord.map2 (· + ·) a b
def shapeSub (a b : Coord) : Coord := Coord.map2 (· - ·) a b
def shapeFloordiv (a b : Coord) : Coord := Coord.map2 (· / ·) a b
def shapeMod (a b : Coord) : Coord := Coord.map2 (· % ·) a b
/-- `Shape4D.clip(self, offset, sub_shape)` -/
def shapeClip (self offset sub : Coord) : Coord :=
  ⟨clipLen offset.n sub.n self.n, clipLen offset.h sub.h self.h, clipLen offset.w sub.w self.w, clipLen offset.c sub.c self.c⟩
/-- `Shape4D.elements()` -/
def shapeElements (a : Coord) : Int := a.n * a.w * a.h * a.c

end VelaVerif.Box
