import VelaVerif.Model.Reported
/-!
# Model of `ethosu/vela/rawdata_writer.py` (`write_rawdata_output`): the second output format (`<name>_sg<i>_vela.npz`)

(properties C17 — the driver payload a raw-format user loads —, C12 / C02 — the arena size and the input / output offsets it
publishes.)  Hand transcription, in code order, of what the writer does with ONE CPU subgraph:

* "first `Op.CustomNpuOp` of the passes"                       → `firstCall` (the later call operators are not written)
* `cmd, weight, scratch, scratch_fast = custom_op.inputs[:4]`  → the pattern match of `writeRaw` (`ValueError` below four)
* `get_region(t.mem_type, arch)`                               → `Serialise.getRegion` (`KeyError` for `MemType.Unknown`)
* the two loops over `inputs[4:]` / `outputs`                  → `ioOf`
* `np.savez(...)`                                              → the record `Npz`; a list of shapes of different ranks is a
  `ValueError` of `np.asanyarray` (inhomogeneous shape), an address `None` is stored as it is (object array)

The operands are the memory tensors of `Model/Serialise.lean` (`ofMem`: one-dimensional `uint8` tensors, `shape = [size]`, no
address) followed by the subgraph's real inputs, in the order `rewriteInputs` leaves them (`Props/C12Serial.custom_op_inputs_order`).
What is NOT modelled: the file name, the zip container, NumPy's choice of integer dtype.
-/
namespace VelaVerif.RawOutput
open VelaVerif VelaVerif.Serialise

inductive Err where
  | unpack      -- ValueError: not enough values to unpack (the call operator has fewer than four operands)
  | region      -- KeyError of `get_region` (`MemType.Unknown`)
  | ragged      -- ValueError of `np.savez`: the listed shapes do not have one rank
deriving Repr, DecidableEq

/-- what the writer reads of one operand / result of the call operator -/
structure OpTensor where
  shape : List Nat
  memType : MemType
  address : Option Nat          -- `tens.address` (TensorAddressMap; `None` = never allocated)
  elemSize : Nat                -- `tens.element_size()`
  values : Option (List Nat)    -- `tens.values` as bytes (memory tensors), `None` otherwise
deriving Repr, DecidableEq

/-- a memory tensor of `npu_serialisation` as the writer sees it -/
def ofMem (t : MemTensor) : OpTensor :=
  { shape := [t.size], memType := t.memType, address := none, elemSize := 1, values := t.values }

/-- the four parallel lists written per direction -/
structure Io where
  shapes : List (List Nat)
  elemSizes : List Nat
  regions : List Nat
  offsets : List (Option Nat)
deriving Repr, DecidableEq

structure Npz where
  cmdData : Option (List Nat)
  weightData : Option (List Nat)
  weightRegion : Nat
  scratchShape : List Nat
  scratchRegion : Nat
  scratchFastShape : List Nat
  scratchFastRegion : Nat
  input : Io
  output : Io
deriving Repr, DecidableEq

def regionsOf (arch : Arch) : List OpTensor → Option (List Nat)
  | [] => some []
  | t :: ts =>
    match getRegion arch t.memType, regionsOf arch ts with
    | some r, some rs => some (r :: rs)
    | _, _ => none

/-- `np.asanyarray(list of shapes)` succeeds iff all shapes have one rank -/
def sameRank : List (List Nat) → Bool
  | [] => true
  | s :: rest => rest.all fun x => x.length == s.length

def ioOf (arch : Arch) (ts : List OpTensor) : Except Err Io :=
  match regionsOf arch ts with
  | none => .error .region
  | some rs => .ok { shapes := ts.map (·.shape), elemSizes := ts.map (·.elemSize), regions := rs, offsets := ts.map (·.address) }

/-- the proposed repair `/verif_patches/C12-30` (`same_rank`): a shorter shape gets leading 1s up to the longest rank of its list -/
def padShapes (shapes : List (List Nat)) : List (List Nat) :=
  let rank := shapes.foldl (fun m s => max m s.length) 0
  shapes.map fun s => List.replicate (rank - s.length) 1 ++ s

/-- first call operator of the subgraph's passes (`ops` = the operators in pass order, `true` = `Op.CustomNpuOp`) -/
def firstCall {α : Type} (ops : List (Bool × α)) : Option α := (ops.find? (·.1)).map (·.2)

/-- `write_rawdata_output` for the call operator with operands `inputs` and results `outputs`; `pad` = the writer has the
    repair C12-30 (the unchanged writer: `false`) -/
def writeRawG (pad : Bool) (arch : Arch) (inputs outputs : List OpTensor) : Except Err Npz :=
  match inputs with
  | c :: w :: s :: f :: ins =>
    match getRegion arch w.memType, getRegion arch s.memType, getRegion arch f.memType with
    | some wr, some sr, some fr =>
      match ioOf arch ins with
      | .error e => .error e
      | .ok i =>
        match ioOf arch outputs with
        | .error e => .error e
        | .ok o =>
          if pad then
            .ok { cmdData := c.values, weightData := w.values, weightRegion := wr, scratchShape := s.shape, scratchRegion := sr,
                  scratchFastShape := f.shape, scratchFastRegion := fr, input := { i with shapes := padShapes i.shapes },
                  output := { o with shapes := padShapes o.shapes } }
          else if !(sameRank i.shapes && sameRank o.shapes) then .error .ragged else
          .ok { cmdData := c.values, weightData := w.values, weightRegion := wr, scratchShape := s.shape, scratchRegion := sr,
                scratchFastShape := f.shape, scratchFastRegion := fr, input := i, output := o }
    | _, _, _ => .error .region
  | _ => .error .unpack

/-- the writer of the unchanged repository -/
def writeRaw (arch : Arch) (inputs outputs : List OpTensor) : Except Err Npz := writeRawG false arch inputs outputs

/-- the bytes `tflite_writer` stores in the buffer of a memory tensor: its values, unless the tensor is an arena tensor (buffer 0) -/
def tfliteBuffer (t : MemTensor) : Option (List Nat) := if hasBuffer t then t.values else none

/-- the byte size `tflite_writer` publishes for a memory tensor (`shape = [size]`, `uint8`) -/
def tfliteBytes (t : MemTensor) : Nat := t.size

end VelaVerif.RawOutput
