import VelaVerif.Model.Rewrites
/-!
# Graph-optimiser lowerings, second part (model side, import-free)

Hand transcription of the *parameter transformation* performed by the lowerings of
`ethosu/vela/tflite_graph_optimiser.py` / `tflite_model_semantic.py` that `Model/Rewrites.lean` does not cover:

* 8.  transposed convolution (`fixup_conv2d_backprop`, `add_padding_fields` → `calc_upscaled_padding_and_skirt`,
      the weight reversal of `weight_compressor`)
* 9.  grouped convolution (`convert_conv_groups`)
* 10. MEAN (`convert_mean_to_depthwise_conv`: kernel shape, the `max_kernel_size` / `max_height` splitting, the multiplier)
* 11. STRIDED_SLICE masks (`TFLiteSemantic._get_slice_offsets`, `constraint_slice_ranges`, `rewrite_stridedslice_output`)
* 12. RESIZE as a chain of 2x nearest-neighbour upscalings and a final average pool
      (`convert_resize_to_upscale_and_average_pool`, `convert_resizenn_ac_to_depthwise_conv`)
* 13. PRELU (`convert_prelu`)
* 14. PAD of the channel / batch dimension as a concatenation (`convert_pad_to_concat`)

The correspondence stream `harness/c01_rewrites2.py` calls the real functions in-process and compares; the theorems are
in `Props/C01Rewrites2.lean`. A model returns `none` where the code raises, `keep` where it leaves the operator alone.
-/
namespace VelaVerif.Rewrites2
open VelaVerif.Rewrites

/-! ## 8. Transposed convolution -/

/-- `needed_total_padding(input_size, stride, filter_size)`; `stride = 0` is a ZeroDivisionError -/
def neededTotalPadding (input stride filter : Nat) : Option Nat :=
  if stride = 0 then none
  else if input % stride = 0 then some (filter - stride) else some (filter - input % stride)

/-- what `fixup_conv2d_backprop` leaves on the operator: IFM resampling mode TRANSPOSE iff a stride is above one, and the
    stride attributes (all three of `stride_w`, `stride_h`, `strides`) reset to one -/
structure TconvFix where
  transposeUpscale : Bool
  strideY : Nat
  strideX : Nat
deriving Repr, DecidableEq, Inhabited

def fixupConv2dBackprop (strideY strideX : Nat) : TconvFix :=
  ⟨decide (strideX > 1 ∨ strideY > 1), 1, 1⟩

/-- one axis of `calc_upscaled_padding_and_skirt`: `(pad before, pad after)`; `stride` is the entry of `op.attrs["strides"]`
    (already reset to one by `fixup_conv2d_backprop`), `f = ofm size // ifm size`. `none` = ZeroDivisionError. -/
def upscaledPadAxis (same : Bool) (k stride inSz f : Nat) : Option (Nat × Nat) :=
  if same then
    match neededTotalPadding (inSz * f) stride k with
    | none => none
    | some p => if f = 0 then none else let after := (p + 1) / f - 1; some (k - 1 - after, after)
  else some (k - 1, k - 2)

/-- `calc_upscaled_padding_and_skirt(padding_type, kernel_size, stride, input_shape, fy, fx)`: `(top, left, bottom, right)` -/
def calcUpscaledPadding (same : Bool) (kh kw : Nat) (strideY strideX : Nat) (H W : Nat) (fy fx : Nat) :
    Option (Nat × Nat × Nat × Nat) :=
  match upscaledPadAxis same kh strideY H fy, upscaledPadAxis same kw strideX W fx with
  | some (t, b), some (l, r) => some (t, l, b, r)
  | _, _ => none

/-- the whole lowering for an operator that goes to the NPU: `none` when a division by zero is raised -/
structure TconvOut where
  fix : TconvFix
  pad : Nat × Nat × Nat × Nat        -- top, left, bottom, right
deriving Repr, DecidableEq, Inhabited

/-- stride 1x1 (no upscaling): the padding of the convolution with the reversed kernel is the mirror image of the forward
    convolution's padding — what repair C01-50 computes (`calc_transposed_padding_and_skirt`). The unrepaired code used
    `calc_padding_and_skirt`: `((k - 1) / 2, k / 2)` for SAME, `(0, 0)` for VALID (`forwardPadAxis`). -/
def transposedPadAxis (same : Bool) (k : Nat) : Nat × Nat := if same then (k / 2, (k - 1) / 2) else (k - 1, k - 1)

def forwardPadAxis (same : Bool) (k : Nat) : Nat × Nat := if same then ((k - 1) / 2, k / 2) else (0, 0)

def lowerTconv (same : Bool) (kh kw sy sx H W OH OW : Nat) : Option TconvOut :=
  let fix := fixupConv2dBackprop sy sx
  if H = 0 ∨ W = 0 then none else
  if fix.transposeUpscale then
    (calcUpscaledPadding same kh kw fix.strideY fix.strideX H W (OH / H) (OW / W)).map fun p => ⟨fix, p⟩
  else
    let (t, b) := transposedPadAxis same kh
    let (l, r) := transposedPadAxis same kw
    some ⟨fix, (t, l, b, r)⟩

/-! ## 9. Grouped convolution -/

/-- `convert_conv_groups`: per group the IFM depth, the number of filters, and for group `i` the read offset in the IFM
    depth and the `[start, end)` slice of the output channels (weights, bias, per-channel quantisation) -/
structure ConvGroups where
  ifmDepthCg : Nat
  filtersCg : Nat
  groups : List (Nat × Nat × Nat)      -- (ifm depth offset, oc start, oc end)
deriving Repr, DecidableEq, Inhabited

/-- `none`: `num_conv_groups ≤ 1`, the operator is left alone -/
def convertConvGroups (numGroups ifmDepth numFilters : Nat) : Option ConvGroups :=
  if numGroups ≤ 1 then none else
  let cg := ifmDepth / numGroups
  let fg := numFilters / numGroups
  some ⟨cg, fg, (List.range numGroups).map fun i => (i * cg, i * fg, (i + 1) * fg)⟩

/-! ## 10. MEAN -/

structure MeanPlan where
  ifmShape : List Nat              -- the 4-D shape every convolution reads with (after the depth shuffle / H×W → 1×HW)
  interShape : List Nat            -- shape of the int32 intermediate
  h : Nat                          -- rows reduced (1 when the height is not reduced)
  w : Nat
  n : Nat                          -- `num_elements_in_axis`
  heightPerConv : Nat
  convs : List (Nat × Nat × Nat × Nat)  -- per convolution: read offset (height), kernel height, read shape height, read shape width
deriving Repr, DecidableEq, Inhabited

def full4 {α : Type} (l : List α) (d : α) : List α := List.replicate (4 - l.length) d ++ l

def delIdx {α : Type} (l : List α) (i : Nat) : List α := l.eraseIdx i

/-- the loop over `num_convs = ceil(h / height_per_conv)`: `(read offset, kernel height)`; the last kernel takes the remainder -/
def meanChunks (h hpc : Nat) : List (Nat × Nat) :=
  let num := (h + hpc - 1) / hpc
  (List.range num).map fun i => (i * hpc, if i + 1 == num && h % hpc != 0 then h % hpc else hpc)

/-- `convert_mean_to_depthwise_conv` after the memcpy shortcut: `shape`, `reduce` as given (rank ≤ 4).
    `none`: the assertion "none of H,W,C has shape 1" fails, or a division by zero (`w = 0`). -/
def meanPlan (shape : List Nat) (reduce : List Bool) : Option MeanPlan :=
  let inter := (shape.zip reduce).map fun (d, r) => if r then 1 else d
  let red4 := full4 reduce false
  let shp4 := full4 shape 1
  let int4 := full4 inter 1
  -- mean over the depth axis: move C to W
  let depth := red4.getD 3 false && shp4.getD 3 1 > 1
  if depth && !((shp4.drop 1).contains 1) then none else
  let del := if shp4.getD 2 0 == 1 then 2 else 1
  let red4 := if depth then delIdx red4 del ++ [false] else red4
  let shp4 := if depth then delIdx shp4 del ++ [1] else shp4
  let int4 := if depth then delIdx int4 del ++ [1] else int4
  let h0 := if red4.getD 1 false then shp4.getD 1 1 else 1
  let w0 := if red4.getD 2 false then shp4.getD 2 1 else 1
  let n := h0 * w0
  let flat := h0 > 64 && n ≤ 4096 && red4.getD 1 false && red4.getD 2 false
  let shp4 := if flat then [shp4.getD 0 1, 1, h0 * w0, shp4.getD 3 1] else shp4
  let w := if flat then h0 * w0 else w0
  let h := if flat then 1 else h0
  if w = 0 then none else
  let hpc := min (min (4096 / w) h) 64
  if hpc = 0 then none else
  let convs := (meanChunks h hpc).map fun (off, wh) =>
    (off, wh, (if red4.getD 1 false then wh else shp4.getD 1 1), (if red4.getD 2 false then w else shp4.getD 2 1))
  some ⟨shp4, int4, h, w, n, hpc, convs⟩

/-- floor(log2 n) for n ≥ 1 -/
def log2Floor (n : Nat) : Nat := Nat.log2 n

/-- the int32 scalar of the final `Mul` and its explicit shift: from `quantise_scale(ifm_scale / ofm_scale) = (m, shiftVela)`
    and `n = num_elements_in_axis` (the arithmetic of `reference_integer_ops::Mean`). `none`: `n = 0`. -/
def meanScale (m : Int) (shiftVela : Int) (n : Nat) : Option (Int × Int) :=
  if n = 0 then none else
  let outShift : Int := 31 - shiftVela
  let s0 : Int := (log2Floor n : Nat)
  let s1 := min s0 32
  let s2 := min s1 (31 + outShift)
  -- Python `m << s2` with a negative count raises ValueError
  if s2 < 0 then none else
  let mult := (m * (2 : Int) ^ s2.toNat) / (n : Int)
  some (mult, 31 - (outShift - s2))

/-! ## 11. STRIDED_SLICE masks -/

/-- bit `i` of a mask -/
def bit (mask i : Nat) : Bool := mask / 2 ^ i % 2 == 1

/-- the value `_get_slice_offsets` stores for a position that is not masked: a negative index counts from the end of the
    ADDRESSED dimension `d`; `clampV` (repair C01-51): clamped to `[0, d]` as the reference kernel does, the unrepaired code
    stores it as it is -/
def sliceVal (clampV : Bool) (d : Nat) (v : Int) : Int :=
  let r := if v < 0 then v + (d : Int) else v
  if clampV then (if r < 0 then 0 else if r > (d : Int) then (d : Int) else r) else r

/-- the loop of `_get_slice_offsets`: `spec` runs over the positions of the specification (the remaining values), `idx` over
    the input dimensions. A position whose `new_axis_mask` bit is set consumes no input dimension. -/
def sliceOffsetsGo (clampV : Bool) (shape : List Nat) (mask newAxis : Nat) : List Int → Nat → Nat → List Int → List Int
  | [], _, _, offs => offs
  | v :: rest, spec, idx, offs =>
    if bit newAxis spec then sliceOffsetsGo clampV shape mask newAxis rest (spec + 1) idx offs
    else if idx ≥ shape.length then offs
    else
      let offs := if !bit mask spec then offs.set idx (sliceVal clampV (shape.getD idx 0) v) else offs
      sliceOffsetsGo clampV shape mask newAxis rest (spec + 1) (idx + 1) offs

/-- `_get_slice_offsets(input_shape, offset_tens, offset_mask, is_begin, new_axis_mask)` -/
def getSliceOffsets (clampV : Bool) (shape : List Nat) (vals : List Int) (mask : Nat) (isBegin : Bool) (newAxis : Nat) : List Int :=
  let init : List Int := if isBegin then shape.map (fun _ => (0 : Int)) else shape.map (fun d => ((d : Nat) : Int))
  sliceOffsetsGo clampV shape mask newAxis vals 0 0 init

/-- `constraint_slice_ranges`: `(offset_begin, offset_end, valid)` -/
def sliceRanges (clampV : Bool) (shape : List Nat) (beginV endV : List Int) (beginMask endMask shrinkMask newAxis : Nat) :
    List Int × List Int × Bool :=
  let b := getSliceOffsets clampV shape beginV beginMask true newAxis
  let e0 := getSliceOffsets clampV shape endV endMask false newAxis
  let e := (List.range shape.length).map fun i => if bit shrinkMask i then b.getD i 0 + 1 else e0.getD i 0
  let valid := (List.range shape.length).all fun i => bit shrinkMask i || e.getD i 0 > b.getD i 0
  (b, e, valid)

/-! ## 12. RESIZE as 2x upscalings and one average pool -/

inductive ResizeLast where
  | avgPoolValid (k : Nat)                 -- bilinear, align_corners: k×k average pool, VALID
  | avgPoolPadded (k : Nat)                -- bilinear: k×k average pool, explicit padding (0, 0, k-1, k-1)
  | depthwiseSelect (k : Nat) (centre : Nat) -- nearest, align_corners: k×k depthwise kernel with a single 1 at flat index `centre`
  | copy                                   -- nearest: 1×1 average pool
deriving Repr, DecidableEq, Inhabited

structure ResizePlan where
  steps : Nat                              -- number of operators, each with a 2x nearest-neighbour upscaled IFM
  shapes : List (Nat × Nat)                -- OFM height/width of the first `steps - 1` operators
  last : ResizeLast
deriving Repr, DecidableEq, Inhabited

/-- `convert_resize_to_upscale_and_average_pool` for `upscale_factor = 2^n`, `n ≥ 1` (the supported-operator check admits 2, 4, 8) -/
def resizePlan (bilinear alignCorners : Bool) (H W : Nat) (n : Nat) : Option ResizePlan :=
  if n = 0 then none else
  let k := 2 ^ n
  let shapes := (List.range (n - 1)).map fun c => (H * 2 ^ (c + 1), W * 2 ^ (c + 1))
  let last :=
    if bilinear then (if alignCorners then .avgPoolValid k else .avgPoolPadded k)
    else (if alignCorners then .depthwiseSelect k ((k / 2) * k + k / 2) else .copy)
  some ⟨n, shapes, last⟩

/-! ## 13. PRELU -/

inductive PreluPlan where
  | relu                                          -- uniform alpha = 0
  | lrelu (a : Int)                               -- uniform alpha: LeakyRelu, `alpha_scaling = (a, m, s)`, `a = q - zp`
  | mulMax (identityMul : Bool)                   -- alpha_max < 1: Maximum(Mul(ifm, alpha), ifm | Mul(ifm, 1))
  | minMulReluAdd                                 -- otherwise: Add(Mul(Minimum(ifm, 0), alpha), Relu(ifm))
deriving Repr, DecidableEq, Inhabited

/-- `convert_prelu` for a constant alpha tensor with extreme quantised values `qmin ≤ qmax`, zero point `zp` and a positive
    finite float32 scale (bit pattern): the comparisons `alpha_min == alpha_max`, `alpha_min == 0`, `alpha_max < 1` are on
    `(q - zp) * scale`; the product of an integer of at most 17 bits and a float32 is exact in double arithmetic, so the
    comparisons are decided exactly. `constAlpha = false`: the catch-all form. -/
def convertPrelu (constAlpha : Bool) (qmin qmax zp : Int) (scaleBits : Nat) (scalingEqual : Bool) : Option PreluPlan :=
  if !constAlpha then some .minMulReluAdd else
  match f32Pos scaleBits with
  | none => none
  | some (m, e) =>
    if qmin = qmax then (if qmin - zp = 0 then some .relu else some (.lrelu (qmin - zp)))
    else if qmax - zp ≤ 0 || (scaledLe (qmax - zp) m e 1 && !scaledEq (qmax - zp) m e 1) then some (.mulMax (!scalingEqual))
    else some .minMulReluAdd

/-! ## 14. PAD of the last / first dimension as a concatenation -/

inductive PadConcat where
  | keep                                           -- neither the last nor the first dimension is padded
  | split (axisLast : Bool) (before after : Nat)   -- other dimensions are padded too: a PAD of `axis` alone in front, this one keeps the rest
  | concat (axisLast : Bool) (sizes : List Nat) (inputIdx : Nat)
      -- ConcatTFLite along axis -1 / 0 of [left constant?, input, right constant?]; `sizes` along the axis, `inputIdx` = position of the input
deriving Repr, DecidableEq, Inhabited

/-- `convert_pad_to_concat`: `pads` = rows `(before, after)` of the paddings tensor, `shape` = input shape -/
def convertPadToConcat (shape : List Nat) (pads : List (Nat × Nat)) : PadConcat :=
  let lastP := pads.getLastD (0, 0)
  let firstP := pads.headD (0, 0)
  let sel : Option (Bool × Nat × Nat × Nat) :=
    if lastP.1 + lastP.2 ≠ 0 then some (true, pads.length - 1, lastP.1, lastP.2)
    else if firstP.1 + firstP.2 ≠ 0 then some (false, 0, firstP.1, firstP.2)
    else none
  match sel with
  | none => .keep
  | some (isLast, ai, l, r) =>
    let others := (pads.zipIdx).any fun (p, i) => i ≠ ai ∧ (p.1 ≠ 0 ∨ p.2 ≠ 0)
    if others then .split isLast l r
    else
      let d := if isLast then shape.getLastD 0 else shape.headD 0
      .concat isLast ((if l ≠ 0 then [l] else []) ++ [d] ++ (if r ≠ 0 then [r] else [])) (if l ≠ 0 then 1 else 0)

end VelaVerif.Rewrites2
