/-!
# Hardware block-traversal order of a weight volume (transcription of `reorder` in `mlw_encode.c`)

The C function walks ten nested loops (OFM block, IFM block, sub-kernel y, sub-kernel x, outer IFM
micro-block [part-kernel-first only], OFM micro-block, kernel element, inner IFM micro-block
[depth-first only], OFM micro-block element, IFM micro-block element) and appends either the source
weight at `(ofm_z, wy, wx, ifm_z)` or a zero.  The model returns the list of source coordinates
(`none` = padding zero) so that theorems can speak about *where* every value comes from.

`for (x = 0; x < n; x += step)` is the list `stepRange n step`; a zero step (the C loop would not
terminate) is rejected by `reorder`, never defaulted.
-/
namespace VelaVerif.Reorder

/-- IFM block depth of the weight stream for part-kernel-first traversal or 16-bit IFM (hardware fact; tied to
    `mlw_encode.c` by `Props/C07.lean` `codec_constants_match`) -/
def ifmBlockDepthSmall : Nat := 16
/-- IFM block depth otherwise -/
def ifmBlockDepthLarge : Nat := 32

/-- arguments of `mlw_reorder_encode` (the volume is `ofmDepth × kh × kw × ifmDepth`, OHWI) -/
structure Params where
  ifmUblockDepth : Nat
  ofmUblockDepth : Nat
  ofmDepth : Nat
  kh : Nat
  kw : Nat
  ifmDepth : Nat
  ofmBlockDepth : Nat
  isDepthwise : Bool
  isPartkernel : Bool
  ifmBitdepth : Nat
  decompH : Nat
  decompW : Nat
deriving Repr, DecidableEq, Inhabited

/-- source coordinate `(ofm_z, wy, wx, ifm_z)` -/
structure Coord where
  o : Nat
  y : Nat
  x : Nat
  i : Nat
deriving Repr, DecidableEq, Inhabited

/-- values of `x` in `for (x = 0; x < n; x += step)`, `step > 0` -/
def stepRange (n step : Nat) : List Nat := (List.range ((n + step - 1) / step)).map (· * step)

def roundUp (n d : Nat) : Nat := (n + d - 1) / d * d

/-- `is_partkernel || ifm_bitdepth == 16 ? 16 : 32` -/
def Params.ifmBlockDepth (p : Params) : Nat :=
  if p.isPartkernel || p.ifmBitdepth == 16 then ifmBlockDepthSmall else ifmBlockDepthLarge

/-- `subkernel_elements` after the padding rule of part-kernel-first / depthwise -/
def Params.subkernelElements (p : Params) (subW subH : Nat) : Nat :=
  let e := subW * subH
  if p.isPartkernel then
    if p.ifmBitdepth == 16 && e % 2 != 0 then roundUp e 2
    else if p.ifmBitdepth == 8 && e % 4 != 0 then roundUp e 4
    else e
  else if p.isDepthwise then roundUp e 4
  else e

/-- innermost body: the coordinate read, or `none` for a padding zero -/
def cell (p : Params) (ofmBlockZ ifmBlockZ sy sx subH subW ifmOuter ofmUblk element ifmInner ofmUz ifmUz : Nat) :
    Option Coord :=
  let kx := element % subW
  let ky := element / subW
  let ifmZ := ifmBlockZ + (ifmInner + ifmOuter) + ifmUz
  let ofmZ := ofmBlockZ + ofmUblk + ofmUz
  if ifmZ < p.ifmDepth && ofmZ < p.ofmDepth && ky < subH then some ⟨ofmZ, sy + ky, sx + kx, ifmZ⟩ else none

/-- the loops below the sub-kernel split -/
def subkernel (p : Params) (ofmBlockZ clippedOfm ifmBlockZ clippedIfm sy sx subH subW : Nat) : List (Option Coord) :=
  let elems := p.subkernelElements subW subH
  let outer := if p.isPartkernel then clippedIfm else 1
  let inner := if p.isPartkernel then 1 else clippedIfm
  (stepRange outer p.ifmUblockDepth).flatMap fun ifmOuter =>
  (stepRange clippedOfm p.ofmUblockDepth).flatMap fun ofmUblk =>
  (List.range elems).flatMap fun element =>
  (stepRange inner p.ifmUblockDepth).flatMap fun ifmInner =>
  (List.range p.ofmUblockDepth).flatMap fun ofmUz =>
  (List.range (if p.isDepthwise then 1 else p.ifmUblockDepth)).map fun ifmUz =>
    cell p ofmBlockZ ifmBlockZ sy sx subH subW ifmOuter ofmUblk element ifmInner ofmUz ifmUz

/-- `clipped_ifm_block_depth` of `reorder` -/
def clippedIfm (p : Params) (Bi : Nat) : Nat :=
  if p.isDepthwise then p.ifmUblockDepth
  else if p.isPartkernel then min p.ifmBlockDepth (p.ifmDepth - Bi) else p.ifmBlockDepth

/-- one (OFM block, IFM block) brick -/
def brick (p : Params) (ofmBlockZ clippedOfm ifmBlockZ : Nat) : List (Option Coord) :=
  (stepRange p.kh p.decompH).flatMap fun sy =>
  let subH := min (p.kh - sy) p.decompH
  (stepRange p.kw p.decompW).flatMap fun sx =>
  let subW := min (p.kw - sx) p.decompW
  subkernel p ofmBlockZ clippedOfm ifmBlockZ (clippedIfm p ifmBlockZ) sy sx subH subW

/-- all loops; every step is assumed positive (see `reorder`) -/
def traverse (p : Params) : List (Option Coord) :=
  (stepRange p.ofmDepth p.ofmBlockDepth).flatMap fun ofmBlockZ =>
  let clippedOfm := min p.ofmBlockDepth (p.ofmDepth - ofmBlockZ)
  (stepRange (if p.isDepthwise then 1 else p.ifmDepth) p.ifmBlockDepth).flatMap fun ifmBlockZ =>
  brick p ofmBlockZ clippedOfm ifmBlockZ

/-- every loop step is positive (otherwise a C loop does not advance) -/
def Params.stepsPositive (p : Params) : Bool :=
  p.ifmUblockDepth > 0 && p.ofmUblockDepth > 0 && p.ofmBlockDepth > 0 && p.decompH > 0 && p.decompW > 0

/-- a valid configuration of any traversal: positive steps, block depths that are whole numbers of
    micro-blocks, a depthwise volume has one input channel per output channel (`ifm_depth = 1`) -/
structure ValidConfig (p : Params) : Prop where
  iuPos : 0 < p.ifmUblockDepth
  ouPos : 0 < p.ofmUblockDepth
  obdPos : 0 < p.ofmBlockDepth
  dhPos : 0 < p.decompH
  dwPos : 0 < p.decompW
  ouDvd : p.ofmUblockDepth ∣ p.ofmBlockDepth
  iuDvd : p.ifmUblockDepth ∣ p.ifmBlockDepth
  depthwiseIfm : p.isDepthwise = true → p.ifmDepth = 1

/-- kernel elements per (OFM, IFM) element pair after sub-kernel decomposition and padding:
    `Σ_subkernels subkernel_elements` (equals `kh * kw` for depth-first) -/
def kernelElems (p : Params) : Nat :=
  ((stepRange p.kh p.decompH).map fun sy =>
    ((stepRange p.kw p.decompW).map fun sx =>
      p.subkernelElements (min (p.kw - sx) p.decompW) (min (p.kh - sy) p.decompH)).sum).sum

/-- IFM factor of the whole traversal -/
def ifmFactor (p : Params) : Nat :=
  if p.isDepthwise then 1
  else if p.isPartkernel then roundUp p.ifmDepth p.ifmUblockDepth else roundUp p.ifmDepth p.ifmBlockDepth

/-- closed form of `padded_length` (proved equal to the traversal length: `reorder_length`) -/
def paddedLength (p : Params) : Nat := roundUp p.ofmDepth p.ofmUblockDepth * kernelElems p * ifmFactor p

/-- `reorder(...)`: the emitted coordinate list; `none` when a loop step is 0 -/
def reorder (p : Params) : Option (List (Option Coord)) :=
  if p.stepsPositive then some (traverse p) else none

/-- row-major OHWI index of a coordinate -/
def Params.index (p : Params) (c : Coord) : Nat := ((c.o * p.kh + c.y) * p.kw + c.x) * p.ifmDepth + c.i

def Params.inRange (p : Params) (c : Coord) : Bool :=
  c.o < p.ofmDepth && c.y < p.kh && c.x < p.kw && c.i < p.ifmDepth

/-- the reordered value stream of a source volume given as a row-major array; a coordinate outside
    the array (never produced, see `reorder_sound`) is reported as `none` -/
def reorderValues (p : Params) (src : Array Int) : Option (List Int) := do
  let cs ← reorder p
  cs.mapM fun
    | none => some 0
    | some c => if p.inRange c then src[p.index c]? else none

end VelaVerif.Reorder
