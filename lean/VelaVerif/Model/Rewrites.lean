/-!
# Graph-optimiser rewrites (model side, import-free)

Hand transcription of what individual rewrites of `ethosu/vela/tflite_graph_optimiser.py`,
`graph_optimiser_util.py` and of the activation handling of `high_level_command_stream_generator.py`
do to the *parameters* of an operator: pure functions on small descriptors (shapes, kernel, strides,
padding, quantisation, offsets, activation range). The correspondence stream `harness/c01_rewrites.py`
builds real `Operation` objects, calls the real rewrite in-process and compares the parameters of the
result with these functions; `Props/C01Rewrites.lean` proves that the rewritten operator(s) compute
the tensor the original operator computes (reference semantics of `Spec/RewriteSem.lean` /
`Spec/TfliteRef.lean`).

A model returns `none` (or `.keep`) exactly where the code leaves the operator alone.
-/
namespace VelaVerif.Rewrites

/-! ## 6. Activation ranges of a pass (`generate_high_level_commands_for_sched_op`)

`create_activation_function` gives every RELU-type operator of a pass a range `[min, max]` in the real
domain (`None` = unbounded); the ranges of the operators of one pass (fused activation of the primary
operator first) are intersected. -/

/-- activation range, `none` = unbounded on that side -/
structure ActRange (α : Type) where
  lo : Option α
  hi : Option α
deriving Repr, DecidableEq, Inhabited

/-- RELU-type operator kinds with a fixed range (`create_activation_function`); `clamp`/`reluN` carry their bounds -/
inductive ReluKind where
  | relu | relu6 | reluN1To1 | relu0To1
deriving Repr, DecidableEq, Inhabited

def ReluKind.range : ReluKind → ActRange Int
  | .relu => ⟨some 0, none⟩
  | .relu6 => ⟨some 0, some 6⟩
  | .reluN1To1 => ⟨some (-1), some 1⟩
  | .relu0To1 => ⟨some 0, some 1⟩

/-- `activation.min = prev.min if activation.min is None else max(activation.min, prev.min)` (when `prev.min` is set) -/
def isectLo {α : Type} [Max α] (prev cur : Option α) : Option α :=
  match prev, cur with
  | none, c => c
  | some p, none => some p
  | some p, some c => some (max c p)

def isectHi {α : Type} [Min α] (prev cur : Option α) : Option α :=
  match prev, cur with
  | none, c => c
  | some p, none => some p
  | some p, some c => some (min c p)

/-- one step of the loop over `ps.ops`: the new operator's range intersected with what the primary operator has -/
def isectStep {α : Type} [Max α] [Min α] (prev : Option (ActRange α)) (cur : ActRange α) : ActRange α :=
  match prev with
  | none => cur
  | some p => ⟨isectLo p.lo cur.lo, isectHi p.hi cur.hi⟩

/-- the activation the primary operator ends up with: fused activation `fused` (if RELU-type), then the
    RELU-type operators of the pass in order -/
def passActivation {α : Type} [Max α] [Min α] (fused : Option (ActRange α)) (ops : List (ActRange α)) : Option (ActRange α) :=
  ops.foldl (fun acc r => some (isectStep acc r)) fused

/-! ## 1. LeakyReLU lowering (`convert_lrelu`, `convert_lrelu_to_mul_max`) and its inverse
(`convert_mul_max_to_abs_or_lrelu`) -/

inductive DT where
  | u8 | i8 | i16 | i32
deriving Repr, DecidableEq, Inhabited

def DT.ofString : String → Option DT
  | "u8" => some .u8 | "i8" => some .i8 | "i16" => some .i16 | "i32" => some .i32 | _ => none

def DT.toString : DT → String
  | .u8 => "u8" | .i8 => "i8" | .i16 => "i16" | .i32 => "i32"

/-- classification of a float32 `alpha` from its bit pattern (all the comparisons the code makes) -/
structure AlphaClass where
  isZero : Bool          -- alpha == 0 (either sign)
  neg : Bool             -- alpha < 0
  lt1 : Bool             -- alpha < 1
  recipInf : Bool        -- np.isinf(np.float32(1) / alpha): |alpha| <= 2^-128 (subnormal with mantissa <= 2^21), alpha != 0
deriving Repr, DecidableEq, Inhabited

/-- `none` for NaN / infinity (the comparisons of the code are not modelled for them) -/
def classifyAlpha (bits : Nat) : Option AlphaClass :=
  let sign := bits / 2147483648 % 2
  let mag := bits % 2147483648
  let e := mag / 8388608
  if bits ≥ 4294967296 ∨ e = 255 then none else
  let isZero := mag == 0
  let neg := sign == 1 && !isZero
  -- positive floats compare like their bit patterns; 1.0f = 0x3F800000
  let lt1 := neg || mag < 1065353216
  some { isZero := isZero, neg := neg, lt1 := lt1, recipInf := !isZero && mag ≤ 2097152 }

/-- the constant operand of the `Mul` with alpha -/
inductive AlphaScalar where
  | one                   -- value 1, tensor scale = alpha
  | zero                  -- value 0, tensor scale = 1 (alpha at or near zero)
  | mulScale              -- int32 path: value = `elementwise_mul_scale(ifm_scale, alpha, ofm_scale)[0]` (negative); tensor scale = |alpha| (repair C06-20; alpha before)
  | prelu                 -- value and explicit scaling taken from `attrs["alpha_scaling"]`
deriving Repr, DecidableEq, Inhabited

/-- what `convert_lrelu` turns a LeakyRelu into -/
inductive LreluPlan where
  | relu                                            -- alpha == 0: the operator becomes a Relu
  | lut                                             -- 8-bit, same type: table lookup
  | keep                                            -- int16, equal scaling, alpha > 0: unchanged (LRELU unit of the NPU)
  | mulMax (scalar : AlphaScalar) (identityMul : Bool)
      -- Maximum(Mul(ifm, alpha), ifm) or Maximum(Mul(ifm, alpha), Mul(ifm, 1)) when the scalings differ
  | minMulReluAdd (int32Mul : Bool) (scalar : AlphaScalar)
      -- Add(Mul(Minimum(ifm, 0), alpha), Relu(ifm)), no scaling on the Add
deriving Repr, DecidableEq, Inhabited

/-- `convert_lrelu_to_mul_max` -/
def lreluToMulMax (a : AlphaClass) (scalingEqual : Bool) (convertedPrelu : Bool) : LreluPlan :=
  let useMulMax := !a.isZero && !a.neg && a.lt1                 -- 0 < alpha < 1
  let int32Mul := !useMulMax && a.neg && !convertedPrelu
  let scalar : AlphaScalar :=
    if convertedPrelu then .prelu
    else if a.isZero || a.recipInf then .zero
    else if int32Mul then .mulScale else .one
  if useMulMax then .mulMax scalar (!scalingEqual) else .minMulReluAdd int32Mul scalar

/-- `convert_lrelu` (operator type already known to be LeakyRelu, IFM and OFM present) -/
def convertLrelu (a : AlphaClass) (ifm ofm : DT) (scalingEqual : Bool) (convertedPrelu : Bool) : LreluPlan :=
  if a.isZero then .relu
  else if (ifm == .u8 || ifm == .i8) && ifm == ofm then .lut
  else if scalingEqual && ifm == .i16 && ofm == .i16 && !a.neg then .keep
  else lreluToMulMax a scalingEqual convertedPrelu

/-- what `convert_mul_max_to_abs_or_lrelu` makes of `Maximum(x, Mul(x, c))`, `c` a constant scalar tensor with
    quantised value `q`, zero point `zp` (real value `(q - zp) * scale`) — after the structural checks of the function
    (single consumer, no fused activation on the Mul, 8-bit, IFM / OFM / Mul-OFM scaling equal) -/
inductive MulMaxPlan where
  | keep
  | abs
  | lrelu (alphaScalar : Int) (alphaIsZero : Bool)
      -- LeakyRelu whose table is built from `alpha_scaling = (q - zp, scale, shift)`; `alphaIsZero`: `attrs["alpha"] == 0`,
      -- which makes `convert_lrelu` turn the operator into a Relu
deriving Repr, DecidableEq, Inhabited

/-- finite positive float32 bit pattern → `(m, e)` with value `m * 2^e` -/
def f32Pos (bits : Nat) : Option (Nat × Int) :=
  let sign := bits / 2147483648
  let e := bits / 8388608 % 256
  let m := bits % 8388608
  if sign ≠ 0 ∨ e = 255 then none
  else if e = 0 then (if m = 0 then none else some (m, -149))
  else some (m + 8388608, (e : Int) - 150)

/-- `a * m * 2^e ≤ k` in exact arithmetic -/
def scaledLe (a : Int) (m : Nat) (e : Int) (k : Int) : Bool :=
  if e ≥ 0 then a * m * (2 : Int) ^ e.toNat ≤ k else a * m ≤ k * (2 : Int) ^ (-e).toNat

def scaledEq (a : Int) (m : Nat) (e : Int) (k : Int) : Bool :=
  if e ≥ 0 then a * m * (2 : Int) ^ e.toNat = k else a * m = k * (2 : Int) ^ (-e).toNat

/-- The *repaired* decision (patch C01-15): on the real value `c = (q - zp) * scale` of the constant (the product of a
    9-bit integer and a float32 is exact in the double arithmetic the code uses): LeakyRelu for `0 ≤ c ≤ 1`, Abs for
    `c = -1`, otherwise the operators are left alone. `none`: scale not a positive finite float32. -/
def mulMaxPlan (q zp : Int) (scaleBits : Nat) : Option MulMaxPlan :=
  match f32Pos scaleBits with
  | none => none
  | some (m, e) =>
    let a := q - zp
    if a ≥ 0 && scaledLe a m e 1 then some (.lrelu a (a == 0))
    else if scaledEq a m e (-1) then some .abs
    else some .keep

/-- The decision of the code before the repair: on the *quantised* value `q` alone. -/
def mulMaxPlanOld (q zp : Int) : MulMaxPlan :=
  if q ≥ 0 then .lrelu (q - zp) (q == 0) else if q = -1 then .abs else .keep

/-! ## 2. PAD folded into the hardware padding of its consumer (`replace_pad_by_hw_pad`) -/

inductive WindowKind where
  | conv | depthwise | avgpool
deriving Repr, DecidableEq, Inhabited

/-- `_leading_pad_ok(leading_pad, stride, kernel_size)` -/
def leadingPadOk (pad stride k : Nat) : Bool := pad == k / 2 || k / 2 ≤ stride || pad % stride == 0

structure PadFoldIn where
  kind : WindowKind
  kw : Nat            -- dilated kernel width / height (`k.dilated_wh()`)
  kh : Nat
  sx : Nat
  sy : Nat
  top : Nat           -- PAD values `(padding[-3][0], padding[-2][0], padding[-3][1], padding[-2][1])`
  left : Nat
  bottom : Nat
  right : Nat
  validPadding : Bool -- `op.attrs["padding"] == Padding.VALID`
  padSameType : Bool  -- `pad_op.ifm.dtype == pad_op.ofm.dtype`
  padScalingEq : Bool -- `check_quantized_tens_scaling_equal(pad_op.ofm, pad_op.ifm)`
  ifmU8 : Bool        -- IFM of the consumer is uint8 (average pool only)
  ifmZp : Int         -- zero point of the consumer's IFM (average pool only)
deriving Repr, Inhabited

inductive PoolRounding where
  | halfUp | awayZero
deriving Repr, DecidableEq, Inhabited

structure PadFoldOut where
  explicit : Nat × Nat × Nat × Nat       -- `attrs["explicit_padding"] = (top, left, bottom, right)`
  toDepthwise : Bool                     -- average pool → depthwise convolution with all-ones weights, weight scale 1 / (kw * kh)
  rounding : Option PoolRounding
  bias : Option Int                      -- every bias value: `zp * kh * kw` (signed types), 0 (uint8)
deriving Repr, Inhabited, DecidableEq

/-- `replace_pad_by_hw_pad` for a consumer whose producer is a PAD running on the NPU; `none`: the PAD stays -/
def replacePadByHwPad (i : PadFoldIn) : Option PadFoldOut :=
  if !i.validPadding || !i.padSameType || !i.padScalingEq then none
  else if i.left > i.kw / 2 || i.right > i.kw / 2 || i.top > i.kh / 2 || i.bottom > i.kh / 2 then none
  else if !leadingPadOk i.top i.sy i.kh || !leadingPadOk i.left i.sx i.kw then none
  else
    let ex := (i.top, i.left, i.bottom, i.right)
    if i.kind == .avgpool && (i.top != 0 || i.left != 0 || i.bottom != 0 || i.right != 0) then
      if [(i.left, i.kw), (i.right, i.kw), (i.top, i.kh), (i.bottom, i.kh)].any (fun (p, k) => p != 0 && p != k / 2) then none
      else if i.ifmU8 then some ⟨ex, true, some .halfUp, some 0⟩
      else some ⟨ex, true, some .awayZero, some (i.ifmZp * i.kh * i.kw)⟩
    else some ⟨ex, false, none, none⟩

/-! ## 3. FULLY_CONNECTED as a 1x1 convolution (`rewrite_fully_connected_input`, `convert_batched_fc_shape`) -/

def prodL (l : List Nat) : Nat := l.foldl (· * ·) 1

abbrev Shape4 := Nat × Nat × Nat × Nat       -- batch, height, width, depth

/-- `Tensor.get_shape_as_2d(dimension_2_size)`; `dimension_2_size = 0` is a ZeroDivisionError (modelled as `none`) -/
def shapeAs2d (shape : List Nat) (dim2 : Nat) : Option Shape4 :=
  if dim2 = 0 then none else
  let elms := prodL shape
  let dim1 := elms / dim2
  if dim1 * dim2 == elms && shape.length != 1 then some (dim1, 1, 1, dim2) else none

/-- `batching_split = {4: (2, 2), 8: (2, 4), 16: (4, 4)}`, default `(1, n)` -/
def batchingSplit (n : Nat) : Nat × Nat :=
  if n = 4 then (2, 2) else if n = 8 then (2, 4) else if n = 16 then (4, 4) else (1, n)

/-- both rewrites applied to a FullyConnected operator without a read shape: `(ifm_shapes[0], ofm_shapes[0], weights expanded to 4-D)`.
    `none`: the assertion `new_shape is not None` fails. -/
def rewriteFc (ifmTensorShape : List Nat) (weightsIn : Nat) (ofm : Shape4) : Option (Shape4 × Shape4 × Bool) :=
  match shapeAs2d ifmTensorShape weightsIn with
  | none => none
  | some ifm =>
    let (ob, oh, ow, od) := ofm
    let ofm1 : Shape4 := if ifm.1 > 1 && ob == 1 then (oh * ow, 1, 1, od) else ofm
    if ifm.1 > 1 then
      let (h, w) := batchingSplit ifm.1
      let (h2, w2) := batchingSplit ofm1.1
      some ((1, h, w, ifm.2.2.2), (1, h2, w2, ofm1.2.2.2), true)
    else some (ifm, ofm1, false)

/-! ## 4. Concatenation as write offsets, split / slice as read offsets -/

/-- `axis_4D = axis + (4 - len(shape))` for a non-negative axis; a negative axis indexes from the end -/
def axis4D (rank : Nat) (axis : Int) : Option Nat :=
  if axis ≥ 0 then (if axis.toNat < rank ∧ rank ≤ 4 then some (axis.toNat + (4 - rank)) else none)
  else if (-axis).toNat ≤ 4 then some (4 - (-axis).toNat) else none

/-- `rewrite_concat_ops`: write offset of every input along the concatenation axis (prefix sums of the axis sizes)
    and the end offset the code asserts to be the OFM size -/
def concatOffsets (sizes : List Nat) : List Nat × Nat :=
  sizes.foldl (fun (acc : List Nat × Nat) d => (acc.1 ++ [acc.2], acc.2 + d)) ([], 0)

/-- `rewrite_split_ops` for Split / SplitV / UnpackReshaped: read offset of output `idx` along the axis -/
def splitOffset (sizes : List Nat) (idx : Nat) : Nat := (sizes.take idx).foldl (· + ·) 0

/-- Slice / StridedSlice: read offset = begin, read shape = end - begin (per 4-D axis) -/
def sliceRead (begin end_ : List Nat) : List Nat × List Nat := (begin, (end_.zip begin).map fun (e, b) => e - b)

/-! ## 5. Depthwise convolution with IFM depth 1 as a convolution (`convert_depthwise_to_conv`) -/

inductive DwPlan where
  | keep            -- depth multiplier 1: untouched
  | toConv          -- IFM depth 1, OFM depth = multiplier: Conv2DBias, weights transposed (0, 1, 3, 2)
  | unsupported     -- UnsupportedFeatureError
deriving Repr, DecidableEq, Inhabited

def convertDepthwiseToConv (depthMultiplier ifmDepth ofmDepth : Nat) : DwPlan :=
  if depthMultiplier = 1 then .keep
  else if ifmDepth = 1 ∧ ofmDepth = depthMultiplier then .toConv
  else .unsupported

/-! ## 7. Dilation above 2 in software (`fixup_dilation_gt2`) -/

structure DilationOut where
  hwW : Nat      -- hardware dilation: 1 for an odd dilation, 2 for an even one
  hwH : Nat
  scW : Nat      -- the kernel is stretched by dilation / hardware dilation
  scH : Nat
  kw : Nat       -- new kernel size (k - 1) * sc + 1
  kh : Nat
deriving Repr, DecidableEq, Inhabited

/-- `none`: both dilations ≤ 2, nothing to do -/
def fixupDilation (kw kh dw dh : Nat) : Option DilationOut :=
  if dw > 2 ∨ dh > 2 then
    let hwH := if dh % 2 = 1 then 1 else 2
    let hwW := if dw % 2 = 1 then 1 else 2
    let scH := dh / hwH
    let scW := dw / hwW
    some ⟨hwW, hwH, scW, scH, (kw - 1) * scW + 1, (kh - 1) * scH + 1⟩
  else none

end VelaVerif.Rewrites
