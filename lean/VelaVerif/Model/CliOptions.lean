/-!
# C13 — the option validation layer of `vela.main`

Transcription of the decision logic of `ethosu/vela/vela.py: main()` from `parser.parse_args` up to (and including) the
first thing `process()` does with the network argument (`model_reader.read_model`: suffix → frontend), together with
the part of `architecture_features.ArchitectureFeatures.__init__ / _get_vela_config` that accepts or rejects the
(`--config`, `--system-config`, `--memory-mode`, `--arena-cache-size`) combination.

What is a *fact of the environment* (does the file exist, does the group of `.ini` files contain the section, which
ports does that section name) is an input of the model: `Opts` carries it next to the option values.

Order of the checks = order of the statements in the code:

 0. argparse (`choices=` / `type=`): accelerator, tensor allocator, block dependency, optimise   → usage error, exit 2
 1. `--supported-ops-report` → report, return 0;  2. `--list-config-files` → listing, return 0
 3. NETWORK missing                                                                         → `parser.error`
 4. every `--config` in turn: not `*.ini` → InputFileError; not readable → InputFileError
 5. `--cpu-tensor-alignment` < 16 or not a power of two                                     → `parser.error`
 6. `sys.setrecursionlimit(--recursion-limit)`: only 1 .. 2^31-1 is a legal argument of that call
 7. architecture: system-config section / default / CliOptionError, memory-mode section / default / CliOptionError,
    Sram→OnChipFlash override, const/arena/cache area checks, arena cache size 0 .. max address → ConfigOptionError
 8. `process`: file present, suffix `.tflite` → TFLite frontend, `.tosa` → TOSA frontend, else InputFileError

Steps 6 (out-of-range value), 0 (unknown enum *name*) and 8 (absent file) end in a Python traceback in the unchanged
tree (ValueError/OverflowError, KeyError, FileNotFoundError): the model states the diagnosis of the proposed repairs
/verif_patches/C13-60..62 (usage error, usage error, InputFileError); see design.d/C13.md.
-/
namespace VelaVerif.CliOptions

inductive Accel where | u55_32 | u55_64 | u55_128 | u55_256 | u65_256 | u65_512
deriving Repr, DecidableEq, Inhabited

def Accel.isU65 : Accel → Bool
  | .u65_256 | .u65_512 => true
  | _ => false

inductive MemArea where | sram | dram | onChipFlash | offChipFlash
deriving Repr, DecidableEq, Inhabited

inductive MemPort where | axi0 | axi1
deriving Repr, DecidableEq, Inhabited

inductive Allocator where | greedy | linearAlloc | hillClimb
deriving Repr, DecidableEq, Inhabited

inductive Strategy where | size | performance
deriving Repr, DecidableEq, Inhabited

inductive Suffix where | tflite | tosa | other
deriving Repr, DecidableEq, Inhabited

inductive Frontend where | tflite | tosa
deriving Repr, DecidableEq, Inhabited

/-- one `--config` argument, by the two facts `_parse_config` reads -/
structure CfgArg where
  endsIni : Bool            -- `config.endswith(".ini")` after normpath
  readable : Bool           -- `os.access(config_path, os.R_OK)` of the path the search rule selects
deriving Repr, DecidableEq, Inhabited

/-- a `System_Config.<name>` section: the two AXI port assignments -/
structure SysCfg where
  axi0 : MemArea
  axi1 : MemArea
deriving Repr, DecidableEq, Inhabited

/-- a `Memory_Mode.<name>` section -/
structure MemMode where
  constPort : MemPort
  arenaPort : MemPort
  cachePort : MemPort
deriving Repr, DecidableEq, Inhabited

/-- the `--verbose-*` switches that `--verbose-all` turns on (every attribute of `args` starting with `verbose`) -/
structure Verbose where
  config : Bool
  graph : Bool
  quantization : Bool
  packing : Bool
  tensorPurpose : Bool
  tensorFormat : Bool
  schedule : Bool
  allocation : Bool
  hlcs : Bool
  rcs : Bool
  operators : Bool
  weights : Bool
  performance : Bool
  progress : Bool
deriving Repr, DecidableEq, Inhabited

def Verbose.all : Verbose := ⟨true, true, true, true, true, true, true, true, true, true, true, true, true, true⟩

structure Opts where
  supportedOpsReport : Bool
  listConfigFiles : Bool
  network : Option Suffix               -- `none`: no positional argument
  networkExists : Bool
  configs : List CfgArg                 -- `[]`: `args.config is None`
  sysDefault : Bool                     -- `--system-config` is `internal-default`
  memDefault : Bool
  sysFile : Option SysCfg               -- the files given (read as a group) have the section `System_Config.<name>`
  memFile : Option MemMode
  accel : Option Accel                  -- `none`: a string outside `choices`
  allocator : Option Allocator          -- `none`: not a member name of `TensorAllocator`
  optimise : Option Strategy
  maxBlockdep : Int
  arenaCacheSize : Int
  cpuTensorAlignment : Int
  recursionLimit : Int
  hillclimbMaxIterations : Int
  verboseAll : Bool
  verbose : Verbose
deriving Repr, DecidableEq, Inhabited

inductive Kind where
  | usage          -- argparse: usage + message on stderr, SystemExit(2)
  | inputFile      -- InputFileError      "Error: Reading input file ..."               return 1
  | cliOption      -- CliOptionError      "Error: Incorrect argument to CLI option ..." return 1
  | configOption   -- ConfigOptionError   "Error: Invalid configuration of ..."         return 1
deriving Repr, DecidableEq, Inhabited

/-- the rules, in the order the code tests them -/
inductive Rule where
  | accelChoice | allocatorChoice | blockdepChoice | optimiseChoice
  | networkRequired
  | configIni | configReadable
  | alignment
  | recursionLimit
  | sysNeedsConfig | sysSection
  | memNeedsConfig | memSection
  | constArea | arenaArea | cacheArea
  | arenaNegative | arenaTooLarge
  | networkFile | networkSuffix
deriving Repr, DecidableEq, Inhabited

def Rule.kind : Rule → Kind
  | .accelChoice | .allocatorChoice | .blockdepChoice | .optimiseChoice | .networkRequired | .alignment | .recursionLimit => .usage
  | .configIni | .configReadable | .networkFile | .networkSuffix => .inputFile
  | .sysNeedsConfig | .sysSection | .memNeedsConfig | .memSection => .cliOption
  | .constArea | .arenaArea | .cacheArea | .arenaNegative | .arenaTooLarge => .configOption

abbrev Diag := Rule

/-- what `process` is called with -/
structure Config where
  frontend : Frontend
  imx93 : Bool                          -- `Imx93ArchitectureFeatures` (no config, both selections default)
  accel : Accel
  axi0 : MemArea
  axi1 : MemArea
  constPort : MemPort
  arenaPort : MemPort
  cachePort : MemPort
  maxBlockdep : Nat
  arenaCacheSize : Nat                  -- also `SchedulerOptions.sram_target`
  cpuTensorAlignment : Nat
  recursionLimit : Nat
  hillclimbMaxIterations : Int
  allocator : Allocator
  optimise : Strategy
  verbose : Verbose
deriving Repr, DecidableEq, Inhabited

inductive Accepted where
  | report                              -- SUPPORTED_OPS.md written, return 0
  | listing                             -- config files listed, return 0
  | compile (c : Config)
deriving Repr, DecidableEq, Inhabited

/-- `1 << axi_port_address_width` -/
def maxAddressOffset (a : Accel) : Nat := if a.isU65 then 2 ^ 40 else 2 ^ 32

/-- `_set_default_sys_config` (the i.MX93 subclass changes clocks and latencies only) -/
def defaultSys (a : Accel) : SysCfg := if a.isU65 then ⟨.sram, .dram⟩ else ⟨.sram, .offChipFlash⟩

/-- `_set_default_mem_mode` -/
def defaultMem (a : Accel) : MemMode := if a.isU65 then ⟨.axi1, .axi1, .axi0⟩ else ⟨.axi1, .axi0, .axi0⟩

def portArea (s : SysCfg) : MemPort → MemArea
  | .axi0 => s.axi0
  | .axi1 => s.axi1

/-- `_parse_config` over the list, left to right -/
def checkConfigs : List CfgArg → Except Diag Unit
  | [] => .ok ()
  | c :: cs =>
    if !c.endsIni then .error .configIni
    else if !c.readable then .error .configReadable
    else checkConfigs cs

/-- "override sram to onchipflash": when the constants live in Sram and all three areas use one port, the constants
    move to the other port, which becomes OnChipFlash -/
def overrideSram (s : SysCfg) (m : MemMode) : SysCfg × MemMode :=
  if portArea s m.constPort == .sram && m.constPort == m.arenaPort && m.arenaPort == m.cachePort then
    match m.constPort with
    | .axi0 => ({ s with axi1 := .onChipFlash }, { m with constPort := .axi1 })
    | .axi1 => ({ s with axi0 := .onChipFlash }, { m with constPort := .axi0 })
  else (s, m)

/-- `n & (n - 1) != 0` for `n ≥ 16` -/
def notPow2 (n : Nat) : Bool := n &&& (n - 1) != 0

def applyVerboseAll (o : Opts) : Verbose := if o.verboseAll then Verbose.all else o.verbose

/-- step 7a: which `System_Config` is in force (`vela_config_files` is `None` when no `--config` was given) -/
def selectSys (accel : Accel) (o : Opts) : Except Diag SysCfg :=
  match (if o.configs.isEmpty then none else o.sysFile) with
  | some s => .ok s
  | none =>
    if o.sysDefault then .ok (defaultSys accel)
    else if o.configs.isEmpty then .error .sysNeedsConfig
    else .error .sysSection

/-- step 7b: which `Memory_Mode` is in force -/
def selectMem (accel : Accel) (o : Opts) : Except Diag MemMode :=
  match (if o.configs.isEmpty then none else o.memFile) with
  | some m => .ok m
  | none =>
    if o.memDefault then .ok (defaultMem accel)
    else if o.configs.isEmpty then .error .memNeedsConfig
    else .error .memSection

/-- step 7c: "check configuration" (after the override and after `--arena-cache-size` replaced the file's value) -/
def checkArch (accel : Accel) (o : Opts) (sm : SysCfg × MemMode) : Except Diag (SysCfg × MemMode) :=
  if portArea sm.1 sm.2.constPort = .sram then .error .constArea
  else if ¬ (portArea sm.1 sm.2.arenaPort = .sram ∨ portArea sm.1 sm.2.arenaPort = .dram) then .error .arenaArea
  else if portArea sm.1 sm.2.cachePort ≠ .sram then .error .cacheArea
  else if o.arenaCacheSize < 0 then .error .arenaNegative
  else if o.arenaCacheSize > maxAddressOffset accel then .error .arenaTooLarge
  else .ok sm

/-- step 7: `ArchitectureFeatures.__init__` → `_get_vela_config` -/
def selectArch (accel : Accel) (o : Opts) : Except Diag (SysCfg × MemMode) :=
  match selectSys accel o with
  | .error d => .error d
  | .ok sys0 =>
  match selectMem accel o with
  | .error d => .error d
  | .ok mem0 => checkArch accel o (overrideSram sys0 mem0)

def frontendOf : Suffix → Except Diag Frontend
  | .tflite => .ok .tflite
  | .tosa => .ok .tosa
  | .other => .error .networkSuffix

def validate (o : Opts) : Except Diag Accepted :=
  -- 0. parser.parse_args
  match o.accel with
  | none => .error .accelChoice
  | some accel =>
  match o.allocator with
  | none => .error .allocatorChoice
  | some allocator =>
  if o.maxBlockdep < 0 ∨ o.maxBlockdep > 3 then .error .blockdepChoice else
  match o.optimise with
  | none => .error .optimiseChoice
  | some optimise =>
  -- 1, 2
  if o.supportedOpsReport then .ok .report else
  if o.listConfigFiles then .ok .listing else
  -- 3
  match o.network with
  | none => .error .networkRequired
  | some suffix =>
  -- 4
  match checkConfigs o.configs with
  | .error d => .error d
  | .ok () =>
  -- 5
  if o.cpuTensorAlignment < 16 ∨ notPow2 o.cpuTensorAlignment.toNat = true then .error .alignment else
  -- 6
  if o.recursionLimit < 1 ∨ o.recursionLimit > 2147483647 then .error .recursionLimit else
  -- 7
  match selectArch accel o with
  | .error d => .error d
  | .ok (sys, mem) =>
  -- 8
  if o.networkExists = false then .error .networkFile else
  match frontendOf suffix with
  | .error d => .error d
  | .ok frontend =>
  .ok (.compile {
    frontend, imx93 := o.configs.isEmpty && o.sysDefault && o.memDefault, accel, axi0 := sys.axi0, axi1 := sys.axi1,
    constPort := mem.constPort, arenaPort := mem.arenaPort, cachePort := mem.cachePort,
    maxBlockdep := o.maxBlockdep.toNat, arenaCacheSize := o.arenaCacheSize.toNat,
    cpuTensorAlignment := o.cpuTensorAlignment.toNat, recursionLimit := o.recursionLimit.toNat,
    hillclimbMaxIterations := o.hillclimbMaxIterations, allocator, optimise,
    verbose := applyVerboseAll o })

end VelaVerif.CliOptions
