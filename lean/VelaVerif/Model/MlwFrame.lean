import VelaVerif.Model.MlwDecode
/-!
# End of an MLW stream (transcription of the tail of `mlw_encode` in `mlw_encode.c`)

```c
bitbuf_put( bb, "ZDIV", 3, ZDIV_EOS);
bitbuf_put( bb, "BYTEALIGN", (8-(bb->pos&7))&7, 0xff );
while( bb->pos & 127 ) bitbuf_put( bb, "PAD", 8, 0xff );
outbuf_size = bitpos/8;
```
-/
namespace VelaVerif.Mlw

/-- `n` low bits of `v`, least significant first (`bitbuf_put(bb, name, n, v)`) -/
def putBits (n v : Nat) : List Bool := (List.range n).map fun i => v.testBit i

/-- the `PAD` loop: bytes of 0xff until the bit position is a multiple of 128 -/
def padLoop : Nat → Nat → List Bool
  | 0, _ => []
  | f + 1, pos => if pos % 128 = 0 then [] else putBits 8 0xff ++ padLoop f (pos + 8)

/-- bits appended after the last slice, which ended at bit position `pos` -/
def frameBits (pos : Nat) : List Bool :=
  let eos := putBits 3 zdivEos
  let p1 := pos + 3
  let align := putBits ((8 - p1 % 8) % 8) 0xff
  let p2 := p1 + (8 - p1 % 8) % 8
  eos ++ align ++ padLoop 16 p2

/-- `outbuf_size` for a stream whose last slice ended at `pos` -/
def frameBytes (pos : Nat) : Nat := (pos + (frameBits pos).length) / 8

/-- the slice header fields `encode_slice` writes after `ZDIV` -/
def putSliceHeader (nvalues wdiv : Nat) (trunc newPal : Bool) : List Bool :=
  putBits 15 (nvalues - 1) ++ putBits 3 wdiv ++ putBits 1 (if trunc then 1 else 0) ++
    putBits 1 (if newPal then 1 else 0)

/-- the palette entries, `palbits` bits each -/
def putPaletteEntries (palbits : Nat) : List Nat → List Bool
  | [] => []
  | v :: vs => putBits palbits v ++ putPaletteEntries palbits vs

/-- the palette section `encode_slice` writes when `new_palette` is set
    (`PALSIZE` holds `max(0, palsize-1)`, `PALBITS` holds `palbits-2`) -/
def putPaletteHeader (dirofs palbits : Nat) (lut : List Nat) : List Bool :=
  putBits 5 dirofs ++ putBits 5 (lut.length - 1) ++ putBits 3 (palbits - 2) ++ putPaletteEntries palbits lut

end VelaVerif.Mlw
