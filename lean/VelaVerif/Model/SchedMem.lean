import VelaVerif.Model.Cascade
import VelaVerif.Model.LiveRange
/-!
# Model of the scheduler's memory bookkeeping (`scheduler.py`, `cascade_builder.py`)

Functional transcription of what the scheduler *assumes* a schedule needs — not of the search that proposes schedules
(stripe heights, block configurations, weight encodings are inputs: every value the code could pick is allowed).

| Python | Lean |
|---|---|
| `shape_for_format`, `SchedulerOperation.ifm_size_in_bytes / ifm2_size_in_bytes / ofm_size_in_bytes` | `shapeForFormat`, `STensor.sizeInBytes` |
| `BufferMap.get_buffer` (the four cases, the cache keyed by `(producer, consumer)`) | `computeBuffer`, `getBuffer` |
| `CascadeBuilder._is_cascadable` (the stripe test; the static conjuncts arrive evaluated) | `isCascadable` |
| `CascadeBuilder._estimate_sram_usage` | `estimateSramUsage` |
| `CascadeBuilder.build_cascades` (outer `while idx`, inner `while True`, both modes) | `innerLoop`, `finishCascade`, `outerStep`, `buildCascadesFrom`, `buildCascades` |
| `Scheduler.estimate_schedule_memory_usage` | `estimateScheduleMemoryUsage` |
| `Scheduler.build_cascades_for_min_schedule` (the `non_local_mem_usage` dict, its assertion) | `minNonLocal` |
| `Scheduler.optimize_sub_schedule` (the `non_local_mem_usage` of a sub-schedule, the proposal loop and its acceptance test against the limit) | `subNonLocal`, `optimizeSubSchedule` |
| `LiveRangeGraph.get_temporal_memory_usage`, `Scheduler.update_op_memory_snapshot` | `temporalUsage`, `peakUsage` (second half of the file) |
| `Scheduler.use_fast_storage_for_feature_maps`, `FastStorageComponentAllocator` | `forcedToFast`, `useFastStorage` (second half) |
| `Scheduler.propose_operator_buffering` / `propose_weight_buffering` (the memory arithmetic) | `operatorBuffering`, `weightBufferDecision` (second half) |

Identity of a `SchedulerOperation` is its `index` (position in `Scheduler.sched_ops`; a sub-schedule keeps the global
indices).  Dicts keyed by operations are association lists keyed by the index, in insertion order.
Sizes are natural numbers; `non_local_mem_usage` and everything derived from it is an `Int` (the sub-schedule variant is a
difference that the code does not assert to be non-negative).  NumPy scalars (`np.int32` entries of the memory snapshot)
are modelled as unbounded integers except in `temporalUsage`, which wraps as `np.int32` arrays do.
-/
namespace VelaVerif.SchedMem
open VelaVerif.Cascade

inductive Err where
  | key       -- KeyError (a cost map has no entry for the operation)
  | value     -- ZeroDivisionError (`round_up(_, 0)` in `rolling_buffer_shape`), ValueError (`max()` of an empty array)
  | assert_   -- AssertionError
  | index     -- IndexError (`evict` / `keep` / `update_mem_usage` index the usage arrays tick by tick)
  | fuel      -- not a Python outcome: the inner loop ran longer than there are operations (proved unreachable)
deriving Repr, DecidableEq, Inhabited

def Err.str : Err → String
  | .key => "err:key"
  | .value => "err:value"
  | .assert_ => "err:assert"
  | .index => "err:index"
  | .fuel => "err:fuel"

/-- `Shape4D` -/
structure Shape4 where
  n : Nat
  h : Nat
  w : Nat
  c : Nat
deriving Repr, DecidableEq, Inhabited

def Shape4.elements (s : Shape4) : Nat := s.n * s.w * s.h * s.c
def Shape4.withDepth (s : Shape4) (d : Nat) : Shape4 := { s with c := d }

/-- tuple comparison of the namedtuple -/
def Shape4.lt (a b : Shape4) : Bool :=
  a.n < b.n || (a.n == b.n && (a.h < b.h || (a.h == b.h && (a.w < b.w || (a.w == b.w && a.c < b.c)))))

/-- Python `max(a, b)`: the first argument unless the second is strictly greater -/
def Shape4.max (a b : Shape4) : Shape4 := if a.lt b then b else a

/-- `shape_for_format(shape, format)` (`nhcwb16` = `format == TensorFormat.NHCWB16`) -/
def shapeForFormat (s : Shape4) (nhcwb16 : Bool) : Shape4 :=
  if nhcwb16 then s.withDepth (roundUp s.c 16) else s

/-- `SchedulerTensor`: shape, `dtype.size_in_bytes()`, format -/
structure STensor where
  shape : Shape4
  elemBytes : Nat
  nhcwb16 : Bool
deriving Repr, DecidableEq, Inhabited

/-- `ifm_size_in_bytes` / `ifm2_size_in_bytes` / `ofm_size_in_bytes`: `round_up(elements * size, Tensor.AllocationQuantum)` -/
def STensor.sizeInBytes (t : STensor) : Nat :=
  roundUp ((shapeForFormat t.shape t.nhcwb16).elements * t.elemBytes) 16

/-- what the bookkeeping reads from one `SchedulerOperation` -/
structure SOp where
  index : Nat
  ifm : STensor
  ifm2 : Option STensor
  ofm : STensor
  reqFullIfm : Bool
  reqFullOfm : Bool
  /-- `parent_op.type.is_binary_elementwise_op()` -/
  binaryEw : Bool
  /-- `ofm_can_reuse_ifm(sched_op)` (`live_range._get_ifm_to_fuse` without target; evaluated by the harness) -/
  ofmCanReuseIfm : Bool
  /-- the conjuncts of `_is_cascadable` that do not depend on the cost: block type, read offsets, `elementwise_cascadable`,
      not `Conv2DBackpropInputSwitchedBias`, padding not TILE -/
  cascadableStatic : Bool
  /-- indices of `get_dependants()` -/
  dependants : List Nat
  /-- `ifm_box_overread(sched_op)` (`Cascade.ifmBoxOverread`) -/
  overread : Nat
deriving Repr, Inhabited

def SOp.ifm2Size (op : SOp) : Nat := match op.ifm2 with | some t => t.sizeInBytes | none => 0

/-- what the bookkeeping reads from one `SchedulerOpInfo` -/
structure OpCost where
  stripe : Shape4
  stripeInput : Shape4
  /-- `storage_size()` of `buffered_weight_tensors` -/
  weightBuffers : List Nat
  cascade : Nat
deriving Repr, DecidableEq, Inhabited

abbrev CostMap := List (Nat × OpCost)

def lookupCost (m : CostMap) (i : Nat) : Except Err OpCost :=
  match m.lookup i with
  | some c => .ok c
  | none => .error .key

def sumNat (l : List Nat) : Nat := l.foldl (· + ·) 0

/-! ## `SchedulerOperation.create_scheduler_info`: the stripe input -/

def Shape4.withHW (s : Shape4) (h w : Nat) : Shape4 := { s with h := h, w := w }

/-- `create_scheduler_info(nng, stripe)`: `stripe_input` and `stripe_input2` (`SchedulerOpInfo` arguments 3 and 4).
    `sy sx` = kernel strides, `areaH areaW` = dilated kernel size, `upscale`/`nearest` = `to_upscale` / `is_nearest` of the
    resampling mode; `_get_stripe_input_requirement` = `Box.getIfmAreaRequired` (C10's model of `get_ifm_area_required`),
    clamped to the IFM ("Ensure stripe input volume is within the full IFM volume") -/
def stripeInputs (ofmShape stripe ifmShape : Shape4) (ifm2Shape : Option Shape4) (sy sx areaH areaW upscale : Int) (nearest : Bool) :
    Shape4 × Option Shape4 :=
  if stripe != ofmShape then
    let req := Box.getIfmAreaRequired stripe.h stripe.w sy sx areaH areaW upscale nearest
    let h := (min req.2 ifmShape.h).toNat
    let w := (min req.1 ifmShape.w).toNat
    (ifmShape.withHW h w, ifm2Shape.map fun s2 => s2.withHW (min h s2.h) (min w s2.w))
  else (ifmShape, ifm2Shape)

/-! ## `BufferMap` -/

abbrev BufKey := Option Nat × Option Nat
abbrev BufferMap := List (BufKey × (Shape4 × Nat))

/-- the value `get_buffer` computes on a cache miss -/
def computeBuffer (producer consumer : Option SOp) (cost : CostMap) : Except Err (Shape4 × Nat) :=
  match producer, consumer with
  | none, none => .error .assert_
  | some p, none => .ok (p.ofm.shape, p.ofm.sizeInBytes)
  | none, some c => .ok (c.ifm.shape, c.ifm.sizeInBytes)
  | some p, some c =>
    if p.reqFullOfm || c.reqFullIfm then
      .ok (Shape4.max p.ofm.shape c.ifm.shape, Nat.max p.ofm.sizeInBytes c.ifm.sizeInBytes)
    else do
      let pc ← lookupCost cost p.index
      let cc ← lookupCost cost c.index
      match rollingBufferShape pc.stripe.h pc.stripe.w pc.stripe.c cc.stripeInput.h cc.stripeInput.w c.overread with
      | .error _ => .error .value
      | .ok (bh, bw, bd) =>
        let shp : Shape4 := ⟨1, bh, bw, bd⟩
        .ok (shp, shp.elements * p.ofm.elemBytes)

def bufKey (producer consumer : Option SOp) : BufKey := (producer.map (·.index), consumer.map (·.index))

/-- `BufferMap.get_buffer(producer, consumer, cost)`: the map after the call and the value returned -/
def getBuffer (bm : BufferMap) (producer consumer : Option SOp) (cost : CostMap) : Except Err (BufferMap × (Shape4 × Nat)) :=
  if producer.isNone && consumer.isNone then .error .assert_ else
  match bm.lookup (bufKey producer consumer) with
  | some v => .ok (bm, v)
  | none => do
    let v ← computeBuffer producer consumer cost
    .ok (bm ++ [(bufKey producer consumer, v)], v)

/-! ## `CascadeBuilder` -/

structure CascadeInfo where
  start : Nat
  end_ : Nat
  /-- `buffers`: consumer index ↦ rolling buffer shape, in insertion order -/
  buffers : List (Nat × Shape4)
  memUsage : Int
deriving Repr, DecidableEq, Inhabited

structure Builder where
  /-- `self.sched_ops` -/
  ops : List SOp
  spilling : Bool
  /-- `self.non_local_mem_usage` -/
  nonLocal : List (Nat × Int)
deriving Repr, Inhabited

/-- `self.non_local_mem_usage.get(op, 0)` -/
def Builder.nl (b : Builder) (i : Nat) : Int := (b.nonLocal.lookup i).getD 0

def Builder.findOp (b : Builder) (i : Nat) : Option SOp := b.ops.find? (·.index == i)

/-- `_is_cascadable(sched_op, cost)` -/
def isCascadable (op : SOp) (c : OpCost) : Bool := op.cascadableStatic && c.stripe.h < op.ofm.shape.h

/-- the striped size `shape.with_depth(round_up(depth, 16)).elements() * dtype.size_in_bytes()` -/
def stripeBytes (s : Shape4) (elemBytes : Nat) : Nat := (s.withDepth (roundUp s.c 16)).elements * elemBytes

/-- `_estimate_sram_usage(sched_op, cost)` -/
def estimateSramUsage (b : Builder) (op : SOp) (c : OpCost) : Int :=
  let ifm2Size := if op.binaryEw then 0 else op.ifm2Size
  let ifmSize := if op.reqFullIfm then op.ifm.sizeInBytes else stripeBytes c.stripeInput op.ifm.elemBytes
  let ofmSize := if op.ofmCanReuseIfm then 0 else if op.reqFullOfm then op.ofm.sizeInBytes else stripeBytes c.stripe op.ofm.elemBytes
  ((ifmSize + ifm2Size + ofmSize : Nat) : Int) + b.nl op.index

/-- the variables of the inner `while True` loop -/
structure Inner where
  producer : SOp
  /-- `ops_in_cascade` -/
  inCascade : List SOp
  /-- `ops_in_best_cascade` -/
  best : List SOp
  /-- `cascade_buffers` -/
  cascadeBuffers : Nat
  /-- `best_cascade_size` -/
  bestSize : Int
  bm : BufferMap
deriving Repr, Inhabited

/-- The inner loop of `build_cascades` for a cascade proposed from `first`.  `assigned` = keys of `cost`,
    `cascadeIfm` = `cascade_ifm_size`, `peak` = `peak_sram_usage`. -/
def innerLoop (b : Builder) (ref fb : CostMap) (assigned : List Nat) (first : SOp) (cascadeIfm : Nat) (peak : Int) :
    Nat → Inner → Except Err Inner
  | 0, _ => .error .fuel
  | fuel + 1, s =>
    match s.producer.dependants with
    | [d] =>
      -- `current_op = dependants[0]`; an operation outside `self.sched_ops` is not in `ref_cost`
      match b.findOp d with
      | none => .ok s
      | some cur =>
        if assigned.contains cur.index then .ok s else
        match ref.lookup cur.index with
        | none => .ok s
        | some rc =>
          if !(isCascadable cur rc) || s.producer.ofm.shape != cur.ifm.shape || cur.reqFullIfm || s.producer.reqFullOfm then .ok s
          else if s.producer.index + 1 != cur.index then .ok s
          else do
            let opFullOfm := cur.ofm.sizeInBytes
            let (bm', buf) ← getBuffer s.bm (some s.producer) (some cur) ref
            let opWeightBuffer := sumNat rc.weightBuffers
            let fbc ← lookupCost fb cur.index
            let uncascaded := estimateSramUsage b cur fbc
            let inC := s.inCascade ++ [cur]
            let cb := s.cascadeBuffers + buf.2 + opWeightBuffer
            if b.spilling then
              if uncascaded < peak || (cb : Int) > peak then
                .ok { s with inCascade := inC, cascadeBuffers := cb, bm := bm' }
              else
                innerLoop b ref fb assigned first cascadeIfm peak fuel
                  { producer := cur, inCascade := inC, best := inC, cascadeBuffers := cb, bestSize := cb, bm := bm' }
            else
              let cascadeSize : Int := ((cascadeIfm + cb + opFullOfm : Nat) : Int) + b.nl first.index
              if (uncascaded < peak && s.bestSize < peak) || ((cascadeIfm + cb : Nat) : Int) > s.bestSize then
                .ok { s with inCascade := inC, cascadeBuffers := cb, bm := bm' }
              else if cascadeSize < s.bestSize || cascadeSize < uncascaded then
                innerLoop b ref fb assigned first cascadeIfm peak fuel
                  { producer := cur, inCascade := inC, best := inC, cascadeBuffers := cb, bestSize := cascadeSize, bm := bm' }
              else
                innerLoop b ref fb assigned first cascadeIfm peak fuel
                  { s with producer := cur, inCascade := inC, cascadeBuffers := cb, bm := bm' }
    | _ => .ok s

/-- the state of `build_cascades` between two iterations of the outer loop -/
structure BState where
  /-- `cost` -/
  cost : CostMap
  /-- `cascade_map` (keyed by the end index) -/
  cascades : List CascadeInfo
  /-- `peak_sram_usage` -/
  peak : Int
  bm : BufferMap
deriving Repr, Inhabited

/-- the `for cascaded_op in ops_in_best_cascade` loop: cost entries (reference cost with `cascade = cascade_end`) and
    `buffers_in_cascade` -/
def finishLoop (ref : CostMap) (cStart cEnd : Nat) :
    List SOp → Option SOp → BufferMap → CostMap → List (Nat × Shape4) → Except Err (BufferMap × CostMap × List (Nat × Shape4))
  | [], _, bm, cost, bufs => .ok (bm, cost, bufs)
  | op :: rest, prev, bm, cost, bufs =>
    if !(cStart ≤ op.index && op.index ≤ cEnd) then .error .assert_ else do
    let rc ← lookupCost ref op.index
    let cost' := cost ++ [(op.index, { rc with cascade := cEnd })]
    match prev with
    | none => finishLoop ref cStart cEnd rest (some op) bm cost' bufs
    | some p =>
      let (bm', buf) ← getBuffer bm (some p) (some op) ref
      finishLoop ref cStart cEnd rest (some op) bm' cost' (bufs ++ [(op.index, buf.1)])

/-- one iteration of the outer loop for `op = self.sched_ops[idx]` (the iteration that finds `op in cost` afterwards only
    increments `idx`) -/
def outerStep (b : Builder) (ref fb : CostMap) (st : BState) (op : SOp) : Except Err BState :=
  if (st.cost.lookup op.index).isSome then .ok st else do
  let rc ← lookupCost ref op.index
  if !(isCascadable op rc) then
    let fbc ← lookupCost fb op.index
    .ok { st with cost := st.cost ++ [(op.index, fbc)],
                  peak := if b.spilling then st.peak else max (estimateSramUsage b op fbc) st.peak }
  else
    let weightBuffer := sumNat rc.weightBuffers
    let cascadeIfm := if b.spilling then 0 else op.ifm.sizeInBytes
    let fbc ← lookupCost fb op.index
    let s ← innerLoop b ref fb (st.cost.map (·.1)) op cascadeIfm st.peak (b.ops.length + 1)
      { producer := op, inCascade := [op], best := [op], cascadeBuffers := weightBuffer,
        bestSize := estimateSramUsage b op fbc, bm := st.bm }
    if s.best.length > 1 then
      let cEnd := op.index + (s.best.length - 1)
      let (bm', cost', bufs) ← finishLoop ref op.index cEnd s.best none s.bm st.cost []
      .ok { cost := cost',
            cascades := st.cascades ++ [{ start := op.index, end_ := cEnd, buffers := bufs, memUsage := s.bestSize - b.nl op.index }],
            peak := if b.spilling then st.peak else max s.bestSize st.peak,
            bm := bm' }
    else
      .ok { st with cost := st.cost ++ [(op.index, fbc)], bm := s.bm,
                    peak := if b.spilling then st.peak else max (estimateSramUsage b op fbc) st.peak }

def foldM' (f : BState → SOp → Except Err BState) : List SOp → BState → Except Err BState
  | [], st => .ok st
  | op :: rest, st =>
    match f st op with
    | .ok st' => foldM' f rest st'
    | .error e => .error e

/-- `build_cascades` started with the buffer cache `bm0` (the code under verification starts every call with an empty
    `BufferMap()`; the parameter exists so that the invariant a longer-lived cache breaks can be stated) -/
def buildCascadesFrom (bm0 : BufferMap) (b : Builder) (ref fb : CostMap) (limit : Int) : Except Err BState :=
  foldM' (outerStep b ref fb) b.ops { cost := [], cascades := [], peak := limit, bm := bm0 }

/-- `CascadeBuilder.build_cascades(ref_schedule, fallback_schedule, guiding_mem_limit)`: the new `cost_map` and `cascades` -/
def buildCascades (b : Builder) (ref fb : CostMap) (limit : Int) : Except Err BState :=
  buildCascadesFrom [] b ref fb limit

/-! ## `Scheduler.estimate_schedule_memory_usage`, the non-local usage, the acceptance test -/

def findCascade (cs : List CascadeInfo) (endIdx : Nat) : Except Err CascadeInfo :=
  match cs.find? (·.end_ == endIdx) with
  | some c => .ok c
  | none => .error .key

def nlOf (nonLocal : List (Nat × Int)) (i : Nat) : Int := (nonLocal.lookup i).getD 0

/-- `estimate_schedule_memory_usage(schedule, non_local_mem_usage)` over `self.sched_ops = ops` -/
def estimateScheduleMemoryUsage (ops : List SOp) (cost : CostMap) (cascades : List CascadeInfo) (nonLocal : List (Nat × Int)) :
    Except Err Int :=
  ops.foldlM (init := (0 : Int)) fun peak op =>
    match cost.lookup op.index with
    | none => .ok peak
    | some c =>
      if c.cascade != 0 then do
        let ci ← findCascade cascades c.cascade
        .ok (max (ci.memUsage + nlOf nonLocal op.index) peak)
      else
        .ok (max (((op.ifm.sizeInBytes + op.ofm.sizeInBytes + sumNat c.weightBuffers : Nat) : Int) + nlOf nonLocal op.index) peak)

/-- per operation of `build_cascades_for_min_schedule`: `memory_snapshot[time_index] - op_mem_usage` with its assertion.
    `snap` = the snapshot entry, `ifmInScratch` = `ifm.mem_type in (Scratch, Scratch_fast)` -/
def minNonLocal (spilling : Bool) (op : SOp) (snap : Int) (ifmInScratch : Bool) : Except Err Int :=
  let opMem : Nat :=
    if spilling then 0
    else (if ifmInScratch then op.ifm.sizeInBytes else 0) + (if op.ofmCanReuseIfm then 0 else op.ofm.sizeInBytes)
  let v := snap - opMem
  if v < 0 then .error .assert_ else .ok v

/-- the `non_local_mem_usage` dict of `optimize_sub_schedule`: `snapAtCascade` = `memory_snapshot[time_for_cascade]`,
    `multiConsumerIfm` = `len(sub_schedule_ops[0].ifm.connection.consumers) > 1` -/
def subNonLocal (spilling : Bool) (ops : List SOp) (snapAtCascade : Int) (ci : CascadeInfo) (multiConsumerIfm : Bool) :
    List (Nat × Int) :=
  let parallel := snapAtCascade - ci.memUsage
  let persistent : Int := match ops with
    | first :: _ => if !spilling && multiConsumerIfm then first.ifm.sizeInBytes else 0
    | [] => 0
  ops.zipIdx.map fun p => (p.1.index, if p.2 != 0 then parallel + persistent else parallel)

structure Proposal where
  cost : CostMap
  cascades : List CascadeInfo
  /-- `estimate_schedule_memory_usage` of the proposal -/
  usage : Int
deriving Repr, DecidableEq, Inhabited

/-- the proposal loop of `optimize_sub_schedule`: `proposals` = the cost maps `propose_schedule_striping` returns for
    the stripe heights `min+1, min+2, …` (the oracle); result = `best_schedule` and the list of proposals looked at -/
def optimizeLoop (b : Builder) (fb : CostMap) (limit : Int) :
    List CostMap → Nat → Nat → Option Proposal → List Proposal → Except Err (Option Proposal × List Proposal)
  | [], _, _, best, seen => .ok (best, seen)
  | ref :: rest, iteration, maxNbr, best, seen => do
    let st ← buildCascades b ref fb limit
    let nbr := st.cascades.length
    let maxNbr := if iteration == 0 then nbr else maxNbr
    let usage ← estimateScheduleMemoryUsage b.ops st.cost st.cascades b.nonLocal
    let p : Proposal := { cost := st.cost, cascades := st.cascades, usage := usage }
    if usage ≤ limit && nbr ≤ maxNbr then
      if st.cascades.isEmpty then .ok (some p, seen ++ [p])
      else optimizeLoop b fb limit rest (iteration + 1) maxNbr (some p) (seen ++ [p])
    else .ok (best, seen ++ [p])

/-- the first test of `optimize_schedule`: the maximum schedule is returned as it is when its peak is below the SRAM limit
    and the feature maps are in SRAM (`max_sched.fast_storage_peak_usage < self.sram_limit and not spilling`) -/
def maxScheduleFits (maxPeak sramLimit : Int) (spilling : Bool) : Bool := decide (maxPeak < sramLimit) && !spilling

def optimizeSubSchedule (b : Builder) (fb : CostMap) (limit : Int) (proposals : List CostMap) :
    Except Err (Option Proposal × List Proposal) :=
  optimizeLoop b fb limit proposals 0 0 none []

/-! ## `LiveRangeGraph.get_temporal_memory_usage`, `Scheduler.update_op_memory_snapshot` -/

/-- what `get_temporal_memory_usage` reads from one `LiveRange`: `start_time`, `end_time` (inclusive), `size`,
    `lr.mem_area == target_mem_area`.  Times are never negative (`mark_usage` clamps the start to 0, an unmarked range has
    `start = 99999999999`, `end = -1`, an empty slice). -/
structure TLR where
  start : Nat
  /-- `end_time + 1` (the exclusive end of the slice); 0 for an unmarked range -/
  stop : Nat
  size : Nat
  inArea : Bool
deriving Repr, DecidableEq, Inhabited

/-- arithmetic of an `np.int32` array element -/
def wrap32 (x : Int) : Int := (x + 2147483648) % 4294967296 - 2147483648

/-- `u[a:b] += v` on a NumPy array (the slice is clipped to the array; `0 ≤ a`) -/
def addRange (u : List Int) (a b : Nat) (v : Int) : List Int :=
  u.zipIdx.map fun p => if a ≤ p.2 ∧ p.2 < b then p.1 + v else p.1

/-- `get_temporal_memory_usage(target_mem_area)` for `self.lrs = lrs`, `self.current_time = ct`:
    `usage = np.zeros(get_endtime() + 1, int32)`, `get_endtime() = current_time + 1` -/
def temporalUsage (lrs : List TLR) (ct : Nat) : Except Err (List Int) :=
  lrs.foldlM (init := List.replicate (ct + 2) (0 : Int)) fun u lr =>
    if lr.inArea then
      -- `assert lr.end_time <= self.get_endtime() + 1`
      if lr.stop > ct + 3 then .error .assert_
      else .ok ((addRange u lr.start lr.stop lr.size).map wrap32)
    else .ok u

/-- `max(temporal_usage, default=0)` (the default only for an empty array) -/
def peakUsage : List Int → Int
  | [] => 0
  | x :: xs => xs.foldl max x

/-! ## `Scheduler.use_fast_storage_for_feature_maps`, `FastStorageComponentAllocator` -/

/-- the test of the loop "Force all OFMs to fast-storage": `cascade` = `cost.cascade`, `nDependants` =
    `len(sched_op.get_dependants())`, `outsideConsumer` = `any(cons is None for cons in ofm_tens.consumer_list)`,
    `varWrite` = `parent_op.memory_function is Op.VariableTensorWrite` -/
def forcedToFast (cascade nDependants : Nat) (outsideConsumer varWrite : Bool) : Bool :=
  cascade == 0 && nDependants != 0 && !outsideConsumer && !varWrite

/-- one `LiveRange` of the graph extracted inside `use_fast_storage_for_feature_maps` -/
structure FLR where
  /-- position in `lr_graph.lrs` -/
  id : Nat
  start : Nat
  /-- `end_time` (inclusive) -/
  end_ : Nat
  size : Nat
  inArea : Bool
  /-- some tensor of the range is a key of `self.scratched_fms` -/
  scratched : Bool
  /-- `competing_tens_access[lr.tensors[0]]` (only read for ranges that compete) -/
  score : Nat
deriving Repr, DecidableEq, Inhabited

def FLR.tlr (lr : FLR) : TLR := { start := lr.start, stop := lr.end_ + 1, size := lr.size, inArea := lr.inArea }

/-- `max(u[a:b])`; the maximum of an empty NumPy slice is a ValueError -/
def sliceMax (u : List Int) (a b : Nat) : Except Err Int :=
  match (u.zipIdx.filter fun p => a ≤ p.2 ∧ p.2 < b).map (·.1) with
  | [] => .error .value
  | x :: xs => .ok (xs.foldl max x)

/-- `for t in range(lr.start_time, lr.end_time + 1): u[t] += v` (indexing, not slicing) -/
def addTicks (u : List Int) (lr : FLR) (v : Int) : Except Err (List Int) :=
  if lr.start ≤ lr.end_ ∧ lr.end_ ≥ u.length then .error .index
  else .ok (addRange u lr.start (lr.end_ + 1) v)

/-- `FastStorageComponentAllocator.evict(lr, max_mem_usage, …)` (the usage part) -/
def evictUsage (maxU : List Int) (lr : FLR) : Except Err (List Int) := addTicks maxU lr (-(lr.size : Int))
/-- `FastStorageComponentAllocator.keep(lr, base_mem_usage)` -/
def keepUsage (baseU : List Int) (lr : FLR) : Except Err (List Int) := addTicks baseU lr lr.size

structure Exh where
  /-- `self.best_score` -/
  bestScore : Int
  /-- `self.evicted`: per range of the component, `true` = evicted -/
  evicted : List Bool
deriving Repr, DecidableEq, Inhabited

/-- `allocate_exhaustive(ix, score)` over the remaining ranges of the component; `curr` = `self.curr_evicted[:ix]` -/
def allocExh (limit : Int) : List FLR → Int → List Int → List Int → List Bool → Exh → Except Err Exh
  | [], score, _, _, curr, best =>
    .ok (if score > best.bestScore then { bestScore := score, evicted := curr } else best)
  | lr :: rest, score, baseU, maxU, curr, best =>
    sliceMax baseU lr.start (lr.end_ + 1) >>= fun bmax =>
    (if bmax + lr.size ≤ limit then
      keepUsage baseU lr >>= fun baseU' => allocExh limit rest (score + lr.score) baseU' maxU (curr ++ [false]) best
     else .ok best) >>= fun best1 =>
    sliceMax maxU lr.start (lr.end_ + 1) >>= fun mmax =>
    if !(mmax ≤ limit) then
      evictUsage maxU lr >>= fun maxU' => allocExh limit rest score baseU maxU' (curr ++ [true]) best1
    else .ok best1

/-- the mutable state shared by `use_fast_storage_for_feature_maps` and the component allocator -/
structure FS where
  /-- `base_mem_usage` -/
  baseU : List Int
  /-- `max_mem_usage` -/
  maxU : List Int
  /-- ids of the ranges `evict` was called for, in call order -/
  evicted : List Nat
  /-- ids of the ranges `keep` was called for, in call order -/
  kept : List Nat
  /-- `self.evicted_fms` (ids) -/
  evictedFms : List Nat
deriving Repr, Inhabited

def FS.evict (st : FS) (lr : FLR) (record : Bool) : Except Err FS := do
  let m ← evictUsage st.maxU lr
  .ok { st with maxU := m, evicted := st.evicted ++ [lr.id],
                evictedFms := if record && !st.evictedFms.contains lr.id then st.evictedFms ++ [lr.id] else st.evictedFms }

def FS.keep (st : FS) (lr : FLR) : Except Err FS := do
  let b ← keepUsage st.baseU lr
  .ok { st with baseU := b, kept := st.kept ++ [lr.id], evictedFms := st.evictedFms.filter (· != lr.id) }

/-- `allocate_component(lrs, …)` -/
def allocateComponent (limit : Int) (st : FS) (lrs : List FLR) : Except Err FS := do
  let best ← allocExh limit lrs 0 st.baseU st.maxU [] { bestScore := -1, evicted := lrs.map fun _ => false }
  (lrs.zip best.evicted).foldlM (init := st) fun st p => if p.2 then st.evict p.1 true else st.keep p.1

/-- "Evict live ranges that will never fit" -/
def neverFitPhase (limit : Int) : List FLR → FS → List FLR → Except Err (FS × List FLR)
  | [], st, remaining => .ok (st, remaining)
  | lr :: rest, st, remaining => do
    let bu ← sliceMax st.baseU lr.start (lr.end_ + 1)
    if bu + lr.size > limit then do
      -- `self.evicted_fms.append(lr)` without a membership test
      let st' ← st.evict lr false
      neverFitPhase limit rest { st' with evictedFms := st'.evictedFms ++ [lr.id] } remaining
    else neverFitPhase limit rest st (remaining ++ [lr])

/-- "Keep live ranges that will always fit in fast storage and let the remaining ones compete" -/
def alwaysFitPhase (limit : Int) : List FLR → FS → List FLR → Except Err (FS × List FLR)
  | [], st, competing => .ok (st, competing)
  | lr :: rest, st, competing => do
    let mu ← sliceMax st.maxU lr.start (lr.end_ + 1)
    if mu ≤ limit then do
      let st' ← st.keep lr
      alwaysFitPhase limit rest st' competing
    else alwaysFitPhase limit rest st (competing ++ [lr])

def maxItems : Nat := 20
def maxLifeRange : Nat := 20

/-- sort key `(lr.start_time, lr.end_time + 1, lr.size)`; `sorted` is stable -/
def flrLe (a b : FLR) : Bool :=
  a.start < b.start || (a.start == b.start && (a.end_ < b.end_ || (a.end_ == b.end_ && a.size ≤ b.size)))

/-- stable insertion sort (`sorted(competing_lrs, key=…)`): an element is placed in front of the first element of the sorted
    rest that is not smaller, so ranges with equal keys keep their order -/
def insertSorted (a : FLR) : List FLR → List FLR
  | [] => [a]
  | b :: r => if flrLe a b then a :: b :: r else b :: insertSorted a r

def sortFlr : List FLR → List FLR
  | [] => []
  | a :: r => insertSorted a (sortFlr r)

/-- the loop that removes ranges whose life time stands out (`copy` = the list it iterates over, `competing` = the list it
    removes from) -/
def longPhase (copy : List FLR) : List (FLR × Nat) → FS → List FLR → Except Err (FS × List FLR)
  | [], st, competing => .ok (st, competing)
  | (lr, i) :: rest, st, competing =>
    if lr.end_ - lr.start ≥ maxLifeRange then
      let cmpPos := min (i + maxItems) (competing.length - 1)
      match copy[cmpPos]? with
      | none => .error .index
      | some other =>
        if lr.end_ > other.end_ + maxLifeRange then do
          let st' ← st.evict lr false
          longPhase copy rest st' (competing.filter (·.id != lr.id))
        else longPhase copy rest st competing
    else longPhase copy rest st competing

/-- "Split competing live ranges into components": the loop computes index pairs `(start, i)` of consecutive groups and the
    caller slices `competing_lrs[start:end]`; here the groups themselves (`cur` = the group being filled, `nbr_items` = its
    length, `endTime` = `end_time`) -/
def components : List FLR → List FLR → Nat → List (List FLR)
  | [], cur, _ => [cur]
  | lr :: rest, cur, endTime =>
    if lr.start ≤ endTime && cur.length < maxItems then components rest (cur ++ [lr]) (max endTime lr.end_)
    else cur :: components rest [lr] lr.end_

structure FSResult where
  /-- `false`: the function returned before any range was evicted or kept ("all lrs fit") -/
  entered : Bool
  st : FS
  /-- `fixed_mem_usage` -/
  fixed : List Int
deriving Repr, Inhabited

/-- the end of `use_fast_storage_for_feature_maps`: split the competing ranges into components, allocate each, and the
    final assertion -/
def fastComponents (limit : Int) (fixed : List Int) (st3 : FS) (competing3 : List FLR) : Except Err FSResult :=
  match competing3 with
  | [] => .error .index       -- `competing_lrs[0]` of an empty list
  | first :: _ => do
    let comps := components competing3 [] first.end_
    let st4 ← comps.foldlM (init := st3) fun st c => allocateComponent limit st c
    -- the final assertion
    if (st4.maxU.zip fixed).all fun p => p.1 ≤ max limit p.2 then .ok { entered := true, st := st4, fixed := fixed }
    else .error .assert_

/-- `use_fast_storage_for_feature_maps` after the extraction of the live ranges: `lrs = lr_graph.lrs`,
    `ct = lr_graph.current_time`, `limit = staging_limit` -/
def useFastStorage (lrs : List FLR) (ct : Nat) (limit : Int) : Except Err FSResult := do
  let maxU ← temporalUsage (lrs.map (·.tlr)) ct
  let st0 : FS := { baseU := maxU, maxU := maxU, evicted := [], kept := [], evictedFms := [] }
  -- `max(max_mem_usage) <= staging_limit` (the array is never empty)
  if maxU.foldl max (maxU.headD 0) ≤ limit then .ok { entered := false, st := st0, fixed := maxU } else
  let curr := lrs.filter (·.scratched)
  -- `base_mem_usage[lr.start_time : lr.end_time + 1] -= lr.size` (slices)
  let baseU := curr.foldl (fun u lr => addRange u lr.start (lr.end_ + 1) (-(lr.size : Int))) maxU
  let fixed := baseU
  let (st1, curr1) ← neverFitPhase limit curr { st0 with baseU := baseU } []
  let (st2, competing) ← alwaysFitPhase limit curr1 st1 []
  if competing.isEmpty then .ok { entered := true, st := st2, fixed := fixed } else
  let sorted := sortFlr competing
  let (st3, competing3) ←
    if sorted.length > maxItems then longPhase sorted sorted.zipIdx st2 sorted else .ok (st2, sorted)
  fastComponents limit fixed st3 competing3

/-! ## `propose_operator_buffering`, the memory arithmetic of `propose_weight_buffering` -/

/-- `propose_operator_buffering`: `cost.slack_buffering_memory` and `buffer_limit_bytes`.
    `snapshot[t]` is read only when `t < len(memory_snapshot)`; the test `buffer_limit / evicted >= 1.5` is a float
    division in Python, exact for the magnitudes that occur (`2·limit ≥ 3·evicted`). -/
def operatorBuffering (snapshot : List Int) (t : Nat) (stagingLimit : Int) (evictedFmsSize : Nat) : Int × Int :=
  let refUsage := snapshot.getD t 0
  let slack := stagingLimit - refUsage
  let bufferLimit := if evictedFmsSize != 0 && 2 * slack ≥ 3 * (evictedFmsSize : Int) then slack - evictedFmsSize else slack
  (slack, bufferLimit)

structure WeightBuffers where
  /-- sizes of `cost.buffered_weight_tensors` -/
  buffers : List Nat
  doubleBuffer : Bool
  preBuffer : Bool
  /-- what is subtracted from `cost.slack_buffering_memory` -/
  slackUsed : Nat
deriving Repr, DecidableEq, Inhabited

/-- the tail of `propose_weight_buffering` ("Determine whether the weights need to be double buffered"):
    `bufLen = len(encoded_weights.buffer)`, `(db0, db1) = encoded_weights.double_buffer_sizes`,
    `nSlices = len(cost.ofm_depth_slices)`, `cascade = ref_cost.cascade`, `prevSlack = slack_memory` -/
def weightBufferDecision (bufferLimit : Int) (bufLen db0 db1 nSlices cascade : Nat) (prevSlack : Int) :
    Except Err (Option WeightBuffers) :=
  let wbs := min bufLen (max db0 db1)
  if (wbs : Int) ≤ bufferLimit then
    if wbs % 16 != 0 then .error .assert_ else
    let dbl := decide (((db0 + db1 : Nat) : Int) ≤ bufferLimit) && decide (wbs < bufLen)
    let buffers := if dbl then [db0, db1] else [wbs]
    let used := if dbl then (if nSlices % 2 == 0 then db0 else db1) else wbs
    let pre := cascade == 0 && decide (((db0 + db1 : Nat) : Int) < prevSlack)
    .ok (some { buffers := buffers, doubleBuffer := dbl, preBuffer := pre, slackUsed := used })
  else .ok none

/-- `double_buffer_sizes` of `encode_weight_and_scale_tensor`: per parity of the slice index the largest encoded slice -/
def doubleBufferSizes (sliceBytes : List Nat) : Nat × Nat :=
  sliceBytes.zipIdx.foldl (fun acc p => if p.2 % 2 == 0 then (max acc.1 p.1, acc.2) else (acc.1, max acc.2 p.1)) (0, 0)

end VelaVerif.SchedMem
