import VelaVerif.Model.TfliteWriter
import VelaVerif.Model.TfliteReader
/-! A small graph description used by the non-vacuity examples of Props/C11Writer.lean: a CPU subgraph with a convolution whose
constant weights were cloned by the reader (`w_reshape`, `src_tensor = w`) and whose bias is absent, a third-party custom
operator in two versions, an unused original input, tensors in the arena (buffer 0, offsets in the plan) and a scratch tensor. -/
namespace VelaVerif.Tflite.Demo

def bytes (s : String) : Bytes := s.toUTF8.toList.map (·.toNat)

def q8 : QuantD := { min := none, max := some [1065353216], scale := some [1056964608], zeroPoint := some [-3], quantDim := none }

def t (name : String) (shape : List Int) (dtype : String) (quant : Option QuantD) (values : Option Data) (memType : Nat)
    (address : Option Int) (src : Option Nat := none) (purpose : Nat := 2) : TensorD :=
  { name := bytes name, shape := shape, originalShape := shape, dtype := dtype, quant := quant, values := values, isVariable := false,
    purpose := purpose, memArea := 1, memType := memType, address := address, src := src }

def noOpts : Payload := { optType := 0, opts := none, custom := none, customFormat := 0 }

def tensors : List TensorD :=
  [ t "x" [1, 4, 4, 2] "int8" (some q8) none 3 (some 0),                                   -- 0: input, in the arena
    t "w" [2, 1, 1, 2] "int8" (some q8) (some (.raw [1, 2, 3, 4])) 2 none,                 -- 1: original weights
    t "w_reshape" [1, 1, 2, 2] "int8" (some q8) (some (.digest 4 "clone")) 1 none (some 1), -- 2: the reader's clone
    t "y" [1, 4, 4, 2] "int8" (some q8) none 3 (some 32),                                  -- 3: convolution result
    t "z" [1, 4, 4, 2] "int8" none none 3 (some 64),                                       -- 4: custom operator result
    t "unused" [1] "float32" none none 0 none,                                             -- 5: an original input nobody reads
    t "a_scratch" [128] "uint8" none none 3 none none 3,                                   -- 6: the scratch tensor
    t "v" [1, 4, 4, 2] "int8" none none 3 (some 96) ]                                      -- 7: second custom operator result

def conv : OpD :=
  { type := "Conv2DBias", customCode := [], version := 3, inputs := [some 0, some 2, none], outputs := [some 3], intermediates := [],
    payload := { optType := 1, opts := some "~0.00", custom := none, customFormat := 0 } }

def custom (v : Int) (i o : Nat) : OpD :=
  { type := "Custom", customCode := bytes "Foo", version := v, inputs := [some i, some 6], outputs := [some o], intermediates := [],
    payload := { optType := 0, opts := none, custom := some "0102", customFormat := 0 } }

def startup (type : String) (o : Nat) : OpD :=
  { type := type, customCode := [], version := 1, inputs := [], outputs := [some o], intermediates := [], payload := noOpts }

def sg : SubgraphD :=
  { name := bytes "main", cpu := true,
    ops := [startup "Placeholder" 0, startup "Const" 2, conv, custom 2 3 4, custom 1 4 7],
    originalInputs := [0, 5], inputTensors := [0], outputTensors := [7], originalOutputPositions := some [0, 0], virtualOutputs := [] }

def npu : SubgraphD :=
  { name := bytes "npu", cpu := false, ops := [], originalInputs := [], inputTensors := [], outputTensors := [],
    originalOutputPositions := none, virtualOutputs := [] }

def demo : Desc := { tensors := tensors, subgraphs := [sg, npu], metadata := [], version := bytes "3.10.0" }

end VelaVerif.Tflite.Demo
