import VelaVerif.Model.TfliteTree
/-!
# Text form of table trees and graph descriptions (line protocol syntax; harness/wtree.py writes the same form)

Tokens are separated by blanks; `(` and `)` are tokens of their own. Atoms: decimal integers, `-` (absent), `x<hex>` (byte
string), `s<text>` (opaque text without blanks), `r<hex>` / `d<len>.<digest>` (constant data: raw bytes / length + digest).
Records are lists whose first atom is a label; fields are positional:

```
( model s<fileid> <version> ( <oc>… ) ( <sg>… ) <description> ( <b>… ) ( <m>… ) ( <extra slot>… ) )
( oc <deprecated> <custom code> <version> <builtin> ( extra ) )
( sg ( <t>… ) <inputs> <outputs> ( <op>… ) <name> ( extra ) )
( t <shape> <type> <buffer> <name> <quant> <is_variable> ( extra ) )         quant: - | ( q <min> <max> <scale> <zero_point> <qdim> ( extra ) )
( op <opcode_index> <inputs> <outputs> <options type> <options> <custom options> <format> <mutating> <intermediates> ( extra ) )
( b <data> ( extra ) )        ( m <name> <buffer> ( extra ) )
( desc ( <td>… ) ( <sd>… ) ( <md>… ) <version> )
( td <name> ( shape ) ( original shape ) s<dtype> <quant> <values> <is_variable> <purpose> <mem_area> <mem_type> <address> <src> <range> )
     quant: - | ( qd <min> <max> <scale> <zero_point> <quant_dim> )      range: - | ( <lo> <hi> )
( od s<type> <custom code> <version> ( inputs ) ( outputs ) ( intermediates ) <options type> <options> <custom options> <format> )
( sd <name> <cpu> ( <od>… ) ( original inputs ) ( input tensors ) ( output tensors ) <original output positions> ( ( <tensor> <producer> )… ) )
( md <name is bytes> <name> <data> )
```
Optional vectors are `-` or a list.
-/
namespace VelaVerif.Tflite

inductive Sx
  | atom (s : String)
  | list (l : List Sx)
deriving Repr, Inhabited

/-- parse a token sequence into the sequence of top-level expressions -/
def Sx.parseAll (toks : List String) : Option (List Sx) :=
  let step (st : Option (List (List Sx))) (tok : String) : Option (List (List Sx)) :=
    match st with
    | none => none
    | some stack =>
      if tok == "(" then some ([] :: stack)
      else if tok == ")" then
        match stack with
        | top :: below :: rest => some ((Sx.list top.reverse :: below) :: rest)
        | _ => none
      else
        match stack with
        | top :: rest => some ((Sx.atom tok :: top) :: rest)
        | [] => none
  match toks.foldl step (some [[]]) with
  | some [top] => some top.reverse
  | _ => none

mutual
  def Sx.tokens : Sx → List String
    | .atom s => [s]
    | .list l => "(" :: (Sx.tokensList l ++ [")"])
  def Sx.tokensList : List Sx → List String
    | [] => []
    | x :: xs => Sx.tokens x ++ Sx.tokensList xs
end

def Sx.text (x : Sx) : String := " ".intercalate x.tokens

def Sx.head : Sx → String
  | .list (.atom h :: _) => h
  | .atom s => s
  | _ => "?"

mutual
  /-- first difference of two expressions: path of `label/position` steps and the two differing pieces -/
  def Sx.diff (path : String) : Sx → Sx → Option (String × String × String)
    | .atom a, .atom b => if a == b then none else some (path, a, b)
    | .list a, .list b => Sx.diffList path 0 a b
    | .atom a, .list _ => some (path, a, "(…)")
    | .list _, .atom b => some (path, "(…)", b)
  def Sx.diffList (path : String) (k : Nat) : List Sx → List Sx → Option (String × String × String)
    | [], [] => none
    | a :: as, b :: bs =>
      match Sx.diff (path ++ "/" ++ toString k ++ ":" ++ a.head) a b with
      | some r => some r
      | none => Sx.diffList path (k + 1) as bs
    | a :: _, [] => some (path ++ "/" ++ toString k, a.head, "<end>")
    | [], b :: _ => some (path ++ "/" ++ toString k, "<end>", b.head)
end

/-! ## atoms -/

def hexVal (c : Char) : Option Nat :=
  if '0' ≤ c ∧ c ≤ '9' then some (c.toNat - '0'.toNat)
  else if 'a' ≤ c ∧ c ≤ 'f' then some (c.toNat - 'a'.toNat + 10)
  else none

def unhex : List Char → Option (List Nat)
  | [] => some []
  | a :: b :: rest => do
    let x ← hexVal a
    let y ← hexVal b
    let r ← unhex rest
    some ((x * 16 + y) :: r)
  | [_] => none

def hexDigit (n : Nat) : Char := "0123456789abcdef".toList.getD n '?'
def hexOf (l : List Nat) : String := String.ofList (l.flatMap fun b => [hexDigit (b / 16 % 16), hexDigit (b % 16)])

def decBytes : Sx → Option Bytes
  | .atom s => match s.toList with
    | 'x' :: rest => unhex rest
    | _ => none
  | _ => none

def decOpt (f : Sx → Option α) : Sx → Option (Option α)
  | .atom "-" => some none
  | x => (f x).map some

def decNat : Sx → Option Nat
  | .atom s => s.toNat?
  | _ => none

def decInt : Sx → Option Int
  | .atom s => s.toInt?
  | _ => none

def decBool : Sx → Option Bool
  | .atom "0" => some false
  | .atom "1" => some true
  | _ => none

def decStr : Sx → Option String
  | .atom s => match s.toList with
    | 's' :: rest => some (String.ofList rest)
    | _ => none
  | _ => none

def decList (f : Sx → Option α) : Sx → Option (List α)
  | .list l => l.mapM f
  | _ => none

def decData : Sx → Option Data
  | .atom s => match s.toList with
    | 'r' :: rest => (unhex rest).map Data.raw
    | 'd' :: rest =>
      match (String.ofList rest).splitOn "." with
      | [n, dg] => n.toNat?.map fun k => Data.digest k dg
      | _ => none
    | _ => none
  | _ => none

def encBytes (b : Bytes) : Sx := .atom ("x" ++ hexOf b)
def encOpt (f : α → Sx) : Option α → Sx
  | none => .atom "-"
  | some a => f a
def encNat (n : Nat) : Sx := .atom (toString n)
def encInt (n : Int) : Sx := .atom (toString n)
def encBool (b : Bool) : Sx := .atom (if b then "1" else "0")
def encStr (s : String) : Sx := .atom ("s" ++ s)
def encList (f : α → Sx) (l : List α) : Sx := .list (l.map f)
def encData : Data → Sx
  | .raw b => .atom ("r" ++ hexOf b)
  | .digest n d => .atom ("d" ++ toString n ++ "." ++ d)

/-! ## the file -/

def decOpCode : Sx → Option OpCodeT
  | .list [.atom "oc", dep, cu, ver, bi, ex] => do
    some { deprecated := ← decInt dep, custom := ← decOpt decBytes cu, version := ← decInt ver, builtin := ← decInt bi,
           extra := ← decList decNat ex }
  | _ => none

def decQuantT : Sx → Option QuantT
  | .list [.atom "q", mn, mx, sc, zp, qd, ex] => do
    some { min := ← decOpt (decList decNat) mn, max := ← decOpt (decList decNat) mx, scale := ← decOpt (decList decNat) sc,
           zeroPoint := ← decOpt (decList decInt) zp, quantDim := ← decInt qd, extra := ← decList decNat ex }
  | _ => none

def decTensorT : Sx → Option TensorT
  | .list [.atom "t", sh, ty, bu, nm, q, iv, ex] => do
    some { shape := ← decOpt (decList decInt) sh, type := ← decNat ty, buffer := ← decNat bu, name := ← decOpt decBytes nm,
           quant := ← decOpt decQuantT q, isVariable := ← decBool iv, extra := ← decList decNat ex }
  | _ => none

def decOperatorT : Sx → Option OperatorT
  | .list [.atom "op", oi, ins, outs, ot, o, c, cf, mu, im, ex] => do
    some { opcodeIndex := ← decNat oi, inputs := ← decOpt (decList decInt) ins, outputs := ← decOpt (decList decInt) outs,
           payload := { optType := ← decNat ot, opts := ← decOpt decStr o, custom := ← decOpt decStr c, customFormat := ← decInt cf },
           mutating := ← decOpt (decList decNat) mu, intermediates := ← decOpt (decList decInt) im, extra := ← decList decNat ex }
  | _ => none

def decSubGraphT : Sx → Option SubGraphT
  | .list [.atom "sg", ts, ins, outs, ops, nm, ex] => do
    some { tensors := ← decList decTensorT ts, inputs := ← decOpt (decList decInt) ins, outputs := ← decOpt (decList decInt) outs,
           operators := ← decList decOperatorT ops, name := ← decOpt decBytes nm, extra := ← decList decNat ex }
  | _ => none

def decBufferT : Sx → Option BufferT
  | .list [.atom "b", d, ex] => do some { data := ← decOpt decData d, extra := ← decList decNat ex }
  | _ => none

def decMetadataT : Sx → Option MetadataT
  | .list [.atom "m", nm, b, ex] => do some { name := ← decOpt decBytes nm, buffer := ← decNat b, extra := ← decList decNat ex }
  | _ => none

def decModelT : Sx → Option ModelT
  | .list [.atom "model", fid, ver, ocs, sgs, ds, bs, ms, ex] => do
    some { fileId := ← decStr fid, version := ← decNat ver, opcodes := ← decList decOpCode ocs, subgraphs := ← decList decSubGraphT sgs,
           description := ← decOpt decBytes ds, buffers := ← decList decBufferT bs, metadata := ← decList decMetadataT ms,
           extra := ← decList decNat ex }
  | _ => none

def encOpCode (c : OpCodeT) : Sx :=
  .list [.atom "oc", encInt c.deprecated, encOpt encBytes c.custom, encInt c.version, encInt c.builtin, encList encNat c.extra]

def encQuantT (q : QuantT) : Sx :=
  .list [.atom "q", encOpt (encList encNat) q.min, encOpt (encList encNat) q.max, encOpt (encList encNat) q.scale,
         encOpt (encList encInt) q.zeroPoint, encInt q.quantDim, encList encNat q.extra]

def encTensorT (t : TensorT) : Sx :=
  .list [.atom "t", encOpt (encList encInt) t.shape, encNat t.type, encNat t.buffer, encOpt encBytes t.name, encOpt encQuantT t.quant,
         encBool t.isVariable, encList encNat t.extra]

def encOperatorT (o : OperatorT) : Sx :=
  .list [.atom "op", encNat o.opcodeIndex, encOpt (encList encInt) o.inputs, encOpt (encList encInt) o.outputs, encNat o.payload.optType,
         encOpt encStr o.payload.opts, encOpt encStr o.payload.custom, encInt o.payload.customFormat, encOpt (encList encNat) o.mutating,
         encOpt (encList encInt) o.intermediates, encList encNat o.extra]

def encSubGraphT (s : SubGraphT) : Sx :=
  .list [.atom "sg", encList encTensorT s.tensors, encOpt (encList encInt) s.inputs, encOpt (encList encInt) s.outputs,
         encList encOperatorT s.operators, encOpt encBytes s.name, encList encNat s.extra]

def encBufferT (b : BufferT) : Sx := .list [.atom "b", encOpt encData b.data, encList encNat b.extra]
def encMetadataT (m : MetadataT) : Sx := .list [.atom "m", encOpt encBytes m.name, encNat m.buffer, encList encNat m.extra]

def encModelT (m : ModelT) : Sx :=
  .list [.atom "model", encStr m.fileId, encNat m.version, encList encOpCode m.opcodes, encList encSubGraphT m.subgraphs,
         encOpt encBytes m.description, encList encBufferT m.buffers, encList encMetadataT m.metadata, encList encNat m.extra]

/-! ## the description -/

def decQuantD : Sx → Option QuantD
  | .list [.atom "qd", mn, mx, sc, zp, qd] => do
    some { min := ← decOpt (decList decNat) mn, max := ← decOpt (decList decNat) mx, scale := ← decOpt (decList decNat) sc,
           zeroPoint := ← decOpt (decList decInt) zp, quantDim := ← decOpt decInt qd }
  | _ => none

def decRange : Sx → Option (Int × Int)
  | .list [lo, hi] => do some (← decInt lo, ← decInt hi)
  | _ => none

def decTensorD : Sx → Option TensorD
  | .list [.atom "td", nm, sh, osh, dt, q, v, iv, pu, ma, mt, ad, src, rg] => do
    some { name := ← decBytes nm, shape := ← decList decInt sh, originalShape := ← decList decInt osh, dtype := ← decStr dt,
           quant := ← decOpt decQuantD q, values := ← decOpt decData v, isVariable := ← decBool iv, purpose := ← decNat pu,
           memArea := ← decNat ma, memType := ← decNat mt, address := ← decOpt decInt ad, src := ← decOpt decNat src,
           range := ← decOpt decRange rg }
  | _ => none

def decOpD : Sx → Option OpD
  | .list [.atom "od", ty, cc, ver, ins, outs, im, ot, o, c, cf] => do
    some { type := ← decStr ty, customCode := ← decBytes cc, version := ← decInt ver, inputs := ← decList (decOpt decNat) ins,
           outputs := ← decList (decOpt decNat) outs, intermediates := ← decList (decOpt decNat) im,
           payload := { optType := ← decNat ot, opts := ← decOpt decStr o, custom := ← decOpt decStr c, customFormat := ← decInt cf } }
  | _ => none

def decVirtual : Sx → Option (Nat × Option Nat)
  | .list [t, k] => do some (← decNat t, ← decOpt decNat k)
  | _ => none

def decSubgraphD : Sx → Option SubgraphD
  | .list [.atom "sd", nm, cpu, ops, oi, it, ot, pos, vo] => do
    some { name := ← decBytes nm, cpu := ← decBool cpu, ops := ← decList decOpD ops, originalInputs := ← decList decNat oi,
           inputTensors := ← decList decNat it, outputTensors := ← decList decNat ot,
           originalOutputPositions := ← decOpt (decList decNat) pos, virtualOutputs := ← decList decVirtual vo }
  | _ => none

def decMetaD : Sx → Option MetaD
  | .list [.atom "md", ib, nm, d] => do some { nameIsBytes := ← decBool ib, name := ← decBytes nm, data := ← decOpt decData d }
  | _ => none

def decDesc : Sx → Option Desc
  | .list [.atom "desc", ts, sgs, ms, ver] => do
    some { tensors := ← decList decTensorD ts, subgraphs := ← decList decSubgraphD sgs, metadata := ← decList decMetaD ms,
           version := ← decBytes ver }
  | _ => none

def encQuantD (q : QuantD) : Sx :=
  .list [.atom "qd", encOpt (encList encNat) q.min, encOpt (encList encNat) q.max, encOpt (encList encNat) q.scale,
         encOpt (encList encInt) q.zeroPoint, encOpt encInt q.quantDim]

def encTensorD (t : TensorD) : Sx :=
  .list [.atom "td", encBytes t.name, encList encInt t.shape, encList encInt t.originalShape, encStr t.dtype, encOpt encQuantD t.quant,
         encOpt encData t.values, encBool t.isVariable, encNat t.purpose, encNat t.memArea, encNat t.memType, encOpt encInt t.address,
         encOpt encNat t.src, encOpt (fun r : Int × Int => .list [encInt r.1, encInt r.2]) t.range]

def encOpD (o : OpD) : Sx :=
  .list [.atom "od", encStr o.type, encBytes o.customCode, encInt o.version, encList (encOpt encNat) o.inputs,
         encList (encOpt encNat) o.outputs, encList (encOpt encNat) o.intermediates, encNat o.payload.optType,
         encOpt encStr o.payload.opts, encOpt encStr o.payload.custom, encInt o.payload.customFormat]

def encSubgraphD (s : SubgraphD) : Sx :=
  .list [.atom "sd", encBytes s.name, encBool s.cpu, encList encOpD s.ops, encList encNat s.originalInputs, encList encNat s.inputTensors,
         encList encNat s.outputTensors, encOpt (encList encNat) s.originalOutputPositions,
         encList (fun v : Nat × Option Nat => .list [encNat v.1, encOpt encNat v.2]) s.virtualOutputs]

def encMetaD (m : MetaD) : Sx := .list [.atom "md", encBool m.nameIsBytes, encBytes m.name, encOpt encData m.data]

def encDesc (d : Desc) : Sx :=
  .list [.atom "desc", encList encTensorD d.tensors, encList encSubgraphD d.subgraphs, encList encMetaD d.metadata, encBytes d.version]

end VelaVerif.Tflite
