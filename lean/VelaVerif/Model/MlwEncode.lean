import VelaVerif.Model.MlwDecode
import VelaVerif.Model.MlwFrame
/-!
# The bit-stream writing half of the MLW encoder (transcription of `ethosu/mlw_codec/mlw_encode.c`)

`mlw_encode` works in two halves.  The *search* half decides **what** to write: where a palette is
restarted (`search_palette_sections`), which values go into the palette and whether zero runs are used
(`find_palette`/`create_palette`), and which GRC parameters each slice uses (`search_grc_params` plus the
merge loop of `encode_section`).  The *writer* half turns those decisions and the weights into bits:
`create_inverse_palette`, the weight-index / zero-run extraction of `encode_section`, `encode_slice`
(header, palette, interleaved chunks) and the end-of-stream frame of `mlw_encode`.

This file models the writer half only.  The decisions of the search half are an *input*, the `Plan`:
losslessness cannot depend on how they were found, only on the writer and the decoder agreeing for
whatever was chosen (`Props/C07Encode.lean`, `decode_encode_plan`).  The real encoder's plans are observed
by the harness (`harness/c07_plan_shim.c`) and `write plan ws` is compared byte for byte with the real
stream.

Transcription rules: C `int` accumulators that are assembled with `|= 1<<j` stay integers (`Nat`) and are
written with `putBits` (= `bitbuf_put`); `w_q`/`z_q`/`w_r`/`z_r`, which go negative, are `Int`;
`w_value + w_pos` (a pointer into the slice's values together with the guard `w_pos<nvalues`) is the list
of values not yet finished; `assert`s are rejections (`EncErr`); the `do … while` loop takes fuel
(`Props/C07Encode.lean` shows the fuel given by `encodeSlice` is never exhausted for a well-formed plan).
-/
namespace VelaVerif.MlwEnc
open VelaVerif.Mlw

inductive EncErr where
  /-- `mlw_encode` returns -1: a weight outside -255..255 -/
  | weightRange
  /-- `assert(value<512)` of `encode_slice`, or a negative weight index (`inv_lut` entry below zero: the C
      code has no check and would write garbage) -/
  | valueRange
  /-- `assert( w_q<=31 && (!w_grc_trunc || w_q<=2))` -/
  | quotientRange
  /-- `assert(nvalues<32768)`; also `nvalues = 0`, for which the C code writes SLICELEN = -1 -/
  | sliceLen
  /-- `w_cfg`/`z_cfg` outside `w_grc_params`/`z_grc_params` (the C code would read past the table) -/
  | badCfg
  /-- the plan is not a plan for this input: section sizes or slice lengths do not add up -/
  | planMismatch
  /-- loop fuel exhausted (never happens for a well-formed plan) -/
  | fuel
deriving Repr, DecidableEq, Inhabited

def EncErr.toString : EncErr → String
  | .weightRange => "weightRange" | .valueRange => "valueRange" | .quotientRange => "quotientRange"
  | .sliceLen => "sliceLen" | .badCfg => "badCfg" | .planMismatch => "planMismatch" | .fuel => "fuel"

/-! ## The plan: what the search half hands to the writer -/

/-- `palette_t` as `find_palette` leaves it (`inv_lut` is a function of these fields: `invLut`) -/
structure PalPlan where
  /-- `p->lut[0..palsize)`: sign-folded 9-bit values `(mag<<1)|sign` -/
  lut : List Nat
  palbits : Nat
  useZeroRuns : Bool
  onlyPalette : Bool
  directOffset : Nat
  onlyZeros : Bool
deriving Repr, DecidableEq

def PalPlan.palsize (p : PalPlan) : Nat := p.lut.length

/-- the arguments of one `encode_slice` call that come out of `search_grc_params` and the merge loop -/
structure SlicePlan where
  /-- `nvalues` -/
  len : Nat
  /-- index into `w_grc_params` -/
  wCfg : Nat
  /-- index into `z_grc_params` (0 when zero runs are not used) -/
  zCfg : Nat
deriving Repr, DecidableEq

/-- one palette section: `palette_restart_pos[i+1] - palette_restart_pos[i]` weights, its palette, its slices -/
structure SectionPlan where
  size : Nat
  pal : PalPlan
  slices : List SlicePlan
deriving Repr, DecidableEq

abbrev Plan := List SectionPlan

/-! ## `create_inverse_palette` (mlw_encode.c 359-381) -/

/-- `sign ? -mag : mag` of a sign-folded value -/
def unfold (v : Nat) : Int := if v % 2 == 1 then -((v / 2 : Nat) : Int) else ((v / 2 : Nat) : Int)

/-- the last `i` with `inv_lut[weight+256] = i + …` in the first loop: `2·|w|` for positive weights,
    `2·|w|+1` for negative ones **and for 0** (`i = 1` is "−0" and overwrites the entry of `i = 0`) -/
def foldDirect (w : Int) : Nat := if w ≤ 0 then 2 * w.natAbs + 1 else 2 * w.natAbs

/-- the last palette index whose entry unfolds to `w` (the second loop overwrites in index order) -/
def lastIdx (w : Int) : List Nat → Nat → Option Nat → Option Nat
  | [], _, acc => acc
  | v :: vs, i, acc => lastIdx w vs (i + 1) (if unfold v == w then some i else acc)

/-- `p->inv_lut[w+256]` for `-255 ≤ w ≤ 255` -/
def invLut (p : PalPlan) (w : Int) : Int :=
  match lastIdx w p.lut 0 none with
  | some i => (i : Int)
  | none => (foldDirect w : Int) + (p.palsize : Int) - (p.directOffset : Int)

/-! ## `encode_slice` (mlw_encode.c 553-718) -/

/-- `(trunc<<4) | div`, `0x20` = uncompressed (mlw_encode.c 394) -/
def wGrcParams : List Nat := [0x00, 0x01, 0x02, 0x03, 0x04, 0x05, 0x10, 0x11, 0x12, 0x13, 0x14, 0x15, 0x20]
/-- (mlw_encode.c 395) -/
def zGrcParams : List Nat := [0x00, 0x01, 0x02, 0x03, 0x04]

/-- one GRC stream of a slice between chunks: the values from `w_pos` on, `w_pos`, `w_q`, `w_r` -/
structure Strm where
  todo : List Nat
  pos : Nat := 0
  q : Int := -1
  r : Int := 0
deriving Repr

/-- lines 629-640 / 666-675: when no value is in progress take the next one, or a padding symbol
    (`q = 0`, `r = -1`: no remainder is sent) behind the last value -/
def load (div : Nat) (s : Strm) : Strm :=
  if s.q < 0 then
    match s.todo with
    | v :: _ => { s with q := ((v >>> div : Nat) : Int), r := ((v &&& ((1 <<< div) - 1) : Nat) : Int) }
    | [] => { s with q := 0, r := -1 }
  else s

/-- lines 652-656 / 681-685: a value whose last symbol was written leaves its remainder and advances the position -/
def finish (s : Strm) (rem : List Nat) : Strm × List Nat :=
  if s.q < 0 && s.r ≥ 0 then ({ s with todo := s.todo.tail, pos := s.pos + 1 }, rem ++ [s.r.toNat]) else (s, rem)

/-- what a weight chunk accumulates -/
structure WAcc where
  unary0 : Nat := 0
  unary1 : Nat := 0
  unary1Len : Nat := 0
  /-- `w_remain[0..w_nsymbols)` -/
  remain : List Nat := []
deriving Repr

/-- one symbol `j` of a weight chunk.  The C code nests `while(j<max_symbols) { load; while(w_q>=0 &&
    j<max_symbols) {symbol}; finish }`; every pass of the inner loop writes one symbol, `load` only acts when
    `w_q<0` and `finish` only when `w_q<0` again, so "load; symbol; finish" per symbol is the same computation. -/
def wSym (div : Nat) (trunc : Bool) (j : Nat) (s0 : Strm) (a : WAcc) : Strm × WAcc :=
  let s := load div s0
  let u0 := a.unary0 ||| (if s.q > 0 then 1 <<< j else 0)
  let u1 := if s.q > 0 then a.unary1 ||| (if s.q > 1 then 1 <<< a.unary1Len else 0) else a.unary1
  let l1 := if s.q > 0 then a.unary1Len + 1 else a.unary1Len
  let f := finish { s with q := s.q - 2 - (if trunc then 1 else 0) } a.remain
  (f.1, { unary0 := u0, unary1 := u1, unary1Len := l1, remain := f.2 })

/-- symbols `j … j+n-1` of a weight chunk -/
def wSyms (div : Nat) (trunc : Bool) : (n j : Nat) → Strm → WAcc → Strm × WAcc
  | 0, _, s, a => (s, a)
  | n + 1, j, s, a => let r := wSym div trunc j s a; wSyms div trunc n (j + 1) r.1 r.2

/-- what a zero-run chunk accumulates -/
structure ZAcc where
  unary : Nat := 0
  remain : List Nat := []
deriving Repr

/-- one symbol of a zero-run chunk (lines 665-686, flattened like `wSym`) -/
def zSym (div : Nat) (j : Nat) (s0 : Strm) (a : ZAcc) : Strm × ZAcc :=
  let s := load div s0
  let u := a.unary ||| (if s.q > 0 then 1 <<< j else 0)
  let f := finish { s with q := s.q - 1 } a.remain
  (f.1, { unary := u, remain := f.2 })

def zSyms (div : Nat) : (n j : Nat) → Strm → ZAcc → Strm × ZAcc
  | 0, _, s, a => (s, a)
  | n + 1, j, s, a => let r := zSym div j s a; zSyms div n (j + 1) r.1 r.2

/-- per-slice constants of the chunk loop -/
structure ECfg where
  useZ : Bool
  /-- `w_grc_div` (`uncompressed_bits` in uncompressed mode) -/
  wDiv : Nat
  wTrunc : Bool
  wUnc : Bool
  zDiv : Nat
  nvalues : Nat
  zNvalues : Nat
deriving Repr

def ECfg.maxSymbols (c : ECfg) : Nat := if c.wUnc && c.wDiv > 5 then 8 else 12
def ECfg.zUnaryLen (c : ECfg) : Nat := if c.zDiv < 3 then 12 else 8

/-- loop state of `do { … } while( w_prev_enable || z_prev_enable )`.  `w_prev_remain` is a copy of
    `w_remain` after every iteration, so one field holds both (likewise `w_prev_nsymbols`). -/
structure EState where
  w : Strm
  z : Strm
  wPrevEn : Bool := false
  zPrevEn : Bool := false
  wPrevRemain : List Nat := []
  zPrevRemain : List Nat := []
deriving Repr

/-- `for(i<n) bitbuf_put(bb, "WREMAIN", div, remain[i])` -/
def putRemains (div : Nat) : List Nat → List Bool
  | [] => []
  | r :: rs => putBits div r ++ putRemains div rs

def wEnableE (c : ECfg) (s : EState) : Bool :=
  let balance : Int := if c.useZ then (s.w.pos : Int) - (s.z.pos : Int) else 0
  decide (balance < 8) && decide (s.w.pos < c.nvalues)

def zEnableE (c : ECfg) (s : EState) : Bool :=
  let balance : Int := if c.useZ then (s.w.pos : Int) - (s.z.pos : Int) else 0
  decide (balance ≥ 0) && c.useZ && decide (s.z.pos < c.zNvalues)

/-- the weight chunk of this iteration (lines 620-658); a disabled stream keeps its state -/
def wChunk (c : ECfg) (s : EState) : Strm × WAcc :=
  if wEnableE c s then wSyms c.wDiv c.wTrunc c.maxSymbols 0 s.w {} else (s.w, { remain := s.wPrevRemain })

/-- the zero-run chunk of this iteration (lines 660-687) -/
def zChunk (c : ECfg) (s : EState) : Strm × ZAcc :=
  if zEnableE c s then zSyms c.zDiv c.zUnaryLen 0 s.z {} else (s.z, { remain := s.zPrevRemain })

/-- "Write chunk to bitstream" (lines 689-708) -/
def chunkBits (c : ECfg) (s : EState) : List Bool :=
  let wEn := wEnableE c s
  let zEn := zEnableE c s
  let w := (wChunk c s).2
  let z := (zChunk c s).2
  (if wEn && !c.wUnc then putBits 12 w.unary0 else []) ++
  (if zEn then putBits c.zUnaryLen z.unary else []) ++
  (if wEn && !c.wUnc then putBits w.unary1Len w.unary1 else []) ++
  (if s.wPrevEn then putRemains c.wDiv s.wPrevRemain else []) ++
  (if s.zPrevEn then putRemains c.zDiv s.zPrevRemain else [])

/-- lines 709-714 -/
def nextState (c : ECfg) (s : EState) : EState :=
  { w := (wChunk c s).1, z := (zChunk c s).1, wPrevEn := wEnableE c s, zPrevEn := zEnableE c s,
    wPrevRemain := (wChunk c s).2.remain, zPrevRemain := (zChunk c s).2.remain }

/-- the chunk loop of one slice -/
def encLoop (c : ECfg) : Nat → EState → Except EncErr (List Bool)
  | 0, _ => .error .fuel
  | f + 1, s =>
    if wEnableE c s || zEnableE c s then
      match encLoop c f (nextState c s) with
      | .error e => .error e
      | .ok bits => .ok (chunkBits c s ++ bits)
    else .ok (chunkBits c s)

/-- every iteration but the last finishes at least one symbol of a real value: a weight value `v` has at most
    `v/2+1` symbols, a zero run `z` at most `z+1` -/
def loopFuel (wv zv : List Nat) : Nat := wv.sum + zv.sum + wv.length + zv.length + 2

/-- "GRC parameters for this slice" (lines 574-582) -/
structure GrcCfg where
  /-- `w_grc_div` (`uncompressed_bits` in uncompressed mode) -/
  wDiv : Nat
  wTrunc : Bool
  wUnc : Bool
  zDiv : Nat
deriving Repr, DecidableEq

def grcCfg (ubits wCfg zCfg : Nat) : Option GrcCfg :=
  match wGrcParams[wCfg]?, zGrcParams[zCfg]? with
  | some wp, some zp =>
    let wUnc := (wp >>> 4) == 2
    some { wDiv := if wUnc then ubits else wp &&& 15, wTrunc := (wp >>> 4) == 1, wUnc := wUnc, zDiv := zp &&& 15 }
  | _, _ => none

/-- the `ZDIV` and `WDIV` header fields (lines 584-585) -/
def GrcCfg.zdivField (g : GrcCfg) (useZ : Bool) : Nat := if useZ then g.zDiv else zdivDisable
def GrcCfg.wdivField (g : GrcCfg) : Nat := if !g.wUnc then g.wDiv else wdivUncompressed

/-- the `assert`s on the values of a slice (lines 632, 635), checked for the whole slice up front -/
def valuesOk (g : GrcCfg) (wv : List Nat) : Except EncErr Unit :=
  if !(wv.all fun v => decide (v < 512)) then .error .valueRange else
  if !(wv.all fun v => decide (v >>> g.wDiv ≤ 31) && (!g.wTrunc || decide (v >>> g.wDiv ≤ 2))) then
    .error .quotientRange else .ok ()

/-- "Write slice header" (lines 592-605) -/
def sliceHeader (g : GrcCfg) (p : PalPlan) (nvalues : Nat) (newPal : Bool) : List Bool :=
  putBits 3 (g.zdivField p.useZeroRuns) ++ putSliceHeader nvalues g.wdivField g.wTrunc newPal ++
    (if newPal then putPaletteHeader p.directOffset p.palbits p.lut else [])

def sliceCfg (g : GrcCfg) (p : PalPlan) (nvalues : Nat) (newPal : Bool) : ECfg :=
  { useZ := p.useZeroRuns, wDiv := g.wDiv, wTrunc := g.wTrunc, wUnc := g.wUnc, zDiv := g.zDiv,
    nvalues := nvalues, zNvalues := nvalues + (if newPal then 1 else 0) }

/-- `encode_slice(w_value, z_value, nvalues, p, new_palette, uncompressed_bits, w_cfg, z_cfg, …)`:
    the bits appended to the stream.  `wv` = `w_value[0..nvalues)`, `zv` = `z_value[0..z_nvalues)` (empty when
    zero runs are not used: the C code passes a null pointer). -/
def encodeSlice (wv zv : List Nat) (p : PalPlan) (newPal : Bool) (ubits wCfg zCfg : Nat) :
    Except EncErr (List Bool) :=
  if wv.length = 0 ∨ ¬ wv.length < 32768 then .error .sliceLen else
  match grcCfg ubits wCfg zCfg with
  | none => .error .badCfg
  | some g =>
    match valuesOk g wv with
    | .error e => .error e
    | .ok _ =>
      match encLoop (sliceCfg g p wv.length newPal) (loopFuel wv zv) { w := { todo := wv }, z := { todo := zv } } with
      | .error e => .error e
      | .ok bits => .ok (sliceHeader g p wv.length newPal ++ bits)

/-! ## `encode_section` (mlw_encode.c 721-849) -/

/-- `while( (1<<bits) < palsize ) bits++` -/
def bitsFor (palsize : Nat) : Nat → Nat → Nat
  | 0, b => b
  | f + 1, b => if 1 <<< b < palsize then bitsFor palsize f (b + 1) else b

/-- lines 733-744 -/
def uncompressedBits (p : PalPlan) : Nat :=
  if p.onlyPalette then bitsFor p.palsize p.palsize 0
  else if p.palsize = 0 then p.palbits
  else 100

/-- lines 757-781 with zero runs: the weights that are coded as weights and the zero runs around them.
    `atStart` is `i == 0`, `zcnt` the run counted so far.  (`only_zeros`: the first zero is coded as a
    weight so that the slice is not empty.) -/
def extractZ (onlyZeros : Bool) : Bool → Nat → List Int → List Int × List Nat
  | _, zcnt, [] => ([], [zcnt])
  | atStart, zcnt, v :: l =>
    if v == 0 && !(onlyZeros && atStart) then extractZ onlyZeros false (zcnt + 1) l
    else
      let r := extractZ onlyZeros false 0 l
      (v :: r.1, zcnt :: r.2)

/-- `weight_values` before the `inv_lut` lookup and `zrun_values` -/
def extract (p : PalPlan) (inbuf : List Int) : List Int × List Nat :=
  if p.useZeroRuns then extractZ p.onlyZeros true 0 inbuf else (inbuf, [])

/-- the `inv_lut` lookup; a negative index is rejected (see `EncErr.valueRange`) -/
def lookup (p : PalPlan) : List Int → Except EncErr (List Nat)
  | [] => .ok []
  | w :: ws =>
    let i := invLut p w
    if i < 0 then .error .valueRange else
    match lookup p ws with
    | .error e => .error e
    | .ok r => .ok (i.toNat :: r)

/-- the slice loop (lines 800-835) driven by the plan's slices instead of `w_slice_pos`/`z_slice_pos`:
    `wrest` = `weight_values + pos`, `zrest` = `zrun_values + pos + (!new_palette)` -/
def encodeSlices (p : PalPlan) (ubits : Nat) : List SlicePlan → List Nat → List Nat → Bool →
    Except EncErr (List Bool)
  | [], wrest, _, newPal => if wrest.isEmpty && !newPal then .ok [] else .error .planMismatch
  | sl :: more, wrest, zrest, newPal =>
    -- `while(pos<n_weights || new_palette)` has ended
    if wrest.isEmpty && !newPal then .error .planMismatch else
    if wrest.length < sl.len then .error .planMismatch else
    let zn := sl.len + (if newPal then 1 else 0)
    match encodeSlice (wrest.take sl.len) (if p.useZeroRuns then zrest.take zn else []) p newPal ubits
            sl.wCfg (if p.useZeroRuns then sl.zCfg else 0) with
    | .error e => .error e
    | .ok b =>
      match encodeSlices p ubits more (wrest.drop sl.len) (zrest.drop zn) false with
      | .error e => .error e
      | .ok bs => .ok (b ++ bs)

/-- `encode_section(inbuf, size, p, …)`: the bits appended -/
def encodeSection (sp : SectionPlan) (inbuf : List Int) : Except EncErr (List Bool) :=
  let ex := extract sp.pal inbuf
  match lookup sp.pal ex.1 with
  | .error e => .error e
  | .ok wv => encodeSlices sp.pal (uncompressedBits sp.pal) sp.slices wv ex.2 true

/-! ## `mlw_encode` (mlw_encode.c 858-917) -/

/-- the loop over the palette sections -/
def encodeSections : List SectionPlan → List Int → Except EncErr (List Bool)
  | [], ws => if ws.isEmpty then .ok [] else .error .planMismatch
  | sp :: more, ws =>
    if sp.size = 0 ∨ ws.length < sp.size then .error .planMismatch else
    match encodeSection sp (ws.take sp.size) with
    | .error e => .error e
    | .ok b =>
      match encodeSections more (ws.drop sp.size) with
      | .error e => .error e
      | .ok bs => .ok (b ++ bs)

/-- the whole stream as bits: range check, sections, end-of-stream frame -/
def encodeBits (plan : Plan) (ws : List Int) : Except EncErr (List Bool) :=
  if !(ws.all fun w => decide (-255 ≤ w) && decide (w ≤ 255)) then .error .weightRange else
  match encodeSections plan ws with
  | .error e => .error e
  | .ok bits => .ok (bits ++ frameBits bits.length)

def byteOf (b0 b1 b2 b3 b4 b5 b6 b7 : Bool) : Nat :=
  b0.toNat + 2 * b1.toNat + 4 * b2.toNat + 8 * b3.toNat + 16 * b4.toNat + 32 * b5.toNat + 64 * b6.toNat + 128 * b7.toNat

/-- the output buffer: bit `pos` is bit `pos&7` of byte `pos>>3` (`bitbuf_putbit`); a stream always ends on a
    byte boundary, left-over bits (never present) would be dropped -/
def bitsToBytes : List Bool → List Nat
  | b0 :: b1 :: b2 :: b3 :: b4 :: b5 :: b6 :: b7 :: rest => byteOf b0 b1 b2 b3 b4 b5 b6 b7 :: bitsToBytes rest
  | _ => []

/-- `mlw_encode(inbuf, inbuf_size, &outbuf, …)` for the given plan: the output bytes -/
def write (plan : Plan) (ws : List Int) : Except EncErr (List Nat) :=
  match encodeBits plan ws with
  | .error e => .error e
  | .ok bits => .ok (bitsToBytes bits)

end VelaVerif.MlwEnc
