import VelaVerif.Gen.Core
import VelaVerif.Model.RangeSet
/-!
# Model of the addressing helpers and memory-access sets of `register_command_stream_util.py`

`get_strides`, `get_address`, `get_address_range`, `get_h_ranges`, `get_address_ranges_for_area`,
`get_address_ranges`, `get_dma_memory_accesses`, `get_op_memory_accesses` over plain records that
mirror `api.NpuFeatureMap` / `NpuAddressRange` / `NpuBlockOperation`.  All quantities are Python
ints, hence `Int`.
-/
namespace VelaVerif.NpuAccess
open VelaVerif.Gen VelaVerif.RangeSet

/-- `NpuShape3D(height, width, depth)` -/
structure Shape3 where
  height : Int
  width : Int
  depth : Int
deriving Repr, DecidableEq, Inhabited

/-- `NpuTileBox(height_0, height_1, width_0, addresses)` -/
structure Tiles where
  height0 : Int
  height1 : Int
  width0 : Int
  a0 : Int
  a1 : Int
  a2 : Int
  a3 : Int
deriving Repr, DecidableEq, Inhabited

structure FMap where
  region : Nat
  nhcwb16 : Bool            -- layout == NpuLayout.NHCWB16
  elemBytes : Int           -- data_type.size_in_bytes()
  shape : Shape3
  tiles : Tiles
  strides : Option Shape3   -- explicit strides, `NpuShape3D(depth=stride_c, height=stride_y, width=stride_x)`
deriving Repr, DecidableEq, Inhabited

/-- `NpuAddressRange(region, address, length)` -/
structure ARange where
  region : Nat
  address : Int
  length : Int
deriving Repr, DecidableEq, Inhabited

def roundUp (a b : Int) : Int := ((a + b - 1) / b) * b
def roundUpDivide (a b : Int) : Int := (a + b - 1) / b

/-- `get_strides(fm)` -/
def getStrides (fm : FMap) : Shape3 :=
  match fm.strides with
  | some s => s
  | none =>
    if !fm.nhcwb16 then
      let strideC := fm.elemBytes
      let strideX := fm.shape.depth * strideC
      let strideY := fm.shape.width * strideX
      { depth := strideC, height := strideY, width := strideX }
    else
      let strideX := 16 * fm.elemBytes
      let strideC := strideX * fm.shape.width
      let strideY := fm.elemBytes * fm.shape.width * roundUp fm.shape.depth 16
      { depth := strideC, height := strideY, width := strideX }

/-- `get_address(fm, strides, y, x, c)` -/
def getAddress (fm : FMap) (strides : Shape3) (y x c : Int) : Int :=
  let brick : Int := 16
  let strideC := if !fm.nhcwb16 then brick * fm.elemBytes else strides.depth
  let strideX := if fm.nhcwb16 then brick * fm.elemBytes else strides.width
  let (t, y, x) : Nat × Int × Int :=
    if x ≥ fm.tiles.width0 then
      let x := x - fm.tiles.width0
      if y ≥ fm.tiles.height1 then (3, y - fm.tiles.height1, x) else (1, y, x)
    else if y ≥ fm.tiles.height0 then (2, y - fm.tiles.height0, x)
    else (0, y, x)
  let base := if t = 0 then fm.tiles.a0 else if t = 1 then fm.tiles.a1 else if t = 2 then fm.tiles.a2 else fm.tiles.a3
  base + y * strides.height + x * strideX + (c / brick) * strideC + (c % brick) * fm.elemBytes

/-- `get_address_range(fm, strides, y0, x0, c0, y1, x1, c1)` -/
def getAddressRange (fm : FMap) (strides : Shape3) (y0 x0 c0 y1 x1 c1 : Int) : ARange :=
  let addr0 := getAddress fm strides y0 x0 c0
  let addr1 := getAddress fm strides y1 x1 c1
  { region := fm.region, address := addr0, length := addr1 - addr0 + fm.elemBytes }

/-- `range(a, b + 1)` as a list of Python ints -/
def intRangeIncl (a b : Int) : List Int := (List.range (b + 1 - a).toNat).map fun (i : Nat) => a + Int.ofNat i

/-- `get_h_ranges` -/
def getHRanges (fm : FMap) (strides : Shape3) (y0 x0 c0 y1 x1 c1 : Int) : List ARange :=
  (intRangeIncl y0 y1).map fun y => getAddressRange fm strides y x0 c0 y x1 c1

/-- `get_address_ranges_for_area(fm, start, end)`; start/end as (y, x, z) -/
def getAddressRangesForArea (fm : FMap) (y0 x0 c0 ey ex ez : Int) : List ARange :=
  let strides := getStrides fm
  let h0 := fm.tiles.height0
  let h1 := fm.tiles.height1
  let w0 := fm.tiles.width0
  let y1 := min ey (fm.shape.height - 1)
  let x1 := min ex (fm.shape.width - 1)
  let c1 := min ez (fm.shape.depth - 1)
  (if x0 < w0 ∧ y0 < h0 then getHRanges fm strides y0 x0 c0 (min y1 (h0 - 1)) (min x1 (w0 - 1)) c1 else []) ++
  (if x1 ≥ w0 ∧ y0 < h1 then getHRanges fm strides y0 (max x0 w0) c0 (min y1 (h1 - 1)) x1 c1 else []) ++
  (if x0 < w0 ∧ y1 ≥ h0 then getHRanges fm strides (max y0 h0) x0 c0 y1 (min x1 (w0 - 1)) c1 else []) ++
  (if x1 ≥ w0 ∧ y1 ≥ h1 then getHRanges fm strides (max y0 h1) (max x0 w0) c0 y1 x1 c1 else [])

/-- `get_address_ranges(fm)`: one range per used tile (the `None`s are dropped) -/
def getAddressRanges (fm : FMap) : List ARange :=
  let strides := getStrides fm
  let height := fm.shape.height
  let width := fm.shape.width
  let depth := fm.shape.depth
  let h0 := fm.tiles.height0
  let h1 := fm.tiles.height1
  let w0 := fm.tiles.width0
  let t0 := getAddressRange fm strides 0 0 0 (min height h0 - 1) (min width w0 - 1) (depth - 1)
  let t1 := if width > w0 then [getAddressRange fm strides 0 w0 0 (min height h1 - 1) (width - 1) (depth - 1)] else []
  let t2 := if height > h0 then [getAddressRange fm strides h0 0 0 (height - 1) (min width w0 - 1) (depth - 1)] else []
  let t3 := if width > w0 ∧ height > h0 then [getAddressRange fm strides h1 w0 0 (height - 1) (width - 1) (depth - 1)] else []
  [t0] ++ t1 ++ t2 ++ t3

/-- `numeric_util.overlaps` + region test: `ranges_overlap` -/
def rangesOverlap (r1 r2 : ARange) : Bool :=
  r1.region = r2.region && decide (r1.address < r2.address + r2.length) && decide (r2.address < r1.address + r1.length)

/-- `range_lists_overlap` (the `None` entries are already dropped) -/
def rangeListsOverlap (l1 l2 : List ARange) : Bool := l1.any fun a => l2.any fun b => rangesOverlap a b

/-! ## operations -/

structure Kernel where
  width : Int
  height : Int
  strideX : Int
  strideY : Int
  dilationX : Int
  dilationY : Int
deriving Repr, DecidableEq, Inhabited

/-- `NpuPadding(top, left, bottom, right)` -/
structure Padding where
  top : Int
  left : Int
  bottom : Int
  right : Int
deriving Repr, DecidableEq, Inhabited

structure BlockOp where
  isConv2D : Bool                 -- op_type == NpuOperationType.Conv2D
  isReduceSum : Bool := false     -- op_type == Pooling and sub_op_type == NpuPoolingOp.REDUCE_SUM
  ifm : FMap
  ifm2 : Option FMap
  ifm2Scalar : Bool               -- ifm2_scalar is not None
  ofm : FMap
  kernel : Option Kernel
  padding : Option Padding
  weights : List ARange
  biases : List ARange
  usesLut : Bool                  -- activation is not None and op_type == TABLE_LOOKUP
  blockConfig : Shape3            -- NpuShape3D(height, width, depth)
  ifmBits : Int                   -- ifm.data_type.size_in_bits()
deriving Repr, DecidableEq, Inhabited

structure DmaOp where
  src : ARange
  dest : ARange
deriving Repr, DecidableEq, Inhabited

inductive Op where
  | block (b : BlockOp)
  | dma (d : DmaOp)
deriving Repr, DecidableEq, Inhabited

def Op.isDma : Op → Bool
  | .dma _ => true
  | .block _ => false

/-- `has_ifm2` -/
def hasIfm2 (b : BlockOp) : Bool := b.ifm2.isSome && !b.ifm2Scalar

/-- `BASE_PTR_INDEX_MEM2MEM` -/
def memToMem : Nat := 259

/-- `arch.available_shram_banks(uses_activation_lut)` -/
def availableShramBanks (a : AccRow) (usesLut : Bool) : Nat :=
  if usesLut && a.shramReservedUnusedBanks == 0 then a.shramTotalBanks - 2 else a.shramTotalBanks

/-- `memory_range_set(range)` then `res.add(..., direction)`; `none` = the `assert start < end` of `RangeSet` -/
def addRange (s : AccessSet) (r : ARange) (write : Bool) : Option AccessSet :=
  (MemRanges.single r.region r.address (r.address + r.length)).map fun m => s.add m write

def addRanges (s : AccessSet) (rs : List ARange) (write : Bool) : Option AccessSet :=
  rs.foldlM (fun acc r => addRange acc r write) s

/-- `get_dma_memory_accesses` -/
def dmaAccesses (d : DmaOp) : Option AccessSet := do
  let s ← addRange AccessSet.empty d.src false
  addRange s d.dest true

/-- `get_op_memory_accesses(npu_op, arch)` -/
def blockAccesses (a : AccRow) (b : BlockOp) : Option AccessSet := do
  let reads := getAddressRanges b.ifm ++
    (if hasIfm2 b then (match b.ifm2 with | some f => getAddressRanges f | none => []) else []) ++
    b.weights ++ b.biases ++
    (if b.usesLut then [{ region := memToMem, address := (availableShramBanks a true * a.shramBankSize : Nat), length := 2048 }] else [])
  let writes := getAddressRanges b.ofm ++
    [{ region := memToMem, address := 0, length := (availableShramBanks a b.usesLut * a.shramBankSize : Nat) }]
  let s ← addRanges AccessSet.empty reads false
  addRanges s writes true

def accessesOf (a : AccRow) : Op → Option AccessSet
  | .dma d => dmaAccesses d
  | .block b => blockAccesses a b

end VelaVerif.NpuAccess
