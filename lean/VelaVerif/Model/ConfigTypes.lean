/-!
# C18 — shared vocabulary of the configuration model and the configuration spec

Types (`MemArea`, `MemPort`, `Dy`, `Row`, `Tab`, `Arch`, `Ini`) and the counterparts of the Python
*library* functions that both the code and the documentation take for granted:
`int(str)`, `float(str)`, `os.path.normpath`, `ConfigParser.read` of several files (`mergeIni`).
These are glue, not Vela logic; they are validated by the correspondence run.  Everything is
written by structural recursion over `List Char` so that kernel `decide` can evaluate it.
Import-free.
-/
namespace VelaVerif.Config

/-! ## enums of tensor.py / architecture_features.py -/

/-- `tensor.MemArea` (IntFlag 0..6; `Size` is a member and therefore a legal *name*). -/
inductive MemArea where
  | unknown | sram | dram | onChipFlash | offChipFlash | shram | size
deriving DecidableEq, Repr, Inhabited

namespace MemArea
def all : List MemArea := [unknown, sram, dram, onChipFlash, offChipFlash, shram, size]
/-- enum member name, as accepted by `MemArea[name]` -/
def name : MemArea → String
  | unknown => "Unknown" | sram => "Sram" | dram => "Dram" | onChipFlash => "OnChipFlash"
  | offChipFlash => "OffChipFlash" | shram => "Shram" | size => "Size"
/-- the member name as ConfigParser's `optionxform` (lower-casing) stores it in an option key -/
def key : MemArea → String
  | unknown => "unknown" | sram => "sram" | dram => "dram" | onChipFlash => "onchipflash"
  | offChipFlash => "offchipflash" | shram => "shram" | size => "size"
def toNat : MemArea → Nat
  | unknown => 0 | sram => 1 | dram => 2 | onChipFlash => 3 | offChipFlash => 4 | shram => 5 | size => 6
def ofName? (s : String) : Option MemArea := all.find? (fun a => a.name == s)
end MemArea

/-- `architecture_features.MemPort` -/
inductive MemPort where
  | axi0 | axi1
deriving DecidableEq, Repr, Inhabited

namespace MemPort
def all : List MemPort := [axi0, axi1]
def name : MemPort → String
  | axi0 => "Axi0" | axi1 => "Axi1"
def toNat : MemPort → Nat
  | axi0 => 0 | axi1 => 1
def ofName? (s : String) : Option MemPort := all.find? (fun a => a.name == s)
end MemPort

/-! ## doubles as exact dyadics -/

/-- a finite double `(-1)^neg · m · 2^e`, canonical: `m` odd, or `m = 0 ∧ e = 0 ∧ ¬neg` -/
structure Dy where
  neg : Bool
  m : Nat
  e : Int
deriving DecidableEq, Repr, Inhabited

def stripTwos : Nat → Nat → Int → Nat × Int
  | 0, m, e => (m, e)
  | fuel + 1, m, e => if m != 0 && m % 2 == 0 then stripTwos fuel (m / 2) (e + 1) else (m, e)

def Dy.mk' (neg : Bool) (m : Nat) (e : Int) : Dy :=
  if m == 0 then ⟨false, 0, 0⟩ else
  let r := stripTwos 1100 m e
  ⟨neg, r.1, r.2⟩

def Dy.one : Dy := ⟨false, 1, 0⟩
def Dy.ofNat (n : Nat) : Dy := Dy.mk' false n 0

/-- nearest double (round half to even, 53-bit significand) of the positive rational `num/den`;
    normal range only (no overflow to `inf`, no subnormals). -/
def roundToDouble (neg : Bool) (num den : Nat) : Dy :=
  if num == 0 || den == 0 then ⟨false, 0, 0⟩ else
  -- num/den ∈ (2^(ln-ld-1), 2^(ln-ld+1)); scale so that the quotient has 53 or 54 bits
  let k0 : Int := (Nat.log2 num : Int) - (Nat.log2 den : Int) - 53
  let q0 := if k0 ≥ 0 then num / (den * 2 ^ k0.toNat) else (num * 2 ^ (-k0).toNat) / den
  let k : Int := if q0 ≥ 2 ^ 53 then k0 + 1 else k0
  let n' := if k ≥ 0 then num else num * 2 ^ (-k).toNat
  let d' := if k ≥ 0 then den * 2 ^ k.toNat else den
  let q := n' / d'
  let r := n' % d'
  let q := if 2 * r > d' || (2 * r == d' && q % 2 == 1) then q + 1 else q
  Dy.mk' neg q k

/-! ## `int(str)` and `float(str)` on the plain decimal grammar -/

def digitsVal : List Char → Nat → Option Nat
  | [], acc => some acc
  | c :: cs, acc => if c.isDigit then digitsVal cs (acc * 10 + (c.toNat - 48)) else none

/-- non-empty string of ASCII digits -/
def parseDigits (cs : List Char) : Option Nat :=
  if cs.isEmpty then none else digitsVal cs 0

def splitSign : List Char → Bool × List Char
  | '-' :: cs => (true, cs)
  | '+' :: cs => (false, cs)
  | cs => (false, cs)

/-- `int(s)` for `[+-]?[0-9]+` (no whitespace, underscores or non-ASCII digits) -/
def parseIntL (cs : List Char) : Option Int :=
  let (neg, ds) := splitSign cs
  (parseDigits ds).map fun n => if neg then -(n : Int) else (n : Int)

def parseInt (s : String) : Option Int := parseIntL s.toList

/-- split at the first character satisfying `p` -/
def breakAt (p : Char → Bool) : List Char → List Char × Option (List Char)
  | [] => ([], none)
  | c :: cs => if p c then ([], some cs) else
      let r := breakAt p cs
      (c :: r.1, r.2)

def digitsOrEmpty (cs : List Char) : Option Nat := digitsVal cs 0

/-- `float(s)` for `[+-]?(D+(.D*)?|.D+)([eE][+-]?D+)?` -/
def parseFloatL (cs : List Char) : Option Dy :=
  let (neg, body) := splitSign cs
  let (mant, expo) := breakAt (fun c => c == 'e' || c == 'E') body
  let (ip, fp?) := breakAt (fun c => c == '.') mant
  let fp := fp?.getD []
  if ip.isEmpty && fp.isEmpty then none else
  match digitsOrEmpty ip, digitsOrEmpty fp with
  | some i, some f =>
    let mval := i * 10 ^ fp.length + f
    let e10? : Option Int := match expo with
      | none => some 0
      | some ecs => parseIntL ecs
    match e10? with
    | none => none
    | some e10 =>
      let ex : Int := e10 - fp.length
      if ex ≥ 0 then some (roundToDouble neg (mval * 10 ^ ex.toNat) 1)
      else some (roundToDouble neg mval (10 ^ (-ex).toNat))
  | _, _ => none

def parseFloat (s : String) : Option Dy := parseFloatL s.toList

/-! ## `os.path` (POSIX) -/

def splitOnChar (sep : Char) : List Char → List (List Char)
  | [] => [[]]
  | c :: cs =>
    if c == sep then [] :: splitOnChar sep cs else
    match splitOnChar sep cs with
    | [] => [[c]]
    | h :: t => (c :: h) :: t

def joinWith (sep : Char) : List (List Char) → List Char
  | [] => []
  | [x] => x
  | x :: xs => x ++ sep :: joinWith sep xs

/-- the component loop of `posixpath.normpath`; the stack is kept reversed -/
def normpathAux (initial : Nat) : List (List Char) → List (List Char) → List (List Char)
  | [], st => st
  | c :: cs, st =>
    if c == [] || c == ['.'] then normpathAux initial cs st
    else if c != ['.', '.'] || (initial == 0 && st.isEmpty) || st.head? == some ['.', '.'] then
      normpathAux initial cs (c :: st)
    else normpathAux initial cs st.tail

def initialSlashes (cs : List Char) : Nat :=
  match cs with
  | '/' :: '/' :: '/' :: _ => 1
  | '/' :: '/' :: _ => 2
  | '/' :: _ => 1
  | _ => 0

/-- `os.path.normpath` -/
def normpathL (cs : List Char) : List Char :=
  if cs.isEmpty then ['.'] else
  let initial := initialSlashes cs
  let comps := (normpathAux initial (splitOnChar '/' cs) []).reverse
  let r := List.replicate initial '/' ++ joinWith '/' comps
  if r.isEmpty then ['.'] else r

def normpath (p : String) : String := String.ofList (normpathL p.toList)

/-- `os.path.join(a, b)` for a non-empty `a` -/
def pathJoin (a b : String) : String :=
  if b.toList.head? == some '/' then b
  else if a.toList.getLast? == some '/' then a ++ b
  else a ++ "/" ++ b

/-- the absolute, normalised name of the file the OS opens for `p` when the working directory is `cwd` -/
def absPath (cwd p : String) : String := normpath (pathJoin cwd p)

def endsWithL (suffix s : List Char) : Bool := suffix.reverse.isPrefixOf s.reverse

/-- `os.path.normpath(config).endswith(".ini")` -/
def hasIniExt (p : String) : Bool := endsWithL ['.', 'i', 'n', 'i'] (normpath p).toList

/-! ## parsed `.ini` files -/

/-- the options of one section, keys already lower-cased by `ConfigParser.optionxform` -/
abbrev Section := List (String × String)
/-- a parsed configuration: section name ↦ options (what `ConfigParser` holds) -/
abbrev Ini := List (String × Section)

def Ini.hasSection (ini : Ini) (s : String) : Bool := (ini.lookup s).isSome

/-- `ConfigParser.read([fa, fb])`: the options of `b` (read later) shadow those of `a` -/
def mergeIni (a b : Ini) : Ini :=
  a.map (fun (s, o) => (s, (b.lookup s).getD [] ++ o)) ++ b.filter (fun (s, _) => !(a.lookup s).isSome)

/-! ## resolved architecture parameters -/

/-- per memory area: clock scale, burst length, read latency, write latency -/
structure Row where
  scale : Dy
  burst : Int
  rlat : Int
  wlat : Int
deriving DecidableEq, Repr, Inhabited

/-- the arrays `memory_clock_scales`, `memory_burst_length`, `memory_latency` (index `MemArea` 0..5) -/
structure Tab where
  unknown : Row
  sram : Row
  dram : Row
  onChipFlash : Row
  offChipFlash : Row
  shram : Row
deriving DecidableEq, Repr, Inhabited

/-- `np.ones`, `np.ones(int)`, `np.zeros` -/
def Row.init : Row := ⟨Dy.one, 1, 0, 0⟩
def Tab.init : Tab := ⟨Row.init, Row.init, Row.init, Row.init, Row.init, Row.init⟩

/-- `none` for `MemArea.Size` (index 6 is out of bounds: `IndexError`) -/
def Tab.get? (t : Tab) : MemArea → Option Row
  | .unknown => some t.unknown | .sram => some t.sram | .dram => some t.dram
  | .onChipFlash => some t.onChipFlash | .offChipFlash => some t.offChipFlash
  | .shram => some t.shram | .size => none

def Tab.set (t : Tab) (a : MemArea) (r : Row) : Tab :=
  match a with
  | .unknown => { t with unknown := r } | .sram => { t with sram := r } | .dram => { t with dram := r }
  | .onChipFlash => { t with onChipFlash := r } | .offChipFlash => { t with offChipFlash := r }
  | .shram => { t with shram := r } | .size => t

def Tab.rows (t : Tab) : List Row := [t.unknown, t.sram, t.dram, t.onChipFlash, t.offChipFlash, t.shram]

/-- what `_get_vela_config` leaves in the `ArchitectureFeatures` object -/
structure Arch where
  coreClock : Dy
  axi0 : MemArea
  axi1 : MemArea
  tab : Tab
  constPort : MemPort
  arenaPort : MemPort
  cachePort : MemPort
  arenaCacheSize : Int
  permanent : MemArea
  featureMap : MemArea
  fast : MemArea
deriving DecidableEq, Repr, Inhabited

/-- `_mem_port_mapping` -/
def portArea (axi0 axi1 : MemArea) : MemPort → MemArea
  | .axi0 => axi0
  | .axi1 => axi1

/-- arguments of `ArchitectureFeatures.__init__` that matter for `_get_vela_config`;
    `ini = none` ⇔ `vela_config_files is None`; otherwise the merged content of the readable files -/
structure Input where
  ini : Option Ini
  isU65 : Bool
  maxAddr : Nat
  systemConfig : String
  memoryMode : String
  cli : Option Int
  /-- the class is `vela.Imx93ArchitectureFeatures` and its default system configuration applies -/
  imx93 : Bool := false
deriving Repr

/-- process environment of a `vela` invocation -/
structure Env where
  /-- `vela.CONFIG_FILES_PATH` -/
  bundled : String
  cwd : String
  /-- readable files: absolute normalised path ↦ parsed content (`none`: ConfigParser cannot parse it) -/
  files : List (String × Option Ini)
deriving Repr

/-- command line of `vela` as far as configuration is concerned (`none` = option not given) -/
structure MainArgs where
  configs : List String
  accelerator : Option String
  systemConfig : Option String
  memoryMode : Option String
  arenaCacheSize : Option String
deriving Repr

end VelaVerif.Config
