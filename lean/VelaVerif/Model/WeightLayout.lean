import VelaVerif.Gen.Caches
/-!
# Model of `ethosu/vela/weight_compressor.py` (layout part) and of the address derivation in
# `high_level_command_to_npu_op.py` (property C08)

Hand transcription of

* `encode_bias`                      → `encodeBias`
* `_prepare_scale_and_bias` (the part after the float quantiser) → `prepareScales`
* `encode_weight_and_scale_tensor`   → `encodeCore` / `encodeCores` / `encodeSlices` / `encodeTensor`
* `core_deinterleave` + the brick slice → `weightChannels`
* `create_weights`, `create_dma_op`  → `createWeights`, `createDmaOp`
* `CompressedWeightCache` + the key construction → `Req`, `wccKey`, `sccKey`, `cachedEncode`

The MLW encoder (`encode_weights` → `mlw_codec.reorder_encode`) is *not* modelled: it is the
parameter `enc`, an arbitrary function from (the output channels handed to it, the per-core block
depth) to a byte list.  Bytes are `Nat`s below 256, Python ints are `Int`/`Nat`.
The model rejects what the code rejects (`assert`, `IndexError`) and never defaults.
-/
namespace VelaVerif.WeightLayout

inductive Err where
  | assert     -- an `assert` of the Python code fails
  | index      -- IndexError (a scale list shorter than the bias list)
  | value      -- ValueError (slice step 0)
deriving Repr, DecidableEq

/-! ### `encode_bias` -/

/-- byte `k` of a Python int: `(x >> (8*k)) & 0xFF` (arithmetic shift = floor division) -/
def byteOf (x : Int) (k : Nat) : Nat := ((x / (256 : Int) ^ k) % 256).toNat

/-- `encode_bias(bias: np.int64, scale: int, shift: int)`; the three range asserts included. -/
def encodeBias (bias scale shift : Int) : Except Err (List Nat) :=
  if ¬ (-(2 : Int) ^ 39 ≤ bias ∧ bias < (2 : Int) ^ 39) then .error .assert
  else if ¬ (0 ≤ scale ∧ scale < (2 : Int) ^ 32) then .error .assert
  else if ¬ (0 ≤ shift ∧ shift < 64) then .error .assert
  else .ok [byteOf bias 0, byteOf bias 1, byteOf bias 2, byteOf bias 3, byteOf bias 4,
            byteOf scale 0, byteOf scale 1, byteOf scale 2, byteOf scale 3,
            (shift % 64).toNat]

/-! ### `_prepare_scale_and_bias` after the quantiser

The float part (`ifm_scale * weight_scale / ofm_scale`, `quantise_scale`) belongs to C09.  The
caller supplies, per weight scale, the four candidate results: formula A (`np.double(ifm*w)/ofm`,
uint8 IFM or FullyConnected) or B (`np.double(ifm)*np.double(w)/ofm`, int8/int16 IFM), each through
`quantise_scale` and `reduced_quantise_scale`.  The model makes the *selection*. -/

inductive IfmType where
  | uint8 | int8 | int16 | other
deriving Repr, DecidableEq

structure ScaleCands where
  aFull : Int × Int
  aReduced : Int × Int
  bFull : Int × Int
  bReduced : Int × Int
deriving Repr, DecidableEq

structure PrepIn where
  ifmType : IfmType
  isFullyConnected : Bool            -- first_consumer_op.original_type == Op.FullyConnected
  biasIsInt64 : Bool
  explicit : Option (List (Int × Int))   -- explicit_scaling as (multiplier, shift) pairs
  awayZero : Bool                    -- rounding_mode == RoundingMode.AwayZero
  cands : List ScaleCands            -- one per weight scale
  nBias : Nat
deriving Repr

/-- returns `quantised_scales` (already repeated when only one) -/
def prepareScales (p : PrepIn) : Except Err (List (Int × Int)) :=
  let useA := p.ifmType == .uint8 || p.isFullyConnected
  if ¬ useA ∧ p.ifmType ≠ .int8 ∧ p.ifmType ≠ .int16 then .error .value   -- UnsupportedFeatureError
  else
    let reduced := p.ifmType == .int16 && p.biasIsInt64
    let qs : List (Int × Int) := match p.explicit with
      | some e => e
      | none => p.cands.map fun c =>
          if useA then (if reduced then c.aReduced else c.aFull)
          else (if reduced then c.bReduced else c.bFull)
    let qs := if p.awayZero then qs.map (fun q => (q.1 + 1, q.2)) else qs
    .ok (if qs.length = 1 then List.replicate p.nBias (qs.headD (0, 0)) else qs)

/-! ### Python slicing -/

/-- indices selected by `xs[a : b : step]` for a list of length `len` (`0 ≤ a`, `0 ≤ b`, `step > 0`) -/
def pySliceIdx (len a b step : Nat) : List Nat :=
  (List.range ((min b len - a + step - 1) / step)).map (fun i => a + i * step)

/-! ### `encode_weight_and_scale_tensor` -/

structure Range where
  core : Nat
  depth : Nat            -- key = WeightKey(core, depth)
  offset : Nat
  scaleBytes : Nat
  weightOffset : Nat
  weightBytes : Nat
  index : Nat
  slice : Nat            -- ghost: index of the depth slice
  scaleCh : List Nat     -- ghost: channels whose records were written
  weightCh : List Nat    -- ghost: channels handed to the encoder
  cbd : Nat              -- ghost: `core_block_depth` handed to the encoder
  scaleData : List Nat   -- ghost: the record bytes written (`scale_stream`)
  weightData : List Nat  -- ghost: the encoder's answer (`encoded_substream`)
deriving Repr, DecidableEq

def Range.totalBytes (r : Range) : Nat := r.scaleBytes + r.weightBytes
/-- first byte after the range in the stream -/
def Range.stop (r : Range) : Nat := r.offset + max r.scaleBytes (r.weightOffset + r.weightBytes)

structure Cfg where
  ncores : Nat
  fullDepth : Nat                    -- weight_tens.values.shape[-1]
  blockDepth : Nat                   -- block_config.ofm_block.depth
  doWeights : Bool                   -- `do_weights` (`do_scales` is always True in the code)
  scales : List (Int × Int)          -- quantised_scales
  biases : List Int
  enc : List Nat → Nat → List Nat    -- (channels, core block depth) ↦ encoded substream

structure St where
  stream : List Nat
  ranges : List Range                -- in creation order (see `orderedDict` for the dict view)
  index : Nat
deriving Repr

def roundUp16 (n : Nat) : Nat := (n + 15) / 16 * 16

/-- `remainder = len % 16; if remainder > 0: extend(bytearray(16 - remainder))` -/
def padTo16 (s : List Nat) : List Nat :=
  if s.length % 16 > 0 then s ++ List.replicate (16 - s.length % 16) 0 else s

/-- channels of `core_deinterleave(weights[:, :, :, off : off + len], core, ncores)` -/
def weightChannels (c : Cfg) (off len core : Nat) : List Nat :=
  pySliceIdx c.fullDepth (off + core) (off + len) c.ncores

/-- channels of `biases[off : off + len][core :: ncores]` (slice the depth slice, then every
    `ncores`-th entry from `core`): indices `off + core + k·ncores < min (off + len) (len biases)` -/
def scaleChannels (c : Cfg) (off len core : Nat) : List Nat :=
  pySliceIdx c.biases.length (off + core) (off + len) c.ncores

/-- the `for j, core_bias in enumerate(core_biases)` loop: `chs` are the bias indices,
    `schs` the indices selected from `quantised_scales` (shorter → IndexError) -/
def scaleRecords (c : Cfg) : List Nat → List Nat → Except Err (List Nat)
  | [], _ => .ok []
  | _ :: _, [] => .error .index
  | ch :: chs, sch :: schs =>
    match c.biases[ch]?, c.scales[sch]? with
    | some b, some q =>
      match encodeBias b q.1 q.2 with
      | .error e => .error e
      | .ok bytes =>
        match scaleRecords c chs schs with
        | .error e => .error e
        | .ok rest => .ok (bytes ++ rest)
    | _, _ => .error .index

/-- body of `for core in range(...)` -/
def encodeCore (c : Cfg) (idx off len core : Nat) (st : St) : Except Err St :=
  let cbd := (c.blockDepth + c.ncores - 1 - core) / c.ncores
  if cbd = 0 then .ok st else
  let offset := st.stream.length
  let sch := scaleChannels c off len core
  let wch := if c.doWeights then weightChannels c off len core else []
  match scaleRecords c sch (pySliceIdx c.scales.length (off + core) (off + len) c.ncores) with
  | .error e => .error e
  | .ok ss =>
    let s1 := padTo16 (st.stream ++ ss)
    let scaleBytes := ss.length
    let sub := if c.doWeights then c.enc wch cbd else []
    let weightOffset := if c.doWeights then s1.length - offset else 0
    let s2 := s1 ++ sub
    if c.doWeights ∧ s2.length % 16 ≠ 0 then .error .assert else
    .ok { stream := s2,
          ranges := st.ranges ++ [{ core := core, depth := off, offset := offset, scaleBytes := scaleBytes,
                                    weightOffset := weightOffset, weightBytes := sub.length,
                                    index := st.index, slice := idx, scaleCh := sch, weightCh := wch, cbd := cbd,
                                    scaleData := ss, weightData := sub }],
          index := st.index + 1 }

def encodeCores (c : Cfg) (idx off len : Nat) : List Nat → St → Except Err St
  | [], st => .ok st
  | core :: cores, st =>
    match encodeCore c idx off len core st with
    | .error e => .error e
    | .ok st' => encodeCores c idx off len cores st'

def setDbs (dbs : Nat × Nat) (idx : Nat) (v : Nat) : Nat × Nat :=
  if idx % 2 = 0 then (max dbs.1 v, dbs.2) else (dbs.1, max dbs.2 v)

def getDbs (dbs : Nat × Nat) (idx : Nat) : Nat := if idx % 2 = 0 then dbs.1 else dbs.2

/-- `for idx, depth_offset in enumerate(depth_offsets[:-1])`; `offs` is the not yet visited
    suffix of `depth_offsets` (its head is the current offset). Python's
    `depth_offsets[idx + 1] - depth_offset` may be negative; every use is a slice bound
    `x + length`, for which a negative length and length 0 select the same (empty) range. -/
def encodeSlices (c : Cfg) : Nat → List Nat → St → Nat × Nat → Except Err (St × (Nat × Nat))
  | idx, off :: next :: rest, st, dbs =>
    if ¬ off < c.fullDepth then .error .assert else
    let len := next - off
    let start := st.stream.length
    match encodeCores c idx off len (List.range (min c.ncores c.fullDepth)) st with
    | .error e => .error e
    | .ok st' => encodeSlices c (idx + 1) (next :: rest) st' (setDbs dbs idx (st'.stream.length - start))
  | _, _, st, dbs => .ok (st, dbs)

/-- `OrderedDict.__setitem__`: overwrite in place when the key exists, else append -/
def upsert : List Range → Range → List Range
  | [], r => [r]
  | x :: xs, r => if x.core = r.core ∧ x.depth = r.depth then r :: xs else x :: upsert xs r

def orderedDict (rs : List Range) : List Range := rs.foldl upsert []

structure Out where
  stream : List Nat
  rawRanges : List Range             -- every WeightRange object created, in creation order
  ranges : List Range                -- `npu_tensor.encoded_ranges.values()`
  dbs : Nat × Nat
deriving Repr

/-- `encode_weight_and_scale_tensor` from `assert len(depth_offsets) > 1` on (no cache) -/
def encodeTensor (c : Cfg) (offsets : List Nat) : Except Err Out :=
  if ¬ offsets.length > 1 then .error .assert
  else if c.ncores = 0 then .error .value
  else match encodeSlices c 0 offsets { stream := [], ranges := [], index := 0 } (0, 0) with
    | .error e => .error e
    | .ok (st, dbs) => .ok { stream := st.stream, rawRanges := st.ranges, ranges := orderedDict st.ranges, dbs := dbs }

/-! ### `create_weights` / `create_dma_op` -/

structure AddrRange where
  address : Nat
  length : Nat
deriving Repr, DecidableEq

def findRange (rs : List Range) (core depth : Nat) : Option Range :=
  rs.find? (fun r => r.core = core ∧ r.depth = depth)

/-- `create_weights`: `buffered = some bufAddr` when the weight tensor is a buffered copy
    (`weight_tensor != w_tensor_src`), `scaleTensor = some (addr, ranges)` for a stand-alone scale
    tensor.  Returns (weights, biases) address ranges (regions omitted). `none` = KeyError. -/
def createWeightsLoop (rs : List Range) (srcAddr : Nat) (buffered : Option Nat)
    (scaleTensor : Option (Nat × List Range)) (depth : Nat) :
    List Nat → Nat → Option (List AddrRange × List AddrRange)
  | [], _ => some ([], [])
  | core :: cores, coreOffset =>
    match findRange rs core depth with
    | none => createWeightsLoop rs srcAddr buffered scaleTensor depth cores coreOffset
    | some r =>
      let address := match buffered with
        | none => srcAddr + r.offset
        | some b => b + coreOffset
      let coreOffset' := match buffered with
        | none => coreOffset
        | some _ => coreOffset + roundUp16 r.totalBytes
      let w : AddrRange := ⟨address + r.weightOffset, roundUp16 r.weightBytes⟩
      let bias? : Option AddrRange := match scaleTensor with
        | some (sa, srs) => (findRange srs core depth).map fun sr => ⟨sa + sr.offset, roundUp16 sr.scaleBytes⟩
        | none => some ⟨address, roundUp16 r.scaleBytes⟩
      match bias?, createWeightsLoop rs srcAddr buffered scaleTensor depth cores coreOffset' with
      | some b, some (ws, bs) => some (w :: ws, b :: bs)
      | _, _ => none

def createWeights (ncores : Nat) (rs : List Range) (srcAddr : Nat) (buffered : Option Nat)
    (scaleTensor : Option (Nat × List Range)) (depth : Nat) : Option (List AddrRange × List AddrRange) :=
  createWeightsLoop rs srcAddr buffered scaleTensor depth (List.range ncores) 0

/-- `create_dma_op` for a weight tensor: (source range, destination range); `none` when core 0 has
    no range (Python: `src_addr` unbound → UnboundLocalError). -/
def createDmaOp (ncores : Nat) (rs : List Range) (srcAddr dstAddr depth : Nat) : Option (AddrRange × AddrRange) :=
  let sz := ((List.range ncores).filterMap (fun core => findRange rs core depth)).foldl
              (fun acc r => acc + roundUp16 r.totalBytes) 0
  match findRange rs 0 depth with
  | none => none
  | some r0 => some (⟨srcAddr + r0.offset, sz⟩, ⟨dstAddr, sz⟩)

/-! ### The compression cache

`Req` lists every input `encode_weight_and_scale_tensor` reads.  Identity-like fields
(`weightValueId`, `scaleValueId`) are tokens; `depthHash = hash(str(depth_offsets))`. -/

structure Req where
  -- fields that enter the keys
  ifmBits : Nat                      -- op.inputs[0].dtype.size_in_bits()
  blockType : Nat
  blockDepthClamped : Nat            -- min(ofm_block.depth, weights.shape[-1])
  depthHash : Int
  dilation : Nat × Nat
  weightValueId : Nat
  scaleValueId : Nat
  ifmScale : Nat                     -- the doubles as bit patterns
  ofmScale : Nat
  -- fields that do not
  accelerator : Nat                  -- ublock depths, ncores; constant while a cache lives (cleared per compilation)
  opFlip : Bool                      -- op.type == Conv2DBackpropInputSwitchedBias
  depthOffsets : List Nat            -- only its hash is in the key
  blockDepth : Nat                   -- only the clamped value is in the key
  weightData : Nat                   -- token for (values, zero point, shape) behind weightValueId
  scaleData : Nat                    -- token for (bias values, weight scales, IFM type, explicit scaling, rounding)
deriving Repr, DecidableEq

structure WccKey where
  blockType : Nat
  blockDepth : Nat
  depthHash : Int
  dilation : Nat × Nat
  weightValueId : Nat
  ifmBits : Nat
  flip : Bool              -- `false` for every request while the key has no such field
deriving Repr, DecidableEq

/-- does `WeightCompressionConfig` of the tree under test have the field that separates a transpose
    convolution (kernel encoded reversed in height and width) from a convolution?  Read from the generated
    field list (`Gen/Caches.lean`, regenerated from the source on every run): the proposed repair
    `/verif_patches/C08-21` adds `flipped`. -/
def keyHasFlip : Bool := VelaVerif.Gen.Caches.wccFields.contains "flipped"

structure SccKey where
  scaleValueId : Nat
  ifmScale : Nat
  ofmScale : Nat
deriving Repr, DecidableEq

def wccKey (r : Req) : WccKey :=
  ⟨r.blockType, r.blockDepthClamped, r.depthHash, r.dilation, r.weightValueId, r.ifmBits, keyHasFlip && r.opFlip⟩
def sccKey (r : Req) : SccKey := ⟨r.scaleValueId, r.ifmScale, r.ofmScale⟩

/-- names of the non-key request fields in which two requests differ -/
def reqDiff (a b : Req) : List String :=
  (if a.accelerator ≠ b.accelerator then ["accelerator"] else []) ++
  (if a.ifmBits ≠ b.ifmBits then ["ifmBits"] else []) ++
  (if a.opFlip ≠ b.opFlip then ["opFlip"] else []) ++
  (if a.depthOffsets ≠ b.depthOffsets then ["depthOffsets"] else []) ++
  (if a.blockDepth ≠ b.blockDepth then ["blockDepth"] else []) ++
  (if a.weightData ≠ b.weightData then ["weightData"] else []) ++
  (if a.scaleData ≠ b.scaleData then ["scaleData"] else [])

/-- Generic memo table: `lookup`/`insert` keyed by `κ`. -/
def cacheGet {κ β : Type} [DecidableEq κ] (cache : List (κ × β)) (k : κ) : Option β :=
  (cache.find? (fun e => e.1 = k)).map (·.2)

/-- One request against the weight cache (the weights half of the function: on a hit the cached
    tensor is returned, on a miss the fresh encoding is stored under the key and returned). -/
def cachedStep {ρ κ β : Type} [DecidableEq κ] (key : ρ → κ) (fresh : ρ → β)
    (cache : List (κ × β)) (r : ρ) : β × List (κ × β) :=
  match cacheGet cache (key r) with
  | some v => (v, cache)
  | none => (fresh r, (key r, fresh r) :: cache)

inductive Outcome where
  | miss          -- weights and scales encoded, tensor stored in the cache
  | hitBoth       -- `return tens_cached, None`
  | hitWeights    -- cached weights reused, a scale-only tensor is encoded (and not cached)
deriving Repr, DecidableEq

/-- the two-level look-up at the top of `encode_weight_and_scale_tensor`; the cache maps the
    weight key to the scale key stored on the cached tensor -/
def cacheOutcome (cache : List (WccKey × SccKey)) (r : Req) : Outcome × List (WccKey × SccKey) :=
  match cacheGet cache (wccKey r) with
  | some scc => if scc = sccKey r then (.hitBoth, cache) else (.hitWeights, cache)
  | none => (.miss, (wccKey r, sccKey r) :: cache)

def cacheOutcomes : List (WccKey × SccKey) → List Req → List Outcome
  | _, [] => []
  | cache, r :: rs => let (o, cache') := cacheOutcome cache r; o :: cacheOutcomes cache' rs

/-- Run a sequence of requests, collecting what each one was answered with. -/
def cachedRun {ρ κ β : Type} [DecidableEq κ] (key : ρ → κ) (fresh : ρ → β) :
    List (κ × β) → List ρ → List (ρ × β)
  | _, [] => []
  | cache, r :: rs =>
    let (v, cache') := cachedStep key fresh cache r
    (r, v) :: cachedRun key fresh cache' rs

end VelaVerif.WeightLayout
