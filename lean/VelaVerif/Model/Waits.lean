import VelaVerif.Gen.Core
/-!
# Model of `register_command_stream_util.get_wait_dependency` and of the wait part of the
# `generate_command_stream` loop (property C04)

Hand transcription.  The two Python lists `outstanding_dma_ops` / `outstanding_npu_ops` are mutated
in place by the real function; here they are the `Tracked` value that is returned.  The operation
type is a parameter: the real code only uses operations as dictionary keys of `memory_accesses` and
calls `other_accesses.conflicts(op_accesses)`, which is the `conf other op` argument.
-/
namespace VelaVerif.Waits

structure Tracked (Op : Type) where
  dma : List Op       -- outstanding_dma_ops (oldest first)
  npu : List Op       -- outstanding_npu_ops
deriving Repr, DecidableEq, Inhabited

/-- `outstanding.append(op); if len(outstanding) > cap: outstanding.pop(0)` -/
def pushTrim {Op : Type} (cap : Nat) (l : List Op) (op : Op) : List Op :=
  let l' := l ++ [op]
  if l'.length > cap then l'.drop 1 else l'

/-- The `for idx in range(len(outstanding_ops) - 1, -1, -1)` loop: the *latest* tracked operation
    that conflicts decides.  Returns what is left of the list after `outstanding_ops.pop(0)` has been
    executed `idx + 1` times, i.e. the operations issued after the conflicting one; the value of
    `waits` at the `break` is the length of that rest.  `none`: the loop ended without a conflict. -/
def scan {Op : Type} (conf : Op → Op → Bool) (op : Op) : List Op → Option (List Op)
  | [] => none
  | x :: rest =>
    match scan conf op rest with
    | some r => some r
    | none => if conf x op then some rest else none

/-- `Watermark(npu, dma)`; `none` is Python's `-1` -/
structure Watermark where
  npu : Option Nat
  dma : Option Nat
deriving Repr, DecidableEq, Inhabited

/-- `get_wait_dependency(arch, npu_op, memory_accesses, outstanding_dma_ops, outstanding_npu_ops)` -/
def getWaitDependency {Op : Type} (maxDma maxKern : Nat) (conf : Op → Op → Bool) (isDma : Bool) (op : Op)
    (t : Tracked Op) : Watermark × Tracked Op :=
  if isDma then
    let dma' := pushTrim maxDma t.dma op
    match scan conf op t.npu with
    | some r => (⟨some r.length, none⟩, ⟨dma', r⟩)
    | none => (⟨none, none⟩, ⟨dma', t.npu⟩)
  else
    let npu' := pushTrim maxKern t.npu op
    match scan conf op t.dma with
    | some r => (⟨none, some r.length⟩, ⟨r, npu'⟩)
    | none => (⟨none, none⟩, ⟨t.dma, npu'⟩)

/-- the `for op_index, npu_op in enumerate(npu_op_list)` loop restricted to the waits:
    the `Watermark` of every operation, in order -/
def waitsFrom {Op : Type} (maxDma maxKern : Nat) (conf : Op → Op → Bool) :
    Tracked Op → List (Bool × Op) → List Watermark
  | _, [] => []
  | t, (isDma, op) :: rest =>
    let r := getWaitDependency maxDma maxKern conf isDma op t
    r.1 :: waitsFrom maxDma maxKern conf r.2 rest

def waits {Op : Type} (maxDma maxKern : Nat) (conf : Op → Op → Bool) (ops : List (Bool × Op)) : List Watermark :=
  waitsFrom maxDma maxKern conf ⟨[], []⟩ ops

/-- outstanding-operation limits of an accelerator row of the regenerated table -/
def capsOf (a : VelaVerif.Gen.AccRow) : Nat × Nat := (a.maxOutstandingDma, a.maxOutstandingKernels)

end VelaVerif.Waits
