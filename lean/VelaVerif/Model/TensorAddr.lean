import VelaVerif.Model.Cascade
/-!
# Model of tensor addressing (`ethosu/vela/tensor.py`, `high_level_command_to_npu_op.create_feature_map`)

From a tensor's shape and format to the addresses and strides that end up in the registers:

* `Tensor.set_format` (storage rounding quantum per format: `architecture_features.storage_rounding_quantums`),
  `Tensor.set_new_sub_purpose` / `storage_shape_for_sub_purpose` (rolling buffers),
* `storage_size`, `storage_size_for_shape`, `get_4D_storage_shape_for_shape`,
* `get_augmented_shape`, `get_strides`, `get_augmented_coord`,
* `address_for_coordinate` (asserts as error outcomes, `is_top_box`, wrap-around, brick arithmetic),
* `addresses_for_rolling_buffer` (four tile base addresses, `height_0`, `height_1`, `width_0`),
* `create_feature_map` (strides from `get_strides(op_shape4D)`, transpose swap, `stride_multiplier`,
  `tile_base_offsets`).

Conventions: shapes are lists of naturals of rank ≤ 4 (a larger rank is outside the model: `err:rank`);
`op_shape4D` is an `S4`; coordinates handed to `address_for_coordinate` are integers (a negative coordinate
trips the assert of a Standard tensor and wraps round in a rolling buffer, as in Python);
`storage_compression_scale` is 1 (feature maps), so strides are integers (Python computes them as
floats with integral values). The rounding quantum and the brick size 16 are written out here, NOT
read from a regenerated table: the correspondence check compares them with the live `arch` tables.
-/
namespace VelaVerif.TensorAddr
open VelaVerif.Cascade (roundUp)

inductive Err where
  | assert       -- AssertionError
  | zerodiv      -- ZeroDivisionError (a storage dimension or the alignment is 0)
  | unsupported  -- UnsupportedFeatureError (box crosses the buffer in x)
  | type         -- TypeError (`len(None)`: strides of a tensor whose format is neither NHWC nor NHCWB16)
  | rank         -- outside the model: rank > 4, coordinate lists that are not 4 long where Python indexes [1], [2]
deriving Repr, DecidableEq, Inhabited

def Err.str : Err → String
  | .assert => "err:assert"
  | .zerodiv => "err:zerodiv"
  | .unsupported => "err:unsupported"
  | .type => "err:type"
  | .rank => "err:rank"

inductive Fmt where
  | nhwc
  | nhcwb16
  | other        -- TensorFormat.Unknown / WeightsCompressed
deriving Repr, DecidableEq, Inhabited

inductive Purpose where
  | featureMap
  | weights
  | other
deriving Repr, DecidableEq, Inhabited

/-- a 4-D shape / coordinate (N, H, W, C) -/
structure S4 where
  n : Nat
  h : Nat
  w : Nat
  c : Nat
deriving Repr, DecidableEq, Inhabited

def S4.toList (s : S4) : List Nat := [s.n, s.h, s.w, s.c]
def S4.elems (s : S4) : Nat := s.n * s.h * s.w * s.c

/-- `numeric_util.full_shape(4, shape, 1)` as a 4-tuple; rank > 4 is outside the model -/
def full4 : List Nat → Option S4
  | [] => some ⟨1, 1, 1, 1⟩
  | [c] => some ⟨1, 1, 1, c⟩
  | [w, c] => some ⟨1, 1, w, c⟩
  | [h, w, c] => some ⟨1, h, w, c⟩
  | [n, h, w, c] => some ⟨n, h, w, c⟩
  | _ => none

def prod : List Nat → Nat
  | [] => 1
  | a :: rest => a * prod rest

/-- `arch.storage_rounding_quantums[fmt]` (N, H, W, C) -/
def quantumOf : Fmt → S4
  | .nhcwb16 => ⟨1, 1, 1, 16⟩
  | _ => ⟨1, 1, 1, 1⟩

/-- `shape_round_to_quantum(op_shape4D.as_list(), quantum)` -/
def roundS4 (s q : S4) : S4 := ⟨roundUp s.n q.n, roundUp s.h q.h, roundUp s.w q.w, roundUp s.c q.c⟩

/-- `shape_round_to_quantum(shape, quantum[-len(shape):])`: the quantum is aligned from the back -/
def roundList (shp : List Nat) (q : S4) : List Nat :=
  match shp with
  | [c] => [roundUp c q.c]
  | [w, c] => [roundUp w q.w, roundUp c q.c]
  | [h, w, c] => [roundUp h q.h, roundUp w q.w, roundUp c q.c]
  | [n, h, w, c] => [roundUp n q.n, roundUp h q.h, roundUp w q.w, roundUp c q.c]
  | l => l

structure Tens where
  shape : List Nat
  storageShape : List Nat
  /-- `storage_rounding_quantum`, padded to 4 entries with 1 (`full_shape(4, list(quantum), 1)`) -/
  quantum : S4 := ⟨1, 1, 1, 1⟩
  fmt : Fmt := .other
  /-- `element_size()` -/
  elemSize : Nat
  alignment : Nat := 16
  purpose : Purpose := .featureMap
  /-- `sub_purpose == TensorSubPurpose.Standard` -/
  standard : Bool := true
  /-- `use_linear_format` -/
  linear : Bool := false
  address : Nat := 0
deriving Repr, DecidableEq, Inhabited

/-- a fresh `Tensor(shape, dtype, name)` -/
def Tens.new (shape : List Nat) (elemSize : Nat) : Tens :=
  { shape := shape, storageShape := shape, elemSize := elemSize }

def isStandardFm (t : Tens) : Bool := t.standard && t.purpose == .featureMap

/-- `Tensor.set_format(fmt, arch)` -/
def setFormat (t : Tens) (fmt : Fmt) : Except Err Tens :=
  if t.shape.length > 4 then .ok { t with fmt := fmt } else
  if t.linear && fmt == .nhcwb16 then .error .assert else
  .ok { t with fmt := fmt, quantum := quantumOf fmt, storageShape := roundList t.shape (quantumOf fmt) }

inductive Rolling where
  | x (a : Nat)
  | y (a : Nat)
  | xy (a b : Nat)
deriving Repr, DecidableEq, Inhabited

/-- `Tensor.set_new_sub_purpose(RollingBufferX / Y / XY, param_a, param_b)` -/
def setRolling (t : Tens) (r : Rolling) : Except Err Tens :=
  match full4 t.storageShape with
  | none => .error .assert      -- `assert len(shp) == 4`
  | some s =>
    let s' : S4 := match r with
      | .x a => ⟨1, s.h, min s.w a, s.c⟩
      | .y a => ⟨1, min s.h a, s.w, s.c⟩
      | .xy a b => ⟨1, min s.h b, min s.w a, s.c⟩
    .ok { t with storageShape := s'.toList, standard := false }

/-- `round_up(round_up_to_int(raw_size), alignment)` with the "force it to take up space" byte -/
def sizeOfElems (elems elemSize alignment : Nat) : Except Err Nat :=
  if alignment = 0 then .error .zerodiv else
  let raw := elems * elemSize
  .ok (roundUp (if raw = 0 then 1 else raw) alignment)

/-- `Tensor.storage_size()` -/
def storageSize (t : Tens) : Except Err Nat := sizeOfElems (prod t.storageShape) t.elemSize t.alignment

/-- `Tensor.storage_size_for_shape(op_storage_shape)` -/
def storageSizeForShape (t : Tens) (s : S4) : Except Err Nat := sizeOfElems s.elems t.elemSize t.alignment

/-- `get_4D_storage_shape_for_shape(op_shape4D)` -/
def storageShapeFor (t : Tens) (op : S4) : S4 := roundS4 op t.quantum

/-- the 4-D storage shape `get_augmented_shape`, `address_for_coordinate` work with:
    the rounded operator shape for a standard feature map accessed through an operator shape,
    the tensor's own storage shape otherwise -/
def viewShape (t : Tens) (op : Option S4) : Except Err S4 :=
  match op with
  | some s => if isStandardFm t then .ok (storageShapeFor t s) else
      match full4 t.storageShape with | some v => .ok v | none => .error .rank
  | none => match full4 t.storageShape with | some v => .ok v | none => .error .rank

/-- strides in Python's list order: `[0]` batch, `[1]` depth (NHWC: one element, NHCWB16: one brick of 16),
    `[2]` height, `[3]` width, `[4]` element inside a brick -/
structure Strides where
  sN : Nat
  sC : Nat
  sH : Nat
  sW : Nat
  sE : Nat
deriving Repr, DecidableEq, Inhabited

def stridesOfView (fmt : Fmt) (e : Nat) (v : S4) : Except Err Strides :=
  match fmt with
  | .nhwc => .ok ⟨e * v.c * v.w * v.h, e, e * v.c * v.w, e * v.c, e⟩
  | .nhcwb16 =>
    let h := if v.h = 0 then 1 else v.h
    .ok ⟨v.w * v.c * e * h, 16 * e * v.w, v.w * v.c * e, 16 * e, e⟩
  | .other => .error .type

/-- `Tensor.get_strides(shape4D)` -/
def getStrides (t : Tens) (op : Option S4) : Except Err Strides :=
  match t.fmt with
  | .other => .error .type
  | fmt => match viewShape t op with
    | .error e => .error e
    | .ok v => stridesOfView fmt t.elemSize v

/-- the asserts `_coord >= 0 and _coord < _shape` over `zip(coord, shape)` -/
def inShape : List Int → List Nat → Bool
  | c :: cs, s :: ss => (0 ≤ c && c < (s : Int)) && inShape cs ss
  | _, _ => true

/-- `[_coord % _shape for _coord, _shape in zip(coord, storage_shape)]` (Python `%`: result in `[0, shape)`) -/
def wrapCoord : List Int → List Nat → Except Err (List Nat)
  | c :: cs, s :: ss =>
    if s = 0 then .error .zerodiv else
    match wrapCoord cs ss with
    | .error e => .error e
    | .ok r => .ok ((c % (s : Int)).toNat :: r)
  | _, _ => .ok []

/-- Python `coord[-k:]` -/
def lastK (l : List Int) (k : Nat) : List Int := if k = 0 then l else l.drop (l.length - k)

/-- `dot(get_augmented_coord(coord), strides)` for a (wrapped, non-negative) coordinate padded to (n, h, w, c) -/
def linOffset (fmt : Fmt) (st : Strides) (n h w c : Nat) : Nat :=
  match fmt with
  | .nhcwb16 => n * st.sN + (c / 16) * st.sC + h * st.sH + w * st.sW + (c % 16) * st.sE
  | _ => n * st.sN + c * st.sC + h * st.sH + w * st.sW

def dotAug (fmt : Fmt) (st : Strides) (coord : List Nat) : Except Err Nat :=
  if fmt == .other then .error .assert else      -- `assert augmented_coord is not None`
  match coord with
  | [] => .ok (linOffset fmt st 0 0 0 0)
  | [c] => .ok (linOffset fmt st 0 0 0 c)
  | [w, c] => .ok (linOffset fmt st 0 0 w c)
  | [h, w, c] => .ok (linOffset fmt st 0 h w c)
  | [n, h, w, c] => .ok (linOffset fmt st n h w c)
  | _ => .error .rank

/-- `shape = op_shape4D.as_list() if op_shape4D else self.shape`: what a Standard tensor's coordinates are asserted against -/
def assertShape (t : Tens) (op : Option S4) : List Nat :=
  match op with
  | some s => s.toList
  | none => t.shape

/-- `if not strides: strides = self.get_strides(op_shape4D)` -/
def stridesOrDefault (t : Tens) (strides : Option Strides) (op : Option S4) : Except Err Strides :=
  match strides with
  | some s => .ok s
  | none => getStrides t op

/-- the storage size `address_for_coordinate` asserts against -/
def sizeForView (t : Tens) (viaOp : Bool) (v : S4) : Except Err Nat :=
  if viaOp then storageSizeForShape t v else storageSize t

/-- `Tensor.address_for_coordinate(orig_coord, strides, op_shape4D, is_top_box) - self.address` -/
def offsetForCoordinate (t : Tens) (coord : List Int) (strides : Option Strides) (op : Option S4) (top : Bool) :
    Except Err Nat :=
  if t.purpose == .weights then .error .assert else
  match stridesOrDefault t strides op with
  | .error e => .error e
  | .ok st =>
    let coord1 := if top then coord.map (· - 1) else coord
    let off0 := if top then st.sE else 0
    if t.standard && !(inShape coord1 (assertShape t op)) then .error .assert else
    let viaOp := op.isSome && isStandardFm t
    match viewShape t op with
    | .error e => .error e
    | .ok v =>
      let storL := if viaOp then v.toList else t.storageShape
      let coord2 := if viaOp then coord1 else lastK coord1 t.storageShape.length
      match sizeForView t viaOp v with
      | .error e => .error e
      | .ok size =>
        match wrapCoord coord2 storL with
        | .error e => .error e
        | .ok coord3 =>
          match dotAug t.fmt st coord3 with
          | .error e => .error e
          | .ok d => if off0 + d ≤ size then .ok (off0 + d) else .error .assert

def addressForCoordinate (t : Tens) (coord : List Int) (strides : Option Strides) (op : Option S4) (top : Bool) :
    Except Err Nat :=
  match offsetForCoordinate t coord strides op top with
  | .error e => .error e
  | .ok o => .ok (t.address + o)

structure TileBox where
  height0 : Nat
  height1 : Nat
  width0 : Nat
  a0 : Nat
  a1 : Nat
  a2 : Nat
  a3 : Nat
deriving Repr, DecidableEq, Inhabited

def TileBox.addrs (b : TileBox) : List Nat := [b.a0, b.a1, b.a2, b.a3]

def coordOf (n h w c : Nat) : List Int := [(n : Int), (h : Int), (w : Int), (c : Int)]

/-- `Tensor.addresses_for_rolling_buffer(start_coord, end_coord, strides, op_shape4D)`;
    `s ≤ e` componentwise is the invariant of `Box.__init__` -/
def addressesForRollingBuffer (t : Tens) (s e : S4) (st : Strides) (op : S4) : Except Err TileBox :=
  -- `Box.__init__` asserts start ≤ end; without it Python would return negative heights / widths
  if ¬(s.h ≤ e.h ∧ s.w ≤ e.w) then .error .assert else
  if t.storageShape = [] then
    match addressForCoordinate t (coordOf s.n s.h s.w s.c) (some st) (some op) false with
    | .error er => .error er
    | .ok a => .ok ⟨1, 1, 1, a, 0, 0, 0⟩
  else
  match viewShape t (some op) with      -- `storage_shape_4D`
  | .error er => .error er
  | .ok ss =>
    if ss.h = 0 ∨ ss.w = 0 then .error .zerodiv else
    let cy := min (roundUp (s.h + 1) ss.h) e.h
    let cx := min (roundUp (s.w + 1) ss.w) e.w
    match addressForCoordinate t (coordOf s.n s.h s.w s.c) (some st) (some op) false with
    | .error er => .error er
    | .ok a0 =>
      if e.w > cx then
        match addressForCoordinate t (coordOf s.n s.h cx s.c) (some st) (some op) false with
        | .error er => .error er
        | .ok _ => .error .unsupported
      else
      match (if e.h > cy then addressForCoordinate t (coordOf s.n cy s.w s.c) (some st) (some op) false else Except.ok 0) with
      | .error er => .error er
      | .ok a2 => .ok ⟨cy - s.h, cy - s.h, cx - s.w, a0, 0, a2, 0⟩

structure FmRegs where
  strideH : Nat
  strideW : Nat
  strideD : Nat
  tiles : TileBox
deriving Repr, DecidableEq, Inhabited

/-- strides of `create_feature_map` before the multiplier: `get_strides(op_shape4D)`, or for the OFM of a
    TRANSPOSE the strides of the H/W-swapped shape with the H and W strides exchanged -/
def fmStrides (t : Tens) (op : S4) (transposed : Bool) : Except Err Strides :=
  if transposed then
    match getStrides t (some ⟨op.n, op.w, op.h, op.c⟩) with
    | .error er => .error er
    | .ok st => .ok { st with sH := st.sW, sW := st.sH }
  else getStrides t (some op)

/-- `stride_multiplier` (C, H, W factors); `None` and `[1, 1, 1]` leave the strides alone, anything else
    asserts NHWC -/
def applyMult (fmt : Fmt) (st : Strides) (mult : Option (Nat × Nat × Nat)) : Except Err Strides :=
  match mult with
  | none => .ok st
  | some (mc, mh, mw) =>
    if mc = 1 ∧ mh = 1 ∧ mw = 1 then .ok st
    else if fmt ≠ Fmt.nhwc then .error .assert
    else .ok { st with sC := st.sC * mc, sH := st.sH * mh, sW := st.sW * mw }

/-- `create_feature_map(tens, box, arch, op_shape4D, tile_base_offsets, stride_multiplier, is_ofm)`:
    `transposed` = `is_ofm and tens.ops[0].original_type == Op.Transpose`;
    `mult` = `stride_multiplier` (C, H, W factors), `none` for `None` -/
def createFeatureMap (t : Tens) (s e : S4) (op : S4) (offs : List Nat) (mult : Option (Nat × Nat × Nat))
    (transposed : Bool) : Except Err FmRegs :=
  if t.fmt == .other then .error .assert else       -- `assert 0, "Incorrect tensor format"`
  match fmStrides t op transposed with
  | .error er => .error er
  | .ok st0 =>
    match applyMult t.fmt st0 mult with
    | .error er => .error er
    | .ok st =>
      match addressesForRollingBuffer t s e st op with
      | .error er => .error er
      | .ok tb =>
        match offs with
        | [o0, o1, o2, o3] =>
          .ok ⟨st.sH, st.sW, st.sC, { tb with a0 := tb.a0 + o0, a1 := tb.a1 + o1, a2 := tb.a2 + o2, a3 := tb.a3 + o3 }⟩
        | _ => .error .rank

/-- `Tensor.get_full_shape()`: rank 1 and 3 are padded with leading 1s (`full_shape(4, shape, 1)`), rank 2 `[a, b]`
    becomes `[a, 1, 1, b]`, every other rank (0, 4, more) is returned unchanged -/
def getFullShape : List Nat → List Nat
  | [c] => [1, 1, 1, c]
  | [a, b] => [a, 1, 1, b]
  | [h, w, c] => [1, h, w, c]
  | l => l

end VelaVerif.TensorAddr
