/-!
# Model of the lookup-table residency logic (`ethosu/vela/lut.py`)

Transcribed: `LUTState.get_equivalent` / `put` / `find_best_address`, `get_lut_index`, `optimize_high_level_cmd_stream`.

* A tensor object is a number (`tid`, Python object identity); what the pass reads of it is immutable and comes from the
  context: `vals t` = the class of `t.values` under `np.array_equal` (what `get_equivalent` compares — the dtype and with it
  the byte size are NOT part of it), `size t` = `t.storage_size()`. What the pass writes (`address` of a tensor,
  `lut_index` of the activation of a pass's primary op) lives in `Env`, newest assignment first. The `equivalence_id` it
  writes is not modelled beyond its effect on `address` (next item).
* `LUTState.tensors` is a Python list of tensor *objects*; the model keeps a copy of the address next to each entry (`Tab`).
  That is the same thing as long as the pass never changes the address of an object that is in the list; it never does:
  for the code as it stands `Props/C03LutState.state_entries_never_reassigned` (a table that is in the list is found by
  `get_equivalent`, as itself, so it is never placed again and the address it is given is the one it has), for the code
  with repair C03-11 `sticky_addresses_never_change` (an object has one address for the whole stream).
  `Tensor.address` is stored per `(equivalence_id, mem_type)` in `TensorAddressMap`; the pass gives a placed table a fresh
  `uuid4` before it sets the address and gives a reused table the id of the table found, whose address it then "sets" to the
  value the map already holds — so per object the address changes exactly when the object is the `out_tensor` of the
  command being processed, which is what `Env.addr` records.
* a high-level command is one of: DMA whose `out_tensor.purpose` is `LUT` (for pass `p`, tensor `t`), `NpuStripe` of pass
  `p`, anything else (`other`: DMA of weights / feature maps, NOP). Whether `ps.lut_tensor is None` is a property of the
  pass (`Ctx.passLut`).
* Python `range(start, stop, 0)` raises `ValueError`: `Err.value`. Nothing else in the pass can raise (`get_lut_index`,
  which asserts `0 ≤ slot < 8`, is not called by the pass any more since /repo b335255).
-/
namespace VelaVerif.Model.LutState

/-- an entry of `LUTState.tensors` -/
structure Tab where
  tid : Nat
  vals : Nat
  size : Nat
  addr : Nat
deriving Repr, DecidableEq

abbrev State := List Tab

/-- `numeric_util.overlaps` -/
def overlaps (s1 e1 s2 e2 : Nat) : Bool := decide (s1 < e2) && decide (s2 < e1)

def Tab.stop (t : Tab) : Nat := t.addr + t.size

/-- `LUTState.get_equivalent`: first entry whose values compare equal -/
def getEquivalent (st : State) (vals : Nat) : Option Tab := st.find? fun t => t.vals == vals

/-- `LUTState.put`: the new table first, then the old entries that do not overlap it, in their order -/
def put (st : State) (t : Tab) : State := t :: st.filter fun u => !overlaps t.addr t.stop u.addr u.stop

/-- inner loop of `find_best_address`: number of entries overlapping `[a, a + step)` -/
def nrOverlaps (st : State) (a step : Nat) : Nat := (st.filter fun u => overlaps a (a + step) u.addr u.stop).length

/-- Python `range(start, stop, step)`, `step > 0` -/
def pyRange (start stop step : Nat) : List Nat :=
  (List.range ((stop - start + step - 1) / step)).map fun k => start + k * step

/-- one iteration of the outer loop of `find_best_address`; the pair is `(best_addr, best_nr_overlaps)` -/
def fbaStep (st : State) (step : Nat) (best : Nat × Nat) (a : Nat) : Nat × Nat :=
  if nrOverlaps st a step < best.2 then (a, nrOverlaps st a step) else best

inductive Err | value
deriving Repr, DecidableEq

/-- `LUTState.find_best_address`; note the initial `best_nr_overlaps = stop` (an address, used as "infinity") -/
def findBestAddress (st : State) (start stop step : Nat) : Except Err Nat :=
  if step = 0 then .error .value
  else .ok ((pyRange start stop step).foldl (fbaStep st step) (start, stop)).1

/-- `get_lut_index` (asserts `0 ≤ slot < 8`; `//` by 0 raises as well) -/
def getLutIndex (lutStart addr size : Nat) : Option Nat :=
  if size = 0 ∨ addr < lutStart then none
  else let slot := (addr - lutStart) / size
    if slot < 8 then some slot else none

/-! ## the pass -/

structure Ctx where
  lutStart : Nat          -- arch.shram_lut_address
  lutSize : Nat           -- arch.shram_lut_size
  reserved : Nat          -- arch.shram_reserved_unused_banks
  vals : Nat → Nat
  size : Nat → Nat
  passLut : Nat → Bool    -- `ps.lut_tensor is not None`
  /-- which `lut.py` is modelled. `false`/`false`: the code as it stands at /repo 755ba3e. `widthAware`: with repair
      /verif_patches/C03-10 (`get_equivalent` also compares `storage_size()`); `sticky`: with repair /verif_patches/C03-11
      (a tensor object that was given an address earlier in the stream keeps it). The check finds out which one is under
      test by running the two witnesses of `Props/C03LutState.lean` on the real code (harness/lutstate_lib.py `probe`). -/
  widthAware : Bool := false
  sticky : Bool := false

inductive Cmd
  | lutDma (p t : Nat)
  | stripe (p : Nat)
  | other
deriving Repr, DecidableEq

def slotSize : Nat := 256

def lookup (l : List (Nat × Nat)) (k : Nat) : Option Nat := (l.find? fun e => e.1 == k).map (·.2)

/-- the object fields the pass has written so far (newest first) -/
structure Env where
  addr : List (Nat × Nat) := []     -- tensor ↦ address
  idx : List (Nat × Nat) := []      -- pass ↦ primary_op.activation.lut_index
deriving Repr, DecidableEq

/-- what the pass did with a command -/
inductive Act
  | untouched (reset : Bool)                 -- appended to the new stream; `reset`: the state was emptied first
  | dropped (found : Tab) (addr idx : Nat)   -- table DMA removed: the table `found` is resident
  | placed (addr idx : Nat)                  -- table DMA kept, table placed at `addr`
deriving Repr, DecidableEq

structure PS where
  st : State := []
  env : Env := {}
deriving Repr, DecidableEq

def mkTab (c : Ctx) (t addr : Nat) : Tab := ⟨t, c.vals t, c.size t, addr⟩

/-- `lut_state.get_equivalent(lut_tens)` as the pass calls it (with C03-10: same storage size as well) -/
def getEquiv (c : Ctx) (st : State) (t : Nat) : Option Tab :=
  st.find? fun u => (!c.widthAware || u.size == c.size t) && u.vals == c.vals t

/-- C03-11 `assigned_address.get(lut_tens)`: the address the tensor object was given earlier in this stream -/
def prevAddr (c : Ctx) (s : PS) (t : Nat) : Option Nat := if c.sticky then lookup s.env.addr t else none

def reusable (prev : Option Nat) (e : Tab) : Bool :=
  match prev with
  | none => true
  | some a => a == e.addr

/-- the resident table the DMA of `t` can be dropped for (C03-11: only if it is where `t` was before) -/
def findReusable (c : Ctx) (s : PS) (t : Nat) : Option Tab :=
  match getEquiv c s.st t with
  | some e => if reusable (prevAddr c s t) e then some e else none
  | none => none

/-- where a table that has to be loaded goes (C03-11: where it was before, else `find_best_address`) -/
def chooseAddr (c : Ctx) (s : PS) (t : Nat) : Except Err Nat :=
  match prevAddr c s t with
  | some a => .ok a
  | none => findBestAddress s.st c.lutStart (c.lutStart + c.lutSize) (c.size t)

/-- the body of the loop of `optimize_high_level_cmd_stream` for one command -/
def step (c : Ctx) (s : PS) : Cmd → Except Err (PS × Act)
  | .stripe p =>
    if !c.passLut p && c.reserved == 0 then .ok ({ s with st := [] }, .untouched true)
    else .ok (s, .untouched false)
  | .other => .ok (s, .untouched false)
  | .lutDma p t =>
    match findReusable c s t with
    | some e =>
      let i := (e.addr - c.lutStart) / slotSize
      .ok ({ s with env := { addr := (t, e.addr) :: s.env.addr, idx := (p, i) :: s.env.idx } }, .dropped e e.addr i)
    | none =>
      match chooseAddr c s t with
      | .error e => .error e
      | .ok a =>
        let i := (a - c.lutStart) / slotSize
        .ok ({ st := put s.st (mkTab c t a),
               env := { addr := (t, a) :: s.env.addr, idx := (p, i) :: s.env.idx } }, .placed a i)

/-- the loop: the acts, one per command, and the final state / fields -/
def run (c : Ctx) : PS → List Cmd → Except Err (List Act × PS)
  | s, [] => .ok ([], s)
  | s, cmd :: rest =>
    match step c s cmd with
    | .error e => .error e
    | .ok (s', a) =>
      match run c s' rest with
      | .error e => .error e
      | .ok (as, sf) => .ok (a :: as, sf)

/-- `optimize_high_level_cmd_stream` -/
def optimize (c : Ctx) (cmds : List Cmd) : Except Err (List Act × PS) := run c {} cmds

def Act.kept : Act → Bool
  | .dropped .. => false
  | _ => true

/-- the new `sg.high_level_command_stream` -/
def keptCmds : List Cmd → List Act → List Cmd
  | c :: cs, a :: as => if a.kept then c :: keptCmds cs as else keptCmds cs as
  | _, _ => []

/-! ## the call log (what the recording subclass of the real `LUTState` prints in `harness/lutstate_lib.py`) -/

def showState (st : State) : String := " ".intercalate (st.map fun t => s!"{t.tid}@{t.addr}")

def stepLog (c : Ctx) (s : PS) : Cmd → List String
  | .stripe p => if !c.passLut p && c.reserved == 0 then ["new"] else []
  | .other => []
  | .lutDma _ t =>
    let l1 := s!"eq [{showState s.st}] {t} -> " ++ (match getEquiv c s.st t with | some e => toString e.tid | none => "-")
    match findReusable c s t with
    | some _ => [l1]
    | none =>
      let stop := c.lutStart + c.lutSize
      match chooseAddr c s t with
      | .error _ => [l1, "raise ValueError"]
      | .ok a =>
        [l1] ++ (match prevAddr c s t with
                 | some _ => []
                 | none => [s!"fba [{showState s.st}] {c.lutStart} {stop} {c.size t} -> {a}"]) ++
        ["new", s!"put [{showState s.st}] {t}@{a} -> [{showState (put s.st (mkTab c t a))}]"]

def runLog (c : Ctx) : PS → List Cmd → List String
  | _, [] => []
  | s, cmd :: rest =>
    stepLog c s cmd ++ (match step c s cmd with
      | .error _ => []
      | .ok (s', _) => runLog c s' rest)

/-- the log of `optimize_high_level_cmd_stream`: it starts with `lut_state = LUTState()` -/
def optimizeLog (c : Ctx) (cmds : List Cmd) : List String := "new" :: runLog c {} cmds

end VelaVerif.Model.LutState
