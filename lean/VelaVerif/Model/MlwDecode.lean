/-!
# Reference decoder of the MLW weight stream (transcription of `ethosu/mlw_codec/mlw_decode.c`)

`mlw_decode` reads a bit stream LSB-first: a sequence of slices, each with a header
(ZDIV, SLICELEN, WDIV, WTRUNC, NEWPAL [, DIROFS, PALSIZE, PALBITS, palette entries]) followed by
interleaved chunks (WUNARY0, ZUNARY, WUNARY1, remainders of the *previous* chunk), and an
end-of-stream marker (ZDIV = 7, byte alignment) after which a further stream may follow.

Transcription rules: the bit buffer is a `List Bool` (so reading past the end is impossible by
construction and is *reported* as `DecErr.underrun`, where the C code prints and calls `exit(1)`);
`assert`s of the C code are rejections (`DecErr`); the two `do … while` loops take fuel
(`Props/C07.lean` `decoder_total` proves that the fuel given by `decode` is never exhausted).
-/
namespace VelaVerif.Mlw

/-! Constants of the stream format (a hardware fact; `Props/C07.lean` `codec_constants_match` ties them to
    `mlw_common.h` of the tree under test through the regenerated `Gen/Mlw.lean`). -/
/-- ZDIV value: no zero runs (not alternating mode) -/
def zdivDisable : Nat := 6
/-- ZDIV value: end of stream -/
def zdivEos : Nat := 7
/-- WDIV value: uncompressed weights -/
def wdivUncompressed : Nat := 7

inductive DecErr where
  /-- `bitbuf_getbit: underrun` — the C code prints and exits -/
  | underrun
  /-- loop fuel exhausted (never happens for the fuel `decode` supplies: `decoder_total`) -/
  | fuel
  /-- `assert(z_grc_div<4 || z_grc_div==ZDIV_DISABLE)` -/
  | badZdiv
  /-- `assert(w_grc_div<6)` -/
  | badWdiv
  /-- `assert(new_palette)` on the first slice of a stream -/
  | noPalette
  /-- `assert(use_zero_run == prev_use_zero_run)` when the palette is kept -/
  | zrunSwitch
  /-- `assert(w_value[i]<512)` -/
  | indexRange
  /-- a list the C code indexes had the wrong length (unreachable; reported, never defaulted) -/
  | internal
deriving Repr, DecidableEq, Inhabited

def DecErr.toString : DecErr → String
  | .underrun => "underrun" | .fuel => "fuel" | .badZdiv => "badZdiv" | .badWdiv => "badWdiv"
  | .noPalette => "noPalette" | .zrunSwitch => "zrunSwitch" | .indexRange => "indexRange"
  | .internal => "internal"

/-- the unread part of the bit buffer and the bit position `bb->pos` -/
structure Bits where
  rest : List Bool
  pos : Nat
deriving Repr

/-- little-endian bits of each byte, in stream order -/
def bytesToBits (bs : List Nat) : List Bool :=
  bs.flatMap fun b => [b.testBit 0, b.testBit 1, b.testBit 2, b.testBit 3,
                       b.testBit 4, b.testBit 5, b.testBit 6, b.testBit 7]

/-- reader: state-and-error monad over the bit buffer -/
def Rd (α : Type) : Type := Bits → Except DecErr (α × Bits)

@[inline] def Rd.pure (a : α) : Rd α := fun b => .ok (a, b)
@[inline] def Rd.bind (m : Rd α) (f : α → Rd β) : Rd β := fun b =>
  match m b with
  | .error e => .error e
  | .ok (a, b') => f a b'
@[inline] def Rd.fail (e : DecErr) : Rd α := fun _ => .error e
/-- a computation that does not touch the bit buffer -/
@[inline] def Rd.lift (x : Except DecErr α) : Rd α := fun b =>
  match x with
  | .error e => .error e
  | .ok a => .ok (a, b)

instance : Monad Rd where
  pure := Rd.pure
  bind := Rd.bind

/-- `len` bits, first bit = least significant (`bitbuf_get`); `none` = underrun -/
def takeBits : Nat → List Bool → Option (Nat × List Bool)
  | 0, r => some (0, r)
  | _ + 1, [] => none
  | n + 1, b :: r =>
    match takeBits n r with
    | none => none
    | some (v, r') => some ((if b then 1 else 0) + 2 * v, r')

/-- `bitbuf_get(bb, name, len)` -/
def get (n : Nat) : Rd Nat := fun b =>
  match takeBits n b.rest with
  | none => .error .underrun
  | some (v, r) => .ok (v, ⟨r, b.pos + n⟩)

/-- `(bb->pos/8) == inbuf_size` (the position never exceeds the buffer) -/
def atEnd : Rd Bool := fun b => .ok (b.rest.isEmpty, b)
def bitPos : Rd Nat := fun b => .ok (b.pos, b)
def remaining : Rd Nat := fun b => .ok (b.rest.length, b)

/-- the part of the decoder state that survives from slice to slice -/
structure Pal where
  directOffset : Nat := 0
  palsize : Nat := 0
  palbits : Nat := 0
  palette : List Nat := []
deriving Repr

/-- one decoded slice header (reported for coverage statistics and used by the round-trip lemmas) -/
structure SliceInfo where
  zdiv : Nat
  nvalues : Nat
  wdiv : Nat          -- raw WDIV field (7 = uncompressed)
  trunc : Bool
  newPal : Bool
  palsize : Nat
  palbits : Nat
  directOffset : Nat
  nchunks : Nat
  zeros : Nat         -- zeros inserted by zero runs of this slice
  direct : Nat        -- weights decoded through the direct (non-palette) path
deriving Repr, DecidableEq

/-- per-slice constants of the chunk loop -/
structure SliceCfg where
  useZ : Bool
  uncompressed : Bool
  trunc : Bool
  wDiv : Nat           -- remainder width of weights (index width in uncompressed mode)
  zDiv : Nat
  nvalues : Nat
  zNvalues : Nat
deriving Repr

def SliceCfg.zUnaryLen (c : SliceCfg) : Nat := if c.zDiv < 3 then 12 else 8
def SliceCfg.maxSymbols (c : SliceCfg) : Nat := if c.uncompressed && c.wDiv > 5 then 8 else 12

/-- loop state of `do { … } while (w_prev_enable || z_prev_enable)` -/
structure Chunk where
  wPos : Nat := 0
  zPos : Nat := 0
  wPrevPos : Nat := 0
  zPrevPos : Nat := 0
  wCarry : Nat := 0
  zCarry : Nat := 0
  wPrevEn : Bool := false
  zPrevEn : Bool := false
  wPrevQ : List Nat := []
  zPrevQ : List Nat := []
  /-- `w_value[0..w_prev_pos)`, reversed -/
  wVals : List Nat := []
  /-- `z_value[0..z_prev_pos)`, reversed -/
  zVals : List Nat := []
  nchunks : Nat := 0
deriving Repr

/-- the zero-run unary loop: `for(i<z_unary_len) if (z_unary & (1<<i)) cnt++ else {z_q[n++]=cnt; cnt=0}`;
    returns the quotients and the carry -/
def zUnaryLoop (unary : Nat) : (n i cnt : Nat) → (acc : List Nat) → List Nat × Nat
  | 0, _, cnt, acc => (acc.reverse, cnt)
  | n + 1, i, cnt, acc =>
    if unary.testBit i then zUnaryLoop unary n (i + 1) (cnt + 1) acc
    else zUnaryLoop unary n (i + 1) 0 (cnt :: acc)

/-- number of set bits among the low `n` bits starting at bit `i` (`w_unary1_len`) -/
def popLow (x : Nat) : (n i : Nat) → Nat
  | 0, _ => 0
  | n + 1, i => (if x.testBit i then 1 else 0) + popLow x n (i + 1)

/-- the weight unary loop (two-level unary code 0 / 1 / 2, `w_grc_trunc` ends a symbol at 2) -/
def wUnaryLoop (unary0 : Nat) (trunc : Bool) : (n i unary1 cnt : Nat) → (acc : List Nat) → List Nat × Nat
  | 0, _, _, cnt, acc => (acc.reverse, cnt)
  | n + 1, i, u1, cnt, acc =>
    let has := unary0.testBit i
    let code := if has then (if u1 % 2 == 1 then 2 else 1) else 0
    let u1' := if has then u1 / 2 else u1
    if code < 2 || trunc then wUnaryLoop unary0 trunc n (i + 1) u1' 0 ((cnt + code) :: acc)
    else wUnaryLoop unary0 trunc n (i + 1) u1' (cnt + code) acc

/-- `for(i…) { remain = bitbuf_get(div); value[pos] = (q[i]<<div) + remain; }` -/
def getRemains (div : Nat) : List Nat → Rd (List Nat)
  | [] => pure []
  | q :: qs => do
    let r ← get div
    let rest ← getRemains div qs
    pure (((q <<< div) + r) :: rest)

/-- `WUNARY0` (12 bits) when the weight stream is enabled and compressed -/
def readW0 (c : SliceCfg) (wEn : Bool) : Rd Nat :=
  if wEn && !c.uncompressed then get 12 else pure 0

/-- `ZUNARY`: quotients of the zero runs of this chunk and the carry -/
def readZ (c : SliceCfg) (zEn : Bool) (s : Chunk) : Rd (List Nat × Nat) :=
  if zEn then (get c.zUnaryLen).bind fun zu => pure (zUnaryLoop zu c.zUnaryLen 0 s.zCarry [])
  else pure ([], s.zCarry)

/-- `WUNARY1`: quotients of the weights of this chunk and the carry -/
def readW1 (c : SliceCfg) (wEn : Bool) (s : Chunk) (u0 : Nat) : Rd (List Nat × Nat) :=
  if wEn then (get (popLow u0 c.maxSymbols 0)).bind fun u1 =>
    pure (wUnaryLoop u0 c.trunc c.maxSymbols 0 u1 s.wCarry [])
  else pure ([], s.wCarry)

/-- `WREMAIN` of the previous chunk -/
def readWRemain (c : SliceCfg) (s : Chunk) : Rd (List Nat) :=
  if s.wPrevEn then getRemains c.wDiv (s.wPrevQ.take (c.nvalues - s.wPrevPos)) else pure []

/-- `ZREMAIN` of the previous chunk -/
def readZRemain (c : SliceCfg) (s : Chunk) : Rd (List Nat) :=
  if s.zPrevEn then getRemains c.zDiv (s.zPrevQ.take (c.zNvalues - s.zPrevPos)) else pure []

/-- one iteration of the chunk loop; `wEn`/`zEn` are the flow-control decisions of this iteration -/
def chunkStep (c : SliceCfg) (wEn zEn : Bool) (s : Chunk) : Rd Chunk := do
  let u0 ← readW0 c wEn
  let z ← readZ c zEn s
  let w ← readW1 c wEn s u0
  let wr ← readWRemain c s
  let zr ← readZRemain c s
  pure { wPos := s.wPos + w.1.length, zPos := s.zPos + z.1.length,
         wPrevPos := s.wPrevPos + wr.length, zPrevPos := s.zPrevPos + zr.length,
         wCarry := w.2, zCarry := z.2, wPrevEn := wEn, zPrevEn := zEn,
         wPrevQ := w.1, zPrevQ := z.1,
         wVals := wr.reverse ++ s.wVals, zVals := zr.reverse ++ s.zVals, nchunks := s.nchunks + 1 }

/-- `balance<8 … && w_pos<nvalues` -/
def wEnable (c : SliceCfg) (s : Chunk) : Bool :=
  (!c.useZ || s.wPos < s.zPos + 8) && s.wPos < c.nvalues
/-- `balance>=0 && use_zero_run && z_pos<z_nvalues` -/
def zEnable (c : SliceCfg) (s : Chunk) : Bool :=
  c.useZ && s.zPos ≤ s.wPos && s.zPos < c.zNvalues

/-- the chunk loop of one slice (a `do … while` loop: the body runs once more after both
    streams are disabled, to read the last remainders) -/
def chunkLoop (c : SliceCfg) : Nat → Chunk → Rd Chunk
  | 0, _ => Rd.fail .fuel
  | f + 1, s => do
    let wEn := wEnable c s
    let zEn := zEnable c s
    let s' ← chunkStep c wEn zEn s
    if wEn || zEn then chunkLoop c f s' else pure s'

/-- index → 9-bit sign/magnitude value → signed weight -/
def weightOf (pal : Pal) (idx : Nat) : Except DecErr Int :=
  if idx ≥ 512 then .error .indexRange else
  if idx < pal.palsize then
    match pal.palette[idx]? with
    | none => .error .internal
    | some v => .ok (if v % 2 == 1 then -((v / 2 : Nat) : Int) else ((v / 2 : Nat) : Int))
  else
    let v := idx - pal.palsize + pal.directOffset
    .ok (if v % 2 == 1 then -((v / 2 : Nat) : Int) else ((v / 2 : Nat) : Int))

/-- interleave weights and zero runs into the (reversed) output -/
def emitLoop (pal : Pal) (useZ : Bool) : List Nat → List Nat → List Int → Except DecErr (List Int)
  | [], [], acc => .ok acc
  | w :: ws, zs, acc =>
    match weightOf pal w with
    | .error e => .error e
    | .ok v =>
      if useZ then
        match zs with
        | [] => .error .internal
        | z :: zs' => emitLoop pal useZ ws zs' (List.replicate z 0 ++ (v :: acc))
      else emitLoop pal useZ ws zs (v :: acc)
  | [], _ :: _, _ => .error .internal

def emitSlice (pal : Pal) (useZ newPal : Bool) (ws zs : List Nat) (acc : List Int) :
    Except DecErr (List Int) :=
  if useZ then
    if newPal then
      match zs with
      | [] => .error .internal
      | z0 :: zs' => emitLoop pal true ws zs' (List.replicate z0 0 ++ acc)
    else emitLoop pal true ws zs acc
  else emitLoop pal false ws [] acc

/-- `palsize` palette entries of `palbits` bits -/
def getPalette (palbits : Nat) : Nat → Rd (List Nat)
  | 0 => pure []
  | n + 1 => do
    let v ← get palbits
    let rest ← getPalette palbits n
    pure (v :: rest)

/-- smallest `k` with `palsize ≤ 2^k` (`while ((1<<bits) < palsize) bits++`), palsize ≤ 32 -/
def indexBits (palsize : Nat) : Nat :=
  if palsize ≤ 1 then 0 else if palsize ≤ 2 then 1 else if palsize ≤ 4 then 2
  else if palsize ≤ 8 then 3 else if palsize ≤ 16 then 4 else if palsize ≤ 32 then 5 else 6

/-- state of the slice loop -/
structure Outer where
  first : Bool := true
  zPrevDiv : Nat := 0
  pal : Pal := {}
  /-- decoded weights, reversed -/
  out : List Int := []
  /-- slice headers, reversed -/
  infos : List SliceInfo := []
  /-- number of end-of-stream markers seen -/
  eos : Nat := 0
  /-- bit position after the last slice -/
  sliceEnd : Nat := 0
deriving Repr

/-- the fixed header fields after `ZDIV`: SLICELEN (15 bits, length − 1), WDIV (3), WTRUNC (1), NEWPAL (1) -/
def readSliceHeader : Rd (Nat × Nat × Bool × Bool) := do
  let n ← get 15
  let wdiv ← get 3
  let t ← get 1
  let np ← get 1
  pure (n + 1, wdiv, t == 1, np == 1)

/-- DIROFS (5), PALSIZE (5, size − 1 or 0 for no palette), PALBITS (3, width − 2), palette entries -/
def readPalette : Rd Pal := do
  let dirofs ← get 5
  let ps ← get 5
  let palsize := if ps > 0 then ps + 1 else 0
  let palbits := (← get 3) + 2
  let palette ← getPalette palbits palsize
  pure { directOffset := dirofs, palsize := palsize, palbits := palbits, palette := palette }

/-- everything after `ZDIV` of one slice: rest of the header, chunks, emission -/
def sliceBody (zdiv : Nat) (o : Outer) : Rd Outer := do
  if !(zdiv < 4 || zdiv == zdivDisable) then Rd.fail .badZdiv else
  let useZ := zdiv != zdivDisable
  let (nvalues, wdiv, trunc, newPal) ← readSliceHeader
  if o.first && !newPal then Rd.fail .noPalette else
  if !newPal && useZ != (o.zPrevDiv != zdivDisable) then Rd.fail .zrunSwitch else
  let pal ← (if newPal then readPalette else pure o.pal : Rd Pal)
  if wdiv != wdivUncompressed && !(wdiv < 6) then Rd.fail .badWdiv else
  let uncompressed := wdiv == wdivUncompressed
  let wDiv := if uncompressed then (if pal.palsize > 0 then indexBits pal.palsize else pal.palbits) else wdiv
  let c : SliceCfg := { useZ := useZ, uncompressed := uncompressed, trunc := trunc, wDiv := wDiv, zDiv := zdiv,
                        nvalues := nvalues, zNvalues := nvalues + (if newPal then 1 else 0) }
  let fuel := (← remaining) + nvalues + 13
  let s ← chunkLoop c fuel {}
  let ws := s.wVals.reverse
  let zs := s.zVals.reverse
  let out ← Rd.lift (emitSlice pal useZ newPal ws zs o.out)
  let info : SliceInfo := { zdiv := zdiv, nvalues := nvalues, wdiv := wdiv, trunc := trunc, newPal := newPal,
                            palsize := pal.palsize, palbits := pal.palbits, directOffset := pal.directOffset,
                            nchunks := s.nchunks, zeros := out.length - o.out.length - nvalues,
                            direct := (ws.filter (· ≥ pal.palsize)).length }
  pure { o with first := false, zPrevDiv := zdiv, pal := pal, out := out, infos := info :: o.infos }

/-- the slice loop `do { … } while(*outbuf)` with the end-of-stream `while` folded in -/
def sliceLoop : Nat → Outer → Rd Outer
  | 0, _ => Rd.fail .fuel
  | f + 1, o => do
    let zdiv ← get 3
    if zdiv == zdivEos then
      -- end of stream: byte align; a further stream may follow and must start with a palette
      let pos ← bitPos
      let _ ← get ((8 - pos % 8) % 8)
      let o := { o with first := true, eos := o.eos + 1 }
      let e ← atEnd
      if e then pure o else sliceLoop f o
    else
      let e ← atEnd
      if e then pure o else
        let o ← sliceBody zdiv o
        let pos ← bitPos
        sliceLoop f { o with sliceEnd := pos }

structure Decoded where
  weights : List Int
  slices : List SliceInfo
  eos : Nat
  /-- bit position after the last slice (where the end-of-stream marker starts) -/
  sliceEnd : Nat
  bitsRead : Nat
deriving Repr

/-- `mlw_decode(inbuf, inbuf_size, …)` on a bit list -/
def decodeBits (bits : List Bool) : Except DecErr Decoded :=
  match sliceLoop (bits.length + 1) {} ⟨bits, 0⟩ with
  | .error e => .error e
  | .ok (o, b) => .ok { weights := o.out.reverse, slices := o.infos.reverse, eos := o.eos,
                         sliceEnd := o.sliceEnd, bitsRead := b.pos }

/-- `mlw_decode(inbuf, inbuf_size, …)` -/
def decode (bytes : List Nat) : Except DecErr Decoded := decodeBits (bytesToBits bytes)

end VelaVerif.Mlw
