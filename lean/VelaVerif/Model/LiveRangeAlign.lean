/-!
# Model of `LiveRange.set_alignment` / `LiveRangeGraph.get_or_create_range` (alignment part)

A live range is created with the alignment of the first request; every later request for the same
(equivalent) tensor goes through `set_alignment`, which keeps the maximum.
-/
namespace VelaVerif.LiveRangeAlign

/-- `LiveRange.set_alignment` -/
def setAlignment (cur req : Nat) : Nat := max cur req

/-- alignment of the range after the requests `first :: rest` (first one creates the range) -/
def finalAlignment (first : Nat) (rest : List Nat) : Nat := rest.foldl setAlignment first

/-- Spec: the final alignment honours a request iff it is a multiple of it -/
def honoursAll (final : Nat) (reqs : List Nat) : Bool := reqs.all fun r => r > 0 && final % r == 0

end VelaVerif.LiveRangeAlign
