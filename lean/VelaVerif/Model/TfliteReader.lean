import VelaVerif.Gen.WriterTbl
import VelaVerif.Model.OpIndices
import VelaVerif.Model.TfliteTree
import VelaVerif.Model.TfliteWriter
/-!
# Model of the TFLite reader (ethosu/vela/tflite_reader.py, `TFLiteGraph` / `TFLiteSubgraph`; reader_util.py)

`read version t` is the graph the reader builds from the file `t`, as a `Desc` (the writer's input type), so that
`Writer.write (read t)` is the file → graph → file loop of a compilation that changes nothing.

Transcribed: `parse_buffer` (zero-length data = no data), `parse_operator_code` (builtin code, falling back to the
deprecated code when 0; unknown code = InputFileError; custom code only for CUSTOM), `parse_tensor` (shape, name, element
type, quantisation fields with `len1_array_to_scalar`, the representable range `quant_min` / `quant_max` per element type, no
quantisation when neither scale nor zero point is present, zero point 0 for a scale without zero points, constant data with
the size check of `view(...).reshape(shape)`), `parse_operator` (Python list indexing incl. negative indices, −1 = absent,
alignment of the operands to the graph-side order, producers, virtual outputs for AssignVariable / CallOnce, reshaped clones
of constant convolution / fully-connected weights and biases with `src_tensor`, the `None` appended for a missing bias,
custom code), subgraph inputs / outputs (de-duplicated, file order and positions remembered), `fixup_tensors` (Placeholder /
Const producers), metadata (names stay `bytes`).

Tensor positions: the tensors of subgraph 0 in file order, then the tensors created while its operators are parsed
(virtual outputs, clones) in creation order, then subgraph 1 … .

Outside the model, stated: the option table of an operator is carried as an opaque payload (`deserialize` / `serialize` of
tflite_mapping are generated code); the operators of a subgraph are listed as the harness lists them when it stands in for
pass packing (one Const / Placeholder operator per tensor without producer in tensor order, then the file's operators that
still produce a tensor, in file order); `input_tensors` (set by graph traversal, not by the reader) is left empty; the data
of a reshaped clone is only known by its length.

Python exceptions: `index`, `key`, `assert`, `attr`, `value` (ValueError of NumPy), `exit` (the reader's own
`sys.exit(1)` on TypeError / struct.error), `vela-error` (InputFileError / `Tensor.error`).
-/
namespace VelaVerif.Tflite.Reader
open VelaVerif.OpIndices (Indices alignInputs)
open VelaVerif.Gen
open VelaVerif.Tflite.Writer (OpInfo lookupOp utf8)

/-- Python `l[i]` -/
def pyIndex (l : List α) (i : Int) : Option α :=
  if 0 ≤ i then l[i.toNat]?
  else if (-i).toNat ≤ l.length then l[l.length - (-i).toNat]?
  else none

/-! ## buffers, operator codes -/

def parseBuffer (b : BufferT) : Option Data :=
  match b.data with
  | some d => if d.len == 0 then none else some d
  | none => none

structure RCode where
  op : OpInfo
  hasSer : Bool
  custom : Option Bytes
  indices : Indices
  version : Int
deriving Repr, Inhabited

/-- `c = code.BuiltinCode(); if c == 0: c = code.DeprecatedBuiltinCode()` -/
def effectiveBuiltin (c : OpCodeT) : Int := if c.builtin == 0 then c.deprecated else c.builtin

/-- `builtin_operator_map[c]`; an unknown code is an InputFileError -/
def readerRow (b : Int) : Except String (Nat × String × Bool × WriterTbl.Tri) :=
  match WriterTbl.readerOps.find? (fun r => (r.1 : Int) == b) with
  | some r => pure r
  | none => throw "vela-error"

def parseOpCode (c : OpCodeT) : Except String RCode := do
  let row ← readerRow (effectiveBuiltin c)
  let info ← Writer.lookupOpE row.2.1
  pure { op := info, hasSer := row.2.2.1,
         custom := if effectiveBuiltin c == (WriterTbl.builtinCustom : Int) then some (c.custom.getD []) else none,
         indices := .ofTri row.2.2.2, version := c.version }

/-! ## tensors -/

/-- the representable range the reader attaches to a tensor of this element type (`quant_min`, `quant_max`) -/
def rangeOf (dtype : String) (bits : Nat) : Option (Int × Int) :=
  if dtype == "uint8" then some (0, (2 : Int) ^ bits - 1)
  else if dtype == "int8" || dtype == "int16" || dtype == "int32" || dtype == "int64" then
    some (-((2 : Int) ^ (bits - 1)), (2 : Int) ^ (bits - 1) - 1)
  else none

def prodNat (shape : List Int) : Int := shape.foldl (· * ·) 1

def dtypeRow (ty : Nat) : Except String (Nat × String × Nat × String × Nat) :=
  match WriterTbl.dtypeMap.find? (·.1 == ty) with
  | some r => pure r
  | none => throw "key"

/-- the quantisation the reader keeps: none unless a scale or a zero point is present; zero point 0 for a scale without
    zero points -/
def readQuant (q : Option QuantT) : Option QuantD :=
  match q with
  | none => none
  | some q =>
    match q.scale, q.zeroPoint with
    | none, none => none
    | some sc, none => some { min := q.min, max := q.max, scale := some sc, zeroPoint := some (List.replicate sc.length 0),
                              quantDim := some q.quantDim }
    | sc, some zp => some { min := q.min, max := q.max, scale := sc, zeroPoint := some zp, quantDim := some q.quantDim }

def bufferOf (bufs : List (Option Data)) (i : Nat) : Except String (Option Data) :=
  match bufs[i]? with
  | some b => pure b
  | none => throw "index"

/-- `buf.view(np_dtype).reshape(shape)`: the data must have exactly the size of the tensor (not checked for strings);
    `unmodelled`: a negative dimension next to data (NumPy would infer it) -/
def checkData (dtype : String) (size : Nat) (shape : List Int) (buf : Option Data) : Except String Unit :=
  match buf with
  | none => pure ()
  | some d =>
    if dtype == "string" then pure ()
    else if size == 0 then throw "key"
    else if shape.any (· < 0) then throw "unmodelled"
    else if (d.len : Int) ≠ prodNat shape * size then throw "value"
    else pure ()

def parseTensor (bufs : List (Option Data)) (t : TensorT) : Except String TensorD := do
  let row ← dtypeRow t.type
  let buf ← bufferOf bufs t.buffer
  checkData row.2.1 row.2.2.2.2 (t.shape.getD []) buf
  pure { name := t.name.getD [], shape := t.shape.getD [], originalShape := t.shape.getD [], dtype := row.2.1,
         quant := readQuant t.quant, values := buf, isVariable := t.isVariable, purpose := 0, memArea := 0, memType := 0,
         address := none, src := none,
         range := if (readQuant t.quant).isSome then rangeOf row.2.1 row.2.2.1 else none }

/-! ## operators -/

/-- an operator as `parse_operator` leaves it -/
structure ROp where
  code : RCode
  inputs : List (Option Nat)
  fileOutputs : List Nat        -- `op_data.Outputs` resolved: these tensors get `ops = [op]`
  outputs : List (Option Nat)   -- `op.outputs` (the virtual output for AssignVariable / CallOnce)
  intermediates : List (Option Nat)
  payload : Payload
deriving Repr, Inhabited

def resolve (base n : Nat) (idx : Int) : Except String (Option Nat) :=
  if idx == -1 then pure none
  else match pyIndex (List.range n) idx with
    | some k => pure (some (base + k))
    | none => throw "index"

def permute (shape : List Int) (reorder : List Nat) : Except String (List Int) :=
  reorder.mapM fun i => match shape[i]? with
    | some d => pure d
    | none => throw "index"

/-- `clone_and_reshape_tensor(src, reorder, _)`: the clone (named `<name>_reshape`, `src_tensor = src`) -/
def cloneReshape (ts : List TensorD) (src : Nat) (reorder : Option (List Nat)) : Except String TensorD := do
  let t ← match ts[src]? with
    | some t => pure t
    | none => throw "ref"
  let vals := t.values.map fun d => Data.digest d.len "clone"
  match reorder with
  | none =>
    pure { t with name := t.name ++ utf8 "_reshape", shape := [prodNat t.shape], values := vals, src := some src }
  | some r =>
    let sh ← permute t.shape r
    let osh ← permute t.originalShape r
    if t.values.isSome && t.shape.length ≠ r.length then throw "value"
    pure { t with name := t.name ++ utf8 "_reshape", shape := sh, originalShape := osh, values := vals, src := some src }

def setAt (l : List α) (k : Nat) (a : α) : List α := l.set k a

def codeAt (codes : List RCode) (i : Nat) : Except String RCode :=
  match codes[i]? with
  | some c => pure c
  | none => throw "index"

/-- `[self.tensors[idx] if idx != -1 else None for idx in …AsNumpy()]`; an absent vector makes the reader exit -/
def resolveAll (base n : Nat) (l : Option (List Int)) : Except String (List (Option Nat)) :=
  match l with
  | some l => l.mapM (resolve base n)
  | none => throw "exit"

def resolveIntermediates (base n : Nat) (l : Option (List Int)) : Except String (List (Option Nat)) :=
  match l with
  | some l => l.mapM (resolve base n)
  | none => pure []

/-- `name = outputs[0].name`, `for out in op.outputs: out.ops = [op]`: a `None` among the results is an AttributeError -/
def fileOutputs (outs : List (Option Nat)) : Except String (List Nat) :=
  outs.mapM fun t => match t with
    | some t => pure t
    | none => throw "attr"

def virtualTensor (name : String) (k : Nat) : TensorD :=
  { name := utf8 (name ++ "_" ++ toString k), shape := [], originalShape := [], dtype := "int8", quant := none, values := none,
    isVariable := false, purpose := 7, memArea := 0, memType := 0, address := none, src := none }

/-- AssignVariable / CallOnce get a virtual output: (tensors, `op.outputs`, the virtual tensor) -/
def virtualStep (code : RCode) (k : Nat) (ts : List TensorD) (outs : List (Option Nat)) : List TensorD × List (Option Nat) × Option Nat :=
  if code.op.name == "AssignVariable" || code.op.name == "CallOnce" then
    (ts ++ [virtualTensor code.op.name k], [some ts.length], some ts.length)
  else (ts, outs, none)

/-- `if op.type.needs_bias() and len(inputs) <= op_type.info.indices.biases[0]: inputs.append(None)` -/
def biasSlot (op : OpInfo) (ins : List (Option Nat)) : List (Option Nat) :=
  if op.needsBias then
    match op.nng.biases[0]? with
    | some b0 => if ins.length ≤ b0 then ins ++ [none] else ins
    | none => ins
  else ins

/-- `if inputs[-1] and inputs[-1].values is not None: inputs[-1] = clone_and_reshape_tensor(inputs[-1], None, True)` -/
def biasClone (ts : List TensorD) (ins : List (Option Nat)) : Except String (List TensorD × List (Option Nat)) :=
  match ins.getLast? with
  | some (some b) =>
    match ts[b]? with
    | none => throw "ref"
    | some tb =>
      if tb.values.isSome then do
        let cb ← cloneReshape ts b none
        pure (ts ++ [cb], setAt ins (ins.length - 1) (some ts.length))
      else pure (ts, ins)
  | _ => pure (ts, ins)

/-- reshaped clones of constant weights and bias of convolution-like operators -/
def cloneStep (op : OpInfo) (ts : List TensorD) (ins : List (Option Nat)) : Except String (List TensorD × List (Option Nat)) :=
  if op.convLike then
    match ins[1]? with
    | none => throw "index"
    | some none => throw "attr"
    | some (some w) =>
      match ts[w]? with
      | none => throw "ref"
      | some tw =>
        if tw.values.isSome then do
          let c ← cloneReshape ts w (some (if op.name == "FullyConnected" then [1, 0] else [1, 2, 3, 0]))
          biasClone (ts ++ [c]) (biasSlot op (setAt ins 1 (some ts.length)))
        else pure (ts, ins)
  else pure (ts, ins)

def noPayload : Payload := { optType := 0, opts := none, custom := none, customFormat := 0 }

def parseOperator (codes : List RCode) (base n : Nat) (ts : List TensorD) (k : Nat) (o : OperatorT) :
    Except String (ROp × List TensorD × Option Nat) := do
  let code ← codeAt codes o.opcodeIndex
  let ins ← resolveAll base n o.inputs
  let outs ← resolveAll base n o.outputs
  let inter ← resolveIntermediates base n o.intermediates
  let fileOuts ← fileOutputs outs
  let ins1 ← alignInputs code.indices code.op.nng ins
  let c ← cloneStep code.op (virtualStep code k ts outs).1 ins1
  pure ({ code := code, inputs := c.2, fileOutputs := fileOuts, outputs := (virtualStep code k ts outs).2.1, intermediates := inter,
          payload := if code.hasSer then o.payload else noPayload }, c.1, (virtualStep code k ts outs).2.2)

def parseOperators (codes : List RCode) (base n : Nat) : List OperatorT → Nat → List TensorD →
    Except String (List ROp × List TensorD × List Nat)
  | [], _, ts => pure ([], ts, [])
  | o :: rest, k, ts => do
    let r ← parseOperator codes base n ts k o
    let rs ← parseOperators codes base n rest (k + 1) r.2.1
    pure (r.1 :: rs.1, rs.2.1, (match r.2.2 with | some v => [v] | none => []) ++ rs.2.2)

/-- `get_tensors_from_indices_remove_duplicates` -/
def dedupNat (l : List Nat) : List Nat := Writer.dedup l

/-- is operator `k` still the producer (`tens.ops == [op]`) of one of the tensors it wrote? -/
def visible (ops : List ROp) (k : Nat) (op : ROp) : Bool :=
  op.fileOutputs.any fun t => !((ops.drop (k + 1)).any fun later => later.fileOutputs.contains t)

def produced (ops : List ROp) (t : Nat) : Bool := ops.any fun op => op.fileOutputs.contains t

def startupOp (type : String) (t : Nat) : OpD :=
  { type := type, customCode := [], version := 1, inputs := [], outputs := [some t], intermediates := [],
    payload := { optType := 0, opts := none, custom := none, customFormat := 0 } }

def ROp.toOpD (op : ROp) : OpD :=
  { type := op.code.op.name, customCode := op.code.custom.getD [], version := op.code.version, inputs := op.inputs,
    outputs := op.outputs, intermediates := op.intermediates, payload := op.payload }

/-- `[self.tensors[idx] for idx in subgraph.InputsAsNumpy()]` (Python indexing; an absent vector makes the reader exit) -/
def ioIndices (base n : Nat) (l : Option (List Int)) : Except String (List Nat) :=
  match l with
  | some l => l.mapM fun i => match pyIndex (List.range n) i with
    | some k => pure (base + k)
    | none => throw "index"
  | none => throw "exit"

/-- `[self.outputs.index(self.tensors[idx]) for idx in subgraph.OutputsAsNumpy()]` -/
def positionsOf (outputs outIdx : List Nat) : Except String (List Nat) :=
  outIdx.mapM fun t => match Writer.indexIn outputs t with
    | some p => pure p
    | none => throw "value"

/-- `fixup_tensors` / `clone_and_reshape_tensor`: the Placeholder / Const producers, one per tensor without producer, in tensor
    order (`base ≤ t < base + n`: tensors of the file; beyond: created while parsing the operators) -/
def startupOps (ts : List TensorD) (base n : Nat) (ops : List ROp) (inputs : List Nat) : List OpD :=
  (List.range (ts.length - base)).filterMap fun j =>
    match ts[base + j]? with
    | none => none
    | some td =>
      if j < n then
        if produced ops (base + j) then none
        else if inputs.contains (base + j) then some (startupOp (if td.values.isNone then "Placeholder" else "Const") (base + j))
        else some (startupOp (if td.isVariable then "Placeholder" else "Const") (base + j))
      else if td.src.isSome then some (startupOp "Const" (base + j))
      else none

/-- the file's operators that still produce a tensor (or own a virtual output), in file order -/
def realOps (ops : List ROp) (virts : List Nat) : List OpD :=
  (ops.zipIdx.filter fun x => visible ops x.2 x.1 || virts.any (fun v => x.1.outputs.contains (some v))).map fun x => x.1.toOpD

def readSubgraph (codes : List RCode) (bufs : List (Option Data)) (ts : List TensorD) (sg : SubGraphT) :
    Except String (SubgraphD × List TensorD) := do
  let own ← sg.tensors.mapM (parseTensor bufs)
  let r ← parseOperators codes ts.length sg.tensors.length sg.operators 0 (ts ++ own)
  let outIdx ← ioIndices ts.length sg.tensors.length sg.outputs
  let inIdx ← ioIndices ts.length sg.tensors.length sg.inputs
  -- fixup_tensors: a subgraph input must not have a producer
  Writer.check (!(dedupNat inIdx).any (produced r.1)) "vela-error"
  let positions ← positionsOf (dedupNat outIdx) outIdx
  pure ({ name := sg.name.getD [], cpu := true,
          ops := startupOps r.2.1 ts.length sg.tensors.length r.1 (dedupNat inIdx) ++ realOps r.1 r.2.2,
          originalInputs := inIdx, inputTensors := [], outputTensors := dedupNat outIdx ++ r.2.2,
          originalOutputPositions := some positions,
          virtualOutputs := r.2.2.map fun v => (v, Writer.firstIdx (fun (o : OpD) => o.outputs.contains (some v))
            (startupOps r.2.1 ts.length sg.tensors.length r.1 (dedupNat inIdx) ++ realOps r.1 r.2.2)) }, r.2.1)

def readSubgraphs (codes : List RCode) (bufs : List (Option Data)) : List SubGraphT → List TensorD →
    Except String (List SubgraphD × List TensorD)
  | [], ts => pure ([], ts)
  | sg :: rest, ts => do
    let r ← readSubgraph codes bufs ts sg
    let rs ← readSubgraphs codes bufs rest r.2
    pure (r.1 :: rs.1, rs.2)

def readMetadata (bufs : List (Option Data)) (ms : List MetadataT) : Except String (List MetaD) := do
  let r ← ms.mapM fun m => match m.name with
    | none => pure none
    | some nm => match bufs[m.buffer]? with
      | some b => pure (some { nameIsBytes := true, name := nm, data := b : MetaD })
      | none => throw "index"
  pure (r.filterMap id)

def read (version : Bytes) (t : ModelT) : Except String Desc := do
  let bufs := t.buffers.map parseBuffer
  let codes ← t.opcodes.mapM parseOpCode
  let r ← readSubgraphs codes bufs t.subgraphs []
  let metas ← readMetadata bufs t.metadata
  pure { tensors := r.2, subgraphs := r.1, metadata := metas, version := version }

end VelaVerif.Tflite.Reader
