/-!
# Process state that survives a compilation (C14)

Anchors: `vela.py` (`main`, `convert`, `convert_bytes`), `weight_compressor.py` (`CompressedWeightCache`),
`tensor.py` (`TensorAddressMap`, `create_equivalence_id`, `uuid4` identities), `debug_database.py`,
`architecture_features.py` (`default_arch_cache`), `range_set.py` (`lru_cache` on `MemoryAccessSet.conflicts`),
`tflite_writer.py` (the two places that sort before emitting).

## Identities

Python identities are `uuid.uuid4()` values (`Tensor.equivalence_id`, `Tensor.value_id`) and object
identities (`id(obj)`, the default `__hash__`). Both are modelled as *names*, never as numbers a program can
inspect: a compilation only ever compares them for equality (dictionary keys). A key is a list of atoms

* `lit n`   plain data (block type, block depth, `hash(str(depth_offsets))`, dilation, accelerator enum, memory type);
* `loc i`   the `i`-th identity created *by this compilation* with `uuid4()` / by allocating an object —
            `uuid4` as a fresh-name supply: the name drawn in compilation number `g` is `(g, i)`, which no other
            compilation can draw (collision of two `uuid4()` values is outside the model);
* `memo v`  the identity returned by `create_equivalence_id(values)`: an `lru_cache` that is never cleared, so
            the same `values` give the same identity for the life time of the process.

A key that contains a `loc` atom is *local*; it is stored together with the number of the compilation that made
it. A key without one is *global*: later compilations can build the very same key.

## Stores

* memo tables (`Store`): look up, on a miss compute and insert — `CompressedWeightCache.cache`
  (key = the fields of `WeightCompressionConfig`), `default_arch_cache` (key = accelerator),
  the `lru_cache` of `MemoryAccessSet.conflicts` (key = two object identities, kept alive by the cache);
* the tensor address map: `set_address_for_tens` asserts that a tensor identity is never given two addresses;
* the debug database: append-only tables that `DebugDatabase.write` dumps into the `_debug.xml` output;
* the domain of the equivalence-id memo (book-keeping only: its values are the `memo` names).

What is reset when: `prepare` is what happens before a compilation touches any store — `compiler_driver` empties the
compressed-weight cache (97e1538) and the tensor address map, `process` (the `main` path) cleans the debug database —
and `cleanup` is what `convert` / `convert_bytes` additionally do after a *successful* compilation (an escaping exception
skips it, which no longer matters: nothing they clean is read before `prepare` has cleaned it, except the debug database
which only `main` ever dumps).
-/
namespace VelaVerif.Caches

inductive Atom where
  | lit (n : Nat)
  | loc (i : Nat)
  | memo (v : Nat)
deriving DecidableEq, Repr

abbrev PKey := List Atom

def Atom.isLoc : Atom → Bool
  | .loc _ => true
  | _ => false

def isLocal (k : PKey) : Bool := k.any Atom.isLoc

def memoAtoms (k : PKey) : List Nat :=
  k.filterMap fun | .memo v => some v | _ => none

inductive Store where
  /-- `weight_compressor.CompressedWeightCache.cache` (emptied at the start of every `compiler_driver`) -/
  | weights
  /-- `architecture_features.default_arch_cache` -/
  | arch
  /-- `functools.lru_cache` on `range_set.MemoryAccessSet.conflicts` -/
  | conflict
deriving DecidableEq, Repr

/-- does the content of the store outlive a compilation? -/
def Store.persists : Store → Bool
  | .weights => false
  | _ => true

abbrev Val := Nat

/-- A key as it sits in a process-wide table: local keys carry the number of the compilation that drew their identities. -/
structure TKey where
  scope : Option Nat
  key : PKey
deriving DecidableEq, Repr

def tkey (gen : Nat) (k : PKey) : TKey := ⟨if isLocal k then some gen else none, k⟩

def lookup {κ ν : Type} [DecidableEq κ] (k : κ) : List (κ × ν) → Option ν
  | [] => none
  | (k', v) :: t => if k = k' then some v else lookup k t

structure State where
  /-- number of compilations started so far in this process -/
  gen : Nat
  memo : List ((Store × TKey) × Val)
  /-- `TensorAddressMap.address_map` (identity × memory type ↦ address) -/
  addr : List (TKey × Nat)
  /-- rows of the `DebugDatabase` tables -/
  db : List Nat
  /-- domain of the `create_equivalence_id` memo -/
  eqMemo : List Nat
deriving Repr

def init : State := ⟨0, [], [], [], []⟩

/-- What a compilation does to the process state, as a tree: the continuation of a look-up receives what the
look-up returned, so "the output is a function of the request and of the cache look-ups" holds by construction. -/
inductive Prog (α : Type) where
  | ret (a : α)
  /-- look `k` up in store `s`; on a miss insert `v`, the value this compilation computes for it -/
  | memo (s : Store) (k : PKey) (v : Val) (cont : Val → Prog α)
  /-- `tens.address = a` (`TensorAddressMap.set_address_for_tens`) -/
  | assign (k : PKey) (a : Nat) (next : Prog α)
  /-- `tens.address` -/
  | addrOf (k : PKey) (cont : Option Nat → Prog α)
  /-- `DebugDatabase.add_source / add_optimised / add_command` -/
  | log (row : Nat) (next : Prog α)
  /-- `DebugDatabase.write` -/
  | dump (cont : List Nat → Prog α)

def noteMemo (st : State) (k : PKey) : State :=
  { st with eqMemo := (memoAtoms k).filter (fun v => !st.eqMemo.contains v) ++ st.eqMemo }

def insMemo (st : State) (s : Store) (tk : TKey) (v : Val) : State := { st with memo := ((s, tk), v) :: st.memo }

def insAddr (st : State) (tk : TKey) (a : Nat) : State := { st with addr := (tk, a) :: st.addr }

def logRow (st : State) (row : Nat) : State := { st with db := st.db ++ [row] }

/-- Run a compilation against the process state. `none` = the assertion
"Two different addresses cannot be assigned to the same tensor." escaped. -/
def run {α : Type} : Prog α → State → Option α × State
  | .ret a, st => (some a, st)
  | .memo s k v cont, st =>
    match lookup (s, tkey st.gen k) st.memo with
    | some v' => run (cont v') (noteMemo st k)
    | none => run (cont v) (insMemo (noteMemo st k) s (tkey st.gen k) v)
  | .assign k a next, st =>
    match lookup (tkey st.gen k) st.addr with
    | some a' => if a' = a then run next (noteMemo st k) else (none, st)
    | none => run next (insAddr (noteMemo st k) (tkey st.gen k) a)
  | .addrOf k cont, st => run (cont (lookup (tkey st.gen k) st.addr)) st
  | .log row next, st => run next (logRow st row)
  | .dump cont, st => run (cont st.db) st

inductive Entry where
  | main
  | convert
  | convertBytes
deriving DecidableEq, Repr

/-- What is cleared before a compilation reads or writes any store: `compiler_driver` starts with
`CompressedWeightCache.cache.clear()` and `TensorAddressMap.clear_address_map()` (all entry points go through it),
`process` — the `main` path — with `DebugDatabase.clean_db()`. Nothing clears the equivalence-id memo,
`default_arch_cache` or the conflict memo. -/
def prepare : Entry → State → State
  | .main, st => { st with memo := st.memo.filter (fun e => e.1.1.persists), addr := [], db := [] }
  | _, st => { st with memo := st.memo.filter (fun e => e.1.1.persists), addr := [] }

/-- What the entry point additionally clears after a successful compilation (`vela.py`): `main` nothing, `convert`
`DebugDatabase.clean_db()`, `convert_bytes` `DebugDatabase.clean_db()` and `TensorAddressMap.clear_address_map()`. -/
def cleanup : Entry → State → State
  | .main, st => st
  | .convert, st => { st with db := [] }
  | .convertBytes, st => { st with db := [], addr := [] }

/-- the same as tables of names, to be compared with what the translator finds in `vela.py` / `compiler_driver.py`:
reset calls of the entry point before it hands over to the compiler, at the top of `compiler_driver`, and after it -/
def prepareNames : Entry → List String
  | .main => ["DebugDatabase.clean_db"]
  | _ => []

def driverPrepareNames : List String := ["CompressedWeightCache.cache.clear", "TensorAddressMap.clear_address_map"]

def cleanupNames : Entry → List String
  | .main => []
  | .convert => ["DebugDatabase.clean_db"]
  | .convertBytes => ["DebugDatabase.clean_db", "TensorAddressMap.clear_address_map"]

def compile {ρ ω : Type} (prog : ρ → Prog ω) (e : Entry) (st : State) (rq : ρ) : Option ω × State :=
  match run (prog rq) (prepare e st) with
  | (some o, st') => (some o, { cleanup e st' with gen := st'.gen + 1 })
  | (none, st') => (none, { st' with gen := st'.gen + 1 })

/-- the state after a history of compilations -/
def after {ρ ω : Type} (prog : ρ → Prog ω) (h : List (Entry × ρ)) (st : State) : State :=
  h.foldl (fun st er => (compile prog er.1 st er.2).2) st

/-- The process-wide stores this model knows about, by the names the translator reports
(`harness/tables/caches.py` scans `ethosu/vela/*.py` for module-level and class-level containers that are
mutated at run time and for `lru_cache`). -/
def modelledStores : List String :=
  [ "weight_compressor.CompressedWeightCache.cache"
  , "tensor.TensorAddressMap.address_map"
  , "tensor.create_equivalence_id"
  , "debug_database.DebugDatabase._sourceUID"
  , "debug_database.DebugDatabase._sourceTable"
  , "debug_database.DebugDatabase._optimisedUID"
  , "debug_database.DebugDatabase._optimisedTable"
  , "debug_database.DebugDatabase._queueTable"
  , "debug_database.DebugDatabase._streamUID"
  , "debug_database.DebugDatabase._streamTable"
  , "architecture_features.default_arch_cache"
  , "range_set.MemoryAccessSet.conflicts" ]

/-- the fields of `WeightCompressionConfig`, in order: `[lit npu_block_type, lit ofm_block_depth,
lit hash(str(depth_offsets)), lit dilation, <weight_value_id>, lit ifm_bitdepth]` is the key of `Store.weights`
(`ifm_bitdepth` since 8757943; `flipped` — the operator is a transposed convolution, whose kernel is reversed in H and W
before it is encoded — since repair C01-25) -/
def weightKeyFields : List String :=
  ["npu_block_type", "ofm_block_depth", "ofm_depth_step", "dilation", "weight_value_id", "ifm_bitdepth", "flipped"]

/-! ## The hypothesis under which a compilation cannot see the history: `cache_key_sufficient`

Spelled out per store, for a value function `F` that is the same for every request:

* the compressed-weight cache: **no hypothesis** — it is emptied before every compilation, so whatever its key
  leaves out (accelerator, weight shape, operator type) can only matter inside one compilation;
* the stores that persist (`arch`, `conflict`): a key is either *local* — it contains an identity drawn by this
  compilation, so no earlier compilation can have inserted it — or the value inserted under it is `F store key`,
  a function of the key alone. For `default_arch_cache`: the value is built from the accelerator and constants only;
  for the conflict memo: both key components are objects of this compilation;
* the tensor address map: **no hypothesis** — emptied before every compilation; memoised identities (LUT tables, PAD
  borders, MEAN kernels, zero biases) may receive addresses;
* the debug database: `strict = false` allows dumping it (`--enable-debug-db`), which the theorem admits for `main`, the
  only entry point that both cleans it first and ever writes it; `strict = true` = never dumped. -/
inductive Suff {α : Type} (F : Store → PKey → Val) (strict : Bool) : Prog α → Prop where
  | ret (a : α) : Suff F strict (.ret a)
  | memo (s : Store) (k : PKey) (v : Val) (cont : Val → Prog α) :
      (s.persists = true → isLocal k = false → v = F s k) → (∀ v', Suff F strict (cont v')) → Suff F strict (.memo s k v cont)
  | assign (k : PKey) (a : Nat) (next : Prog α) : Suff F strict next → Suff F strict (.assign k a next)
  | addrOf (k : PKey) (cont : Option Nat → Prog α) : (∀ r, Suff F strict (cont r)) → Suff F strict (.addrOf k cont)
  | log (row : Nat) (next : Prog α) : Suff F strict next → Suff F strict (.log row next)
  | dump (cont : List Nat → Prog α) : strict = false → (∀ rows, Suff F strict (cont rows)) → Suff F strict (.dump cont)

/-- What every history maintains (proved in `Lemmas/Caches.lean`): every local entry was made by a compilation numbered
below `n`, every global entry of a persisting memo table holds the value `F` prescribes. -/
structure Inv (F : Store → PKey → Val) (n : Nat) (st : State) : Prop where
  memoScope : ∀ e ∈ st.memo, ∀ g, e.1.2.scope = some g → g < n
  memoGlobal : ∀ e ∈ st.memo, e.1.2.scope = none → e.1.1.persists = true → e.2 = F e.1.1 e.1.2.key
  addrScope : ∀ e ∈ st.addr, ∀ g, e.1.scope = some g → g < n


/-! ## Renumbering the literals of every key (the statement of `key_literals_only_compared`) -/

def Atom.mapLit (f : Nat → Nat) : Atom → Atom
  | .lit n => .lit (f n)
  | a => a

def mapKey (f : Nat → Nat) (k : PKey) : PKey := k.map (Atom.mapLit f)

def Prog.mapLit {α : Type} (f : Nat → Nat) : Prog α → Prog α
  | .ret a => .ret a
  | .memo s k v cont => .memo s (mapKey f k) v (fun v' => (cont v').mapLit f)
  | .assign k a next => .assign (mapKey f k) a (next.mapLit f)
  | .addrOf k cont => .addrOf (mapKey f k) (fun r => (cont r).mapLit f)
  | .log row next => .log row (next.mapLit f)
  | .dump cont => .dump (fun rows => (cont rows).mapLit f)

/-! ## The writer: sort, then emit

`tflite_writer.py` builds a collection and sorts it before emitting, twice:
`sorted(set((op.type, custom_code, version) …))` for the operator codes — a `set`, whose iteration order is an
arbitrary permutation (hash seed, `id()`), sorted with the element itself as key — and
`sorted((tens.name, idx, tens) for idx, tens in enumerate(tensor_set))` for the tensors of a subgraph — the key is
the name, ties are broken by the position `idx` in the iteration order of `tensor_set`. Since PENDING-4 `tensor_set`
is an insertion-ordered `dict` filled in graph order, so that order is a function of the model; before, it was a
`set` of `id()`-hashed tensors. `emitOrder key l` is the emitted order when the collection is iterated in the order
`l` (a stable insertion sort = sorting by `(key, position)`). -/

def insertBy {α : Type} (key : α → Nat) (a : α) : List α → List α
  | [] => [a]
  | b :: t => if key a ≤ key b then a :: b :: t else b :: insertBy key a t

def emitOrder {α : Type} (key : α → Nat) : List α → List α
  | [] => []
  | a :: t => insertBy key a (emitOrder key t)

end VelaVerif.Caches
