import VelaVerif.Gen.WriterTbl
import VelaVerif.Model.OpIndices
import VelaVerif.Model.TfliteTree
/-!
# Model of the TFLite writer (ethosu/vela/tflite_writer.py, `TFLiteSerialiser`)

`write d` is the table tree of the file `write_tflite(nng, …)` produces for the graph described by `d`.
Transcribed, in the order of the Python code:

* `__init__`: the subgraphs to write (placement Cpu); for every operator of their passes that is not `Const` /
  `Placeholder` / `SubgraphInput` the operand list is aligned from the graph-side order to the TFLite order
  (`align_inputs_indices`, Model/OpIndices.lean); for convolution-like operators with constant weights every operand
  other than the IFM that has a `src_tensor` is replaced by it; the operator codes are
  `sorted(set((op.type, custom_code, version)))` — the iteration order of that `set` is the parameter `enum` of
  `writeWith` (`write` uses the order of first occurrence; `Props/C11Writer.write_deterministic`: no permutation of it
  changes the result);
* `serialise_operator_code`, the `operator_code_map` (later entries overwrite earlier ones with the same key);
* `serialise_subgraph`: virtual outputs removed, the tensors to write collected in an insertion-ordered `dict`
  (original inputs first, then the operands of the written operators and of the placeholders in pass order, then the subgraph
  outputs), sorted by
  `(name, position)`, the scratch tensor, tensor indices, buffer indices (`assign_buffers_to_tensors`: buffer 0 for tensors
  in the tensor arena / fast scratch, a fresh buffer for every other tensor, no sharing), `serialise_tensor` (shape rule,
  quantisation fields, buffer content), subgraph inputs / outputs, `serialise_operator`;
* `serialise_model`: description, the `vela_version` and `OfflineMemoryAllocation` metadata entries, buffers, metadata.

Python exceptions are `Except.error`: `key` (KeyError), `index` (IndexError), `assert` (AssertionError), `attr`
(AttributeError on `None`), `overflow` (a value does not fit int32), `ref` (a tensor reference outside `Desc.tensors`: not
expressible in Python, where references are objects). The model never defaults.
-/
namespace VelaVerif.Tflite.Writer
open VelaVerif.OpIndices (Indices alignInputs isort emitOrder)
open VelaVerif.Gen

/-! ## tables -/

structure OpInfo where
  name : String
  id : Nat
  convLike : Bool
  needsBias : Bool
  nng : Indices
  inv : Option (Nat × Bool × Indices)
deriving Repr, DecidableEq, Inhabited

def OpInfo.ofRow (r : String × Nat × Bool × Bool × WriterTbl.Tri × Option (Nat × Bool × WriterTbl.Tri)) : OpInfo :=
  { name := r.1, id := r.2.1, convLike := r.2.2.1, needsBias := r.2.2.2.1, nng := .ofTri r.2.2.2.2.1,
    inv := r.2.2.2.2.2.map fun x => (x.1, x.2.1, Indices.ofTri x.2.2) }

def opTable : List OpInfo := WriterTbl.ops.map OpInfo.ofRow

def lookupOp (name : String) : Option OpInfo := opTable.find? (·.name == name)
def lookupOpId (id : Nat) : Option OpInfo := opTable.find? (·.id == id)

def ethosU : Bytes := [101, 116, 104, 111, 115, 45, 117]          -- "ethos-u"
def omaName : Bytes := "OfflineMemoryAllocation".toUTF8.toList.map (·.toNat)
def velaVersionName : Bytes := "vela_version".toUTF8.toList.map (·.toNat)

/-! ## `__init__`: operators -/

/-- an operator after `__init__` -/
structure POp where
  info : OpInfo
  custom : Bytes
  version : Int
  inputs : List (Option Nat)
  outputs : List (Option Nat)
  intermediates : List (Option Nat)
  payload : Payload
  ignored : Bool
  placeholder : Bool
deriving Repr, DecidableEq, Inhabited

/-- `Operation.get_input(index_list, ix)` -/
def getInput (inputs : List (Option Nat)) (indexList : List Nat) (ix : Nat) : Option Nat :=
  match indexList[ix]? with
  | none => none
  | some i =>
    match inputs[i]? with
    | none => none
    | some v => v

/-- `if inp != op.ifm and inp is not None and inp.src_tensor is not None: op.inputs[idx] = inp.src_tensor` -/
def restoreSrc (ts : List TensorD) (ifm : Option Nat) (inp : Option Nat) : Option Nat :=
  match inp with
  | none => none
  | some t =>
    if inp ≠ ifm then
      match (ts[t]?).bind (·.src) with
      | some s => some s
      | none => inp
    else inp

def lookupOpE (name : String) : Except String OpInfo :=
  match lookupOp name with
  | some i => pure i
  | none => throw "key"

/-- `self.align_nng_inputs_to_tflite(op)` (not for Const / Placeholder / SubgraphInput) -/
def alignedInputs (info : OpInfo) (ignored : Bool) (inputs : List (Option Nat)) : Except String (List (Option Nat)) :=
  if ignored then pure inputs else
  match info.inv with
  | none => throw "key"
  | some x => alignInputs info.nng x.2.2 inputs

/-- convolution-like operators with constant weights get the original tensors behind reshaped clones back -/
def restoredInputs (ts : List TensorD) (info : OpInfo) (inputs : List (Option Nat)) : Except String (List (Option Nat)) :=
  if info.convLike then
    match inputs[1]? with
    | none => throw "index"
    | some none => throw "attr"
    | some (some w) =>
      match ts[w]? with
      | none => throw "ref"
      | some tw =>
        if tw.values.isSome then pure (inputs.map (restoreSrc ts (getInput inputs info.nng.ifms 0)))
        else pure inputs
  else pure inputs

def prepOp (ts : List TensorD) (op : OpD) : Except String POp := do
  let info ← lookupOpE op.type
  let inputs1 ← alignedInputs info (WriterTbl.opsToIgnore.contains op.type) op.inputs
  let inputs2 ← restoredInputs ts info inputs1
  pure { info := info, custom := op.customCode, version := op.version, inputs := inputs2, outputs := op.outputs,
         intermediates := op.intermediates, payload := op.payload, ignored := WriterTbl.opsToIgnore.contains op.type,
         placeholder := op.type == "Placeholder" }

/-- a subgraph after `__init__` -/
structure PSub where
  sg : SubgraphD
  ops : List POp
deriving Repr, Inhabited

def prepSub (ts : List TensorD) (sg : SubgraphD) : Except String PSub := do
  let ops ← sg.ops.mapM (prepOp ts)
  pure { sg := sg, ops := ops }

def subgraphsToWrite (d : Desc) : List SubgraphD := d.subgraphs.filter (·.cpu)

/-! ## operator codes -/

structure Code where
  opId : Nat
  custom : Bytes
  version : Int
deriving Repr, DecidableEq, Inhabited

def POp.code (p : POp) : Code := { opId := p.info.id, custom := p.custom, version := p.version }

/-- lexicographic `≤` on byte strings (= Python's order on `str`: UTF-8 keeps the code point order) -/
def bytesLe : Bytes → Bytes → Bool
  | [], _ => true
  | _ :: _, [] => false
  | a :: as, b :: bs => if a < b then true else if b < a then false else bytesLe as bs

/-- Python's order on the tuples `(op.type, custom_code, version)`; `Op.__lt__` compares `value.id` -/
def Code.le (a b : Code) : Bool :=
  if a.opId ≠ b.opId then decide (a.opId < b.opId)
  else if a.custom ≠ b.custom then bytesLe a.custom b.custom
  else decide (a.version ≤ b.version)

/-- insertion into an insertion-ordered `dict` / first-occurrence de-duplication -/
def addNew [BEq α] (l : List α) (x : α) : List α := if l.contains x then l else l ++ [x]

def dedup [BEq α] (l : List α) : List α := l.foldl addNew []

def allOps (subs : List PSub) : List POp := (subs.map fun s => s.ops.filter (!·.ignored)).flatten

/-- the elements of `set((op.type, custom_code, version) for op in all_ops)`, in order of first occurrence -/
def codeSet (subs : List PSub) : List Code := dedup ((allOps subs).map POp.code)

/-- `sorted(<the set, iterated in the order enum>)` -/
def sortCodes (enum : List Code) : List Code := isort Code.le enum

def deprecatedCode (tf : Nat) : Int := if tf < 127 then tf else 127

def serialiseOpCode (c : Code) : Except String OpCodeT := do
  let info ← match lookupOpId c.opId with
    | some i => pure i
    | none => throw "key"
  if info.name == "Custom" then
    match info.inv with
    | none => throw "key"
    | some (tf, _, _) => pure { deprecated := deprecatedCode tf, builtin := tf, version := c.version, custom := some c.custom }
  else
    match info.inv with
    | none => throw "assert"
    | some (tf, _, _) =>
      if info.name == "CustomNpuOp" then
        if tf ≠ WriterTbl.builtinCustom then throw "assert"
        else pure { deprecated := deprecatedCode tf, builtin := tf, version := c.version, custom := some ethosU }
      else pure { deprecated := deprecatedCode tf, builtin := tf, version := c.version, custom := none }

def lastIdx (p : α → Bool) (l : List α) : Option Nat :=
  (l.zipIdx.filter fun x => p x.1).getLast?.map (·.2)

def firstIdx (p : α → Bool) (l : List α) : Option Nat :=
  (l.zipIdx.find? fun x => p x.1).map (·.2)

/-- `self.operator_code_map[…]` for an operator: third-party custom operators are looked up by (custom code, version), all
    others by (type, version) — the entry written last wins -/
def opcodeIndex (codes : List Code) (p : POp) : Except String Nat :=
  let r := if p.info.name == "Custom" then lastIdx (fun c => c == p.code) codes
           else lastIdx (fun c => c.opId == p.info.id && c.version == p.version) codes
  match r with
  | some i => pure i
  | none => throw "key"

/-! ## `serialise_subgraph` -/

def modifyAt (l : List α) (k : Nat) (f : α → α) : List α :=
  match l[k]? with
  | some a => l.set k (f a)
  | none => l

/-- `tens.ops[0].outputs = []` for every virtual output -/
def clearVirtual (ops : List POp) (vo : List (Nat × Option Nat)) : List POp :=
  vo.foldl (fun ops v => match v.2 with
    | some k => modifyAt ops k (fun o => { o with outputs := [] })
    | none => ops) ops

/-- `sg.output_tensors.remove(tens)` for every virtual output that is listed -/
def removeVirtual (outs : List Nat) (vo : List (Nat × Option Nat)) : List Nat :=
  vo.foldl (fun o v => o.erase v.1) outs

def addOperands (s : List Nat) (op : POp) : List Nat :=
  (op.inputs ++ op.outputs ++ op.intermediates).foldl (fun s t => match t with
    | some t => addNew s t
    | none => s) s

/-- the keys of `tensor_set` in insertion order: original inputs, operands of the written operators and of the placeholders, and
    (since the repair C11-60: a constant only the output list names used to be dropped) the subgraph outputs that are left after
    the virtual outputs were removed -/
def tensorSet (originalInputs : List Nat) (ops : List POp) (outs : List Nat) : List Nat :=
  outs.foldl addNew (((ops.filter (!·.ignored)) ++ (ops.filter (·.placeholder))).foldl addOperands (dedup originalInputs))

def nameOf (ts : List TensorD) (t : Nat) : Bytes :=
  match ts[t]? with
  | some x => x.name
  | none => []

/-- `[tens for nm, idx, tens in sorted((tens.name, idx, tens) for idx, tens in enumerate(tensor_set))]` -/
def allTensors (ts : List TensorD) (set : List Nat) : List Nat := emitOrder bytesLe (nameOf ts) set

def indexIn (l : List Nat) (t : Nat) : Option Nat := firstIdx (· == t) l

def refsOk (ts : List TensorD) (l : List Nat) : Bool := l.all (· < ts.length)

/-- `shape_num_elements` -/
def numElems (shape : List Int) : Int := shape.foldl (· * ·) 1

def inArena (scratchArea : Option Nat) (t : TensorD) : Bool :=
  (scratchArea == some t.memArea && (t.memType == WriterTbl.memTypeScratch || t.memType == WriterTbl.memTypeScratchFast))
  || t.memType == WriterTbl.memTypeScratchFast

/-- `assign_buffers_to_tensors`: the buffer index of every tensor (in `all_tensors` order) and the next free index -/
def assignBuffers (scratchArea : Option Nat) : List TensorD → Nat → List Nat × Nat
  | [], bufIdx => ([], bufIdx)
  | t :: rest, bufIdx =>
    if inArena scratchArea t then
      let r := assignBuffers scratchArea rest bufIdx
      (WriterTbl.bufIdxZero :: r.1, r.2)
    else
      let r := assignBuffers scratchArea rest (bufIdx + 1)
      (bufIdx :: r.1, r.2)

def quantT (q : QuantD) : QuantT :=
  { min := q.min, max := q.max, scale := q.scale, zeroPoint := q.zeroPoint, quantDim := q.quantDim.getD 0 }

def dtypeCode (name : String) : Option Nat := (WriterTbl.dtypeInv.find? (·.1 == name)).map (·.2)

/-- `serialise_tensor` without the buffer side effect -/
def tensorT (t : TensorD) (bufId : Nat) : Except String TensorT := do
  let shape := if numElems t.originalShape ≠ numElems t.shape then t.shape else t.originalShape
  let ty ← match dtypeCode t.dtype with
    | some c => pure c
    | none => throw "key"
  pure { shape := some shape, type := ty, buffer := bufId, name := some t.name, quant := t.quant.map quantT,
         isVariable := t.isVariable }

/-- `assert c` / a guard: raise `e` unless `c` -/
def check (c : Bool) (e : String) : Except String Unit := if c then pure () else throw e

/-- the tensors of a subgraph in order, threading `buffers_to_write` -/
def serialiseTensors : List (TensorD × Nat) → List (Option Data) → Except String (List TensorT × List (Option Data))
  | [], bufs => pure ([], bufs)
  | p :: rest, bufs => do
    check (!(p.2 == WriterTbl.bufIdxZero && p.1.values.isSome)) "assert"
    check (p.2 < bufs.length) "index"
    let tt ← tensorT p.1 p.2
    let r ← serialiseTensors rest (bufs.set p.2 p.1.values)
    pure (tt :: r.1, r.2)

def mapIdx (all : List Nat) (t : Option Nat) : Option Nat :=
  match t with
  | some t => indexIn all t
  | none => none

def serialiseOperator (codes : List Code) (all : List Nat) (p : POp) : Except String OperatorT := do
  let inputs : List Int := p.inputs.map fun t => match mapIdx all t with
    | some i => (i : Int)
    | none => -1
  let outputs : List Int := p.outputs.filterMap fun t => (mapIdx all t).map Int.ofNat
  let inter : List Int := p.intermediates.filterMap fun t => (mapIdx all t).map Int.ofNat
  let idx ← opcodeIndex codes p
  let hasSer := match p.info.inv with
    | some (_, s, _) => s
    | none => false
  let pl : Payload := if hasSer then
      { optType := if p.payload.opts.isSome then p.payload.optType else 0, opts := p.payload.opts, custom := p.payload.custom,
        customFormat := if p.payload.custom.isSome then p.payload.customFormat else 0 }
    else { optType := 0, opts := none, custom := none, customFormat := 0 }
  pure { opcodeIndex := idx, inputs := some inputs, outputs := some outputs, payload := pl, mutating := some [],
         intermediates := some inter }

/-- the state shared by the subgraphs: `self.buf_idx`, `self.buffers_to_write`, `self.tensor_map_all` (as the tensor lists) -/
structure St where
  bufIdx : Nat
  buffers : List (Option Data)
  maps : List (List Nat)
deriving Repr, Inhabited

/-- the operators of the subgraph after the virtual outputs are cut off -/
def sgOps (ps : PSub) : List POp := clearVirtual ps.ops ps.sg.virtualOutputs
def sgOuts (ps : PSub) : List Nat := removeVirtual ps.sg.outputTensors ps.sg.virtualOutputs
def sgSet (ps : PSub) : List Nat := tensorSet ps.sg.originalInputs (sgOps ps) (sgOuts ps)
/-- `all_tensors` -/
def sgAll (ts : List TensorD) (ps : PSub) : List Nat := allTensors ts (sgSet ps)
def sgTds (ts : List TensorD) (ps : PSub) : List TensorD := (sgAll ts ps).filterMap (ts[·]?)

/-- the memory area of the scratch tensor (`None` without one); more than one scratch tensor is an assertion failure -/
def scratchAreaOf (tds : List TensorD) : Except String (Option Nat) :=
  match tds.filter (·.purpose == WriterTbl.purposeScratch) with
  | [] => pure none
  | [s] => pure (some s.memArea)
  | _ => throw "assert"

/-- `[sg.output_tensors[pos] for pos in sg.original_output_positions]` -/
def outputList (positions : Option (List Nat)) (outs : List Nat) : Except String (List Nat) :=
  match positions with
  | none => pure outs
  | some pos => pos.mapM fun p => match outs[p]? with
    | some t => pure t
    | none => throw "index"

/-- `[self.tensor_map_sg[tens] for tens in … if tens in self.tensor_map_sg]` -/
def idxList (all : List Nat) (l : List Nat) : List Int := l.filterMap fun t => (indexIn all t).map Int.ofNat

def serialiseSubgraph (ts : List TensorD) (codes : List Code) (st : St) (ps : PSub) : Except String (SubGraphT × St) := do
  check (refsOk ts (sgSet ps) && refsOk ts ps.sg.inputTensors && refsOk ts (sgOuts ps)) "ref"
  let area ← scratchAreaOf (sgTds ts ps)
  let tb ← serialiseTensors ((sgTds ts ps).zip (assignBuffers area (sgTds ts ps) st.bufIdx).1)
             (st.buffers ++ List.replicate (assignBuffers area (sgTds ts ps) st.bufIdx).2 none)
  check (ps.sg.inputTensors.all fun t => ps.sg.originalInputs.contains t) "assert"
  let outs2 ← outputList ps.sg.originalOutputPositions (sgOuts ps)
  let operators ← ((sgOps ps).filter (!·.ignored)).mapM (serialiseOperator codes (sgAll ts ps))
  pure ({ tensors := tb.1, inputs := some (idxList (sgAll ts ps) ps.sg.originalInputs), outputs := some (idxList (sgAll ts ps) outs2),
          operators := operators, name := some ps.sg.name },
        { bufIdx := (assignBuffers area (sgTds ts ps) st.bufIdx).2, buffers := tb.2, maps := st.maps ++ [sgAll ts ps] })

def serialiseSubgraphs (ts : List TensorD) (codes : List Code) : List PSub → St → Except String (List SubGraphT × St)
  | [], st => pure ([], st)
  | ps :: rest, st => do
    let r ← serialiseSubgraph ts codes st ps
    let rs ← serialiseSubgraphs ts codes rest r.2
    pure (r.1 :: rs.1, rs.2)

/-! ## `serialise_model` -/

/-- little-endian two's complement bytes of an `np.int32` -/
def i32le (x : Int) : Except String (List Nat) :=
  if x < -2147483648 ∨ x > 2147483647 then throw "overflow"
  else
    let u := (x % 4294967296).toNat
    pure [u % 256, u / 256 % 256, u / 65536 % 256, u / 16777216 % 256]

/-- the offsets of one subgraph: −1 (allocated online) unless the tensor lives in Scratch / Scratch_fast -/
def offsetsOf (ts : List TensorD) (all : List Nat) : List Int :=
  all.map fun t => match ts[t]? with
    | some x =>
      if x.memType == WriterTbl.memTypeScratch || x.memType == WriterTbl.memTypeScratchFast then
        match x.address with
        | some a => a
        | none => 0
      else -1
    | none => -1

def offlineAlloc (ts : List TensorD) (maps : List (List Nat)) : List Int :=
  [0, (maps.length : Int), ((maps.map List.length).sum : Int)] ++ (maps.map (offsetsOf ts)).flatten

def utf8 (s : String) : Bytes := s.toUTF8.toList.map (·.toNat)

/-- a metadata entry on its way to the file: the name and the buffer content -/
structure MetaW where
  name : Bytes
  data : Option Data
deriving Repr, Inhabited

def metadataToWrite (d : Desc) (maps : List (List Nat)) : Except String (List MetaW) := do
  let m0 : List MetaW := d.metadata.map fun m => { name := m.name, data := m.data }
  let m1 := m0 ++ [{ name := velaVersionName, data := some (.raw d.version) }]
  if d.metadata.any fun m => m.nameIsBytes && m.name == omaName then pure m1
  else
    let bytes ← (offlineAlloc d.tensors maps).mapM i32le
    pure (m1 ++ [{ name := omaName, data := some (.raw bytes.flatten) }])

def descriptionOf (version : Bytes) : Bytes := utf8 "Vela " ++ version ++ utf8 " Optimised"

def st0 : St := { bufIdx := WriterTbl.bufIdxStart, buffers := [], maps := [] }

/-- `serialise_model`, last part: metadata buffers are appended behind the tensor buffers -/
def assemble (d : Desc) (opcodes : List OpCodeT) (sgs : List SubGraphT) (st : St) (metas : List MetaW) : ModelT :=
  { fileId := WriterTbl.fileIdentifier, version := WriterTbl.tfliteVersion, opcodes := opcodes, subgraphs := sgs,
    description := some (descriptionOf d.version),
    buffers := (st.buffers ++ metas.map (·.data)).map fun b => { data := b },
    metadata := metas.zipIdx.map fun m => { name := some m.1.name, buffer := st.buffers.length + m.2 } }

/-- the file for the graph `d` when the set of operator codes is iterated in the order `enum` -/
def writeWith (d : Desc) (enum : List Code) : Except String ModelT := do
  let subs ← (subgraphsToWrite d).mapM (prepSub d.tensors)
  let opcodes ← (sortCodes enum).mapM serialiseOpCode
  let r ← serialiseSubgraphs d.tensors (sortCodes enum) subs st0
  let metas ← metadataToWrite d r.2.maps
  pure (assemble d opcodes r.1 r.2 metas)

/-- the operator codes of `d` in order of first occurrence (one possible iteration order of the Python `set`) -/
def codesOf (d : Desc) : Except String (List Code) := do
  let subs ← (subgraphsToWrite d).mapM (prepSub d.tensors)
  pure (codeSet subs)

def write (d : Desc) : Except String ModelT := do
  let enum ← codesOf d
  writeWith d enum

end VelaVerif.Tflite.Writer
