import VelaVerif.Model.TfliteDemo
/-! Graph descriptions used by the non-vacuity examples and witnesses of Props/C11Roundtrip.lean. -/
namespace VelaVerif.Tflite.Demo

/-- a CPU subgraph with the Ethos-U operator, an elementwise operator with a constant operand, a third-party custom operator, an
unused original input, a repeated output entry, arena tensors, a scratch tensor, a graph metadata entry; and an NPU subgraph that
is not written -/
def demo2 : Desc :=
  { tensors :=
      [ t "x" [1, 4, 4, 2] "int8" (some q8) none 3 (some 0),                          -- 0: input
        t "c" [2] "int8" (some q8) (some (.raw [1, 2])) 2 none,                       -- 1: constant
        t "y" [1, 4, 4, 2] "int8" (some q8) none 3 (some 32),                         -- 2: NPU result
        t "z" [1, 4, 4, 2] "int8" none none 3 (some 64),                              -- 3: Add result
        t "unused" [1] "float32" none none 0 none,                                    -- 4: input nobody reads
        t "a_scratch" [128] "uint8" none none 3 none none 3,                          -- 5: the scratch tensor
        t "v" [1, 4, 4, 2] "quint8" none none 3 (some 96) ],                          -- 6: custom operator result
    subgraphs :=
      [ { name := bytes "main", cpu := true,
          ops := [startup "Placeholder" 0, startup "Const" 1,
                  { type := "CustomNpuOp", customCode := [], version := 1, inputs := [some 0, some 5], outputs := [some 2],
                    intermediates := [], payload := { optType := 0, opts := none, custom := some "01", customFormat := 0 } },
                  { type := "Add", customCode := [], version := 2, inputs := [some 2, some 1], outputs := [some 3],
                    intermediates := [], payload := { optType := 11, opts := some "~0", custom := none, customFormat := 0 } },
                  { custom 1 3 6 with inputs := [some 3, some 5] }],
          originalInputs := [0, 4], inputTensors := [0], outputTensors := [6, 3], originalOutputPositions := some [0, 1, 0],
          virtualOutputs := [] },
        npu ],
    metadata := [{ nameIsBytes := false, name := bytes "note", data := some (.raw []) }],
    version := bytes "3.10.0" }

/-- `demo2` followed by a convolution whose weights are computed (not constant): still no surgery -/
def demo4 : Desc :=
  { demo2 with
    tensors := demo2.tensors ++ [t "wdyn" [2, 1, 1, 2] "int8" (some q8) none 3 (some 128), t "u" [1, 4, 4, 2] "int8" (some q8) none 3 (some 160)]
    subgraphs := demo2.subgraphs.map fun s => if s.cpu then
      { s with ops := s.ops ++ [startup "Placeholder" 7, { conv with inputs := [some 3, some 7, none], outputs := [some 8] }]
               originalInputs := [0, 4, 7], outputTensors := [6, 8] } else s }

/-- an AssignVariable operator with its virtual output: the writer cuts the virtual output off, the reader re-creates it -/
def demo3 : Desc :=
  { tensors :=
      [ t "x" [1, 2] "int8" none none 3 (some 0),
        t "res" [] "resource" none none 0 none,
        t "AssignVariable_0" [] "int8" none none 0 none none 7 ],
    subgraphs :=
      [ { name := bytes "main", cpu := true,
          ops := [startup "Placeholder" 0, startup "Placeholder" 1,
                  { type := "AssignVariable", customCode := [], version := 1, inputs := [some 1, some 0], outputs := [some 2],
                    intermediates := [], payload := { optType := 0, opts := none, custom := none, customFormat := 0 } }],
          originalInputs := [0, 1], inputTensors := [0, 1], outputTensors := [2], originalOutputPositions := some [],
          virtualOutputs := [(2, some 2)] } ],
    metadata := [], version := bytes "3.10.0" }

/-- `demo2` with three bytes of data for the two-element int8 constant -/
def badData : Desc :=
  { demo2 with tensors := demo2.tensors.set 1 (t "c" [2] "int8" (some q8) (some (.raw [1, 2, 3])) 2 none) }

/-- `demo2` with the NPU operator's result listed as an original input -/
def badInput : Desc :=
  { demo2 with subgraphs := demo2.subgraphs.map fun s => if s.cpu then { s with originalInputs := [0, 2] } else s }

def badWeightTensors : List TensorD :=
  (demo.tensors.set 1 (t "w" [2, 2] "int8" (some q8) (some (.raw [1, 2, 3, 4])) 2 none)).set 2
    (t "w_reshape" [2, 2] "int8" (some q8) (some (.digest 4 "clone")) 1 none (some 1))
def badWeights : Desc := { demo with tensors := badWeightTensors }

end VelaVerif.Tflite.Demo
