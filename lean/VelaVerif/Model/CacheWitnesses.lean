import VelaVerif.Model.Caches
/-!
Concrete programs of the process-state model used by `Props/C14.lean`: one shaped like a real compilation (meets
`Suff`), the smallest programs that showed each way the code used to leave the hypothesis of `history_independent`
(now instances of the theorem), and two that show the remaining hypotheses are needed.
-/
namespace VelaVerif.Caches

/-- request = (accelerator, weights digest). Weights read from the file get a fresh `value_id` (`loc 0`): the weight
cache key is local; the default architecture is looked up by accelerator and its value depends on nothing else;
the tensor gets an address under its own fresh identity (`loc 1`). -/
def convProg (rq : Nat × Nat) : Prog (List Nat) :=
  .memo .arch [.lit rq.1] (500 + rq.1) fun arch =>
  .memo .weights [.lit 1, .lit 16, .lit 99, .lit 1, .loc 0] (rq.1 * 1000 + rq.2) fun enc =>
  .memo .weights [.lit 1, .lit 16, .lit 99, .lit 1, .loc 0] (rq.1 * 1000 + rq.2 + 7) fun enc2 =>
  .assign [.loc 1, .lit 0] (64 + enc % 16) <|
  .log enc <|
  .ret [arch, enc, enc2]

def convF : Store → PKey → Val
  | .arch, [.lit a] => 500 + a
  | _, _ => 0


/-- MEAN on the NPU: the all-ones weights get `value_id = create_equivalence_id(ones)`, a *global* identity, and the
encoded stream stored under the key depends on the accelerator, which is not a key field. -/
def meanProg (accelerator : Nat) : Prog Nat :=
  .memo .weights [.lit 1, .lit 16, .lit 99, .lit 1, .memo 1024] (1000 + accelerator) fun enc => .ret enc


/-- a constant whose identity is memoised by value (LUT table, PAD border, MEAN weights, zero bias) receives the
address `rq` -/
def lutProg (rq : Nat) : Prog Nat := .assign [.memo 7, .lit 0] rq (.ret rq)


/-- `--enable-debug-db`: the rows of the tables go to `_debug.xml` -/
def dbgProg (rq : Nat) : Prog (List Nat) := .log rq (.dump fun rows => .ret rows)


/-- a compilation that dies between giving a memoised identity its address and the end (`true`), then an ordinary one -/
def crashProg : Bool × Nat → Prog Nat
  | (true, r) => .assign [.memo 7] r (.assign [.memo 7] (r + 1) (.ret r))
  | (false, r) => .assign [.memo 7] r (.ret r)


/-- `default_arch_cache[accelerator 3]` filled with a value that depends on the request (a command-line option) -/
def archLeakProg (rq : Nat) : Prog Nat := .memo .arch [.lit 3] rq fun arch => .ret arch

end VelaVerif.Caches
