/-!
# Run-time library of the source translator (`harness/py2lean.py`)

The semantics of the Python / NumPy *scalar integer* operations that the translated definitions in
`Gen/Src*.lean` are made of.  Hand-written and trusted (it is the formal reading of "what Python
does"); it is validated against the real interpreter on every run of `tools/py2lean_selftest.py`
(random operator / operand-type / value triples, real CPython 3.12 + NumPy 2 vs. these definitions).

A number is a value with a *dynamic* tag, because NumPy scalars carry their type at run time and a
Python function may return `np.int32` on one path and `np.int64` or `int` on another
(`fp_math.saturating_rounding_mul32` does):

* `Ty.py`      – Python `int`, unbounded;
* `Ty.i8 … u32`– NumPy fixed-width scalars (`np.uint64` is not supported: mixing it with a signed
                 type yields `float64`).

NumPy 2 (NEP 50) rules that are modelled:
* `np T  op  np U`   → type `promote T U`, result wraps (two's complement) — only a RuntimeWarning in NumPy;
* `np T  op  int`    → the Python int is converted to `T` first: `OverflowError` when it does not fit; result wraps;
* `np.intN(python int)` raises `OverflowError` when out of range; `np.intN(numpy scalar)` is a C cast (wraps);
* `//` and `%` by zero: `ZeroDivisionError` for Python ints, **0** (warning only) for NumPy ints;
* `<<`, `>>` : Python ints raise `ValueError` on a negative count; NumPy ints give 0 (`<<`) resp. 0 / −1 (`>>`)
  for a count outside `[0, bits)`;
* comparisons are exact whatever the operand types; `min`/`max` return the *first* extremal operand
  (with its tag); truthiness is `≠ 0`.
Python ints are unbounded: `1 << 10**12` is a value here (CPython would raise `MemoryError`).
-/
namespace VelaVerif.PyRt

inductive Err where
  | assert_      -- AssertionError
  | overflow     -- OverflowError (Python int does not fit a NumPy type)
  | value        -- ValueError (negative shift count, range() step 0, negative power of a NumPy int)
  | zerodiv      -- ZeroDivisionError
  | index        -- IndexError
  | unsupported  -- the real code leaves the modelled fragment here (float result, …): never equal to a model outcome
  | raised (name : String)   -- `raise Name(...)`
deriving Repr, DecidableEq

inductive Ty where
  | py | i8 | i16 | i32 | i64 | u8 | u16 | u32
deriving Repr, DecidableEq

structure Num where
  ty : Ty
  v : Int
deriving Repr, DecidableEq

abbrev M := Except Err

@[reducible] def Num.py (v : Int) : Num := ⟨.py, v⟩

def Ty.bits : Ty → Int
  | .py => 0 | .i8 => 8 | .i16 => 16 | .i32 => 32 | .i64 => 64 | .u8 => 8 | .u16 => 16 | .u32 => 32

def Ty.signed : Ty → Bool
  | .u8 | .u16 | .u32 => false
  | _ => true

/-- does the (Python) integer `v` fit the type -/
def Ty.fits (t : Ty) (v : Int) : Prop :=
  match t with
  | .py => True
  | .i8 => -128 ≤ v ∧ v ≤ 127
  | .i16 => -32768 ≤ v ∧ v ≤ 32767
  | .i32 => -2147483648 ≤ v ∧ v ≤ 2147483647
  | .i64 => -9223372036854775808 ≤ v ∧ v ≤ 9223372036854775807
  | .u8 => 0 ≤ v ∧ v ≤ 255
  | .u16 => 0 ≤ v ∧ v ≤ 65535
  | .u32 => 0 ≤ v ∧ v ≤ 4294967295

instance (t : Ty) (v : Int) : Decidable (t.fits v) := by
  cases t <;> unfold Ty.fits <;> infer_instance

/-- C conversion to the type (two's complement wrap); identity for Python ints -/
def wrap (t : Ty) (v : Int) : Int :=
  match t with
  | .py => v
  | .i8 => (v + 128) % 256 - 128
  | .i16 => (v + 32768) % 65536 - 32768
  | .i32 => (v + 2147483648) % 4294967296 - 2147483648
  | .i64 => (v + 9223372036854775808) % 18446744073709551616 - 9223372036854775808
  | .u8 => v % 256
  | .u16 => v % 65536
  | .u32 => v % 4294967296

/-- NumPy result type of a binary operation on two NumPy scalars -/
def promote : Ty → Ty → Ty
  | .py, t => t
  | t, .py => t
  | .i8, .i8 => .i8 | .i8, .i16 => .i16 | .i8, .i32 => .i32 | .i8, .i64 => .i64
  | .i8, .u8 => .i16 | .i8, .u16 => .i32 | .i8, .u32 => .i64
  | .i16, .i8 => .i16 | .i16, .i16 => .i16 | .i16, .i32 => .i32 | .i16, .i64 => .i64
  | .i16, .u8 => .i16 | .i16, .u16 => .i32 | .i16, .u32 => .i64
  | .i32, .i8 => .i32 | .i32, .i16 => .i32 | .i32, .i32 => .i32 | .i32, .i64 => .i64
  | .i32, .u8 => .i32 | .i32, .u16 => .i32 | .i32, .u32 => .i64
  | .i64, _ => .i64
  | .u8, .i8 => .i16 | .u8, .i16 => .i16 | .u8, .i32 => .i32 | .u8, .i64 => .i64
  | .u8, .u8 => .u8 | .u8, .u16 => .u16 | .u8, .u32 => .u32
  | .u16, .i8 => .i32 | .u16, .i16 => .i32 | .u16, .i32 => .i32 | .u16, .i64 => .i64
  | .u16, .u8 => .u16 | .u16, .u16 => .u16 | .u16, .u32 => .u32
  | .u32, .i8 => .i64 | .u32, .i16 => .i64 | .u32, .i32 => .i64 | .u32, .i64 => .i64
  | .u32, .u8 => .u32 | .u32, .u16 => .u32 | .u32, .u32 => .u32

/-- operand conversion of a binary operator: common type and the two values -/
def coerce2 (a b : Num) : M (Ty × Int × Int) :=
  match a.ty, b.ty with
  | .py, .py => .ok (.py, a.v, b.v)
  | .py, t => if t.fits a.v then .ok (t, a.v, b.v) else .error .overflow
  | t, .py => if t.fits b.v then .ok (t, a.v, b.v) else .error .overflow
  | s, t => .ok (promote s t, a.v, b.v)

/-! ### bitwise operations on unbounded two's-complement integers -/

def natLdiff (m n : Nat) : Nat := Nat.bitwise (fun a b => a && !b) m n

def iand : Int → Int → Int
  | .ofNat m, .ofNat n => ((m &&& n : Nat) : Int)
  | .ofNat m, .negSucc n => ((natLdiff m n : Nat) : Int)
  | .negSucc m, .ofNat n => ((natLdiff n m : Nat) : Int)
  | .negSucc m, .negSucc n => .negSucc (m ||| n)

def ior : Int → Int → Int
  | .ofNat m, .ofNat n => ((m ||| n : Nat) : Int)
  | .ofNat m, .negSucc n => .negSucc (natLdiff n m)
  | .negSucc m, .ofNat n => .negSucc (natLdiff m n)
  | .negSucc m, .negSucc n => .negSucc (m &&& n)

def ixor : Int → Int → Int
  | .ofNat m, .ofNat n => ((m ^^^ n : Nat) : Int)
  | .ofNat m, .negSucc n => .negSucc (m ^^^ n)
  | .negSucc m, .ofNat n => .negSucc (m ^^^ n)
  | .negSucc m, .negSucc n => ((m ^^^ n : Nat) : Int)

/-! ### arithmetic -/

def Num.add (a b : Num) : M Num := do
  let (t, x, y) ← coerce2 a b
  return ⟨t, wrap t (x + y)⟩

def Num.sub (a b : Num) : M Num := do
  let (t, x, y) ← coerce2 a b
  return ⟨t, wrap t (x - y)⟩

def Num.mul (a b : Num) : M Num := do
  let (t, x, y) ← coerce2 a b
  return ⟨t, wrap t (x * y)⟩

/-- `a // b` (floor) -/
def Num.floordiv (a b : Num) : M Num := do
  let (t, x, y) ← coerce2 a b
  if y = 0 then (if t = .py then .error .zerodiv else return ⟨t, 0⟩)
  else return ⟨t, wrap t (Int.fdiv x y)⟩

/-- `a % b` (sign of the divisor) -/
def Num.mod (a b : Num) : M Num := do
  let (t, x, y) ← coerce2 a b
  if y = 0 then (if t = .py then .error .zerodiv else return ⟨t, 0⟩)
  else return ⟨t, wrap t (Int.fmod x y)⟩

def Num.shl (a b : Num) : M Num := do
  let (t, x, y) ← coerce2 a b
  if t = .py then (if y < 0 then .error .value else return ⟨t, x * 2 ^ y.toNat⟩)
  else if 0 ≤ y ∧ y < t.bits then return ⟨t, wrap t (x * 2 ^ y.toNat)⟩
  else return ⟨t, 0⟩

/-- `a >> b` (arithmetic) -/
def Num.shr (a b : Num) : M Num := do
  let (t, x, y) ← coerce2 a b
  if t = .py then (if y < 0 then .error .value else return ⟨t, x >>> y.toNat⟩)   -- = ⌊x / 2^y⌋, any size of y
  else if 0 ≤ y ∧ y < t.bits then return ⟨t, x / 2 ^ y.toNat⟩
  else return ⟨t, if x < 0 then -1 else 0⟩

def Num.and (a b : Num) : M Num := do
  let (t, x, y) ← coerce2 a b
  return ⟨t, wrap t (iand x y)⟩

def Num.or (a b : Num) : M Num := do
  let (t, x, y) ← coerce2 a b
  return ⟨t, wrap t (ior x y)⟩

def Num.xor (a b : Num) : M Num := do
  let (t, x, y) ← coerce2 a b
  return ⟨t, wrap t (ixor x y)⟩

/-- `a ** b` -/
def Num.pow (a b : Num) : M Num := do
  let (t, x, y) ← coerce2 a b
  if y < 0 then (if t = .py then .error .unsupported else .error .value)
  else return ⟨t, wrap t (x ^ y.toNat)⟩

def Num.neg (a : Num) : M Num := return ⟨a.ty, wrap a.ty (-a.v)⟩
def Num.pos (a : Num) : M Num := return a
def Num.invert (a : Num) : M Num := return ⟨a.ty, wrap a.ty (-a.v - 1)⟩
/-- `abs(a)` -/
def Num.abs (a : Num) : M Num := return ⟨a.ty, wrap a.ty (if a.v < 0 then -a.v else a.v)⟩

/-! ### comparisons (exact for every pair of operand types), truthiness -/

def Num.lt (a b : Num) : Bool := decide (a.v < b.v)
def Num.le (a b : Num) : Bool := decide (a.v ≤ b.v)
def Num.gt (a b : Num) : Bool := decide (a.v > b.v)
def Num.ge (a b : Num) : Bool := decide (a.v ≥ b.v)
def Num.eq (a b : Num) : Bool := decide (a.v = b.v)
def Num.ne (a b : Num) : Bool := decide (a.v ≠ b.v)
def Num.truthy (a : Num) : Bool := decide (a.v ≠ 0)

/-! ### casts and builtins -/

/-- `np.<t>(a)` -/
def Num.cast (t : Ty) (a : Num) : M Num :=
  match a.ty with
  | .py => if t.fits a.v then .ok ⟨t, a.v⟩ else .error .overflow
  | _ => .ok ⟨t, wrap t a.v⟩

/-- `int(a)` -/
def Num.int (a : Num) : M Num := return ⟨.py, a.v⟩

/-- `math.ceil(a)` of an *integer* operand: a Python int is returned as it is (`int.__ceil__`); a NumPy integer has no
    `__ceil__` and goes through `float(a)`, which is exact up to 2^53 in magnitude (beyond: outside the fragment) -/
def Num.ceil (a : Num) : M Num :=
  match a.ty with
  | .py => .ok a
  | _ => if -9007199254740992 ≤ a.v ∧ a.v ≤ 9007199254740992 then .ok ⟨.py, a.v⟩ else .error .unsupported

/-- `int(b)` / a `bool` used as a number -/
def ofBool (b : Bool) : Num := ⟨.py, if b then 1 else 0⟩

/-- `min(a, b)`: the first minimal operand -/
def Num.min (a b : Num) : M Num := if b.v < a.v then .ok b else .ok a
/-- `max(a, b)`: the first maximal operand -/
def Num.max (a b : Num) : M Num := if b.v > a.v then .ok b else .ok a

/-- `assert c` -/
def pyAssert (c : Bool) : M Unit := if c then .ok () else .error .assert_

/-! ### lists -/

def rangeUp (lo : Int) (step : Int) : Nat → List Num
  | 0 => []
  | n + 1 => Num.py lo :: rangeUp (lo + step) step n

/-- number of elements of `range(lo, hi, step)` -/
def rangeLen (lo hi step : Int) : Nat :=
  if step > 0 then (if lo < hi then ((hi - lo + step - 1) / step).toNat else 0)
  else if step < 0 then (if hi < lo then ((lo - hi + (-step) - 1) / (-step)).toNat else 0)
  else 0

/-- `range(lo, hi, step)` as a list of Python ints -/
def pyRange (lo hi step : Num) : M (List Num) :=
  if step.v = 0 then .error .value else .ok (rangeUp lo.v step.v (rangeLen lo.v hi.v step.v))

/-- `len(l)` -/
def pyLen {α : Type} (l : List α) : Num := Num.py l.length

/-- `l[i]` (negative indices count from the end) -/
def pyIndex {α : Type} (l : List α) (i : Num) : M α :=
  let k : Int := if i.v < 0 then i.v + l.length else i.v
  if k < 0 then .error .index
  else match l[k.toNat]? with
    | some x => .ok x
    | none => .error .index

/-- `l[i] = v` (negative indices count from the end; `IndexError` outside the list) -/
def pySetItem {α : Type} (l : List α) (i : Num) (v : α) : M (List α) :=
  let k : Int := if i.v < 0 then i.v + l.length else i.v
  if k < 0 then .error .index
  else if k.toNat < l.length then .ok (l.set k.toNat v) else .error .index

/-- `isinstance(x, T)` for an integer value and `T` = `int` / `np.intN` (third round).  NumPy integer scalars are not
    subclasses of `int` and of each other (checked: `isinstance(np.int64(3), int) = False`,
    `isinstance(np.int32(3), np.int64) = False`); a `bool` (an `int` subclass) never has the shape "number" here. -/
def Num.isinst (x : Num) (t : Ty) : Bool := x.ty == t

/-- `bytearray(n)`: `n` zero bytes (`ValueError` for a negative count).  The value is the list of its bytes. -/
def pyByteArray (n : Num) : M (List Num) :=
  if n.v < 0 then .error .value else .ok (List.replicate n.v.toNat (Num.py 0))

/-- `b[i] = v` on a bytearray: the value must be in `range(0, 256)` (`ValueError`, checked before the index —
    CPython 3.12: `bytearray(3)[5] = 256` raises `ValueError`), then the index rule of lists (`IndexError`); any
    integer type is accepted (`__index__`) and the byte is stored as a Python int. -/
def pySetByte (l : List Num) (i : Num) (v : Num) : M (List Num) :=
  if 0 ≤ v.v ∧ v.v < 256 then pySetItem l i (Num.py v.v) else .error .value

/-- `l * n` -/
def pyRepeat {α : Type} (l : List α) (n : Num) : List α :=
  (List.replicate n.v.toNat l).flatten

/-- loop with accumulator: `for x in xs: s = body(s, x)` -/
def pyFor {α σ : Type} (xs : List α) (s : σ) (body : σ → α → M σ) : M σ :=
  match xs with
  | [] => .ok s
  | x :: rest => match body s x with
    | .ok s' => pyFor rest s' body
    | .error e => .error e

/-- outcome of one iteration of a loop body that can `continue`, `break` or `return` -/
inductive Step (σ ρ : Type) where
  | next (s : σ)     -- end of the body or `continue`: go on with the next element
  | brk (s : σ)      -- `break`
  | ret (r : ρ)      -- `return r` (of the enclosing function)

/-- outcome of a whole loop: ran to the end / was broken out of (state `s`), or the function returned -/
inductive Out (σ ρ : Type) where
  | done (s : σ)
  | ret (r : ρ)

/-- `for x in xs:` with `continue` / `break` / `return` in the body -/
def pyForE {α σ ρ : Type} (xs : List α) (s : σ) (body : σ → α → M (Step σ ρ)) : M (Out σ ρ) :=
  match xs with
  | [] => .ok (.done s)
  | x :: rest => match body s x with
    | .ok (.next s') => pyForE rest s' body
    | .ok (.brk s') => .ok (.done s')
    | .ok (.ret r) => .ok (.ret r)
    | .error e => .error e

/-- Marker emitted by the translator in place of a definition for a function that is outside the
    translated subset; any theorem that applies the function then fails to elaborate. -/
structure Untranslatable (reason : String) : Type where

/-! ### rendering (used by the self-test driver only) -/

def Ty.name : Ty → String
  | .py => "py" | .i8 => "i8" | .i16 => "i16" | .i32 => "i32" | .i64 => "i64"
  | .u8 => "u8" | .u16 => "u16" | .u32 => "u32"

def Ty.ofName? : String → Option Ty
  | "py" => some .py | "i8" => some .i8 | "i16" => some .i16 | "i32" => some .i32 | "i64" => some .i64
  | "u8" => some .u8 | "u16" => some .u16 | "u32" => some .u32
  | _ => none

def Err.name : Err → String
  | .assert_ => "assert" | .overflow => "overflow" | .value => "value" | .zerodiv => "zerodiv"
  | .index => "index" | .unsupported => "unsupported" | .raised n => "raised:" ++ n

def Num.render (a : Num) : String := a.ty.name ++ ":" ++ toString a.v

def Num.parse? (s : String) : Option Num :=
  match s.splitOn ":" with
  | [t, v] => do
    let ty ← Ty.ofName? t
    let x ← v.toInt?
    some ⟨ty, x⟩
  | _ => none

/-- `[py:1,i32:2]` (no blanks) -/
def parseNumList? (s : String) : Option (List Num) :=
  let cs := s.toList
  if cs.length < 2 || cs.head? != some '[' || cs.getLast? != some ']' then none else
  let inner := String.ofList ((cs.drop 1).dropLast)
  if inner.isEmpty then some [] else (inner.splitOn ",").mapM Num.parse?

/-- `(py:1,py:2,py:3)` -/
def parseTriple? (s : String) : Option (Num × Num × Num) :=
  let cs := s.toList
  if cs.length < 2 || cs.head? != some '(' || cs.getLast? != some ')' then none else
  match (String.ofList ((cs.drop 1).dropLast)).splitOn "," with
  | [a, b, c] => do
    let x ← Num.parse? a
    let y ← Num.parse? b
    let z ← Num.parse? c
    some (x, y, z)
  | _ => none

/-- `[None;(py:1,py:2,py:3)]` (elements separated by `;`, no blanks) -/
def parseOptTripleList? (s : String) : Option (List (Option (Num × Num × Num))) :=
  let cs := s.toList
  if cs.length < 2 || cs.head? != some '[' || cs.getLast? != some ']' then none else
  let inner := String.ofList ((cs.drop 1).dropLast)
  if inner.isEmpty then some [] else
    (inner.splitOn ";").mapM fun e => if e == "None" then some none else (parseTriple? e).map some

def parseBool? (s : String) : Option Bool :=
  if s == "true" then some true else if s == "false" then some false else none

class Render (α : Type) where
  render : α → String

instance : Render Num := ⟨Num.render⟩
instance : Render Bool := ⟨fun b => if b then "true" else "false"⟩
instance : Render Unit := ⟨fun _ => "()"⟩
instance {α β : Type} [Render α] [Render β] : Render (α × β) :=
  ⟨fun p => "(" ++ Render.render p.1 ++ "," ++ Render.render p.2 ++ ")"⟩
instance {α : Type} [Render α] : Render (Option α) :=
  ⟨fun o => match o with | none => "None" | some v => Render.render v⟩
instance {α : Type} [Render α] : Render (List α) :=
  ⟨fun l => "[" ++ ",".intercalate (l.map Render.render) ++ "]"⟩

def renderM {α : Type} [Render α] (r : M α) : String :=
  match r with
  | .ok v => "ok " ++ Render.render v
  | .error e => "err " ++ e.name

/-- the run-time operators by name (self-test of this file against the real interpreter) -/
def evalOp (op : String) (a b : Num) : Option String :=
  match op with
  | "add" => some (renderM (Num.add a b))
  | "sub" => some (renderM (Num.sub a b))
  | "mul" => some (renderM (Num.mul a b))
  | "floordiv" => some (renderM (Num.floordiv a b))
  | "mod" => some (renderM (Num.mod a b))
  | "shl" => some (renderM (Num.shl a b))
  | "shr" => some (renderM (Num.shr a b))
  | "and" => some (renderM (Num.and a b))
  | "or" => some (renderM (Num.or a b))
  | "xor" => some (renderM (Num.xor a b))
  | "pow" => some (renderM (Num.pow a b))
  | "min" => some (renderM (Num.min a b))
  | "max" => some (renderM (Num.max a b))
  | "lt" => some (Render.render (Num.lt a b))
  | "le" => some (Render.render (Num.le a b))
  | "gt" => some (Render.render (Num.gt a b))
  | "ge" => some (Render.render (Num.ge a b))
  | "eq" => some (Render.render (Num.eq a b))
  | "ne" => some (Render.render (Num.ne a b))
  | "neg" => some (renderM (Num.neg a))
  | "invert" => some (renderM (Num.invert a))
  | "abs" => some (renderM (Num.abs a))
  | "int" => some (renderM (Num.int a))
  | "truthy" => some (Render.render (Num.truthy a))
  | "cast" => some (renderM (Num.cast b.ty a))      -- the target type is the tag of `b`
  | _ => none

end VelaVerif.PyRt
