import VelaVerif.Gen.Constraints
/-!
# Model of `TFLiteSupportedOperators.is_operator_supported` / `TFLiteSemantic.is_operator_semantic_valid`

Hand transcription of `ethosu/vela/tflite_supported_operators.py` and `tflite_model_semantic.py`:
an operator descriptor (what the constraint functions read from an `Operation`), every modelled
constraint as a total function `OpDesc → Except String Bool` (`.error` = the Python function raises),
and the two drivers that walk "generic minus exceptions, then specific" in list order and stop at
the first constraint that does not hold.  The numeric ranges, data-type sets, operator sets, tensor
indices and the ordered constraint lists are those of `Gen/Constraints.lean`, regenerated from the
live objects on every run.
-/
namespace VelaVerif.Constraints
open VelaVerif.Gen.Constraints
set_option linter.unusedVariables false

open Lean in
/-- `n!"abc"`: the code points of the literal as a `List Nat` literal, built at elaboration time.
    Identifiers and texts are `Name = List Nat` everywhere: `String` operations (`toList`, `==`) take
    milliseconds per call in the kernel, which made every `decide` over the tables take minutes. -/
macro:max "n!" s:str : term => do
  let cs := s.getString.toList.map (·.toNat)
  let lits := cs.toArray.map fun c => Syntax.mkNumLit (toString c)
  `(([$lits,*] : List Nat))

def ofName (n : Name) : String := String.ofList (n.map Char.ofNat)
def toName (s : String) : Name := s.toList.map Char.toNat

/-- constant data of a tensor as far as the constraints look at it -/
inductive Vals where
  | none                     -- `tens.values is None`
  | ints (l : List Int)      -- flattened (row-major) integer values
  | big                      -- has values, not transmitted (nothing modelled reads them)
deriving Repr, DecidableEq, Inhabited

/-- `tens.ops`: no producer, first producer is `Op.Const`, anything else -/
inductive Producer where
  | noOps | constOp | other
deriving Repr, DecidableEq, Inhabited

structure Quant where
  /-- `scale_f32` as IEEE-754 binary32 bit patterns; `none` = Python `None` -/
  scales : Option (List Nat)
  zps : Option (List Int)
  /-- `np.size(min) > 1 or np.size(max) > 1` -/
  minMaxMulti : Bool
deriving Repr, DecidableEq, Inhabited

structure Tens where
  /-- `none` = a `None` entry of the Python list -/
  shape : List (Option Int)
  dtype : Name
  bits : Nat
  /-- `BaseType` flag value of `dtype.type` (Signed 1, Unsigned 2, Int 8, Float 16, Bool 64 …) -/
  tflags : Nat
  /-- `element_size_bytes` (0 = derive from the data type) -/
  elemBytes : Nat
  quant : Option Quant
  vals : Vals
  prod : Producer
deriving Repr, DecidableEq, Inhabited

inductive AttrV where
  | int (i : Int)
  | bool (b : Bool)
  | ints (l : List Int)
  | str (s : Name)
  /-- a Python float (binary64 bit pattern) -/
  | flt (bits : Nat)
  | none
deriving Repr, DecidableEq, Inhabited

structure OpDesc where
  type : Name
  /-- `op.activation.op_type.name`; `none` = no fused activation -/
  act : Option Name
  attrs : List (Name × AttrV)
  inputs : List (Option Tens)
  outputs : List (Option Tens)
deriving Repr, DecidableEq, Inhabited

abbrev R := Except String Bool
def exc : Except String α := .error "exc"

-- ------------------------------------------------------------------------------------------------
-- Python helpers

/-- Python list indexing with negative indices; `IndexError` → `.error` -/
def pyIdx (l : List α) (i : Int) : Except String α :=
  let n : Int := l.length
  let j := if i < 0 then i + n else i
  if j < 0 ∨ j ≥ n then exc else
  match l[j.toNat]? with
  | some x => .ok x
  | none => exc

def Tens.dims (t : Tens) : Except String (List Int) :=
  t.shape.mapM fun d => match d with | some x => .ok x | none => exc

def Tens.rank (t : Tens) : Nat := t.shape.length
def Tens.isScalarShape (t : Tens) : Bool := t.shape.isEmpty
def Tens.hasValues (t : Tens) : Bool := match t.vals with | .none => false | _ => true
def Tens.elementSize (t : Tens) : Nat := if t.elemBytes == 0 then t.bits / 8 else t.elemBytes
def Tens.isSigned (t : Tens) : Bool := t.tflags % 2 == 1
def Tens.isUnsigned (t : Tens) : Bool := (t.tflags / 2) % 2 == 1
def Tens.isIntType (t : Tens) : Bool := (t.tflags / 8) % 2 == 1

def Tens.intVals (t : Tens) : Except String (List Int) :=
  match t.vals with
  | .ints l => .ok l
  | .none => exc
  | .big => .error "unmodelled:values-not-transmitted"

def prodInt (l : List Int) : Int := l.foldl (· * ·) 1

/-- `full_shape(4, shape, 1)` -/
def fullShape4 (s : List Int) : List Int := List.replicate (4 - s.length) 1 ++ s

def inRange (r : Int × Int) (x : Int) : Bool := decide (r.1 ≤ x) && decide (x ≤ r.2)

-- IEEE binary32 classification on bit patterns
def f32Exp (b : Nat) : Nat := (b / 2 ^ 23) % 256
def f32Man (b : Nat) : Nat := b % 2 ^ 23
def f32Neg (b : Nat) : Bool := (b / 2 ^ 31) % 2 == 1
def f32IsInf (b : Nat) : Bool := f32Exp b == 255 && f32Man b == 0
def f32IsNan (b : Nat) : Bool := f32Exp b == 255 && f32Man b != 0
def f32IsZero (b : Nat) : Bool := f32Exp b == 0 && f32Man b == 0
/-- `x < np.finfo(np.float32).tiny` (tiny = 2^-126, the smallest normal): false for NaN, true for
    every negative non-NaN value, for zeros and for subnormals -/
def f32LtTiny (b : Nat) : Bool :=
  if f32IsNan b then false else if f32Neg b then true else f32Exp b == 0
/-- magnitude as `m * 2^(e-149)` with integer `m`: (m, e) -/
def f32Mag (b : Nat) : Nat × Nat :=
  if f32Exp b == 0 then (f32Man b, 1) else (2 ^ 23 + f32Man b, f32Exp b)
/-- is the binary32 quotient `a / b` infinite?  (IEEE round-to-nearest-even: the exact quotient is at
    least `(2 - 2^-24) * 2^127`, or a division of a non-zero/infinite value by zero, or inf / finite) -/
def f32DivIsInf (a b : Nat) : Bool :=
  if f32IsNan a || f32IsNan b then false
  else if f32IsInf a then !(f32IsInf b)
  else if f32IsInf b then false
  else if f32IsZero b then !(f32IsZero a)
  else
    let (ma, ea) := f32Mag a
    let (mb, eb) := f32Mag b
    -- ma*2^ea / (mb*2^eb) ≥ (2^25 - 1) * 2^(127-24) = (2^25-1) * 2^103  (common 2^-149 cancels)
    decide (ma * 2 ^ (ea + 200) ≥ (2 ^ 25 - 1) * 2 ^ 103 * mb * 2 ^ (eb + 200))

-- ------------------------------------------------------------------------------------------------
-- Operation accessors

def opRow (d : OpDesc) : Option OpRow := opRows.find? (·.name == d.type)

def getInput (d : OpDesc) (idxs : List Nat) (ix : Nat) : Option Tens :=
  match idxs[ix]? with
  | none => none
  | some i => (d.inputs[i]?).join

def ifm (d : OpDesc) : Option Tens := (opRow d).bind fun r => getInput d r.ifms 0
def ifm2 (d : OpDesc) : Option Tens := (opRow d).bind fun r => getInput d r.ifms 1
def weights (d : OpDesc) : Option Tens := (opRow d).bind fun r => getInput d r.weights 0
def bias (d : OpDesc) : Option Tens := (opRow d).bind fun r => getInput d r.biases 0
def ofm (d : OpDesc) : Option Tens := match d.outputs with | [] => none | o :: _ => o
def blockType (d : OpDesc) : Name := ((opRow d).map (·.block)).getD n!"Default"

/-- `op.inputs[i]`: IndexError → exc; a `None` entry → `.ok none` -/
def inputAt (d : OpDesc) (i : Nat) : Except String (Option Tens) :=
  match d.inputs[i]? with | some t => .ok t | none => exc
/-- `op.inputs[i].<attribute>`: AttributeError on None -/
def inputAt! (d : OpDesc) (i : Nat) : Except String Tens := do
  match ← inputAt d i with | some t => .ok t | none => exc

def need (o : Option Tens) : Except String Tens := match o with | some t => .ok t | none => exc

def attr? (d : OpDesc) (k : Name) : Option AttrV := (d.attrs.find? (·.1 == k)).map (·.2)
def attrInt (d : OpDesc) (k : Name) (dflt : Int) : Except String Int :=
  match attr? d k with
  | none => .ok dflt
  | some (.int i) => .ok i
  | some (.bool b) => .ok (if b then 1 else 0)
  | some _ => .error "unmodelled:attr-type"
/-- `op.attrs[k]` (KeyError when absent) -/
def attrInt! (d : OpDesc) (k : Name) : Except String Int :=
  match attr? d k with
  | some (.int i) => .ok i
  | some (.bool b) => .ok (if b then 1 else 0)
  | none => exc
  | some _ => .error "unmodelled:attr-type"
def attrBool (d : OpDesc) (k : Name) (dflt : Bool) : Except String Bool :=
  match attr? d k with
  | none => .ok dflt
  | some (.bool b) => .ok b
  | some (.int i) => .ok (i != 0)
  | some _ => .error "unmodelled:attr-type"

/-- `get_kernel_stride` → (w, h) -/
def kernelStride (d : OpDesc) : Except String (Int × Int) :=
  match attr? d n!"strides" with
  | some (.ints [_, h, w, _]) => .ok (w, h)
  | some (.ints _) => exc
  | some _ => .error "unmodelled:attr-type"
  | none => do .ok (← attrInt d n!"stride_w" 1, ← attrInt d n!"stride_h" 1)

def kernelDilation (d : OpDesc) : Except String (Int × Int) :=
  match attr? d n!"dilation" with
  | some (.ints [_, h, w, _]) => .ok (w, h)
  | some (.ints _) => exc
  | some _ => .error "unmodelled:attr-type"
  | none => do .ok (← attrInt d n!"dilation_w_factor" 1, ← attrInt d n!"dilation_h_factor" 1)

/-- `get_kernel_size` → (w, h) -/
def kernelSize (d : OpDesc) : Except String (Int × Int) := do
  let bt := blockType d
  match weights d with
  | some w =>
    if bt == n!"ConvolutionDepthWise" || bt == n!"ConvolutionMxN" then
      let s := fullShape4 (← w.dims)
      return (← pyIdx s (-3), ← pyIdx s (-4))
    else kernelSizeAttrs bt
  | none => kernelSizeAttrs bt
where
  kernelSizeAttrs (bt : Name) : Except String (Int × Int) :=
    match (if bt == n!"Pooling" || bt == n!"ReduceSum" then attr? d n!"ksize" else none) with
    | some (.ints (_ :: h :: w :: _)) => .ok (w, h)
    | some _ => exc
    | none => do .ok (← attrInt d n!"filter_width" 1, ← attrInt d n!"filter_height" 1)

structure Kern where
  w : Int
  h : Int
  sx : Int
  sy : Int
  dx : Int
  dy : Int

/-- `op.kernel` (the `Kernel` constructor asserts positive strides and dilations) -/
def kernel (d : OpDesc) : Except String Kern := do
  let (w, h) ← kernelSize d
  let (sx, sy) ← kernelStride d
  let (dx, dy) ← kernelDilation d
  if sx > 0 ∧ sy > 0 ∧ dx > 0 ∧ dy > 0 then .ok ⟨w, h, sx, sy, dx, dy⟩ else exc

def Kern.areaW (k : Kern) : Int := (k.w - 1) * k.dx + 1
def Kern.areaH (k : Kern) : Int := (k.h - 1) * k.dy + 1

def paddingIs (d : OpDesc) (p : Name) : Except String Bool :=
  match attr? d n!"padding" with
  | some (.str s) => .ok (s == p)
  | none => exc
  | some _ => .error "unmodelled:attr-type"

/-- `[t for t in op.get_ifm_ifm2_weights_ofm() if t]` or, when empty, `[t for t in op.inputs if t]` -/
def mainTensors (d : OpDesc) : List Tens :=
  let l := [ifm d, ifm2 d, weights d, ofm d].filterMap id
  if l.isEmpty then d.inputs.filterMap id else l
def iiwoTensors (d : OpDesc) : List Tens := [ifm d, ifm2 d, weights d, ofm d].filterMap id
def inOutTensors (d : OpDesc) : List Tens := (d.inputs ++ d.outputs).filterMap id

def opSet (sets : List (Name × List Name)) (name : Name) : List Name :=
  ((sets.find? (·.1 == name)).map (·.2)).getD []
def dtypeSet (name : Name) : List Name := opSet supDtypeSets name

def Quant.isPerAxis (q : Quant) : Bool :=
  (match q.scales with | some l => decide (l.length > 1) | none => false) ||
  (match q.zps with | some l => decide (l.length > 1) | none => false) || q.minMaxMulti

def Quant.isValid (q : Quant) : Bool := q.scales.isSome && q.zps.isSome

/-- `tens.is_quantized()` -/
def Tens.isQuantized (t : Tens) : Bool :=
  match t.quant with | some q => t.isIntType && q.isValid | none => false

/-- `check_quantized_tens_scaling_equal(a, b)`; comparing arrays of more than one element in a
    boolean context raises in NumPy → only per-tensor parameters are modelled -/
def scalingEqual (a b : Tens) : R :=
  if !(a.isQuantized && b.isQuantized) then .ok false else
  match a.quant, b.quant with
  | some qa, some qb =>
    match qa.scales, qb.scales, qa.zps, qb.zps with
    | some [sa], some [sb], some [za], some [zb] =>
      -- float equality: NaN ≠ NaN, +0 = -0
      let seq := if f32IsNan sa || f32IsNan sb then false
                 else if f32IsZero sa && f32IsZero sb then true else sa == sb
      .ok (seq && za == zb)
    | _, _, _, _ => .error "unmodelled:per-axis-compare"
  | _, _ => .ok false


/-- Everything numeric or set-valued that a constraint compares against.  `liveParams` takes the
    values from the regenerated tables (and, for the handful of bounds that are literals inside a
    constraint function, from the transcription); `Spec/Constraints.lean` builds a second instance
    from the text of the generated report. -/
structure Params where
  tensDim : Int × Int
  stride : Int × Int
  dilH : Int × Int
  dilProd : Int × Int
  weightsLimit : Int
  filter : Int × Int
  filterH : Int × Int
  filterProd : Int × Int
  meanMax : Int
  meanInt8 : Int
  meanUint8 : Int
  meanInt16 : Int
  /-- `str(DataType)` names, sorted -/
  opDtypes : List Name
  fafDtypes : List Name
  biasDtypes : List Name
  padDtypes : List Name
  /-- internal operator type names -/
  int32Ops : List Name
  perAxisOps : List Name
  fafOps : List Name
  shapelessOps : List Name
  -- literals of the function bodies
  /-- `constraint_depthwise_conv_stride`: `stride_min, stride_max = 1, 3` -/
  dwStride : Int × Int
  /-- `constraint_stride_width_no_upper_limit`: `stride_min`, `stride_max_h` -/
  convStrideH : Int × Int
  /-- same function: `stride_min <= stride_w` and `optimized_stride <= 3` -/
  convStrideW : Int × Int
  /-- `calc_resize_factor`: `hw_supported_strides` -/
  hwStrides : List Int
  /-- `constraint_stride_range_no_padding`: `w <= 3` -/
  avgStrideNoPad : Int
  /-- `constraint_bias_40bit` -/
  biasBits : Nat
  /-- `constraint_argmax_depth` -/
  argmaxDepth : Int
  /-- `constraint_tens_shape_size` -/
  maxRank : Nat
deriving Repr, DecidableEq, Inhabited

-- ------------------------------------------------------------------------------------------------
-- TFLiteSupportedOperators constraints

namespace Sup

def tens_dtype (P : Params) (d : OpDesc) : R :=
  .ok ((mainTensors d).all fun t => P.opDtypes.contains t.dtype)

def tens_int32_ops (P : Params) (d : OpDesc) : R :=
  .ok ((mainTensors d).all fun t =>
    !(t.dtype == n!"int32" && !P.int32Ops.contains d.type))

def tens_dimension (P : Params) (d : OpDesc) : R := do
  let ts ← (mainTensors d).mapM (·.dims)
  return ts.all fun s => s.all (inRange P.tensDim)

/-- repair C13-24: for the per-axis operator types only the weights may be quantised per axis, not IFM / IFM2 / OFM -/
def tens_quant_per_axis (P : Params) (d : OpDesc) : R :=
  let ts := if P.perAxisOps.contains d.type then [ifm d, ifm2 d, ofm d].filterMap id else iiwoTensors d
  .ok (ts.all fun t => match t.quant with | some q => !q.isPerAxis | none => true)

def batch_size (P : Params) (d : OpDesc) : R := do
  let chk (o : Option Tens) : R := match o with
    | none => .ok true
    | some t => do
      let s ← t.dims
      match fullShape4 s with
      | b :: _ => .ok (b == 1)
      | [] => exc
  -- repair C01-21: the OFM is checked as well (`for tens in (op.ifm, op.ifm2, op.ofm)`)
  return (← chk (ifm d)) && (← chk (ifm2 d)) && (← chk (ofm d))

def faf (P : Params) (d : OpDesc) : R :=
  match d.act with
  | none => .ok true
  | some a => .ok (P.fafOps.contains a)

def faf_type (P : Params) (d : OpDesc) : R :=
  match d.act with
  | none => .ok true
  | some _ => do return P.fafDtypes.contains (← need (ofm d)).dtype

def stride_range (P : Params) (d : OpDesc) : R := do
  let (w, h) ← kernelStride d
  return inRange P.stride w && inRange P.stride h

def dilated_height_range (P : Params) (d : OpDesc) : R := do
  return inRange P.dilH (← kernel d).areaH

def dilated_product_range (P : Params) (d : OpDesc) : R := do
  let k ← kernel d
  return inRange P.dilProd (k.areaW * k.areaH)

def weights_type (P : Params) (d : OpDesc) : R := do return (← need (weights d)).elementSize == 1
def weights_symmetric (P : Params) (d : OpDesc) : R := do
  let i ← need (ifm d)
  let w ← need (weights d)
  if i.dtype == n!"int8" || i.dtype == n!"int16" then
    match w.quant with
    | some q => match q.zps with
      | some z => return z.all (· == 0)
      | none => return false          -- `np.all(None == 0)` is False
    | none => return true
  else return true

def weights_const (P : Params) (d : OpDesc) : R := do return (← need (weights d)).hasValues

/-- `np.amax(np.sum(np.absolute(values - zero_point), axis=(0, 1, 2))) <= weights_limit` -/
def weights_limit (P : Params) (d : OpDesc) : R := do
  let w ← need (weights d)
  let vs ← w.intVals
  let s ← w.dims
  if s.length != 4 then exc else
  let oc := (← pyIdx s 3).toNat
  if oc == 0 ∨ vs.isEmpty then exc else
  let q ← match w.quant with | some q => pure q | none => exc
  let zps ← match q.zps with | some z => pure z | none => exc
  -- NumPy broadcasting of the zero point vector against the last axis
  if zps.length != 1 ∧ zps.length != oc ∧ oc != 1 then exc else
  if zps.isEmpty then exc else
  let chans := max oc zps.length
  let sums : List Int := (List.range chans).map fun c =>
    let z := if zps.length == 1 then zps.headD 0 else zps.getD c 0
    (vs.zipIdx.foldl (fun acc (v, i) => if i % oc == c % oc then acc + (v - z).natAbs else acc) 0 : Int)
  return decide (sums.foldl max 0 ≤ P.weightsLimit)

def bias_shape (P : Params) (d : OpDesc) : R :=
  match bias d with | some b => .ok (b.rank == 1) | none => .ok true

def bias_type (P : Params) (d : OpDesc) : R :=
  match bias d with | some b => .ok (P.biasDtypes.contains b.dtype) | none => .ok true

/-- `len(bin(value)[2:])`: binary digits, plus one for the `b` left over from `-0b…` (what the constraint counted before
    repair C13-27; kept for the witness theorems about the old criterion) -/
def binLen (v : Int) : Nat := if v < 0 then Nat.log2 v.natAbs + 2 else if v == 0 then 1 else Nat.log2 v.natAbs + 1

/-- the signed `bits`-bit range, `-(1 << (bits-1)) <= v < (1 << (bits-1))` (repair C13-27: what `encode_bias` asserts) -/
def fitsSigned (bits : Nat) (v : Int) : Bool :=
  decide (-(2 ^ (bits - 1) : Int) ≤ v) && decide (v < (2 ^ (bits - 1) : Int))

def bias_40bit (P : Params) (d : OpDesc) : R :=
  match bias d with
  | some b =>
    if b.dtype == n!"int64" && b.hasValues then do
      return (← b.intVals).all fun v => fitsSigned P.biasBits v
    else .ok true
  | none => .ok true

def depth_multiplier (P : Params) (d : OpDesc) : R := do
  let m ← attrInt d n!"depth_multiplier" 1
  if m > 1 then
    let ic ← pyIdx (← (← need (ifm d)).dims) 3
    let oc ← pyIdx (← (← need (ofm d)).dims) 3
    return ic == 1 && oc == m
  else return true

/-- `calc_resize_factor(ifm_width, stride_x)[1]` -/
def optimisedStride (P : Params) (ifmW strideX : Int) : Except String Int :=
  if strideX == 0 then exc else
  if ifmW % strideX != 0 then
    let cands := P.hwStrides.filter fun (x : Int) => strideX % x == 0 && ifmW % (strideX / x) == 0
    let nrf := strideX / (cands.headD 1)
    let rf := if strideX != nrf then nrf else 1
    .ok (strideX / rf)
  else .ok (strideX / strideX)

def stride_width_no_upper_limit (P : Params) (d : OpDesc) : R := do
  let (sw, sh) ← kernelStride d
  let ifmW ← pyIdx (← (← need (ifm d)).dims) 2
  let os ← (← need (ofm d)).dims
  let ofmH ← pyIdx os 1
  let ofmW ← pyIdx os 2
  let hValid := ofmH == 1 || inRange P.convStrideH sh
  let opt ← if sw > 1 then optimisedStride P ifmW sw else pure sw
  let wValid := ofmW == 1 || (decide (P.convStrideW.1 ≤ sw) && decide (opt ≤ P.convStrideW.2))
  return hValid && wValid

def stride_range_no_padding (P : Params) (d : OpDesc) : R := do
  let (w, _) ← kernelStride d
  let v ← stride_width_no_upper_limit P d
  let padOk := match attr? d n!"padding" with
    | none => true
    | some (.str s) => s == n!"VALID"
    | some .none => true
    | some _ => false
  return v && (padOk || decide (w ≤ P.avgStrideNoPad))

def depthwise_conv_stride (P : Params) (d : OpDesc) : R := do
  let (w, h) ← kernelStride d
  return inRange P.dwStride w && inRange P.dwStride h

def tconv_stride (P : Params) (d : OpDesc) : R := do
  let k ← kernel d
  let ih ← pyIdx (← (← need (ifm d)).dims) 1
  return (k.sx == 1 && k.sy == 1) || (k.sx == 2 && k.sy == 2) || (k.sx == 2 && k.sy == 1 && ih == 1 && k.h == 1)

def tconv_same (P : Params) (d : OpDesc) : R := do
  if ← paddingIs d n!"SAME" then
    let k ← kernel d
    let i ← (← need (ifm d)).dims
    let o ← (← need (ofm d)).dims
    return (← pyIdx o 1) == (← pyIdx i 1) * k.sy && (← pyIdx o 2) == (← pyIdx i 2) * k.sx
  else return true

def tconv_valid (P : Params) (d : OpDesc) : R := do
  if ← paddingIs d n!"VALID" then
    let k ← kernel d
    let i ← (← need (ifm d)).dims
    let o ← (← need (ofm d)).dims
    return (← pyIdx o 1) == (← pyIdx i 1) * k.sy + max (k.h - k.sy) 0 &&
           (← pyIdx o 2) == (← pyIdx i 2) * k.sx + max (k.w - k.sx) 0
  else return true

def filter_range (P : Params) (d : OpDesc) : R := do
  if ← paddingIs d n!"SAME" then
    let (sw, _) ← kernelStride d
    let k ← kernel d
    return (inRange P.filter k.w || sw == k.w) && inRange P.filter k.h
  else return true

def filter_height_range (P : Params) (d : OpDesc) : R := do return inRange P.filterH (← kernel d).h
def filter_product_range (P : Params) (d : OpDesc) : R := do
  let k ← kernel d
  return inRange P.filterProd (k.w * k.h)
def filter_height_range_valid_pad (P : Params) (d : OpDesc) : R := do
  if ← paddingIs d n!"VALID" then filter_height_range P d else return true
def filter_product_range_valid_pad (P : Params) (d : OpDesc) : R := do
  if ← paddingIs d n!"VALID" then filter_product_range P d else return true

/-- float quotients compared with 2.0/4.0/8.0: exact for the integer sizes concerned -/
def resize (P : Params) (d : OpDesc) : R := do
  let i ← (← need (ifm d)).dims
  let o ← (← need (ofm d)).dims
  let ih ← pyIdx i 1; let iw ← pyIdx i 2
  let oh ← pyIdx o 1; let ow ← pyIdx o 2
  let ac ← attrBool d n!"align_corners" false
  if i.length != 4 then return false
  if (ih == 1 && iw == 1) || i == o then return true
  -- repair C13-22: with align_corners a dimension of size 1 has no scaling (0/0); answered "not supported" without dividing
  if ac && (ih == 1 || iw == 1) then return false
  let (nh, dh, nw, dw) := if ac then (oh - 1, ih - 1, ow - 1, iw - 1) else (oh, ih, ow, iw)
  if dh == 0 ∨ dw == 0 then exc else
  -- int(h_upscale_factor) is stored as an attribute; nothing can raise once the divisors are non-zero
  return [2, 4, 8].any fun (k : Int) => nh == k * dh && nw == k * dw

def resize_size (P : Params) (d : OpDesc) : R := do
  let o ← (← need (ofm d)).dims
  if d.inputs.length != 2 then return false
  match d.inputs[1]? with
  | some (some s) =>
    -- `len(None)` raises
    let vs ← s.intVals
    if s.rank == 0 then exc else
    if vs.length != 2 then
      -- len() of the first axis; only rank-1 size tensors are modelled
      if s.rank == 1 then return false else .error "unmodelled:size-tensor-rank"
    else if s.rank != 1 then .error "unmodelled:size-tensor-rank" else
    return vs[0]! == (← pyIdx o 1) && vs[1]! == (← pyIdx o 2)
  | _ => return false

def resize_attrs (P : Params) (d : OpDesc) : R := do
  return !((← attrBool d n!"align_corners" false) && (← attrBool d n!"half_pixel_centers" false))

def resizebi_half_pixel_centers_dims (P : Params) (d : OpDesc) : R := do
  if !(← attrBool d n!"half_pixel_centers" false) then return true
  let i ← (← need (ifm d)).dims
  if i.length ≥ 3 then
    let o ← (← need (ofm d)).dims
    -- `shape[-3:-1]` unpacked into two names
    if o.length < 3 then exc else
    let ih ← pyIdx i (-3); let iw ← pyIdx i (-2)
    let oh ← pyIdx o (-3); let ow ← pyIdx o (-2)
    if ih == 1 && iw == 1 then return true
    if ih == 0 ∨ iw == 0 then exc else
    return oh == 2 * ih && ow == 2 * iw
  else return false

def pad_shape (P : Params) (d : OpDesc) : R := do
  let s ← (← inputAt! d 1).dims
  return s == [3, 2] || s == [4, 2]

def pad_type (P : Params) (d : OpDesc) : R := do
  return P.padDtypes.contains (← inputAt! d 1).dtype

/-- defined in the class, not in any list of the unchanged tree (the committed SUPPORTED_OPS.md still names it) -/
def padding_dimensions (P : Params) (d : OpDesc) : R := do
  let p ← inputAt! d 1
  let vs ← p.intVals
  match ← p.dims with
  | [n, 2] =>
    if n ≤ 0 ∨ vs.length != (2 * n).toNat then exc else
    let k := n.toNat
    let lastOk := vs.getD (2 * k - 2) 0 + vs.getD (2 * k - 1) 0 == 0
    return if lastOk && k > 3 then vs.getD 0 0 + vs.getD 1 0 == 0 else lastOk
  | _ => .error "unmodelled:pad-tensor-shape"

def stridedslice_stride_values (P : Params) (d : OpDesc) : R := do
  let s ← inputAt! d 3
  return (← s.intVals).all (· == 1)

def stridedslice_offset_false (P : Params) (d : OpDesc) : R :=
  match attr? d n!"offset" with
  | none => .ok true
  | some (.bool b) => .ok (!b)
  | some _ => .ok false

def inputs_int32 (P : Params) (d : OpDesc) : R := do
  return (← need (ifm d)).dtype == n!"int32" && (← need (ifm2 d)).dtype == n!"int32"
def output_int32 (P : Params) (d : OpDesc) : R := do return (← need (ofm d)).dtype == n!"int32"
def rsqrt_input_int8 (P : Params) (d : OpDesc) : R := do return (← need (ifm d)).dtype == n!"int8"

def matching_quantization_parameters (P : Params) (d : OpDesc) : R := do
  let o ← need (ofm d)
  let a ← scalingEqual o (← need (ifm d))
  let b ← match ifm2 d with | some t => scalingEqual o t | none => pure true
  return a && b

def broadcast_shapes (P : Params) (d : OpDesc) : R := do
  let i ← (← need (ifm d)).dims
  match ifm2 d with
  | none => return true
  | some t2 =>
    let i2 ← t2.dims
    let o ← (← need (ofm d)).dims
    let size := min i.length i2.length
    -- `x[-size:]`; with size 0 Python's `x[-0:]` is the whole list
    let tail (l : List Int) := if size == 0 then l else l.drop (l.length - size)
    let zs := (tail i).zip ((tail i2).zip (tail o))
    return zs.all fun (a, b, c) => (a == b || a == 1 || b == 1) && c == max a b

/-- reduction axes of MEAN: `[int(values)]` for a scalar axis tensor, else `list(values)` -/
def meanAxes (d : OpDesc) : Except String (List Int) := do (← inputAt! d 1).intVals

def mean_height_width_product (P : Params) (d : OpDesc) : R := do
  let shape ← (← inputAt! d 0).dims
  let axes ← meanAxes d
  let p := prodInt (← axes.mapM (pyIdx shape))
  let i ← need (ifm d)
  let mx := if i.dtype == n!"int16" then P.meanInt16
            else if i.dtype == n!"uint8" then P.meanUint8 else P.meanInt8
  return decide (p ≤ mx)

def mean_width (P : Params) (d : OpDesc) : R := do
  let shape ← (← inputAt! d 0).dims
  let hi := if shape.length < 4 then 0 else 1
  match shape.drop hi with
  | _ :: w :: _ => return decide (w ≤ P.meanMax)
  | _ => exc

def mean_depth (P : Params) (d : OpDesc) : R := do
  let shape ← (← inputAt! d 0).dims
  let axes ← meanAxes d
  let depthIdx : Int := shape.length - 1
  let last ← pyIdx shape (-1)
  return !(axes.contains depthIdx && decide (last > P.meanMax))

def reshape_shape_constant (P : Params) (d : OpDesc) : R :=
  if d.inputs.length > 1 then
    match d.inputs[1]? with
    | some (some t) => .ok (t.prod != .other)
    | _ => .ok true
  else .ok true

def argmax_axis (P : Params) (d : OpDesc) : R := do
  let n : Int := (← inputAt! d 0).rank
  match ← (← inputAt! d 1).intVals with
  | [a] => return a == n - 1 || a == -1
  | _ => .error "unmodelled:axis-array"

def argmax_depth (P : Params) (d : OpDesc) : R := do
  return decide ((← pyIdx (← (← inputAt! d 0).dims) (-1)) ≤ P.argmaxDepth)

def slice_inputs_const (P : Params) (d : OpDesc) : R :=
  match d.inputs with
  | [_, some b, some s] => .ok (b.hasValues && s.hasValues)
  | _ => exc

def transpose (P : Params) (d : OpDesc) : R := do
  let shape ← (← inputAt! d 0).dims
  let perm ← inputAt! d 1
  let ps ← perm.dims
  -- `perm.values[i]` is only evaluated on the paths below (TypeError when the values are None)
  let pv (i : Int) : Except String Int := do pyIdx (← perm.intVals) i
  -- (repair C01-46: rank 2 is accepted for the constant permutation [1, 0] only)
  if shape.length == 2 && perm.hasValues then
    if (← perm.intVals) == [1, 0] then return true
  if ps == [3] then
    if (← pv 0) == 1 && (← pv 1) == 0 then return true
    if (← pyIdx shape 0) == 1 then
      if (← pv 1) == 2 && (← pv 2) == 1 then return true
    if (← pyIdx shape 1) == 1 then
      if (← pv 0) == 2 && (← pv 2) == 0 then return true
    return false
  if ps == [4] then
    if (← pv 0) == 0 && (← pv 1) == 2 && (← pv 2) == 1 then return true
    if (← pyIdx shape 1) == 1 then
      if (← pv 0) == 0 && (← pv 2) == 3 && (← pv 3) == 2 then return true
    if (← pyIdx shape 2) == 1 then
      if (← pv 0) == 0 && (← pv 1) == 3 && (← pv 3) == 1 then return true
    return false
  return false

end Sup

-- ------------------------------------------------------------------------------------------------
-- TFLiteSemantic constraints

namespace Sem

def attributes_specified (P : Params) (d : OpDesc) : R :=
  match attr? d n!"attribute_read_error" with
  | none => .ok true
  | some (.ints l) => .ok l.isEmpty          -- the descriptor carries the list length as `[n]`-free list of n zeros
  | some _ => .error "unmodelled:attr-type"

def tens_no_dynamic (P : Params) (d : OpDesc) : R :=
  .ok ((inOutTensors d).all fun t => !(t.isScalarShape && !t.hasValues))

def tens_defined_shape (P : Params) (d : OpDesc) : R :=
  .ok ((inOutTensors d).all fun t => t.shape.all (·.isSome))

def tens_output_scalar (P : Params) (d : OpDesc) : R := do return !(← need (ofm d)).isScalarShape

def tens_input_scalar (P : Params) (d : OpDesc) : R :=
  .ok ((d.inputs.filterMap id).all fun t =>
    !(t.isScalarShape && !P.shapelessOps.contains d.type))

def tens_shape_size (P : Params) (d : OpDesc) : R := .ok ((inOutTensors d).all fun t => t.rank ≤ P.maxRank)

def tens_quant_none_check (P : Params) (d : OpDesc) : R := .ok ((iiwoTensors d).all fun t => t.quant.isSome)

def tens_quant_scale (P : Params) (d : OpDesc) : R :=
  .ok ((iiwoTensors d).all fun t => match t.quant with
    | some q => (match q.scales with | some l => !(l.any f32IsInf) | none => true)
    | none => true)

def quant_scale_inf (P : Params) (d : OpDesc) : R :=
  match ofm d with
  | some o =>
    if o.isQuantized then
      match o.quant.bind (·.scales) with
      | some os =>
        if os.any f32LtTiny then .ok false else
        match ifm d with
        | some i =>
          if i.isQuantized then
            match i.quant.bind (·.scales) with
            | some is_ =>
              -- NumPy broadcasting of the two scale vectors: equal lengths or one of them a scalar
              if is_.length == os.length then .ok (!((is_.zip os).any fun (a, b) => f32DivIsInf a b))
              else if is_.length == 1 then .ok (!(os.any fun b => f32DivIsInf (is_.headD 0) b))
              else if os.length == 1 then .ok (!(is_.any fun a => f32DivIsInf a (os.headD 0)))
              else exc
            | none => .ok true
          else .ok true
        | none => .ok true
      | none => .ok true
    else .ok true
  | none => .ok true

def none_const_tensors (P : Params) (d : OpDesc) : R :=
  .ok ((d.inputs.filterMap id).all fun t => !(t.prod == .constOp && !t.hasValues))

/-- only integer strides / dilations / filter sizes can be written in a descriptor: `is_integer` holds -/
def stride_type (P : Params) (d : OpDesc) : R := do let _ ← kernelStride d; return true
def dilation_type (P : Params) (d : OpDesc) : R := do let _ ← kernelDilation d; return true
def filter_type (P : Params) (d : OpDesc) : R := do let _ ← kernel d; return true

def conv_groups_ifm_depth (P : Params) (d : OpDesc) : R := do
  let ic ← pyIdx (← (← need (ifm d)).dims) (-1)
  let kic ← pyIdx (← (← need (weights d)).dims) (-2)
  if kic == 0 then exc else return ic % kic == 0

def conv_groups_num_filters (P : Params) (d : OpDesc) : R := do
  let ic ← pyIdx (← (← need (ifm d)).dims) (-1)
  let ws ← (← need (weights d)).dims
  let kic ← pyIdx ws (-2)
  let koc ← pyIdx ws (-1)
  if kic == 0 then exc else
  let g := Int.fdiv ic kic
  if g == 0 then exc else return Int.fmod koc g == 0

def matching_in_out_types (P : Params) (d : OpDesc) : R := do
  return (← need (ifm d)).dtype == (← need (ofm d)).dtype

def beta_value_range (P : Params) (d : OpDesc) : R :=
  match attr? d n!"beta" with
  | none => .ok true
  | some (.flt b) =>
    -- beta >= 0 on a binary64: NaN is not, -0.0 is
    let e := (b / 2 ^ 52) % 2048
    let m := b % 2 ^ 52
    let neg := (b / 2 ^ 63) % 2 == 1
    .ok (if e == 2047 && m != 0 then false else if neg then e == 0 && m == 0 else true)
  | some (.int i) => .ok (decide (i ≥ 0))
  | some _ => .error "unmodelled:attr-type"

def matching_shapes (P : Params) (d : OpDesc) : R := do return (← need (ifm d)).shape == (← need (ofm d)).shape

/-- axis of SPLIT: scalar or first element -/
def splitAxis (d : OpDesc) : Except String (Int × Int) := do
  let a ← inputAt! d 0
  let x ← inputAt! d 1
  let dims : Int := x.rank
  match ← a.intVals with
  | v :: _ => return ((if v < 0 then v + dims else v), dims)
  | [] => exc

def split_axis (P : Params) (d : OpDesc) : R := do
  let (a, dims) ← splitAxis d
  return decide (0 ≤ a) && decide (a < dims)

def split_num_splits (P : Params) (d : OpDesc) : R := do
  let (a, _) ← splitAxis d
  let x ← inputAt! d 1
  let n ← match attr? d n!"num_splits" with | some (.int n) => pure n | _ => exc
  let s ← pyIdx (← x.dims) a
  if n == 0 then exc else return Int.fmod s n == 0

def axis_exists (P : Params) (d : OpDesc) : R :=
  match attr? d n!"axis" with | none => .ok false | some .none => .ok false | some _ => .ok true

def concatAxis (d : OpDesc) : Except String (Int × Int) := do
  let dims : Int := (← need (ofm d)).rank
  let a ← attrInt! d n!"axis"
  return ((if a < 0 then a + dims else a), dims)

def axis_valid (P : Params) (d : OpDesc) : R := do
  let (a, dims) ← concatAxis d
  return decide (0 ≤ a) && decide (a < dims)

def matching_dimensionality (P : Params) (d : OpDesc) : R := do
  let n := (← need (ofm d)).rank
  return (d.inputs.filterMap id).all fun t => t.rank == n

def valid_dimensions (P : Params) (d : OpDesc) : R := do
  let o ← (← need (ofm d)).dims
  let (a, _) ← concatAxis d
  let ok ← (d.inputs.filterMap id).mapM fun t => do
    let s ← t.dims
    let cmp ← (List.range o.length).mapM fun (i : Nat) =>
      if (i : Int) == a then pure true else do return (← pyIdx s (i : Int)) == (← pyIdx o (i : Int))
    return cmp.all id
  return ok.all id

def valid_dimensions_axis (P : Params) (d : OpDesc) : R := do
  let o ← (← need (ofm d)).dims
  let (a, _) ← concatAxis d
  let parts ← (d.inputs.filterMap id).mapM fun t => do pyIdx (← t.dims) a
  return parts.foldl (· + ·) 0 == (← pyIdx o a)

def stridedslice_input_count (P : Params) (d : OpDesc) : R := .ok (d.inputs.length == 4)
def pad_input_count (P : Params) (d : OpDesc) : R := .ok (d.inputs.length == 2)
def pad_constant (P : Params) (d : OpDesc) : R := do return (← inputAt! d 1).hasValues

def pad_output_shape (P : Params) (d : OpDesc) : R := do
  let i ← (← inputAt! d 0).dims
  let o ← match d.outputs[0]? with | some (some t) => t.dims | _ => exc
  let p ← inputAt! d 1
  let vs ← p.intVals
  let ps ← p.dims
  -- the pad tensor is [n, 2]; `input_shape + pad.T[0] + pad.T[1]` needs n == rank(input)
  match ps with
  | [n, 2] =>
    if n != i.length then exc else
    let before := (List.range i.length).map fun k => vs.getD (2 * k) 0
    let after := (List.range i.length).map fun k => vs.getD (2 * k + 1) 0
    let act := (i.zip (before.zip after)).map fun (x, b, a) => x + b + a
    return act == o
  | _ => .error "unmodelled:pad-tensor-shape"

def stridedslice_inputs_const (P : Params) (d : OpDesc) : R :=
  match d.inputs with
  | [_, some b, some e, some s] => .ok (b.hasValues && e.hasValues && s.hasValues)
  | _ => exc

def ellipsis_mask (P : Params) (d : OpDesc) : R := do return (← attrInt! d n!"ellipsis_mask") == 0
def axis_masks (P : Params) (d : OpDesc) : R := do
  return (← attrInt! d n!"new_axis_mask") == 0 || (← attrInt! d n!"shrink_axis_mask") == 0

def bitSet (mask : Int) (i : Nat) : Bool := (mask.toNat / 2 ^ i) % 2 == 1

/-- `TFLiteSemantic._get_slice_offsets` (with repair C01-45: an index that still lies outside the dimension after the
    negative-index conversion is clamped to it).  `vals`, `mask` and `newAxis` are indexed by position in the slice
    specification; a new-axis position consumes no input dimension; input dimensions beyond the specification keep the
    whole range. -/
def sliceOffsets (shape : List Int) (vals : List Int) (mask newAxis : Int) (isBegin : Bool) : List Int :=
  let init : List Int := if isBegin then shape.map (fun _ => 0) else shape
  let step (st : Nat × List Int) (sv : Int × Nat) : Nat × List Int :=
    if bitSet newAxis sv.2 then st
    else if st.1 ≥ shape.length then st
    else if !(bitSet mask sv.2) then
      let dim := shape.getD st.1 0
      let w := if sv.1 < 0 then sv.1 + dim else sv.1
      (st.1 + 1, st.2.set st.1 (min (max w 0) dim))
    else (st.1 + 1, st.2)
  (vals.zipIdx.foldl step (0, init)).2

def slice_ranges (P : Params) (d : OpDesc) : R := do
  match d.inputs with
  | [some x, some b, some e, _] =>
    let shape ← x.dims
    let shrink ← attrInt! d n!"shrink_axis_mask"
    let bm ← attrInt! d n!"begin_mask"
    let em ← attrInt! d n!"end_mask"
    let na ← attrInt! d n!"new_axis_mask"
    if shrink < 0 ∨ bm < 0 ∨ em < 0 ∨ na < 0 then .error "unmodelled:negative-mask" else
    let ob := sliceOffsets shape (← b.intVals) bm na true
    let oe := sliceOffsets shape (← e.intVals) em na false
    return (List.range shape.length).all fun i =>
      bitSet shrink i || decide (oe.getD i 0 > ob.getD i 0)
  | _ => exc

def matching_inputs_types (P : Params) (d : OpDesc) : R := do
  return (← need (ifm d)).dtype == (← need (ifm2 d)).dtype
def matching_signed (P : Params) (d : OpDesc) : R := do
  let i ← need (ifm d); let o ← need (ofm d)
  return if i.isSigned then o.isSigned else true
def unsigned_valid (P : Params) (d : OpDesc) : R := do
  let i ← need (ifm d); let o ← need (ofm d)
  return if i.isUnsigned then (i.dtype == o.dtype || o.dtype == n!"int32") else true
def input_signed (P : Params) (d : OpDesc) : R := do
  let i ← need (ifm d); return i.dtype == n!"int8" || i.dtype == n!"int16"
def input_8bit (P : Params) (d : OpDesc) : R := do
  let i ← need (ifm d); return i.dtype == n!"int8" || i.dtype == n!"uint8"
def argmax_output (P : Params) (d : OpDesc) : R := do
  let o ← need (ofm d); return o.dtype == n!"int32" || o.dtype == n!"int64"

def matching_either_shapes (P : Params) (d : OpDesc) : R := do
  let i ← need (ifm d); let o ← need (ofm d)
  return i.shape == o.shape || (match ifm2 d with | some t => t.shape == o.shape | none => false)

def fc_output_2d (P : Params) (d : OpDesc) : R := do
  let i ← need (ifm d)
  let n ← pyIdx (← (← need (weights d)).dims) (-2)
  let elms := prodInt (← i.dims)
  if n == 0 then exc else
  return (Int.fdiv elms n) * n == elms && !(i.rank == 1)

def keep_dim_ifm_ofm (P : Params) (d : OpDesc) : R := do
  if ← attrBool d n!"keep_num_dims" false then
    return (← need (ifm d)).rank == (← need (ofm d)).rank
  else return true

def mean_input_dims (P : Params) (d : OpDesc) : R := do
  let n := (← inputAt! d 0).rank
  return decide (2 ≤ n) && decide (n ≤ 4)

def mean_axis (P : Params) (d : OpDesc) : R := do
  let shape ← (← inputAt! d 0).dims
  let dims := shape.length
  let axes ← Sup.meanAxes d
  let rec go (as : List Int) : Bool :=
    match as with
    | [] => true
    | ax :: rest =>
      if ax < 0 ∨ ax ≥ dims then false
      else if dims == 4 ∧ ax == 0 ∧ shape.headD 1 != 1 then false
      else if dims == 3 ∧ ax == 2 ∧ !(shape.any (· == 1)) then false
      else if dims == 4 ∧ ax == 3 ∧ !((shape.drop 1).any (· == 1)) then false
      else go rest
  return go axes

def matching_in_out_quant (P : Params) (d : OpDesc) : R := do scalingEqual (← need (ifm d)) (← need (ofm d))
def matching_in_out_elements (P : Params) (d : OpDesc) : R := do
  return prodInt (← (← need (ifm d)).dims) == prodInt (← (← need (ofm d)).dims)

def splitv_inferred (P : Params) (d : OpDesc) : R := do
  return decide (((← (← inputAt! d 1).intVals).filter (· == -1)).length ≤ 1)

def transpose_permutation_size (P : Params) (d : OpDesc) : R := do
  let n := (← inputAt! d 0).rank
  let p ← (← inputAt! d 1).dims
  return p.length == 1 && p.headD 0 == n
def transpose_permutation_values (P : Params) (d : OpDesc) : R := do
  let n : Int := (← inputAt! d 0).rank
  let p ← inputAt! d 1
  if !p.hasValues then return false
  return !((← p.intVals).any fun v => v < 0 || v ≥ n)

end Sem

-- ------------------------------------------------------------------------------------------------
-- name → predicate

def supPreds : List (Name × (Params → OpDesc → R)) :=
  [ (n!"constraint_tens_dtype", Sup.tens_dtype), (n!"constraint_tens_int32_ops", Sup.tens_int32_ops),
    (n!"constraint_tens_dimension", Sup.tens_dimension), (n!"constraint_tens_quant_per_axis", Sup.tens_quant_per_axis),
    (n!"constraint_batch_size", Sup.batch_size), (n!"constraint_faf", Sup.faf), (n!"constraint_faf_type", Sup.faf_type),
    (n!"constraint_stride_range", Sup.stride_range), (n!"constraint_dilated_height_range", Sup.dilated_height_range),
    (n!"constraint_dilated_product_range", Sup.dilated_product_range), (n!"constraint_weights_type", Sup.weights_type),
    (n!"constraint_weights_const", Sup.weights_const), (n!"constraint_weights_symmetric", Sup.weights_symmetric), (n!"constraint_weights_limit", Sup.weights_limit),
    (n!"constraint_bias_shape", Sup.bias_shape), (n!"constraint_bias_type", Sup.bias_type),
    (n!"constraint_bias_40bit", Sup.bias_40bit), (n!"constraint_depth_multiplier", Sup.depth_multiplier),
    (n!"constraint_stride_width_no_upper_limit", Sup.stride_width_no_upper_limit),
    (n!"constraint_stride_range_no_padding", Sup.stride_range_no_padding),
    (n!"constraint_depthwise_conv_stride", Sup.depthwise_conv_stride), (n!"constraint_tconv_stride", Sup.tconv_stride),
    (n!"constraint_tconv_same", Sup.tconv_same), (n!"constraint_tconv_valid", Sup.tconv_valid),
    (n!"constraint_filter_range", Sup.filter_range), (n!"constraint_filter_height_range", Sup.filter_height_range),
    (n!"constraint_filter_product_range", Sup.filter_product_range),
    (n!"constraint_filter_height_range_valid_pad", Sup.filter_height_range_valid_pad),
    (n!"constraint_filter_product_range_valid_pad", Sup.filter_product_range_valid_pad),
    (n!"constraint_resize", Sup.resize), (n!"constraint_resize_size", Sup.resize_size),
    (n!"constraint_resize_attrs", Sup.resize_attrs),
    (n!"constraint_resizebi_half_pixel_centers_dims", Sup.resizebi_half_pixel_centers_dims),
    (n!"constraint_pad_shape", Sup.pad_shape), (n!"constraint_padding_dimensions", Sup.padding_dimensions), (n!"constraint_pad_type", Sup.pad_type),
    (n!"constraint_stridedslice_stride_values", Sup.stridedslice_stride_values),
    (n!"constraint_stridedslice_offset_false", Sup.stridedslice_offset_false),
    (n!"constraint_inputs_int32", Sup.inputs_int32), (n!"constraint_output_int32", Sup.output_int32),
    (n!"constraint_rsqrt_input_int8", Sup.rsqrt_input_int8),
    (n!"constraint_matching_quantization_parameters", Sup.matching_quantization_parameters),
    (n!"constraint_broadcast_shapes", Sup.broadcast_shapes),
    (n!"constraint_mean_height_width_product", Sup.mean_height_width_product),
    (n!"constraint_mean_width", Sup.mean_width), (n!"constraint_mean_depth", Sup.mean_depth),
    (n!"constraint_reshape_shape_constant", Sup.reshape_shape_constant),
    (n!"constraint_argmax_axis", Sup.argmax_axis), (n!"constraint_argmax_depth", Sup.argmax_depth),
    (n!"constraint_slice_inputs_const", Sup.slice_inputs_const), (n!"constraint_transpose", Sup.transpose) ]

def semPreds : List (Name × (Params → OpDesc → R)) :=
  [ (n!"constraint_attributes_specified", Sem.attributes_specified), (n!"constraint_tens_no_dynamic", Sem.tens_no_dynamic),
    (n!"constraint_tens_defined_shape", Sem.tens_defined_shape), (n!"constraint_tens_output_scalar", Sem.tens_output_scalar),
    (n!"constraint_tens_input_scalar", Sem.tens_input_scalar), (n!"constraint_tens_shape_size", Sem.tens_shape_size),
    (n!"constraint_tens_quant_none_check", Sem.tens_quant_none_check), (n!"constraint_tens_quant_scale", Sem.tens_quant_scale),
    (n!"constraint_quant_scale_inf", Sem.quant_scale_inf), (n!"constraint_none_const_tensors", Sem.none_const_tensors),
    (n!"constraint_stride_type", Sem.stride_type), (n!"constraint_dilation_type", Sem.dilation_type),
    (n!"constraint_filter_type", Sem.filter_type), (n!"constraint_conv_groups_ifm_depth", Sem.conv_groups_ifm_depth),
    (n!"constraint_conv_groups_num_filters", Sem.conv_groups_num_filters),
    (n!"constraint_matching_in_out_types", Sem.matching_in_out_types), (n!"constraint_beta_value_range", Sem.beta_value_range),
    (n!"constraint_matching_shapes", Sem.matching_shapes), (n!"constraint_split_axis", Sem.split_axis),
    (n!"constraint_split_num_splits", Sem.split_num_splits), (n!"constraint_splitv_inferred", Sem.splitv_inferred),
    (n!"constraint_axis_exists", Sem.axis_exists), (n!"constraint_axis_valid", Sem.axis_valid),
    (n!"constraint_matching_dimensionality", Sem.matching_dimensionality), (n!"constraint_valid_dimensions", Sem.valid_dimensions),
    (n!"constraint_valid_dimensions_axis", Sem.valid_dimensions_axis),
    (n!"constraint_stridedslice_input_count", Sem.stridedslice_input_count), (n!"constraint_pad_input_count", Sem.pad_input_count),
    (n!"constraint_pad_constant", Sem.pad_constant), (n!"constraint_pad_output_shape", Sem.pad_output_shape),
    (n!"constraint_stridedslice_inputs_const", Sem.stridedslice_inputs_const), (n!"constraint_ellipsis_mask", Sem.ellipsis_mask),
    (n!"constraint_axis_masks", Sem.axis_masks), (n!"constraint_slice_ranges", Sem.slice_ranges),
    (n!"constraint_matching_inputs_types", Sem.matching_inputs_types), (n!"constraint_matching_signed", Sem.matching_signed),
    (n!"constraint_unsigned_valid", Sem.unsigned_valid), (n!"constraint_input_signed", Sem.input_signed),
    (n!"constraint_input_8bit", Sem.input_8bit), (n!"constraint_argmax_output", Sem.argmax_output),
    (n!"constraint_matching_either_shapes", Sem.matching_either_shapes), (n!"constraint_fc_output_2d", Sem.fc_output_2d),
    (n!"constraint_keep_dim_ifm_ofm", Sem.keep_dim_ifm_ofm), (n!"constraint_mean_input_dims", Sem.mean_input_dims),
    (n!"constraint_mean_axis", Sem.mean_axis), (n!"constraint_matching_in_out_quant", Sem.matching_in_out_quant),
    (n!"constraint_matching_in_out_elements", Sem.matching_in_out_elements),
    (n!"constraint_transpose_permutation_size", Sem.transpose_permutation_size),
    (n!"constraint_transpose_permutation_values", Sem.transpose_permutation_values) ]


def liveParams : Params where
  tensDim := tensDimRange
  stride := strideRange
  dilH := dilatedHeightRange
  dilProd := dilatedProductRange
  weightsLimit := weightsLimit
  filter := filterRange
  filterH := filterHeightRange
  filterProd := filterProductRange
  meanMax := meanReducedAxisMaxSize
  meanInt8 := meanKernelProductInt8
  meanUint8 := meanKernelProductUint8
  meanInt16 := meanKernelProductInt16
  opDtypes := dtypeSet n!"supported_op_dtypes"
  fafDtypes := dtypeSet n!"supported_faf_dtypes"
  biasDtypes := dtypeSet n!"supported_bias_dtypes"
  padDtypes := dtypeSet n!"supported_pad_dtypes"
  int32Ops := opSet supOpSets n!"supported_int32_tensor_ops"
  perAxisOps := opSet supOpSets n!"per_axis_quant_ops"
  fafOps := opSet supOpSets n!"supported_fused_activations"
  shapelessOps := opSet semOpSets n!"shapeless_input_ops"
  dwStride := (1, 3)
  convStrideH := (1, 3)
  convStrideW := (1, 3)
  hwStrides := [2, 3]
  avgStrideNoPad := 3
  biasBits := 40
  argmaxDepth := 127
  maxRank := 4

/-- evaluate a constraint by function name; a name without a model is an error, never a default -/
def evalIn (tbl : List (Name × (Params → OpDesc → R))) (P : Params) (name : Name) (d : OpDesc) : R :=
  match tbl.find? (·.1 == name) with
  | some (_, p) => p P d
  | none => .error ("unmodelled:" ++ ofName name)

-- ------------------------------------------------------------------------------------------------
-- the lists that apply to an operator type

def lookup (tbl : List (Name × List Name)) (k : Name) : List Name :=
  ((tbl.find? (·.1 == k)).map (·.2)).getD []

/-- `[c for c in generic_constraints if c not in exceptions[op.type]] + specific_constraints[op.type]` -/
def listedWith (generic : List Name) (exceptions specific : List (Name × List Name)) (ty : Name) : List Name :=
  generic.filter (fun c => !(lookup exceptions ty).contains c) ++ lookup specific ty

def supListed (ty : Name) : List Name := listedWith supGeneric supExceptions supSpecific ty
def semListed (ty : Name) : List Name := listedWith semGeneric semExclude semSpecific ty

inductive Verdict where
  | npu                                   -- every listed constraint holds
  | cpu (failed : Name)                 -- first listed constraint that does not hold ("" = not a supported type)
  | raised (at_ : Name) (what : String) -- the constraint function raises / is outside the model
deriving Repr, DecidableEq, Inhabited

/-- the walk both checkers perform: first constraint that is false (or raises) decides -/
def walk (tbl : List (Name × (Params → OpDesc → R))) (P : Params) (d : OpDesc) : List Name → Verdict
  | [] => .npu
  | c :: cs =>
    match evalIn tbl P c d with
    | .ok true => walk tbl P d cs
    | .ok false => .cpu c
    | .error e => .raised c e

def irOnly (ty : Name) : Bool := ty == n!"Placeholder" || ty == n!"SubgraphInput" || ty == n!"Const"

/-- `TFLiteSupportedOperators.is_operator_supported` -/
def isOperatorSupported (d : OpDesc) : Verdict :=
  if !(opSet supOpSets n!"supported_operators").contains d.type then .cpu []
  else walk supPreds liveParams d (supListed d.type)

/-- `TFLiteSemantic.is_operator_semantic_valid` -/
def isOperatorSemanticValid (d : OpDesc) : Verdict :=
  if irOnly d.type then .npu else walk semPreds liveParams d (semListed d.type)

def Verdict.onNpu : Verdict → Bool
  | .npu => true
  | _ => false

/-- what `model_reader` + the pre-processing pass of the graph optimiser leave in `op.run_on_npu`:
    the supported check is only applied to operators the semantic check accepted -/
def runOnNpu (d : OpDesc) : Verdict :=
  match isOperatorSemanticValid d with
  | .npu => isOperatorSupported d
  | v => v

-- ------------------------------------------------------------------------------------------------
-- what happens between the two checks (first rewrite round of `tflite_optimise_graph`)

def setAttr (d : OpDesc) (k : Name) (v : AttrV) : OpDesc :=
  { d with attrs := if d.attrs.any (·.1 == k) then d.attrs.map (fun (k', v') => if k' == k then (k', v) else (k', v'))
                    else d.attrs ++ [(k, v)] }

/-- `fixup_pool_strides`: a pooling whose kernel, stride and IFM extent coincide gets stride 1 and VALID
    padding *before* the supported-operator check sees it.  Returns the operator and whether it changed. -/
def fixupPoolStrides (d : OpDesc) : Except String (OpDesc × Bool) :=
  if [n!"AvgPool", n!"MaxPool", n!"QuantizedAvgPool", n!"QuantizedMaxPool"].contains d.type then do
    let i ← (← need (ifm d)).dims
    let (kw, kh) ← kernelSize d
    let (sw, sh) ← kernelStride d
    let iw ← pyIdx i 2
    let ih ← pyIdx i 1
    if kw == sw && sw == iw && kh == sh && sh == ih then
      let d1 := match attr? d n!"strides" with
        | some (.ints [n, _, _, c]) => setAttr d n!"strides" (.ints [n, 1, 1, c])
        | _ => d
      let d2 := setAttr (setAttr (setAttr d1 n!"stride_w" (.int 1)) n!"stride_h" (.int 1)) n!"padding" (.str n!"VALID")
      return (d2, !(sw == 1 && sh == 1))
    else return (d, false)
  else .ok (d, false)

/-- `detect_asymmetric_weights`: int8/int16 convolution or depthwise convolution whose weight zero points
    are not all zero (placed on the CPU unless `--force-symmetric-int-weights`) -/
def asymmetricWeights (d : OpDesc) : Except String Bool :=
  let bt := blockType d
  if bt == n!"ConvolutionMxN" || bt == n!"ConvolutionDepthWise" then do
    let i ← need (ifm d)
    if i.dtype == n!"int8" || i.dtype == n!"int16" then
      let w ← need (weights d)
      match w.quant with
      | some q => match q.zps with
        | some z => return !(z.all (· == 0))
        | none => exc
      | none => exc
    else return false
  else .ok false

/-- the value of `run_on_npu` when the operator rewrite rounds start, with the undocumented mechanisms that
    took part: semantic check, `check_asymmetric_weights`, `fixup_pool_strides`, supported check -/
def placeModel (d : OpDesc) : Verdict × List String :=
  match isOperatorSemanticValid d with
  | .npu =>
    match asymmetricWeights d with
    | .error e => (.raised n!"check_asymmetric_weights" e, [])
    | .ok true => (.cpu n!"check_asymmetric_weights", ["asymmetric_weights"])
    | .ok false =>
      match fixupPoolStrides d with
      | .error e => (.raised n!"fixup_pool_strides" e, [])
      | .ok (d', changed) => (isOperatorSupported d', if changed then ["fixup_pool_strides"] else [])
  | v => (v, [])

end VelaVerif.Constraints
