import VelaVerif.Spec.CliOptions
import VelaVerif.Handlers.Util
/-! Line protocol of the C13 command-line layer (harness/c13_cli.py).

`cli <report> <list> <net -|tflite|tosa|other> <exists> <cfgs -|ab,ab,..> <sysDefault> <memDefault> <sysFile -|XY>
     <memFile -|abc> <accel 0..5|x> <allocator 0..2|x> <optimise 0..1|x> <blockdep> <arena> <align> <reclimit> <hillclimb>
     <verboseAll> <verbose: 14 bits>`
  → `ok report` | `ok listing` | `ok compile <frontend> <imx> <accel> <axi0><axi1> <const><arena><cache> <blockdep> <arena>
     <align> <reclimit> <hillclimb> <allocator> <optimise> <verbose bits>` | `diag <kind> <rule>`
`clispec <observed accepted|usage|inputFile|cliOption|configOption> <the same fields>` → 1/0 (`Spec.consistent`) -/
namespace VelaVerif.Handlers.CliOptions
open VelaVerif.Handlers VelaVerif.CliOptions

def bit? : Char → Option Bool
  | '0' => some false
  | '1' => some true
  | _ => none

def bool? (s : String) : Option Bool := match s.toList with | [c] => bit? c | _ => none

def area? : Char → Option MemArea
  | 'S' => some .sram | 'D' => some .dram | 'N' => some .onChipFlash | 'F' => some .offChipFlash | _ => none

def areaCh : MemArea → Char
  | .sram => 'S' | .dram => 'D' | .onChipFlash => 'N' | .offChipFlash => 'F'

def port? : Char → Option MemPort
  | '0' => some .axi0 | '1' => some .axi1 | _ => none

def portCh : MemPort → Char
  | .axi0 => '0' | .axi1 => '1'

def accels : List Accel := [.u55_32, .u55_64, .u55_128, .u55_256, .u65_256, .u65_512]
def allocators : List Allocator := [.greedy, .linearAlloc, .hillClimb]
def strategies : List Strategy := [.size, .performance]

/-- `x` = a value outside the choices; a digit = index into the table -/
def choice? {α} (tbl : List α) (s : String) : Option (Option α) :=
  if s == "x" then some none else do
    let i ← s.toNat?
    let v ← tbl[i]?
    some (some v)

def indexOf {α} [BEq α] (tbl : List α) (v : α) : Nat := tbl.findIdx (· == v)

def cfgs? (s : String) : Option (List CfgArg) :=
  if s == "-" then some [] else
    (s.splitOn ",").mapM fun t => match t.toList with
      | [a, b] => do some ⟨← bit? a, ← bit? b⟩
      | _ => none

def verbose? (s : String) : Option Verbose :=
  match s.toList.mapM bit? with
  | some [a, b, c, d, e, f, g, h, i, j, k, l, m, n] => some ⟨a, b, c, d, e, f, g, h, i, j, k, l, m, n⟩
  | _ => none

def verboseStr (v : Verbose) : String :=
  String.join ([v.config, v.graph, v.quantization, v.packing, v.tensorPurpose, v.tensorFormat, v.schedule, v.allocation,
    v.hlcs, v.rcs, v.operators, v.weights, v.performance, v.progress].map boolStr)

def opts? : List String → Option Opts
  | [rep, lst, net, ex, cfgs, sd, md, sf, mf, acc, alloc, opt, bd, arena, align, rl, hc, va, vb] => do
    let network ← match net with
      | "-" => some none | "tflite" => some (some Suffix.tflite) | "tosa" => some (some Suffix.tosa)
      | "other" => some (some Suffix.other) | _ => none
    let sysFile ← match sf.toList with
      | ['-'] => some none
      | [a, b] => do some (some (SysCfg.mk (← area? a) (← area? b)))
      | _ => none
    let memFile ← match mf.toList with
      | ['-'] => some none
      | [a, b, c] => do some (some (MemMode.mk (← port? a) (← port? b) (← port? c)))
      | _ => none
    some { supportedOpsReport := ← bool? rep, listConfigFiles := ← bool? lst, network, networkExists := ← bool? ex,
           configs := ← cfgs? cfgs, sysDefault := ← bool? sd, memDefault := ← bool? md, sysFile, memFile,
           accel := ← choice? accels acc, allocator := ← choice? allocators alloc, optimise := ← choice? strategies opt,
           maxBlockdep := ← parseInt? bd, arenaCacheSize := ← parseInt? arena, cpuTensorAlignment := ← parseInt? align,
           recursionLimit := ← parseInt? rl, hillclimbMaxIterations := ← parseInt? hc, verboseAll := ← bool? va,
           verbose := ← verbose? vb }
  | _ => none

def kindStr : Kind → String
  | .usage => "usage" | .inputFile => "inputFile" | .cliOption => "cliOption" | .configOption => "configOption"

def kind? : String → Option (Option Kind)
  | "accepted" => some none | "usage" => some (some .usage) | "inputFile" => some (some .inputFile)
  | "cliOption" => some (some .cliOption) | "configOption" => some (some .configOption) | _ => none

def answer (o : Opts) : String :=
  match validate o with
  | .error r => s!"diag {kindStr r.kind} {reprStr r}"
  | .ok .report => "ok report"
  | .ok .listing => "ok listing"
  | .ok (.compile c) =>
    let fe := match c.frontend with | .tflite => "tflite" | .tosa => "tosa"
    s!"ok compile {fe} {boolStr c.imx93} {indexOf accels c.accel} {String.ofList [areaCh c.axi0, areaCh c.axi1]} " ++
    s!"{String.ofList [portCh c.constPort, portCh c.arenaPort, portCh c.cachePort]} {c.maxBlockdep} {c.arenaCacheSize} " ++
    s!"{c.cpuTensorAlignment} {c.recursionLimit} {c.hillclimbMaxIterations} {indexOf allocators c.allocator} " ++
    s!"{indexOf strategies c.optimise} {verboseStr c.verbose}"

def handle : List String → Option String
  | "cli" :: rest => some (match opts? rest with | some o => answer o | none => "err:parse")
  | "clispec" :: obs :: rest =>
    some (match kind? obs, opts? rest with
      | some k, some o => boolStr (Spec.consistent o k)
      | _, _ => "err:parse")
  | _ => none

end VelaVerif.Handlers.CliOptions
