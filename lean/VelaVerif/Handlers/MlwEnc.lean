import VelaVerif.Model.MlwEncode
import VelaVerif.Spec.MlwPlan
import VelaVerif.Handlers.Util
/-!
Protocol of the MLW writer model (C07, `Model/MlwEncode.lean`).  `-` stands for an empty list.

* `mlwenc <plan> <weights csv>` → `ok planok=<0|1> fits=<0|1> <hex of the stream>` | `err:<kind> planok=<0|1>`
  (`fits` = the stream is not longer than the encoder's output buffer, `Spec/MlwPlan.lean` `fitsBuffer`)
  (`planok` = `Spec/MlwPlan.lean` `planOk plan weights`, the hypothesis of `decode_encode_plan`)
  plan = sections joined by `|` (`-` for no section); section =
  `size;lut csv;palbits;useZeroRuns;onlyPalette;directOffset;onlyZeros;slices`, slices = `len:wcfg:zcfg` joined by `/`
-/
namespace VelaVerif.Handlers.MlwEnc
open VelaVerif VelaVerif.Handlers VelaVerif.MlwEnc VelaVerif.MlwPlan

def csvNats (s : String) : Option (List Nat) :=
  if s == "-" then some [] else (s.splitOn ",").mapM parseNat?
def csvInts (s : String) : Option (List Int) :=
  if s == "-" then some [] else (s.splitOn ",").mapM parseInt?

def parseSlice (s : String) : Option SlicePlan :=
  match s.splitOn ":" with
  | [a, b, c] => do some { len := ← parseNat? a, wCfg := ← parseNat? b, zCfg := ← parseNat? c }
  | _ => none

def parseSection (s : String) : Option SectionPlan :=
  match s.splitOn ";" with
  | [size, lut, palbits, uz, op, dofs, oz, slices] => do
    let sl ← if slices == "-" then some [] else (slices.splitOn "/").mapM parseSlice
    some { size := ← parseNat? size,
           pal := { lut := ← csvNats lut, palbits := ← parseNat? palbits, useZeroRuns := uz != "0",
                    onlyPalette := op != "0", directOffset := ← parseNat? dofs, onlyZeros := oz != "0" },
           slices := sl }
  | _ => none

def parsePlan (s : String) : Option Plan :=
  if s == "-" then some [] else (s.splitOn "|").mapM parseSection

def handle : List String → Option String
  | ["mlwenc", plan, ws] => do
    let plan ← parsePlan plan
    let ws ← csvInts ws
    let pk := boolStr (planOk plan ws)
    match write plan ws with
    | .error e => some s!"err:{e.toString} planok={pk}"
    | .ok bytes => some s!"ok planok={pk} fits={boolStr (fitsBuffer ws.length bytes.length)} {if bytes.isEmpty then "-" else hexBytes bytes}"
  | _ => none

end VelaVerif.Handlers.MlwEnc
