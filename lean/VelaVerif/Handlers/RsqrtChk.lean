import VelaVerif.Model.Lut
import VelaVerif.Model.Scaling
import VelaVerif.Spec.RsqrtRef
import VelaVerif.Gen.FpMathTables
import VelaVerif.Handlers.Util
import VelaVerif.Handlers.Scaling
/-!
`rsqrtchk zpIn zpOut <ifm_scale float32 bits> <ofm_scale float32 bits> v(-128) … v(127)` → verdict of the TFLite reference
int8 `Rsqrt` (`Spec/RsqrtRef.lean`) on the *given* 256-entry table:

* the output multiplier is derived as TFLite's `Prepare` does: `1. / (std::sqrt(input_scale) * output_scale)` with the
  square root and the product in **float** (`Float32`), the division in double, then `QuantizeMultiplier` (= Vela's
  `quantise_scale`, `Model/Scaling.lean`; `na` when it rounds up to the unnormalised `2^31` or leaves the range in which the
  two agree);
* entries for codes below the input zero point are not judged (the reference rejects negative real inputs at run time); the
  entry for real input 0 (code = zero point) is judged like every other one (reference: 127);
* answers `1 mult m shift s` | `0 index i expected e got g mult m shift s` | `na`.
-/
namespace VelaVerif.Handlers.RsqrtChk
open VelaVerif VelaVerif.Handlers

def firstBad (zi zo m : Int) (tflShift : Int) : List Int → List Int → Option (Int × Int × Int)
  | x :: xs, g :: gs =>
    if x < zi then firstBad zi zo m tflShift xs gs
    else
      let e := RsqrtRef.rsqrtRef zi zo m tflShift x
      if e ≠ g then some (x, e, g) else firstBad zi zo m tflShift xs gs
  | _, _ => none

def handle : List String → Option String
  | "rsqrtchk" :: zi :: zo :: sInBits :: sOutBits :: real => do
    let zi ← parseInt? zi
    let zo ← parseInt? zo
    let sIn := Float32.ofBits (← parseNat? sInBits).toUInt32
    let sOut := Float32.ofBits (← parseNat? sOutBits).toUInt32
    let real ← parseInts real
    if real.length ≠ 256 then some s!"0 length {real.length} expected 256" else
    let denom : Float32 := Float32.sqrt sIn * sOut
    let d : Float := 1.0 / denom.toFloat
    match Scaling.quantiseScale (Handlers.Scaling.ofFloat d) with
    | .error _ => some "na"
    | .ok (m, sh) =>
      -- Vela shift sh ↔ TFLite shift 31 − sh; the reference is defined (and equals the unnormalised form) for these
      if m ≤ 0 ∨ m ≥ 2147483648 ∨ sh + 20 < 0 ∨ sh + 20 > 62 ∨ sh < 11 then some "na" else
      let codes := VelaVerif.Lut.codes true
      let tail := s!" mult {m} shift {sh}"
      match firstBad zi zo m (31 - sh) codes real with
      | some (x, e, g) => some (s!"0 index {x + 128} expected {e} got {g}" ++ tail)
      | none => some ("1" ++ tail)
  | _ => none

end VelaVerif.Handlers.RsqrtChk
