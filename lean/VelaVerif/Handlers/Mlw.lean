import VelaVerif.Spec.Mlw
import VelaVerif.Handlers.Util
/-!
Protocol of the MLW weight codec (C07).  `-` stands for an empty list / empty stream.

* `mlwdec <hex>` → `ok n=<weights> eos=<markers> end=<bit pos after last slice> bits=<bits read> slices=<s;…> w=<v,…>` | `err:<kind>`
  slice = `zdiv:nvalues:wdiv:trunc:newpal:palsize:palbits:dirofs:nchunks:zeros:direct`
* `mlwseq <src csv> <hex>` → Spec verdict of a stream against the plain sequence
* `mlwcheck <p csv (12 fields)> <src csv, row-major OHWI> <hex>` → Spec verdict against `Model.reorder` of the source
  verdict = `ok extra=<k> n=<decoded> slices=<…>` | `decode-error:<kind>` | `not16:<len>` |
            `mismatch idx=<i> got=<v|none> exp=<v|none> n=<decoded> slices=<…>` | `bad-frame end=<pos>` | `bad-config` | `bad-src`
* `reorder <p csv>` → `ok <row-major source index or -1 for padding>,…` | `bad-config`
* `reordercovers <p csv>` → `len=<n> plen=<closed-form padded length> pad=<k> covers=<0|1>` | `bad-config`
* `mlwvalid <src csv>` → `1` when every weight lies in -255..255 (the encoder must accept), `0` when it must reject
* `mlwframe <pos>` → `<bits appended after a last slice ending at pos, as 0/1 string> bytes=<total bytes>`
-/
namespace VelaVerif.Handlers.Mlw
open VelaVerif VelaVerif.Handlers VelaVerif.Mlw VelaVerif.Reorder VelaVerif.MlwSpec

def hexVal (c : Char) : Option Nat :=
  if '0' ≤ c ∧ c ≤ '9' then some (c.toNat - '0'.toNat)
  else if 'a' ≤ c ∧ c ≤ 'f' then some (c.toNat - 'a'.toNat + 10)
  else if 'A' ≤ c ∧ c ≤ 'F' then some (c.toNat - 'A'.toNat + 10)
  else none

def parseHexChars : List Char → List Nat → Option (List Nat)
  | [], acc => some acc.reverse
  | [_], _ => none
  | a :: b :: rest, acc => do parseHexChars rest (((← hexVal a) * 16 + (← hexVal b)) :: acc)

def parseHex (s : String) : Option (List Nat) :=
  if s == "-" then some [] else parseHexChars s.toList []

def parseCsvInts (s : String) : Option (List Int) :=
  if s == "-" then some [] else (s.splitOn ",").mapM parseInt?

def parseCsvNats (s : String) : Option (List Nat) :=
  if s == "-" then some [] else (s.splitOn ",").mapM parseNat?

def parseParams (s : String) : Option Params := do
  match ← parseCsvNats s with
  | [iu, ou, od, kh, kw, id_, obd, dw, pk, bits, dh, dw_] =>
    some { ifmUblockDepth := iu, ofmUblockDepth := ou, ofmDepth := od, kh := kh, kw := kw, ifmDepth := id_,
           ofmBlockDepth := obd, isDepthwise := dw != 0, isPartkernel := pk != 0, ifmBitdepth := bits,
           decompH := dh, decompW := dw_ }
  | _ => none

def sliceStr (s : SliceInfo) : String :=
  s!"{s.zdiv}:{s.nvalues}:{s.wdiv}:{boolStr s.trunc}:{boolStr s.newPal}:{s.palsize}:{s.palbits}:{s.directOffset}:{s.nchunks}:{s.zeros}:{s.direct}"

def slicesStr (l : List SliceInfo) : String := if l.isEmpty then "-" else ";".intercalate (l.map sliceStr)

def csvInts (l : List Int) : String := if l.isEmpty then "-" else ",".intercalate (l.map toString)

def optStr : Option Int → String
  | none => "none"
  | some v => toString v

def verdictStr : Verdict → String
  | .ok k d => s!"ok extra={k} n={d.weights.length} slices={slicesStr d.slices}"
  | .decodeError e => s!"decode-error:{e.toString}"
  | .notMultipleOf16 n => s!"not16:{n}"
  | .mismatch i a b d => s!"mismatch idx={i} got={optStr a} exp={optStr b} n={d.weights.length} slices={slicesStr d.slices}"
  | .badFrame d => s!"bad-frame end={d.sliceEnd}"

def handle : List String → Option String
  | ["mlwdec", hex] => do
    let bs ← parseHex hex
    match decode bs with
    | .error e => some s!"err:{e.toString}"
    | .ok d => some s!"ok n={d.weights.length} eos={d.eos} end={d.sliceEnd} bits={d.bitsRead} slices={slicesStr d.slices} w={csvInts d.weights}"
  | ["mlwseq", src, hex] => do
    let src ← parseCsvInts src
    let bs ← parseHex hex
    some (verdictStr (checkStream bs src))
  | ["mlwcheck", ps, src, hex] => do
    let p ← parseParams ps
    let src ← parseCsvInts src
    let bs ← parseHex hex
    if p.stepsPositive = false then some "bad-config" else
    match reorderValues p src.toArray with
    | none => some "bad-src"
    | some expected => some (verdictStr (checkStream bs expected))
  | ["reorder", ps] => do
    let p ← parseParams ps
    match reorder p with
    | none => some "bad-config"
    | some cs => some ("ok " ++ ",".intercalate (cs.map fun
        | none => "-1"
        | some c => toString (p.index c)))
  | ["reordercovers", ps] => do
    let p ← parseParams ps
    match reorder p with
    | none => some "bad-config"
    | some cs => some s!"len={cs.length} plen={paddedLength p} pad={(cs.filter Option.isNone).length} covers={boolStr (covers p cs)}"
  | ["mlwvalid", src] => do
    some (boolStr (weightsInRange (← parseCsvInts src)))
  | ["mlwframe", pos] => do
    let pos ← parseNat? pos
    some (String.ofList ((frameBits pos).map fun b => if b then '1' else '0') ++ s!" bytes={frameBytes pos}")
  | _ => none

end VelaVerif.Handlers.Mlw
