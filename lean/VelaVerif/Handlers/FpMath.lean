import VelaVerif.Model.FpMath
import VelaVerif.Spec.Gemmlowp
import VelaVerif.Handlers.Util
namespace VelaVerif.Handlers.FpMath
open VelaVerif VelaVerif.Handlers VelaVerif.FpMath

def errStr : Err → String
  | .assert_ => "err:assert"
  | .overflow => "err:overflow"
  | .value => "err:value"

def show_ : R → String
  | .ok v => "ok " ++ toString v
  | .error e => errStr e

/-- the model (`Model/FpMath.lean`) -/
def model : String → List Int → Option String
  | "srm32", [a, b] => some (show_ (saturatingRoundingMul32 a b))
  | "srm16", [a, b] => some (show_ (saturatingRoundingMul16 a b))
  | "sm16", [a, b] => some (show_ (saturatingMul16 a b))
  | "shl32", [a, o] => some (show_ (shiftLeft32 a o))
  | "shl16", [a, o] => some (show_ (shiftLeft16 a o))
  | "down16", [a] => some (show_ (downscaleMultiplierInt32ToInt16 a))
  | "rdbp", [x, e] => some (show_ (roundingDivideByPot x e))
  | "srmbp", [x, e] => some (show_ (saturatingRoundingMultiplyByPot x e))
  | "rescale", [s, d, x] => some (show_ (rescale s d x))
  | "expint", [a] => some (show_ (expOnIntervalBetweenNegativeOneQuarterAnd0Excl a))
  | "expneg", [a] => some (show_ (expOnNegativeValues a))
  | "mbqm", [x, s, sh] => some (show_ (multiplyByQuantizedMultiplier x s sh))
  | "fromfloat", [m, e, ib] => some (show_ (fromFloat m e ib))
  | _, _ => none

/-- the reference (`Spec/Gemmlowp.lean`); `na` when the arguments are outside the domain on which
    the C function is defined (operands not representable, exponent outside 0..31, …) -/
def spec : String → List Int → Option String
  | "srm32", [a, b] => some (if inI32 a && inI32 b then toString (Gemmlowp.srdhm32 a b) else "na")
  | "srm16", [a, b] => some (if inI16 a && inI16 b then toString (Gemmlowp.srdhm16 a b) else "na")
  | "sm16", [a, b] => some (if inI16 a && inI16 b then toString (Gemmlowp.sdhm16 a b) else "na")
  | "shl32", [a, o] => some (if inI32 a && o ≥ 0 && o ≤ 31 then toString (Gemmlowp.shiftLeft32 a o.toNat) else "na")
  | "shl16", [a, o] => some (if inI16 a && o ≥ 0 && o ≤ 31 then toString (Gemmlowp.shiftLeft16 a o.toNat) else "na")
  | "rdbp", [x, e] => some (if inI32 x && e ≥ 0 && e ≤ 31 then toString (Gemmlowp.roundingDivideByPOT x e.toNat) else "na")
  | "srmbp", [x, e] => some (if inI32 x && e ≥ -31 && e ≤ 31 then toString (Gemmlowp.saturatingRoundingMultiplyByPOT x e) else "na")
  | "rescale", [s, d, x] =>
      some (if inI32 x && s - d ≥ -31 && s - d ≤ 31 then toString (Gemmlowp.rescale s d x) else "na")
  | "expint", [a] => some (if -(2 ^ 29) ≤ a && a < 0 then toString (Gemmlowp.expOnInterval a) else "na")
  | "expneg", [a] => some (if inI32 a && a ≤ 0 then toString (Gemmlowp.expOnNegativeValues a) else "na")
  | "mbqm", [x, s, sh] =>
      -- TFLite convention shift = 31 - vela shift; x·2^left must be representable (UB otherwise)
      let t := 31 - sh
      let l : Nat := if t > 0 then t.toNat else 0
      some (if inI32 (x * 2 ^ l) && inI32 s && t ≥ -31 && t ≤ 31
            then toString (Gemmlowp.multiplyByQuantizedMultiplier x s t) else "na")
  | _, _ => none

/-- `fp <fn> <ints…>` → `ok v | err:…` (model); `fpspec <fn> <ints…>` → `v | na` (reference);
    `fpboth <fn> <ints…>` → `<model> | <spec>`;
    `tofloatchk x ib num den` → 1 iff `num/den = x / 2^(31-ib)` (the value `to_float` must return) -/
def handle : List String → Option String
  | "fp" :: fn :: args => do
    let xs ← parseInts args
    model fn xs
  | "fpspec" :: fn :: args => do
    let xs ← parseInts args
    spec fn xs
  | "fpboth" :: fn :: args => do
    let xs ← parseInts args
    let m ← model fn xs
    let s := (spec fn xs).getD "na"
    some (m ++ " | " ++ s)
  | ["tofloatchk", x, ib, num, den] => do
    let x ← parseInt? x
    let ib ← parseInt? ib
    let num ← parseInt? num
    let den ← parseInt? den
    let fb := 32 - ib - 1
    if fb < 0 then some "err:value" else
    some (boolStr (decide (num * 2 ^ fb.toNat = x * den) && decide (den > 0)))
  | _ => none

end VelaVerif.Handlers.FpMath
