import VelaVerif.Spec.Arena
import VelaVerif.Handlers.Util
/-!
`arena align=<a> scratch=<idx|-1> fast=<idx|-1> inputs=<i>,… outputs=<i>,… tensors=<size>:<offset>:<var>,… ops=<E|C>:<builtin>:<in>/<in>…:<out>/<out>…;…`
answer: `conflicts=<n> <a>-<b>… | misaligned=<n> <idx>… | scratch=<n> <msgs> | required=<bytes>`
-/
namespace VelaVerif.Handlers.Arena
open VelaVerif VelaVerif.Handlers VelaVerif.Arena

def kv (toks : List String) (key : String) : Option String :=
  toks.findSome? fun t => if t.startsWith (key ++ "=") then some (t.drop (key.length + 1)).toString else none

def splitNE (s : String) (sep : String) : List String := (s.splitOn sep).filter (· ≠ "")

def optIdx (s : String) : Option (Option Nat) :=
  if s == "-1" then some none else (parseNat? s).map some

def parseTensor (s : String) : Option ATensor :=
  match s.splitOn ":" with
  | [sz, off, v] => do
    let o ← parseInt? off
    some { size := ← parseNat? sz, offset := if o < 0 then none else some o.toNat, isVariable := v == "1" }
  | _ => none

def parseOp (s : String) : Option AOp :=
  match s.splitOn ":" with
  | [k, b, ins, outs] => do
    some { ethosu := k == "E", builtin := ← parseNat? b, inputs := ← parseNats (splitNE ins "/"), outputs := ← parseNats (splitNE outs "/") }
  | _ => none

def handle : List String → Option String
  | "arena" :: toks => do
    let p : Plan := {
      tensors := ← (splitNE ((kv toks "tensors").getD "") ",").mapM parseTensor,
      ops := ← (splitNE ((kv toks "ops").getD "") ";").mapM parseOp,
      inputs := ← parseNats (splitNE ((kv toks "inputs").getD "") ","),
      outputs := ← parseNats (splitNE ((kv toks "outputs").getD "") ","),
      scratch := ← optIdx (← kv toks "scratch"),
      fast := ← optIdx (← kv toks "fast"),
      align := ← parseNat? (← kv toks "align") }
    let v := check p
    some (s!"conflicts={v.conflicts.length} " ++ " ".intercalate (v.conflicts.take 4 |>.map fun (a, b) => s!"{a}-{b}") ++
      s!" | misaligned={v.misaligned.length} " ++ joinNats (v.misaligned.take 6) ++
      s!" | scratch={v.scratch.length} " ++ " ~ ".intercalate (v.scratch.take 2) ++ s!" | required={v.required}")
  | ["reported", req, rep] => do
    -- reported figure (bytes) is at least the extent the plan requires
    some (boolStr (decide ((← parseNat? req) ≤ (← parseNat? rep))))
  | _ => none

end VelaVerif.Handlers.Arena
