import VelaVerif.Spec.Arena
import VelaVerif.Spec.Decode
import VelaVerif.Spec.Footprint
import VelaVerif.Handlers.Util
/-!
`arena align=<a> scratch=<idx|-1> fast=<idx|-1> inputs=<i>,… outputs=<i>,… tensors=<size>:<offset>:<var>,… ops=<E|C>:<builtin>:<in>/<in>…:<out>/<out>…[:<w>.<w>.…];…`
(optional fifth field of an Ethos-U operator: the words of its command stream, decoded here to find what it writes)
answer: `conflicts=<n> <a>-<b>… | misaligned=<n> <idx>… | scratch=<n> <msgs> | required=<bytes>`
`arenaplans <n>`  number of OfflineMemoryAllocation entries of a file; answer `1` iff exactly one
-/
namespace VelaVerif.Handlers.Arena
open VelaVerif VelaVerif.Handlers VelaVerif.Arena

def kv (toks : List String) (key : String) : Option String :=
  toks.findSome? fun t => if t.startsWith (key ++ "=") then some (t.drop (key.length + 1)).toString else none

def splitNE (s : String) (sep : String) : List String := (s.splitOn sep).filter (· ≠ "")

def optIdx (s : String) : Option (Option Nat) :=
  if s == "-1" then some none else (parseNat? s).map some

def parseTensor (s : String) : Option ATensor :=
  match s.splitOn ":" with
  | [sz, off, v] => do
    let o ← parseInt? off
    some { size := ← parseNat? sz, offset := if o < 0 then none else some o.toNat, isVariable := v == "1" }
  | _ => none

/-- `(region, lo, hi)` of every write of a decoded stream: OFM hull of each kernel operation, DMA destination -/
def streamWrites (words : List Nat) : Option (List (Nat × Nat × Nat)) :=
  match Decode.decodeStream words with
  | .error _ => none
  | .ok st => some (st.ops.filterMap fun so =>
      match so.op with
      | .block b => (Footprint.hull (Footprint.fmPieces b.ofm 0 0 0)).map fun (lo, hi) => (b.ofm.region, lo, hi)
      | .dma d => if d.dst.len = 0 then none else some (d.dst.region, d.dst.addr, d.dst.addr + d.dst.len))

def parseOp (s : String) : Option AOp :=
  match s.splitOn ":" with
  | [k, b, ins, outs, ws] => do
    some { ethosu := k == "E", builtin := ← parseNat? b, inputs := ← parseNats (splitNE ins "/"), outputs := ← parseNats (splitNE outs "/"),
           writes := streamWrites (← parseNats (splitNE ws ".")) }
  | [k, b, ins, outs] => do
    some { ethosu := k == "E", builtin := ← parseNat? b, inputs := ← parseNats (splitNE ins "/"), outputs := ← parseNats (splitNE outs "/") }
  | _ => none

def handle : List String → Option String
  | "arena" :: toks => do
    let p : Plan := {
      tensors := ← (splitNE ((kv toks "tensors").getD "") ",").mapM parseTensor,
      ops := ← (splitNE ((kv toks "ops").getD "") ";").mapM parseOp,
      inputs := ← parseNats (splitNE ((kv toks "inputs").getD "") ","),
      outputs := ← parseNats (splitNE ((kv toks "outputs").getD "") ","),
      scratch := ← optIdx (← kv toks "scratch"),
      fast := ← optIdx (← kv toks "fast"),
      align := ← parseNat? (← kv toks "align") }
    let v := check p
    some (s!"conflicts={v.conflicts.length} " ++ " ".intercalate (v.conflicts.take 4 |>.map fun (a, b) => s!"{a}-{b}") ++
      s!" | misaligned={v.misaligned.length} " ++ joinNats (v.misaligned.take 6) ++
      s!" | scratch={v.scratch.length} " ++ " ~ ".intercalate (v.scratch.take 2) ++ s!" | required={v.required}")
  | ["arenaplans", n] => do
    -- number of `OfflineMemoryAllocation` metadata entries of one file: exactly one
    some (boolStr (onePlan (← parseNat? n)))
  | ["reported", req, rep] => do
    -- reported figure (bytes) is at least the extent the plan requires
    some (boolStr (decide ((← parseNat? req) ≤ (← parseNat? rep))))
  | _ => none

end VelaVerif.Handlers.Arena
