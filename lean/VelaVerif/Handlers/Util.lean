/-! Shared helpers for the line-protocol handlers (import-free). -/
namespace VelaVerif.Handlers

def parseNat? (s : String) : Option Nat := s.toNat?
def parseInt? (s : String) : Option Int := s.toInt?

def parseNats (ss : List String) : Option (List Nat) := ss.mapM parseNat?
def parseInts (ss : List String) : Option (List Int) := ss.mapM parseInt?

def joinNats (l : List Nat) : String := " ".intercalate (l.map toString)
def joinInts (l : List Int) : String := " ".intercalate (l.map toString)

def hexDigit (n : Nat) : Char := "0123456789abcdef".toList.getD n '?'
def hexByte (b : Nat) : String := String.ofList [hexDigit (b / 16 % 16), hexDigit (b % 16)]
def hexBytes (l : List Nat) : String := String.join (l.map hexByte)

def boolStr (b : Bool) : String := if b then "1" else "0"

end VelaVerif.Handlers
