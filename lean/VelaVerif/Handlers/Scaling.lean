import VelaVerif.Model.Scaling
import VelaVerif.Spec.Scaling
import VelaVerif.Handlers.Util
/-!
Protocol handler for C09 (`scaling.py`).

A float travels as four tokens `<c> <s> <m> <e>`: `f s m e` = (-1)^s · m · 2^e (0 < m < 2^53),
`z s 0 0` = ±0, `i s 0 0` = ±inf, `n 0 0 0` = NaN.  A typed scalar is preceded by its kind
`p` (Python float) | `s` (np.float32) | `d` (np.float64).  Floats are never printed as decimals.

Model commands (answer = what the real function must return):
  qscale D | rqscale D | pscale n rb | mulscale K D K D K D | addscale K D K D K D ishift |
  advscale K D K D K D bitdepth
Spec commands (verdict on the *implementation's* output, exact integer arithmetic):
  qspec D q s | rqspec D q s | qbatch e m q s … | rqbatch e m q s … |
  poolscan n S sh lo hi | poolpts n S sh a … | mulspec K D K D K D q s |
  addspec K D K D K D ishift q s | advspec K D K D K D bitdepth iq is q s op
The rounding float operations of the elementwise helpers are executed here with IEEE `Float` /
`Float32` (`ieee : Arith`); they are outside the theorems.
-/
namespace VelaVerif.Handlers.Scaling
open VelaVerif VelaVerif.Handlers VelaVerif.Scaling
open VelaVerif.Spec.Scaling

def errStr : Err → String
  | .overflow => "err:overflow"
  | .value => "err:value"
  | .zerodiv => "err:zerodiv"
  | .assert => "err:assert"
  | .unmodelled => "err:unmodelled"

/-! ### IEEE bits ↔ exact integers -/

def dblOfBits64 (bits : Nat) : Dbl :=
  let sign := bits / 2 ^ 63 % 2 == 1
  let ex : Nat := bits / 2 ^ 52 % 2048
  let frac := bits % 2 ^ 52
  if ex == 2047 then (if frac == 0 then .inf sign else .nan)
  else if ex == 0 then (if frac == 0 then .zero sign else .fin sign frac (-1074))
  else .fin sign (frac + 2 ^ 52) ((ex : Int) - 1075)

/-- bits of a value that is a double (callers only pass representable values; bits that do not fit
    are truncated / saturated to ±inf) -/
def bitsOfDbl64 : Dbl → Nat
  | .nan => 0x7FF8000000000000
  | .inf s => (if s then 2 ^ 63 else 0) + 0x7FF0000000000000
  | .zero s => if s then 2 ^ 63 else 0
  | .fin s m e =>
    let sg := if s then 2 ^ 63 else 0
    if m = 0 then sg else
    let p := frexpNorm m e
    let m' := p.1
    let e' := p.2
    if e' > 971 then sg + 0x7FF0000000000000
    else if e' ≥ -1074 then sg + (e' + 1075).toNat * 2 ^ 52 + (m' - 2 ^ 52)
    else sg + (m' >>> (-1074 - e').toNat)

def toFloat (d : Dbl) : Float := Float.ofBits (UInt64.ofNat (bitsOfDbl64 d))
def ofFloat (x : Float) : Dbl := dblOfBits64 x.toBits.toNat
def toF32 (d : Dbl) : Float32 := (toFloat d).toFloat32
def ofF32 (x : Float32) : Dbl := ofFloat x.toFloat

/-- IEEE arithmetic as Python / NumPy ≥ 2 perform it: float32 when the result kind is float32
    (operands are first rounded to float32), double otherwise -/
def ieee : Arith where
  mul k a b := match k with
    | .f32 => ofF32 (toF32 a * toF32 b)
    | _ => ofFloat (toFloat a * toFloat b)
  div k a b := match k with
    | .f32 => ofF32 (toF32 a / toF32 b)
    | _ => ofFloat (toFloat a / toFloat b)
  cast k a := match k with
    | .f32 => ofF32 (toF32 a)
    | _ => a

/-! ### parsing / printing -/

def parseDbl : List String → Option (Dbl × List String)
  | c :: s :: m :: e :: rest => do
    let s ← parseNat? s
    let m ← parseNat? m
    let e ← parseInt? e
    let neg := s == 1
    match c with
    | "f" => if m = 0 ∨ m ≥ 2 ^ 53 then none else some (.fin neg m e, rest)
    | "z" => some (.zero neg, rest)
    | "i" => some (.inf neg, rest)
    | "n" => some (.nan, rest)
    | _ => none
  | _ => none

def parseKind : String → Option FKind
  | "p" => some .py
  | "s" => some .f32
  | "d" => some .f64
  | _ => none

def parseFVal : List String → Option (FVal × List String)
  | k :: rest => do
    let k ← parseKind k
    let (d, rest) ← parseDbl rest
    some (⟨k, d⟩, rest)
  | _ => none

def kindStr : FKind → String
  | .py => "p" | .f32 => "s" | .f64 => "d"

def sgn (b : Bool) : String := if b then "1" else "0"

/-- canonical printing: finite values in `frexp` form -/
def dblStr : Dbl → String
  | .nan => "n 0 0 0"
  | .inf s => s!"i {sgn s} 0 0"
  | .zero s => s!"z {sgn s} 0 0"
  | .fin s m e => let p := frexpNorm m e; s!"f {sgn s} {p.1} {p.2}"

def fvalStr (v : FVal) : String := kindStr v.kind ++ " " ++ dblStr v.val

def pairStr : Except Err (Int × Int) → String
  | .ok (q, s) => s!"ok {q} {s}"
  | .error e => errStr e

/-- positive finite value in the Spec's `frexp` form -/
def posNorm : Dbl → Option (Nat × Int)
  | .fin false m e => if m = 0 then none else some (frexp m e 64)
  | _ => none

/-! ### Spec verdicts -/

def quantVerdict (m : Nat) (e : Int) (q s : Int) : String :=
  if QuantOk m e q s then "1"
  else if HwRange m e then
    (if ¬ InRange q s then "0:range"
     else if ¬ RelErr q (-s) m e 1 (2 ^ 31) then "0:relerr"
     else "0:tflite")
  else "0:outside-not-zero"

def reducedVerdict (m : Nat) (e : Int) (q s : Int) : String :=
  if ReducedOk m e q s then "1"
  else if HwRange16 m e then
    (if ¬ (0 < q ∧ q ≤ 32767 ∧ 0 ≤ s ∧ s ≤ 63) then "0:range" else "0:relerr")
  else if HwRange m e ∧ s < 0 ∧ s = -e - 38 ∧ RelErr q (-s) m e 1 (2 ^ 14) then
    -- 2^15 ≤ x < 2^31: correct value, but a negative shift instead of the zero multiplier
    "0:negative-shift"
  else "0:outside-not-zero"

/-- `[m, q, s, m, q, s, …]` for one exponent: the model answer must equal `(q, s)` and the Spec must
    accept `(q, s)`.  Counts: `mm` model ≠ implementation, `neg` Spec rejects with the
    negative-reduced-shift class, `sf` any other Spec rejection; `first` = index of the first `mm`/`sf`. -/
def batchLoop (reduced : Bool) (e : Int) : List Int → (i mm neg sf : Nat) → (first : Option Nat) → String
  | m :: q :: s :: rest, i, mm, neg, sf, first =>
    let mN := m.toNat
    let p := frexp mN e 64
    let x := Dbl.fin false mN e
    let model := if reduced then reducedQuantiseScale x else quantiseScale x
    let v := if reduced then reducedVerdict p.1 p.2 q s else quantVerdict p.1 p.2 q s
    let same := match model with
      | .ok (q', s') => q' == q && s' == s
      | .error _ => false
    let isNeg := v == "0:negative-shift"
    let isSf := v != "1" && !isNeg
    let first' := if first.isNone && (!same || isSf) then some i else first
    batchLoop reduced e rest (i + 1) (if same then mm else mm + 1) (if isNeg then neg + 1 else neg)
      (if isSf then sf + 1 else sf) first'
  | [], i, mm, neg, sf, first =>
    let f : Int := match first with | some k => (k : Int) | none => -1
    s!"n={i} mm={mm} neg={neg} sf={sf} first={f}"
  | _, _, _, _, _, _ => "err:parse"

def poolClass (n a : Int) : String :=
  if n % 2 = 1 ∧ n ≥ 32993 ∧ a.natAbs ≥ 2 ^ 30 then "k" else "u"

def poolBad (S : Int) (sh : Nat) (n a : Int) : String :=
  s!"bad {a} {hwRound (a * S) sh} {refAvg a n} {poolClass n a}"

/-- all points are checked; an offender outside the recorded 16-bit corner (class `u`) is reported
    in preference to one inside it (class `k`) -/
def poolPts (S : Int) (sh : Nat) (n : Int) : List Int → Nat → Option Int → String
  | a :: rest, i, known =>
    if PoolOk S sh n a then poolPts S sh n rest (i + 1) known
    else if poolClass n a == "u" then poolBad S sh n a
    else poolPts S sh n rest (i + 1) (if known.isNone then some a else known)
  | [], i, known =>
    match known with
    | some a => poolBad S sh n a
    | none => s!"ok {i}"

/-- tolerance of a quantised pair against the real quotient: `2^-31` for the quantisation plus
    three roundings of the float arithmetic in force -/
def pairTol : FKind → Nat × Nat
  | .f32 => (1 + 3 * 2 ^ 7, 2 ^ 31)        -- 2^-31 + 3·2^-24
  | _ => (2 ^ 22 + 3, 2 ^ 53)              -- 2^-31 + 3·2^-53

/-- tolerance of a float against the real quotient: three roundings -/
def floatTol : FKind → Nat × Nat
  | .f32 => (3, 2 ^ 24)
  | _ => (3, 2 ^ 53)

def fieldsOk (q s : Int) : Bool := decide (InRange q s)

/-- Verdict of a pair `(q, s)` against the real quotient `(nm·2^ne) / (dm·2^de)`:
    quotient safely inside the hardware range → fields in range and `RatioOk`;
    safely outside → zero multiplier; within `2^-20` of a range boundary (where the float rounding
    of the quotient decides) → either. -/
def pairVsRatio (q s : Int) (nm : Nat) (ne : Int) (dm : Nat) (de : Int) (tol : Nat × Nat) : String :=
  let up : Int := dm * (2 ^ 20 + 1)
  let dn : Int := dm * (2 ^ 20 - 1)
  let inside := decide (DyLe up (de - 53) nm ne) && decide (DyLt nm ne dn (de + 11))
  let outside := decide (DyLt nm ne dn (de - 53)) || decide (DyLe up (de + 11) nm ne)
  let okIn := fieldsOk q s && decide (RatioOk q s nm ne dm de tol.1 tol.2)
  let okOut := decide (q = 0 ∧ 0 ≤ s ∧ s ≤ 63)
  if inside then (if okIn then "1" else if fieldsOk q s then "0:ratio" else "0:range")
  else if outside then (if okOut then "1" else "0:outside-not-zero")
  else (if okIn || okOut then "1" else "0:edge")

def asF64 (v : FVal) : FVal := ⟨.f64, v.val⟩

def anyF32 (a b c : FVal) : Bool := a.kind == .f32 || b.kind == .f32 || c.kind == .f32

/-- exact maximum of two positive dyadics (ties: first) -/
def maxPos (a b : Nat × Int) : Nat × Int := if DyLt a.1 a.2 b.1 b.2 then b else a
def minPos (a b : Nat × Int) : Nat × Int := if DyLt b.1 b.2 a.1 a.2 then b else a

/-- Spec verdict for the OFM pair of the simplified add/sub derivation -/
def addVerdict (a b c : FVal) (sh : Nat) (q s : Int) : Option String := do
  let pa ← posNorm a.val
  let pb ← posNorm b.val
  let (mo, eo) ← posNorm c.val
  let mx := maxPos pa pb
  let cls := if anyF32 a b c then "f32" else "u"
  -- (1) fields, (2) real quotient 2·max / (out · 2^sh) to double-derivation precision,
  -- (3) equality with the reference (double) derivation
  let tol := pairTol .f64
  let ref := simplifiedAddSub ieee (asF64 a) (asF64 b) (asF64 c) sh
  let refOk : Bool := match ref with
    | .ok r => r.outScale == q && r.outShift == s
    | .error _ => false
  let v := pairVsRatio q s (2 * mx.1) mx.2 (mo * 2 ^ sh) eo tol
  if v != "1" then some s!"{v}:{cls}"
  else if ¬ refOk then some s!"0:reference:{cls}"
  else some "1"

/-- Spec verdict for the result of the advanced add/sub derivation -/
def advVerdict (a b c : FVal) (bd : Int) (iq ish q s : Int) (op : Nat) : Option String := do
  let pa ← posNorm a.val
  let pb ← posNorm b.val
  let (mo, eo) ← posNorm c.val
  let sh : Nat := if bd = 8 then 20 else 15
  let mx := maxPos pa pb
  let mn := minPos pa pb
  let cls := if anyF32 a b c then "f32" else "u"
  let tol := pairTol .f64
  let ref := advancedAddSub ieee (asF64 a) (asF64 b) (asF64 c) bd
  let refOk : Bool := match ref with
    | .ok r => r.inScale == iq && r.inShift == ish && r.outScale == q && r.outShift == s &&
               (if r.opToScale == .opa then 1 else 2) == op
    | .error _ => false
  -- the operand that is rescaled must be the one with the smaller scale; when the two scales
  -- agree to 2^-20 either choice is accepted (the ratio clauses below bound the error)
  let aLtB := decide (DyLt (pa.1 * 2 ^ 20) pa.2 (pb.1 * (2 ^ 20 - 1)) pb.2)
  let bLtA := decide (DyLt (pb.1 * 2 ^ 20) pb.2 (pa.1 * (2 ^ 20 - 1)) pa.2)
  let opOk := if aLtB then op == 1 else if bLtA then op == 2 else (op == 1 || op == 2)
  let vi := pairVsRatio iq ish (mn.1 * 2 ^ sh) mn.2 (2 * mx.1) mx.2 tol
  let vo := pairVsRatio q s (2 * mx.1) mx.2 (mo * 2 ^ sh) eo tol
  if ¬ opOk then some "0:operand:u"
  else if vi != "1" then some s!"{vi}:in:{cls}"
  else if vo != "1" then some s!"{vo}:out:{cls}"
  else if ¬ refOk then some s!"0:reference:{cls}"
  else some "1"

def mulVerdict (a b c : FVal) (q s : Int) : Option String := do
  let (m1, e1) ← posNorm a.val
  let (m2, e2) ← posNorm b.val
  let (mo, eo) ← posNorm c.val
  let k1 := promote a.kind b.kind
  let k := if k1 == .f32 then FKind.f32 else promote k1 c.kind
  some (pairVsRatio q s (m1 * m2) (e1 + e2) mo eo (pairTol k))

def optStr : Option Int → String
  | some x => toString x
  | none => "-"

def ewRegsStr : Except Err EwRegs → String
  | .error e => errStr e
  | .ok r =>
    let opa := match r.opa with | some (a, b) => s!"{a} {b}" | none => "- -"
    s!"ok {opa} {optStr r.opb} {r.ofmScale} {r.ofmShift} {r.opToScale}"

def handle : List String → Option String
  | "qscale" :: rest => do
    let (d, _) ← parseDbl rest
    some (pairStr (quantiseScale d))
  | "rqscale" :: rest => do
    let (d, _) ← parseDbl rest
    some (pairStr (reducedQuantiseScale d))
  | ["pscale", n, rb] => do
    let n ← parseInt? n
    let rb ← parseInt? rb
    if rb < -4096 then some "err:unmodelled" else
    some (pairStr (quantisePoolingScale n rb))
  | "mulscale" :: rest => do
    let (a, rest) ← parseFVal rest
    let (b, rest) ← parseFVal rest
    let (c, _) ← parseFVal rest
    some (pairStr (elementwiseMulScale ieee a b c))
  | "addscale" :: rest => do
    let (a, rest) ← parseFVal rest
    let (b, rest) ← parseFVal rest
    let (c, rest) ← parseFVal rest
    let sh ← parseNat? (← rest.head?)
    if sh > 64 then some "err:unmodelled" else
    match simplifiedAddSub ieee a b c sh with
    | .ok r => some s!"ok {fvalStr r.input1Rescale} {fvalStr r.input2Rescale} {r.outScale} {r.outShift}"
    | .error e => some (errStr e)
  | "advscale" :: rest => do
    let (a, rest) ← parseFVal rest
    let (b, rest) ← parseFVal rest
    let (c, rest) ← parseFVal rest
    let bd ← parseInt? (← rest.head?)
    match advancedAddSub ieee a b c bd with
    | .ok r => some s!"ok {r.inScale} {r.inShift} {r.outScale} {r.outShift} {if r.opToScale == .opa then 1 else 2}"
    | .error e => some (errStr e)
  -- ---------------------------------------------------------------- Spec on implementation output
  | "qspec" :: rest => do
    let (d, rest) ← parseDbl rest
    let (m, e) ← posNorm d
    match rest with
    | [q, s] => do
      let q ← parseInt? q
      let s ← parseInt? s
      some (quantVerdict m e q s)
    | _ => none
  | "rqspec" :: rest => do
    let (d, rest) ← parseDbl rest
    let (m, e) ← posNorm d
    match rest with
    | [q, s] => do
      let q ← parseInt? q
      let s ← parseInt? s
      some (reducedVerdict m e q s)
    | _ => none
  | "qbatch" :: e :: rest => do
    let e ← parseInt? e
    let xs ← parseInts rest
    some (batchLoop false e xs 0 0 0 0 none)
  | "rqbatch" :: e :: rest => do
    let e ← parseInt? e
    let xs ← parseInts rest
    some (batchLoop true e xs 0 0 0 0 none)
  | ["poolscan", n, S, sh, lo, hi] => do
    let n ← parseInt? n
    let S ← parseInt? S
    let sh ← parseInt? sh
    let lo ← parseInt? lo
    let hi ← parseInt? hi
    if ¬ PoolFields S sh then some "bad fields" else
    if hi < lo then some "ok 0" else
    match poolScan S sh.toNat n lo (hi - lo + 1).toNat with
    | none => some s!"ok {hi - lo + 1}"
    | some a => some (poolBad S sh.toNat n a)
  | "poolpts" :: n :: S :: sh :: pts => do
    let n ← parseInt? n
    let S ← parseInt? S
    let sh ← parseInt? sh
    let pts ← parseInts pts
    if ¬ PoolFields S sh then some "bad fields" else
    some (poolPts S sh.toNat n pts 0 none)
  | "mulspec" :: rest => do
    let (a, rest) ← parseFVal rest
    let (b, rest) ← parseFVal rest
    let (c, rest) ← parseFVal rest
    match rest with
    | [q, s] => do
      let q ← parseInt? q
      let s ← parseInt? s
      mulVerdict a b c q s
    | _ => none
  | "addspec" :: rest => do
    let (a, rest) ← parseFVal rest
    let (b, rest) ← parseFVal rest
    let (c, rest) ← parseFVal rest
    match rest with
    | [sh, q, s] => do
      let sh ← parseNat? sh
      let q ← parseInt? q
      let s ← parseInt? s
      addVerdict a b c sh q s
    | _ => none
  | "advspec" :: rest => do
    let (a, rest) ← parseFVal rest
    let (b, rest) ← parseFVal rest
    let (c, rest) ← parseFVal rest
    match rest with
    | [bd, iq, ish, q, s, op] => do
      let bd ← parseInt? bd
      let iq ← parseInt? iq
      let ish ← parseInt? ish
      let q ← parseInt? q
      let s ← parseInt? s
      let op ← parseNat? op
      advVerdict a b c bd iq ish q s op
    | _ => none
  -- ------------------------------------------------------------------ call sites (registers)
  | "ewreg" :: "mul" :: rest => do
    let (a, rest) ← parseFVal rest
    let (b, rest) ← parseFVal rest
    let (c, _) ← parseFVal rest
    some (ewRegsStr (ewRegistersMul ieee a b c))
  | "ewreg" :: "add" :: bd :: rev :: rest => do
    let bd ← parseInt? bd
    let rev ← parseNat? rev
    let (a, rest) ← parseFVal rest
    let (b, rest) ← parseFVal rest
    let (c, _) ← parseFVal rest
    some (ewRegsStr (ewRegistersAddSub ieee bd a b c (rev == 1)))
  | ["poolreg", k, n] => do
    let k ← parseKind k
    let n ← parseInt? n
    some (pairStr (poolRegistersEqualScales ieee k n))
  | "ewregspec" :: "mul" :: rest => do
    let (a, rest) ← parseFVal rest
    let (b, rest) ← parseFVal rest
    let (c, rest) ← parseFVal rest
    match rest with
    | [q, s] => do
      let q ← parseInt? q
      let s ← parseInt? s
      mulVerdict a b c q s
    | _ => none
  | "ewregspec" :: "add" :: bd :: rev :: rest => do
    -- Spec on the OPA/OPB/OFM_SCALE registers of an ADD/SUB:  … opa opa_shift opb ofm ofm_shift op
    let bd ← parseInt? bd
    let rev ← parseNat? rev
    let (a, rest) ← parseFVal rest
    let (b, rest) ← parseFVal rest
    let (c, rest) ← parseFVal rest
    match rest with
    | [opa, opash, opb, q, s, op] => do
      let opa ← parseInt? opa
      let opash ← parseInt? opash
      let opb ← parseInt? opb
      let q ← parseInt? q
      let s ← parseInt? s
      let op ← parseNat? op
      if opb != 0 then
        -- both operands rescaled by a constant: only sound for exactly equal input scales;
        -- 8 bit: factor 2^15 each, OFM pair for shift 16; 16 bit: factor 2^14 and the OFM shift one smaller
        let pa ← posNorm a.val
        let pb ← posNorm b.val
        if ¬ DyEq pa.1 pa.2 pb.1 pb.2 then some "0:simplified-with-unequal-scales:u"
        else if op != 0 ∨ opash != 0 then some "0:simplified-fields:u"
        else if bd = 16 then
          (if opa != 2 ^ 14 ∨ opb != 2 ^ 14 then some "0:operand-factor:u" else addVerdict a b c 16 q (s + 1))
        else
          (if opa != 2 ^ 15 ∨ opb != 2 ^ 15 then some "0:operand-factor:u" else addVerdict a b c 16 q s)
      else
        let op' := if rev == 1 then (if op == 1 then 2 else if op == 2 then 1 else op) else op
        advVerdict a b c bd opa opash q s op'
    | _ => none
  | _ => none

end VelaVerif.Handlers.Scaling
