import VelaVerif.Model.Rewrites
import VelaVerif.Spec.RewriteSem
import VelaVerif.Handlers.Util
/-!
Line protocol for the rewrite models of C01 (`Model/Rewrites.lean`) and for the semantic checks
(`Spec/RewriteSem.lean`) applied to what the *real* rewrite produced.

Model commands (answer = what the real function must produce):
  rw_actisect <fused|-> <range>*            range = lo:hi, `n` = None            → lo:hi | -
  rw_lrelu <alphaBits> <ifmDt> <ofmDt> <scalingEqual> <convertedPrelu>           → plan
  rw_mulmax <old|new> <q> <zpC> <scaleBits>       (decision before / after repair C01-15) → keep | abs | lrelu <a> <alphaIsZero>
Semantic checks (verdict on the real rewrite's output, all elements of the type range):
  rwsem_actseq <fused|-> <range>* <got lo:hi|-> <x0> <x1>                        → ok | fail …
  rwsem_mulmax <kind> <zp> <q> <zpC> <siBits> <scBits> <soBits> <lo> <hi> <table…>
       kind = keep | abs | relu | lut (followed by hi-lo+1 table values)        → ok | fail v=… ref=… got=…
-/
namespace VelaVerif.Handlers.Rewrites
open VelaVerif VelaVerif.Handlers VelaVerif.Rewrites VelaVerif.RewriteSem VelaVerif.Requant VelaVerif.TfliteRef

def optI? (s : String) : Option (Option Int) := if s == "n" then some none else (parseInt? s).map some

def range? (s : String) : Option (ActRange Int) :=
  match s.splitOn ":" with
  | [a, b] => do some ⟨← optI? a, ← optI? b⟩
  | _ => none

def optRange? (s : String) : Option (Option (ActRange Int)) := if s == "-" then some none else (range? s).map some

def showOptI : Option Int → String
  | none => "n" | some i => toString i

def showRange (r : ActRange Int) : String := s!"{showOptI r.lo}:{showOptI r.hi}"
def showOptRange : Option (ActRange Int) → String
  | none => "-" | some r => showRange r

def bool? (s : String) : Option Bool := if s == "1" then some true else if s == "0" then some false else none

def showScalar : AlphaScalar → String
  | .one => "one" | .zero => "zero" | .mulScale => "mulscale" | .prelu => "prelu"

def showPlan : LreluPlan → String
  | .relu => "relu"
  | .lut => "lut"
  | .keep => "keep"
  | .mulMax sc idm => s!"mulmax {showScalar sc} {boolStr idm}"
  | .minMulReluAdd i32 sc => s!"minmulreluadd {boolStr i32} {showScalar sc}"

def showMulMax : MulMaxPlan → String
  | .keep => "keep" | .abs => "abs" | .lrelu a z => s!"lrelu {a} {boolStr z}"

/-- first element of `[lo, hi]` on which `f` and `g` differ -/
def firstDiff (lo hi : Int) (f g : Int → Int) : Option (Int × Int × Int) :=
  (List.range (hi - lo + 1).toNat).findSome? fun (i : Nat) =>
    let v := lo + (i : Int)
    if f v = g v then none else some (v, f v, g v)

def handle (toks : List String) : Option String :=
  match toks with
  | "rw_actisect" :: fused :: rs =>
    some <| match optRange? fused, rs.mapM range? with
    | some f, some l => "ok " ++ showOptRange (passActivation f l)
    | _, _ => "err:parse"
  | "rwsem_actseq" :: fused :: rest =>
    some <| match optRange? fused, rest.reverse with
    | some f, x1 :: x0 :: got :: rsr =>
      (match rsr.reverse.mapM range?, optRange? got, parseInt? x0, parseInt? x1 with
       | some l, some g, some a, some b =>
         match firstDiff a b (fun x => clampSeq l (clampOpt f x)) (clampOpt g) with
         | none => "ok"
         | some (v, r, gg) => s!"fail v={v} ref={r} got={gg}"
       | _, _, _, _ => "err:parse")
    | _, _ => "err:parse"
  | ["rw_lrelu", ab, idt, odt, eq, pr] =>
    some <| match parseNat? ab, DT.ofString idt, DT.ofString odt, bool? eq, bool? pr with
    | some ab, some i, some o, some e, some p =>
      (match classifyAlpha ab with
       | none => "err:alpha"
       | some a => "ok " ++ showPlan (convertLrelu a i o e p))
    | _, _, _, _, _ => "err:parse"
  | ["rw_mulmax", variant, q, zp, sb] =>
    some <| match parseInt? q, parseInt? zp, parseNat? sb with
    | some q, some zp, some sb =>
      if variant == "old" then "ok " ++ showMulMax (mulMaxPlanOld q zp)
      else if variant == "new" then
        (match mulMaxPlan q zp sb with
         | none => "err:scale"
         | some p => "ok " ++ showMulMax p)
      else "err:variant"
    | _, _, _ => "err:parse"
  | "rwsem_mulmax" :: kind :: zp :: q :: zpc :: si :: sc :: so :: lo :: hi :: tbl =>
    some <| match parseInts [zp, q, zpc, lo, hi], parseNats [si, sc, so], parseInts tbl with
    | some [zp, q, zpc, lo, hi], some [si, sc, so], some tbl =>
      (match qmMulFloat si sc so with
       | none => "err:scale"
       | some (m, s) =>
         let ref := fun v => mulMaxOrig v zp q zpc m s lo hi
         let got : Option (Int → Int) :=
           if kind == "keep" then some ref
           else if kind == "abs" then some fun v => absEntry v zp lo hi
           else if kind == "relu" then some fun v => reluEntry v zp lo hi
           else if kind == "lut" ∧ tbl.length = (hi - lo + 1).toNat then some fun v => tbl.getD (v - lo).toNat 0
           else none
         match got with
         | none => "err:kind"
         | some g =>
           match firstDiff lo hi ref g with
           | none => "ok"
           | some (v, r, gg) => s!"fail v={v} ref={r} got={gg}")
    | _, _, _ => "err:parse"
  | _ => none

end VelaVerif.Handlers.Rewrites
