import VelaVerif.Model.Rewrites
import VelaVerif.Spec.RewriteSem
import VelaVerif.Handlers.Util
/-!
Line protocol for the rewrite models of C01 (`Model/Rewrites.lean`) and for the semantic checks
(`Spec/RewriteSem.lean`) applied to what the *real* rewrite produced.

Model commands (answer = what the real function must produce):
  rw_actisect <fused|-> <range>*            range = lo:hi, `n` = None            → lo:hi | -
  rw_lrelu <alphaBits> <ifmDt> <ofmDt> <scalingEqual> <convertedPrelu>           → plan
  rw_mulmax <old|new> <q> <zpC> <scaleBits>       (decision before / after repair C01-15) → keep | abs | lrelu <a> <alphaIsZero>
Semantic checks (verdict on the real rewrite's output, all elements of the type range):
  rwsem_actseq <fused|-> <range>* <got lo:hi|-> <x0> <x1>                        → ok | fail …
  rwsem_mulmax <kind> <zp> <q> <zpC> <siBits> <scBits> <soBits> <lo> <hi> <table…>
       kind = keep | abs | relu | lut (followed by hi-lo+1 table values)        → ok | fail v=… ref=… got=…
  rw_padfold <c|d|a> kw kh sx sy top left bottom right valid sameType scalingEq u8 zp     → none | ok t l b r dw <h|a|-> <bias|->
  rw_fc <ifm tensor shape csv> <weights in> <ofm n,h,w,c>                                  → none | ok n,h,w,c n,h,w,c <w4d>
  rw_concat <rank> <axis> <sizes csv>                                                      → ok <axis4d> <offsets csv> <end> | err:axis
  rw_split <sizes csv> <idx>                                                               → ok <offset> <size>
  rw_slice <begin csv> <end csv>                                                           → ok <offset csv> <shape csv>
  rw_dw2conv <mult> <ifm depth> <ofm depth>                                                → keep | toconv | unsupported
Semantic checks on the real rewrite's output (pseudo-random tensors from <seed>, every output position):
  rwsem_padfold <c|d|a> H W C t l b r kh kw sy sx dy dx et el dw <bias|-> u8 zp seed       → ok | fail …
  rwsem_fc n,h,w,c n,h,w,c B I O seed                                                       → ok | fail …
  rwsem_concat <sizes csv> <real offsets csv>                                               → ok | fail a=…
  rwsem_split <sizes csv> idx off size                                                      → ok | fail …
  rwsem_dw2conv kh kw M <orig weights csv> <new weights csv> seed                           → ok | fail …
  rwsem_sconv H W C kh kw O sy sx <same 0/1> | W2 C2 kw2 sy2 sx2 <mode: s|v|e> et el | <orig weights csv HWIO> <new weights csv HWIO> seed
       width-folded strided convolution (`fixup_strided_conv`) against the original, every output element          → ok | fail …
  rw_dilation kw kh dw dh                                                                   → none | ok hwW hwH scW scH kw' kh'
  rwsem_dilation <c|d> H W C kh kw O dh dw kh' kw' hwH hwW zpW <orig weights csv> <new weights csv> seed   (SAME padding) → ok | fail …
-/
namespace VelaVerif.Handlers.Rewrites
open VelaVerif VelaVerif.Handlers VelaVerif.Rewrites VelaVerif.RewriteSem VelaVerif.Requant VelaVerif.TfliteRef

def optI? (s : String) : Option (Option Int) := if s == "n" then some none else (parseInt? s).map some

def range? (s : String) : Option (ActRange Int) :=
  match s.splitOn ":" with
  | [a, b] => do some ⟨← optI? a, ← optI? b⟩
  | _ => none

def optRange? (s : String) : Option (Option (ActRange Int)) := if s == "-" then some none else (range? s).map some

def showOptI : Option Int → String
  | none => "n" | some i => toString i

def showRange (r : ActRange Int) : String := s!"{showOptI r.lo}:{showOptI r.hi}"
def showOptRange : Option (ActRange Int) → String
  | none => "-" | some r => showRange r

def bool? (s : String) : Option Bool := if s == "1" then some true else if s == "0" then some false else none

def showScalar : AlphaScalar → String
  | .one => "one" | .zero => "zero" | .mulScale => "mulscale" | .prelu => "prelu"

def showPlan : LreluPlan → String
  | .relu => "relu"
  | .lut => "lut"
  | .keep => "keep"
  | .mulMax sc idm => s!"mulmax {showScalar sc} {boolStr idm}"
  | .minMulReluAdd i32 sc => s!"minmulreluadd {boolStr i32} {showScalar sc}"

def showMulMax : MulMaxPlan → String
  | .keep => "keep" | .abs => "abs" | .lrelu a z => s!"lrelu {a} {boolStr z}"

/-- first element of `[lo, hi]` on which `f` and `g` differ -/
def firstDiff (lo hi : Int) (f g : Int → Int) : Option (Int × Int × Int) :=
  (List.range (hi - lo + 1).toNat).findSome? fun (i : Nat) =>
    let v := lo + (i : Int)
    if f v = g v then none else some (v, f v, g v)


def csvNats (s : String) : Option (List Nat) := if s == "-" then some [] else (s.splitOn ",").mapM parseNat?
def csvInts (s : String) : Option (List Int) := if s == "-" then some [] else (s.splitOn ",").mapM parseInt?
def showCsv (l : List Nat) : String := if l.isEmpty then "-" else ",".intercalate (l.map toString)
def showShape4 (s : Shape4) : String := s!"{s.1},{s.2.1},{s.2.2.1},{s.2.2.2}"
def shape4? (s : String) : Option Shape4 :=
  match csvNats s with | some [a, b, c, d] => some (a, b, c, d) | _ => none

/-- deterministic pseudo-random 8-bit value -/
def prand (seed i : Nat) : Int :=
  let x := (seed * 2654435761 + i * 40503 + 12345) % 4294967296
  let y := (x * 1103515245 + 12345) % 2147483648
  ((y / 65536 % 256 : Nat) : Int) - 128

def kind? (s : String) : Option WindowKind :=
  if s == "c" then some .conv else if s == "d" then some .depthwise else if s == "a" then some .avgpool else none

/-- first output position (and channel) where the two accumulators differ -/
def firstDiffPos (oh ow oc : Nat) (f g : Nat → Nat → Nat → Int) : Option String :=
  (List.range oh).findSome? fun y => (List.range ow).findSome? fun x => (List.range oc).findSome? fun c =>
    if f y x c = g y x c then none else some s!"fail oy={y} ox={x} oc={c} ref={f y x c} got={g y x c}"

def padfoldSem (kind : WindowKind) (H W C t l b r kh kw sy sx dy dx et el : Nat) (dw : Bool) (bias : Option Int) (u8 : Bool)
    (zp : Int) (seed : Nat) : String :=
  let ekh := (kh - 1) * dy + 1
  let ekw := (kw - 1) * dx + 1
  let PH := H + t + b
  let PW := W + l + r
  if sy = 0 ∨ sx = 0 ∨ PH < ekh ∨ PW < ekw then "err:geometry" else
  let oh := (PH - ekh) / sy + 1
  let ow := (PW - ekw) / sx + 1
  let ifm : Nat → Nat → Nat → Int := fun y x c => prand seed ((y * W + x) * C + c)
  let res := match kind with
    | .conv =>
      let wgt := fun (o : Nat) (ky kx ic : Nat) => prand (seed + 7) (((o * kh + ky) * kw + kx) * C + ic)
      firstDiffPos oh ow 2
        (fun y x o => TfliteRef.convAcc PH PW C (padded H W ifm t l zp) kh kw (wgt o) sy sx dy dx 0 0 (-zp) y x)
        (fun y x o => TfliteRef.convAcc H W C ifm kh kw (wgt o) sy sx dy dx et el (-zp) y x)
    | .depthwise =>
      let wgt := fun (o : Nat) (ky kx : Nat) => prand (seed + 7) ((ky * kw + kx) * C + o)
      firstDiffPos oh ow C
        (fun y x o => TfliteRef.dwAcc PH PW (fun yy xx => padded H W ifm t l zp yy xx o) kh kw (wgt o) sy sx dy dx 0 0 (-zp) y x)
        (fun y x o => TfliteRef.dwAcc H W (fun yy xx => ifm yy xx o) kh kw (wgt o) sy sx dy dx et el (-zp) y x)
    | .avgpool =>
      firstDiffPos oh ow C
        (fun y x o => (poolSumCount PH PW (fun yy xx => padded H W ifm t l zp yy xx o) kh kw sy sx 0 0 y x).1)
        (fun y x o =>
          if dw then
            TfliteRef.dwAcc H W (fun yy xx => ifm yy xx o) kh kw (fun _ _ => 1) sy sx 1 1 et el (-zp) y x + bias.getD 0 +
              (if u8 then zp * kh * kw else 0)
          else (poolSumCount H W (fun yy xx => ifm yy xx o) kh kw sy sx et el y x).1 +
              -- positions of the window in the padding count with the zero point (a PAD that pads nothing: no such position)
              zp * (((kh * kw : Nat) : Int) - (poolSumCount H W (fun yy xx => ifm yy xx o) kh kw sy sx et el y x).2))
  res.getD "ok"

def handle (toks : List String) : Option String :=
  match toks with
  | "rw_actisect" :: fused :: rs =>
    some <| match optRange? fused, rs.mapM range? with
    | some f, some l => "ok " ++ showOptRange (passActivation f l)
    | _, _ => "err:parse"
  | "rwsem_actseq" :: fused :: rest =>
    some <| match optRange? fused, rest.reverse with
    | some f, x1 :: x0 :: got :: rsr =>
      (match rsr.reverse.mapM range?, optRange? got, parseInt? x0, parseInt? x1 with
       | some l, some g, some a, some b =>
         match firstDiff a b (fun x => clampSeq l (clampOpt f x)) (clampOpt g) with
         | none => "ok"
         | some (v, r, gg) => s!"fail v={v} ref={r} got={gg}"
       | _, _, _, _ => "err:parse")
    | _, _ => "err:parse"
  | ["rw_lrelu", ab, idt, odt, eq, pr] =>
    some <| match parseNat? ab, DT.ofString idt, DT.ofString odt, bool? eq, bool? pr with
    | some ab, some i, some o, some e, some p =>
      (match classifyAlpha ab with
       | none => "err:alpha"
       | some a => "ok " ++ showPlan (convertLrelu a i o e p))
    | _, _, _, _, _ => "err:parse"
  | ["rw_mulmax", variant, q, zp, sb] =>
    some <| match parseInt? q, parseInt? zp, parseNat? sb with
    | some q, some zp, some sb =>
      if variant == "old" then "ok " ++ showMulMax (mulMaxPlanOld q zp)
      else if variant == "new" then
        (match mulMaxPlan q zp sb with
         | none => "err:scale"
         | some p => "ok " ++ showMulMax p)
      else "err:variant"
    | _, _, _ => "err:parse"
  | "rwsem_mulmax" :: kind :: zp :: q :: zpc :: si :: sc :: so :: lo :: hi :: tbl =>
    some <| match parseInts [zp, q, zpc, lo, hi], parseNats [si, sc, so], parseInts tbl with
    | some [zp, q, zpc, lo, hi], some [si, sc, so], some tbl =>
      (match qmMulFloat si sc so with
       | none => "err:scale"
       | some (m, s) =>
         let ref := fun v => mulMaxOrig v zp q zpc m s lo hi
         let got : Option (Int → Int) :=
           if kind == "keep" then some ref
           else if kind == "abs" then some fun v => absEntry v zp lo hi
           else if kind == "relu" then some fun v => reluEntry v zp lo hi
           else if kind == "lut" ∧ tbl.length = (hi - lo + 1).toNat then some fun v => tbl.getD (v - lo).toNat 0
           else none
         match got with
         | none => "err:kind"
         | some g =>
           match firstDiff lo hi ref g with
           | none => "ok"
           | some (v, r, gg) => s!"fail v={v} ref={r} got={gg}")
    | _, _, _ => "err:parse"
  | ["rw_padfold", k, kw, kh, sx, sy, top, left, bottom, right, valid, same, sceq, u8, zp] =>
    some <| match kind? k, parseNats [kw, kh, sx, sy, top, left, bottom, right], [valid, same, sceq, u8].mapM bool?, parseInt? zp with
    | some k, some [kw, kh, sx, sy, top, left, bottom, right], some [valid, same, sceq, u8], some zp =>
      (match replacePadByHwPad ⟨k, kw, kh, sx, sy, top, left, bottom, right, valid, same, sceq, u8, zp⟩ with
       | none => "none"
       | some o =>
         let (t, l, b, r) := o.explicit
         let rd := match o.rounding with | some .halfUp => "h" | some .awayZero => "a" | none => "-"
         let bs := match o.bias with | some v => toString v | none => "-"
         s!"ok {t} {l} {b} {r} {boolStr o.toDepthwise} {rd} {bs}")
    | _, _, _, _ => "err:parse"
  | ["rwsem_padfold", k, h, w, c, t, l, b, r, kh, kw, sy, sx, dy, dx, et, el, dw, bias, u8, zp, seed] =>
    some <| match kind? k, parseNats [h, w, c, t, l, b, r, kh, kw, sy, sx, dy, dx, et, el, seed], bool? dw, bool? u8, parseInt? zp with
    | some k, some [h, w, c, t, l, b, r, kh, kw, sy, sx, dy, dx, et, el, seed], some dw, some u8, some zp =>
      let bias := if bias == "-" then some none else (parseInt? bias).map some
      (match bias with
       | none => "err:parse"
       | some bias => padfoldSem k h w c t l b r kh kw sy sx dy dx et el dw bias u8 zp seed)
    | _, _, _, _, _ => "err:parse"
  | ["rw_fc", shp, win, ofm] =>
    some <| match csvNats shp, parseNat? win, shape4? ofm with
    | some shp, some win, some ofm =>
      (match rewriteFc shp win ofm with
       | none => "none"
       | some (i, o, w4) => s!"ok {showShape4 i} {showShape4 o} {boolStr w4}")
    | _, _, _ => "err:parse"
  | ["rwsem_fc", i4, o4, bb, ii, oo, seed] =>
    some <| match shape4? i4, shape4? o4, parseNats [bb, ii, oo, seed] with
    | some (n, h, w, c), some (n2, h2, w2, c2), some [B, I, O, seed] =>
      if c ≠ I ∨ n * h * w ≠ B ∨ n2 * h2 * w2 ≠ B ∨ c2 ≠ O then s!"fail shapes: ifm {n},{h},{w},{c} ofm {n2},{h2},{w2},{c2} for B={B} I={I} O={O}"
      else
        let x : Nat → Int := fun i => prand seed i
        let wt : Nat → Int := fun i => prand (seed + 3) i
        -- position p of the NHWC layout [n, h, w, c] (batch outermost) against batch row p of the reference
        let bad := (List.range B).findSome? fun p => (List.range (min O 3)).findSome? fun o =>
          let bn := p / (h * w)
          let y := p % (h * w) / w
          let xx := p % w
          let cv := TfliteRef.convAcc h w I (fun yy xc ch => x (((bn * h + yy) * w + xc) * I + ch)) 1 1 (fun _ _ ic => wt (o * I + ic) + 2) 1 1 1 1 0 0 5 y xx
          let fc := fcAcc I x wt 5 2 p o
          if cv = fc then none else some s!"fail row={p} o={o} ref={fc} got={cv}"
        bad.getD "ok"
    | _, _, _ => "err:parse"
  | ["rw_concat", rank, axis, sizes] =>
    some <| match parseNat? rank, parseInt? axis, csvNats sizes with
    | some rank, some axis, some sizes =>
      (match axis4D rank axis with
       | none => "err:axis"
       | some a => let (offs, e) := concatOffsets sizes; s!"ok {a} {showCsv offs} {e}")
    | _, _, _ => "err:parse"
  | ["rwsem_concat", sizes, offs] =>
    some <| match csvNats sizes, csvNats offs with
    | some sizes, some offs =>
      if offs.length ≠ sizes.length then "fail count" else
      let total := sumL sizes
      let cps := sizes.zip offs
      let bad := (List.range (total + 4)).findSome? fun a =>
        let w := writers cps a
        if a < total then
          (if w ≠ 1 then some s!"fail a={a} written {w} times"
           else if writtenFrom 0 cps a none ≠ locate sizes a then some s!"fail a={a} holds another element than the reference" else none)
        else if w ≠ 0 then some s!"fail a={a} beyond the output is written" else none
      bad.getD "ok"
    | _, _ => "err:parse"
  | ["rw_split", sizes, idx] =>
    some <| match csvNats sizes, parseNat? idx with
    | some sizes, some idx => s!"ok {splitOffset sizes idx} {sizes.getD idx 0}"
    | _, _ => "err:parse"
  | ["rwsem_split", sizes, idx, off, size] =>
    some <| match csvNats sizes, parseNats [idx, off, size] with
    | some sizes, some [idx, off, size] =>
      if size ≠ sizes.getD idx 0 then s!"fail size {size} of output {idx}" else
      ((List.range size).findSome? fun j =>
        if locate sizes (off + j) = some (idx, j) then none else some s!"fail j={j} reads input coordinate {off + j}").getD "ok"
    | _, _ => "err:parse"
  | ["rw_slice", b, e] =>
    some <| match csvNats b, csvNats e with
    | some b, some e => let (o, sh) := sliceRead b e; s!"ok {showCsv o} {showCsv sh}"
    | _, _ => "err:parse"
  | ["rw_dw2conv", m, i, o] =>
    some <| match parseNats [m, i, o] with
    | some [m, i, o] => (match convertDepthwiseToConv m i o with | .keep => "keep" | .toConv => "toconv" | .unsupported => "unsupported")
    | _ => "err:parse"
  | ["rwsem_dw2conv", kh, kw, m, ow, nw, seed] =>
    some <| match parseNats [kh, kw, m, seed], csvInts ow, csvInts nw with
    | some [kh, kw, m, seed], some ow, some nw =>
      if ow.length ≠ kh * kw * m ∨ nw.length ≠ kh * kw * m then "fail weight count" else
      let H := 5; let W := 4
      let ifm : Nat → Nat → Int := fun y x => prand seed (y * W + x)
      -- original: depthwise weights [kh, kw, 1, M]; rewritten: convolution weights [kh, kw, M(out), 1(in)]... both HW-major
      let oa := ow.toArray; let na := nw.toArray
      let bad := (List.range m).findSome? fun oc => (List.range 3).findSome? fun oy => (List.range 2).findSome? fun ox =>
        let d := TfliteRef.dwAcc H W ifm kh kw (fun ky kx => oa.getD ((ky * kw + kx) * m + oc) 0) 1 1 1 1 0 0 3 oy ox
        let c := TfliteRef.convAcc H W 1 (fun y x _ => ifm y x) kh kw (fun ky kx _ => na.getD ((ky * kw + kx) * m + oc) 0) 1 1 1 1 0 0 3 oy ox
        if d = c then none else some s!"fail oc={oc} oy={oy} ox={ox} ref={d} got={c}"
      bad.getD "ok"
    | _, _, _ => "err:parse"
  | ["rwsem_sconv", h, w, c, kh, kw, o, sy, sx, same, w2, c2, kw2, sy2, sx2, mode, et, el, ow_, nw_, seed] =>
    some <| match parseNats [h, w, c, kh, kw, o, sy, sx, w2, c2, kw2, sy2, sx2, et, el, seed], bool? same, csvInts ow_, csvInts nw_ with
    | some [H, W, C, kh, kw, O, sy, sx, W2, C2, kw2, sy2, sx2, et, el, seed], some same, some ow_, some nw_ =>
      if sy = 0 ∨ sx = 0 ∨ sy2 = 0 ∨ sx2 = 0 ∨ C = 0 then "err:geometry"
      else if ow_.length ≠ kh * kw * C * O ∨ nw_.length ≠ kh * kw2 * C2 * O then "fail weight count"
      else if W2 * C2 ≠ W * C then s!"fail the re-shaped IFM {W2}x{C2} has another row size than {W}x{C}"
      else
        let oh := outSize same H sy kh
        let ow := outSize same W sx kw
        let pt := padBefore same H sy kh oh
        let pl := padBefore same W sx kw ow
        -- the rewritten operator: SAME / VALID padding is recomputed from its own geometry, explicit padding is taken as is
        let same2 := mode == "s"
        let oh2 := if mode == "e" then oh else outSize same2 H sy2 kh
        let ow2 := if mode == "e" then ow else outSize same2 W2 sx2 kw2
        let pt2 := if mode == "e" then et else padBefore same2 H sy2 kh oh2
        let pl2 := if mode == "e" then el else padBefore same2 W2 sx2 kw2 ow2
        if oh2 ≠ oh ∨ ow2 ≠ ow then s!"fail output size {oh2}x{ow2} instead of {oh}x{ow}"
        else
          let oa := ow_.toArray; let na := nw_.toArray
          let row : Nat → Nat → Int := fun y i => prand seed (y * (W * C) + i)        -- one IFM row as W*C (= W2*C2) values
          let ifm1 : Nat → Nat → Nat → Int := fun y x ch => row y (x * C + ch)
          let ifm2 : Nat → Nat → Nat → Int := fun y x ch => row y (x * C2 + ch)
          (firstDiffPos oh ow O
            (fun y x oc => TfliteRef.convAcc H W C ifm1 kh kw (fun ky kx ic => oa.getD (((ky * kw + kx) * C + ic) * O + oc) 0) sy sx 1 1 pt pl 3 y x)
            (fun y x oc => TfliteRef.convAcc H W2 C2 ifm2 kh kw2 (fun ky kx ic => na.getD (((ky * kw2 + kx) * C2 + ic) * O + oc) 0) sy2 sx2 1 1 pt2 pl2 3 y x)).getD "ok"
    | _, _, _, _ => "err:parse"
  | ["rw_dilation", kw, kh, dw, dh] =>
    some <| match parseNats [kw, kh, dw, dh] with
    | some [kw, kh, dw, dh] =>
      (match fixupDilation kw kh dw dh with
       | none => "none"
       | some o => s!"ok {o.hwW} {o.hwH} {o.scW} {o.scH} {o.kw} {o.kh}")
    | _ => "err:parse"
  | ["rwsem_dilation", k, h, w, c, kh, kw, o, dh, dw, kh2, kw2, hwh, hww, zpw, ow_, nw_, seed] =>
    some <| match kind? k, parseNats [h, w, c, kh, kw, o, dh, dw, kh2, kw2, hwh, hww, seed], parseInt? zpw, csvInts ow_, csvInts nw_ with
    | some k, some [H, W, C, kh, kw, O, dh, dw, kh2, kw2, hwh, hww, seed], some zpw, some ow_, some nw_ =>
      let dwise := k == .depthwise
      let ic := if dwise then 1 else C
      if ow_.length ≠ kh * kw * (if dwise then C else C * O) ∨ nw_.length ≠ kh2 * kw2 * (if dwise then C else C * O) then "fail weight count"
      else if (kh - 1) * dh ≠ (kh2 - 1) * hwh ∨ (kw - 1) * dw ≠ (kw2 - 1) * hww then s!"fail the dilated extent changes: {kh2}x{kw2} dilation {hwh},{hww}"
      else
        let ekh := (kh - 1) * dh + 1
        let ekw := (kw - 1) * dw + 1
        let pt := padBefore true H 1 ekh H
        let pl := padBefore true W 1 ekw W
        let oa := ow_.toArray; let na := nw_.toArray
        let ifm : Nat → Nat → Nat → Int := fun y x ch => prand seed ((y * W + x) * C + ch)
        let nout := if dwise then C else O
        -- weights HWIO ([kh, kw, C, O]); depthwise [kh, kw, C, 1]: channel `oc` of the IFM with its own filter
        (firstDiffPos H W nout
          (fun y x oc =>
            if dwise then TfliteRef.dwAcc H W (fun yy xx => ifm yy xx oc) kh kw (fun ky kx => oa.getD ((ky * kw + kx) * C + oc) 0 - zpw) 1 1 dh dw pt pl 3 y x
            else TfliteRef.convAcc H W ic ifm kh kw (fun ky kx i => oa.getD (((ky * kw + kx) * C + i) * O + oc) 0 - zpw) 1 1 dh dw pt pl 3 y x)
          (fun y x oc =>
            if dwise then TfliteRef.dwAcc H W (fun yy xx => ifm yy xx oc) kh2 kw2 (fun ky kx => na.getD ((ky * kw2 + kx) * C + oc) 0 - zpw) 1 1 hwh hww pt pl 3 y x
            else TfliteRef.convAcc H W ic ifm kh2 kw2 (fun ky kx i => na.getD (((ky * kw2 + kx) * C + i) * O + oc) 0 - zpw) 1 1 hwh hww pt pl 3 y x)).getD "ok"
    | _, _, _, _, _ => "err:parse"
  | _ => none

end VelaVerif.Handlers.Rewrites
