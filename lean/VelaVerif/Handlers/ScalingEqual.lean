import VelaVerif.Model.ScalingEqual
import VelaVerif.Spec.ScalingEqualView
import VelaVerif.Handlers.Scaling
/-!
Protocol handler for the "same quantisation" predicate of `tensor.py` (C09).

An attribute value `V` is `N` (Python `None`) or `A <rank> <dim>… <n> <D>…` with `n` elements `D` in the
four-token float form of `Handlers/Scaling.lean` (`f s m e | z s 0 0 | i s 0 0 | n 0 0 0`; integers travel as
the float they equal).  A quantisation `Q` is `V V` (scale, zero point); `-` stands for an `other` that is not
a `QuantizationParameters`.  A tensor `T` is `<is_int 0|1> (Q | -)`.

  sceq Q (Q | -)            model: `is_scaling_equal`                       -> 1 | 0
  tsceq T T                 model: `check_quantized_tens_scaling_equal`     -> 1 | 0
  sceqspec Q (Q | -) v      Spec verdict on the implementation's answer `v` -> 1 | 0:<clause>
-/
namespace VelaVerif.Handlers.ScalingEqual
open VelaVerif VelaVerif.Handlers VelaVerif.Scaling VelaVerif.ScalingEqual

def parseDbls : Nat → List String → Option (List Dbl × List String)
  | 0, rest => some ([], rest)
  | n + 1, rest => do
    let (d, rest) ← Scaling.parseDbl rest
    let (ds, rest) ← parseDbls n rest
    some (d :: ds, rest)

def takeNats : Nat → List String → Option (List Nat × List String)
  | 0, rest => some ([], rest)
  | n + 1, t :: rest => do
    let x ← parseNat? t
    let (xs, rest) ← takeNats n rest
    some (x :: xs, rest)
  | _, [] => none

def parseQVal : List String → Option (QVal × List String)
  | "N" :: rest => some (.none, rest)
  | "A" :: r :: rest => do
    let r ← parseNat? r
    if r > 8 then none else
    let (shape, rest) ← takeNats r rest
    match rest with
    | n :: rest => do
      let n ← parseNat? n
      let (vals, rest) ← parseDbls n rest
      some (.arr ⟨shape, vals⟩, rest)
    | [] => none
  | _ => none

def parseQuant (toks : List String) : Option (Quant × List String) := do
  let (s, rest) ← parseQVal toks
  let (z, rest) ← parseQVal rest
  some (⟨s, z⟩, rest)

def parseOther : List String → Option (Option Quant × List String)
  | "-" :: rest => some (none, rest)
  | toks => do
    let (q, rest) ← parseQuant toks
    some (some q, rest)

def parseTens : List String → Option (Tens × List String)
  | i :: rest => do
    let i ← parseNat? i
    let (q, rest) ← parseOther rest
    some (⟨i == 1, q⟩, rest)
  | [] => none

def wfOther : Option Quant → Bool
  | none => true
  | some q => decide q.WF

def handle : List String → Option String
  | "sceq" :: rest => do
    let (a, rest) ← parseQuant rest
    let (b, _) ← parseOther rest
    if ¬ (decide a.WF && wfOther b) then some "err:malformed" else
    some (boolStr (isScalingEqual a b))
  | "tsceq" :: rest => do
    let (a, rest) ← parseTens rest
    let (b, _) ← parseTens rest
    if ¬ (wfOther a.quant && wfOther b.quant) then some "err:malformed" else
    some (boolStr (checkQuantizedTensScalingEqual a b))
  | "sceqspec" :: rest => do
    let (a, rest) ← parseQuant rest
    let (b, rest) ← parseOther rest
    let v ← parseNat? (← rest.head?)
    if ¬ (decide a.WF && wfOther b) then some "err:malformed" else
    match b with
    | none => some (if v == 0 then "1" else "0:equal-to-none")
    | some b => some (Spec.ScalingEqual.verdict (Spec.ScalingEqual.ofQuant a) (Spec.ScalingEqual.ofQuant b) (v == 1))
  | _ => none

end VelaVerif.Handlers.ScalingEqual
