import VelaVerif.Model.SoftmaxTable
import VelaVerif.Spec.SoftmaxRef
import VelaVerif.Handlers.Util
import VelaVerif.Handlers.FpMath
import VelaVerif.Handlers.Scaling
import VelaVerif.Handlers.Lut
/-!
Protocol handler for the softmax exp table (C19).  `beta` and `input_scale` travel as the IEEE-754 bit
patterns (decimal `Nat`) of `np.double(beta)` / `np.double(input_scale)`.

* `smexp <beta bits> <scale bits>` → `ok v0 … v255 | err:<kind>`: `Model/SoftmaxTable.lean`; the rounding product
  `double(beta) * double(input_scale) * 2^26` is evaluated here with IEEE `Float` and handed to the model as exact
  integers.
* `smexpq <beta bits> <scale bits>` → `ok <multiplier> <shift>`: the model's `quantise_scale(real_beta)` step (before the
  renormalisation of a multiplier `2^31`; used to count how often that corner is exercised).
* `smexpchk <beta bits> <scale bits> v0 … v255` → verdict of `Spec/SoftmaxRef.lean` (exact integer arithmetic, no
  `Float`) on the *given* table: `1 mult <m> lshift <s>` | `0 index i expected e got g mult <m> lshift <s>` |
  `na` (a `TFLITE_CHECK` of the reference fails or an argument is not a positive finite double).
-/
namespace VelaVerif.Handlers.SoftmaxTable
open VelaVerif VelaVerif.Handlers VelaVerif.Scaling

def errStr : SoftmaxTable.Err → String
  | .fp e => Handlers.FpMath.errStr e
  | .sc e => Handlers.Scaling.errStr e

def posFinite : Dbl → Option (Nat × Int)
  | .fin false m e => if m = 0 then none else some (m, e)
  | _ => none

def handle : List String → Option String
  | ["smexp", b, s] => do
    let b := Float.ofBits (← parseNat? b).toUInt64
    let s := Float.ofBits (← parseNat? s).toUInt64
    let prod := Handlers.Scaling.ofFloat (b * s * 67108864.0)
    match SoftmaxTable.generateExpTable prod with
    | .ok vs => some ("ok " ++ joinInts vs)
    | .error e => some (errStr e)
  | ["smexpq", b, s] => do
    -- the (multiplier, shift) pair the model's quantise_scale step produces (classification of a rejected input)
    let b := Float.ofBits (← parseNat? b).toUInt64
    let s := Float.ofBits (← parseNat? s).toUInt64
    let prod := Handlers.Scaling.ofFloat (b * s * 67108864.0)
    some (Handlers.Scaling.pairStr (quantiseScale (SoftmaxTable.pyMin prod SoftmaxTable.maxRealMultiplier)))
  | "smexpchk" :: b :: s :: real => do
    let b := Handlers.Scaling.dblOfBits64 (← parseNat? b)
    let s := Handlers.Scaling.dblOfBits64 (← parseNat? s)
    let real ← parseInts real
    match posFinite b, posFinite s with
    | some (mb, eb), some (ms, es) =>
      let r := SoftmaxRef.inputBetaRealMultiplier mb eb ms es
      match SoftmaxRef.quantizeMultiplierGreaterThanOne r.1 r.2 with
      | none => some "na"
      | some (mult, ls) =>
        if ¬ real.all (fun v => decide (0 ≤ v) && decide (v ≤ 2147483647)) then some "0 range" else
        some (Handlers.Lut.cmpTables (SoftmaxRef.expTable mult ls) real ++ s!" mult {mult} lshift {ls}")
    | _, _ => some "na"
  | _ => none

end VelaVerif.Handlers.SoftmaxTable
