import VelaVerif.Model.Rewrites2
import VelaVerif.Spec.RewriteSem2
import VelaVerif.Handlers.Rewrites
/-!
Line protocol for the lowering models of C01 (`Model/Rewrites2.lean`) and for the semantic checks (`Spec/RewriteSem2.lean`)
applied to what the *real* lowering produced.

Model commands:
  rw2_tconv <same> kh kw sy sx H W OH OW                       → none | ok <transpose> sy sx t l b r
  rw2_groups G C O                                             → none | ok cg og off:start:end,…
  rw2_mean <shape csv> <reduce csv>                            → none | ok <ifm shape> <inter shape> h w n hpc off:kh:rh:rw,…
  rw2_meanscale <siBits> <soBits> n                            → ok mult shiftVela | err:…
  rw2_slice <raw|clamp> <shape> <begin> <end> bm em sm nm      → ok <offset_begin> <offset_end> <valid>
  rw2_resize <bilinear> <align> H W n                          → none | ok steps <h:w,…|-> <last>
  rw2_prelu <const> qmin qmax zp <scaleBits> <scalingEqual>    → ok relu | lrelu a | mulmax idm | minmulreluadd
  rw2_padconcat <shape> <b:a,…>                                → keep | split <L|F> b a | concat <L|F> <sizes> idx
Semantic checks of the real output (pseudo-random tensors, every output position):
  rwsem2_tconv <same> H W C kh kw O sy sx OH OW <upscale n|t|x> ksy ksx t l b r seed
  rwsem2_groups H W C O G kh kw sy sx <same> <off:woff:n,…> <orig weights HWIO csv> <part weights csv>… seed
  rwsem2_mean h w <off:kh,…> seed
  rwsem2_meanscale siBits soBits n mult shiftVela zpOut lo hi smin smax step
  rwsem2_slice <shape> <begin> <end> bm em sm nm <real begin> <real end>
  rwsem2_resize <b|n> <align> <half> H W steps k <v|e|s|c> et el eb er <dw weights csv|-> seed
  rwsem2_prelu_lut zpIn zpOut qA zpA siBits saBits soBits lo hi <table…>
-/
namespace VelaVerif.Handlers.Rewrites2
open VelaVerif VelaVerif.Handlers VelaVerif.Handlers.Rewrites VelaVerif.Rewrites VelaVerif.Rewrites2 VelaVerif.RewriteSem VelaVerif.RewriteSem2
  VelaVerif.Requant VelaVerif.TfliteRef

def showInts (l : List Int) : String := if l.isEmpty then "-" else ",".intercalate (l.map toString)

def triples? (s : String) (k : Nat) : Option (List (List Nat)) :=
  if s == "-" then some [] else
  (s.splitOn ",").mapM fun t => do
    let l ← (t.splitOn ":").mapM parseNat?
    if l.length = k then some l else none

def showLast : ResizeLast → String
  | .avgPoolValid k => s!"avgvalid:{k}"
  | .avgPoolPadded k => s!"avgpadded:{k}"
  | .depthwiseSelect k c => s!"dwselect:{k}:{c}"
  | .copy => "copy"

/-- round half away from zero of `num / den`, `den > 0` -/
def roundDiv (num den : Int) : Int :=
  if num ≥ 0 then (2 * num + den) / (2 * den) else -((2 * (-num) + den) / (2 * den))

def tconvSem (same : Bool) (H W C kh kw O sy sx OH OW : Nat) (up : String) (ksy ksx t l b r seed : Nat) : String :=
  if sy = 0 ∨ sx = 0 ∨ ksy = 0 ∨ ksx = 0 ∨ kh = 0 ∨ kw = 0 then "err:geometry" else
  let zp : Int := 3
  let ifm : Nat → Nat → Nat → Int := fun y x c => prand seed ((y * W + x) * C + c)
  let wgt := fun (o : Nat) (ky kx ic : Nat) => prand (seed + 7) (((o * kh + ky) * kw + kx) * C + ic)
  let pt := tconvRefPad same OH sy kh
  let pl := tconvRefPad same OW sx kw
  -- the extent of the upscaled image the registers imply (Spec/NpuSem.execBlock)
  let UH := (OH - 1) * ksy + kh - t - b
  let UW := (OW - 1) * ksx + kw - l - r
  let fy := if up == "t" then 2 else 1
  let fx := if up == "t" then 2 else 1
  if up == "x" then "fail unexpected resampling mode" else
  if (OH - 1) * ksy + kh < t + b ∨ (OW - 1) * ksx + kw < l + r then s!"fail padding {t},{l},{b},{r} exceeds the window extent" else
  if up == "t" ∧ ((UH + 1) / 2 ≠ H ∨ (UW + 1) / 2 ≠ W) then
    s!"fail the operation reads an upscaled image of {UH}x{UW}, the IFM {H}x{W} upscales to at most {2 * H}x{2 * W}" else
  if up == "n" ∧ (UH ≠ H ∨ UW ≠ W) then s!"fail the operation reads {UH}x{UW} of the IFM {H}x{W}" else
  let src := if up == "t" then zeroInserted fy fx ifm zp else ifm
  (firstDiffPos OH OW O
    (fun y x o => transposeConvAcc H W C ifm kh kw (wgt o) sy sx pt pl (-zp) y x)
    (fun y x o => TfliteRef.convAcc UH UW C src kh kw (flipped kh kw (wgt o)) ksy ksx 1 1 t l (-zp) y x)).getD "ok"

def handle (toks : List String) : Option String :=
  match toks with
  | ["rw2_tconv", same, kh, kw, sy, sx, h, w, oh, ow] =>
    some <| match bool? same, parseNats [kh, kw, sy, sx, h, w, oh, ow] with
    | some same, some [kh, kw, sy, sx, h, w, oh, ow] =>
      (match lowerTconv same kh kw sy sx h w oh ow with
       | none => "none"
       | some o => let (t, l, b, r) := o.pad; s!"ok {boolStr o.fix.transposeUpscale} {o.fix.strideY} {o.fix.strideX} {t} {l} {b} {r}")
    | _, _ => "err:parse"
  | ["rwsem2_tconv", same, h, w, c, kh, kw, o, sy, sx, oh, ow, up, ksy, ksx, t, l, b, r, seed] =>
    some <| match bool? same, parseNats [h, w, c, kh, kw, o, sy, sx, oh, ow, ksy, ksx, t, l, b, r, seed] with
    | some same, some [h, w, c, kh, kw, o, sy, sx, oh, ow, ksy, ksx, t, l, b, r, seed] =>
      tconvSem same h w c kh kw o sy sx oh ow up ksy ksx t l b r seed
    | _, _ => "err:parse"
  | ["rw2_groups", g, c, o] =>
    some <| match parseNats [g, c, o] with
    | some [g, c, o] =>
      (match convertConvGroups g c o with
       | none => "none"
       | some cg => s!"ok {cg.ifmDepthCg} {cg.filtersCg} " ++ ",".intercalate (cg.groups.map fun (a, b, e) => s!"{a}:{b}:{e}"))
    | _ => "err:parse"
  | "rwsem2_groups" :: h :: w :: c :: o :: g :: kh :: kw :: sy :: sx :: same :: parts :: origW :: rest =>
    some <| match parseNats [h, w, c, o, g, kh, kw, sy, sx], bool? same, triples? parts 3, csvInts origW, rest.reverse with
    | some [H, W, C, O, G, kh, kw, sy, sx], some same, some parts, some origW, seedS :: pwsR =>
      (match parseNat? seedS, pwsR.reverse.mapM csvInts with
       | some seed, some pws =>
         if G = 0 ∨ sy = 0 ∨ sx = 0 then "err:geometry" else
         let Cg := C / G
         let Og := O / G
         if pws.length ≠ parts.length then "fail part count" else
         if origW.length ≠ kh * kw * Cg * O then "fail original weight count" else
         let oh := outSize same H sy kh
         let ow := outSize same W sx kw
         let pt := padBefore same H sy kh oh
         let pl := padBefore same W sx kw ow
         let ifm : Nat → Nat → Nat → Int := fun y x ch => prand seed ((y * W + x) * C + ch)
         let oa := origW.toArray
         let refW := fun (oc ky kx ic : Nat) => oa.getD (((ky * kw + kx) * Cg + ic) * O + oc) 0
         let pz := parts.zip (pws.map List.toArray)
         let bad := (List.range O).findSome? fun oc =>
           -- the part(s) whose concatenation range holds channel oc
           let owners := pz.filter fun (p, _) => p.getD 1 0 ≤ oc ∧ oc < p.getD 1 0 + p.getD 2 0
           match owners with
           | [(p, pw)] =>
             let off := p.getD 0 0; let woff := p.getD 1 0; let n := p.getD 2 0
             if pw.size ≠ kh * kw * Cg * n then some s!"fail weight count of the part at {woff}" else
             let partW := fun (ky kx ic : Nat) => pw.getD (((ky * kw + kx) * Cg + ic) * n + (oc - woff)) 0
             (List.range oh).findSome? fun y => (List.range ow).findSome? fun x =>
               let r := groupConvAcc H W Cg Og ifm kh kw refW sy sx 1 1 pt pl 3 y x oc
               let gt := TfliteRef.convAcc H W Cg (fun yy xx ic => ifm yy xx (off + ic)) kh kw partW sy sx 1 1 pt pl 3 y x
               if r = gt then none else some s!"fail oc={oc} oy={y} ox={x} ref={r} got={gt}"
           | l => some s!"fail output channel {oc} is written by {l.length} parts"
         bad.getD "ok"
       | _, _ => "err:parse")
    | _, _, _, _, _ => "err:parse"
  | ["rw2_mean", shp, red] =>
    some <| match csvNats shp, csvNats red with
    | some shp, some red =>
      if shp.length ≠ red.length ∨ shp.length > 4 then "err:rank" else
      (match meanPlan shp (red.map (· != 0)) with
       | none => "none"
       | some p => s!"ok {showCsv p.ifmShape} {showCsv p.interShape} {p.h} {p.w} {p.n} {p.heightPerConv} " ++
           ",".intercalate (p.convs.map fun (a, b, c, d) => s!"{a}:{b}:{c}:{d}"))
    | _, _ => "err:parse"
  | ["rwsem2_mean", h, w, chunks, seed] =>
    some <| match parseNats [h, w, seed], triples? chunks 2 with
    | some [h, w, seed], some chunks =>
      let ifm : Nat → Nat → Int := fun y x => prand seed (y * w + x)
      let cs := chunks.map fun c => (c.getD 0 0, c.getD 1 0)
      let a := splitSum ifm 3 w cs
      let b := windowSum ifm 3 0 h w
      -- every row exactly once
      let cover := (List.range (h + 2)).findSome? fun r =>
        let k := (cs.filter fun (o, n) => o ≤ r ∧ r < o + n).length
        if (r < h ∧ k ≠ 1) ∨ (r ≥ h ∧ k ≠ 0) then some s!"fail row {r} is summed {k} times" else none
      match cover with
      | some e => e
      | none => if a = b then "ok" else s!"fail sum ref={b} got={a}"
    | _, _ => "err:parse"
  | ["rw2_meanscale", si, so, n] =>
    some <| match parseNats [si, so, n] with
    | some [si, so, n] =>
      (match qmRatioDouble si so with
       | none => "err:scale"
       | some (m, e) =>
         -- `quantise_scale`: shift = 31 - exponent, outside [0, 64) the scale is set to (0, 16)
         let sv := 31 - e
         let (m, sv) := if 0 ≤ sv ∧ sv < 64 then (m, sv) else (0, 16)
         match meanScale m sv n with
         | none => "none"
         | some (mult, s) => s!"ok {mult} {s}")
    | _ => "err:parse"
  | ["rwsem2_meanscale", si, so, n, mult, sv, zpo, lo, hi, smin, smax, step] =>
    some <| match parseNats [si, so, n, sv, step], parseInts [mult, zpo, lo, hi, smin, smax] with
    | some [si, so, n, sv, step], some [mult, zpo, lo, hi, smin, smax] =>
      (match f32Decode si, f32Decode so with
       | some (m1, e1), some (m2, e2) =>
         if n = 0 ∨ step = 0 ∨ m2 = 0 then "err:geometry" else
         -- real mean of a sum S: S * m1 * 2^e1 / (n * m2 * 2^e2)
         let (pn, pd) : Int × Int := if e1 ≥ e2 then ((m1 : Int) * (2 : Int) ^ (e1 - e2).toNat, (m2 : Int)) else ((m1 : Int), (m2 : Int) * (2 : Int) ^ (e2 - e1).toNat)
         let cnt := ((smax - smin) / (step : Int) + 1).toNat
         let bad := (List.range cnt).findSome? fun (i : Nat) =>
           let s := smin + ((i : Nat) : Int) * ((step : Nat) : Int)
           let ref := clamp (roundDiv (s * pn) ((n : Int) * pd) + zpo) lo hi
           let got := meanLowered s mult sv zpo lo hi
           if got - ref ≤ 1 ∧ ref - got ≤ 1 then none else some s!"fail sum={s} ref={ref} got={got}"
         bad.getD "ok"
       | _, _ => "err:scale")
    | _, _ => "err:parse"
  | ["rw2_slice", variant, shp, b, e, bm, em, sm, nm] =>
    some <| match csvNats shp, csvInts b, csvInts e, parseNats [bm, em, sm, nm] with
    | some shp, some b, some e, some [bm, em, sm, nm] =>
      let (ob, oe, v) := sliceRanges (variant == "clamp") shp b e bm em sm nm
      s!"ok {showInts ob} {showInts oe} {boolStr v}"
    | _, _, _, _ => "err:parse"
  | ["rwsem2_slice", shp, b, e, bm, em, sm, nm, rb, re] =>
    some <| match csvNats shp, csvInts b, csvInts e, parseNats [bm, em, sm, nm], csvInts rb, csvInts re with
    | some shp, some b, some e, some [bm, em, _sm, nm], some rb, some re =>
      -- the window of the reference (clamped starts / stops; a shrunk dimension is one element wide; `sm` is indexed like the
      -- specification and `sm` and `nm` are never both set, so position = dimension where it matters)
      let rs := refOffsets bm nm true shp b 0
      let rstop := refOffsets em nm false shp e 0
      let bad := (List.range shp.length).findSome? fun i =>
        let s := rs.getD i 0
        let t := if bit _sm i then s + 1 else rstop.getD i 0
        if rb.getD i 0 = s ∧ re.getD i 0 = t then none
        else some s!"fail dimension {i}: the reference reads [{s},{t}), the offsets say [{rb.getD i 0},{re.getD i 0})"
      if rb.length ≠ shp.length ∨ re.length ≠ shp.length then "fail rank" else bad.getD "ok"
    | _, _, _, _, _, _ => "err:parse"
  | ["rw2_resize", bl, al, h, w, n] =>
    some <| match bool? bl, bool? al, parseNats [h, w, n] with
    | some bl, some al, some [h, w, n] =>
      (match resizePlan bl al h w n with
       | none => "none"
       | some p => s!"ok {p.steps} " ++ (if p.shapes.isEmpty then "-" else ",".intercalate (p.shapes.map fun (a, b) => s!"{a}:{b}")) ++ " " ++ showLast p.last)
    | _, _, _ => "err:parse"
  | ["rwsem2_resize", kind, al, hp, h, w, steps, k, mode, et, el, eb, er, dww, seed] =>
    some <| match bool? al, bool? hp, parseNats [h, w, steps, k, et, el, eb, er, seed], csvInts dww with
    | some al, some hp, some [H, W, steps, k, et, el, eb, er, seed], some dww =>
      if H = 0 ∨ W = 0 ∨ k = 0 then "err:geometry" else
      let f : Nat → Nat → Int := fun y x => prand seed (y * W + x)
      let up := upN steps f
      let UH := H * 2 ^ steps
      let UW := W * 2 ^ steps
      -- output size of the last operator over the upscaled image
      let (oh, ow) := if mode == "v" then (UH + 1 - k, UW + 1 - k) else if mode == "e" then (UH + et + eb + 1 - k, UW + el + er + 1 - k) else (UH, UW)
      let fac := 2 ^ steps
      if kind == "n" then
        -- nearest neighbour: every output element is one input element
        let (OH, OW) := if al then ((H - 1) * fac + 1, (W - 1) * fac + 1) else (H * fac, W * fac)
        let (nh, dh) := if al ∧ OH > 1 then (H - 1, OH - 1) else (H, OH)
        let (nw, dw) := if al ∧ OW > 1 then (W - 1, OW - 1) else (W, OW)
        if (oh, ow) ≠ (OH, OW) then s!"fail output {oh}x{ow}, the resize gives {OH}x{OW}" else
        let got : Nat → Nat → Int :=
          if mode == "c" ∨ k = 1 then fun y x => up y x
          else fun y x => TfliteRef.dwAcc UH UW up k k (fun ky kx => dww.getD (ky * k + kx) 0) 1 1 1 1 et el 0 y x
        ((List.range OH).findSome? fun y => (List.range OW).findSome? fun x =>
          let r := f (nearestSrc y nh dh al hp H) (nearestSrc x nw dw al hp W)
          if got y x = r then none else some s!"fail oy={y} ox={x} ref={r} got={got y x}").getD "ok"
      else
        let (OH, OW) := if al then ((H - 1) * fac + 1, (W - 1) * fac + 1) else (H * fac, W * fac)
        if hp then "err:half-pixel is another lowering" else
        if k ≠ fac then s!"fail kernel {k} for factor {fac}" else
        if (oh, ow) ≠ (OH, OW) then s!"fail output {oh}x{ow}, the resize gives {OH}x{OW}" else
        ((List.range OH).findSome? fun y => (List.range OW).findSome? fun x =>
          let (s, cnt) := poolSumCount UH UW up k k 1 1 et el y x
          let r := bilinearNum k H W f y x
          if cnt ≠ 0 ∧ s * ((k * k : Nat) : Int) = r * (cnt : Int) then none else some s!"fail oy={y} ox={x} ref={r}/{k * k} got={s}/{cnt}").getD "ok"
    | _, _, _, _ => "err:parse"
  | ["rw2_prelu", cst, qmin, qmax, zp, sb, eq] =>
    some <| match bool? cst, parseInts [qmin, qmax, zp], parseNat? sb, bool? eq with
    | some cst, some [qmin, qmax, zp], some sb, some eq =>
      (match convertPrelu cst qmin qmax zp sb eq with
       | none => "err:scale"
       | some .relu => "ok relu"
       | some (.lrelu a) => s!"ok lrelu {a}"
       | some (.mulMax i) => s!"ok mulmax {boolStr i}"
       | some .minMulReluAdd => "ok minmulreluadd")
    | _, _, _, _ => "err:parse"
  | "rwsem2_prelu_lut" :: zi :: zo :: qa :: za :: si :: sa :: so :: lo :: hi :: tbl =>
    some <| match parseInts [zi, zo, qa, za, lo, hi], parseNats [si, sa, so], parseInts tbl with
    | some [zi, zo, qa, za, lo, hi], some [si, sa, so], some tbl =>
      (match qmRatioFloat si so, qmMulFloat si sa so with
       | some (idm, ids), some (am, as) =>
         if tbl.length ≠ (hi - lo + 1).toNat then "err:table" else
         (match firstDiff lo hi (fun v => preluRef v qa zi za zo idm ids am as lo hi) (fun v => tbl.getD (v - lo).toNat 0) with
          | none => "ok"
          | some (v, r, g) => s!"fail v={v} ref={r} got={g}")
       | _, _ => "err:scale")
    | _, _, _ => "err:parse"
  | ["rw2_padconcat", shp, pads] =>
    some <| match csvNats shp, triples? pads 2 with
    | some shp, some pads =>
      let side := fun (b : Bool) => if b then "L" else "F"
      (match convertPadToConcat shp (pads.map fun p => (p.getD 0 0, p.getD 1 0)) with
       | .keep => "keep"
       | .split a b c => s!"split {side a} {b} {c}"
       | .concat a sz i => s!"concat {side a} {showCsv sz} {i}")
    | _, _ => "err:parse"
  | _ => none

end VelaVerif.Handlers.Rewrites2
