import VelaVerif.Model.LiveRange
import VelaVerif.Spec.LiveRange
import VelaVerif.Handlers.Util
/-!
Live-range extraction (model) and the Spec on the implementation's ranges.

`lrnpu ct=<n> T=<tensor>,… S=<schedule>`
`lrcpu ct=<n> T=<tensor>,… descend=<0|1> outs=<i>/<i>… P=<pass>~<pass>…`
  tensor   = `<eq>:<W|F|V|O>:<inTarget>:<size>:<shapeEmpty>:<writeProtected>:<format>:<dtype>:<consumers>:<producers>:<variable>:<preBuffer>`
             (identity = position in `T`)
  schedule = `<sram>|<out>/<out>…|<op>;<op>;…`
  op       = `<cascade>:<inCascade>:<elementwise>:<varWrite>:<memcpy>:<ofm>:<ofmShape>:<ifm|->:<ifmShape>:<ifm2|->:<ifm2Shape>:`
             `<inputs>:<outputs>:<intermediates>:<psIfm|->:<rolling|->:<buffered>:<nDepthSlices>`   (lists `a/b/c`, shapes `1.2.3.4`)
  pass     = `<inputs>^<intermediates>^<outputs>^<schedule|->`
answers: `ok ct=<current> t=<time>/<time>… wf=<0|1> R=<tensor>:<lr index>:<start>:<end>:<size>,…`
         `ok ct=<current> P=<entry>:<time>:<t>/<t>…,… wf=<0|1> R=…`      or `err:<kind>`

`lrspec R=<eq>:<lr>:<start>:<end>,… in=<eq>/… out=<eq>/… C=<S|D|M|C>:<op>:<time>:<reads>:<writes>:<wbuf|->:<pre>;…`
answer: `uncovered=<n> <tensor>@<lo>..<hi> … | io=<n> … | clobbers=<n> <reader op>:<tensor>:<writer op> … | regressions=<n> <op>@<time><<previous time> …`
-/
namespace VelaVerif.Handlers.LiveRange
open VelaVerif VelaVerif.Handlers VelaVerif.LiveRange

def kv (toks : List String) (key : String) : Option String :=
  toks.findSome? fun t => if t.startsWith (key ++ "=") then some (t.drop (key.length + 1)).toString else none

def splitNE (s : String) (sep : String) : List String := (s.splitOn sep).filter (· ≠ "")

def parseBool (s : String) : Option Bool :=
  if s == "1" then some true else if s == "0" then some false else none

def parsePurpose (s : String) : Option Purpose :=
  if s == "W" then some .weights else if s == "F" then some .fsBias else if s == "V" then some .virtual_
  else if s == "O" then some .other else none

def parseTensor (idx : Nat) (s : String) : Option Tensor :=
  match s.splitOn ":" with
  | [eq, pu, it, sz, se, wp, fmt, dt, nc, np, var, pre] => do
    some { id := idx, eqId := ← parseNat? eq, purpose := ← parsePurpose pu, inTarget := ← parseBool it, size := ← parseNat? sz,
           shapeEmpty := ← parseBool se, writeProtected := ← parseBool wp, format := ← parseNat? fmt, dtype := ← parseNat? dt,
           consumers := ← parseNat? nc, producers := ← parseNat? np, isVariable := ← parseBool var, preBuffer := ← parseBool pre }
  | _ => none

def parseTensors (s : String) : Option (Array Tensor) := do
  let l ← (splitNE s ",").zipIdx.mapM (fun p => parseTensor p.2 p.1)
  some l.toArray

def ref (tab : Array Tensor) (s : String) : Option Tensor := do tab[← parseNat? s]?
def refs (tab : Array Tensor) (s : String) : Option (List Tensor) := (splitNE s "/").mapM (ref tab)
def optRef (tab : Array Tensor) (s : String) : Option (Option Tensor) :=
  if s == "-" then some none else (ref tab s).map some
def optNat (s : String) : Option (Option Nat) :=
  if s == "-" then some none else (parseNat? s).map some
def shape (s : String) : Option (List Nat) := parseNats (splitNE s ".")

def parseOp (tab : Array Tensor) (s : String) : Option SchedOp :=
  match s.splitOn ":" with
  | [casc, inc, ew, vw, mc, ofm, ofs, ifm, ifs, ifm2, if2s, ins, outs, ims, psifm, roll, buf, nsl] => do
    some { cascade := ← parseNat? casc, inCascade := ← parseBool inc,
           fuse := { elementwise := ← parseBool ew, varWrite := ← parseBool vw, memcpy := ← parseBool mc,
                     ofm := ← ref tab ofm, ofmShape := ← shape ofs, ifm := ← optRef tab ifm, ifmShape := ← shape ifs,
                     ifm2 := ← optRef tab ifm2, ifm2Shape := ← shape if2s },
           inputs := ← refs tab ins, outputs := ← refs tab outs, intermediates := ← refs tab ims,
           psIfm := ← optNat psifm, rolling := ← optNat roll, buffered := ← refs tab buf, nDepthSlices := ← parseNat? nsl }
  | _ => none

def parseSchedule (tab : Array Tensor) (s : String) : Option Schedule :=
  match s.splitOn "|" with
  | [sram, outs, ops] => do
    some { sram := ← parseBool sram, outputs := ← refs tab outs, ops := ← (splitNE ops ";").mapM (parseOp tab) }
  | _ => none

def parsePass (tab : Array Tensor) (s : String) : Option CpuPass :=
  match s.splitOn "^" with
  | [ins, ims, outs, sch] => do
    some { inputs := ← refs tab ins, intermediates := ← refs tab ims, outputs := ← refs tab outs,
           npu := ← (if sch == "-" then some none else (parseSchedule tab sch).map some) }
  | _ => none

def errStr : Err → String
  | .assert_ => "err:assert"
  | .attribute => "err:attribute"
  | .internal => "err:internal"

def rangesStr (g : Graph) : String :=
  ",".intercalate (g.ranges.map fun p =>
    match g.lrs[p.2]? with
    | some r => s!"{p.1.id}:{p.2}:{r.start}:{r.end_}:{r.size}"
    | none => s!"{p.1.id}:{p.2}:?")

def slashNats (l : List Nat) : String := "/".intercalate (l.map toString)

/-! ### Spec side -/
open VelaVerif.LiveRangeSpec in
def parseRange (s : String) : Option RealRange :=
  match s.splitOn ":" with
  | [t, l, a, b] => do some { tensor := ← parseNat? t, lr := ← parseNat? l, start := ← parseInt? a, end_ := ← parseInt? b }
  | _ => none

open VelaVerif.LiveRangeSpec in
def parseKind (s : String) : Option Kind :=
  if s == "S" then some .stripe else if s == "D" then some .wdma else if s == "M" then some .copy
  else if s == "C" then some .cpu else none

open VelaVerif.LiveRangeSpec in
def parseCmd (s : String) : Option Cmd :=
  match s.splitOn ":" with
  | [k, op, t, rd, wr, wb, pre] => do
    some { kind := ← parseKind k, op := ← parseNat? op, time := ← parseNat? t, reads := ← parseNats (splitNE rd "/"),
           writes := ← parseNats (splitNE wr "/"), wbuf := ← optNat wb, pre := ← parseBool pre }
  | _ => none

def handle : List String → Option String
  | "lrnpu" :: toks => do
    let tab ← parseTensors ((kv toks "T").getD "")
    let s ← parseSchedule tab (← kv toks "S")
    let ct ← parseNat? (← kv toks "ct")
    match extractNpu s Graph.empty ct with
    | .error e => some (errStr e)
    | .ok r => some (s!"ok ct={r.current} t={slashNats r.times} wf={boolStr (consumersTruthful s)} R={rangesStr r.graph}")
  | "lrcpu" :: toks => do
    let tab ← parseTensors ((kv toks "T").getD "")
    let c : CpuGraph := {
      descend := ← parseBool (← kv toks "descend"),
      outputs := ← refs tab ((kv toks "outs").getD ""),
      passes := ← (splitNE ((kv toks "P").getD "") "~").mapM (parsePass tab) }
    let ct ← parseNat? (← kv toks "ct")
    match extractCpu c Graph.empty ct with
    | .error e => some (errStr e)
    | .ok r =>
      let ps := ",".intercalate (r.passes.map fun p => s!"{p.entry}:{p.time}:{slashNats p.npuTimes}")
      let wf := c.passes.all fun p => match p.npu with | some s => consumersTruthful s | none => true
      some (s!"ok ct={r.current} P={ps} wf={boolStr wf} R={rangesStr r.graph}")
  | "lrspec" :: toks => do
    let n : LiveRangeSpec.Net := {
      ranges := ← (splitNE ((kv toks "R").getD "") ",").mapM parseRange,
      cmds := ← (splitNE ((kv toks "C").getD "") ";").mapM parseCmd,
      inputs := ← parseNats (splitNE ((kv toks "in").getD "") "/"),
      outputs := ← parseNats (splitNE ((kv toks "out").getD "") "/") }
    let v := LiveRangeSpec.check n
    let need := fun (d : LiveRangeSpec.Need) => s!"{d.tensor}@{d.lo}..{d.hi}"
    some (s!"uncovered={v.uncovered.length} " ++ " ".intercalate ((v.uncovered.take 6).map need) ++
      s!" | io={v.io.length} " ++ " ".intercalate ((v.io.take 6).map need) ++
      s!" | clobbers={v.clobbers.length} " ++ " ".intercalate ((v.clobbers.take 6).map fun (c, t, w) => s!"{c.op}:{t}:{w.op}") ++
      s!" | regressions={v.regressions.length} " ++ " ".intercalate ((v.regressions.take 6).map fun (c, p) => s!"{c.op}@{c.time}<{p}"))
  | _ => none

end VelaVerif.Handlers.LiveRange
