import VelaVerif.Model.SchedMem
import VelaVerif.Spec.SchedMem
import VelaVerif.Handlers.Util
/-!
Scheduler memory bookkeeping: model requests and Spec requests (design.d/SchedMem.md).

tensor `t`   = `<n>.<h>.<w>.<c>.<elemBytes>.<nhcwb16>`
op           = `<index>:<ifm t>:<ifm2 t|->:<ofm t>:<reqFullIfm>:<reqFullOfm>:<binaryEw>:<ofmCanReuseIfm>:<cascadableStatic>:<dep>/<dep>…:<overread>`
cost         = `<stripe n.h.w.c>~<stripe_input n.h.w.c>~<wb>.<wb>…~<cascade>`;  cost map = `<index>@<cost>,…`

`sinfo <ofm n.h.w.c> <stripe n.h.w.c> <ifm n.h.w.c> <ifm2 n.h.w.c|-> <sy> <sx> <areaH> <areaW> <upscale> <nearest>` → `<stripe_input n.h.w.c> <stripe_input2 n.h.w.c|->`
`maxfits <max peak> <sram limit> <spilling>` → `0|1`
`bcasc spill=<0|1> limit=<int> NL=<index>:<int>,… OPS=<op>;… REF=<cost map> FB=<cost map> [BM=<p>/<c>@<n.h.w.c>@<size>,…]`
   → `ok peak=<int> cost=<index>@<stripe h>.<stripe_input h>.<cascade>.<sum wb>,… casc=<start>:<end>:<mem>:<j>=<n.h.w.c>/…;…`
`optsub spill= limit= snap=<int> cimem=<int> cistart=<n> ciend=<n> multi=<0|1> OPS= FB= P=<cost map>|<cost map>|…`
   → `ok nl=<index>:<int>,… best=<k|-> seen=<n> usage=<int>/<int>… casc=<n>/<n>…`
`minnl spill= OPS= SN=<int>/… SC=<0|1>/…` → `ok <int> <int> …`
`tusage ct=<n> L=<start>:<stop>:<size>:<inArea>,…` → `ok peak=<int> u=<int>/<int>/…`
`ffast <cascade> <nDependants> <outsideConsumer> <varWrite>` → `0|1`
`fast ct=<n> limit=<int> L=<start>:<end>:<size>:<inArea>:<scratched>:<score>,…`
   → `ok wf=<0|1> entered=<0|1> evicted=<id>/… kept=<id>/… fms=<id>/… max=<int>/… fixed=<int>/…`  (`wf`: the hypotheses of `fast_storage_total`)
`opbuf t=<n> limit=<int> ev=<n> S=<int>/…` → `<slack> <bufferLimit>`
`wbuf limit=<int> len=<n> db0=<n> db1=<n> ns=<n> casc=<n> prev=<int>` → `none` | `ok b=<n>/<n> dbl=<0|1> pre=<0|1> used=<n>`

Spec on the implementation's values:
`smusage R=<start>:<end>:<size>,… S=<int>/…`            → `1` | `0 <t>:<snapshot>:<in use> …`
`smest est=<int> t=<n> R=…`                              → `<0|1> usage=<n>`
`smbuf <pH> <pW> <pD> <cH> <cW> <over> <bH> <bW> <bC>`   → `suff=<0|1> eq=<0|1>`  (`eq`: equals `rolling_buffer_shape` of these stripes)
`smfast limit=<int> T=<n> R=<start>:<end>:<size>:<movable>:<kept>,…` → `1` | `0 <t>:<final>:<fixed> …`
`smmove <moved> <outsideConsumer> <varWrite>`            → `0|1`
`smle <int> <int>`                                       → `0|1`
-/
namespace VelaVerif.Handlers.SchedMem
open VelaVerif VelaVerif.Handlers VelaVerif.SchedMem

def kv (toks : List String) (key : String) : Option String :=
  toks.findSome? fun t => if t.startsWith (key ++ "=") then some (t.drop (key.length + 1)).toString else none

def splitNE (s : String) (sep : String) : List String := (s.splitOn sep).filter (· ≠ "")

def parseBool (s : String) : Option Bool :=
  if s == "1" then some true else if s == "0" then some false else none

def parseShape (s : String) : Option Shape4 :=
  match (s.splitOn ".").mapM parseNat? with
  | some [n, h, w, c] => some ⟨n, h, w, c⟩
  | _ => none

def parseTensor (s : String) : Option STensor :=
  match s.splitOn "." with
  | [n, h, w, c, eb, f] => do
    some { shape := ⟨← parseNat? n, ← parseNat? h, ← parseNat? w, ← parseNat? c⟩, elemBytes := ← parseNat? eb, nhcwb16 := ← parseBool f }
  | _ => none

def parseOp (s : String) : Option SOp :=
  match s.splitOn ":" with
  | [idx, ifm, ifm2, ofm, rfi, rfo, bew, reuse, cst, deps, over] => do
    let i2 ← if ifm2 == "-" then some none else (parseTensor ifm2).map some
    some { index := ← parseNat? idx, ifm := ← parseTensor ifm, ifm2 := i2, ofm := ← parseTensor ofm,
           reqFullIfm := ← parseBool rfi, reqFullOfm := ← parseBool rfo, binaryEw := ← parseBool bew,
           ofmCanReuseIfm := ← parseBool reuse, cascadableStatic := ← parseBool cst,
           dependants := ← (splitNE deps "/").mapM parseNat?, overread := ← parseNat? over }
  | _ => none

def parseOps (s : String) : Option (List SOp) := (splitNE s ";").mapM parseOp

def parseCost (s : String) : Option OpCost :=
  match s.splitOn "~" with
  | [st, si, wb, casc] => do
    some { stripe := ← parseShape st, stripeInput := ← parseShape si, weightBuffers := ← (splitNE wb ".").mapM parseNat?,
           cascade := ← parseNat? casc }
  | _ => none

def parseCostMap (s : String) : Option CostMap :=
  (splitNE s ",").mapM fun e =>
    match e.splitOn "@" with
    | [i, c] => do some (← parseNat? i, ← parseCost c)
    | _ => none

def parseNL (s : String) : Option (List (Nat × Int)) :=
  (splitNE s ",").mapM fun e =>
    match e.splitOn ":" with
    | [i, v] => do some (← parseNat? i, ← parseInt? v)
    | _ => none

def parseOptNat (s : String) : Option (Option Nat) := if s == "-" then some none else (parseNat? s).map some

def parseBM (s : String) : Option BufferMap :=
  (splitNE s ",").mapM fun e =>
    match e.splitOn "@" with
    | [k, shp, sz] =>
      match k.splitOn "/" with
      | [p, c] => do some ((← parseOptNat p, ← parseOptNat c), (← parseShape shp, ← parseNat? sz))
      | _ => none
    | _ => none

def shapeStr (s : Shape4) : String := s!"{s.n}.{s.h}.{s.w}.{s.c}"

def cascStr (c : CascadeInfo) : String :=
  s!"{c.start}:{c.end_}:{c.memUsage}:" ++ "/".intercalate (c.buffers.map fun p => s!"{p.1}={shapeStr p.2}")

def costStr (m : CostMap) : String :=
  ",".intercalate (m.map fun p => s!"{p.1}@{p.2.stripe.h}.{p.2.stripeInput.h}.{p.2.cascade}.{sumNat p.2.weightBuffers}")

def intsStr (l : List Int) : String := "/".intercalate (l.map toString)
def natsStr (l : List Nat) : String := "/".intercalate (l.map toString)

def parseRngs (s : String) : Option (List Spec.SchedMem.Rng) :=
  (splitNE s ",").mapM fun e =>
    match (e.splitOn ":").mapM parseNat? with
    | some [a, b, c] => some ⟨a, b, c⟩
    | _ => none

def handleBcasc (toks : List String) : Option String := do
  let spill ← parseBool (← kv toks "spill")
  let limit ← parseInt? (← kv toks "limit")
  let nl ← parseNL ((kv toks "NL").getD "")
  let ops ← parseOps (← kv toks "OPS")
  let ref ← parseCostMap (← kv toks "REF")
  let fb ← parseCostMap (← kv toks "FB")
  let bm ← parseBM ((kv toks "BM").getD "")
  match buildCascadesFrom bm { ops := ops, spilling := spill, nonLocal := nl } ref fb limit with
  | .error e => some e.str
  | .ok st => some s!"ok peak={st.peak} cost={costStr st.cost} casc={";".intercalate (st.cascades.map cascStr)}"

def handleOptsub (toks : List String) : Option String := do
  let spill ← parseBool (← kv toks "spill")
  let limit ← parseInt? (← kv toks "limit")
  let snap ← parseInt? (← kv toks "snap")
  let cimem ← parseInt? (← kv toks "cimem")
  let multi ← parseBool (← kv toks "multi")
  let ops ← parseOps (← kv toks "OPS")
  let fb ← parseCostMap (← kv toks "FB")
  let props ← ((← kv toks "P").splitOn "|").mapM parseCostMap
  let ci : CascadeInfo := { start := ← parseNat? (← kv toks "cistart"), end_ := ← parseNat? (← kv toks "ciend"), buffers := [], memUsage := cimem }
  let nl := subNonLocal spill ops snap ci multi
  let nlStr := ",".intercalate (nl.map fun p => s!"{p.1}:{p.2}")
  match optimizeSubSchedule { ops := ops, spilling := spill, nonLocal := nl } fb limit (props.filter (!·.isEmpty)) with
  | .error e => some e.str
  | .ok (best, seen) =>
    let bestIdx := match best with
      | none => "-"
      | some p => match seen.findIdx? (· == p) with | some i => toString i | none => "?"
    some s!"ok nl={nlStr} best={bestIdx} seen={seen.length} usage={intsStr (seen.map (·.usage))} casc={natsStr (seen.map (·.cascades.length))}"

def handleMinnl (toks : List String) : Option String := do
  let spill ← parseBool (← kv toks "spill")
  let ops ← parseOps (← kv toks "OPS")
  let sn ← (splitNE (← kv toks "SN") "/").mapM parseInt?
  let sc ← (splitNE (← kv toks "SC") "/").mapM parseBool
  if sn.length != ops.length || sc.length != ops.length then none else
  let rec go : List SOp → List Int → List Bool → List Int → String
    | op :: os, s :: ss, c :: cs, acc =>
      match minNonLocal spill op s c with
      | .ok v => go os ss cs (acc ++ [v])
      | .error e => e.str
    | _, _, _, acc => "ok " ++ joinInts acc
  some (go ops sn sc [])

def handleTusage (toks : List String) : Option String := do
  let ct ← parseNat? (← kv toks "ct")
  let lrs ← (splitNE ((kv toks "L").getD "") ",").mapM fun e =>
    match e.splitOn ":" with
    | [a, b, c, d] => do some ({ start := ← parseNat? a, stop := ← parseNat? b, size := ← parseNat? c, inArea := ← parseBool d } : TLR)
    | _ => none
  match temporalUsage lrs ct with
  | .error e => some e.str
  | .ok u => some s!"ok peak={peakUsage u} u={intsStr u}"

def parseFLRs (s : String) : Option (List FLR) :=
  (splitNE s ",").zipIdx.mapM fun p =>
    match p.1.splitOn ":" with
    | [a, b, c, d, e, f] => do
      some { id := p.2, start := ← parseNat? a, end_ := ← parseNat? b, size := ← parseNat? c, inArea := ← parseBool d,
             scratched := ← parseBool e, score := ← parseNat? f }
    | _ => none

def handleFast (toks : List String) : Option String := do
  let ct ← parseNat? (← kv toks "ct")
  let limit ← parseInt? (← kv toks "limit")
  let lrs ← parseFLRs ((kv toks "L").getD "")
  match useFastStorage lrs ct limit with
  | .error e => some e.str
  | .ok r =>
    let wf := lrs.all (fun lr => decide (lr.end_ ≤ ct + 2) && (!lr.scratched || (decide (lr.start ≤ lr.end_ ∧ lr.end_ < ct + 2) && lr.inArea)))
    some s!"ok wf={boolStr wf} entered={boolStr r.entered} evicted={natsStr r.st.evicted} kept={natsStr r.st.kept} fms={natsStr r.st.evictedFms} max={intsStr r.st.maxU} fixed={intsStr r.fixed}"

def handleSmfast (toks : List String) : Option String := do
  let limit ← parseInt? (← kv toks "limit")
  let T ← parseNat? (← kv toks "T")
  let rs ← (splitNE ((kv toks "R").getD "") ",").mapM fun e =>
    match e.splitOn ":" with
    | [a, b, c, d, f] => do
      some ({ rng := ⟨← parseNat? a, ← parseNat? b, ← parseNat? c⟩, movable := ← parseBool d, kept := ← parseBool f } : Spec.SchedMem.FRng)
    | _ => none
  match Spec.SchedMem.fastStorageViolations rs limit T with
  | [] => some "1"
  | l => some ("0 " ++ " ".intercalate ((l.take 6).map fun p => s!"{p.1}:{p.2.1}:{p.2.2}"))

def handle : List String → Option String
  | "bcasc" :: toks => some ((handleBcasc toks).getD "err:parse")
  | "optsub" :: toks => some ((handleOptsub toks).getD "err:parse")
  | "minnl" :: toks => some ((handleMinnl toks).getD "err:parse")
  | "tusage" :: toks => some ((handleTusage toks).getD "err:parse")
  | "fast" :: toks => some ((handleFast toks).getD "err:parse")
  | ["sinfo", ofm, stripe, ifm, ifm2, sy, sx, ah, aw, up, nr] =>
    some ((do
      let i2 ← if ifm2 == "-" then some none else (parseShape ifm2).map some
      let r := stripeInputs (← parseShape ofm) (← parseShape stripe) (← parseShape ifm) i2 (← parseInt? sy) (← parseInt? sx)
        (← parseInt? ah) (← parseInt? aw) (← parseInt? up) (← parseBool nr)
      some s!"{shapeStr r.1} {match r.2 with | some s2 => shapeStr s2 | none => "-"}").getD "err:parse")
  | ["maxfits", p, l, sp] =>
    some ((do some (boolStr (maxScheduleFits (← parseInt? p) (← parseInt? l) (← parseBool sp)))).getD "err:parse")
  | ["ffast", c, n, o, v] =>
    some ((do some (boolStr (forcedToFast (← parseNat? c) (← parseNat? n) (← parseBool o) (← parseBool v)))).getD "err:parse")
  | "opbuf" :: toks =>
    some ((do
      let t ← parseNat? (← kv toks "t")
      let limit ← parseInt? (← kv toks "limit")
      let ev ← parseNat? (← kv toks "ev")
      let s ← (splitNE ((kv toks "S").getD "") "/").mapM parseInt?
      let r := operatorBuffering s t limit ev
      some s!"{r.1} {r.2}").getD "err:parse")
  | "wbuf" :: toks =>
    some ((do
      let limit ← parseInt? (← kv toks "limit")
      let prev ← parseInt? (← kv toks "prev")
      match weightBufferDecision limit (← parseNat? (← kv toks "len")) (← parseNat? (← kv toks "db0")) (← parseNat? (← kv toks "db1"))
              (← parseNat? (← kv toks "ns")) (← parseNat? (← kv toks "casc")) prev with
      | .error e => some e.str
      | .ok none => some "none"
      | .ok (some w) => some s!"ok b={natsStr w.buffers} dbl={boolStr w.doubleBuffer} pre={boolStr w.preBuffer} used={w.slackUsed}").getD "err:parse")
  | "smusage" :: toks =>
    some ((do
      let rs ← parseRngs ((kv toks "R").getD "")
      let s ← (splitNE ((kv toks "S").getD "") "/").mapM parseInt?
      match Spec.SchedMem.snapshotMismatches rs s with
      | [] => some "1"
      | l => some ("0 " ++ " ".intercalate ((l.take 6).map fun (p : Nat × Int × Nat) => s!"{p.1}:{p.2.1}:{p.2.2}"))).getD "err:parse")
  | "smest" :: toks =>
    some ((do
      let est ← parseInt? (← kv toks "est")
      let t ← parseNat? (← kv toks "t")
      let rs ← parseRngs ((kv toks "R").getD "")
      some s!"{boolStr (Spec.SchedMem.checkEstimate est rs t)} usage={Spec.SchedMem.usageAt rs t}").getD "err:parse")
  | ["smbuf", pH, pW, pD, cH, cW, over, bH, bW, bC] =>
    some ((do
      let pH ← parseNat? pH; let pW ← parseNat? pW; let pD ← parseNat? pD; let cH ← parseNat? cH; let cW ← parseNat? cW
      let over ← parseNat? over; let bH ← parseNat? bH; let bW ← parseNat? bW; let bC ← parseNat? bC
      let eq := match Cascade.rollingBufferShape pH pW pD cH cW over with
        | .ok (h, w, c) => h == bH && w == bW && c == bC
        | .error _ => false
      some s!"suff={boolStr (Spec.SchedMem.checkBuffer pH pW pD cH cW over bH bW bC)} eq={boolStr eq}").getD "err:parse")
  | "smfast" :: toks => some ((handleSmfast toks).getD "err:parse")
  | ["smmove", m, o, v] =>
    some ((do some (boolStr (Spec.SchedMem.checkMove (← parseBool m) (← parseBool o) (← parseBool v)))).getD "err:parse")
  | ["smle", a, b] => some ((do some (boolStr (decide ((← parseInt? a) ≤ (← parseInt? b))))).getD "err:parse")
  | _ => none

end VelaVerif.Handlers.SchedMem
