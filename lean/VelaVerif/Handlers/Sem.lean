import VelaVerif.Spec.NpuSem
import VelaVerif.Spec.ArenaExec
import VelaVerif.Handlers.Util
/-!
Protocol for C01 (one request per compiled network):

`semcheck lutbase=<addr> shram=<bytes> st=<tensors> so=<ops> si=<ids> sout=<ids> ot=… oo=… oi=… oout=…
          flash=<hex> prog=<programs> wt=<weights> data=<input sets>`

* tensors: `dtype:d0xd1x…:zp/zp…:scalebits/…:hexdata` separated by `;` (id = position; empty hexdata = no constant)
* ops:     `KIND:in/in/…:out/…:g0,g0,…|g1,…` separated by `;` (−1 = absent input); `NPU` ops carry the program index
* programs: `scratch,fast|w,w,…|off/dtype/shape,…|off/dtype/shape,…|widx,widx,…` separated by `;`
* weights: `oc,kh,kw,ic:v,v,…` separated by `;`
* data:    input sets separated by `;`, tensors of a set by `/`, little-endian hex
* oarena (optional): `<arena bytes>:<offset>,<offset>,…` — arena offset of every tensor of the output graph (−1 = none);
  when present the output graph is executed over one arena (`Spec/ArenaExec.lean`): CPU operators and Ethos-U operators
  read and write the same bytes

answer: `ok ops=<n> sets=<k> | t<id> cls=<c> maxdiff=<d> bad=<n> first=<set>/<index>/<ref>/<got> | … | exptab seen=<n> bad=<k> first=<table>/<entry>/<ref>/<got> | verdict=<pass|fail>`
        (`exptab`: tables of exponentials the streams install for 8-bit SOFTMAX, compared entry by entry with the table of
        `exp_on_negative_values` of the reference parameters; it does not influence the verdict)
        `skip:<side>:unsupported:<what>`   (an operator or NPU feature is not modelled: not simulated)
        `err:<side>:<text>`
-/
namespace VelaVerif.Handlers.Sem
open VelaVerif VelaVerif.Handlers VelaVerif.TfliteRef VelaVerif.NpuSem VelaVerif.NpuWide VelaVerif.ArenaExec

def kv (toks : List String) (key : String) : Option String :=
  toks.findSome? fun t => if t.startsWith (key ++ "=") then some (t.drop (key.length + 1)).toString else none

def hexVal (c : UInt8) : Nat :=
  if c ≥ 48 ∧ c ≤ 57 then (c - 48).toNat else if c ≥ 97 ∧ c ≤ 102 then (c - 87).toNat else if c ≥ 65 ∧ c ≤ 70 then (c - 55).toNat else 0

def hexToBytes (s : String) : ByteArray := Id.run do
  let u := s.toUTF8
  let n := u.size / 2
  let mut out := ByteArray.emptyWithCapacity n
  for i in [0:n] do
    out := out.push (UInt8.ofNat (16 * hexVal (u.get! (2 * i)) + hexVal (u.get! (2 * i + 1))))
  return out

def bytesToInts (b : ByteArray) (dt : DType) : Array Int := Id.run do
  let nb := dt.bytes
  let n := b.size / nb
  let mut out : Array Int := Array.mkEmpty n
  for i in [0:n] do
    let mut v := 0
    for k in [0:nb] do
      v := v + (b.get! (i * nb + k)).toNat * 256 ^ k
    out := out.push (if dt.signed then toSigned v (8 * nb) else v)
  return out

def splitNE (s : String) (sep : String) : List String := (s.splitOn sep).filter (· ≠ "")

def parseShape (s : String) : Option (List Nat) := (splitNE s "x").mapM parseNat?

def parseTensorDef (s : String) : Option TensorDef :=
  match s.splitOn ":" with
  | [dt, shape, zps, scales, hex] => do
    let dt ← DType.ofString dt
    let shape ← parseShape shape
    let zps ← (splitNE zps "/").mapM parseInt?
    let scales ← (splitNE scales "/").mapM parseNat?
    let const := if hex = "" then none else some (bytesToInts (hexToBytes hex) dt)
    some { dtype := dt, shape := shape, zps := zps, scales := scales, const := const }
  | _ => none

def parseOpDef (s : String) : Option OpDef :=
  match s.splitOn ":" with
  | [kind, ins, outs, params] => do
    let ins ← (splitNE ins "/").mapM parseInt?
    let outs ← (splitNE outs "/").mapM parseNat?
    let groups ← (params.splitOn "|").mapM fun g => (splitNE g ",").mapM parseInt?
    some { kind := kind, ins := ins, outs := outs, params := groups }
  | _ => none

def parseGraph (toks : List String) (pre : String) : Option Graph := do
  let ts ← (splitNE (← kv toks (pre ++ "t")) ";").mapM parseTensorDef
  let ops ← (splitNE ((kv toks (pre ++ "o")).getD "") ";").mapM parseOpDef
  let ins ← (splitNE ((kv toks (pre ++ "i")).getD "") ",").mapM parseNat?
  let outs ← (splitNE ((kv toks (pre ++ "out")).getD "") ",").mapM parseNat?
  some { tensors := ts.toArray, ops := ops, inputs := ins, outputs := outs }

def parsePlacement (s : String) : Option Placement :=
  match s.splitOn "/" with
  | [off, dt, shape] => do some { offset := ← parseNat? off, dtype := ← DType.ofString dt, shape := ← parseShape shape }
  | _ => none

def parseWeights (s : String) : Option Weights :=
  match s.splitOn ":" with
  | [dims, vals] => do
    match ← (splitNE dims ",").mapM parseNat? with
    | [oc, kh, kw, ic] =>
      let vs ← (splitNE vals ",").mapM parseInt?
      if vs.length ≠ oc * kh * kw * ic then none else
      some { oc := oc, kh := kh, kw := kw, ic := ic, vals := vs.toArray }
    | _ => none
  | _ => none

def parseProgram (lutBase shram : Nat) (wt : Array Weights) (s : String) : Option Program :=
  match s.splitOn "|" with
  | [sizes, words, ins, outs, widx] => do
    match ← (splitNE sizes ",").mapM parseNat? with
    | [scratch, fast] =>
      let words ← (splitNE words ",").mapM parseNat?
      let ins ← (splitNE ins ",").mapM parsePlacement
      let outs ← (splitNE outs ",").mapM parsePlacement
      let widx ← (splitNE widx ",").mapM parseInt?
      let ws := widx.map fun i => if i < 0 then none else wt[i.toNat]?
      some { words := words, scratchSize := scratch, fastSize := fast, shramSize := shram, lutBase := lutBase,
             ins := ins, outs := outs, weights := ws.toArray }
    | _ => none
  | _ => none

structure Cmp where
  maxdiff : Nat := 0
  bad : Nat := 0
  first : Option (Nat × Nat × Int × Int) := none

def cmpTensors (c : Cmp) (setIdx : Nat) (tol : Nat) (ref got : Tensor) : Cmp := Id.run do
  let mut c := c
  if ref.data.size ≠ got.data.size then
    return { c with bad := c.bad + 1, maxdiff := max c.maxdiff 1000000, first := c.first.orElse fun _ => some (setIdx, 0, ref.data.size, got.data.size) }
  for i in [0:ref.data.size] do
    let r := ref.data.getD i 0
    let g := got.data.getD i 0
    let d := (r - g).natAbs
    if d > c.maxdiff then c := { c with maxdiff := d }
    if d > tol then
      c := { c with bad := c.bad + 1, first := c.first.orElse fun _ => some (setIdx, i, r, g) }
  return c

def classify (side : String) (e : String) (raw : Bool := false) : String :=
  if raw then s!"raw:{side}:{e}" else
  match (e.splitOn "unsupported:") with
  | _ :: rest :: _ => s!"skip:{side}:unsupported:{(rest.splitOn " ").headD ""}"
  | _ => s!"err:{side}:{e.replace " " "_"}"

def run (toks : List String) : Option String := do
  let lutBase ← parseNat? (← kv toks "lutbase")
  let shram ← parseNat? (← kv toks "shram")
  let src ← parseGraph toks "s"
  let outg ← parseGraph toks "o"
  let flash := hexToBytes ((kv toks "flash").getD "")
  let wt ← (splitNE ((kv toks "wt").getD "") ";").mapM parseWeights
  let progs ← (splitNE ((kv toks "prog").getD "") ";").mapM (parseProgram lutBase shram wt.toArray)
  let progs := progs.toArray
  let sets := (splitNE (← kv toks "data") ";").map fun s => (s.splitOn "/")
  -- interface: same number of inputs / outputs, same types and shapes, position by position
  if src.inputs.length ≠ outg.inputs.length ∨ src.outputs.length ≠ outg.outputs.length then
    return "err:iface:input_or_output_count_differs"
  let sameSig := fun (a b : Nat) => src.dtype a == outg.dtype b && prod (src.shape a) == prod (outg.shape b)
  if !((src.inputs.zip outg.inputs).all fun (a, b) => sameSig a b) ∨ !((src.outputs.zip outg.outputs).all fun (a, b) => sameSig a b) then
    return "err:iface:input_or_output_type_or_size_differs"
  let tol := tolerances src
  let dbg := (kv toks "debug").isSome
  let arenaSpec : Option (Nat × Array Int) := do
    match (← kv toks "oarena").splitOn ":" with
    | [sz, offs] => some (← parseNat? sz, (← (splitNE offs ",").mapM parseInt?).toArray)
    | _ => none
  let npuArena : OpDef → ByteArray → Except String ByteArray := fun (op : OpDef) (arena : ByteArray) =>
    match progs[pN op 0 0]? with
    | none => throw "custom operator without program"
    | some p => do
      let (arena', _) ← runProgramArena flash p arena
      pure arena'
  let custom : OpDef → List (Option Tensor) → Option (Except String (List Tensor)) := fun (op : OpDef) (ins : List (Option Tensor)) =>
    if op.kind = "NPU" then
      some (match progs[pN op 0 0]? with
        | none => throw "custom operator without program"
        | some p => do
          let ins ← ins.mapM fun t => match t with | some t => pure t | none => throw "custom operator input has no value"
          let (outs, _) ← runProgramX flash p ins
          pure outs)
    else none
  let mut cmps : Array Cmp := Array.replicate src.outputs.length {}
  let mut k := 0
  for set in sets do
    if set.length ≠ src.inputs.length then return "err:harness:input_set_size"
    let ins := (set.zip src.inputs).map fun (hex, i) => ({ shape := src.shape i, data := bytesToInts (hexToBytes hex) (src.dtype i) } : Tensor)
    match evalGraph src ins with
    | .error e => return classify "src" e dbg
    | .ok envS =>
      match (match arenaSpec with
             | some (sz, offs) => evalGraphArena outg offs sz ins npuArena
             | none => evalGraph outg ins custom) with
      | .error e => return classify "out" e dbg
      | .ok envO =>
        for j in [0:src.outputs.length] do
          let so := src.outputs.getD j 0
          let oo := outg.outputs.getD j 0
          match envS.getD so none, envO.getD oo none with
          | some r, some g =>
            let t := tol.getD so 2
            cmps := cmps.modify j fun c => cmpTensors c k (if t = 2 then 1000000000 else t) r g
          | _, _ => return "err:harness:output_without_value"
    k := k + 1
  let nblocks := progs.foldl (fun acc p => acc + (match opsWithRegs p.words with | .ok (ops, _) => ops.length | .error _ => 0)) 0
  let parts := (List.range src.outputs.length).map fun j =>
    let c := cmps.getD j {}
    let so := src.outputs.getD j 0
    let first := match c.first with | some (s, i, r, g) => s!"{s}/{i}/{r}/{g}" | none => "-"
    s!"t{so} cls={tol.getD so 2} maxdiff={c.maxdiff} bad={c.bad} first={first}"
  let fail := cmps.any fun c => c.bad > 0
  -- tables of exponentials: every table a stream installs for a 32-bit lookup must be the table of one 8-bit SOFTMAX
  let refTabs : List (List Int) := src.ops.filterMap fun op =>
    if op.kind = "SOFTMAX" ∧ (src.dtype (outId op 0)).bytes = 1 then some (SoftmaxKernel.expTable8 (pI op 0 0) (pN op 0 1) (pI op 0 2)) else none
  let seenTabs : List (List Int) := if refTabs.isEmpty then [] else
    progs.toList.flatMap fun p => match expTables flash p.shramSize p.lutBase p.words with | .ok ts => ts | .error _ => []
  let badTabs := (seenTabs.zipIdx).filter fun (t, _) => !refTabs.contains t
  let firstTab := match badTabs, refTabs with
    | (t, i) :: _, r :: _ =>
      match ((t.zip r).zipIdx).find? (fun (x : (Int × Int) × Nat) => x.1.1 ≠ x.1.2) with
      | some ((a, b), j) => s!"{i}/{j}/{b}/{a}"
      | none => s!"{i}/-/-/-"
    | _, _ => "-"
  some (s!"ok ops={nblocks} sets={k} | " ++ " | ".intercalate parts ++ s!" | exptab seen={seenTabs.length} bad={badTabs.length} first={firstTab}"
        ++ s!" | verdict={if fail then "fail" else "pass"}")

def handle : List String → Option String
  | "semcheck" :: toks => some ((run toks).getD "err:harness:malformed_request")
  | _ => none

end VelaVerif.Handlers.Sem
