import VelaVerif.Model.PassPacking
import VelaVerif.Spec.PassPacking
import VelaVerif.Model.SliceRead
import VelaVerif.Handlers.Util
/-!
Pass packing (C01 / C16 / C11): the model of `pack_into_passes` against the real function, and the Spec clauses on real pass lists.

`packmodel ops=<op>;… tens=<t>;… outs=<ids> ins=<ids>`
  op  = `type,origType,npu,inputs,outputs,act,actLut,ifmShapes,ofmShapes,ro0,ro1,opIndex` (lists `/`-separated, `n` = None,
        shapes `AxBxCxD`), tensor = `ops,consumers,purpose`
  answer `ok <pass>;…` (final `sg.passes`), pass = `ops,prim,placement,ew,blockType,inputs,outputs,ifm,ifm2,ofm,weights,scale,lut,ifmShapes,ofmShape`
  (`prim`: operator id, `c` = the created 1x1 average pool, `n` = none) or `err:<what the code raises>`.
`packdfs …`  the same for the depth-first order (before the CPU passes are regrouped), with the accepting `test_sequence` rows.
`packspec <graph> passes=<pass>;…`  the Spec clauses on a pass list in the answer format of `packmodel` (the REAL `sg.passes`):
  answer `wf=<0|1> a=<0|1> b=<0|1> c=<0|1> d=<0|1> badshape=<pass indices> badact=<pass indices>`
  (a partition, b topological order, c pass shape / fused edges, d one activation function per pass)
`slicefold s=<ifmShape>,<ofmShape>,<ofmTensorShape>,<readOffset>,<readShape> cons=<c>;…`  the model of `remove_SplitSliceRead`:
  consumer = `none,npu,memonly,mul,memcpy,transpose,binary,ifmIsSlice,ifm2IsSlice,ifmShapes,ofmShapes,ro0,ro1,rs0,rs1`
  answer `fold=1 <ro0,ro1,rs0,rs1,ifmShapes>;…` (the consumers afterwards), `fold=0` (a 1x1 average pool does the read) or `err:index`
`bypassop <npu> <memoryOnly> <len(ifm.consumer_list)> <run_on_npu of the IFM producers, '/'-separated, '-' = none>`  → `untouched | memcpy | bypass`
-/
namespace VelaVerif.Handlers.PassPacking
open VelaVerif VelaVerif.Handlers VelaVerif.PassPacking VelaVerif.PassPackingSpec

def kv (toks : List String) (key : String) : Option String :=
  toks.findSome? fun t => if t.startsWith (key ++ "=") then some (t.drop (key.length + 1)).toString else none

def splitNE (s : String) (sep : String) : List String := (s.splitOn sep).filter (· ≠ "")

def parseOptNat (s : String) : Option (Option Nat) := if s == "n" then some none else (parseNat? s).map some

def parseShape (s : String) : Option Shape := parseInts (splitNE s "x")

def parseBool (s : String) : Option Bool := if s == "1" then some true else if s == "0" then some false else none

def parseOp (s : String) : Option POp :=
  match s.splitOn "," with
  | [ty, orig, npu, ins, outs, act, lut, ifs, ofs, r0, r1, oi] => do
    some { type := ← parseNat? ty, origType := ← parseNat? orig, runOnNpu := ← parseBool npu,
           inputs := ← (splitNE ins "/").mapM parseOptNat, outputs := ← parseNats (splitNE outs "/"),
           act := ← parseOptNat act, actLut := ← parseOptNat lut,
           ifmShapes := ← (splitNE ifs "/").mapM parseShape, ofmShapes := ← (splitNE ofs "/").mapM parseShape,
           ro0 := ← parseBool r0, ro1 := ← parseBool r1, opIndex := ← parseInt? oi }
  | _ => none

def parseTensor (s : String) : Option PTensor :=
  match s.splitOn "," with
  | [ops, cons, pur] => do
    some { ops := ← parseNats (splitNE ops "/"), consumers := ← (splitNE cons "/").mapM parseOptNat, purpose := ← parseNat? pur }
  | _ => none

def parseGraph (toks : List String) : Option Graph := do
  let ops ← (splitNE ((kv toks "ops").getD "") ";").mapM parseOp
  let tens ← (splitNE ((kv toks "tens").getD "") ";").mapM parseTensor
  let outs ← parseNats (splitNE ((kv toks "outs").getD "") ",")
  let ins ← parseNats (splitNE ((kv toks "ins").getD "") ",")
  some { ops := ops, tensors := tens, outputs := outs, inputs := ins }

def showOpt : Option Nat → String
  | none => "n"
  | some x => toString x

def showList (l : List Nat) : String := "/".intercalate (l.map toString)
def showShape (s : Shape) : String := "x".intercalate (s.map toString)

def showPass (p : Pass) : String :=
  let prim := match p.primary with | .none => "n" | .created => "c" | .real o => toString o
  ",".intercalate [showList p.ops, prim, toString p.placement.code, boolStr p.isElementWise, toString p.blockType,
    showList p.inputs, showList p.outputs, showOpt p.ifm, showOpt p.ifm2, showOpt p.ofm, showOpt p.weights, showOpt p.scale,
    showOpt p.lut, "/".intercalate (p.ifmShapes.map showShape), match p.ofmShape with | none => "n" | some s => showShape s]

def showErr (e : String) : String := "err:" ++ e.replace " " "_"

def parseSPass (s : String) : Option SPass :=
  match s.splitOn "," with
  | ops :: prim :: pl :: _ew :: _bt :: ins :: outs :: _ => do
    some { ops := ← parseNats (splitNE ops "/"), created := prim == "c", placement := ← parseNat? pl,
           inputs := ← parseNats (splitNE ins "/"), outputs := ← parseNats (splitNE outs "/") }
  | _ => none

def idxWhere (l : List SPass) (f : SPass → Bool) : List Nat :=
  (List.range l.length).filter fun i => match l[i]? with | some p => f p | none => false

def parseOptShape (s : String) : Option (Option Shape) := if s == "n" then some none else (parseShape s).map some

def parseConsumer (s : String) : Option SliceRead.Consumer :=
  match s.splitOn "," with
  | [nn, npu, mo, mul, mc, tr, bin, i1, i2, ifs, ofs, ro0, ro1, rs0, rs1] => do
    some { isNone := ← parseBool nn, runOnNpu := ← parseBool npu, memoryOnly := ← parseBool mo, isMul := ← parseBool mul,
           isMemcpy := ← parseBool mc, origTranspose := ← parseBool tr, binaryEw := ← parseBool bin,
           ifmIsSlice := ← parseBool i1, ifm2IsSlice := ← parseBool i2,
           ifmShapes := ← (splitNE ifs "/").mapM parseShape, ofmShapes := ← (splitNE ofs "/").mapM parseShape,
           readOffsets := (← parseOptShape ro0, ← parseOptShape ro1), readShapes := (← parseOptShape rs0, ← parseOptShape rs1) }
  | _ => none

def showOptShape : Option Shape → String
  | none => "n"
  | some s => showShape s

def showConsumer (c : SliceRead.Consumer) : String :=
  ",".intercalate [showOptShape c.readOffsets.1, showOptShape c.readOffsets.2, showOptShape c.readShapes.1, showOptShape c.readShapes.2,
    "/".intercalate (c.ifmShapes.map showShape)]

def handleSlice (toks : List String) : Option String := do
  let sl ← match ((kv toks "s").getD "").splitOn "," with
    | [a, b, c, d, e] => do
      some ({ ifmShape := ← parseShape a, ofmShape := ← parseShape b, ofmTensorShape := ← parseShape c, readOffset := ← parseShape d,
              readShape := ← parseShape e } : SliceRead.Slice)
    | _ => none
  let cs ← (splitNE ((kv toks "cons").getD "") ";").mapM parseConsumer
  match SliceRead.folds SliceRead.Rules.current sl cs with
  | none => some "err:index"
  | some false => some "fold=0"
  | some true =>
    match cs.mapM (SliceRead.moveToConsumer SliceRead.Rules.current sl) with
    | none => some "err:index"
    | some cs' => some ("fold=1 " ++ ";".intercalate (cs'.map showConsumer))

def handle : List String → Option String
  | ["bypassop", npu, mo, n, prods] =>
    match parseBool npu, parseBool mo, parseNat? n, (if prods == "-" then [] else splitNE prods "/").mapM parseBool with
    | some a, some b, some c, some d =>
      some (match SliceRead.bypassDecision a b c d with | .untouched => "untouched" | .memcpy => "memcpy" | .bypass => "bypass")
    | _, _, _, _ => some "err:parse"
  | "slicefold" :: toks => some ((handleSlice toks).getD "err:parse")
  | "packspec" :: toks =>
    match parseGraph toks, (splitNE ((kv toks "passes").getD "") ";").mapM parseSPass with
    | some G, some ps =>
      some (s!"wf={boolStr (wfB G)} a={boolStr (partitionB G ps)} b={boolStr (topoB G ps)} c={boolStr (shapeB G ps)} " ++
            s!"d={boolStr (ps.all (oneActivationB G))} badshape={showList (idxWhere ps fun p => !passShapeB G p)} " ++
            s!"badact={showList (idxWhere ps fun p => !oneActivationB G p)}")
    | _, _ => some "err:parse"
  | "packmodel" :: toks =>
    match parseGraph toks with
    | none => some "err:parse"
    | some G =>
      match packIntoPasses Rules.current G with
      | .error e => some (showErr e)
      | .ok ps => some ("ok " ++ ";".intercalate (ps.map showPass))
  | "packdfs" :: toks =>
    match parseGraph toks with
    | none => some "err:parse"
    | some G =>
      match packDfs Rules.current G with
      | .error e => some (showErr e)
      | .ok ps => some ("ok " ++ ";".intercalate (ps.map fun p => showPass p ++ ",rows=" ++ showList (p.acc.map (·.row))))
  | _ => none

end VelaVerif.Handlers.PassPacking
