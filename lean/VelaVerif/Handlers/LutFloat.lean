import VelaVerif.Handlers.Util
import VelaVerif.Handlers.Lut
import VelaVerif.Handlers.Scaling
/-!
Protocol handler for the table generators of `lut.py` that evaluate a real function (property C19):
`create_lut_8bit_op` (EXP / LOG / SQRT / GELU int8), `create_lut_int16_op` (the same operators on int16: 512 words
`slope << 16 | base` over 513 sample points) and the two constant 512-word tables of the int16 SOFTMAX
(`SoftMax.EXP_LUT`, `SoftMax.ONE_OVER_ONE_PLUS_X_LUT`), which are TFLite's `gen_lut(exp, -10, 0)` and
`gen_lut(1/(1+x), 0, 1)`.

**Validated, not proved**: the formulas are evaluated with Lean `Float` (IEEE double of the host, `Float.exp/log/tanh/pow`
= libm); nothing here is covered by a theorem.  `erf` is not available on `Float`; it is evaluated with the
all-positive series `erf x = 2/√π · e^(−x²) · Σ 2^n x^(2n+1) / (1·3·…·(2n+1))` (relative error ≈ 1e-15, no cancellation).

* `lut8op <fn> <ifm_scale bits> <ofm_scale bits> zpIn zpOut` → `ok` 256 entries of `create_lut_8bit_op` (int8):
  `clamp(round_away_zero(f(s_in·(x − zp_in)) / s_out) + zp_out)`;  `lut8opd …` → distance of the unrounded value from the
  nearest rounding tie, in units of 2^-40
* `lut16op <fn> <ifm_scale bits> <ofm_scale bits> zpIn zpOut` → `ok` 512 words of `create_lut_int16_op`;
  `lut16opv …` → the 513 sample values; `lut16opd …` → per sample the smallest tie distance of the roundings involved (2^-40)
* `sm16mul <input scale float32 bits> <beta float32 bits>` → `ok m s`: the input multiplier of TFLite's int16 Softmax
* `gen16 exp10|recip1` / `gen16v` / `gen16d` → the same for TFLite `gen_lut` on `[-10, 0]` / `[0, 1]`, output scale 2^-15
-/
namespace VelaVerif.Handlers.LutFloat
open VelaVerif VelaVerif.Handlers
open VelaVerif.Handlers.Lut (roundAwayZero parseBool?)

def pi : Float := 3.141592653589793
def dblMin : Float := Float.ofBits 0x0010000000000000      -- sys.float_info.min

/-- all-positive series for erf; 220 terms cover |x| < 6 -/
def erfSeries (x : Float) : Float :=
  let x2 := x * x
  let rec go (fuel : Nat) (n : Nat) (t s : Float) : Float :=
    match fuel with
    | 0 => s
    | fuel + 1 =>
      let t' := t * (2 * x2) / Float.ofNat (2 * n + 3)
      if t' < s * 1e-18 then s + t' else go fuel (n + 1) t' (s + t')
  go 400 0 x x

def erf (x : Float) : Float :=
  let ax := x.abs
  if ax ≥ 6 then (if x < 0 then -1 else 1)
  else
    let s := erfSeries ax * Float.exp (-(ax * ax)) * (2 / Float.sqrt pi)
    if x < 0 then -s else s

/-- the functions `convert_ops_to_lut` passes to the generators, operation for operation -/
def realFn : String → Option (Float → Float)
  | "exp" => some Float.exp
  | "log" => some fun v => Float.log (if v ≤ 0 then dblMin else v)          -- "Log is only defined for positive values"
  | "sqrt" => some fun v => Float.sqrt (if 0.0 < v then v else 0.0)         -- math.sqrt(max(0.0, value))
  | "gelu" => some fun x => 0.5 * x * (1 + erf (x / Float.sqrt 2))
  | "gelu_tanh" => some fun x =>
      0.5 * x * (1 + Float.tanh (Float.sqrt (2 / pi) * (x + 0.044715 * Float.pow x 3)))
  | "exp10" => some Float.exp                      -- gen_lut(exp, -10, 0)
  | "recip1" => some fun x => 1.0 / (1.0 + x)      -- gen_lut(1/(1+x), 0, 1)
  | _ => none

/-- distance of `|v|` from the nearest `k + 0.5`, units of 2^-40 (saturated) -/
def tieDist (v : Float) : Int :=
  let a := v.abs
  let d := ((a - a.floor) - 0.5).abs
  (d * 1099511627776.0).toInt64.toInt

def toI (f : Float) : Int := f.toInt64.toInt

/-! ### `create_lut_8bit_op` (int8) -/

def lut8opRaw (fn : Float → Float) (sIn sOut : Float) (zpIn : Int) (x : Int) : Float :=
  fn (sIn * Float.ofInt (x - zpIn)) / sOut

def lut8op (fn : Float → Float) (sIn sOut : Float) (zpIn zpOut : Int) : List Int :=
  (VelaVerif.Lut.codes true).map fun x =>
    let r := toI (roundAwayZero (lut8opRaw fn sIn sOut zpIn x)) + zpOut
    min 127 (max (-128) r)

/-! ### 513-point int16 table with midpoint-error compensation (`create_lut_int16_op`, TFLite `gen_lut`) -/

/-- one sample: value and the smallest tie distance among its three float roundings -/
def sample16 (fn : Float → Float) (inMin step halfStep outInv : Float) (i : Nat) : Int × Int :=
  let fi := Float.ofNat i
  let v := fn (inMin + fi * step)
  let vMid := fn (inMin + fi * step + halfStep)
  let vNext := fn (inMin + Float.ofNat (i + 1) * step)
  let sampleVal := roundAwayZero (v * outInv)
  let interpRaw := (vNext * outInv + roundAwayZero (v * outInv)) / 2
  let midInterp := roundAwayZero interpRaw
  let midVal := roundAwayZero (vMid * outInv)
  let midErr := midInterp - midVal
  let bias := roundAwayZero (midErr / 2)
  let bias := if bias.isNaN then 0 else bias        -- inf − inf (function value beyond the float range): the entry saturates
  let r := sampleVal - bias
  let r := if r > -32768 then r else -32768
  let r := if r < 32767 then r else 32767
  (toI r, min (tieDist (v * outInv)) (min (tieDist interpRaw) (tieDist (vMid * outInv))))

def table16 (fn : Float → Float) (inMin inMax outInv : Float) : List (Int × Int) :=
  let step := (inMax - inMin) / 512
  let halfStep := step / 2
  let body := (List.range 512).map (sample16 fn inMin step halfStep outInv)
  let last := roundAwayZero (fn inMax * outInv)
  let last := if last > -32768 then last else -32768
  let last := if last < 32767 then last else 32767
  body ++ [(toI last, tieDist (fn inMax * outInv))]

/-- hardware words of the 16-bit table: bits [31:16] = slope `v[i+1] − v[i]`, bits [15:0] = base `v[i]`, each a 16-bit
    two's-complement field (the format `tflite_graph_optimiser` itself documents for the ArgMax table:
    "the top 16 bits represent the slope and bottom 16 bits the base") -/
def words16 (vals : List Int) : List Int :=
  (vals.zip (vals.drop 1)).map fun (a, b) => ((b - a) % 65536) * 65536 + a % 65536

structure Range16 where
  inMin : Float
  inMax : Float
  outInv : Float

/-- the ranges of `create_lut_int16_op` from the quantisation parameters -/
def opRange (sIn sOut : Float) (zpIn zpOut : Int) : Range16 :=
  let inMin := sIn * Float.ofInt (-32768 - zpIn)
  let inMax := sIn * Float.ofInt (32767 - zpIn)
  let outMin := sOut * Float.ofInt (-32768 - zpOut)
  let outMax := sOut * Float.ofInt (32767 - zpOut)
  ⟨inMin, inMax, 65536 / (outMax - outMin)⟩

def genRange : String → Option Range16
  | "exp10" => some ⟨-10.0, 0.0, 32768.0⟩
  | "recip1" => some ⟨0.0, 1.0, 32768.0⟩
  | _ => none

def render (cmdSuffix : String) (t : List (Int × Int)) : String :=
  if cmdSuffix == "v" then "ok " ++ joinInts (t.map (·.1))
  else if cmdSuffix == "d" then "ok " ++ joinInts (t.map (·.2))
  else "ok " ++ joinInts (words16 (t.map (·.1)))

def handle : List String → Option String
  | [cmd, kind, sInBits, sOutBits, zi, zo] => do
    let fn ← realFn kind
    let sIn := Float.ofBits (← parseNat? sInBits).toUInt64
    let sOut := Float.ofBits (← parseNat? sOutBits).toUInt64
    let zi ← parseInt? zi
    let zo ← parseInt? zo
    if cmd == "lut8op" then some ("ok " ++ joinInts (lut8op fn sIn sOut zi zo))
    else if cmd == "lut8opd" then
      some ("ok " ++ joinInts ((VelaVerif.Lut.codes true).map fun x => tieDist (lut8opRaw fn sIn sOut zi x)))
    else if cmd == "lut16op" || cmd == "lut16opv" || cmd == "lut16opd" then
      let r := opRange sIn sOut zi zo
      some (render (if cmd == "lut16opv" then "v" else if cmd == "lut16opd" then "d" else "") (table16 fn r.inMin r.inMax r.outInv))
    else none
  | ["sm16mul", sBits, bBits] => do
    -- TFLite int16 Softmax Prepare: `double input_scale_beta_rescale = input->params.scale * params->beta / (10.0 / 65535.0)`:
    -- the product of the two floats in float, the division in double; then QuantizeMultiplier
    let s := Float32.ofBits (← parseNat? sBits).toUInt32
    let b := Float32.ofBits (← parseNat? bBits).toUInt32
    let d : Float := (s * b).toFloat / (10.0 / 65535.0)
    some (VelaVerif.Handlers.Scaling.pairStr (VelaVerif.Scaling.quantiseScale (VelaVerif.Handlers.Scaling.ofFloat d)))
  | [cmd, kind] => do
    if cmd != "gen16" && cmd != "gen16v" && cmd != "gen16d" then none else
    let fn ← realFn kind
    let r ← genRange kind
    some (render (if cmd == "gen16v" then "v" else if cmd == "gen16d" then "d" else "") (table16 fn r.inMin r.inMax r.outInv))
  | _ => none

end VelaVerif.Handlers.LutFloat
