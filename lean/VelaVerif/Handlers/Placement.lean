import VelaVerif.Spec.Placement
import VelaVerif.Handlers.Preserve
/-!
C16 pipeline-level request: the fate of every source operator in the output file, judged against its documented
placement.

`c16cover pred=<p>,<p>,… predc=<p>,… s.tensors=… s.inputs=… s.outputs=… s.ops=… o.tensors=… o.inputs=… o.outputs=… o.ops=…`
  graphs as in the `preserve` request of C11 (harness/preserve_dump.py); `pred` / `predc`: one token per source
  operator in file order — the first word of the Spec's `documented` verdict for the fresh report / the committed
  document (`npu`, `cpu`, `silent`, `raised`, `-` = not judged).
  answer `<ok|bad|pre> fates=<f>,… judged=<0|1>,… judgedc=<0|1>,… ethosu=<n> n=<problems> <kind>|<detail> ~ …`
  (`pre`: the SOURCE is malformed — nothing is judged).
`c16fate <pred> <fate>`  → `1` / `0`  (the per-operator predicate alone)
-/
namespace VelaVerif.Handlers.Placement
open VelaVerif VelaVerif.Handlers VelaVerif.Preserve VelaVerif.Placement
open VelaVerif.Handlers.Preserve (kv parseGraph showProblems)

def parseFate (s : String) : Option Fate :=
  [Fate.cpu, .npu, .folded, .dead, .lost, .both, .twice].find? fun f => f.toString == s

def predList (toks : List String) (key : String) : List String :=
  ((kv toks key).getD "").splitOn "," |>.filter (· ≠ "")

def handle : List String → Option String
  | "c16cover" :: toks => do
    let src ← parseGraph toks "s"
    let out ← parseGraph toks "o"
    let r := report src out
    let preds := predList toks "pred"
    let predc := predList toks "predc"
    let js (l : List Bool) : String := ",".intercalate (l.map boolStr)
    let body := s!"fates={",".intercalate (r.fates.map (·.toString))} judged={js (judgeAll preds r.fates)} " ++
      s!"judgedc={js (judgeAll predc r.fates)} ethosu={r.ethosu}"
    if !r.pre.isEmpty then some (s!"pre {body} n={r.pre.length} " ++ showProblems r.pre)
    else if r.problems.isEmpty then some (s!"ok {body} n=0")
    else some (s!"bad {body} n={r.problems.length} " ++ showProblems r.problems)
  | ["c16fate", pred, f] =>
    match parseFate f with
    | some f => some (boolStr (judge pred f))
    | none => some "err:fate"
  | _ => none

end VelaVerif.Handlers.Placement
