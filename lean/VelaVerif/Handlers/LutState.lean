import VelaVerif.Spec.LutRefine
import VelaVerif.Spec.Conflicts
import VelaVerif.Handlers.Util
/-!
Lookup-table residency (C03, function level; `harness/lutstate_lib.py`).

`lutpass <lutStart> <lutSize> <reserved> <widthAware 0|1> <sticky 0|1> T <vals>:<size>:<content> … P <0|1>:<tid|-> … C <d.p.t | s.p | o> …`
  tables (tid = position), passes (pid = position: `ps.lut_tensor is not None`, the table its operation reads), commands.
  answer `ok log=<call log, ';'-separated, '_' for ' '> kept=<i,…> addr=<a|-,…> idx=<i|-,…> stable=<b> eqbytes=<b>
  origok=<b> agree=<b> sizes=<b> dmaown=<b> spec=<n problems of the model's final stream>` or `err:value log=…`
  (the two flags select the variant of lut.py: Model/LutState.lean `Ctx.widthAware`, `Ctx.sticky`)
`lutspec <accelerator name> E <l.content.size.addr.region | u.content.size.idx | k | n> …`
  the byte-level Spec on a stream of window events (what the REAL pass left), geometry hand-written by accelerator name;
  answer `ok` or `bad n=<k> <first problems, ' ~ ' separated>`
`luteq S <tid:vals:size:addr> … V <vals> <size> <widthAware>` → tid of the entry `get_equivalent` returns, `-` for None
`lutfba S <…> … A <start> <stop> <step>`            → address, `err:value`
`lutput S <…> … N <tid:vals:size:addr>`             → the new list `tid@addr …`
`lutidx <lutStart> <addr> <size>`                   → `get_lut_index`, `err:assert`
`lutdisj S <tid:_:size:addr> …`                     → Spec: `ok` if no two tables of the list share a byte, else `bad …`
-/
namespace VelaVerif.Handlers.LutState
open VelaVerif.Handlers VelaVerif.Model.LutState VelaVerif.Spec.LutWindow VelaVerif.Spec.LutRefine

def splitAt (toks : List String) (key : String) : List String × List String :=
  (toks.takeWhile (· ≠ key), (toks.dropWhile (· ≠ key)).drop 1)

def fields (s : String) (sep : String) : List String := s.splitOn sep

def parseTab (s : String) : Option Tab :=
  match (fields s ":").mapM parseNat? with
  | some [a, b, c, d] => some ⟨a, b, c, d⟩
  | _ => none

def optNat (s : String) : Option (Option Nat) := if s = "-" then some none else (parseNat? s).map some

structure Case where
  ctx : Ctx
  ref : Refine
  ntab : Nat
  npass : Nat
  cmds : List Cmd

def parseCmd (nt np : Nat) (s : String) : Option Cmd :=
  match fields s "." with
  | ["d", p, t] => do
    let p ← parseNat? p; let t ← parseNat? t
    if p < np ∧ t < nt then some (.lutDma p t) else none
  | ["s", p] => do
    let p ← parseNat? p
    if p < np then some (.stripe p) else none
  | ["o"] => some .other
  | _ => none

def parseCase (toks : List String) : Option Case := do
  let (hd, rest) := splitAt toks "T"
  let [a, b, c, wa, sk] ← parseNats hd | none
  let (ts, rest) := splitAt rest "P"
  let (ps, cs) := splitAt rest "C"
  let tabs ← ts.mapM fun s => match (fields s ":").mapM parseNat? with | some [v, n, k] => some (v, n, k) | _ => none
  let passes ← ps.mapM fun s => match fields s ":" with
    | [f, t] => do
      let f ← parseNat? f; let t ← optNat t
      if (match t with | some t => decide (t < tabs.length) | none => true) then some (f != 0, t) else none
    | _ => none
  let cmds ← cs.mapM (parseCmd tabs.length passes.length)
  let ta := tabs.toArray
  let pa := passes.toArray
  some { ctx := { lutStart := a, lutSize := b, reserved := c, vals := fun t => (ta[t]?.map (·.1)).getD 0,
                  size := fun t => (ta[t]?.map (·.2.1)).getD 0, passLut := fun p => (pa[p]?.map (·.1)).getD false,
                  widthAware := wa != 0, sticky := sk != 0 },
         ref := { content := fun t => (ta[t]?.map (·.2.2)).getD 0, passTab := fun p => (pa[p]?.bind (·.2)) },
         ntab := tabs.length, npass := passes.length, cmds := cmds }

def eqBytesB (k : Case) : Bool :=
  (List.range k.ntab).all fun t => (List.range k.ntab).all fun u =>
    k.ctx.vals t != k.ctx.vals u || (k.ctx.widthAware && k.ctx.size t != k.ctx.size u) ||
      (k.ctx.size t == k.ctx.size u && k.ref.content t == k.ref.content u)

def agreeB (k : Case) : Bool := (List.range k.npass).all fun p => k.ctx.passLut p == (k.ref.passTab p).isSome

def sizesB (k : Case) : Bool :=
  k.ctx.lutSize == 2048 && (List.range k.ntab).all fun t => [256, 512, 1024, 2048].contains (k.ctx.size t)

def showOpt : Option Nat → String
  | some n => toString n
  | none => "-"

def logStr (l : List String) : String := ";".intercalate (l.map fun s => s.replace " " "_")

def parseEv (s : String) : Option (Ev × Bool) :=
  match fields s "." with
  | ["l", c, n, a, r] => do
    let c ← parseNat? c; let n ← parseNat? n; let a ← parseNat? a; let r ← parseNat? r
    some (.load c n a, r == VelaVerif.Isa.REGION_SHRAM)
  | ["u", c, n, i] => do some (.use (← parseNat? c) (← parseNat? n) (← parseNat? i), true)
  | ["k"] => some (.kernel, true)
  | ["n"] => some (.nop, true)
  | _ => none

/-- hand-written geometry of the table window (Spec/Conflicts.lean `hwShramBanks`) -/
def hwGeom (name : String) : Option Geom :=
  if ["ethos-u55-32", "ethos-u55-64", "ethos-u55-128", "ethos-u55-256", "ethos-u65-256", "ethos-u65-512"].contains name then
    let banks := VelaVerif.Conflicts.hwShramBanks name
    some ⟨(banks - 2) * 1024, 2048, banks == 16⟩
  else none

def parseState (toks : List String) : Option State := toks.mapM parseTab

def handle : List String → Option String
  | "lutpass" :: toks =>
    match parseCase toks with
    | none => some "err:parse"
    | some k =>
      let log := logStr (optimizeLog k.ctx k.cmds)
      match optimize k.ctx k.cmds with
      | .error _ => some s!"err:value log={log}"
      | .ok (acts, sf) =>
        let kept := (acts.zipIdx.filter fun (a, _) => a.kept).map fun (_, i) => toString i
        let addr := (List.range k.ntab).map fun t => showOpt (lookup sf.env.addr t)
        let idx := (List.range k.npass).map fun p => showOpt (lookup sf.env.idx p)
        let probs := problems (geomOf k.ctx) (eventsFinal k.ctx k.ref sf.env k.cmds acts)
        some (s!"ok log={log} kept={",".intercalate kept} addr={",".intercalate addr} idx={",".intercalate idx} " ++
          s!"stable={boolStr (stable sf.env)} eqbytes={boolStr (eqBytesB k)} origok={boolStr (origOkB k.ctx k.ref none k.cmds)} " ++
          s!"agree={boolStr (agreeB k)} sizes={boolStr (sizesB k)} dmaown={boolStr (dmaOwnB k.ref k.cmds)} spec={probs.length}")
  | "lutspec" :: name :: "E" :: evs =>
    match hwGeom name, evs.mapM parseEv with
    | some g, some es =>
      let regionProbs := (es.zipIdx.filter fun (e, _) => !e.2).map fun (_, i) => s!"event {i}: table load does not go to the SHRAM region"
      let probs := regionProbs ++ problems g (es.map (·.1))
      if probs.isEmpty then some "ok" else some (s!"bad n={probs.length} " ++ " ~ ".intercalate (probs.take 4))
    | _, _ => some "err:parse"
  | "luteq" :: "S" :: toks =>
    let (st, v) := splitAt toks "V"
    match parseState st, parseNats v with
    | some st, some [v, n, wa] =>
      let c : Ctx := { lutStart := 0, lutSize := 0, reserved := 0, vals := fun _ => v, size := fun _ => n, passLut := fun _ => false,
                       widthAware := wa != 0 }
      some (match getEquiv c st 0 with | some e => toString e.tid | none => "-")
    | _, _ => some "err:parse"
  | "lutfba" :: "S" :: toks =>
    let (st, a) := splitAt toks "A"
    match parseState st, parseNats a with
    | some st, some [a, b, c] => some (match findBestAddress st a b c with | .ok r => toString r | .error _ => "err:value")
    | _, _ => some "err:parse"
  | "lutput" :: "S" :: toks =>
    let (st, n) := splitAt toks "N"
    match parseState st, n.mapM parseTab with
    | some st, some [t] => some (showState (put st t))
    | _, _ => some "err:parse"
  | "lutdisj" :: "S" :: toks =>
    match parseState toks with
    | some st =>
      match tablesOverlap (st.map fun t => (t.tid, t.addr, t.size)) with
      | none => some "ok"
      | some (a, b) => some s!"bad tables {a} and {b} share bytes"
    | none => some "err:parse"
  | ["lutidx", a, b, c] =>
    match parseNats [a, b, c] with
    | some [a, b, c] => some (match getLutIndex a b c with | some i => toString i | none => "err:assert")
    | _ => some "err:parse"
  | _ => none

end VelaVerif.Handlers.LutState
