import VelaVerif.Model.Serialise
import VelaVerif.Model.Reported
import VelaVerif.Spec.Serialise
import VelaVerif.Handlers.Util
/-!
Model requests
`serial acc=<i> ports=<c><a><k> axi=<area0>,<area1> calls=<area>:<type>/<type>:<total>:<rec>;… sgs=<sg>~<sg>… cops=<callee>:<n other inputs>;… alias=<0|1>`
  `<sg>` = `<isNpu>@<area>:<bytes>,…@<w>.<w>.…@<op>;<op>…`, `<op>` = items joined by `/`:
  `W!<addr|->!<storage>!<hex>` / `S!…` encoded weights / scales, `I!<addr|->!<memtype>!<dtype size>!<item size>!<v<int>.<int>…|->` IFM,
  `J!…` IFM2, `L!…` LUT tensor (`L-` = activation_lut set but no LUT tensor)
  answer `ok scratch=<size>:<area>:<type>:<purpose>:<plan offset>:<has buffer> fast=… flash=<size>:<len>:<adler32>:<area>:<type>
          cmds=<size>:<adler32>,… ranges=<addr>:<len>:<adler32 of the flash bytes there>,… inputs=<kinds>;… startup=<kinds>` or `err:<kind>`
`reported calls=… bw=<area>,… W=<id>:<len>,… O=<id>:<itemsize>:<elements>,…`
  answer `csv=<sram>,<dram>,<onchip>,<offchip> console=<area>:<hundredths>,… enc=<n> orig=<n> pt=<scratch>,<fast>`
`serial1 acc=… ports=… axi=… in=<scratch|->,<fast|->,<flash|->,<hex|-|e> sg=<sg>` one call with given incoming tensors
  answer `ok s=<size> q=<size> f=<size>:<len>:<adler32> cmd=<size>:<adler32>`
`sercopy mem=<hex> it=<item>` one copy; answer `ok <len>:<adler32>`
Spec requests (real values)
`serflash flash=<hex> P=<addr>!r!<hex>;<addr>!i<size>!<int>.<int>…;…`     → `ok` | `fail <n> <first messages>`
`serspan what=<name> off=<int> size=<n> T=<addr>:<storage>,…`              → `ok` | `fail …`
`serorder kinds=<k>,… regions=<r>:<k>,…`                                    → `ok` | `fail …`
`serreport F=<name>:<reported>:<extent>,… C=<name>:<hundredths>:<extent>,…` → `ok` | `fail …`
`adler <hex>` → the digest used above
-/
namespace VelaVerif.Handlers.Serialise
open VelaVerif VelaVerif.Handlers VelaVerif.Serialise

def kv (toks : List String) (key : String) : Option String :=
  toks.findSome? fun t => if t.startsWith (key ++ "=") then some (t.drop (key.length + 1)).toString else none

def splitNE (s : String) (sep : String) : List String := (s.splitOn sep).filter (· ≠ "")

def hexVal (c : Char) : Option Nat :=
  if '0' ≤ c ∧ c ≤ '9' then some (c.toNat - '0'.toNat)
  else if 'a' ≤ c ∧ c ≤ 'f' then some (c.toNat - 'a'.toNat + 10)
  else none

def hexToBytes (s : String) : Option (List Nat) :=
  let rec go : List Char → List Nat → Option (List Nat)
    | [], acc => some acc.reverse
    | [_], _ => none
    | a :: b :: rest, acc => do go rest (((← hexVal a) * 16 + (← hexVal b)) :: acc)
  go s.toList []

/-- Adler-32 -/
def adler (bs : List Nat) : Nat :=
  let r := bs.foldl (fun (p : Nat × Nat) x => let a := (p.1 + x) % 65521; (a, (p.2 + a) % 65521)) (1, 0)
  r.2 * 65536 + r.1

def areaOf : Nat → Option MemArea
  | 0 => some .unknown | 1 => some .sram | 2 => some .dram | 3 => some .onChipFlash | 4 => some .offChipFlash | 5 => some .shram
  | _ => none

def areaCode : MemArea → Nat
  | .unknown => 0 | .sram => 1 | .dram => 2 | .onChipFlash => 3 | .offChipFlash => 4 | .shram => 5

def typeOf : Nat → Option MemType
  | 0 => some .unknown | 1 => some .permanentNPU | 2 => some .permanentCPU | 3 => some .scratch | 4 => some .scratchFast
  | _ => none

def typeCode : MemType → Nat
  | .unknown => 0 | .permanentNPU => 1 | .permanentCPU => 2 | .scratch => 3 | .scratchFast => 4

def purposeCode : Purpose → Nat
  | .unknown => 0 | .weights => 1 | .featureMap => 2 | .scratch => 3 | .scratchFast => 4 | .lut => 5 | .fsBias => 6

def portOf : Char → Option Port
  | '0' => some .axi0 | '1' => some .axi1 | _ => none

def optNat (s : String) : Option (Option Nat) := if s == "-" then some none else (parseNat? s).map some

def parseComp (f : List String) : Option Comp :=
  match f with
  | [a, st, hx] => do some { address := ← optNat a, storageSize := ← parseNat? st, buffer := ← hexToBytes hx }
  | [a, st] => do some { address := ← optNat a, storageSize := ← parseNat? st, buffer := [] }
  | _ => none

def parseVals (s : String) : Option (Option (List Int)) :=
  if s == "-" then some none
  else if s.startsWith "v" then (parseInts (splitNE (s.drop 1).toString ".")).map some
  else none

def parseFm (f : List String) : Option Fm :=
  match f with
  | [a, mt, ds, is_, vs] => do
    some { address := ← optNat a, memType := ← typeOf (← parseNat? mt), dtypeSize := ← parseNat? ds, itemSize := ← parseNat? is_, values := ← parseVals vs }
  | _ => none

def parseOp (s : String) : Option SOp :=
  (splitNE s "/").foldlM (fun (o : SOp) it =>
    if it == "L-" then some { o with lut := some none } else
    match it.splitOn "!" with
    | "W" :: f => do some { o with weights := some (← parseComp f) }
    | "S" :: f => do some { o with scales := some (← parseComp f) }
    | "I" :: f => do some { o with ifm := some (← parseFm f) }
    | "J" :: f => do some { o with ifm2 := some (← parseFm f) }
    | "L" :: f => do some { o with lut := some (some (← parseFm f)) }
    | _ => none) ⟨none, none, none, none, none⟩

def parseUsed (s : String) : Option (List (MemArea × Nat)) :=
  (splitNE s ",").mapM fun e => match e.splitOn ":" with
    | [a, n] => do some (← areaOf (← parseNat? a), ← parseNat? n)
    | _ => none

def parseSg (s : String) : Option Sg :=
  match s.splitOn "@" with
  | [npu, mu, ws, ops] => do
    some { isNpu := npu == "1", memoryUsed := ← parseUsed mu, words := ← parseNats (splitNE ws "."), ops := ← (splitNE ops ";").mapM parseOp }
  | _ => none

def parseCalls (s : String) : Option (List Reported.AllocCall) :=
  (splitNE s ";").mapM fun e => match e.splitOn ":" with
    | [a, ts, tot, r] => do
      some { area := ← areaOf (← parseNat? a), types := ← (← parseNats (splitNE ts "/")).mapM typeOf, total := ← parseNat? tot, recorded := r == "1" }
    | _ => none

def parseArch (toks : List String) : Option Arch := do
  let acc ← Gen.accelerators[← parseNat? (← kv toks "acc")]?
  match (← kv toks "ports").toList, splitNE (← kv toks "axi") "," with
  | [c, a, k], [x0, x1] =>
    some { acc := acc, constPort := ← portOf c, arenaPort := ← portOf a, cachePort := ← portOf k,
           axi0 := ← areaOf (← parseNat? x0), axi1 := ← areaOf (← parseNat? x1) }
  | _, _ => none

def errStr : Err → String
  | .broadcast => "err:broadcast"
  | .noValues => "err:novalues"
  | .noAddress => "err:noaddress"
  | .noLut => "err:nolut"
  | .noTensor => "err:notensor"
  | .payload .vela => "err:payload-vela"
  | .payload .pack => "err:payload-pack"

def kindOf : TRef → Nat
  | .cmd _ => 0 | .flash => 1 | .scratch => 2 | .fast => 3 | .other _ => 9

def memStr (t : Option MemTensor) : String :=
  match t with
  | none => "none"
  | some t => s!"{t.size}:{areaCode t.memArea}:{typeCode t.memType}:{purposeCode t.purpose}:{memPlanOffset t}:{boolStr (hasBuffer t)}"

/-- (address, length) of the bytes an item writes when everything is in place -/
def itemRange : Item → Option (Nat × Nat)
  | .comp t => t.address.map fun a => (a, t.storageSize)
  | .fm t => match t.address, t.values with
    | some a, some v => some (a, (fmBytes t v).length)
    | _, _ => none
  | .missingLut => none

def parsePlaced (s : String) : Option Spec.Serialise.Placed :=
  match s.splitOn "!" with
  | [a, "r", hx] => do some { addr := ← parseNat? a, src := .raw (← hexToBytes hx) }
  | [a, k, vs] =>
    if k.startsWith "i" then do
      some { addr := ← parseNat? a, src := .ints (← parseNat? (k.drop 1).toString) (← parseInts (splitNE vs ".")) }
    else none
  | [a, k] => if k.startsWith "i" then do some { addr := ← parseNat? a, src := .ints (← parseNat? (k.drop 1).toString) [] }
              else if k == "r" then do some { addr := ← parseNat? a, src := .raw [] } else none
  | _ => none

def verdict (problems : List String) : String :=
  if problems.isEmpty then "ok" else s!"fail {problems.length} " ++ " ~ ".intercalate (problems.take 3)

def handle : List String → Option String
  | "serial" :: toks => do
    let arch ← parseArch toks
    let calls ← parseCalls ((kv toks "calls").getD "")
    let sgs ← (splitNE ((kv toks "sgs").getD "") "~").mapM parseSg
    let cops ← (splitNE ((kv toks "cops").getD "") ";").mapM fun e => match e.splitOn ":" with
      | [c, n] => do some (← parseNat? c, ← parseNat? n)
      | _ => none
    match serialiseAll arch sgs none none none with
    | .error e => some (errStr e)
    | .ok (s, q, f, cmds) =>
      let b := Reported.books calls
      let (s, q) := finalSizes b.perType s q
      let flashVals := (f.bind (·.values)).getD []
      let items := sgs.flatMap fun sg => if sg.isNpu then sgItems sg else []
      let ranges := items.filterMap itemRange |>.map fun (a, n) => s!"{a}:{n}:{adler ((flashVals.drop a).take n)}"
      let cmdStr := cmds.filterMap id |>.map fun c => s!"{c.size}:{adler (c.values.getD [])}"
      let fl := match f with
        | none => "none"
        | some t => s!"{t.size}:{flashVals.length}:{adler flashVals}:{areaCode t.memArea}:{typeCode t.memType}"
      let ins := cops.map fun (c, n) => ",".intercalate ((rewriteInputs c ((List.range n).map .other)).map fun t => toString (kindOf t))
      let st := cops.foldl (fun acc (c, _) => startupOutputs ((kv toks "alias").getD "0" == "1") c acc) []
      some (s!"ok scratch={memStr s} fast={memStr q} flash={fl} cmds=" ++ ",".intercalate cmdStr ++ " ranges=" ++ ",".intercalate ranges ++
            " inputs=" ++ ";".intercalate ins ++ " startup=" ++ ",".intercalate (st.map fun t => toString (kindOf t)))
  | "serial1" :: toks => do
    -- one call of the serialiser with given incoming tensors: `in=<scratch size|->,<fast size|->,<flash size|->,<flash hex|->`
    let arch ← parseArch toks
    let sg ← parseSg (← kv toks "sg")
    let (s, q, f) ← match splitNE ((kv toks "in").getD "-,-,-,-") "," with
      | [ss, qs, fs, hx] => do
        let vals ← if hx == "-" then some none else (hexToBytes (if hx == "e" then "" else hx)).map some
        let s := (← optNat ss).map fun n => ({ size := n, memArea := arch.scratchArea, memType := .scratch, purpose := .scratch, values := none } : MemTensor)
        let q := (← optNat qs).map fun n => ({ size := n, memArea := arch.fastArea, memType := .scratchFast, purpose := .scratchFast, values := none } : MemTensor)
        let f := (← optNat fs).map fun n => ({ size := n, memArea := arch.flashArea, memType := .permanentCPU, purpose := .featureMap, values := vals } : MemTensor)
        some (s, q, f)
      | _ => none
    match serialise arch sg s q f with
    | .error e => some (errStr e)
    | .ok r =>
      let sz := fun (t : Option MemTensor) => match t with | some t => toString t.size | none => "-"
      let fl := match r.flash with
        | some t => s!"{t.size}:{(t.values.getD []).length}:{adler (t.values.getD [])}"
        | none => "-"
      let cm := match r.cmd with
        | some t => s!"{t.size}:{adler (t.values.getD [])}"
        | none => "-"
      some s!"ok s={sz r.scratch} q={sz r.fast} f={fl} cmd={cm}"
  | "sercopy" :: toks => do
    -- one copy into a memory tensor: `mem=<hex> it=<item>`
    let mem ← hexToBytes ((kv toks "mem").getD "")
    let o ← parseOp (← kv toks "it")
    match applyItems (opItems o) mem with
    | .error e => some (errStr e)
    | .ok m => some s!"ok {m.length}:{adler m}"
  | "reported" :: toks => do
    let calls ← parseCalls ((kv toks "calls").getD "")
    let bw ← (← parseNats (splitNE ((kv toks "bw").getD "") ",")).mapM areaOf
    let ws ← (splitNE ((kv toks "W").getD "") ",").mapM fun e => match e.splitOn ":" with
      | [i, n] => do some (← parseNat? i, ← parseNat? n)
      | _ => none
    let os ← (splitNE ((kv toks "O").getD "") ",").mapM fun e => match e.splitOn ":" with
      | [i, a, n] => do some (← parseNat? i, ← parseNat? a, ← parseNat? n)
      | _ => none
    let b := Reported.books calls
    some (s!"csv=" ++ ",".intercalate ((Reported.csvMemory b.used).map toString) ++
          " console=" ++ ",".intercalate ((Reported.consoleMemory b.used bw).map fun (a, h) => s!"{areaCode a}:{h}") ++
          s!" enc={Reported.totalEncoded ws} orig={Reported.totalOriginal os} pt={typeGet b.perType .scratch},{typeGet b.perType .scratchFast}")
  | "serflash" :: toks => do
    let flash ← hexToBytes ((kv toks "flash").getD "")
    let ps ← (splitNE ((kv toks "P").getD "") ";").mapM parsePlaced
    some (verdict (Spec.Serialise.flashProblems flash ps))
  | "serspan" :: toks => do
    let tens ← (splitNE ((kv toks "T").getD "") ",").mapM fun e => match e.splitOn ":" with
      | [a, n] => do some (← parseNat? a, ← parseNat? n)
      | _ => none
    some (verdict (Spec.Serialise.spanProblems ((kv toks "what").getD "scratch") (← parseInt? (← kv toks "off")) (← parseNat? (← kv toks "size")) tens))
  | "serorder" :: toks => do
    let kinds ← parseNats (splitNE ((kv toks "kinds").getD "") ",")
    let regions ← (splitNE ((kv toks "regions").getD "") ",").mapM fun e => match e.splitOn ":" with
      | [r, k] => do some (← parseNat? r, ← parseNat? k)
      | _ => none
    some (verdict (Spec.Serialise.orderProblems kinds regions))
  | "serreport" :: toks => do
    let parse3 := fun (s : String) => (splitNE s ",").mapM fun e => match e.splitOn ":" with
      | [n, r, x] => do some (n, ← parseNat? r, ← parseNat? x)
      | _ => none
    let figs ← parse3 ((kv toks "F").getD "")
    let cons ← parse3 ((kv toks "C").getD "")
    some (verdict (Spec.Serialise.reportProblems figs ++
      cons.filterMap fun (n, h, x) => if Spec.Serialise.consoleCovers h x then none else some s!"{n}: console {h}/100 KiB < extent {x}"))
  | ["adler", hx] => do some (toString (adler (← hexToBytes hx)))
  | ["adler"] => some (toString (adler []))
  | _ => none

end VelaVerif.Handlers.Serialise
