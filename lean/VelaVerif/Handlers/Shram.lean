import VelaVerif.Model.Shram
import VelaVerif.Spec.Shram
import VelaVerif.Handlers.Util
/-!
Line protocol for C15 (all numbers decimal, booleans 0/1):

* `shram r ew ofmW ofmH ofmD ifmW ifmH ifmD ifmBits ifmGranule accBits accGranule lutBanks`
    `_try_block_config` on row `r` → `none` | `ok ibStart ibStart2 ibEnd abStart lutStart` | `err:…`
* `trycfg r bt blkW blkH blkD TRY` with
    `TRY = ofmW ofmH ofmD ifmW ifmH ifmD has2 i2W i2H i2D usesScalar bits pk kW kH sX sY dX dY lutBanks scaled rs`
    `try_block_config` → `none` | `ok <layout5> ifm W H D acc <bits> pk P bank B`
* `findcfg r bt FIND` / `findcfgq r bt FIND` with
    `FIND = ofmN ofmH ofmW ofmD ifmN ifmH ifmW ifmD has2 i2N i2H i2W i2D usesScalar bits kW kH sX sY dX dY lutBanks scaled rs`
    `find_block_config` with IEEE-double costs / exact rational costs → `none` | `ok blk W H D <layout5> ifm W H D acc <bits> pk P bank B`
* `apicfg r OP` with
    `OP = kind pkFirst ifmW ifmH ifmD ifmQ ifmS has2 i2W i2H i2D i2Q i2S scalar ofmW ofmH ofmD ofmQ ofmS upscale bits hasK kW kH sX sY dX dY lut`
    `api.npu_find_block_configs` → `ok h w d h w d …` | `err:assert`
* `gencfg r OP blkH blkW blkD` `get_arch_block_config` → `ok <layout5> ifm W H D fmt F` | `err:assert`
* `offerverdict r OP blkH blkW blkD implAccepted` → `accepted` | `rejected:<why the model says so>`
* `speccheck r VIEW blkW blkH blkD accBits ibStart ibStart2 ibEnd abStart lutStart` with
    `VIEW = usage equalDepth ifmBits ifmDepth partKernel kW kH sX sY dX dY upscale nearest ofmHeight usesLut`
    Spec checker on an implementation layout → `1` | `0:<clause>`
* `regcheck r VIEW blkW blkH blkD accFormat ibEnd abStart hasIb2 ibStart2`
    Spec checker on the registers the generator emitted
* `ifmarea ofmW ofmH kW kH sX sY dX dY rs` → `w1 h1`
-/
namespace VelaVerif.Handlers.Shram
open VelaVerif VelaVerif.Handlers VelaVerif.Gen VelaVerif.Gen.Shram VelaVerif.Shram

def errStr : Err → String
  | .assert => "err:assert"
  | .key => "err:key"
  | .domain => "err:domain"
  | .fuel => "err:fuel"

def floatOps : CostOps Float :=
  { ofNat := Nat.toFloat, add := (· + ·), mul := (· * ·), div := (· / ·),
    le := fun a b => decide (a ≤ b), eq := fun a b => a == b }

/-- exact non-negative rationals as (numerator, denominator) -/
def ratOps : CostOps (Nat × Nat) :=
  { ofNat := fun n => (n, 1),
    add := fun a b => (a.1 * b.2 + b.1 * a.2, a.2 * b.2),
    mul := fun a b => (a.1 * b.1, a.2 * b.2),
    div := fun a b => (a.1 * b.2, a.2 * b.1),
    le := fun a b => decide (a.1 * b.2 ≤ b.1 * a.2),
    eq := fun a b => decide (a.1 * b.2 = b.1 * a.2) }

def blockType? (n : Nat) : Option BlockType :=
  if n = btDefault then some .default else if n = btConvolutionMxN then some .convMxN
  else if n = btVectorProduct then some .vectorProduct else if n = btPooling then some .pooling
  else if n = btConvolutionDepthWise then some .depthwise else if n = btElementWise then some .elementwise
  else if n = btReduceSum then some .reduceSum else none

def resampling? (n : Nat) : Option Resampling :=
  if n = rsNone then some .none else if n = rsNearest then some .nearest
  else if n = rsTranspose then some .transpose else none

def ew? : Nat → Option EwUsage
  | 0 => some .no | 1 => some .full | 2 => some .scalar | _ => none

def apiKind? : Nat → Option ApiKind
  | 0 => some .conv2d | 1 => some .depthwise | 2 => some .pooling | 3 => some .reduceSum | 4 => some .elementwise
  | _ => none

def layoutStr (l : Layout) : String :=
  s!"{l.ibStart} {l.ibStart2} {l.ibEnd} {l.abStart} {l.lutStart}"

def blkStr (b : Blk) : String := s!"{b.width} {b.height} {b.depth}"

def b01 (n : Int) : Bool := n != 0

/-- bounds that keep every integer handed to the double arithmetic below 2^53 -/
def findInRange (a : FindArgs) : Bool :=
  let okS (s : Shape) := s.batch ≤ 8 && s.height ≤ 4096 && s.width ≤ 4096 && s.depth ≤ 4096
  okS a.ofm && okS a.ifm && a.ifm2.all okS && a.kernel.areaWidth * a.kernel.areaHeight ≤ 4096 &&
  a.kernel.strideX ≤ 8 && a.kernel.strideY ≤ 8

def parseTry (bt : BlockType) (t : List Int) : Option TryArgs :=
  match t with
  | [ofmW, ofmH, ofmD, ifmW, ifmH, ifmD, has2, i2W, i2H, i2D, usesScalar, bits, pk, kW, kH, sX, sY, dX, dY,
     lutBanks, scaled, rs] =>
    if (([ofmW, ofmH, ofmD, ifmW, ifmH, ifmD, i2W, i2H, i2D, bits, kW, kH, sX, sY, dX, dY, rs].any (· < 0))) then none
    else do
      let r ← resampling? rs.toNat
      some { bt := bt, ofm := ⟨ofmW.toNat, ofmH.toNat, ofmD.toNat⟩, ifm := ⟨ifmW.toNat, ifmH.toNat, ifmD.toNat⟩,
             ifm2 := if b01 has2 then some ⟨i2W.toNat, i2H.toNat, i2D.toNat⟩ else none,
             usesScalar := b01 usesScalar, ifmBits := bits.toNat, isPartKernel := b01 pk,
             kernel := ⟨kW.toNat, kH.toNat, sX.toNat, sY.toNat, dX.toNat, dY.toNat⟩, lutBanks := lutBanks,
             scaled := b01 scaled, resampling := r }
  | _ => none

def parseFind (bt : BlockType) (t : List Int) : Option FindArgs :=
  match t with
  | [ofmN, ofmH, ofmW, ofmD, ifmN, ifmH, ifmW, ifmD, has2, i2N, i2H, i2W, i2D, usesScalar, bits, kW, kH, sX, sY,
     dX, dY, lutBanks, scaled, rs] =>
    if (([ofmN, ofmH, ofmW, ofmD, ifmN, ifmH, ifmW, ifmD, i2N, i2H, i2W, i2D, bits, kW, kH, sX, sY, dX, dY, rs].any (· < 0))) then none
    else do
      let r ← resampling? rs.toNat
      some { bt := bt, ofm := ⟨ofmN.toNat, ofmH.toNat, ofmW.toNat, ofmD.toNat⟩,
             ifm := ⟨ifmN.toNat, ifmH.toNat, ifmW.toNat, ifmD.toNat⟩,
             ifm2 := if b01 has2 then some ⟨i2N.toNat, i2H.toNat, i2W.toNat, i2D.toNat⟩ else none,
             usesScalar := b01 usesScalar, ifmBits := bits.toNat,
             kernel := ⟨kW.toNat, kH.toNat, sX.toNat, sY.toNat, dX.toNat, dY.toNat⟩, lutBanks := lutBanks,
             scaled := b01 scaled, resampling := r }
  | _ => none

/-- 29 tokens -/
def parseOp (t : List Nat) : Option ApiOp :=
  match t with
  | [kind, pkFirst, ifmW, ifmH, ifmD, ifmQ, ifmS, has2, i2W, i2H, i2D, i2Q, i2S, scalar, ofmW, ofmH, ofmD, ofmQ,
     ofmS, upscale, bits, hasK, kW, kH, sX, sY, dX, dY, lut] => do
    let k ← apiKind? kind
    let r ← resampling? upscale
    some { kind := k, partKernelFirst := pkFirst != 0,
           ifm := ⟨⟨ifmW, ifmH, ifmD⟩, ifmQ != 0, ifmS != 0⟩,
           ifm2 := if has2 != 0 then some ⟨⟨i2W, i2H, i2D⟩, i2Q != 0, i2S != 0⟩ else none,
           ifm2Scalar := scalar != 0,
           ofm := ⟨⟨ofmW, ofmH, ofmD⟩, ofmQ != 0, ofmS != 0⟩,
           upscale := r, ifmBits := bits,
           kernel := if hasK != 0 then some ⟨kW, kH, sX, sY, dX, dY⟩ else none,
           lut := lut != 0 }
  | _ => none

def cfgStr (c : Config) : String :=
  s!"ok {layoutStr c.layout} ifm {blkStr c.ifmBlock} acc {accBitsOf c.accType} pk {boolStr c.isPartKernel} bank {c.bankSize}"

def findStr (r : Except Err (Option Config)) : String :=
  match r with
  | .error e => errStr e
  | .ok none => "none"
  | .ok (some c) =>
    s!"ok blk {blkStr c.ofmBlock} {layoutStr c.layout} ifm {blkStr c.ifmBlock} acc {accBitsOf c.accType} pk {boolStr c.isPartKernel} bank {c.bankSize}"

def parseView (t : List Nat) : Option Spec.Shram.OpView :=
  match t with
  | [usage, equalDepth, ifmBits, ifmDepth, partKernel, kW, kH, sX, sY, dX, dY, upscale, nearest, ofmHeight, usesLut] => do
    let u ← match usage with
      | 0 => some Spec.Shram.Usage.mac | 1 => some .ewBinary | 2 => some .ewUnary | _ => none
    some { usage := u, equalDepth := equalDepth != 0, ifmBits := ifmBits, ifmDepth := ifmDepth,
           partKernel := partKernel != 0, kernelW := kW, kernelH := kH, strideX := sX, strideY := sY,
           dilX := dX, dilY := dY, upscale := upscale, nearest := nearest != 0, ofmHeight := ofmHeight,
           usesLut := usesLut != 0 }
  | _ => none

def accBitsOfFormat (f : Nat) : Option Nat :=
  if f = accFormat32 then some accBits32 else if f = accFormat40 then some accBits40
  else if f = accFormat16 then some accBits16 else none

def handle : List String → Option String
  | "shram" :: rest => do
    let t ← parseInts rest
    match t with
    | [r, ew, ofmW, ofmH, ofmD, ifmW, ifmH, ifmD, ifmBits, ifmGranule, accBits, accGranule, lutBanks] =>
      if [r, ew, ofmW, ofmH, ofmD, ifmW, ifmH, ifmD, ifmBits, ifmGranule, accBits, accGranule].any (· < 0) then
        some "err:domain"
      else do
        let row ← rows[r.toNat]?
        let e ← ew? ew.toNat
        match tryCore row.reservedOutputBanks row.bankSizeBytes row.totalBanks e
            ⟨ofmW.toNat, ofmH.toNat, ofmD.toNat⟩ ⟨ifmW.toNat, ifmH.toNat, ifmD.toNat⟩
            ifmBits.toNat ifmGranule.toNat accBits.toNat accGranule.toNat lutBanks with
        | .error e => some (errStr e)
        | .ok none => some "none"
        | .ok (some l) => some ("ok " ++ layoutStr l)
    | _ => none
  | "trycfg" :: r :: bt :: blkW :: blkH :: blkD :: rest => do
    let row ← rows[← parseNat? r]?
    let b ← blockType? (← parseNat? bt)
    let bw ← parseNat? blkW
    let bh ← parseNat? blkH
    let bd ← parseNat? blkD
    let t ← parseInts rest
    match parseTry b t with
    | none => some "err:domain"
    | some a =>
      match tryBlockConfig row ⟨bw, bh, bd⟩ a with
      | .error e => some (errStr e)
      | .ok none => some "none"
      | .ok (some c) => some (cfgStr c)
  | "findcfg" :: r :: bt :: rest => do
    let row ← rows[← parseNat? r]?
    let b ← blockType? (← parseNat? bt)
    let t ← parseInts rest
    match parseFind b t with
    | none => some "err:domain"
    | some a => if !findInRange a then some "err:range" else some (findStr (findBlockConfig floatOps row a))
  | "findcfgq" :: r :: bt :: rest => do
    let row ← rows[← parseNat? r]?
    let b ← blockType? (← parseNat? bt)
    let t ← parseInts rest
    match parseFind b t with
    | none => some "err:domain"
    | some a => if !findInRange a then some "err:range" else some (findStr (findBlockConfig ratOps row a))
  | "apicfg" :: r :: rest => do
    let row ← rows[← parseNat? r]?
    let op ← parseOp (← parseNats rest)
    match npuFindBlockConfigs apiScaledCrit row op with
    | .error e => some (errStr e)
    | .ok l => some ("ok " ++ " ".intercalate (l.map fun b => s!"{b.height} {b.width} {b.depth}"))
  | "gencfg" :: r :: rest => do
    let row ← rows[← parseNat? r]?
    let t ← parseNats rest
    let op ← parseOp (t.take 29)
    match t.drop 29 with
    | [bh, bw, bd] =>
      match getArchBlockConfig row op ⟨bw, bh, bd⟩ with
      | .error e => some (errStr e)
      | .ok c => some s!"ok {layoutStr c.layout} ifm {blkStr c.ifmBlock} fmt {accFormat c.accType}"
    | _ => none
  | "offerverdict" :: r :: rest => do
    let row ← rows[← parseNat? r]?
    let t ← parseNats rest
    let op ← parseOp (t.take 29)
    match t.drop 29 with
    | [bh, bw, bd, implAccepted] =>
      if implAccepted != 0 then some "accepted"
      else
        -- the generator refused a configuration the query offered: a violation; say which of the two
        -- argument derivations the model holds responsible
        let blk : Blk := ⟨bw, bh, bd⟩
        let a := apiArgs apiScaledCrit op
        let g := genArgs op
        let apiOk := match tryBlockConfig row blk a with | .ok (some _) => true | _ => false
        let genOk := match tryBlockConfig row blk g with | .ok (some _) => true | _ => false
        let genOkScaled := match tryBlockConfig row blk { g with scaled := a.scaled } with | .ok (some _) => true | _ => false
        let genOkIfm2 := match tryBlockConfig row blk { g with ifm2 := a.ifm2 } with | .ok (some _) => true | _ => false
        if apiOk && !genOk && genOkScaled && a.scaled && !g.scaled && op.ifmBits == 16 then
          some "rejected:api-acc40-generator-acc32"
        else if apiOk && !genOk && genOkIfm2 then some "rejected:ifm2-shape-derivation"
        else some "rejected:unexplained"
    | _ => none
  | "speccheck" :: r :: rest => do
    let ri ← parseNat? r
    let row ← rows[ri]?
    let core ← accelerators[ri]?
    let v ← parseView (← parseNats (rest.take 15))
    let t ← parseInts (rest.drop 15)
    match t with
    | [bw, bh, bd, accBits, ibStart, ibStart2, ibEnd, abStart, lutStart] =>
      if bw < 0 || bh < 0 || bd < 0 || accBits < 0 then some "0:negative" else
      some (Spec.Shram.checkConfig row core.shramReservedUnusedBanks v ⟨bw.toNat, bh.toNat, bd.toNat⟩ accBits.toNat
        ⟨ibStart, ibStart2, ibEnd, abStart, lutStart⟩)
    | _ => none
  | "regcheck" :: r :: rest => do
    let ri ← parseNat? r
    let row ← rows[ri]?
    let core ← accelerators[ri]?
    let v ← parseView (← parseNats (rest.take 15))
    let t ← parseNats (rest.drop 15)
    match t with
    | [bw, bh, bd, fmt, ibEnd, abStart, hasIb2, ibStart2] =>
      match accBitsOfFormat fmt with
      | none => some "0:accformat"
      | some accBits =>
        -- the registers do not carry the start of the IFM partition nor the end of the accumulators:
        -- the hardware starts the IFM after the output banks and the accumulators may extend to the tail
        let tail : Int :=
          if v.usesLut then (row.lutAddress / row.bankSizeBytes : Nat) else (row.cfgShramBanks - core.shramReservedUnusedBanks : Nat)
        let ib2 : Int := if hasIb2 != 0 then ibStart2 else (if v.usage == .ewBinary then -1 else ibEnd)
        some (Spec.Shram.checkConfig row core.shramReservedUnusedBanks v ⟨bw, bh, bd⟩ accBits
          ⟨row.reservedOutputBanks, ib2, ibEnd, abStart, tail⟩)
    | _ => none
  | ["ifmarea", ofmW, ofmH, kW, kH, sX, sY, dX, dY, rs] => do
    let r ← resampling? (← parseNat? rs)
    let k : Kernel := ⟨← parseNat? kW, ← parseNat? kH, ← parseNat? sX, ← parseNat? sY, ← parseNat? dX, ← parseNat? dY⟩
    let w ← parseNat? ofmW
    let h ← parseNat? ofmH
    if !k.inDomain || w == 0 || h == 0 then some "err:domain" else
    let a := getIfmAreaRequired ⟨w, h, 1⟩ k r
    some s!"{a.1} {a.2}"
  | _ => none

end VelaVerif.Handlers.Shram
