import VelaVerif.Model.Cascade
import VelaVerif.Spec.Receptive
import VelaVerif.Handlers.Util
/-!
Line protocol for C10 (box transform, padding, stripe loops, rolling buffers, Spec checkers).
An absent optional group is written with `-` tokens.
-/
namespace VelaVerif.Handlers.Box
open VelaVerif VelaVerif.Handlers VelaVerif.Box VelaVerif.Stripes VelaVerif.Cascade

def optInt? (s : String) : Option (Option Int) :=
  if s == "-" then some none else (parseInt? s).map some

def optInts (ss : List String) : Option (List (Option Int)) := ss.mapM optInt?

def allSome (l : List (Option Int)) : Option (List Int) := l.mapM id

def coord? : List Int → Option Coord
  | [n, h, w, c] => some ⟨n, h, w, c⟩
  | _ => none

def boolOf (i : Int) : Bool := i != 0

def showCoord (c : Coord) : String := s!"{c.n} {c.h} {c.w} {c.c}"

/-- parse the 34 tokens of a transform request -/
def parseTIn (toks : List String) : Option TIn := do
  let xs ← optInts toks
  if xs.length ≠ 34 then none
  let g (i n : Nat) := (xs.drop i).take n
  let bs ← allSome (g 0 4) >>= coord?
  let be ← allSome (g 4 4) >>= coord?
  let strides := match allSome (g 8 2) with | some [a, b] => some (a, b) | _ => none
  let skirt := match allSome (g 10 4) with | some [t, l, b, r] => some (t, l, b, r) | _ => none
  let ifm ← allSome (g 14 4) >>= coord?
  let fd ← allSome (g 18 1)
  let concat ← allSome (g 19 4) >>= coord?
  let kd ← allSome (g 23 1)
  let split := match allSome (g 24 8) with
    | some [a, b, c, d, e, f, g', h] => some ((⟨a, b, c, d⟩ : Coord), (⟨e, f, g', h⟩ : Coord))
    | _ => none
  let tl ← allSome (g 32 2)
  match fd, kd, tl with
  | [fd], [kd], [up, bw] =>
    some { box := ⟨bs, be⟩, strides := strides, skirt := skirt, ifm := ifm, fullDepth := boolOf fd, concat := concat,
           kdil := kd, split := split, up := up, binEw := boolOf bw }
  | _, _, _ => none

def showOBox (b : OBox) : String := s!"{b.y0},{b.y1},{b.x0},{b.x1},{b.c0},{b.c1}"

def showCmd (c : Cmd) : String :=
  s!"{c.op}:{showOBox c.ofm}:{c.ifm.s.n},{c.ifm.s.h},{c.ifm.s.w},{c.ifm.s.c},{c.ifm.e.n},{c.ifm.e.h},{c.ifm.e.w},{c.ifm.e.c}:{c.padTop}:{c.padBottom}"

def toNats (l : List Int) : Option (List Nat) := l.mapM fun i => if i < 0 then none else some i.toNat

/-- one operator of a `cascade` request: comma separated
    `sN,sH,sW,sC,eN,eH,eW,eC,stepH,stepW,nslices,slices…,` followed by 26 tokens (tokens 8.. of `box`) -/
def parseOpDesc (s : String) : Option OpDesc := do
  let toks := s.splitOn ","
  let hd ← (toks.take 11).mapM parseNat?
  match hd with
  | [sN, sH, sW, sC, eN, eH, eW, eC, stepH, stepW, ns] =>
    let slices ← ((toks.drop 11).take ns).mapM parseNat?
    let rest := toks.drop (11 + ns)
    -- reuse parseTIn with a dummy box
    let t ← parseTIn (["0", "0", "0", "0", "0", "0", "0", "0"] ++ rest)
    some { sN, sH, sW, sC, eN, eH, eW, eC, stepH, stepW, slices, strides := t.strides, skirt := t.skirt, ifm := t.ifm,
           fullDepth := t.fullDepth, concat := t.concat, kdil := t.kdil, split := t.split, up := t.up, binEw := t.binEw }
  | _ => none

def modeOf : Int → Option Receptive.Upscale
  | 0 => some .none
  | 1 => some .nearest
  | 2 => some .transpose
  | _ => none

def padModeOf : Int → Option PadMode
  | 0 => some .same
  | 1 => some .valid
  | 2 => some .explicit
  | 3 => some .tile
  | _ => none

def showPad (p : Pad) : String := s!"{p.top} {p.left} {p.bottom} {p.right}"

def box3? : List Nat → Option Receptive.Box3
  | [a, b, c, d, e, f] => some ⟨a, b, c, d, e, f⟩
  | _ => none

def handle : List String → Option String
  | "box" :: rest => do
    let t ← parseTIn rest
    match transform t with
    | .ok (b, pt, pb) => some s!"ok {showCoord b.s} {showCoord b.e} {pt} {pb}"
    | .error e => some e.str
  | "cpad" :: rest => do
    let xs ← optInts rest
    match xs with
    | [some vp, some et, some el, some eb, some er, some fi, some la, some ct, some cb, some bx0, some bx1, ro, rs,
       some w, some tile] =>
      let read := match ro, rs with | some o, some s => some (o, s) | _, _ => none
      let pin : PadIn := PadIn.mk (boolOf vp) ⟨et, el, eb, er⟩ (boolOf fi) (boolOf la) ct cb bx0 bx1 read w (boolOf tile)
      some (showPad (createPadding pin))
    | _ => none
  | ["ntp", a, b, c] => do
    let i ← parseInt? a; let s ← parseInt? b; let f ← parseInt? c
    if s = 0 then some "err:value" else some (toString (neededTotalPadding i s f))
  | ["cexp", a, b, c, d, e] => do
    let i ← parseInt? a; let s ← parseInt? b; let f ← parseInt? c; let bf ← parseInt? d; let af ← parseNat? e
    if s = 0 then some "err:value" else
    let r := calcExplicitPadding i s f bf af
    some s!"{r.1} {r.2}"
  | "cps" :: rest => do
    let xs ← parseInts rest
    match xs with
    | [m, kw, kh, sx, sy, H, W, t, l, b, r] =>
      let mode ← padModeOf m
      if sx = 0 ∨ sy = 0 then some "err:value" else
      if b < 0 ∨ r < 0 then none else
      let (p, sk) := calcPaddingAndSkirt mode kw kh sx sy H W (t, l, b.toNat, r.toNat)
      some s!"{showPad p} {showPad sk}"
    | _ => none
  | "cups" :: rest => do
    let xs ← parseInts rest
    match xs with
    | [m, kh, kw, sy, sx, H, W, uy, ux] =>
      let mode ← padModeOf m
      if mode = .same ∧ (sx = 0 ∨ sy = 0 ∨ ux = 0 ∨ uy = 0) then some "err:value" else
      match calcUpscaledPaddingAndSkirt mode kh kw sy sx H W uy ux with
      | .ok (p, sk) => some s!"{showPad p} {showPad sk}"
      | .error e => some e.str
    | _ => none
  | "ifmarea" :: rest => do
    let xs ← parseInts rest
    match xs with
    | [oh, ow, sy, sx, ah, aw, up, nr] =>
      if up ≤ 0 then some "err:value" else
      let r := getIfmAreaRequired oh ow sy sx ah aw up (boolOf nr)
      some s!"{r.1} {r.2}"
    | _ => none
  | "rbs" :: rest => do
    let xs ← parseNats rest
    match xs with
    | [pH, pW, pD, cH, cW, over] =>
      match rollingBufferShape pH pW pD cH cW over with
      | .ok (h, w, d) => some s!"{h} {w} {d}"
      | .error e => some e.str
    | _ => none
  | ["overread", skT, skB, stride, kdil] => do
    let st ← parseInt? stride; let kd ← parseInt? kdil
    let skirt ← if skT == "-" then some none else do
      let a ← parseInt? skT; let b ← parseInt? skB
      some (some (a, b))
    some (toString (ifmBoxOverread skirt st kd))
  | "arb" :: rest => do
    let xs ← parseNats rest
    match xs with
    | [y0, y1, x0, x1, sh, sw] =>
      match addressesForRollingBuffer y0 y1 x0 x1 sh sw with
      | .ok t => some s!"{t.height0} {t.width0} {t.slot0} {match t.slot2 with | some s => toString s | none => "-"}"
      | .error e => some e.str
    | _ => none
  | "stripes" :: rest => do
    let xs ← parseNats rest
    match xs with
    | sN :: sH :: sW :: sC :: eN :: eH :: eW :: eC :: stepH :: stepW :: slices =>
      match ofmBoxes sN sH sW sC eN eH eW eC stepH stepW slices with
      | .ok bs => some ("ok " ++ ";".intercalate (bs.map showOBox))
      | .error e => some e.str
    | _ => none
  | "cascade" :: ops => do
    let ds ← ops.mapM parseOpDesc
    let (cmds, err) := cascadeOrder ds
    some ("ok " ++ ";".intercalate (cmds.map showCmd) ++ (match err with | some e => " " ++ e.str | none => ""))
  -- Spec checkers on implementation outputs ------------------------------------------------
  | "recv" :: rest => do
    let xs ← parseInts rest
    match xs with
    | [k, s, d, top, H, off, up, m, y0, h, a, b, pt, pb] =>
      let mode ← modeOf m
      let o : Receptive.Op := ⟨k, s, d, top, H, off, up, mode⟩
      let st : Receptive.Stripe := ⟨y0, h, a, b, pt, pb⟩
      let r := Receptive.checkReceptive o st
      let c := Receptive.checkBoxCovers o st
      let mm := match Receptive.firstMismatch o st with
        | some (y, j) => s!" at={y},{j} hw={repr (Receptive.hwSrc o st y j)} ref={repr (Receptive.refSrc o (y0 + y) j)}"
        | none => ""
      some s!"recv={boolStr r} cov={boolStr c}{mm}"
    | _ => none
  | ["tiles", y0, y1, b, h0, s0, s2] => do
    let y0 ← parseNat? y0; let y1 ← parseNat? y1; let b ← parseNat? b; let h0 ← parseNat? h0; let s0 ← parseNat? s0
    let s2 ← if s2 == "-" then some none else (parseNat? s2).map some
    some (boolStr (Receptive.checkTiles y0 y1 b h0 s0 s2))
  | "partition" :: rest => do
    let xs ← parseNats rest
    let region ← box3? (xs.take 6)
    let rec go : List Nat → Option (List Receptive.Box3)
      | [] => some []
      | a :: b :: c :: d :: e :: f :: more => (go more).map (⟨a, b, c, d, e, f⟩ :: ·)
      | _ => none
    let boxes ← go (xs.drop 6)
    some (boolStr (Receptive.checkPartition boxes region))
  | "rolling" :: rest => do
    let accs ← rest.mapM fun tok => do
      let xs ← (tok.splitOn ",").mapM parseNat?
      match xs with
      | [wT, wB, wy0, wy1, rT, rB, ra, rb] => some (⟨wT, wB, wy0, wy1, rT, rB, ra, rb⟩ : Receptive.Access)
      | _ => none
    match Receptive.checkRolling accs with
    | .ok => some "ok"
    | .bad i t row slot found => some s!"bad i={i} tensor={t} row={row} slot={slot} found={match found with | some r => toString r | none => "-"}"
  | _ => none

end VelaVerif.Handlers.Box
