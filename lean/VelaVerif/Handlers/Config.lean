import VelaVerif.Model.Config
import VelaVerif.Spec.Config
import VelaVerif.Handlers.Util
/-!
Line protocol for C18.  Strings travel as `=<text>` with `%XX` escapes (so the empty string is `=`);
an absent optional value is `-`.

    ENV  := <bundled> <cwd> <nfiles> { <abspath> ( U | P INI ) }
    INI  := <nsec> { <section> <nopt> { <key> <value> } }
    ARGS := <nconfigs> { <path> } <acc?> <sys?> <mem?> <arena?>

    cfgread INI <sec> <key>                                   → readConfig with the standard fuel
    cfgaf ENV ( N | <k> { <path> } ) <imxMode> <acc> <sys> <mem> <cli?>  → ArchitectureFeatures(...)
    cfgmain <passResolved> <cliDefault?> <imxMode> <accDefault> ENV ARGS   → vela.main up to the ArchitectureFeatures object
    cfgspecaf ENV ( N | <k> { <path> } ) <acc> <sys> <mem> <cli?> OBS    → documented rules on an observed outcome
    cfgspecmain ENV ARGS OBS
    cfgspecread INI <sec> <key> ( err | ok - | ok <value> )
    cfgnorm <path> / cfgfloat <s> / cfgint <s>                → glue: normpath, float(), int()
    OBS  := err | ok <the tokens of an `ok` answer>
-/
namespace VelaVerif.Handlers.Config
open VelaVerif VelaVerif.Handlers VelaVerif.Config

abbrev P := StateT (List String) Option

def tok : P String := fun s => match s with
  | [] => none
  | t :: ts => some (t, ts)

def hexVal (c : Char) : Option Nat :=
  if c.isDigit then some (c.toNat - 48)
  else if 'a' ≤ c ∧ c ≤ 'f' then some (c.toNat - 87)
  else if 'A' ≤ c ∧ c ≤ 'F' then some (c.toNat - 55)
  else none

def unescape : List Char → Option (List Char)
  | [] => some []
  | '%' :: a :: b :: rest => do
    let x ← hexVal a
    let y ← hexVal b
    let r ← unescape rest
    pure (Char.ofNat (x * 16 + y) :: r)
  | '%' :: _ => none
  | c :: rest => (unescape rest).map (c :: ·)

def str : P String := do
  let t ← tok
  match t.toList with
  | '=' :: cs =>
    match unescape cs with
    | some r => pure (String.ofList r)
    | none => failure
  | _ => failure

def optStr : P (Option String) := do
  let t ← tok
  if t == "-" then pure none else
  match t.toList with
  | '=' :: cs =>
    match unescape cs with
    | some r => pure (some (String.ofList r))
    | none => failure
  | _ => failure

def nat : P Nat := do
  let t ← tok
  match t.toNat? with
  | some n => pure n
  | none => failure

def optInt : P (Option Int) := do
  let t ← tok
  if t == "-" then pure none else
  match t.toInt? with
  | some n => pure (some n)
  | none => failure

def rep {α : Type} (p : P α) : Nat → P (List α)
  | 0 => pure []
  | n + 1 => do
    let x ← p
    let xs ← rep p n
    pure (x :: xs)

def pIni : P Ini := do
  let n ← nat
  rep (do
    let s ← str
    let k ← nat
    let opts ← rep (do let a ← str; let b ← str; pure (a, b)) k
    pure (s, opts)) n

def pEnv : P Env := do
  let bundled ← str
  let cwd ← str
  let n ← nat
  let files ← rep (do
    let p ← str
    let kind ← tok
    if kind == "U" then pure (p, (none : Option Ini)) else
    let ini ← pIni
    pure (p, some ini)) n
  pure ⟨bundled, cwd, files⟩

def pFiles : P (Option (List String)) := do
  let t ← tok
  if t == "N" then pure none else
  match t.toNat? with
  | some k => (rep str k).map some
  | none => failure

def pArgs : P MainArgs := do
  let n ← nat
  let cfgs ← rep str n
  let acc ← optStr
  let sys ← optStr
  let mem ← optStr
  let arena ← optStr
  pure ⟨cfgs, acc, sys, mem, arena⟩

def dyStr (d : Dy) : String := s!"{boolStr d.neg}:{d.m}:{d.e}"
def rowStr (r : Row) : String := s!"{dyStr r.scale},{r.burst},{r.rlat},{r.wlat}"

def archTokens (a : Arch) : List String :=
  [ "cc=" ++ dyStr a.coreClock, s!"a0={a.axi0.toNat}", s!"a1={a.axi1.toNat}",
    "tab=" ++ ";".intercalate (a.tab.rows.map rowStr),
    s!"cp={a.constPort.toNat}", s!"ap={a.arenaPort.toNat}", s!"kp={a.cachePort.toNat}",
    s!"sz={a.arenaCacheSize}", s!"pa={a.permanent.toNat}", s!"fa={a.featureMap.toNat}", s!"ka={a.fast.toNat}" ]

def errStr : Err → String
  | .attr => "err:attr" | .cliConfig => "err:cli-config" | .cliSystemConfig => "err:cli-system-config"
  | .cliMemoryMode => "err:cli-memory-mode" | .sectionNotFound => "err:cfg-section" | .selfInherit => "err:cfg-inherit"
  | .recursion => "err:recursion" | .keyError => "err:key" | .valueError => "err:value" | .indexError => "err:index"
  | .overflow => "err:overflow" | .cfgConst => "err:cfg-const_mem_area" | .cfgArena => "err:cfg-arena_mem_area"
  | .cfgCache => "err:cfg-cache_mem_area" | .cfgSizeNeg => "err:cfg-arena_cache_size-neg"
  | .cfgSizeBig => "err:cfg-arena_cache_size-big" | .inputFile => "err:input-file" | .iniParse => "err:ini-parse"
  | .argparse => "err:argparse"

def outcomeStr : Except Err Arch → String
  | .ok a => "ok " ++ " ".intercalate (archTokens a)
  | .error e => errStr e

/-- the observed outcome as the harness reports it: `err` or the tokens of an `ok` answer; compared
    textually with the rendering of what the documented rules give -/
def specVerdict (expected : Spec.Config.Verdict Arch) (obs : List String) : String :=
  match expected, obs with
  | .unspecified, _ => "1u"
  | .reject, ["err"] => "1"
  | .accept a, "ok" :: ts => if ts == archTokens a then "1" else "0 expected=ok " ++ " ".intercalate (archTokens a)
  | .reject, _ => "0 expected=err"
  | .accept a, _ => "0 expected=ok " ++ " ".intercalate (archTokens a)

def run {α : Type} (p : P α) (ts : List String) : Option (α × List String) := p ts

def handle : List String → Option String
  | "cfgread" :: rest => do
    let ((ini, sec, key), _) ← run (do let i ← pIni; let s ← str; let k ← str; pure (i, s, k)) rest
    match readConfig ini (fuelFor ini) sec key with
    | .ok none => some "ok -"
    | .ok (some v) => some ("ok =" ++ v)
    | .error e => some (errStr e)
  | "cfgspecread" :: rest => do
    let ((ini, sec, key), obs) ← run (do let i ← pIni; let s ← str; let k ← str; pure (i, s, k)) rest
    let expected := (Spec.Config.chain ini (Spec.Config.fuelFor ini) sec).map (Spec.Config.nearest key)
    match expected, obs with
    | none, ["err"] => some "1"
    | some none, ["ok", "-"] => some "1"
    | some (some v), ["ok", t] =>
      match run str [t] with
      | some (w, _) => some (if w == v then "1" else "0 expected=ok =" ++ v)
      | none => some "0 bad-obs"
    | none, _ => some "0 expected=err"
    | some none, _ => some "0 expected=ok -"
    | some (some v), _ => some ("0 expected=ok =" ++ v)
  | "cfgaf" :: rest => do
    let ((env, files, imx, acc, sys, mem, cli), _) ← run (do
      let e ← pEnv; let f ← pFiles; let i ← nat; let a ← str; let s ← str; let m ← str; let c ← optInt
      pure (e, f, i, a, s, m, c)) rest
    some (outcomeStr (archFeatures env files imx acc sys mem cli))
  | "cfgmain" :: rest => do
    let ((v, env, args), _) ← run (do
      let pr ← nat; let cd ← optInt; let im ← nat; let ad ← str
      let e ← pEnv; let a ← pArgs
      pure (Variant.mk (pr == 1) cd im ad, e, a)) rest
    some (outcomeStr (mainArch v env args))
  | "cfgspecaf" :: rest => do
    let ((env, files, acc, sys, mem, cli), obs) ← run (do
      let e ← pEnv; let f ← pFiles; let a ← str; let s ← str; let m ← str; let c ← optInt
      pure (e, f, a, s, m, c)) rest
    some (specVerdict (Spec.Config.specArchFeatures env files acc sys mem cli) obs)
  | "cfgspecmain" :: rest => do
    let ((env, args), obs) ← run (do let e ← pEnv; let a ← pArgs; pure (e, a)) rest
    some (specVerdict (Spec.Config.specMain env args) obs)
  | ["cfgnorm", p] => do
    let (s, _) ← run str [p]
    some ("=" ++ normpath s)
  | ["cfgfloat", p] => do
    let (s, _) ← run str [p]
    match parseFloat s with
    | some d => some (dyStr d)
    | none => some "err:value"
  | ["cfgint", p] => do
    let (s, _) ← run str [p]
    match parseInt s with
    | some d => some (toString d)
    | none => some "err:value"
  | _ => none

end VelaVerif.Handlers.Config
