import VelaVerif.Model.Emit
import VelaVerif.Spec.OpCheck
import VelaVerif.Gen.Core
import VelaVerif.Handlers.Util
/-!
Protocol for C06 (see `harness/c06_ops.py` for the writer):

`c06 acc=<accelerator index> ops=<op>;<op>;… words=<w>,<w>,…`

* block op: `B|kind|sub|<fm ifm>|<fm ifm2 or ->|<scalar or ->|<fm ofm>|<kernel or ->|<padding or ->|<ranges or ->|<ranges or ->|`
  `<activation or ->|bh:bw:bd|rounding|upscale|partKernelFirst|reversed|rescaleKind|fusedQuantize|<oracle>|s:sh|s:sh|s:sh`
* dma op: `D|region:addr:len|region:addr:len|channel|mode|kernelWait|dmaWait`
* fm: `bits:signed:region:h:w:d:h0:h1:w0:a0:a1:a2:a3:hasQuant:zp:nhcwb16:hasStrides:sy:sx:sc:scaled`

answer: `model=<eq|diff@i:<model>:<real>|len:<m>:<r>|err:kind> elided=<n> | <spec verdict of Spec/OpCheck.lean>`
`c06p …` is the same for streams of compiled networks (IFM extent not compared);
`c06model …` answers only the model part (used for the malformed stream, where no words exist).
-/
namespace VelaVerif.Handlers.Emit
open VelaVerif VelaVerif.Handlers VelaVerif.NpuOp

def kv (toks : List String) (key : String) : Option String :=
  toks.findSome? fun t => if t.startsWith (key ++ "=") then some (t.drop (key.length + 1)).toString else none

def ints (s : String) : Option (List Int) := (s.splitOn ":").mapM parseInt?

def parseFM (s : String) : Option (Option FM) :=
  if s == "-" then some none else do
    match ← ints s with
    | [bits, sg, region, h, w, d, h0, h1, w0, a0, a1, a2, a3, hq, zp, lay, hs, sy, sx, sc, scaled] =>
      some (some { dtype := ⟨bits.toNat, sg ≠ 0⟩, region := region, shape := ⟨h, w, d⟩, height0 := h0, height1 := h1,
                   width0 := w0, addresses := [a0, a1, a2, a3], hasQuant := hq ≠ 0, zeroPoint := zp, nhcwb16 := lay ≠ 0,
                   strides := if hs ≠ 0 then some ⟨sy, sx, sc⟩ else none, scaled := scaled ≠ 0 })
    | _ => none

def parseRange (s : String) : Option AddrRange := do
  match ← ints s with
  | [r, a, l] => some ⟨r, a, l⟩
  | _ => none

def parseRanges (s : String) : Option (List AddrRange) :=
  if s == "-" then some [] else (s.splitOn "+").mapM parseRange

def parseOptInt (s : String) : Option (Option Int) :=
  if s == "-" || s == "n" then some none else (parseInt? s).map some

def parsePair (s : String) : Option (Option (Int × Int)) :=
  match s.splitOn ":" with
  | ["n", "n"] => some none
  | [a, b] => do some (some (← parseInt? a, ← parseInt? b))
  | _ => none

def parseKind : String → Option Kind
  | "0" => some .conv | "1" => some .depthwise | "2" => some .pool | "3" => some .elementwise | _ => none

def parseOp (s : String) : Option Op :=
  match s.splitOn "|" with
  | ["D", src, dst, ch, mode, kw, dw] => do
    some (.dma { src := ← parseRange src, dst := ← parseRange dst, channel := ← parseInt? ch, mode := ← parseInt? mode,
                 kernelWait := ← parseInt? kw, dmaWait := ← parseInt? dw })
  | ["B", kind, sub, ifm, ifm2, scalar, ofm, kern, pad, ws, bs, act, blk, rnd, up, trav, rev, rk, fq, orc, os, oa, ob] => do
    let ifm ← (← parseFM ifm)
    let ofm ← (← parseFM ofm)
    let kernel ← if kern == "-" then some none else
      match ← ints kern with
      | [w, h, sx, sy, dx, dy] => some (some (Kernel.mk w h sx sy dx dy))
      | _ => none
    let padding ← if pad == "-" then some none else
      match ← ints pad with
      | [t, l, b, r] => some (some (Padding.mk t l b r))
      | _ => none
    let activation ← if act == "-" then some none else
      match act.splitOn ":" with
      | [t, mn, mx, li] => do some (some (Activation.mk (← parseNat? t) (← parseOptInt mn) (← parseOptInt mx) (← parseInt? li)))
      | _ => none
    let blockConfig ← match ← ints blk with
      | [h, w, d] => some (Shape3.mk h w d)
      | _ => none
    let oracle ← match ← ints orc with
      | [ie, ab, i2, af, bd, kw, dw, ots] =>
        some ({ ibEnd := ie, abStart := ab, ibStart2 := i2, accFormat := af, blockdep := bd, kernelWait := kw, dmaWait := dw,
                opToScale := ots.toNat, ofmScale := ← parsePair os, opaScale := ← parsePair oa, opbScale := ← parsePair ob } : Oracle)
      | _ => none
    some (.block { kind := ← parseKind kind, subOp := ← parseNat? sub, ifm := ifm, ifm2 := ← parseFM ifm2,
                   ifm2Scalar := ← parseOptInt scalar, ofm := ofm, kernel := kernel, padding := padding,
                   weights := ← parseRanges ws, biases := ← parseRanges bs, activation := activation,
                   blockConfig := blockConfig, rounding := ← parseNat? rnd, upscale := ← parseNat? up,
                   partKernelFirst := trav != "0", reversedOperands := rev != "0", rescaleKind := ← parseNat? rk,
                   fusedQuantize := fq != "0", oracle := oracle })
  | _ => none

def archOf (acc : Nat) : Option (Gen.AccRow × Arch) := do
  let row ← Gen.accelerators[acc]?
  let q ← Gen.EmitTbl.nhcwb16Quantum[acc]?
  some (row, { isU65 := row.isU65, ncores := row.cores, nhcwb16Align := q })

/-- first index where two word lists differ -/
def firstDiff : List Nat → List Nat → Nat → Option (Nat × Nat × Nat)
  | a :: as, b :: bs, i => if a = b then firstDiff as bs (i + 1) else some (i, a, b)
  | _, _, _ => none

def modelVerdict (arch : Arch) (ops : List Op) (words : Option (List Nat)) : String :=
  match Emit.generate arch ops with
  | .error e => s!"model={e.toString}"
  | .ok ws =>
    let elided := match Emit.program arch ops with
      | .ok items => (Emit.fullWords items).length - ws.length
      | .error _ => 0
    match words with
    | none => s!"model=ok:{ws.length} elided={elided}"
    | some real =>
      match firstDiff ws real 0 with
      | some (i, m, r) => s!"model=diff@{i}:{m}:{r} elided={elided}"
      | none => if ws.length = real.length then s!"model=eq elided={elided}" else s!"model=len:{ws.length}:{real.length} elided={elided}"

def handle : List String → Option String
  | "c06" :: toks => do
    let (row, arch) ← archOf (← parseNat? (← kv toks "acc"))
    let ops ← (((← kv toks "ops").splitOn ";").filter (· ≠ "")).mapM parseOp
    let words ← parseNats (((← kv toks "words").splitOn ",").filter (· ≠ ""))
    some (modelVerdict arch ops (some words) ++ " | " ++ OpCheck.verdict row arch ops words)
  | "c06p" :: toks => do
    -- streams of compiled networks: the declared IFM extent may exceed what the kernel walks over
    let (row, arch) ← archOf (← parseNat? (← kv toks "acc"))
    let ops ← (((← kv toks "ops").splitOn ";").filter (· ≠ "")).mapM parseOp
    let words ← parseNats (((← kv toks "words").splitOn ",").filter (· ≠ ""))
    some (modelVerdict arch ops (some words) ++ " | " ++ OpCheck.verdict row arch ops words (strict := false))
  | "c06model" :: toks => do
    let (_, arch) ← archOf (← parseNat? (← kv toks "acc"))
    let ops ← (((← kv toks "ops").splitOn ";").filter (· ≠ "")).mapM parseOp
    some (modelVerdict arch ops none)
  | _ => none

end VelaVerif.Handlers.Emit
