import VelaVerif.Model.TfliteText
import VelaVerif.Model.TfliteWriter
import VelaVerif.Model.TfliteReader
import VelaVerif.Spec.TfliteFile
import VelaVerif.Spec.TfliteRoundtrip
import VelaVerif.Handlers.Util
/-!
Requests of the TFLite writer / reader models (syntax: Model/TfliteText.lean).

`wwrite <desc> <model>`   the model's file for the description vs the file the real writer produced (plain walk);
                          answer `same <tensors> <operators>` | `differ <path> model=<piece> real=<piece>` | `err:<kind>`
`wmodel <desc>`           the model's file as text (or `err:<kind>`)
`wsame <model> <model> …` are the walked files equal? `same <n>` | `differ <k> <path> first=<piece> other=<piece>`
`wwriteerr <kind> <desc>` the real writer raised <kind> on the description: `same` when the model raises the same kind, else `differ …`
`wread <model> <desc>`    the model's graph for the file vs the description of what the real reader built; compared after
                          blanking, on both sides, what the reader model does not claim: option payloads, `input_tensors`, the
                          data of reshaped clones (length kept), the version string; `same <tensors> <operators>` | `differ …` | `err:<kind>`
`wreaderr <kind> <model>` the real reader raised <kind>: `same` / `differ model=…`
`wspec <desc> <model>`    Spec.conforms: does the walked file say what the graph says? `ok` | `bad <n> <kind>|<detail> ~ …`
`wreadspec <desc>`        Spec.readOk on the description of what the real reader built
`wnorm <desc> <desc>`     Spec.normalise of the written description vs the description of what the real reader built from the real
                          writer's file (blanked like `wread`): `same <tensors> <operators>` | `differ …`; `wnormerr <kind> <desc>`: the real reader raised <kind>
`wdomain <desc>`          Spec.conformsDomainB: is the description in the domain of `conforms_write`? `in` | `out <clause>`
`wmeta <version> <model> <model>`   Spec.metadataKept source file / written file
`wloop <desc>`            model only: t1 = write d, t2 = write (read t1); are t1 and t2 the same file up to buffer and operator-code numbering (tensor
                          data / code entries compared through the index), metadata, description and trailing absent operands? `same <n>` |
                          `differ …` | `err:write:<kind>` | `err:read:<kind>` | `err:rewrite:<kind>`
-/
namespace VelaVerif.Handlers.Tflite
open VelaVerif VelaVerif.Tflite

def showDiff (r : String × String × String) (a b : String) : String :=
  s!"differ {if r.1 == "" then "/" else r.1} {a}={r.2.1.take 80} {b}={r.2.2.take 80}"

def blankPayload : Payload := { optType := 0, opts := none, custom := none, customFormat := 0 }

/-- what the reader correspondence does not compare (see the header) -/
def normRead (d : Desc) : Desc :=
  { d with
    version := [],
    tensors := d.tensors.map fun t => if t.src.isSome then { t with values := t.values.map fun v => Data.digest v.len "clone" } else t,
    subgraphs := d.subgraphs.map fun s => { s with inputTensors := [], ops := s.ops.map fun o => { o with payload := blankPayload } } }

def showProblems (l : List Spec.Problem) : String :=
  if l.isEmpty then "ok" else
  s!"bad {l.length} " ++ " ~ ".intercalate ((l.take 8).map fun p => p.kind ++ "|" ++ ((p.detail.replace " " "_").take 120).toString)

/-- a file up to buffer numbering, operator-code numbering and metadata: every tensor carries its data instead of a buffer
    index, every operator its operator-code entry instead of an index (the Ethos-U operator is written as `CustomNpuOp` and read
    back as `Custom "ethos-u"`, which sorts elsewhere), trailing `-1` operands are dropped (the reader appends `None` for a missing
    bias), metadata, buffers and description are left out -/
def loopView (m : ModelT) : Sx :=
  let dataOf (b : Nat) : Sx := match m.buffers[b]? with
    | some x => encOpt encData (Reader.parseBuffer x)
    | none => .atom "?"
  let stripTrailing (l : List Int) : List Int := (l.reverse.dropWhile (· == -1)).reverse
  let codeOf (i : Nat) : Sx := match m.opcodes[i]? with
    | some c => encOpCode c
    | none => .atom "?"
  .list [.atom "model", encStr m.fileId, encNat m.version,
    .list (m.subgraphs.map fun s =>
      .list [.atom "sg",
        .list (s.tensors.map fun t => .list [.atom "t", encOpt (encList encInt) t.shape, encNat t.type, dataOf t.buffer, encOpt encBytes t.name,
                                             encOpt encQuantT t.quant, encBool t.isVariable]),
        encOpt (encList encInt) s.inputs, encOpt (encList encInt) s.outputs,
        .list (s.operators.map fun o => .list [codeOf o.opcodeIndex, encOperatorT { o with inputs := o.inputs.map stripTrailing, opcodeIndex := 0 }]),
        encOpt encBytes s.name])]

def handle : List String → Option String
  | "wwrite" :: toks =>
    match Sx.parseAll toks with
    | some [dx, tx] =>
      match decDesc dx, decModelT tx with
      | some d, some t =>
        match Writer.write d with
        | .error e => some ("err:" ++ e)
        | .ok m =>
          match Sx.diff "" (encModelT m) (encModelT t) with
          | none => some s!"same {(m.subgraphs.map (·.tensors.length)).sum} {(m.subgraphs.map (·.operators.length)).sum}"
          | some r => some (showDiff r "model" "real")
      | none, _ => some "err:bad-desc"
      | _, none => some "err:bad-model"
    | _ => some "err:bad-request"
  | "wmodel" :: toks =>
    match Sx.parseAll toks with
    | some [dx] =>
      match decDesc dx with
      | some d =>
        match Writer.write d with
        | .error e => some ("err:" ++ e)
        | .ok m => some (encModelT m).text
      | none => some "err:bad-desc"
    | _ => some "err:bad-request"
  | "wwriteerr" :: kind :: toks =>
    match Sx.parseAll toks with
    | some [dx] =>
      match decDesc dx with
      | some d =>
        match Writer.write d with
        | .error e => if e == kind then some "same" else some s!"differ model=err:{e} real=err:{kind}"
        | .ok _ => some s!"differ model=ok real=err:{kind}"
      | none => some "err:bad-desc"
    | _ => some "err:bad-request"
  | "wread" :: toks =>
    match Sx.parseAll toks with
    | some [tx, dx] =>
      match decModelT tx, decDesc dx with
      | some t, some d =>
        match Reader.read [] t with
        | .error e => some ("err:" ++ e)
        | .ok r =>
          match Sx.diff "" (encDesc (normRead r)) (encDesc (normRead d)) with
          | none => some s!"same {r.tensors.length} {(r.subgraphs.map (·.ops.length)).sum}"
          | some x => some (showDiff x "model" "real")
      | none, _ => some "err:bad-model"
      | _, none => some "err:bad-desc"
    | _ => some "err:bad-request"
  | "wreaderr" :: kind :: toks =>
    match Sx.parseAll toks with
    | some [tx] =>
      match decModelT tx with
      | some t =>
        match Reader.read [] t with
        | .error e => if e == kind then some "same" else some s!"differ model=err:{e} real=err:{kind}"
        | .ok _ => some s!"differ model=ok real=err:{kind}"
      | none => some "err:bad-model"
    | _ => some "err:bad-request"
  | "wspec" :: toks =>
    match Sx.parseAll toks with
    | some [dx, tx] =>
      match decDesc dx, decModelT tx with
      | some d, some t => some (showProblems (Spec.conforms d t))
      | none, _ => some "err:bad-desc"
      | _, none => some "err:bad-model"
    | _ => some "err:bad-request"
  | "wnorm" :: toks =>
    match Sx.parseAll toks with
    | some [dx, rx] =>
      match decDesc dx, decDesc rx with
      | some d, some r =>
        match Spec.normalise d with
        | .error e => some s!"differ model=err:{e} real=ok"
        | .ok n =>
          match Sx.diff "" (encDesc (normRead { n with version := [] })) (encDesc (normRead { r with version := [] })) with
          | none => some s!"same {n.tensors.length} {(n.subgraphs.map (·.ops.length)).sum}"
          | some x => some (showDiff x "model" "real")
      | none, _ => some "err:bad-desc"
      | _, none => some "err:bad-desc"
    | _ => some "err:bad-request"
  | "wnormerr" :: kind :: toks =>
    match Sx.parseAll toks with
    | some [dx] =>
      match decDesc dx with
      | some d =>
        match Spec.normalise d with
        | .error e => if e == kind then some "same" else some s!"differ model=err:{e} real=err:{kind}"
        | .ok _ =>
          -- stated limit of the models: option tables are opaque, so the subgraph indices inside the options of CallOnce / While
          -- (positions in `nng.subgraphs`) are not followed; when a subgraph is not written (placement ≠ Cpu) they can point
          -- beyond the subgraphs of the file and the real reader raises IndexError while attaching `attrs["subgraph"]`
          if kind == "index" && d.subgraphs.any (!·.cpu) &&
              d.subgraphs.any (fun s => s.cpu && s.ops.any fun o => o.type == "CallOnce" || o.type == "While") then
            some "outside subgraph-index-in-options"
          else some s!"differ model=ok real=err:{kind}"
      | none => some "err:bad-desc"
    | _ => some "err:bad-request"
  | "wdomain" :: toks =>
    match Sx.parseAll toks with
    | some [dx] =>
      match decDesc dx with
      | some d => some (if Spec.conformsDomainB d then "in" else "out " ++ Spec.domainClause d)
      | none => some "err:bad-desc"
    | _ => some "err:bad-request"
  | "wreadspec" :: toks =>
    match Sx.parseAll toks with
    | some [dx] =>
      match decDesc dx with
      | some d => some (showProblems (Spec.readOk d))
      | none => some "err:bad-desc"
    | _ => some "err:bad-request"
  | "wmeta" :: toks =>
    match Sx.parseAll toks with
    | some [vx, ax, bx] =>
      match decBytes vx, decModelT ax, decModelT bx with
      | some v, some a, some b => some (showProblems (Spec.metadataKept v a b))
      | _, _, _ => some "err:bad-model"
    | _ => some "err:bad-request"
  | "wloop" :: toks =>
    match Sx.parseAll toks with
    | some [dx] =>
      match decDesc dx with
      | some d =>
        match Writer.write d with
        | .error e => some ("err:write:" ++ e)
        | .ok t1 =>
          match Reader.read d.version t1 with
          | .error e => some ("err:read:" ++ e)
          | .ok d2 =>
            match Writer.write d2 with
            | .error e => some ("err:rewrite:" ++ e)
            | .ok t2 =>
              match Sx.diff "" (loopView t1) (loopView t2) with
              | none => some s!"same {(t1.subgraphs.map (·.operators.length)).sum}"
              | some r => some (showDiff r "first" "second")
      | none => some "err:bad-desc"
    | _ => some "err:bad-request"
  | "wsame" :: toks =>
    match Sx.parseAll toks with
    | some (first :: rest) =>
      match decModelT first, rest.mapM decModelT with
      | some f, some rs =>
        let fx := encModelT f
        let r := rs.zipIdx.findSome? fun (m, k) => (Sx.diff "" fx (encModelT m)).map fun d => (k + 1, d)
        match r with
        | none => some s!"same {rs.length + 1}"
        | some (k, d) => some (s!"differ {k} " ++ (showDiff d "first" "other").drop 7)
      | _, _ => some "err:bad-model"
    | _ => some "err:bad-request"
  | _ => none

end VelaVerif.Handlers.Tflite
