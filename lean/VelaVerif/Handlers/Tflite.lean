import VelaVerif.Model.TfliteText
import VelaVerif.Model.TfliteWriter
import VelaVerif.Handlers.Util
/-!
Requests of the TFLite writer / reader models (syntax: Model/TfliteText.lean).

`wwrite <desc> <model>`   the model's file for the description vs the file the real writer produced (plain walk);
                          answer `same <tensors> <operators>` | `differ <path> model=<piece> real=<piece>` | `err:<kind>`
`wmodel <desc>`           the model's file as text (or `err:<kind>`)
`wsame <model> <model> …` are the walked files equal? `same <n>` | `differ <k> <path> first=<piece> other=<piece>`
-/
namespace VelaVerif.Handlers.Tflite
open VelaVerif VelaVerif.Tflite

def showDiff (r : String × String × String) (a b : String) : String :=
  s!"differ {if r.1 == "" then "/" else r.1} {a}={r.2.1.take 80} {b}={r.2.2.take 80}"

def handle : List String → Option String
  | "wwrite" :: toks =>
    match Sx.parseAll toks with
    | some [dx, tx] =>
      match decDesc dx, decModelT tx with
      | some d, some t =>
        match Writer.write d with
        | .error e => some ("err:" ++ e)
        | .ok m =>
          match Sx.diff "" (encModelT m) (encModelT t) with
          | none => some s!"same {(m.subgraphs.map (·.tensors.length)).sum} {(m.subgraphs.map (·.operators.length)).sum}"
          | some r => some (showDiff r "model" "real")
      | none, _ => some "err:bad-desc"
      | _, none => some "err:bad-model"
    | _ => some "err:bad-request"
  | "wmodel" :: toks =>
    match Sx.parseAll toks with
    | some [dx] =>
      match decDesc dx with
      | some d =>
        match Writer.write d with
        | .error e => some ("err:" ++ e)
        | .ok m => some (encModelT m).text
      | none => some "err:bad-desc"
    | _ => some "err:bad-request"
  | "wsame" :: toks =>
    match Sx.parseAll toks with
    | some (first :: rest) =>
      match decModelT first, rest.mapM decModelT with
      | some f, some rs =>
        let fx := encModelT f
        let r := rs.zipIdx.findSome? fun (m, k) => (Sx.diff "" fx (encModelT m)).map fun d => (k + 1, d)
        match r with
        | none => some s!"same {rs.length + 1}"
        | some (k, d) => some (s!"differ {k} " ++ (showDiff d "first" "other").drop 7)
      | _, _ => some "err:bad-model"
    | _ => some "err:bad-request"
  | _ => none

end VelaVerif.Handlers.Tflite
