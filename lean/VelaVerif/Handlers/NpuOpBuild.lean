import VelaVerif.Model.NpuOpBuild
import VelaVerif.Spec.NpuOpBuild
import VelaVerif.Handlers.Emit
import VelaVerif.Handlers.TensorAddr
/-!
Protocol for the scheduled-operation → `NpuOperation` link (writer: `harness/hl2npu.py`).

`hl2npu cmd=S|D arch=… <descriptor tokens> real=<operation in the c06 text form> rx=<what that form does not carry>
        <source facts for the Spec predicates>`

One token per `key=value`; no spaces inside a value.  Sub-fields are separated by `/`, numbers by `,`; `n` is `None`.
A float is `<binary64 bits>:<kind>` (kind 0 Python float / int, 1 numpy.float32, 2 numpy.float64).

answer: `model=<eq | diff:<field>~<field>… | err:kind> | roles=<n msgs…|-> | weights=<…|-> | dma=<…|-> | clamp=<…|-> | fm=<…|->`
(`-`: the predicate does not apply to this operation).
-/
namespace VelaVerif.Handlers.NpuOpBuild
open VelaVerif VelaVerif.Handlers VelaVerif.NpuOp VelaVerif.NpuOpBuild

def kv (toks : List String) (key : String) : Option String := Handlers.Emit.kv toks key

def isN (s : String) : Bool := s == "n"

def optOf {α : Type} (f : String → Option α) (s : String) : Option (Option α) :=
  if isN s then some none else (f s).map some

def intsC (s : String) : Option (List Int) := if s == "" then some [] else (s.splitOn ",").mapM parseInt?
def natsC (s : String) : Option (List Nat) := if s == "" then some [] else (s.splitOn ",").mapM parseNat?

def parseFl (s : String) : Option Fl :=
  match s.splitOn ":" with
  | [b, k] => do some ⟨← parseNat? b, ← parseNat? k⟩
  | _ => none

def parseQuant (s : String) : Option (Option Quant) :=
  if isN s then some none else
  match s.splitOn ":" with
  | [b, k, z, zk] => do
    let sc ← if isN b then some none else do some (some (⟨← parseNat? b, ← parseNat? k⟩ : Fl))
    some (some ⟨sc, ← parseInt? z, ← parseNat? zk⟩)
  | _ => none

def parseBT : Nat → Option BlockT
  | 0 => some .default | 1 => some .convMxN | 2 => some .vectorProduct | 3 => some .pooling | 4 => some .convDepthWise
  | 5 => some .elementWise | 6 => some .reduceSum | 7 => some .dma | _ => none

/-- `<Op member name>@<live npu_block_type>`; a named member whose live block type differs from the model's table is
    refused (the table in `Model/NpuOpBuild.lean` no longer transcribes `operation.py`) -/
def parseOpT (s : String) : Option OpT :=
  match s.splitOn "@" with
  | [name, bt] => do
    let bt ← parseBT (← parseNat? bt)
    let named : Option OpT := match name with
      | "AvgPool" => some .avgPool | "QuantizedAvgPool" => some .quantizedAvgPool | "MaxPool" => some .maxPool
      | "QuantizedMaxPool" => some .quantizedMaxPool | "ReduceSum" => some .reduceSum
      | "ResizeBilinear" => some .resizeBilinear | "ResizeNearestNeighbor" => some .resizeNearest
      | "Conv2DBias" => some .conv2DBias | "DepthwiseConv2DBias" => some .depthwiseConv2DBias
      | "Mul" => some .mul | "Add" => some .add | "Sub" => some .sub | "Minimum" => some .minimum | "Maximum" => some .maximum
      | "LeakyRelu" => some .leakyRelu | "Abs" => some .abs | "CLZ" => some .clz | "SHR" => some .shr | "SHL" => some .shl
      | "Quantize" => some .quantize | "Transpose" => some .transpose
      | _ => none
    match named with
    | some o => if o.blockType == bt then some o else none
    | none => some (.other bt)
  | _ => none

def parseDT : String → Option DT
  | "uint8" => some .uint8 | "int8" => some .int8 | "uint16" => some .uint16 | "int16" => some .int16
  | "int32" => some .int32 | "int64" => some .int64 | _ => some .other

def parseMemT : String → Option MemT
  | "0" => some .unknown | "1" => some .permanentNpu | "2" => some .permanentCpu | "3" => some .scratch
  | "4" => some .scratchFast | _ => none

def parseRounding : String → Option OpRounding
  | "TFLite" => some .tflite | "ToZero" => some .toZero | "HalfUp" => some .halfUp | "AwayZero" => some .awayZero | _ => none

def parsePadAttr : String → Option PadAttr
  | "SAME" => some .same | "VALID" => some .valid | "EXPLICIT" => some .explicit | "TILE" => some .tile | _ => none

def parseFaf : String → Option Faf
  | "Relu" => some .relu | "Relu6" => some .relu6 | "ReluN1To1" => some .reluN1To1 | "ReluN" => some .reluN
  | "Clip" => some .clip | "Clamp" => some .clamp | "Tanh" => some .tanh | "Sigmoid" => some .sigmoid | "LUT" => some .lut
  | _ => some .other

def parseS4 (s : String) : Option TensorAddr.S4 := do
  match ← natsC s with
  | [n, h, w, c] => some ⟨n, h, w, c⟩
  | _ => none

def parse4 (s : String) : Option (Int × Int × Int × Int) := do
  match ← intsC s with
  | [a, b, c, d] => some (a, b, c, d)
  | _ => none

def parseTens (s : String) : Option TensorAddr.Tens := do
  let (t, rest) ← Handlers.TensorAddr.takeTens (s.splitOn ",")
  if rest.isEmpty then some t else none

def parseSec (s : String) : Option WeightLayout.Range := do
  match ← (s.splitOn ":").mapM parseNat? with
  | [core, depth, off, sb, wo, wb] =>
    some { core := core, depth := depth, offset := off, scaleBytes := sb, weightOffset := wo, weightBytes := wb, index := 0,
           slice := 0, scaleCh := [], weightCh := [], cbd := 0, scaleData := [], weightData := [] }
  | _ => none

def parseSecs (s : String) : Option (List WeightLayout.Range) :=
  if s == "-" then some [] else (s.splitOn "+").mapM parseSec

def parseBox (s : String) : Option BoxD :=
  match s.splitOn ";" with
  | [a, b] => do some ⟨← natsC a, ← natsC b⟩
  | _ => none

def parseTensD (s : String) : Option TensD :=
  match s.splitOn "/" with
  | [t, dt, mt, q, sc, prod] => do
    let producer ← if prod == "E" then some none else if isN prod then some (some none) else do some (some (some (← parseOpT prod)))
    some { t := ← parseTens t, dtype := ← parseDT dt, memType := ← parseMemT mt, quant := ← parseQuant q,
           scalar := ← optOf parseFl sc, producer := producer }
  | _ => none

def parseAct (s : String) : Option (Option ActD) :=
  if isN s then some none else
  match s.splitOn "/" with
  | [f, mn, mx, li] => do some (some ⟨← parseFaf f, ← optOf parseFl mn, ← optOf parseFl mx, ← parseInt? li⟩)
  | _ => none

def parseExpl (s : String) : Option (Option ExplD) :=
  if isN s then some none else
  match s.splitOn "/" with
  | [pc, m, sh] => do some (some ⟨pc != "0", ← intsC m, ← intsC sh⟩)
  | _ => none

def parsePair (s : String) : Option (OpT × OpT) :=
  match s.splitOn "/" with
  | [a, b] => do some (← parseOpT a, ← parseOpT b)
  | _ => none

def parseOpD (toks : List String) : Option OpD := do
  match (← kv toks "op").splitOn "," with
  | [ty, orig, idt, bdt, memfn, kw, kh, sx, sy, dx, dy, rnd, pad, res] =>
    let mult ← match ← kv toks "mult" with
      | "n" => some none
      | m => do match ← natsC m with
        | [c, h, w] => some (some (c, h, w))
        | _ => none
    some { type := ← parseOpT ty, origType := ← parseOpT orig, ifmDtype := ← parseDT idt, bias := ← optOf parseDT bdt,
           memFnConcatSliceWrite := memfn != "0",
           kernel := ⟨← parseInt? kw, ← parseInt? kh, ← parseInt? sx, ← parseInt? sy, ← parseInt? dx, ← parseInt? dy⟩,
           roundingMode := ← optOf parseRounding rnd, explicitPadding := ← optOf parse4 (← kv toks "xpad"),
           paddingAttr := ← optOf parsePadAttr pad, alpha := ← optOf parseFl (← kv toks "alpha"),
           readOffset0 := ← optOf intsC (← kv toks "roff"), readShape0 := ← optOf intsC (← kv toks "rshape"),
           forcedInputQuant := ← parseQuant (← kv toks "fiq"), forcedOutputQuant := ← parseQuant (← kv toks "foq"),
           ofmQuant := ← parseQuant (← kv toks "ooq"), activation := ← parseAct (← kv toks "act"),
           explicitScaling := ← parseExpl (← kv toks "expl"), tileOffsIfm0 := ← natsC (← kv toks "to0"),
           tileOffsIfm1 := ← natsC (← kv toks "to1"), tileOffsOfm := ← natsC (← kv toks "too"), ofmStrideMult := mult,
           resampling := ← parseNat? res }
  | _ => none

def parseW (s : String) : Option (Option WTensD) :=
  if isN s then some none else
  match s.splitOn "/" with
  | [mt, addr, buf, pkf, secs] => do
    some (some ⟨← parseMemT mt, ← parseNat? addr, buf != "0", ← parseSecs secs, pkf != "0"⟩)
  | _ => none

def parseSc (s : String) : Option (Option STensD) :=
  if isN s then some none else
  match s.splitOn "/" with
  | [mt, addr, hs, secs] => do some (some ⟨← parseMemT mt, ← parseNat? addr, hs != "0", ← parseSecs secs⟩)
  | _ => none

def parseStripe (toks : List String) : Option StripeD := do
  let op ← parseOpD toks
  let psOps ← match ← kv toks "psops" with
    | "" => some []
    | s => (s.splitOn ",").mapM parsePair
  match (← kv toks "shp").splitOn ";", ← intsC (← kv toks "bc"), ← intsC (← kv toks "st") with
  | [s0, s1, so], [b0, b1, b2, b3], [first, last, pt, pb, rev] =>
    some { op := op, psOps := psOps, ifmShape0 := ← parseS4 s0, ifmShape1 := ← optOf parseS4 s1, ofmShape0 := ← parseS4 so,
           blockConfig := (b0, b1, b2, b3), isFirstH := first ≠ 0, isLastH := last ≠ 0, padTop := pt, padBottom := pb,
           ifm := ← parseTensD (← kv toks "ifm"), ifmBox := ← parseBox (← kv toks "ifmbox"),
           ifm2 := ← optOf parseTensD (← kv toks "ifm2"), ifm2Box := ← optOf parseBox (← kv toks "ifm2box"),
           ofm := ← parseTensD (← kv toks "ofm"), ofmBox := ← parseBox (← kv toks "ofmbox"),
           weight := ← parseW (← kv toks "w"), weightDepth := ← optOf parseNat? (← kv toks "wd"),
           scale := ← parseSc (← kv toks "sc"), reversedOperands := rev ≠ 0 }
  | _, _, _ => none

def parsePurpose : String → Option PurposeD
  | "W" => some .weights | "L" => some .lut | "F" => some .featureMap | _ => some .other

def parseDmaTens (s : String) : Option DmaTensD :=
  match s.splitOn "/" with
  | [mt, p, addr, secs, t] => do
    some ⟨← parseMemT mt, ← parsePurpose p, ← parseNat? addr, ← parseSecs secs, ← parseTens t⟩
  | _ => none

def parseArch (s : String) : Option (ArchD × Int × Int) := do
  match ← natsC s with
  | [nc, sp, ma, ac, ss, lb, ls] => some (⟨nc, sp ≠ 0, ma, ac, ss⟩, (lb : Int), (ls : Int))
  | _ => none

/-! ### the float operations, exact (`Spec/FloatExact.lean`); an operation outside the normal range yields a pattern
    (`2^64 + …`) no real value has, so the comparison with the real operation fails instead of passing by accident -/

def badBits : Nat := 2 ^ 64 + 1

def floatOps : FloatOps where
  qdiv f s := FloatExact.qdiv f.bits s.bits
  mulInt s ik q := ⟨(FloatExact.mulInt s.bits s.kind ik q).getD badBits, FloatExact.mulKind s.kind ik⟩
  div a b := (FloatExact.div a.bits a.kind b.bits b.kind).map fun (bits, k) => ⟨bits, k⟩
  one := ⟨FloatExact.oneBits, 0⟩
  inv3000 := ⟨FloatExact.inv3000Bits, 0⟩
  eq a b := FloatExact.eq a.bits a.kind b.bits b.kind

/-! ### field-by-field comparison of the model's operation with the real one -/

def dInt (nm : String) (m r : Int) : List String := if m = r then [] else [s!"{nm}:model={m}:real={r}"]
def dEq {α : Type} [DecidableEq α] [Repr α] (nm : String) (m r : α) : List String :=
  if m = r then [] else [(s!"{nm}:model={repr m}:real={repr r}").replace " " "" |>.replace "\n" ""]

def diffFM (nm : String) (m r : FM) : List String :=
  dEq (nm ++ ".dtype") m.dtype r.dtype ++ dInt (nm ++ ".region") m.region r.region ++ dEq (nm ++ ".shape") m.shape r.shape ++
  dInt (nm ++ ".height0") m.height0 r.height0 ++ dInt (nm ++ ".height1") m.height1 r.height1 ++ dInt (nm ++ ".width0") m.width0 r.width0 ++
  dEq (nm ++ ".addresses") m.addresses r.addresses ++ dEq (nm ++ ".hasQuant") m.hasQuant r.hasQuant ++
  dInt (nm ++ ".zeroPoint") m.zeroPoint r.zeroPoint ++ dEq (nm ++ ".nhcwb16") m.nhcwb16 r.nhcwb16 ++
  dEq (nm ++ ".strides") m.strides r.strides ++ dEq (nm ++ ".scaled") m.scaled r.scaled

def diffOptFM (nm : String) (m r : Option FM) : List String :=
  match m, r with
  | some a, some b => diffFM nm a b
  | none, none => []
  | _, _ => [s!"{nm}:model={m.isSome}:real={r.isSome}"]

def diffBlock (m r : BlockOp) : List String :=
  dEq "kind" m.kind r.kind ++ dEq "subOp" m.subOp r.subOp ++ diffFM "ifm" m.ifm r.ifm ++ diffOptFM "ifm2" m.ifm2 r.ifm2 ++
  dEq "ifm2Scalar" m.ifm2Scalar r.ifm2Scalar ++ diffFM "ofm" m.ofm r.ofm ++ dEq "kernel" m.kernel r.kernel ++
  dEq "padding" m.padding r.padding ++ dEq "weights" m.weights r.weights ++ dEq "biases" m.biases r.biases ++
  dEq "activation" m.activation r.activation ++ dEq "blockConfig" m.blockConfig r.blockConfig ++
  dEq "rounding" m.rounding r.rounding ++ dEq "upscale" m.upscale r.upscale ++
  dEq "partKernelFirst" m.partKernelFirst r.partKernelFirst ++ dEq "reversedOperands" m.reversedOperands r.reversedOperands ++
  dEq "rescaleKind" m.rescaleKind r.rescaleKind ++ dEq "fusedQuantize" m.fusedQuantize r.fusedQuantize

def diffOp (m r : Op) : List String :=
  match m, r with
  | .block a, .block b => diffBlock a b
  | .dma a, .dma b => dEq "src" a.src b.src ++ dEq "dst" a.dst b.dst ++ dInt "channel" a.channel b.channel ++ dInt "mode" a.mode b.mode
  | _, _ => ["kind:block-vs-dma"]

/-- what the c06 text does not carry -/
structure RealX where
  ifmScale : Option Fl
  ifm2Scale : Option Fl
  ofmScale : Option Fl
  actMin : Option Fl
  actMax : Option Fl
  scalar : Option Fl
  rescale : Option (List Int × List Int)

def parseRescale (s : String) : Option (Option (List Int × List Int)) :=
  if isN s then some none else
  match s.splitOn ";" with
  | [m, sh] => do some (some (← intsC m, ← intsC sh))
  | _ => none

def parseRx (s : String) : Option RealX :=
  match s.splitOn "/" with
  | [a, b, c, d, e, f, g] => do
    some ⟨← optOf parseFl a, ← optOf parseFl b, ← optOf parseFl c, ← optOf parseFl d, ← optOf parseFl e, ← optOf parseFl f,
          ← parseRescale g⟩
  | _ => none

def flBits (o : Option Fl) : Option Nat := o.map (·.bits)

def diffX (m : Built) (r : RealX) : List String :=
  dEq "ifm.scale" (flBits m.ifmScale) (flBits r.ifmScale) ++ dEq "ifm2.scale" (flBits m.ifm2Scale) (flBits r.ifm2Scale) ++
  dEq "ofm.scale" (flBits m.ofmScale) (flBits r.ofmScale) ++ dEq "activation.minFloat" (flBits m.actMin) (flBits r.actMin) ++
  dEq "activation.maxFloat" (flBits m.actMax) (flBits r.actMax) ++ dEq "ifm2_scalar" (flBits m.scalar) (flBits r.scalar) ++
  dEq "rescale" m.rescale r.rescale

def oracleOf : Op → Oracle
  | .block b => b.oracle
  | .dma d => { ibEnd := 0, abStart := 0, ibStart2 := 0, accFormat := 0, blockdep := 0, kernelWait := d.kernelWait,
                dmaWait := d.dmaWait, opToScale := 0, ofmScale := none, opaScale := none, opbScale := none }

def modelVerdict (cmd : Cmd) (arch : ArchD) (real : Op) (rx : RealX) : String :=
  match convert floatOps cmd arch (oracleOf real) with
  | .error e => s!"model={e.str}"
  | .ok b =>
    let d := diffOp b.op real ++ diffX b rx
    if d.isEmpty then "model=eq" else "model=diff:" ++ "~".intercalate (d.take 8)

/-! ### Spec predicates on the real operation -/

def parseOperand (s : String) : Option NpuOpSpec.Operand :=
  match s.splitOn "," with
  | [reg, lo, hi, bits, sg, hq, sc, zp, h, w, d, scal] => do
    let shape ← if isN h then some none else do some (some (Shape3.mk (← parseInt? h) (← parseInt? w) (← parseInt? d)))
    some { region := ← parseInt? reg, lo := ← parseInt? lo, hi := ← parseInt? hi, dtype := ⟨← parseNat? bits, sg != "0"⟩,
           hasQuant := hq != "0", scale := ← optOf parseNat? sc, zeroPoint := ← parseInt? zp, shape := shape,
           scalar := ← optOf parseNat? scal }
  | _ => none

def parseAlloc (s : String) : Option NpuOpSpec.Alloc := do
  match ← intsC s with
  | [r, a, sz] => some ⟨r, a, sz⟩
  | _ => none

def toSection (r : WeightLayout.Range) : NpuOpSpec.Section := ⟨r.core, r.depth, r.offset, r.scaleBytes, r.weightOffset, r.weightBytes⟩

def parseSsrc (s : String) : Option (Option (NpuOpSpec.Alloc × List NpuOpSpec.Section)) :=
  if isN s then some none else
  match s.splitOn "/" with
  | [a, secs] => do some (some (← parseAlloc a, (← parseSecs secs).map toSection))
  | _ => none

def rolesVerdict (toks : List String) (real : Op) (rx : RealX) : Option String :=
  match kv toks "opa", kv toks "opb", real with
  | some a, some b, .block op => do
    some (NpuOpSpec.verdict (NpuOpSpec.rolesMsgs (← parseOperand a) (← parseOperand b) op (flBits rx.ifmScale) (flBits rx.ifm2Scale)
      (flBits rx.scalar)))
  | _, _, _ => some "-"

def weightsVerdict (toks : List String) (ncores : Nat) (real : Op) : Option String :=
  match kv toks "wsrc", real with
  | some src, .block op => do
    let depth ← parseNat? (← kv toks "wd")
    some (NpuOpSpec.verdict (NpuOpSpec.weightsMsgs ncores depth ((← parseSecs (← kv toks "wsecs")).map toSection) (← parseAlloc src)
      (← optOf parseAlloc (← kv toks "wbuf")) (← parseSsrc (← kv toks "ssrc")) op.weights op.biases))
  | _, _ => some "-"

def dmaVerdict (toks : List String) (ncores : Nat) (lutBase lutSize : Int) (real : Op) : Option String :=
  match real with
  | .dma d => do
    let dstT ← parseAlloc (← kv toks "dstalloc")
    let isLut := (← kv toks "dstlut") != "0"
    let dest := NpuOpSpec.dmaDestMsgs isLut lutBase lutSize dstT d.dst
    let w ← match kv toks "wsrc" with
      | some src => do
        let depth ← parseNat? (← kv toks "wd")
        some (NpuOpSpec.weightDmaMsgs ncores depth ((← parseSecs (← kv toks "wsecs")).map toSection) (← parseAlloc src) dstT d.src d.dst)
      | none => some []
    some (NpuOpSpec.verdict (dest ++ w))
  | _ => some "-"

/-- `clamp=<fmin>/<fmax>/<scale bits|n>/<zp>/<bits>/<signed>`; the real operation's bounds are quantised here, with the
    real operation's own OFM quantisation, exactly as `register_command_stream_util.quantise` does -/
def clampVerdict (toks : List String) (real : Op) (rx : RealX) : Option String :=
  match kv toks "clamp", real with
  | some c, .block op =>
    if isN c then some "-" else
    match c.splitOn "/" with
    | [fmn, fmx, sc, zp, bits, sg] => do
      let q (v : Option Fl) : Option (Option Int) := match v with
        | none => some none
        | some f => match quantise floatOps f op.ofm.hasQuant rx.ofmScale op.ofm.zeroPoint with
          | .ok x => some (some x)
          | .error _ => none
      match q rx.actMin, q rx.actMax with
      | some qmin, some qmax =>
        -- the quantised bounds of the c06 text (harness transcription of `quantise`) must be the ones computed here
        let agree : NpuOpSpec.Msgs := match op.activation with
          | some a => (if a.qmin = qmin then [] else [s!"harness-quantise.min:{repr a.qmin}:{repr qmin}".replace " " ""]) ++
                      (if a.qmax = qmax then [] else [s!"harness-quantise.max:{repr a.qmax}:{repr qmax}".replace " " ""])
          | none => []
        some (NpuOpSpec.verdict (agree ++ NpuOpSpec.clampMsgs (flBits (← optOf parseFl fmn)) (flBits (← optOf parseFl fmx))
          (← optOf parseNat? sc) (← parseInt? zp) ⟨← parseNat? bits, sg != "0"⟩ qmin qmax))
      | _, _ => some "1 clamp:real-bounds-not-quantisable"
    | _ => none
  | _, _ => some "-"

/-- `ifmalloc=<addr>,<size>` `ifm2alloc=<addr>,<size>|n` `ofmalloc=<addr>,<size>`: allocations of the tensors behind the
    command's feature maps *after* the conversion (so in the roles the operation gives them) -/
def fmVerdict (toks : List String) (real : Op) : Option String :=
  match real, kv toks "ofmalloc" with
  | .block op, some oa => do
    let pair (s : String) : Option (Int × Int) := do
      match ← intsC s with
      | [a, b] => some (a, b)
      | _ => none
    let (oaA, oaS) ← pair oa
    let (iaA, iaS) ← pair (← kv toks "ifmalloc")
    let i2 ← optOf pair (← kv toks "ifm2alloc")
    let m2 := match op.ifm2, op.ifm2Scalar, i2 with
      | some f2, none, some (a, s) => NpuOpSpec.footprintMsgs "ifm2" f2 a s
      | _, _, _ => []
    some (NpuOpSpec.verdict (NpuOpSpec.footprintMsgs "ifm" op.ifm iaA iaS ++ m2 ++ NpuOpSpec.footprintMsgs "ofm" op.ofm oaA oaS ++
          NpuOpSpec.ofmInjectiveMsgs op.ofm ++ NpuOpSpec.windowMsgs op))
  | _, _ => some "-"

def handle : List String → Option String
  | "hl2npu" :: toks => do
    let (arch, lutBase, lutSize) ← parseArch (← kv toks "arch")
    let real ← Handlers.Emit.parseOp (← kv toks "real")
    let rx ← parseRx (← kv toks "rx")
    let cmd ← match ← kv toks "cmd" with
      | "S" => (parseStripe toks).map Cmd.stripe
      | "D" => do
        some (Cmd.dma ⟨← parseDmaTens (← kv toks "src"), ← parseDmaTens (← kv toks "dst"), ← parseBox (← kv toks "box")⟩)
      | _ => none
    some (modelVerdict cmd arch real rx ++ " | roles=" ++ (← rolesVerdict toks real rx) ++ " | weights=" ++
          (← weightsVerdict toks arch.ncores real) ++ " | dma=" ++ (← dmaVerdict toks arch.ncores lutBase lutSize real) ++
          " | clamp=" ++ (← clampVerdict toks real rx) ++ " | fm=" ++ (← fmVerdict toks real))
  | "hl2npu_limits" :: toks => do
    -- `get_mem_limits_for_regions(arch)`: the dictionary as `region:size` pairs sorted by region
    let (arch, _, _) ← parseArch (← kv toks "arch")
    let l := (memLimits arch).toArray.qsort (fun a b => a.1 < b.1) |>.toList
    some (",".intercalate (l.map fun (r, sz) => s!"{r}:{sz}"))
  | "hl2npu_f" :: "qdiv" :: f :: s :: _ => do
    some (match FloatExact.qdiv (← parseNat? f) (← parseNat? s) with | some q => toString q | none => "none")
  | "hl2npu_f" :: "mul" :: s :: k :: ik :: q :: _ => do
    let k ← parseNat? k
    let ik ← parseNat? ik
    some (match FloatExact.mulInt (← parseNat? s) k ik (← parseInt? q) with
          | some b => s!"{b}:{FloatExact.mulKind k ik}" | none => "none")
  | "hl2npu_f" :: "div" :: a :: ka :: b :: kb :: _ => do
    some (match FloatExact.div (← parseNat? a) (← parseNat? ka) (← parseNat? b) (← parseNat? kb) with
          | some (bits, k) => s!"{bits}:{k}" | none => "none")
  | "hl2npu_f" :: "inv3000" :: _ => some (toString FloatExact.inv3000Bits)
  | _ => none

end VelaVerif.Handlers.NpuOpBuild
