import VelaVerif.Model.LiveRangeAlign
import VelaVerif.Handlers.Util
namespace VelaVerif.Handlers.LiveRangeAlign
open VelaVerif.Handlers VelaVerif.LiveRangeAlign

/-- `lralign r0 r1 …` → model's final alignment;  `lralignspec final r0 r1 …` → 1/0 -/
def handle : List String → Option String
  | "lralign" :: r0 :: rest => do
    some (toString (finalAlignment (← parseNat? r0) (← parseNats rest)))
  | "lralignspec" :: f :: reqs => do
    some (boolStr (honoursAll (← parseNat? f) (← parseNats reqs)))
  | _ => none

end VelaVerif.Handlers.LiveRangeAlign
