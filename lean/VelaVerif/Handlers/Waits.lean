import VelaVerif.Model.RangeSet
import VelaVerif.Model.Waits
import VelaVerif.Model.Blockdep
import VelaVerif.Spec.Conflicts
import VelaVerif.Spec.BlockJobs
import VelaVerif.Spec.RangeOverlap
import VelaVerif.Handlers.Util
/-!
Protocol of the C04 check.

* `rsintersects s e s e … | s e …`            → `1` / `0` / `err:assert`      (`RangeSet.intersects`)
* `rsoverlap s e … | s e …`                   → `1` / `0`   (Spec: the quadratic definition)
* `rsunion s e … | s e …`                     → the sorted union `s e s e …`  (`RangeSet.__or__`)
* `accconf r:region:s:e w:… | r:… …`          → `1` / `0` / `err:assert`      (`MemoryAccessSet.add` + `conflicts`)
* `waitsabs <maxDma> <maxKern> <kinds> <row>…` → `kw,dw;…`  (`get_wait_dependency` over an abstract conflict matrix;
                                                  `kinds` = string of `D`/`K`, row i = bits `conf(op_i, op_j)`)
* `asyncabs <hwDma> <hwKern> <kinds> <waits kw,dw;…> <row>…` → `lazy=<b> explore=<1|0|skip|fuel>`  (Spec machine on given waits)
* `c04ops acc=<i> explore=<n> ops=<op>;… words=<w>,…` → model waits/blockdep, decoded waits/blockdep, agreement, Spec verdict
* `c04stream acc=<i> explore=<n> words=<w>,…`  → Spec verdict on a decoded stream
-/
namespace VelaVerif.Handlers.Waits
open VelaVerif VelaVerif.Handlers VelaVerif.RangeSet VelaVerif.Waits VelaVerif.NpuAccess

def kv (toks : List String) (key : String) : Option String :=
  toks.findSome? fun t => if t.startsWith (key ++ "=") then some (t.drop (key.length + 1)).toString else none

def splitNonEmpty (s : String) (sep : String) : List String := (s.splitOn sep).filter (· ≠ "")

def pairs : List Int → Option (List Range)
  | [] => some []
  | a :: b :: rest => (pairs rest).map ((a, b) :: ·)
  | _ => none

def parseTwoLists (toks : List String) : Option (List Range × List Range) := do
  let a := toks.takeWhile (· ≠ "|")
  let b := (toks.dropWhile (· ≠ "|")).drop 1
  some (← pairs (← parseInts a), ← pairs (← parseInts b))

def optBoolStr : Option Bool → String
  | none => "err:assert"
  | some b => boolStr b

def parseAccess (s : AccessSet) (t : String) : Option (Option AccessSet) :=
  match t.splitOn ":" with
  | [d, r, st, en] => do
    let r ← parseNat? r
    let st ← parseInt? st
    let en ← parseInt? en
    let w ← if d = "w" then some true else if d = "r" then some false else none
    some ((MemRanges.single r st en).map fun m => s.add m w)
  | _ => none

/-- outer `none`: malformed request; inner `none`: the model raised (assert) -/
def buildAccessSet (toks : List String) : Option (Option AccessSet) :=
  toks.foldlM (fun (acc : Option AccessSet) t =>
    match acc with
    | none => some none
    | some s => parseAccess s t) (some AccessSet.empty)

def wmStr (w : Watermark) : String :=
  let f : Option Nat → String := fun o => match o with | some n => toString n | none => "-1"
  s!"{f w.npu},{f w.dma}"

def parseKinds (s : String) : Option (List Bool) :=
  s.toList.mapM fun c => if c = 'D' then some true else if c = 'K' then some false else none

def parseMatrix (rows : List String) : Array (Array Bool) :=
  (rows.map fun r => (r.toList.map (fun c => c == '1')).toArray).toArray

def matConf (m : Array (Array Bool)) (y o : Nat) : Bool := (m.getD y #[]).getD o false

def parseWm (s : String) : Option (Option Nat × Option Nat) :=
  match s.splitOn "," with
  | [a, b] => do
    let a ← parseInt? a
    let b ← parseInt? b
    some (if a < 0 then none else some a.toNat, if b < 0 then none else some b.toNat)
  | _ => none

def absCmds (kinds : List Bool) (wms : List (Option Nat × Option Nat)) : List (AsyncHw.Cmd Nat) :=
  (kinds.zip wms).zipIdx.flatMap fun ((isDma, (kw, dw)), i) =>
    (match kw with | some n => [AsyncHw.Cmd.kernWait n] | none => []) ++
    (match dw with | some n => [AsyncHw.Cmd.dmaWait n] | none => []) ++
    [if isDma then AsyncHw.Cmd.dma i else AsyncHw.Cmd.kern i]

/-! ## operation descriptions (`c04ops`) -/

abbrev P := StateT (List Int) Option

def nextI : P Int := do
  match (← get) with
  | [] => failure
  | x :: rest => set rest; pure x

def nextN : P Nat := do
  let x ← nextI
  if x < 0 then failure else pure x.toNat

def nextB : P Bool := do pure ((← nextI) ≠ 0)

def pFMap : P FMap := do
  let region ← nextN; let layout ← nextB; let eb ← nextI
  let h ← nextI; let w ← nextI; let d ← nextI
  let h0 ← nextI; let h1 ← nextI; let w0 ← nextI
  let a0 ← nextI; let a1 ← nextI; let a2 ← nextI; let a3 ← nextI
  let hasS ← nextB; let sh ← nextI; let sw ← nextI; let sd ← nextI
  pure { region := region, nhcwb16 := layout, elemBytes := eb, shape := ⟨h, w, d⟩,
         tiles := ⟨h0, h1, w0, a0, a1, a2, a3⟩,
         strides := if hasS then some ⟨sh, sw, sd⟩ else none }

def pRange : P ARange := do
  let r ← nextN; let a ← nextI; let l ← nextI
  pure ⟨r, a, l⟩

def pRanges : P (List ARange) := do
  let n ← nextN
  (List.range n).mapM fun _ => pRange

def pBlock : P BlockOp := do
  let isConv ← nextB; let isRSum ← nextB; let usesLut ← nextB; let ifm2Scalar ← nextB; let hasIfm2 ← nextB
  let hasK ← nextB
  let kw ← nextI; let kh ← nextI; let sx ← nextI; let sy ← nextI; let dx ← nextI; let dy ← nextI
  let hasP ← nextB
  let pt ← nextI; let pl ← nextI; let pb ← nextI; let pr ← nextI
  let bh ← nextI; let bw ← nextI; let bd ← nextI
  let bits ← nextI
  let ifm ← pFMap
  let ifm2 ← pFMap
  let ofm ← pFMap
  let ws ← pRanges
  let bs ← pRanges
  pure { isConv2D := isConv, isReduceSum := isRSum, ifm := ifm, ifm2 := if hasIfm2 then some ifm2 else none, ifm2Scalar := ifm2Scalar,
         ofm := ofm, kernel := if hasK then some ⟨kw, kh, sx, sy, dx, dy⟩ else none,
         padding := if hasP then some ⟨pt, pl, pb, pr⟩ else none, weights := ws, biases := bs,
         usesLut := usesLut, blockConfig := ⟨bh, bw, bd⟩, ifmBits := bits }

def parseOp (s : String) : Option Op :=
  match (s.splitOn ",").filter (· ≠ "") with
  | "D" :: rest => do
    let xs ← parseInts rest
    let ((src, dst), left) ← (do let a ← pRange; let b ← pRange; pure (a, b) : P _).run xs
    if left ≠ [] then none else some (.dma ⟨src, dst⟩)
  | "B" :: rest => do
    let xs ← parseInts rest
    let (b, left) ← pBlock.run xs
    if left ≠ [] then none else some (.block b)
  | _ => none

/-- model side of the `generate_command_stream` loop: waits and BLOCKDEP of every operation;
    `none` = the real code raises inside the modelled functions -/
def modelStream (a : Gen.AccRow) (ops : List Op) : Option (List (Watermark × Int)) := do
  let accs ← ops.mapM (accessesOf a)
  let arr := accs.toArray
  -- `other_accesses.conflicts(op_accesses)`; an assertion inside `conflicts` cannot be expressed as a Bool:
  -- compute all pairs first
  let n := ops.length
  let table ← (List.range n).mapM fun y => (List.range n).mapM fun o =>
    if y < o then (arr.getD y AccessSet.empty).conflicts (arr.getD o AccessSet.empty) else some false
  let tarr := (table.map (·.toArray)).toArray
  let conf : Nat → Nat → Bool := fun y o => (tarr.getD y #[]).getD o false
  let wms := waits a.maxOutstandingDma a.maxOutstandingKernels conf (ops.zipIdx.map fun (op, i) => (op.isDma, i))
  -- BLOCKDEP
  let rec bds (l : List Op) (prev : Option BlockOp) : Option (List Int) :=
    match l with
    | [] => some []
    | .dma _ :: rest => (bds rest prev).map ((-1 : Int) :: ·)
    | .block b :: rest => do
      let v ← Blockdep.emittedBlockdep a prev b
      let r ← bds rest (some b)
      pure ((v : Int) :: r)
  let bd ← bds ops none
  pure (wms.zip bd)

/-- which exit of `calc_blockdep` every kernel operation takes (evidence only) -/
def pathsOf (a : Gen.AccRow) (ops : List Op) : List String :=
  let rec go (l : List Op) (prev : Option BlockOp) : List String :=
    match l with
    | [] => []
    | .dma _ :: rest => go rest prev
    | .block b :: rest =>
      (match Blockdep.classify a prev b with
       | none => "error"
       | some (.noPrev, _) => "noPrev"
       | some (.lutShram, _) => "lutShram"
       | some (.both, _) => "both"
       | some (.noOverlap, _) => "noOverlap"
       | some (.broadcastIfm2, _) => "broadcastIfm2"
       | some (.loop, _) => "loop") :: go rest (some b)
  go ops none

def tripleStr (l : List (Watermark × Int)) : String :=
  ";".intercalate (l.map fun (w, b) => s!"{wmStr w},{b}")

def decodedTriples (st : Decode.Stream) : List (Watermark × Int) :=
  st.ops.map fun so =>
    (⟨so.kernelWait, so.dmaWait⟩, match so.op with | .block b => (b.blockdep : Int) | .dma _ => -1)

def shramOf (a : Gen.AccRow) : Conflicts.Shram := Conflicts.hwShram a.name

def specStr (a : Gen.AccRow) (st : Decode.Stream) (exploreUpTo : Nat) : String :=
  let v := Conflicts.checkStream (Conflicts.hwCaps a.isU65) (shramOf a) st.ops exploreUpTo
  let first := match v.first with
    | some (o, y) => s!"{o}:{y}:{v.why.replace " " "_"}"
    | none => "-"
  let bj := BlockJobs.checkStream (shramOf a) st.ops
  let bjs := match bj with
    | [] => "-"
    | _ => "~".intercalate ((bj.take 8).map fun (m : String) => m.replace " " "_")
  s!"lazy={boolStr v.lazy} first={first} explore={v.explored} skip={BlockJobs.skipCount st.ops} blockjobs={bj.length} {bjs}"

def handle : List String → Option String
  | "rsintersects" :: toks => do
    let (a, b) ← parseTwoLists toks
    some (optBoolStr (intersects a b))
  | "rsoverlap" :: toks => do
    let (a, b) ← parseTwoLists toks
    some (boolStr (RangeOverlap.overlapsAny a b))
  | "rsunion" :: toks => do
    let (a, b) ← parseTwoLists toks
    some (joinInts ((union a b).flatMap fun r => [r.1, r.2]))
  | "accconf" :: toks => do
    let a ← buildAccessSet (toks.takeWhile (· ≠ "|"))
    let b ← buildAccessSet ((toks.dropWhile (· ≠ "|")).drop 1)
    match a, b with
    | some a, some b => some (optBoolStr (a.conflicts b))
    | _, _ => some "err:assert"
  | "waitsabs" :: md :: mk :: kinds :: rows => do
    let md ← parseNat? md
    let mk ← parseNat? mk
    let kinds ← parseKinds kinds
    let m := parseMatrix rows
    let wms := waits md mk (matConf m) (kinds.zipIdx.map fun (k, i) => (k, i))
    some (";".intercalate (wms.map wmStr))
  | "asyncabs" :: hd :: hk :: kinds :: wms :: rows => do
    let hd ← parseNat? hd
    let hk ← parseNat? hk
    let kinds ← parseKinds kinds
    let wms ← (splitNonEmpty wms ";").mapM parseWm
    if wms.length ≠ kinds.length then none else
    let m := parseMatrix rows
    let cmds := absCmds kinds wms
    let lz := AsyncHw.lazyCheck ⟨hd, hk⟩ (matConf m) cmds [] []
    let ex := match AsyncHw.hazardFree ⟨hd, hk⟩ (matConf m) cmds with
      | some true => "1" | some false => "0" | none => "fuel"
    some s!"lazy={boolStr lz} explore={ex}"
  | "c04ops" :: toks => do
    let a ← Gen.accelerators[← parseNat? (← kv toks "acc")]?
    let ex ← parseNat? ((kv toks "explore").getD "0")
    let ops ← (splitNonEmpty (← kv toks "ops") ";").mapM parseOp
    let words ← parseNats (splitNonEmpty (← kv toks "words") ",")
    let model := match modelStream a ops with
      | some l => tripleStr l
      | none => "err:assert"
    match Decode.decodeStream words with
    | .error e => some s!"model={model} | decode={e.replace " " "_"}"
    | .ok st =>
      let dec := tripleStr (decodedTriples st)
      some s!"model={model} | stream={dec} | agree={boolStr (model == dec)} | paths={",".intercalate (pathsOf a ops)} | {specStr a st ex}"
  | "c04stream" :: toks => do
    let a ← Gen.accelerators[← parseNat? (← kv toks "acc")]?
    let ex ← parseNat? ((kv toks "explore").getD "0")
    let words ← parseNats (splitNonEmpty (← kv toks "words") ",")
    match Decode.decodeStream words with
    | .error e => some s!"decode={e.replace " " "_"}"
    | .ok st =>
      let nd := (st.ops.filter fun so => Conflicts.isDmaOp so.op).length
      let nw := (st.ops.filter fun so => so.kernelWait.isSome || so.dmaWait.isSome).length
      some s!"decode=ok | ops={st.ops.length} dma={nd} waits={nw} | {specStr a st ex}"
  | _ => none

end VelaVerif.Handlers.Waits
