import VelaVerif.Model.Lut
import VelaVerif.Spec.Gemmlowp
import VelaVerif.Gen.FpMathTables
import VelaVerif.Handlers.Util
import VelaVerif.Handlers.FpMath
namespace VelaVerif.Handlers.Lut
open VelaVerif VelaVerif.Handlers VelaVerif.FpMath VelaVerif.Lut

def showList : Except Err (List Int) → String
  | .ok vs => "ok " ++ joinInts vs
  | .error e => Handlers.FpMath.errStr e

/-! ### reference tables (Spec/Gemmlowp.lean), used to judge the *implementation's* tables -/

def lreluRefTable (signed : Bool) (zpIn zpOut idScale idShift aScale aShift : Int) : List Int :=
  (codes signed).map (Gemmlowp.leakyReluRef (qmin signed) (qmax signed) zpIn zpOut
    idScale (31 - idShift) aScale (31 - aShift))

/-- the reference is defined when the multipliers are int32, the shifts are in the range TFLite
    produces and no `x * (1 << left_shift)` overflows -/
def mbqmDefined (x s sh : Int) : Bool :=
  let t := 31 - sh
  let l : Nat := if t > 0 then t.toNat else 0
  inI32 (x * 2 ^ l) && inI32 s && decide (t ≥ -31) && decide (t ≤ 31)

def lreluRefDefined (signed : Bool) (zpIn idScale idShift aScale aShift : Int) : Bool :=
  (codes signed).all fun q =>
    if q - zpIn ≥ 0 then mbqmDefined (q - zpIn) idScale idShift else mbqmDefined (q - zpIn) aScale aShift

def hswishRefTable (signed : Bool) (zpIn zpOut outScale16 outShift reluScale16 reluShift : Int) : List Int :=
  (codes signed).map (Gemmlowp.hardSwishRef (qmin signed) (qmax signed) zpIn zpOut
    outScale16 (31 - outShift) reluScale16 (31 - reluShift))

def quantRefTable (quantMin quantMax zpIn zpOut mult shift : Int) (vals : List Int) : List Int :=
  vals.map (Gemmlowp.requantizeRef quantMin quantMax zpIn zpOut mult (31 - shift))

/-- first index at which two equally long tables differ (linear scan) -/
def firstDiff : List Int → List Int → Nat → Option (Nat × Int × Int)
  | a :: as, b :: bs, i => if a ≠ b then some (i, a, b) else firstDiff as bs (i + 1)
  | _, _, _ => none

def cmpTables (ref real : List Int) : String :=
  if ref.length ≠ real.length then s!"0 length {real.length} expected {ref.length}" else
  match firstDiff ref real 0 with
  | none => "1"
  | some (i, e, g) => s!"0 index {i} expected {e} got {g}"

/-! ### sigmoid / tanh / generic real functions: evaluated with `Float` (validated, not proved) -/

def truncF (x : Float) : Float := if x < 0 then x.ceil else x.floor
/-- `numeric_util.round_away_zero` : `np.trunc(f + (-0.5 if f < 0 else 0.5))` -/
def roundAwayZero (f : Float) : Float := truncF (f + (if f < 0 then -0.5 else 0.5))
/-- `numeric_util.clamp_sigmoid` -/
def clampSigmoid (x : Float) : Float :=
  if x ≤ -8 then 0.0 else if x ≥ 8 then 1.0 else 1 / (1 + Float.exp (-x))

def realFn : String → Option (Float → Float)
  | "sigmoid" => some clampSigmoid
  | "tanh" => some Float.tanh
  | _ => none

/-- unrounded `zp_out + fn(ifm_scale * (x - zp_in)) / ofm_scale` exactly as `convert_to_lut8` -/
def lut8Raw (fn : Float → Float) (sIn sOut : Float) (zpIn zpOut x : Int) : Float :=
  let xReal := sIn * Float.ofInt (x - zpIn)
  let yReal := fn xReal
  Float.ofInt zpOut + yReal / sOut

def lut8Float (fn : Float → Float) (signed : Bool) (sIn sOut : Float) (zpIn zpOut : Int) : List Int :=
  (codes signed).map fun x =>
    let r := roundAwayZero (lut8Raw fn sIn sOut zpIn zpOut x)
    let lo := Float.ofInt (qmin signed)
    let hi := Float.ofInt (qmax signed)
    let r := if r > lo then r else lo          -- max(quantized_min, r)
    let r := if r < hi then r else hi          -- min(quantized_max, ·)
    r.toInt64.toInt

/-- distance of the unrounded value from the nearest rounding tie (k + 0.5), in units of 2^-40 -/
def tieDistance (fn : Float → Float) (signed : Bool) (sIn sOut : Float) (zpIn zpOut : Int) : List Int :=
  (codes signed).map fun x =>
    let v := (lut8Raw fn sIn sOut zpIn zpOut x).abs
    let d := ((v - v.floor) - 0.5).abs
    (d * 1099511627776.0).toInt64.toInt

def parseBool? : String → Option Bool
  | "1" => some true
  | "0" => some false
  | _ => none

/--
* `lut lrelu <signed> zpIn zpOut idScale idShift aScalar aScale aShift` → model table
* `lut hswish <signed> zpIn zpOut outScale outShift reluScale reluShift` → model table
* `lut quant qmin qmax zpIn zpOut mult shift v…` → model folded constants
* `lut rsqrt zpIn zpOut mult shift` → model table
* `lutchk lrelu|hswish|quant … | <real values>` → `1` iff the *given* (implementation) table equals the
   reference formula of `Spec/Gemmlowp.lean` entry by entry and lies in `[qmin, qmax]`; `na` if the reference
   is undefined for these parameters
* `lutf sigmoid|tanh <signed> <ifm_scale bits> <ofm_scale bits> zpIn zpOut` → table via `Float`
* `lutfd …` → tie distances
-/
def handle : List String → Option String
  | "lut" :: "lrelu" :: sg :: args => do
    let sg ← parseBool? sg
    match ← parseInts args with
    | [zi, zo, is_, ish, asc, as_, ash] => some (showList (lreluLut sg zi zo is_ ish asc as_ ash))
    | _ => none
  | "lut" :: "hswish" :: sg :: args => do
    let sg ← parseBool? sg
    match ← parseInts args with
    | [zi, zo, os, osh, rs, rsh] => some (showList (hardswishLut sg zi zo os osh rs rsh))
    | _ => none
  | "lut" :: "quant" :: args => do
    match ← parseInts args with
    | lo :: hi :: zi :: zo :: m :: sh :: vals => some (showList (quantizeFold lo hi zi zo m sh vals))
    | _ => none
  | "lut" :: "rsqrt" :: args => do
    match ← parseInts args with
    | [zi, zo, m, sh] => some (showList (rsqrtLut Gen.rsqrtLut zi zo m sh))
    | _ => none
  | "lutchk" :: "lrelu" :: sg :: args => do
    let sg ← parseBool? sg
    match ← parseInts args with
    | zi :: zo :: is_ :: ish :: as_ :: ash :: real =>
      if ¬ lreluRefDefined sg zi is_ ish as_ ash then some "na" else
      if ¬ real.all (fun v => decide (qmin sg ≤ v) && decide (v ≤ qmax sg)) then some "0 range" else
      some (cmpTables (lreluRefTable sg zi zo is_ ish as_ ash) real)
    | _ => none
  | "lutchk" :: "hswish" :: sg :: args => do
    let sg ← parseBool? sg
    match ← parseInts args with
    | zi :: zo :: os16 :: osh :: rs16 :: rsh :: real =>
      if ¬ (inI16 os16 && inI16 rs16 && decide (osh ≥ 31) && decide (osh ≤ 46) && decide (rsh ≥ 0) && decide (rsh ≤ 46)
            && decide (-128 ≤ zi) && decide (zi ≤ 255)) then some "na" else
      if ¬ real.all (fun v => decide (qmin sg ≤ v) && decide (v ≤ qmax sg)) then some "0 range" else
      some (cmpTables (hswishRefTable sg zi zo os16 osh rs16 rsh) real)
    | _ => none
  | "lutchk" :: "quant" :: args => do
    match ← parseInts args with
    | lo :: hi :: zi :: zo :: m :: sh :: rest =>
      let n := rest.length / 2
      let vals := rest.take n
      let real := rest.drop n
      if ¬ vals.all (fun v => mbqmDefined (v - zi) m sh) then some "na" else
      if ¬ real.all (fun v => decide (lo ≤ v) && decide (v ≤ hi)) then some "0 range" else
      some (cmpTables (quantRefTable lo hi zi zo m sh vals) real)
    | _ => none
  | "lutchk" :: "quantf" :: args => do
    -- lutchk quantf lo hi zi zo m1 e1 m2 e2 <n constants> <n folded values>: the scales are the doubles m·2^e
    match ← parseInts args with
    | lo :: hi :: zi :: zo :: m1 :: e1 :: m2 :: e2 :: rest =>
      if m1 ≤ 0 ∨ m2 ≤ 0 then some "na" else
      let n := rest.length / 2
      let vals := rest.take n
      let real := rest.drop n
      let d := Gemmlowp.doubleQuotient m1.toNat e1 m2.toNat e2
      let ms := Gemmlowp.quantizeMultiplier d.1 d.2
      -- TFLite shift t = 31 - vela shift; outside what Vela's quantise_scale covers (C09) -> na
      let velaShift := 31 - ms.2
      if (d.1 + 2 ^ 21) / 2 ^ 22 = 2 ^ 31 then some "na" else
      if ¬ vals.all (fun v => mbqmDefined (v - zi) ms.1 velaShift) then some "na" else
      if ¬ real.all (fun v => decide (lo ≤ v) && decide (v ≤ hi)) then some "0 range" else
      some (cmpTables (vals.map (Gemmlowp.requantizeRef lo hi zi zo ms.1 ms.2)) real ++ s!" mult {ms.1} shift {velaShift}")
    | _ => none
  | ["qmult", m1, e1, m2, e2] => do
    let m1 ← parseNat? m1
    let e1 ← parseInt? e1
    let m2 ← parseNat? m2
    let e2 ← parseInt? e2
    if m1 = 0 ∨ m2 = 0 then some "na" else
    let d := Gemmlowp.doubleQuotient m1 e1 m2 e2
    let ms := Gemmlowp.quantizeMultiplier d.1 d.2
    some s!"{d.1} {d.2} {ms.1} {31 - ms.2}"
  | [cmd, kind, sg, sInBits, sOutBits, zi, zo] => do
    if cmd ≠ "lutf" && cmd ≠ "lutfd" then none else
    let fn ← realFn kind
    let sg ← parseBool? sg
    let sIn := Float.ofBits (← parseNat? sInBits).toUInt64
    let sOut := Float.ofBits (← parseNat? sOutBits).toUInt64
    let zi ← parseInt? zi
    let zo ← parseInt? zo
    if cmd == "lutf" then some ("ok " ++ joinInts (lut8Float fn sg sIn sOut zi zo))
    else some ("ok " ++ joinInts (tieDistance fn sg sIn sOut zi zo))
  | _ => none

end VelaVerif.Handlers.Lut
