import VelaVerif.Model.Alloc
import VelaVerif.Spec.Alloc
import VelaVerif.Handlers.Util
namespace VelaVerif.Handlers.Alloc
open VelaVerif VelaVerif.Handlers VelaVerif.Alloc

def errStr : Err → String
  | .zerodiv => "err:zerodiv"
  | .value => "err:value"
  | .index => "err:index"
  | .assert_ => "err:assert"
  | .alloc => "err:alloc"
  | .unalloc => "err:unalloc"
  | .draws => "err:draws"
  | .fuel => "err:fuel"
  | .lrfuel => "err:lrfuel"
  | .chain => "err:chain"

/-- split `xs` into `n` groups of `k` numbers, returning the rest -/
def groups (k : Nat) : Nat → List Nat → Option (List (List Nat) × List Nat)
  | 0, xs => some ([], xs)
  | n + 1, xs =>
    if xs.length < k then none else
    match groups k n (xs.drop k) with
    | some (gs, rest) => some (xs.take k :: gs, rest)
    | none => none

def mkLR (id : Nat) : List Nat → Option LR
  | [s, e, sz, al, nm] => some ⟨s, e, sz, al, nm, id⟩
  | [s, e, sz, al] => some ⟨s, e, sz, al, id, id⟩
  | _ => none

def mkLRs (gs : List (List Nat)) : Option (List LR) :=
  (gs.zipIdx).mapM (fun (g, i) => mkLR i g)

def mkPlaced : List Nat → Option Spec.Alloc.Placed
  | [s, e, sz, al, a, c] => some ⟨s, e, sz, al, a, c⟩
  | _ => none

/-- parse `nlr (start end size ntens (addr eqv cpu)*)*` -/
def parseVLrs : Nat → List Nat → Option (List VLr)
  | 0, [] => some []
  | 0, _ => none
  | n + 1, s :: e :: sz :: nt :: rest =>
    match groups 3 nt rest with
    | some (ts, rest') =>
      match parseVLrs n rest' with
      | some more =>
        some (⟨s, e, sz, ts.filterMap (fun t => match t with
          | [a, q, c] => some (⟨a, q, c != 0⟩ : VTens)
          | _ => none)⟩ :: more)
      | none => none
    | none => none
  | _ + 1, _ => none

/-- addresses by id from placements -/
def byId (n : Nat) (pl : List (LR × Nat)) : List String :=
  (List.range n).map (fun i => match pl.find? (fun p => p.1.id == i) with
    | some p => toString p.2
    | none => "-")

def handle : List String → Option String
  | "alloc" :: "greedy" :: n :: rest => do
    let n ← parseNat? n
    let xs ← parseNats rest
    let (gs, tail) ← groups 5 n xs
    if !tail.isEmpty then none
    let lrs ← mkLRs gs
    match greedy lrs with
    | .error e => some (errStr e)
    | .ok (pl, total) => some (s!"ok {total} " ++ " ".intercalate (byId n pl))
  | "alloc" :: "linear" :: gran :: nlr :: rest => do
    let gran ← parseNat? gran
    let nlr ← parseNat? nlr
    let xs ← parseNats rest
    if xs.length < nlr + 1 then none
    let sizes := xs.take nlr
    let nt := xs.getD nlr 0
    let (gs, tail) ← groups 5 nt (xs.drop (nlr + 1))
    if !tail.isEmpty then none
    let tens ← gs.mapM (fun g => match g with
      | [l, w, s, lu, q] => some (⟨l, w, s, lu != 0, q⟩ : LTens)
      | _ => none)
    match linear sizes tens gran with
    | .error e => some (errStr e)
    | .ok (addrs, total) =>
      some (s!"ok {total} " ++ " ".intercalate ((List.range nlr).map (fun i =>
        match addrs.find? (fun p => p.1 == i) with
        | some p => toString p.2
        | none => "-")))
  | "alloc" :: "hc" :: maxIter :: memLimit :: n :: rest => do
    let maxIter ← parseInt? maxIter
    let memLimit ← parseNat? memLimit
    let n ← parseNat? n
    let xs ← parseNats rest
    let (gs, draws) ← groups 4 n xs
    let lrs ← mkLRs gs
    if lrs.isEmpty then some "ok 0 iters=0 left=0" else
    match hcAllocate lrs (if maxIter < 0 then none else some maxIter.toNat) memLimit draws with
    | .error e => some (errStr e)
    | .ok r => some (s!"ok {hcTotal lrs r.addrs} " ++ joinNats r.addrs ++ s!" iters={r.iters} left={r.drawsLeft.length}")
  | "allocspec" :: total :: n :: rest => do
    let total ← parseNat? total
    let n ← parseNat? n
    let xs ← parseNats rest
    let (gs, tail) ← groups 6 n xs
    if !tail.isEmpty then none
    let ps ← gs.mapM mkPlaced
    some (s!"overlap={boolStr (Spec.Alloc.noOverlapB ps)} aligned={boolStr (Spec.Alloc.alignedB ps)} " ++
      s!"total={boolStr (total == Spec.Alloc.highestEnd ps)} padded={boolStr (total == Spec.Alloc.paddedEnd ps)} " ++
      s!"peak={boolStr (Spec.Alloc.coversPeakB ps total)} ok={boolStr (Spec.Alloc.ok ps total)}")
  | "allocverify" :: alignment :: nlr :: rest => do
    let alignment ← parseNat? alignment
    let nlr ← parseNat? nlr
    let xs ← parseNats rest
    let lrs ← parseVLrs nlr xs
    match verifyAllocation lrs alignment with
    | .ok () => some "ok"
    | .error e => some (errStr e)
  | _ => none

end VelaVerif.Handlers.Alloc
