import VelaVerif.Spec.Determinism
import VelaVerif.Model.Caches
import VelaVerif.Handlers.Util
namespace VelaVerif.Handlers.Determinism
open VelaVerif.Handlers VelaVerif.Determinism

/-- `status|size|digest|fig,fig,...` -/
def parseObs (tok : String) : Option Obs :=
  match tok.splitOn "|" with
  | [st, sz, dg, figs] => do
    some { status := st, size := (← parseNat? sz), digest := dg,
           figures := if figs == "" then [] else figs.splitOn "," }
  | _ => none

def parseBufObs (tok : String) : Option BufObs :=
  match tok.splitOn "|" with
  | [s0, d0, s1, d1] => do
    some { sizeBefore := (← parseNat? s0), digestBefore := d0, sizeAfter := (← parseNat? s1), digestAfter := d1 }
  | _ => none

/-- `detclass <obs> <obs> ...` → `1` if all observations of the class agree, else `0 <index of the first that differs from #0>`;
    `emitorder <key> ...` → the positions (in iteration order) in which the writer emits elements with these sort keys -/
def handle : List String → Option String
  | "detclass" :: toks =>
    match toks.mapM parseObs with
    | none => some "err:value"
    | some l =>
      if agree l then some "1"
      else some ("0 " ++ toString ((firstDisagreement l).getD 0))
  | "bufkept" :: toks =>
    -- `bufkept <size|sha256|size|sha256> ...` (caller's buffer before / after each call) → `1` if no call modified its buffer,
    -- else `0 <index of the first call that did>`
    match toks.mapM parseBufObs with
    | none => some "err:value"
    | some l =>
      if inputKept l then some "1"
      else some ("0 " ++ toString ((firstModified l).getD 0))
  | "emitorder" :: toks =>
    match parseNats toks with
    | none => some "err:value"
    | some ks => some (joinNats ((VelaVerif.Caches.emitOrder Prod.fst ks.zipIdx).map Prod.snd))
  | _ => none

end VelaVerif.Handlers.Determinism
