import VelaVerif.Handlers.WeightLayout
import VelaVerif.Model.Scaling
import VelaVerif.Spec.Decode
/-! Line-protocol handlers for the pipeline-level part of C08:

* `wl_transparent` — `Spec.WeightLayout.CacheTransparent` on one answer of `encode_weight_and_scale_tensor` and
  the answer of the same request with the cache bypassed;
* `wl_prepq` — the scale selection of `_prepare_scale_and_bias` (`prepareScales`) with the candidate
  (multiplier, shift) pairs computed *here* by the C09 model (`Scaling.quantiseScale` /
  `reducedQuantiseScale`) from the double quotients;
* `wl_emitted` — the command words of one NPU stream are decoded (`Spec.Decode`), weight DMAs are replayed on
  the constants tensor of the output file, and for every operation with weights the bytes its SCALE / WEIGHT
  registers designate are judged (`ScaleRegsOk`, `WeightRegsOk`, `WeightsAt`);
* `wl_keysep` — do two requests that differ in the transpose-convolution flip get different cache keys. -/
namespace VelaVerif.Handlers.WeightStream
open VelaVerif VelaVerif.Handlers VelaVerif.Handlers.WeightLayout VelaVerif.WeightSpec

/-! #### wl_transparent -/

def pETensor : P ETensor := do
  let partKernel ← pBool
  let dbs0 ← pNat
  let dbs1 ← pNat
  let ranges ← pList pARange
  let buf ← pHex
  pure ⟨buf, ranges, dbs0, dbs1, partKernel⟩

/-- `wl_transparent <w> <hasS> [<s>] <fresh>` with tensor = `partKernel dbs0 dbs1 n ranges.. hex` -/
def pTransparent : P String := do
  let w ← pETensor
  let hasS ← pBool
  let s ← if hasS then (do let t ← pETensor; pure (some t)) else pure none
  let fresh ← pETensor
  pEnd
  let f := transparencyFailures w s fresh
  if decide (CacheTransparent w s fresh) ∧ f.isEmpty then pure "ok"
  else pure ("fail " ++ ",".intercalate (if f.isEmpty then ["observation"] else f))

/-! #### wl_prepq -/

def pDbl : P Scaling.Dbl := do
  match (← tok) with
  | "z" => pure (.zero false)
  | "i" => pure (.inf false)
  | "n" => pure .nan
  | "f" => do let neg ← pBool; let m ← pNat; let e ← pInt; pure (.fin neg m e)
  | _ => failure

def scErr : Scaling.Err → String
  | .overflow => "err:overflow" | .value => "err:value" | .zerodiv => "err:zerodiv" | .assert => "err:assert"
  | .unmodelled => "err:unmodelled"

def candsOf (a b : Scaling.Dbl) : Except Scaling.Err WeightLayout.ScaleCands := do
  let af ← Scaling.quantiseScale a
  let ar ← Scaling.reducedQuantiseScale a
  let bf ← Scaling.quantiseScale b
  let br ← Scaling.reducedQuantiseScale b
  pure ⟨af, ar, bf, br⟩

/-- as `wl_prep`, but each weight scale comes with the two double quotients
    (`double(float32 product) / ofm` and `double product / ofm`) and the quantiser is the C09 model -/
def pPrepQ : P String := do
  let ifmType ← pIfmType
  let isFullyConnected ← pBool
  let biasIsInt64 ← pBool
  let hasExplicit ← pBool
  let expl ← pList pPair
  let awayZero ← pBool
  let ds ← pList (do let a ← pDbl; let b ← pDbl; pure (a, b))
  let nBias ← pNat
  pEnd
  match ds.mapM (fun p => candsOf p.1 p.2) with
  | .error e => pure (scErr e)
  | .ok cands =>
    let explicit := if hasExplicit then some expl else none
    let pin : WeightLayout.PrepIn := { ifmType, isFullyConnected, biasIsInt64, explicit, awayZero, cands, nBias }
    match WeightLayout.prepareScales pin with
    | .error e => pure (errStr e)
    | .ok qs => pure ("ok " ++ " ".intercalate (qs.map fun q => s!"{q.1} {q.2}"))

/-! #### wl_emitted -/

structure OpInfo where
  opIndex : Nat
  fullDepth : Nat
  c0 : Nat
  c1 : Nat
  exp : List Rec                      -- records of channels 0 .. fullDepth-1 (absolute index)
  tensor : Option WTensor             -- the operation's own filter (as it is encoded), `none` = weights not judged
  own : List (List Nat × List Int)    -- per owning core: the section bytes and what `mlw_codec.decode` makes of them

def pOpInfo : P OpInfo := do
  let opIndex ← pNat; let fullDepth ← pNat; let c0 ← pNat; let c1 ← pNat
  let exp ← pList (do let b ← pInt; let m ← pNat; let s ← pNat; pure (Rec.mk b m s))
  let hasW ← pBool
  if !hasW then pure ⟨opIndex, fullDepth, c0, c1, exp, none, []⟩ else
  let h ← pNat; let w ← pNat; let i ← pNat; let o ← pNat; let flip ← pBool
  let zp ← pList pInt
  let raw ← pList pInt
  if raw.length ≠ h * w * i * o ∨ (zp.length ≠ 1 ∧ zp.length ≠ o) then failure
  let own ← pList (do let sec ← pHex; let dec ← pList pInt; pure (sec, dec))
  pure ⟨opIndex, fullDepth, c0, c1, exp, some ⟨h, w, i, o, raw.toArray, zp.toArray, flip⟩, own⟩

def toRng (a : Decode.AddrRange) : Rng := ⟨a.region, a.addr, a.len⟩

/-- verdict on one block operation; `[]` = fine -/
def judgeOp (m : ConstMem) (ncores ifmUblock ofmUblock subH subW : Nat) (b : Decode.BlockOp) (i : OpInfo) : List String :=
  let o : OpConsts := ⟨ncores, i.c0, i.c1, b.scales.map toRng, b.weights.map toRng⟩
  let tag := s!"op{i.opIndex}"
  (if b.ofm.depth = i.c1 - i.c0 then [] else [s!"{tag}:ofm-depth-register={b.ofm.depth}"]) ++
  (if decide (ScaleRegsOk m i.exp o) then [] else [s!"{tag}:scale-records"]) ++
  match i.tensor with
  | none => []
  | some t =>
    (if decide (WeightRegsOk m o (i.own.map (·.1))) then [] else [s!"{tag}:weight-bytes"]) ++
    let q : SReq := ⟨ncores, i.fullDepth, b.blkD, [i.c0, i.c1]⟩
    let cc : CodecCfg := ⟨ifmUblock, ofmUblock, b.kind == .depthwise, b.partKernelFirst, b.ifm.elemBytes * 8,
                          subH / b.dilationY, subW / b.dilationX⟩
    (o.cores.zip i.own).flatMap fun (core, own) =>
      if decide (WeightsAt q cc t ⟨0, core, i.c0, i.c1 - i.c0⟩ own.2) then [] else [s!"{tag}:weights-core{core}"]

def walk (ncores ifmUblock ofmUblock subH subW : Nat) :
    List (Decode.DecOp × Nat) → List OpInfo → ConstMem → List String → Nat → List String × Nat
  | [], infos, _, acc, n => (acc ++ infos.map (fun i => s!"op{i.opIndex}:no-such-block-operation"), n)
  | (.dma d, _) :: rest, infos, m, acc, n =>
    walk ncores ifmUblock ofmUblock subH subW rest infos (m.dma (toRng d.src) (toRng d.dst)) acc n
  | (.block b, idx) :: rest, infos, m, acc, n =>
    match infos with
    | i :: more =>
      if i.opIndex = idx then
        walk ncores ifmUblock ofmUblock subH subW rest more m (acc ++ judgeOp m ncores ifmUblock ofmUblock subH subW b i) (n + 1)
      else
        -- an operation the harness gave no side information for must not read weights
        walk ncores ifmUblock ofmUblock subH subW rest infos m
          (acc ++ (if b.weights.isEmpty then [] else [s!"op{idx}:weights-without-info"])) n
    | [] =>
      walk ncores ifmUblock ofmUblock subH subW rest [] m
        (acc ++ (if b.weights.isEmpty then [] else [s!"op{idx}:weights-without-info"])) n

/-- `wl_emitted ifmUblock ofmUblock subKernelMaxH subKernelMaxW <const hex> nWords words.. nInfos infos..` -/
def pEmitted : P String := do
  let ifmUblock ← pNat; let ofmUblock ← pNat; let subH ← pNat; let subW ← pNat
  let image ← pHex
  let words ← pList pNat
  let infos ← pList pOpInfo
  pEnd
  match Decode.decodeStream words with
  | .error e => pure s!"err:decode {e.replace " " "_"}"
  | .ok st =>
    let m : ConstMem := ⟨0, image.toArray, []⟩
    let (fs, n) := walk st.ncores ifmUblock ofmUblock subH subW (st.ops.map (·.op)).zipIdx infos m [] 0
    if fs.isEmpty then pure s!"ok {n}" else pure ("fail " ++ " ".intercalate (fs.take 12))

/-! #### wl_keysep -/

/-- `wl_keysep <req A> <req B>` : `sep` when the weight keys differ, `collide` when they are equal although the
    requests differ in the transpose-convolution flip, `same` otherwise -/
def pKeySep : P String := do
  let a ← pReqKeys
  let b ← pReqKeys
  pEnd
  if WeightLayout.wccKey a ≠ WeightLayout.wccKey b then pure "sep"
  else if a.opFlip ≠ b.opFlip then pure "collide" else pure "same"

def handle : List String → Option String
  | "wl_transparent" :: rest => some ((run pTransparent rest).getD "err:parse")
  | "wl_prepq" :: rest => some ((run pPrepQ rest).getD "err:parse")
  | "wl_emitted" :: rest => some ((run pEmitted rest).getD "err:parse")
  | "wl_keysep" :: rest => some ((run pKeySep rest).getD "err:parse")
  | _ => none

end VelaVerif.Handlers.WeightStream
