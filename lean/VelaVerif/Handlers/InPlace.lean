import VelaVerif.Model.InPlace
import VelaVerif.Spec.InPlace
import VelaVerif.Handlers.Util
/-!
In-place decision chain (model) and the Spec on the implementation's decisions.

`inplace ru=<memcpyWp><elementwiseVar><memcpyVar> T=<tensor>,… P=<pass>;… outs=<t>/<t>… F=<fuse>;…`
  tensor = `<eq>:<isConst>:<producer pass>/<producer pass>…`                     (identity = position in `T`)
  pass   = `<C|N|M0|M1|S>|<reads>|<inputs>|<outputs>|<ifm|->|<ifm2|->|<ofm|->`   (lists `a/b/c`)
  fuse   = `<pass>|<elementwise>|<varWrite>|<memcpy>|<ofmShape>|<ifmShape>|<ifm2Shape>|<attr ofm>|<attr ifm>|<attr ifm2>`
  attr   = `<W|F|V|O>.<inTarget>.<size>.<shapeEmpty>.<format>.<dtype>.<variable>`  (shapes `1.2.3.4`)
answer: `ok wf=<0|1> multiple=<0|1> n=<objects> sg=<k>/<k>… X=<id>:<src|->:<o|n<k>|c|?>:<wp>:<consumer>/<consumer>…,…`
        ` I=<k>:<outputs>:<call inputs>:<call outputs>:<startup outputs>;… out=<cpu outputs>`
        ` Q=<pass>:<ifm|->:<ifm2|->:<ofm|->:<reads>;… D=<pass>:<fused object|->,…`        or `err:<kind>`
  consumer = `p<pass>` | `c<island>` | `N`

`inplacespec N=<reads>|<writes>;… outs=<v>/… pers=<v>/… S=<op>:<ifm>:<ofm>:<copy>,…`
answer: `unsafe=<n> <op>:<ifm>:<ofm> … | clobbers=<n> <op>:<written>:<destroyed> …`

`memonly <consumers of the IFM> <IFM produced on the CPU 0|1>`      answer: `memcpy` | `bypass`
-/
namespace VelaVerif.Handlers.InPlace
open VelaVerif VelaVerif.Handlers VelaVerif.InPlace

def kv (toks : List String) (key : String) : Option String :=
  toks.findSome? fun t => if t.startsWith (key ++ "=") then some (t.drop (key.length + 1)).toString else none

def splitNE (s : String) (sep : String) : List String := (s.splitOn sep).filter (· ≠ "")

def parseBool (s : String) : Option Bool :=
  if s == "1" then some true else if s == "0" then some false else none

def nats (s : String) : Option (List Nat) := parseNats (splitNE s "/")
def shape (s : String) : Option (List Nat) := parseNats (splitNE s ".")
def optNat (s : String) : Option (Option Nat) := if s == "-" then some none else (parseNat? s).map some

def parseTens (s : String) : Option TDesc :=
  match s.splitOn ":" with
  | [eq, c, ops] => do some { eq := ← parseNat? eq, isConst := ← parseBool c, ops := ← nats ops }
  | _ => none

def parsePlace (s : String) : Option Place :=
  if s == "C" then some .cpu else if s == "N" then some .npu else if s == "M0" then some (.memOnly false)
  else if s == "M1" then some (.memOnly true) else if s == "S" then some .startup else none

def parsePass (s : String) : Option PDesc :=
  match s.splitOn "|" with
  | [pl, rd, ins, outs, ifm, ifm2, ofm] => do
    some { place := ← parsePlace pl,
           pass := { reads := ← nats rd, inputs := ← nats ins, outputs := ← nats outs,
                     ifm := ← optNat ifm, ifm2 := ← optNat ifm2, ofm := ← optNat ofm } }
  | _ => none

def parsePurpose (s : String) : Option LiveRange.Purpose :=
  if s == "W" then some .weights else if s == "F" then some .fsBias else if s == "V" then some .virtual_
  else if s == "O" then some .other else none

def parseAttr (s : String) : Option TAttr :=
  match s.splitOn "." with
  | [pu, it, sz, se, fmt, dt, var] => do
    some { purpose := ← parsePurpose pu, inTarget := ← parseBool it, size := ← parseNat? sz, shapeEmpty := ← parseBool se,
           format := ← parseNat? fmt, dtype := ← parseNat? dt, isVariable := ← parseBool var }
  | _ => none

def parseFuse (s : String) : Option (Nat × FuseDesc) :=
  match s.splitOn "|" with
  | [q, ew, vw, mc, ofs, ifs, if2s, ao, ai, ai2] => do
    some (← parseNat? q,
          { elementwise := ← parseBool ew, varWrite := ← parseBool vw, memcpy := ← parseBool mc,
            ofmShape := ← shape ofs, ifmShape := ← shape ifs, ifm2Shape := ← shape if2s,
            ofmAttr := ← parseAttr ao, ifmAttr := ← parseAttr ai, ifm2Attr := ← parseAttr ai2 })
  | _ => none

def parseRules (s : String) : Option LiveRange.FuseRules :=
  match s.toList with
  | [a, b, c] => do
    some { memcpyWp := ← parseBool (String.singleton a), elementwiseVar := ← parseBool (String.singleton b),
           memcpyVar := ← parseBool (String.singleton c) }
  | _ => none

def errStr : Err → String
  | .index => "err:index"
  | .assert_ => "err:assert"
  | .attribute => "err:attribute"

def slash (l : List Nat) : String := "/".intercalate (l.map toString)
def optStr : Option Nat → String
  | some x => toString x
  | none => "-"

def kindStr (n0 : Nat) (s : St) (x : Nat) : String :=
  if x < n0 then "o" else
  match s.ops x with
  | OpRef.startup k :: _ => s!"n{k}"
  | OpRef.call _ :: _ => "c"
  | _ => "?"

def consStr : Option OpRef → String
  | some (.pass q) => s!"p{q}"
  | some (.call k) => s!"c{k}"
  | some (.startup k) => s!"s{k}"
  | none => "N"

open VelaVerif.InPlaceSpec in
def parseNode (s : String) : Option Node :=
  match s.splitOn "|" with
  | [rd, wr] => do some { reads := ← nats rd, writes := ← nats wr }
  | _ => none

open VelaVerif.InPlaceSpec in
def parseShare (s : String) : Option Share :=
  match s.splitOn ":" with
  | [op, a, b, c] => do some { op := ← parseNat? op, ifm := ← parseNat? a, ofm := ← parseNat? b, copy := ← parseBool c }
  | _ => none

def handle : List String → Option String
  | "inplace" :: toks => do
    let ru ← parseRules (← kv toks "ru")
    let g : Graph := {
      tens := ← (splitNE ((kv toks "T").getD "") ",").mapM parseTens,
      passes := ← (splitNE ((kv toks "P").getD "") ";").mapM parsePass,
      outputs := ← nats ((kv toks "outs").getD "") }
    let fs ← (splitNE ((kv toks "F").getD "") ";").mapM parseFuse
    match extract g with
    | .error e => some (errStr e)
    | .ok s =>
      let n0 := g.tens.length
      let np := g.passes.length
      let xs := ",".intercalate ((List.range s.n).map fun x =>
        s!"{x}:{optStr (s.src x)}:{kindStr n0 s x}:{boolStr (s.wp x)}:" ++ "/".intercalate ((finalCons g s x).map consStr))
      let isl := ";".intercalate (((List.range (g.nIslands + 1)).drop 1).map fun k =>
        let i := s.island k
        s!"{k}:{slash i.outputs}:{slash i.callInputs}:{slash i.callOutputs}:{slash i.startupOutputs}")
      let qs := ";".intercalate (((List.range np).filter fun q => g.sg q != 0).map fun q =>
        let p := s.pass q
        s!"{q}:{optStr p.ifm}:{optStr p.ifm2}:{optStr p.ofm}:{slash p.reads}")
      let ds := ",".intercalate (fs.map fun (q, d) => s!"{q}:{optStr (fused ru g s d q)}")
      some (s!"ok wf={boolStr g.wf} multiple={boolStr s.usedMultiple} n={s.n} sg={slash g.sgList} X={xs} I={isl} " ++
            s!"out={slash s.cpuOut} Q={qs} D={ds}")
  | "inplacespec" :: toks => do
    let p : InPlaceSpec.Prog := {
      nodes := ← (splitNE ((kv toks "N").getD "") ";").mapM parseNode,
      outputs := ← nats ((kv toks "outs").getD ""),
      persistent := ← nats ((kv toks "pers").getD "") }
    let shares ← (splitNE ((kv toks "S").getD "") ",").mapM parseShare
    let u := InPlaceSpec.unsafeShares p shares
    let c := InPlaceSpec.clobbers p shares
    some (s!"unsafe={u.length} " ++ " ".intercalate ((u.take 6).map fun s => s!"{s.op}:{s.ifm}:{s.ofm}") ++
          s!" | clobbers={c.length} " ++ " ".intercalate ((c.take 6).map fun (i, w, t) => s!"{i}:{w}:{t}"))
  | ["memonly", n, c] => do
    match memOnlyFate (← parseNat? n) (← parseBool c) with
    | .memcpy => some "memcpy"
    | .bypass => some "bypass"
  | _ => none

end VelaVerif.Handlers.InPlace
