import VelaVerif.Model.TensorAddr
import VelaVerif.Spec.TensorBounds
import VelaVerif.Handlers.Util
/-!
Line protocol for the address-generation link of C02 (`Model/TensorAddr.lean`, `Spec/TensorBounds.lean`).

A tensor is written `T <rank> shape… <rank> storage_shape… qn qh qw qc <fmt> <elem> <align> <purpose> <standard> <linear> <address>`
(fmt: 0 NHWC, 1 NHCWB16, 2 other; purpose: 0 feature map, 1 weights, 2 other). An absent optional group is `-`.

* `ta mk <rank> shape… <elem> <align> <fmt> <linear> <purpose> <address> <- | x a | y a | xy a b>` → the tensor after
  `set_format` (and `set_new_sub_purpose`), in the `T …` form, followed by `| <storage_size>`
* `ta size T…` · `ta strides T… <op>` · `ta afc T… <op> <strides> <top> <k> coord…` ·
  `ta arb T… <op> <strides> <start> <end>` · `ta cfm T… <op> <start> <end> <offsets> <mult> <transposed>`
* Spec checkers on real values: `ta_inside addr size e a…`, `ta_disjoint e a…`,
  `ta_tiles <fm> expected…`, `ta_fpinside <fm> addr size` with
  `<fm>` = `nhcwb16 elem h0 h1 w0 strideX strideY strideC b0 b1 b2 b3 height width depth`
* `alloccheck allocs=<B,ifmA,ifmS,ifm2A,ifm2S,ofmA,ofmS | D>;… words=<w>,…`: decode the stream, and for every block
  operation check `footprintInsideAllocation` of IFM / IFM2 / OFM against the allocation of its tensor.
-/
namespace VelaVerif.Handlers.TensorAddr
open VelaVerif VelaVerif.Handlers VelaVerif.TensorAddr VelaVerif.TensorBounds VelaVerif.Decode VelaVerif.Footprint

def fmtOf : Nat → Option Fmt
  | 0 => some .nhwc | 1 => some .nhcwb16 | 2 => some .other | _ => none
def fmtNo : Fmt → Nat
  | .nhwc => 0 | .nhcwb16 => 1 | .other => 2
def purposeOf : Nat → Option Purpose
  | 0 => some .featureMap | 1 => some .weights | 2 => some .other | _ => none
def purposeNo : Purpose → Nat
  | .featureMap => 0 | .weights => 1 | .other => 2

/-- `<k> v1 … vk` -/
def takeList (toks : List String) : Option (List Nat × List String) := do
  match toks with
  | k :: rest =>
    let k ← parseNat? k
    if rest.length < k then none
    some (← parseNats (rest.take k), rest.drop k)
  | _ => none

def takeNats (n : Nat) (toks : List String) : Option (List Nat × List String) :=
  if toks.length < n then none else do some (← parseNats (toks.take n), toks.drop n)

def takeS4 (toks : List String) : Option (S4 × List String) := do
  let (l, rest) ← takeNats 4 toks
  match l with
  | [n, h, w, c] => some (⟨n, h, w, c⟩, rest)
  | _ => none

def takeOptS4 : List String → Option (Option S4 × List String)
  | "-" :: rest => some (none, rest)
  | toks => do let (s, rest) ← takeS4 toks; some (some s, rest)

def takeStrides (toks : List String) : Option (Strides × List String) := do
  let (l, rest) ← takeNats 5 toks
  match l with
  | [a, b, c, d, e] => some (⟨a, b, c, d, e⟩, rest)
  | _ => none

def takeOptStrides : List String → Option (Option Strides × List String)
  | "-" :: rest => some (none, rest)
  | toks => do let (s, rest) ← takeStrides toks; some (some s, rest)

def takeTens : List String → Option (Tens × List String)
  | "T" :: toks => do
    let (shape, toks) ← takeList toks
    let (stor, toks) ← takeList toks
    let (q, toks) ← takeS4 toks
    let (l, toks) ← takeNats 7 toks
    match l with
    | [fmt, elem, align, purpose, standard, linear, addr] =>
      some ({ shape := shape, storageShape := stor, quantum := q, fmt := ← fmtOf fmt, elemSize := elem, alignment := align,
              purpose := ← purposeOf purpose, standard := standard != 0, linear := linear != 0, address := addr }, toks)
    | _ => none
  | _ => none

def showList (l : List Nat) : String := joinNats (l.length :: l)

def showTens (t : Tens) : String :=
  s!"T {showList t.shape} {showList t.storageShape} {t.quantum.n} {t.quantum.h} {t.quantum.w} {t.quantum.c} " ++
  s!"{fmtNo t.fmt} {t.elemSize} {t.alignment} {purposeNo t.purpose} {boolStr t.standard} {boolStr t.linear} {t.address}"

def showE {α : Type} (f : α → String) : Except Err α → String
  | .ok a => f a
  | .error e => e.str

def showStrides (s : Strides) : String := s!"{s.sN} {s.sC} {s.sH} {s.sW} {s.sE}"
def showTiles (b : TileBox) : String := s!"{b.height0} {b.height1} {b.width0} {b.a0} {b.a1} {b.a2} {b.a3}"

def takeRolling : List String → Option (Option Rolling)
  | ["-"] => some none
  | ["x", a] => do some (some (.x (← parseNat? a)))
  | ["y", a] => do some (some (.y (← parseNat? a)))
  | ["xy", a, b] => do some (some (.xy (← parseNat? a) (← parseNat? b)))
  | _ => none

def mkTensor (shape : List Nat) (elem align : Nat) (fmt : Fmt) (linear : Bool) (purpose : Purpose) (addr : Nat)
    (roll : Option Rolling) : Except Err Tens :=
  let t0 : Tens := { Tens.new shape elem with alignment := align, linear := linear, purpose := purpose, address := addr }
  match setFormat t0 fmt with
  | .error e => .error e
  | .ok t1 => match roll with
    | none => .ok t1
    | some r => setRolling t1 r

def takeFM (toks : List String) : Option (FM × List String) := do
  let (l, rest) ← takeNats 15 toks
  match l with
  | [b16, e, h0, h1, w0, sx, sy, sc, b0, b1, b2, b3, h, w, d] =>
    some ({ region := 0, base := [b0, b1, b2, b3], height0 := h0, height1 := h1, width0 := w0, strideX := sx, strideY := sy,
            strideC := sc, height := h, width := w, depth := d, elemBytes := e, signed := false, nhcwb16 := b16 != 0,
            zeroPoint := 0 }, rest)
  | _ => none

def kv (toks : List String) (key : String) : Option String :=
  toks.findSome? fun t => if t.startsWith (key ++ "=") then some (t.drop (key.length + 1)).toString else none

def splitNonEmpty (s : String) (sep : String) : List String := (s.splitOn sep).filter (· ≠ "")

/-- allocation record of one operation: `none` for a DMA, else (addr, size) for IFM, IFM2, OFM -/
def parseAlloc (s : String) : Option (Option (List (Nat × Nat))) :=
  match s.splitOn "," with
  | ["D"] => some none
  | ["B", a, b, c, d, e, f] => do
    some (some [(← parseNat? a, ← parseNat? b), (← parseNat? c, ← parseNat? d), (← parseNat? e, ← parseNat? f)])
  | _ => none

def checkFm (idx : Nat) (what : String) (fm : FM) (alloc : Nat × Nat) : List String :=
  if footprintInsideAllocation fm alloc.1 alloc.2 then [] else
  match firstOutside (fmPieces fm 0 0 0) alloc.1 alloc.2 with
  | some p => [s!"op {idx} {what}: bytes [{p.addr},{p.addr + p.len}) outside the tensor's allocation [{alloc.1},{alloc.1 + alloc.2})"]
  | none => [s!"op {idx} {what}: outside allocation"]

def allocProblems (ops : List DecOp) (allocs : List (Option (List (Nat × Nat)))) : List String :=
  ((ops.zip allocs).zipIdx).flatMap fun ((op, al), idx) =>
    match op, al with
    | .block b, some [ai, ai2, ao] =>
      checkFm idx "IFM" b.ifm ai ++
      (match b.ifm2 with | some f => checkFm idx "IFM2" f ai2 | none => []) ++
      checkFm idx "OFM" b.ofm ao
    | .dma _, none => []
    | _, _ => [s!"op {idx}: allocation record does not match the operation kind"]

def handle : List String → Option String
  | "ta" :: "mk" :: toks => do
    let (shape, toks) ← takeList toks
    let (l, toks) ← takeNats 6 toks
    match l with
    | [elem, align, fmt, linear, purpose, addr] =>
      let roll ← takeRolling toks
      match mkTensor shape elem align (← fmtOf fmt) (linear != 0) (← purposeOf purpose) addr roll with
      | .error e => some e.str
      | .ok t => some (showTens t ++ " | " ++ showE toString (storageSize t))
    | _ => none
  | "ta" :: "size" :: toks => do
    let (t, _) ← takeTens toks
    some (showE toString (storageSize t))
  | "ta" :: "strides" :: toks => do
    let (t, toks) ← takeTens toks
    let (op, _) ← takeOptS4 toks
    some (showE showStrides (getStrides t op))
  | "ta" :: "afc" :: toks => do
    let (t, toks) ← takeTens toks
    let (op, toks) ← takeOptS4 toks
    let (st, toks) ← takeOptStrides toks
    match toks with
    | top :: k :: rest =>
      let k ← parseNat? k
      if rest.length ≠ k then none
      let coord ← parseInts rest
      some (showE toString (addressForCoordinate t coord st op (top != "0")))
    | _ => none
  | "ta" :: "arb" :: toks => do
    let (t, toks) ← takeTens toks
    let (op, toks) ← takeS4 toks
    let (st, toks) ← takeStrides toks
    let (s, toks) ← takeS4 toks
    let (e, _) ← takeS4 toks
    some (showE showTiles (addressesForRollingBuffer t s e st op))
  | "ta" :: "cfm" :: toks => do
    let (t, toks) ← takeTens toks
    let (op, toks) ← takeS4 toks
    let (s, toks) ← takeS4 toks
    let (e, toks) ← takeS4 toks
    let (offs, toks) ← takeNats 4 toks
    let (mult, toks) ← (match toks with
      | "-" :: rest => some (none, rest)
      | _ => do
        let (m, rest) ← takeNats 3 toks
        match m with | [a, b, c] => some (some (a, b, c), rest) | _ => none : Option (Option (Nat × Nat × Nat) × List String))
    match toks with
    | [tr] =>
      some (showE (fun r => s!"{r.strideH} {r.strideW} {r.strideD} {showTiles r.tiles}")
        (createFeatureMap t s e op offs mult (tr != "0")))
    | _ => none
  | "ta_inside" :: addr :: size :: e :: rest => do
    some (boolStr (elementsInside (← parseNat? addr) (← parseNat? size) (← parseNat? e) (← parseNats rest)))
  | "ta_disjoint" :: e :: rest => do
    some (boolStr (elementsDisjoint (← parseNat? e) (← parseNats rest)))
  | "ta_tiles" :: toks => do
    let (fm, rest) ← takeFM toks
    some (boolStr (tilesMatch fm (← parseNats rest)))
  | "ta_fpinside" :: toks => do
    let (fm, rest) ← takeFM toks
    match rest with
    | [a, s] => some (boolStr (footprintInsideAllocation fm (← parseNat? a) (← parseNat? s)))
    | _ => none
  | "alloccheck" :: toks => do
    let allocs ← (splitNonEmpty ((kv toks "allocs").getD "") ";").mapM parseAlloc
    let words ← parseNats (splitNonEmpty (← kv toks "words") ",")
    match decodeStream words with
    | .error e => some s!"decode={e.replace " " "_"}"
    | .ok st =>
      let ops := st.ops.map (·.op)
      if allocs.length ≠ ops.length then some s!"decode=ok | ops={ops.length} | allocs-mismatch {allocs.length}"
      else
        let p := allocProblems ops allocs
        some s!"decode=ok | ops={ops.length} | alloc={p.length} {" ~ ".intercalate (p.take 3)}"
  | _ => none

end VelaVerif.Handlers.TensorAddr
