import VelaVerif.Spec.Mem
import VelaVerif.Spec.Inference
import VelaVerif.Handlers.Util
/-!
Protocol for whole command streams (pipeline artefacts and extapi streams):

`streamcheck shram=<bytes> lutbase=<addr> ext=<r>:<size>,… init=<region>:<addr>:<len>:<tid>:<delta>,… infos=<info>;… words=<w>,…`

* block info: `B,<ifm>,<ifm2>,<ofm>,lutsrc,lutLen,W,<wsrc>…,S,<ssrc>…` where each feature-map record is the eight fields
  `tid,y0,x0,c0,s0,s1,s2,s3` (`s0..s3`: byte offset the operation adds to the base of tile 0..3)
* dma info:   `D,srcTid,srcDelta,dstTid,dstDelta`

answer: `decode=<ok|error text> | ops=<n> stops=<n> endstop=<0|1> trailing=<n> | bounds=<n> <first messages> | tagged=<n> <first messages>`
-/
namespace VelaVerif.Handlers.Stream
open VelaVerif VelaVerif.Handlers VelaVerif.Decode VelaVerif.Mem

def kv (toks : List String) (key : String) : Option String :=
  toks.findSome? fun t => if t.startsWith (key ++ "=") then some (t.drop (key.length + 1)).toString else none

def splitNonEmpty (s : String) (sep : String) : List String := (s.splitOn sep).filter (· ≠ "")

def parseFmInfo : List String → Option (Mem.FmInfo × List String)
  | t :: y :: x :: c :: s0 :: s1 :: s2 :: s3 :: rest => do
    some (⟨← parseNat? t, ← parseNat? y, ← parseNat? x, ← parseNat? c,
           [← parseInt? s0, ← parseInt? s1, ← parseInt? s2, ← parseInt? s3]⟩, rest)
  | _ => none

def parseInfo (s : String) : Option Mem.Info :=
  match (s.splitOn ",").filter (· ≠ "") with
  | "B" :: rest => do
    let (ifm, rest) ← parseFmInfo rest
    let (ifm2, rest) ← parseFmInfo rest
    let (ofm, rest) ← parseFmInfo rest
    match rest with
    | lutsrc :: lutLen :: "W" :: rest =>
      let ws := rest.takeWhile (· ≠ "S")
      let ss := (rest.dropWhile (· ≠ "S")).drop 1
      some (.block { ifm := ifm, ifm2 := ifm2, ofm := ofm, wsrc := ← parseInts ws, ssrc := ← parseInts ss,
                     lutsrc := ← parseInt? lutsrc, lutLen := ← parseNat? lutLen })
    | _ => none
  | ["D", st, sd, dt, dd] => do
    some (.dma { srcTid := ← parseNat? st, srcDelta := ← parseInt? sd, dstTid := ← parseNat? dt, dstDelta := ← parseInt? dd })
  | ["D", st, sd, dt, dd, v] => do
    some (.dma { srcTid := ← parseNat? st, srcDelta := ← parseInt? sd, dstTid := ← parseNat? dt, dstDelta := ← parseInt? dd,
                 valid := ← parseNat? v })
  | _ => none

def parseExt (s : String) : Option (List (Nat × Nat)) :=
  (splitNonEmpty s ",").mapM fun p =>
    match p.splitOn ":" with
    | [r, sz] => do some (← parseNat? r, ← parseNat? sz)
    | _ => none

def parseInit (s : String) : Option Mem.Memory :=
  (splitNonEmpty s ",").foldlM (fun (m : Mem.Memory) p =>
    match p.splitOn ":" with
    | [r, a, l, t, d] => do
      let r ← parseNat? r; let a ← parseNat? a; let l ← parseNat? l; let t ← parseNat? t; let d ← parseInt? d
      some (m.setMap r (IMap.write (m.getMap r) a (a + l) t d))
    | _ => none) []


/-- `T:region:addr:len:tid:delta` records separated by `,` -/
def parseTagged (s : String) : Option (List Inference.Tagged) :=
  (splitNonEmpty s ",").mapM fun p =>
    match p.splitOn ":" with
    | [r, a, l, t, d] => do
      some ⟨← parseNat? r, ← parseNat? a, ← parseNat? l, ← parseNat? t, ← parseInt? d⟩
    | _ => none

/-- one step token: `cpu~<name>~<reads>~<writes>` or `npu~<infos ;-separated>~<words ,-separated>` -/
def parseStep (s : String) : Option (Except String Inference.Step) :=
  match s.splitOn "~" with
  | ["cpu", name, rd, wr] => do
    some (.ok (.cpu name (← parseTagged rd) (← parseTagged wr)))
  | ["npu", infos, words] => do
    let infos ← (splitNonEmpty infos ";").mapM parseInfo
    let words ← parseNats (splitNonEmpty words ",")
    match decodeStream words with
    | .error e => some (.error e)
    | .ok st =>
      let ops := st.ops.map (·.op)
      if infos.length ≠ ops.length then some (.error "infos-mismatch") else some (.ok (.npu ops infos))
  | _ => none

def firstFew (l : List String) (n : Nat := 3) : String := " ~ ".intercalate (l.take n)

def handle : List String → Option String
  | "streamcheck" :: toks => do
    let shram ← parseNat? (← kv toks "shram")
    let lutbase ← parseNat? (← kv toks "lutbase")
    let ext ← parseExt (← kv toks "ext")
    let init ← parseInit ((kv toks "init").getD "")
    let infos ← (splitNonEmpty ((kv toks "infos").getD "") ";").mapM parseInfo
    let words ← parseNats (splitNonEmpty (← kv toks "words") ",")
    match decodeStream words with
    | .error e => some s!"decode={e.replace " " "_"}"
    | .ok st =>
      let ops := st.ops.map (·.op)
      let env : Mem.Env := { extents := ext, shramBytes := shram, lutBase := lutbase }
      if infos.length ≠ ops.length then
        some s!"decode=ok | ops={ops.length} stops={st.stops} endstop={boolStr st.endsWithStop} trailing={st.trailing} | infos-mismatch {infos.length}"
      else
        let b := checkBounds env ops infos
        let t := execTagged env init ops infos ++ constSourceProblems env ops infos ++ lutSideProblems ops infos
        some s!"decode=ok | ops={ops.length} stops={st.stops} endstop={boolStr st.endsWithStop} trailing={st.trailing} | bounds={b.length} {firstFew b} | tagged={t.length} {firstFew t}"
  | "inferencecheck" :: toks => do
    -- whole-inference tagged execution: `inferencecheck shram= lutbase= ext= init= step=… step=…`
    let shram ← parseNat? (← kv toks "shram")
    let lutbase ← parseNat? (← kv toks "lutbase")
    let ext ← parseExt (← kv toks "ext")
    let init ← parseInit ((kv toks "init").getD "")
    let stepToks := toks.filterMap fun t => if t.startsWith "step=" then some (t.drop 5).toString else none
    let parsed ← stepToks.mapM parseStep
    match parsed.mapM id with
    | .error e => some s!"decode={e.replace " " "_"}"
    | .ok steps =>
      let env : Mem.Env := { extents := ext, shramBytes := shram, lutBase := lutbase }
      let t := Inference.execInference env init steps
      some s!"decode=ok | steps={steps.length} | tagged={t.length} {firstFew t}"
  | ["fastextent", ext, cache] => do
    -- C02, Dedicated-SRAM clause: published fast-scratch extent never exceeds the arena cache size
    some (boolStr (decide ((← parseNat? ext) ≤ (← parseNat? cache))))
  | _ => none

end VelaVerif.Handlers.Stream
