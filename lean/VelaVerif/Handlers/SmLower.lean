import VelaVerif.Spec.SoftmaxLower
import VelaVerif.Handlers.Sem
/-!
Protocol for the SOFTMAX lowering correspondence of C01 (one request per compiled network; the tokens are those of `semcheck`,
of which `lutbase`, `shram`, `st`, `so`, `flash`, `prog`, `wt` are read):

`smlower lutbase=… shram=… st=… so=… … flash=<hex> prog=<programs> wt=<weights> [dump=1]`

For every 8-bit SOFTMAX of the source graph the parameters `P` are read off its tensors (input zero point, numeric range of the
type, output zero point) and the model rows are `(lower P (graph8 P)).map NStep.row`.  Every program (command stream) is decoded
(`NpuSem.opsWithRegs`), its block operations are grouped into passes and every SOFTMAX segment (`SoftmaxLower.segmentStarts`) is
turned into 31 rows (`segmentRows`).  A segment agrees when its rows equal the model rows of one of the source SOFTMAX operators.

answer: `ok softmax=<n> segments=<k> passes=<p> stripes=<s> rows=<r> bad=<b> first=<segment>/<pass>/<column>/<model>/<stream> verdict=<pass|fail>`
        (`passes`: passes compared, `stripes`: block operations they consist of, `rows` = passes of agreeing segments)
        `err:<text>`
-/
namespace VelaVerif.Handlers.SmLower
open VelaVerif VelaVerif.Handlers VelaVerif.Handlers.Sem VelaVerif.TfliteRef VelaVerif.NpuSem VelaVerif.SoftmaxGraph VelaVerif.SoftmaxLower

def rowStr (r : List Int) : String := ",".intercalate (r.map toString)

def run (toks : List String) : Option String := do
  let lutBase ← parseNat? (← kv toks "lutbase")
  let shram ← parseNat? (← kv toks "shram")
  let src ← parseGraph toks "s"
  let flash := hexToBytes ((kv toks "flash").getD "")
  let wt ← (splitNE ((kv toks "wt").getD "") ";").mapM parseWeights
  let progs ← (splitNE ((kv toks "prog").getD "") ";").mapM (parseProgram lutBase shram wt.toArray)
  let dump := (kv toks "dump").isSome
  let params : List Params := src.ops.filterMap fun op =>
    if op.kind = "SOFTMAX" ∧ (src.dtype (outId op 0)).bytes = 1 then
      let dt := src.dtype (inId op 0)
      some { zpIn := src.zp (inId op 0), qmin := dt.lo, qmax := dt.hi, zpOut := src.zp (outId op 0) }
    else none
  let models ← params.mapM modelRows
  let mut segs : List (List (List Int) × Nat) := []
  for p in progs do
    match opsWithRegs p.words with
    | .error e => return s!"err:decode:{e.replace " " "_"}"
    | .ok (ops, _) =>
      let groups := groupsOf flash ops
      for st in segmentStarts groups do
        let stripes := (List.range 31).foldl (fun acc k => acc + ((groups[st + k]?).map (·.stripes)).getD 0) 0
        segs := segs ++ [(segmentRows groups st, stripes)]
  let mut bad := 0
  let mut rows := 0
  let mut passes := 0
  let mut stripes := 0
  let mut first := "-"
  let mut out := ""
  let mut i := 0
  for (seg, nstripes) in segs do
    passes := passes + seg.length
    stripes := stripes + nstripes
    if models.contains seg then rows := rows + seg.length
    else
      bad := bad + 1
      if first = "-" then
        let want := (models[i]?).getD (models.headD [])
        match firstDiff seg want with
        | some (r, c) => first := s!"{i}/{r}/{c}/{((want.getD r []).getD c 0)}/{((seg.getD r []).getD c 0)}"
        | none => first := s!"{i}/-/-/-/-"
    if dump then
      out := out ++ s!" | segment {i}: " ++ ";".intercalate (seg.map rowStr)
    i := i + 1
  if dump then
    out := out ++ " | model: " ++ " || ".intercalate (models.map fun m => ";".intercalate (m.map rowStr))
  some (s!"ok softmax={params.length} segments={segs.length} passes={passes} stripes={stripes} rows={rows} bad={bad} first={first} "
        ++ s!"verdict={if bad = 0 then "pass" else "fail"}" ++ out)

def handle : List String → Option String
  | "smlower" :: toks => some ((run toks).getD "err:harness:malformed_request")
  | _ => none

end VelaVerif.Handlers.SmLower
