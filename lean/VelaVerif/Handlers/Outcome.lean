import VelaVerif.Spec.Outcome
import VelaVerif.Handlers.Util
namespace VelaVerif.Handlers.Outcome
open VelaVerif.Handlers VelaVerif.Outcome

/-- `outcome <returned s|velaerror|sysexit c|exception> <wrote 0/1> <printedError 0/1>` → 1/0 -/
def handle : List String → Option String
  | ["outcome", "returned", s, w, p] => do
    some (boolStr (acceptable ⟨.returned (← parseInt? s), w == "1", p == "1"⟩))
  | ["outcome", "velaerror", w, p] => some (boolStr (acceptable ⟨.velaError, w == "1", p == "1"⟩))
  | ["outcome", "sysexit", c, w, p] => do some (boolStr (acceptable ⟨.sysExit (← parseInt? c), w == "1", p == "1"⟩))
  | ["outcome", "exception", w, p] => some (boolStr (acceptable ⟨.exception, w == "1", p == "1"⟩))
  | _ => none

end VelaVerif.Handlers.Outcome
