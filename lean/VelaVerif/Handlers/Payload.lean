import VelaVerif.Model.Payload
import VelaVerif.Handlers.Util
namespace VelaVerif.Handlers.Payload
open VelaVerif VelaVerif.Handlers VelaVerif.Payload

def errStr : Err → String
  | .vela => "err:vela"
  | .pack => "err:pack"

/-- `payload <accIdx> w0 w1 …` → hex bytes of the model payload
    `payloadhdr <accIdx> <have> <len>` → header words for a stream of `len` words
    `payloadparse <accIdx> <hexless: byte list>` → spec parse + verdict against given words (by count prefix)
-/
def handle : List String → Option String
  | "payload" :: acc :: ws => do
    let i ← parseNat? acc
    let a ← Gen.accelerators[i]?
    let ws ← parseNats ws
    match createDriverPayload a ws with
    | .ok bs => some ("ok " ++ hexBytes bs)
    | .error e => some (errStr e)
  | ["payloadhdr", have_, len] => do
    let h ← parseNat? have_
    let n ← parseNat? len
    if n ≥ 2 ^ 24 then some "err:vela" else
    some ("ok " ++ joinNats (cmdStreamHeader h n))
  | "payloadcheck" :: acc :: nw :: rest => do
    -- rest = nw expected words followed by payload bytes
    let i ← parseNat? acc
    let a ← Gen.accelerators[i]?
    let n ← parseNat? nw
    let xs ← parseNats rest
    let words := xs.take n
    let bytes := xs.drop n
    match parsePayload bytes with
    | none => some "parse-fail"
    | some p => some (s!"parsed nops={p.nops} declared={p.declared} off={p.cmdOffsetBytes} ok={boolStr (payloadOk a p words)}")
  | "payloadhdrcheck" :: have_ :: len :: ws => do
    -- Spec on the words a header emitter appended: NOPs then one CmdStream tag declaring `len`,
    -- and the word after them is 16-byte aligned
    let h ← parseNat? have_
    let n ← parseNat? len
    let ws ← parseNats ws
    let r := skipNops ws
    match r.2 with
    | [tag] => some (boolStr (tagId tag == Gen.daCmdStream && declaredLength tag == n && (4 * (h + ws.length)) % 16 == 0))
    | _ => some "0"
  | _ => none

end VelaVerif.Handlers.Payload
