import VelaVerif.Spec.StridedSliceRef
import VelaVerif.Handlers.Util
/-!
`ssref shape=<d>,… begin=<i>,… end=<i>,… strides=<i>,… masks=<begin>,<end>,<ellipsis>,<new_axis>,<shrink>[,<offset>]`
  answer `ok out=<d>,… in=<d>,… idx=<flat input index>,…` (reference resolution and gather order) or `err:<text>`
`sswin <same fields> vb=<i>,… ve=<i>,…`   (the per-input-dimension read window a compiler derived: begin / end offsets)
  answer `1` when it is the window of the reference, `0 expected=<b>:<e>,…` otherwise, `none` when the reference has no
  unit-stride non-empty window for the specification
-/
namespace VelaVerif.Handlers.StridedSlice
open VelaVerif VelaVerif.Handlers VelaVerif.StridedSliceRef

def kv (toks : List String) (key : String) : Option String :=
  toks.findSome? fun t => if t.startsWith (key ++ "=") then some (t.drop (key.length + 1)).toString else none

def splitNE (s : String) (sep : String) : List String := (s.splitOn sep).filter (· ≠ "")

def ints (toks : List String) (key : String) : Option (List Int) := do parseInts (splitNE (← kv toks key) ",")
def nats (toks : List String) (key : String) : Option (List Nat) := do parseNats (splitNE (← kv toks key) ",")

def spec (toks : List String) : Option (Spec × List Nat) := do
  let m ← nats toks "masks"
  some ({ begin := ← ints toks "begin", end_ := ← ints toks "end", strides := ← ints toks "strides",
          beginMask := m.getD 0 0, endMask := m.getD 1 0, ellipsisMask := m.getD 2 0, newAxisMask := m.getD 3 0,
          shrinkAxisMask := m.getD 4 0, offset := m.getD 5 0 ≠ 0 }, ← nats toks "shape")

def commas (l : List String) : String := ",".intercalate l

def handle : List String → Option String
  | "ssref" :: toks => do
    let (s, shape) ← spec toks
    match resolve s shape with
    | .error e => some s!"err:{e.replace " " "_"}"
    | .ok r => some s!"ok out={commas (r.outShape.map toString)} in={commas (r.inShape.map toString)} idx={commas ((gather r).map toString)}"
  | "sswin" :: toks => do
    let (s, shape) ← spec toks
    let vb ← ints toks "vb"
    let ve ← ints toks "ve"
    match inputWindow s shape with
    | none => some "none"
    | some w =>
      if w == vb.zip ve then some "1"
      else some s!"0 expected={commas (w.map fun (b, e) => s!"{b}:{e}")}"
  | _ => none

end VelaVerif.Handlers.StridedSlice
