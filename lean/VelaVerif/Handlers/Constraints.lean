import VelaVerif.Spec.Constraints
import VelaVerif.Handlers.Util
/-!
Line protocol for C16.

    c16 <what> type=<Op> act=<Op|-> attrs=<k>:<v>;…|- in=<tens>|…|- out=<tens>|…|-

`<what>`: `sup` (is_operator_supported), `sem` (is_operator_semantic_valid), `run` (semantic, then
supported: the value of `run_on_npu` after the pre-processing pass), `doc` (the Spec: what the
generated report says about this operator).
`<tens>`: `~` (None) or `shape/dtype,bits,flags,elembytes/quant/vals/prod`
  shape `s` (scalar) or dims joined by `x` (`N` = None);  quant `n` or `scales;zps;mm` with `N` for a
  None component and comma separated integers otherwise (scales as binary32 bit patterns);
  vals `n` | `b` | `v<ints>`;  prod `0` | `c` | `o`.
`<v>`: `i<int>` `b0|b1` `l<ints>` `s<text>` `f<binary64 bits>` `n`.

Answers: `npu` | `cpu <constraint>` | `raised <constraint> <what>`;  for `doc`:
`npu` | `cpu <bullet index>` | `raised …` | `silent` (operator not in the report).
-/
namespace VelaVerif.Handlers.Constraints
open VelaVerif VelaVerif.Handlers VelaVerif.Constraints VelaVerif.Gen.Constraints

def splitOn1 (s : String) (sep : String) : List String := s.splitOn sep

def parseIntList (s : String) : Option (List Int) :=
  if s.isEmpty then some [] else (s.splitOn ",").mapM parseInt?
def parseNatList (s : String) : Option (List Nat) :=
  if s.isEmpty then some [] else (s.splitOn ",").mapM parseNat?

def parseShape (s : String) : Option (List (Option Int)) :=
  if s == "s" then some [] else
  (s.splitOn "x").mapM fun d => if d == "N" then some none else (parseInt? d).map some

def parseQuant (s : String) : Option (Option Quant) :=
  if s == "n" then some none else
  match s.splitOn ";" with
  | [sc, zp, mm] => do
    let scales ← if sc == "N" then some none else (parseNatList sc).map some
    let zps ← if zp == "N" then some none else (parseIntList zp).map some
    some (some ⟨scales, zps, mm == "1"⟩)
  | _ => none

def parseVals (s : String) : Option Vals :=
  if s == "n" then some .none else if s == "b" then some .big else
  if s.startsWith "v" then (parseIntList (s.drop 1).toString).map .ints else none

def parseProd (s : String) : Option Producer :=
  if s == "0" then some .noOps else if s == "c" then some .constOp else if s == "o" then some .other else none

def parseTens (s : String) : Option (Option Tens) :=
  if s == "~" then some none else
  match s.splitOn "/" with
  | [sh, dt, q, v, p] => do
    let shape ← parseShape sh
    match dt.splitOn "," with
    | [name, bits, flags, eb] =>
      some (some { shape, dtype := toName name, bits := ← parseNat? bits, tflags := ← parseNat? flags,
                   elemBytes := ← parseNat? eb, quant := ← parseQuant q, vals := ← parseVals v, prod := ← parseProd p })
    | _ => none
  | _ => none

def parseTensList (s : String) : Option (List (Option Tens)) :=
  if s == "-" then some [] else (s.splitOn "|").mapM parseTens

def parseAttrV (s : String) : Option AttrV :=
  let rest := (s.drop 1).toString
  if s == "n" then some .none
  else if s.startsWith "i" then (parseInt? rest).map .int
  else if s.startsWith "b" then some (.bool (rest == "1"))
  else if s.startsWith "l" then (parseIntList rest).map .ints
  else if s.startsWith "s" then some (.str (toName rest))
  else if s.startsWith "f" then (parseNat? rest).map .flt
  else none

def parseAttrs (s : String) : Option (List (Name × AttrV)) :=
  if s == "-" then some [] else
  (s.splitOn ";").mapM fun kv =>
    match kv.splitOn ":" with
    | [k, v] => (parseAttrV v).map fun x => (toName k, x)
    | _ => none

def field (toks : List String) (k : String) : Option String :=
  (toks.find? (·.startsWith (k ++ "="))).map fun t => (t.drop (k.length + 1)).toString

def parseDesc (toks : List String) : Option OpDesc := do
  let ty ← field toks "type"
  let act ← field toks "act"
  let attrs ← parseAttrs (← field toks "attrs")
  let ins ← parseTensList (← field toks "in")
  let outs ← parseTensList (← field toks "out")
  some { type := toName ty, act := if act == "-" then none else some (toName act), attrs, inputs := ins, outputs := outs }

def showVerdict : Verdict → String
  | .npu => "npu"
  | .cpu c => "cpu " ++ (if c.isEmpty then "-" else ofName c)
  | .raised c w => "raised " ++ ofName c ++ " " ++ w

def handle : List String → Option String
  | "c16" :: what :: rest =>
    match parseDesc rest with
    | none => some "err:parse"
    | some d =>
      if what == "sup" then some (showVerdict (isOperatorSupported d))
      else if what == "sem" then some (showVerdict (isOperatorSemanticValid d))
      else if what == "run" then some (showVerdict (runOnNpu d))
      else if what == "place" then
        let (v, ms) := placeModel d
        some (showVerdict v ++ " via=" ++ (if ms.isEmpty then "-" else ",".intercalate ms))
      else if what == "doc" then some (Spec.showDocVerdict (Spec.documented Spec.freshReport d))
      else if what == "docc" then
        some (Spec.showDocVerdict (Spec.documented Spec.committedReport d) ++ " ext=" ++ ofName (Spec.extName d))
      else some "err:what"
  | ["c16lists", ty] =>
    some ("sem=" ++ ",".intercalate ((semListed (toName ty)).map ofName) ++ " sup=" ++ ",".intercalate ((supListed (toName ty)).map ofName))
  | ["c16report"] => some (Spec.showProblems (Spec.reportProblems Spec.freshReport))
  | ["c16drift"] => some (Spec.showDrift (Spec.reportDrift Spec.committedReport Spec.freshReport))
  | ["c16knowndrift"] => some (Spec.showDrift Spec.knownDrift)
  | "c16same" :: a :: b :: als =>
    -- alias token: srcName;outName;sameSignature;code.sameShape.sameTypeQuant,…
    let parseLink (t : String) : Option Spec.Link :=
      match t.splitOn "." with
      | [c, s, q] => (parseNat? c).map fun c => ⟨c, s == "1", q == "1"⟩
      | _ => none
    let parseAlias (t : String) : Option Spec.Alias :=
      match t.splitOn ";" with
      | [x, y, sg, ch] => do
        let links ← if ch == "-" then some [] else (ch.splitOn ",").mapM parseLink
        some ⟨x, y, sg == "1", links⟩
      | _ => none
    -- records of 9 fields carry the operand and result descriptions: `shape;type;scales;zero points;qdim;c|d` joined by `,`
    let ints (t : String) : Option (List Int) := if t == "" then some [] else (t.splitOn "/").mapM String.toInt?
    let nats (t : String) : Option (List Nat) := if t == "" then some [] else (t.splitOn "/").mapM parseNat?
    let parseDesc (t : String) : Option (Option Spec.TensorDesc) :=
      if t == "~" then some none else
      match t.splitOn ";" with
      | [sh, ty, sc, zp, qd, k] => do
        let sh ← ints sh
        let ty ← parseNat? ty
        let sc ← nats sc
        let zp ← ints zp
        let qd ← qd.toInt?
        some (some ⟨sh, ty, sc, zp, qd, k == "c"⟩)
      | _ => none
    let parseDescs (t : String) : Option (List (Option Spec.TensorDesc)) := if t == "-" then some [] else (t.splitOn ",").mapM parseDesc
    match als.mapM parseAlias with
    | some l =>
      match a.splitOn "|", b.splitOn "|" with
      | [c, cc, ot, f, co, i, o, si, so], [c', cc', ot', f', co', i', o', si', so'] =>
        match parseDescs si, parseDescs so, parseDescs si', parseDescs so' with
        | some si, some so, some si', some so' =>
          some (boolStr (Spec.unchangedOnCpuDesc [c, cc, ot, f, co, i, o] [c', cc', ot', f', co', i', o'] l si so si' so'))
        | _, _, _, _ => some "err:parse"
      | ra, rb => some (boolStr (Spec.unchangedOnCpu ra rb l))
    | none => some "err:parse"
  | "c16judge" :: pred :: obs :: _ => some (boolStr (Spec.placementOk pred obs))
  | _ => none

end VelaVerif.Handlers.Constraints
