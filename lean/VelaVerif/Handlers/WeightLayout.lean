import VelaVerif.Model.WeightLayout
import VelaVerif.Spec.WeightLayout
import VelaVerif.Handlers.Util
/-! Line-protocol handlers for C08 (`wl_*`).  Requests are flat token lists read by a small cursor parser. -/
namespace VelaVerif.Handlers.WeightLayout
open VelaVerif VelaVerif.Handlers VelaVerif.WeightLayout

abbrev P := StateT (List String) Option

def tok : P String := do
  match (← get) with
  | [] => failure
  | x :: xs => set xs; pure x

def pNat : P Nat := do match (← tok).toNat? with | some n => pure n | none => failure
def pInt : P Int := do match (← tok).toInt? with | some n => pure n | none => failure
def pBool : P Bool := do pure ((← pNat) != 0)

def pMany {α : Type} (p : P α) : Nat → P (List α)
  | 0 => pure []
  | n + 1 => do let x ← p; let xs ← pMany p n; pure (x :: xs)

def pList {α : Type} (p : P α) : P (List α) := do let n ← pNat; pMany p n

def hexVal (c : Char) : Option Nat :=
  if '0' ≤ c ∧ c ≤ '9' then some (c.toNat - '0'.toNat)
  else if 'a' ≤ c ∧ c ≤ 'f' then some (c.toNat - 'a'.toNat + 10) else none

def hexDecode : List Char → Option (List Nat)
  | [] => some []
  | a :: b :: rest => do
    let x ← hexVal a; let y ← hexVal b; let r ← hexDecode rest
    pure ((x * 16 + y) :: r)
  | _ => none

/-- a byte string as hex, `-` for the empty string -/
def pHex : P (List Nat) := do
  let t ← tok
  if t == "-" then pure [] else
  match hexDecode t.toList with | some l => pure l | none => failure

def pEnd : P Unit := do match (← get) with | [] => pure () | _ => failure

def hexOut (l : List Nat) : String := if l.isEmpty then "-" else hexBytes l

def errStr : Err → String
  | .assert => "err:assert"
  | .index => "err:index"
  | .value => "err:value"

def run {α : Type} (p : P α) (toks : List String) : Option α := (p.run toks).map (·.1)

/-! #### wl_encode -/

def lookupEnc (tbl : List ((List Nat × Nat) × List Nat)) (chs : List Nat) (cbd : Nat) : List Nat :=
  match tbl.find? (fun e => e.1 = (chs, cbd)) with
  | some e => e.2
  | none => [0xEE]      -- poison: a missing oracle entry makes the stream length not a multiple of 16

def pEncode : P String := do
  let ncores ← pNat
  let fullDepth ← pNat
  let blockDepth ← pNat
  let doWeights ← pBool
  let offsets ← pList pInt
  let biases ← pList pInt
  let scales ← pList (do let m ← pInt; let s ← pInt; pure (m, s))
  let subs ← pList pHex
  pEnd
  -- the code asserts `depth_offset >= 0` per slice (the last offset is never tested)
  if (offsets.dropLast.any (· < 0)) ∧ offsets.length > 1 then pure "err:assert" else
  let offs := offsets.map Int.toNat
  let c0 : Cfg := { ncores, fullDepth, blockDepth, doWeights, scales, biases, enc := fun _ _ => [] }
  -- pass 1 (empty substreams) only to learn which (channels, block depth) each encoder call gets
  let keys : List (List Nat × Nat) := match encodeTensor c0 offs with
    | .ok o => if doWeights then o.rawRanges.map (fun r => (r.weightCh, r.cbd)) else []
    | .error _ => []
  let c : Cfg := { c0 with enc := lookupEnc (keys.zip subs) }
  match encodeTensor c offs with
  | .error e =>
    -- an error of pass 1 that is independent of the encoder (bias range, offsets) shows up here too
    pure (errStr e)
  | .ok o =>
    if doWeights ∧ keys.length ≠ subs.length then pure s!"err:oracle-count {keys.length}" else
    let rs := o.ranges.map fun r =>
      s!"{r.core} {r.depth} {r.offset} {r.scaleBytes} {r.weightOffset} {r.weightBytes} {r.index} {r.weightCh.length} {if doWeights then r.cbd else 0}"
    pure (s!"ok {hexOut o.stream} {o.dbs.1} {o.dbs.2} {o.ranges.length} " ++ " ".intercalate rs)

/-! #### wl_prep -/

def pIfmType : P IfmType := do
  match (← pNat) with
  | 0 => pure .uint8 | 1 => pure .int8 | 2 => pure .int16 | _ => pure .other

def pPair : P (Int × Int) := do let m ← pInt; let s ← pInt; pure (m, s)

def pPrep : P String := do
  let ifmType ← pIfmType
  let isFullyConnected ← pBool
  let biasIsInt64 ← pBool
  let hasExplicit ← pBool
  let expl ← pList pPair
  let awayZero ← pBool
  let cands ← pList (do let a ← pPair; let ar ← pPair; let b ← pPair; let br ← pPair; pure (ScaleCands.mk a ar b br))
  let nBias ← pNat
  pEnd
  match prepareScales { ifmType, isFullyConnected, biasIsInt64, explicit := if hasExplicit then some expl else none,
                        awayZero, cands, nBias } with
  | .error e => pure (errStr e)
  | .ok qs => pure ("ok " ++ " ".intercalate (qs.map fun q => s!"{q.1} {q.2}"))

/-! #### wl_spec -/

open VelaVerif.WeightSpec in
def pARange : P ARange := do
  let core ← pNat; let depth ← pNat; let offset ← pNat; let sb ← pNat; let wo ← pNat; let wb ← pNat
  pure ⟨core, depth, offset, sb, wo, wb⟩

open VelaVerif.WeightSpec in
def pSpec : P String := do
  let ncores ← pNat
  let fullDepth ← pNat
  let blockDepth ← pNat
  let offsets ← pList pNat
  let hasWeights ← pBool
  let bufLen ← pNat
  let dbs0 ← pNat
  let dbs1 ← pNat
  let ranges ← pList pARange
  let buf ← pHex
  let exp ← pList (do let b ← pInt; let m ← pNat; let s ← pNat; pure (Rec.mk b m s))
  let wmode ← pNat
  let q : SReq := ⟨ncores, fullDepth, blockDepth, offsets⟩
  let a : Artefact := ⟨bufLen, ranges, dbs0, dbs1, hasWeights⟩
  let mut fs := failures q buf exp a
  if wmode = 1 then
    let ifmUblock ← pNat; let ofmUblock ← pNat; let depthwise ← pBool; let partKernel ← pBool
    let ifmBits ← pNat; let decompH ← pNat; let decompW ← pNat
    let h ← pNat; let w ← pNat; let i ← pNat; let o ← pNat; let flip ← pBool
    let zp ← pList pInt
    let raw ← pList pInt
    let decs ← pMany (pList pInt) ranges.length
    let cc : CodecCfg := ⟨ifmUblock, ofmUblock, depthwise, partKernel, ifmBits, decompH, decompW⟩
    let t : WTensor := ⟨h, w, i, o, raw.toArray, zp.toArray, flip⟩
    if raw.length ≠ h * w * i * o ∨ (zp.length ≠ 1 ∧ zp.length ≠ o) then failure
    for (e, d) in (expected q).zip decs do
      if ¬ decide (WeightsAt q cc t e d) then
        fs := fs ++ [⟨"weights", e.slice, e.core, false⟩]
  pEnd
  if fs.isEmpty then pure "ok" else
  pure ("fail " ++ " ".intercalate (fs.map fun f => s!"{f.kind}:{f.slice}:{f.core}:{boolStr f.raggedCore1}"))

/-! #### wl_addr : model of create_weights / create_dma_op + the Spec verdict on given address ranges -/

def pRange : P Range := do
  let core ← pNat; let depth ← pNat; let offset ← pNat; let sb ← pNat; let wo ← pNat; let wb ← pNat
  pure { core, depth, offset, scaleBytes := sb, weightOffset := wo, weightBytes := wb, index := 0, slice := 0,
         scaleCh := [], weightCh := [], cbd := 0, scaleData := [], weightData := [] }

def addrStr (l : List AddrRange) : String := " ".intercalate (l.map fun a => s!"{a.address}:{a.length}")

def pAddr : P String := do
  let ncores ← pNat
  let rs ← pList pRange
  let srcAddr ← pNat
  let hasBuf ← pBool
  let bufAddr ← pNat
  let hasScaleT ← pBool
  let scaleAddr ← pNat
  let srs ← pList pRange
  let depth ← pNat
  pEnd
  let w := createWeights ncores rs srcAddr (if hasBuf then some bufAddr else none)
             (if hasScaleT then some (scaleAddr, srs) else none) depth
  let d := createDmaOp ncores rs srcAddr bufAddr depth
  let ws := match w with | some (a, b) => s!"w {addrStr a} b {addrStr b}" | none => "w err:key"
  let ds := match d with | some (s, t) => s!"dma {s.address}:{s.length} {t.address}:{t.length}" | none => "dma err:unbound"
  pure (ws ++ " " ++ ds)

open VelaVerif.WeightSpec in
/-- `wl_addrspec base size n (addr len)*` : every range 16-byte aligned and inside `[base, base+size)` -/
def pAddrSpec : P String := do
  let base ← pNat
  let size ← pNat
  let rs ← pList (do let a ← pNat; let l ← pNat; pure (a, l))
  pEnd
  pure (boolStr (decide (AddrOk base size rs)))

open VelaVerif.WeightSpec in
/-- `wl_addrmatch base hasBuf buf depth nR ranges.. nW (a l).. nS (a l).. hasDma sa sl da dl` :
    do the address ranges handed to the command stream generator equal the Spec's expectation -/
def pAddrMatch : P String := do
  let base ← pNat
  let hasBuf ← pBool
  let buf ← pNat
  let depth ← pNat
  let rs ← pList pARange
  let ws ← pList (do let a ← pNat; let l ← pNat; pure (a, l))
  let bs ← pList (do let a ← pNat; let l ← pNat; pure (a, l))
  let hasDma ← pBool
  let sa ← pNat; let sl ← pNat; let da ← pNat; let dl ← pNat
  pEnd
  let (ew, eb, ed) := expectedAddrs base (if hasBuf then some buf else none) rs depth
  let fw := if ws == ew then "" else " weights"
  let fb := if bs == eb then "" else " scales"
  let fd := match ed, hasDma with
    | some (s, d), true => if s == (sa, sl) ∧ (d == (da, dl) ∨ !hasBuf) then "" else " dma"
    | none, false => ""
    | _, _ => " dma-presence"
  let f := fw ++ fb ++ fd
  pure (if f.isEmpty then "ok" else "fail" ++ f)

open VelaVerif.WeightSpec in
/-- `wl_stripe ncores fullDepth c0 c1 wbase hasBuf buf nW wranges.. sep sbase nS sranges.. nWA (a l).. nBA (a l)..` :
    Spec on what one emitted NPU operation addresses: channel cover of the stripe and the address ranges -/
def pStripe : P String := do
  let ncores ← pNat; let fullDepth ← pNat; let c0 ← pNat; let c1 ← pNat
  let wbase ← pNat; let hasBuf ← pBool; let buf ← pNat
  let wr ← pList pARange
  let sep ← pBool; let sbase ← pNat
  let sr0 ← pList pARange
  let ws ← pList (do let a ← pNat; let l ← pNat; pure (a, l))
  let bs ← pList (do let a ← pNat; let l ← pNat; pure (a, l))
  pEnd
  let sr := if sep then sr0 else wr
  let cover := decide (StripeCoverOk ncores fullDepth wr sr c0 c1)
  let (ew, eb, _) := expectedAddrs wbase (if hasBuf then some buf else none) wr c0
  let ebs := if sep then (expectedAddrs sbase none sr c0).2.1 else eb
  let f := (if cover then "" else " cover") ++ (if ws == ew then "" else " weights") ++ (if bs == ebs then "" else " scales")
  pure (if f.isEmpty then "ok" else "fail" ++ f)

open VelaVerif.WeightSpec in
/-- `wl_dma base buf depth nR ranges.. sa sl da dl` : an emitted weight DMA moves exactly the bytes of the slice -/
def pDma : P String := do
  let base ← pNat; let buf ← pNat; let depth ← pNat
  let rs ← pList pARange
  let sa ← pNat; let sl ← pNat; let da ← pNat; let dl ← pNat
  pEnd
  match (expectedAddrs base (some buf) rs depth).2.2 with
  | some (s, d) => pure (if s == (sa, sl) ∧ d == (da, dl) then "ok" else s!"fail dma expected {s.1}:{s.2}->{d.1}:{d.2}")
  | none => pure "fail dma-no-core0-range"

/-! #### wl_cache : outcome (miss / hit / weights-only hit) of a request sequence -/

def pReqKeys : P Req := do
  let blockType ← pNat; let bd ← pNat; let depthHash ← pInt; let dx ← pNat; let dy ← pNat
  let wid ← pNat; let sid ← pNat; let ifmScale ← pNat; let ofmScale ← pNat
  let accelerator ← pNat; let ifmBits ← pNat; let opFlip ← pBool; let depthOffsets ← pList pNat
  let blockDepth ← pNat; let weightData ← pNat; let scaleData ← pNat
  pure { blockType, blockDepthClamped := bd, depthHash, dilation := (dx, dy), weightValueId := wid,
         scaleValueId := sid, ifmScale, ofmScale, accelerator, ifmBits, opFlip,
         depthOffsets, blockDepth, weightData, scaleData }

/-- `wl_reqdiff A B` : do the keys agree, and in which non-key fields do the requests differ -/
def pReqDiff : P String := do
  let a ← pReqKeys
  let b ← pReqKeys
  pEnd
  let d := reqDiff a b
  pure s!"wkey={boolStr (decide (wccKey a = wccKey b))} skey={boolStr (decide (sccKey a = sccKey b))} diff={if d.isEmpty then "-" else ",".intercalate d}"

open VelaVerif.WeightSpec in
/-- `wl_bufspec nBuf size* nSlices dma*` -/
def pBufSpec : P String := do
  let bufs ← pList pNat
  let sl ← pList pNat
  pEnd
  pure (boolStr (decide (BuffersOk bufs sl)))

open VelaVerif.WeightSpec in
/-- `wl_biasrt hex bias mult shift` : does the Spec decoder read back exactly these fields -/
def pBiasRt : P String := do
  let bs ← pHex; let b ← pInt; let m ← pNat; let s ← pNat
  pEnd
  pure (boolStr (decide (decodeRecord bs = some ⟨b, m, s⟩)))

def pCache : P String := do
  let reqs ← pList pReqKeys
  pEnd
  pure (" ".intercalate ((cacheOutcomes [] reqs).map fun
    | .miss => "miss" | .hitBoth => "hit" | .hitWeights => "hit-weights"))

/-- `wl_same A B` : byte/field identity of two canonical artefact strings, judged here -/
def pSame : P String := do
  let a ← tok
  let b ← tok
  pEnd
  pure (boolStr (a == b))

open VelaVerif.WeightSpec in
def handle : List String → Option String
  | "wl_bias" :: rest => some <| (run (do
      let b ← pInt; let s ← pInt; let sh ← pInt; pEnd
      match encodeBias b s sh with
      | .ok bs => pure ("ok " ++ hexBytes bs)
      | .error e => pure (errStr e)) rest).getD "err:parse"
  | "wl_biasdec" :: rest => some <| (run (do
      let bs ← pHex; pEnd
      match decodeRecord bs with
      | some r => pure s!"ok {r.bias} {r.mult} {r.shift}"
      | none => pure "none") rest).getD "err:parse"
  | "wl_encode" :: rest => some ((run pEncode rest).getD "err:parse")
  | "wl_prep" :: rest => some ((run pPrep rest).getD "err:parse")
  | "wl_spec" :: rest => some ((run pSpec rest).getD "err:parse")
  | "wl_addr" :: rest => some ((run pAddr rest).getD "err:parse")
  | "wl_addrspec" :: rest => some ((run pAddrSpec rest).getD "err:parse")
  | "wl_addrmatch" :: rest => some ((run pAddrMatch rest).getD "err:parse")
  | "wl_stripe" :: rest => some ((run pStripe rest).getD "err:parse")
  | "wl_dma" :: rest => some ((run pDma rest).getD "err:parse")
  | "wl_cache" :: rest => some ((run pCache rest).getD "err:parse")
  | "wl_same" :: rest => some ((run pSame rest).getD "err:parse")
  | "wl_reqdiff" :: rest => some ((run pReqDiff rest).getD "err:parse")
  | "wl_bufspec" :: rest => some ((run pBufSpec rest).getD "err:parse")
  | "wl_biasrt" :: rest => some ((run pBiasRt rest).getD "err:parse")
  | _ => none

end VelaVerif.Handlers.WeightLayout
