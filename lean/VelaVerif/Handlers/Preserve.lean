import VelaVerif.Spec.Preserve
import VelaVerif.Model.OpIndices
import VelaVerif.Handlers.Util
/-!
C11 requests.

`preserve s.nsg=<n> o.nsg=<n> s.tensors=<t>,… s.inputs=<i>,… s.outputs=<i>,… s.ops=<op>;… o.tensors=… o.inputs=… o.outputs=… o.ops=…`
  tensor  `<namehex>:<d>/<d>…:<type>:<quant>:<const>:<var>`; quant `-` or `<scalebits>/…~<zp>/…~<minbits>/…~<maxbits>/…~<qdim>`;
          const `-` or `<bytes>.<digest>`
  op      `<builtin>:<customhex>:<version>:<T|N><optiontype>~<slot>.<hex>…:<customoptionshex>:<in>/<in>…:<out>/<out>…`
  answer  `<ok|bad|pre> preserved=<n> absorbed=<n> folded=<n> dead=<n> ethosu=<n> n=<problems> <kind>|<detail> ~ …`
`ethosuverbatim s.tensors=… s.inputs=… s.outputs=… s.ops=… o.tensors=… o.inputs=… o.outputs=… o.ops=…`  (same graph tokens)
  second generation: every Ethos-U operator of the compiled input `s` reappears verbatim in the output `o`;
  answer  `<ok|bad|pre> ethosu_in=<n> ethosu_out=<n> new=<n> n=<problems> <kind>|<detail> ~ …`  (`pre`: the compiled input is
  outside the domain of `check` — duplicate tensor names —, operators cannot be identified by result names)
`reread w=<tok>,… v=<tok>,…`   the output file as the plain walker / as Vela's reader sees it; answer `same <n>` or `differ <pos> <w> <v>`
`alignidx from=<i>/<i>|<w>|<b> to=<i>|<w>|<b> n=<len>`   model of reader_util.align_inputs_indices applied to [0..n);
  answer `ok <perm>` or `err:<kind>`
`alignrt n=<len> got=ok,<i>,…|err:<kind>`   is the real round trip on [0..n) the identity? answer `1` / `0`
`tensororder <namehex>,…`   model of the writer's tensor order: positions sorted by (name, enumeration index)
-/
namespace VelaVerif.Handlers.Preserve
open VelaVerif VelaVerif.Handlers VelaVerif.Preserve

def kv (toks : List String) (key : String) : Option String :=
  toks.findSome? fun t => if t.startsWith (key ++ "=") then some (t.drop (key.length + 1)).toString else none

def splitNE (s : String) (sep : String) : List String := (s.splitOn sep).filter (· ≠ "")

def parseQuant (s : String) : Option (Option Quant) :=
  if s == "-" then some none else
  match s.splitOn "~" with
  | [sc, zp, mn, mx, qd] => do
    some (some { scale := ← parseNats (splitNE sc "/"), zeroPoint := ← parseInts (splitNE zp "/"),
                 min := ← parseNats (splitNE mn "/"), max := ← parseNats (splitNE mx "/"), qdim := ← parseInt? qd })
  | _ => none

def parseConst (s : String) : Option (Option (Nat × String)) :=
  if s == "-" then some none else
  match s.splitOn "." with
  | [n, d] => do some (some (← parseNat? n, d))
  | _ => none

def parseTensor (s : String) : Option PTensor :=
  match s.splitOn ":" with
  | [name, shape, ty, q, c, v] => do
    some { name := name, shape := ← parseInts (splitNE shape "/"), dtype := ty, quant := ← parseQuant q,
           const := ← parseConst c, isVariable := v == "1" }
  | _ => none

def parseField (s : String) : Option (Nat × String) :=
  match s.splitOn "." with
  | [slot, v] => do some (← parseNat? slot, v)
  | _ => none

def parseOpts (s : String) : Option Opts :=
  match s.splitOn "~" with
  | hd :: fields => do
    let present := hd.startsWith "T"
    if !(present || hd.startsWith "N") then none
    some { present := present, type := ← parseNat? (hd.drop 1).toString, fields := ← fields.mapM parseField }
  | [] => none

def parseOptIdx (s : String) : Option (Option Nat) :=
  if s == "-1" then some none else (parseNat? s).map some

def parseOp (s : String) : Option POp :=
  match s.splitOn ":" with
  | [b, c, v, o, co, ins, outs] => do
    some { builtin := ← parseNat? b, custom := c, version := ← parseInt? v, opts := ← parseOpts o, customOpts := co,
           inputs := ← (splitNE ins "/").mapM parseOptIdx, outputs := ← parseNats (splitNE outs "/") }
  | _ => none

def parseGraph (toks : List String) (p : String) : Option PGraph := do
  some { tensors := ← (splitNE ((kv toks (p ++ ".tensors")).getD "") ",").mapM parseTensor,
         inputs := ← parseNats (splitNE ((kv toks (p ++ ".inputs")).getD "") ","),
         outputs := ← parseNats (splitNE ((kv toks (p ++ ".outputs")).getD "") ","),
         ops := ← (splitNE ((kv toks (p ++ ".ops")).getD "") ";").mapM parseOp }

def showProblems (l : List Problem) : String :=
  " ~ ".intercalate ((l.take 12).map fun p => p.kind ++ "|" ++ p.detail)

/-- `o:<builtin>:<version>:<ins>:<outs>`: trailing absent operands are dropped (the reader appends one for a missing bias) -/
def normTok (t : String) : String :=
  match t.splitOn ":" with
  | ["o", b, v, ins, outs] =>
    let l := (ins.splitOn "/").reverse.dropWhile (· == "-") |>.reverse
    ":".intercalate ["o", b, v, "/".intercalate l, outs]
  | ["in", l] => "in:" ++ "/".intercalate (l.splitOn "/").eraseDups
  | ["out", l] => "out:" ++ "/".intercalate (l.splitOn "/").eraseDups
  | _ => t

def firstDiff : List String → List String → Nat → Option (Nat × String × String)
  | [], [], _ => none
  | a :: as, b :: bs, k => if a == b then firstDiff as bs (k + 1) else some (k, a, b)
  | a :: _, [], k => some (k, a, "<end>")
  | [], b :: _, k => some (k, "<end>", b)

def parseIndices (s : String) : Option OpIndices.Indices :=
  match s.splitOn "|" with
  | [a, b, c] => do some { ifms := ← parseNats (splitNE a "/"), weights := ← parseNats (splitNE b "/"), biases := ← parseNats (splitNE c "/") }
  | _ => none

def handle : List String → Option String
  | "preserve" :: toks => do
    let src ← parseGraph toks "s"
    let out ← parseGraph toks "o"
    let v0 := check src out
    -- number of subgraphs of the two files (the generator emits one; only subgraph 0 is compared in detail)
    let nsg := match (kv toks "s.nsg").bind parseNat?, (kv toks "o.nsg").bind parseNat? with
      | some a, some b => if a == b then [] else [(⟨"subgraph-count", s!"source {a} output {b}"⟩ : Problem)]
      | _, _ => []
    let v := { v0 with problems := nsg ++ v0.problems }
    let c := v.cover
    let stats := s!"preserved={c.preserved} absorbed={c.absorbed} folded={c.folded} dead={c.dead} ethosu={v.ethosu}"
    if !v.pre.isEmpty then some (s!"pre {stats} n={v.pre.length} " ++ showProblems v.pre)
    else if v.problems.isEmpty then some (s!"ok {stats} n=0")
    else some (s!"bad {stats} n={v.problems.length} " ++ showProblems v.problems)
  | "ethosuverbatim" :: toks => do
    -- second generation: `s.*` = the compiled model that was the input, `o.*` = what the compiler wrote for it
    let src ← parseGraph toks "s"
    let out ← parseGraph toks "o"
    -- optional: arena offsets per tensor index, `s.plan=<o>,<o>…` and one list per plan entry of the output `o.plans=<o>,<o>…;<o>,…`
    let splan ← parseInts (splitNE ((kv toks "s.plan").getD "") ",")
    let oplans ← (splitNE ((kv toks "o.plans").getD "") ";").mapM fun l => parseInts (splitNE l ",")
    let ps := ethosuVerbatimProblems src out ++ (if (kv toks "s.plan").isSome then ethosuPlacementProblems src out splan oplans else [])
    let stats := s!"ethosu_in={(src.ops.filter isEthosU).length} ethosu_out={(out.ops.filter isEthosU).length} new={ethosuNew src out}"
    -- same domain as `check`: operators are identified by their result names, so a compiled input whose tensor names are not
    -- unique (a source with duplicate names keeps them) is outside the domain of the clause, not a violation
    let pre := wellFormedProblems src ++ topoProblems src
    if !pre.isEmpty then some (s!"pre {stats} n={pre.length} " ++ showProblems pre)
    else if ps.isEmpty then some s!"ok {stats} n=0" else some (s!"bad {stats} n={ps.length} " ++ showProblems ps)
  | "reread" :: toks => do
    let w := (splitNE ((kv toks "w").getD "") ",").map normTok
    let v := (splitNE ((kv toks "v").getD "") ",").map normTok
    match firstDiff w v 0 with
    | none => some s!"same {w.length}"
    | some (k, a, b) => some s!"differ {k} {a} {b}"
  | "alignidx" :: toks => do
    let f ← parseIndices (← kv toks "from")
    let t ← parseIndices (← kv toks "to")
    let n ← parseNat? (← kv toks "n")
    match OpIndices.alignInputs f t (List.range n) with
    | .ok l => some ("ok " ++ joinNats l)
    | .error e => some ("err:" ++ e)
  | "alignrt" :: toks => do
    -- the real reader-then-writer alignment applied to [0..n): `got` = `ok,<i>,<i>…` or `err:<kind>`; must be the identity
    let n ← parseNat? (← kv toks "n")
    let got ← kv toks "got"
    match got.splitOn "," with
    | "ok" :: l => do some (boolStr ((← parseNats (l.filter (· ≠ ""))) == List.range n))
    | _ => some "0"
  | ["tensororder", names] =>
    some (joinNats (OpIndices.writerOrder (fun (a b : String) => decide (a ≤ b)) (names.splitOn ",")))
  | _ => none

end VelaVerif.Handlers.Preserve
