import VelaVerif.Model.RawOutput
import VelaVerif.Spec.RawOutput
import VelaVerif.Handlers.Serialise
/-!
`rawmodel pad=<0|1> spill=<0|1> in=<t>;<t>;… out=<t>;…`, `<t>` = `<memtype>!<addr|->!<elem size>!<d.d.…>!<hex|->`
  (the operands / results of the first call operator as Vela's tensors describe them; pad = the live writer has the repair C12-30)
  answer `ok <npz>` | `err:<kind>`, `<npz>` = `cmd=<len>:<adler32>|- w=… wr=<n> ss=<d.d> sr=<n> fs=<d.d> fr=<n> in=<io>;… out=<io>;…`,
  `<io>` = `<d.d.…>/<elem size>/<region>/<offset|->`
`rawcheck acc=<i> words=<w>,… tcmd=<hex> tflash=<hex> tss=<n> tfs=<n> tin=<plan offset>:<elem size>:<d.d.…>;… tout=…
          rcmd=<hex> rw=<hex> rss=<d.d> rsr=<n> rfs=<d.d> rfr=<n> rin=<region>:<offset|->:<elem size>:<d.d.…>;… rout=…`
  (t… = the TFLite output of the same compilation, r… = the .npz)
  answer `cmd=<0|1> weights=<0|1> scratch=<0|1> fast=<0|1> in=<0|1> out=<0|1> payload=<ok|parse-fail|rejected> spec=<ok|fail n: …>`
`rawspec rss=… rsr=… rfs=… rfr=… rin=… rout=…` → `ok` | `fail n: …` (the Spec on the .npz alone)
-/
namespace VelaVerif.Handlers.RawOutput
open VelaVerif VelaVerif.Handlers VelaVerif.Handlers.Serialise VelaVerif.Serialise VelaVerif.RawOutput

def parseShape (s : String) : Option (List Nat) := (splitNE s ".").mapM parseNat?

def optHex (s : String) : Option (Option (List Nat)) := if s == "-" then some none else (hexToBytes s).map some

def parseTensor (s : String) : Option OpTensor :=
  match s.splitOn "!" with
  | [mt, a, e, sh, v] => do
    some { memType := ← typeOf (← parseNat? mt), address := ← optNat a, elemSize := ← parseNat? e, shape := ← parseShape sh,
           values := ← optHex v }
  | _ => none

/-- only `is_spilling_enabled` matters to `get_region` -/
def archOf (spill : Bool) : Arch :=
  { acc := Gen.accelerators.getD 0 default, constPort := .axi0, arenaPort := .axi0, cachePort := if spill then .axi1 else .axi0,
    axi0 := .dram, axi1 := .sram }

def shapeStr (l : List Nat) : String := ".".intercalate (l.map toString)
def digest : Option (List Nat) → String
  | none => "-"
  | some b => s!"{b.length}:{adler b}"
def optStr : Option Nat → String
  | none => "-"
  | some a => toString a

def ioStr (i : Io) : String :=
  ";".intercalate ((i.shapes.zip (i.elemSizes.zip (i.regions.zip i.offsets))).map fun (s, e, r, o) =>
    s!"{shapeStr s}/{e}/{r}/{optStr o}")

def npzStr (z : Npz) : String :=
  s!"cmd={digest z.cmdData} w={digest z.weightData} wr={z.weightRegion} ss={shapeStr z.scratchShape} sr={z.scratchRegion} " ++
  s!"fs={shapeStr z.scratchFastShape} fr={z.scratchFastRegion} in={ioStr z.input} out={ioStr z.output}"

def errStr : RawOutput.Err → String
  | .unpack => "err:unpack"
  | .region => "err:region"
  | .ragged => "err:ragged"

open VelaVerif.Spec.RawOutput in
def parseRawIo (s : String) : Option RawIo :=
  match s.splitOn ":" with
  | [r, o, e, sh] => do some { region := ← parseNat? r, offset := ← optNat o, elemSize := ← parseNat? e, shape := ← parseShape sh }
  | _ => none

/-- (plan offset, element size, shape) of a tensor of the TFLite output -/
def parseTfl (s : String) : Option (Int × Nat × List Nat) :=
  match s.splitOn ":" with
  | [o, e, sh] => do some (← parseInt? o, ← parseNat? e, ← parseShape sh)
  | _ => none

open VelaVerif.Spec.RawOutput in
/-- a shape without its unit dimensions: in a linear layout they change neither the element order nor the byte size.  The
    repaired writer pads the shorter shapes of a list with leading 1s; Vela's own tensor of an ARG_MAX result keeps the reduced
    axis as a trailing 1 (`[1, 5, 1]`) where the TFLite writer publishes the shape of the source network (`[1, 5]`) -/
def core (s : List Nat) : List Nat := s.filter (· != 1)

open VelaVerif.Spec.RawOutput in
/-- one listed tensor of the .npz names the same bytes as the tensor of the TFLite output: same offset, same element size, same
    shape up to unit dimensions -/
def sameIo (r : RawIo) (t : Int × Nat × List Nat) : Bool :=
  match r.offset with
  | none => false
  | some a => decide ((a : Int) = t.1) && r.elemSize == t.2.1 && core r.shape == core t.2.2

open VelaVerif.Spec.RawOutput in
def sameIos (rs : List RawIo) (ts : List (Int × Nat × List Nat)) : Bool :=
  rs.length == ts.length && (rs.zip ts).all fun (r, t) => sameIo r t

open VelaVerif.Spec.RawOutput in
def parseSizes (toks : List String) : Option (RawSizes × List RawIo × List RawIo) := do
  let z : RawSizes := { scratchRegion := ← parseNat? (← kv toks "rsr"), scratchShape := ← parseShape (← kv toks "rss"),
                        fastRegion := ← parseNat? (← kv toks "rfr"), fastShape := ← parseShape (← kv toks "rfs") }
  let ins ← (splitNE (← kv toks "rin") ";").mapM parseRawIo
  let outs ← (splitNE (← kv toks "rout") ";").mapM parseRawIo
  some (z, ins, outs)

def handle : List String → Option String
  | "rawmodel" :: toks => do
    let spill ← kv toks "spill"
    let ins ← (splitNE (← kv toks "in") ";").mapM parseTensor
    let outs ← (splitNE (← kv toks "out") ";").mapM parseTensor
    match writeRawG ((kv toks "pad") == some "1") (archOf (spill == "1")) ins outs with
    | .ok z => some ("ok " ++ npzStr z)
    | .error e => some (errStr e)
  | "rawspec" :: toks => do
    let (z, ins, outs) ← parseSizes toks
    some (verdict (Spec.RawOutput.problems z ins outs))
  | "rawcheck" :: toks => do
    let a ← Gen.accelerators[(← parseNat? (← kv toks "acc"))]?
    let words ← (splitNE (← kv toks "words") ",").mapM parseNat?
    let tcmd ← hexToBytes (← kv toks "tcmd")
    let tflash ← hexToBytes (← kv toks "tflash")
    let tss ← parseNat? (← kv toks "tss")
    let tfs ← parseNat? (← kv toks "tfs")
    let tin ← (splitNE (← kv toks "tin") ";").mapM parseTfl
    let tout ← (splitNE (← kv toks "tout") ";").mapM parseTfl
    let rcmd ← hexToBytes (← kv toks "rcmd")
    let rw ← hexToBytes (← kv toks "rw")
    let (z, ins, outs) ← parseSizes toks
    let pay := match Payload.parsePayload rcmd with
      | none => "parse-fail"
      | some p => if Payload.payloadOk a p words then "ok" else "rejected"
    some (s!"cmd={boolStr (rcmd == tcmd)} weights={boolStr (rw == tflash)} scratch={boolStr (z.scratchShape == [tss])} " ++
          s!"fast={boolStr (z.fastShape == [tfs])} in={boolStr (sameIos ins tin)} out={boolStr (sameIos outs tout)} " ++
          s!"payload={pay} spec={verdict (Spec.RawOutput.problems z ins outs)}")
  | _ => none

end VelaVerif.Handlers.RawOutput
