import VelaVerif.Model.Rewrites3
import VelaVerif.Spec.RewriteSem3
import VelaVerif.Handlers.Rewrites2
/-!
Line protocol for the rewrite models of C01, third part (`Model/Rewrites3.lean`), and for the semantic checks
(`Spec/RewriteSem3.lean`) applied to what the *real* rewrite produced.

Model commands:
  rw3_resize1x1 <bilinear> <half> <ifm shape csv> <ofm shape csv>   → identity | halfpixel | chain | add <const shape> fill scaleBits zp <ifm0> <ifm1> <ofm>
  rw3_avgpool <isAvg> kh kw sy sx depth                             → none | ok kh kw depth den sy sx
  rw3_shape <isShape> <npu> opIndex <ifm shape csv> ofmLen <consumers csv, n = None> → none | ok <consumers> <values>
  rw3_pack axis <in shape csv> count <ofm shape csv>                 → none | ok axis4D <shape4> <write offsets>
  rw3_unpack <isUnpack> <npu> axis inRank <out shape csv>           → none | ok axis4D <shape4>
Semantic checks of the real output:
  rwsem3_unpack <in shape csv> pos axis4D <shape4 csv>               → ok | fail output k element j …
  rwsem3_resize1x1 <i8|u8|i16> siBits soBits zpIn zpOut scBits zpC fill
        the reference ADD of the REAL constant (scale, zero point, fill value) and every value of the type range against the
        RESIZE of a 1x1 input (= the value)                         → ok | fail v=… got=…
  rwsem3_avgpool <signed> H W C kh kw sy sx zp <real weights csv HWIO> denNum denDen seed
        every output element: the convolution accumulator with the REAL weights against pooling sum − zp·count; then the lowered
        value with the exact real weight scale against the reference average  → ok ties=<k> | fail …
-/
namespace VelaVerif.Handlers.Rewrites3
open VelaVerif VelaVerif.Handlers VelaVerif.Handlers.Rewrites VelaVerif.Handlers.Rewrites2 VelaVerif.Rewrites VelaVerif.Rewrites2 VelaVerif.Rewrites3
  VelaVerif.RewriteSem VelaVerif.RewriteSem2 VelaVerif.RewriteSem3 VelaVerif.Requant VelaVerif.TfliteRef

def optNats? (s : String) : Option (List (Option Nat)) :=
  if s == "-" then some [] else (s.splitOn ",").mapM fun t => if t == "n" then some none else (parseNat? t).map some

def showOptNats (l : List (Option Nat)) : String :=
  if l.isEmpty then "-" else ",".intercalate (l.map fun | none => "n" | some i => toString i)

def resize1x1Sem (dt : DType) (si so : Nat) (zpIn zpOut : Int) (sc : Nat) (zpC fill : Int) : String :=
  let ls := if dt == .i16 then 15 else 20
  match qmAdd sc si so ls with
  | none => "err:scale"
  | some ((m1, s1), (m2, s2), (mo, so')) =>
    let n := (dt.hi - dt.lo + 1).toNat
    let bad := (List.range n).findSome? fun (k : Nat) =>
      let v : Int := dt.lo + ((k : Nat) : Int)
      let got := addBroadcastAt (fun _ _ _ => fill) 1 1 (fun _ _ _ => v) (-zpC) (-zpIn) ls m1 s1 m2 s2 mo so' zpOut dt.lo dt.hi 3 5 0
      if got = v then none else some s!"fail v={v} got={got}"
    bad.getD s!"ok {m2} {s2} {mo} {so'}"

def avgpoolSem (signed : Bool) (H W C kh kw sy sx : Nat) (zp : Int) (wts : Array Int) (den seed : Nat) : String :=
  if sy = 0 ∨ sx = 0 ∨ kh = 0 ∨ kw = 0 ∨ H < kh ∨ W < kw then "err:geometry" else
  if wts.size ≠ kh * kw * C * C then "fail weight count" else
  let lo : Int := if signed then -128 else 0
  let hi : Int := if signed then 127 else 255
  let ifm : Nat → Nat → Nat → Int := fun y x c => lo + (prand seed ((y * W + x) * C + c) + 128) % 256
  let oh := (H - kh) / sy + 1
  let ow := (W - kw) / sx + 1
  let res := (List.range oh).foldl (fun (acc : Option String × Nat) y => (List.range ow).foldl (fun (acc : Option String × Nat) x =>
    (List.range C).foldl (fun (acc : Option String × Nat) oc =>
      match acc.1 with
      | some _ => acc
      | none =>
        let wgt := fun (ky kx ic : Nat) => wts.getD (((ky * kw + kx) * C + ic) * C + oc) 0
        let a := convAcc H W C ifm kh kw wgt sy sx 1 1 0 0 (-zp) y x
        let sc := poolSumCount H W (fun yy xx => ifm yy xx oc) kh kw sy sx 0 0 y x
        if a ≠ sc.1 - zp * sc.2 then (some s!"fail accumulator oy={y} ox={x} oc={oc} conv={a} pool={sc.1}-{zp}*{sc.2}", acc.2) else
        let r := avgPoolRef signed H W (fun yy xx => ifm yy xx oc) kh kw sy sx 0 0 y x lo hi
        let g := avgPoolLoweredExact a den zp lo hi
        if r = g then acc
        else if (r - g).natAbs ≤ 1 ∧ 2 * (a % (den : Int)) = (den : Int) then (none, acc.2 + 1)
        else (some s!"fail value oy={y} ox={x} oc={oc} ref={r} lowered={g} acc={a} n={den}", acc.2)) acc) acc) (none, 0)
  match res with
  | (some e, _) => e
  | (none, t) => s!"ok ties={t}"

/-- UNPACK as the split of a reshaped output: for every output `k` and every element `j` of it, the element the split reads from the
    4-D input (output coordinates in the REAL operator shape, `k` added on the REAL 4-D axis) is the reference's `in[pre, k, post]` -/
def unpackSem (inShape : List Nat) (pos : Nat) (axis4D : Int) (shape4 : List Nat) : String :=
  if inShape.length > 4 ∨ pos ≥ inShape.length then "err:rank" else
  if axis4D < 0 ∨ axis4D ≥ 4 then s!"fail split axis {axis4D} outside the 4-D shape" else
  let a4 := axis4D.toNat
  let in4 := full4 inShape 1
  let oshape := inShape.eraseIdx pos
  if shape4.length ≠ 4 then "fail operator shape is not 4-D" else
  if shape4.getD a4 0 ≠ 1 then s!"fail operator shape {shape4} is not 1 on the split axis {a4}" else
  if TfliteRef.prod shape4 ≠ TfliteRef.prod oshape then s!"fail operator shape {shape4} has another element count than the output {oshape}" else
  let num := inShape.getD pos 0
  let bad := (List.range num).findSome? fun k => (List.range (TfliteRef.prod oshape)).findSome? fun j =>
    let c4 := unflatten shape4 j
    let rd := c4.set a4 (c4.getD a4 0 + k)
    let got := if (rd.zip in4).all (fun (c, d) => c < d) then some (flatten in4 rd) else none
    let oc := unflatten oshape j
    let want := flatten inShape (oc.take pos ++ [k] ++ oc.drop pos)
    if got = some want then none else some s!"fail output {k} element {j}: split reads {got}, reference reads {want}"
  bad.getD "ok"

def handle (toks : List String) : Option String :=
  match toks with
  | ["rwsem3_unpack", ishp, pos, ax, shp4] =>
    some <| match csvNats ishp, parseNat? pos, parseInt? ax, csvNats shp4 with
    | some ishp, some pos, some ax, some shp4 => unpackSem ishp pos ax shp4
    | _, _, _, _ => "err:parse"
  | ["rw3_resize1x1", bil, half, ishp, oshp] =>
    some <| match bool? bil, bool? half, csvNats ishp, csvNats oshp with
    | some bil, some half, some ishp, some oshp =>
      (match resizeRoute bil half ishp oshp with
       | .identity => "identity"
       | .halfPixelDw => "halfpixel"
       | .upscaleChain => "chain"
       | .add1x1 =>
         let a := convertResize1x1ToAdd ishp oshp
         s!"add {showCsv a.constShape} {a.fill} {a.scaleBits} {a.zp} {showCsv a.ifmShape0} {showCsv a.ifmShape1} {showCsv a.ofmShape}")
    | _, _, _, _ => "err:parse"
  | ["rwsem3_resize1x1", dt, si, so, zi, zo, sc, zc, fill] =>
    some <| match DType.ofString dt, parseNats [si, so, sc], [zi, zo, zc, fill].mapM parseInt? with
    | some dt, some [si, so, sc], some [zi, zo, zc, fill] => resize1x1Sem dt si so zi zo sc zc fill
    | _, _, _ => "err:parse"
  | ["rw3_avgpool", isAvg, kh, kw, sy, sx, depth] =>
    some <| match bool? isAvg, parseNats [kh, kw, sy, sx, depth] with
    | some isAvg, some [kh, kw, sy, sx, depth] =>
      (match convertAvgPoolToConv2d isAvg kh kw sy sx depth with
       | none => "none"
       | some c => s!"ok {c.kh} {c.kw} {c.depth} {c.scaleDen} {c.strideY} {c.strideX}")
    | _, _ => "err:parse"
  | ["rwsem3_avgpool", signed, h, w, c, kh, kw, sy, sx, zp, wts, den, seed] =>
    some <| match bool? signed, parseNats [h, w, c, kh, kw, sy, sx, den, seed], parseInt? zp, csvInts wts with
    | some signed, some [h, w, c, kh, kw, sy, sx, den, seed], some zp, some wts =>
      if den = 0 then "fail weight scale is not 1/n" else avgpoolSem signed h w c kh kw sy sx zp wts.toArray den seed
    | _, _, _, _ => "err:parse"
  | ["rw3_shape", isShape, npu, idx, ishp, olen, cons] =>
    some <| match bool? isShape, bool? npu, parseNats [idx, olen], csvNats ishp, optNats? cons with
    | some isShape, some npu, some [idx, olen], some ishp, some cons =>
      (match convertShapeOp isShape npu idx ishp olen cons with
       | none => "none"
       | some s => s!"ok {showOptNats s.consumers} {showCsv s.values}")
    | _, _, _, _, _ => "err:parse"
  | ["rw3_unpack", isUnpack, npu, axis, rank, oshp] =>
    some <| match bool? isUnpack, bool? npu, parseInt? axis, parseNat? rank, csvNats oshp with
    | some isUnpack, some npu, some axis, some rank, some oshp =>
      (match rewriteUnpackOutput isUnpack npu axis rank oshp with
       | none => "none"
       | some u => s!"ok {u.axis4D} {showCsv u.shape4}")
    | _, _, _, _, _ => "err:parse"
  | ["rw3_pack", axis, ishp, cnt, oshp] =>
    some <| match parseInt? axis, csvNats ishp, parseNat? cnt, csvNats oshp with
    | some axis, some ishp, some cnt, some oshp =>
      (match rewritePack axis ishp cnt oshp with
       | none => "none"
       | some u => s!"ok {u.axis4D} {showCsv u.shape4} {showCsv u.offsets}")
    | _, _, _, _ => "err:parse"
  | _ => none

end VelaVerif.Handlers.Rewrites3
