import Mathlib.Tactic.Linarith
import VelaVerif.Lemmas.FpMathExp
import VelaVerif.Lemmas.Scaling
import VelaVerif.Model.SoftmaxTable
import VelaVerif.Spec.SoftmaxRef
/-! Helper lemmas for the softmax exp table theorems of C19 (`Props/C19.lean`). -/
namespace VelaVerif.SoftmaxTable
open VelaVerif VelaVerif.FpMath VelaVerif.Scaling

theorem mapM_ok' {α β : Type} (f : α → Except Err β) (g : α → β) (l : List α)
    (h : ∀ x ∈ l, f x = .ok (g x)) : l.mapM f = .ok (l.map g) := by
  induction l with
  | nil => rfl
  | cons a t ih =>
    have ha := h a (by simp)
    have ht := ih (fun x hx => h x (by simp [hx]))
    simp only [List.mapM_cons, ha, ht, List.map_cons]
    rfl

/-! ### sign and size of the rescaled difference -/

/-- a non-positive value times a non-negative multiplier stays non-positive through
    `SaturatingRoundingDoublingHighMul` -/
theorem srdhm32_nonpos (a b : Int) (ha : inI32 a = true) (hb : inI32 b = true) (h1 : a ≤ 0) (h2 : 0 ≤ b) :
    Gemmlowp.srdhm32 a b ≤ 0 := by
  have ha' := (inI32_iff a).1 ha
  have hb' := (inI32_iff b).1 hb
  have hab : a * b ≤ 0 := Int.mul_nonpos_of_nonpos_of_nonneg h1 h2
  have hne : ¬ (a = -2147483648 ∧ b = -2147483648) := by omega
  have hp := prod32_bounds a b ha'.1 ha'.2 hb'.1 hb'.2 hne
  unfold Gemmlowp.srdhm32
  rw [int32Min_eq, int32Max_eq]
  simp only []
  have hov : ¬ ((a == b && a == i32min) = true) := by
    simp only [Bool.and_eq_true, beq_iff_eq]
    intro ⟨e1, e2⟩
    unfold i32min at e2
    omega
  simp only [hov, Bool.false_eq_true, if_false]
  generalize a * b = ab at hp hab ⊢
  have hr := tdiv31_range (ab + if ab ≥ 0 then 2 ^ 30 else 1 - 2 ^ 30) (by split <;> omega) (by split <;> omega)
  rw [cast32_id _ hr.1 hr.2]
  by_cases hz : ab ≥ 0
  · have : ab = 0 := by omega
    subst this
    decide
  · simp only [hz, if_false]
    rw [tdiv_neg _ _ (by decide) (by omega)]
    split <;> omega

/-- inside the input radius the left-shifted difference fits int32 (no assert, no C overflow) -/
theorem shifted_fits (d : Int) (ls : Nat) (hd0 : d ≤ 0)
    (hd : d ≥ -(SoftmaxRef.calculateInputRadius 5 ls)) :
    -2080374784 ≤ d * 2 ^ ls ∧ d * 2 ^ ls ≤ 0 := by
  unfold SoftmaxRef.calculateInputRadius at hd
  have e : (((2:Int) ^ 5 - 1) * 2 ^ (31 - 5)) = 2080374784 := by decide
  rw [e] at hd
  have hp := two_pow_pos ls
  generalize (2:Int) ^ ls = P at hp hd ⊢
  have h1 : 2080374784 / P * P ≤ 2080374784 := Int.ediv_mul_le _ (by omega)
  have h2 : (-d) * P ≤ 2080374784 / P * P := Int.mul_le_mul_of_nonneg_right (by omega) (by omega)
  have h3 : d * P ≤ 0 := Int.mul_nonpos_of_nonpos_of_nonneg hd0 (by omega)
  have h4 : (-d) * P = -(d * P) := by ring
  omega

/-- loop body of `generate_exp_table` = the reference element for every index, any non-negative int32
    multiplier and any left shift -/
theorem entry_eq (scale : Int) (ls : Nat) (x : Nat) (hx : x < 256) (hs1 : 0 ≤ scale) (hs2 : scale ≤ 2147483647) :
    expEntry scale (ls : Int) (-(SoftmaxRef.calculateInputRadius 5 ls)) x =
      .ok (SoftmaxRef.expEntry scale ls (-(SoftmaxRef.calculateInputRadius 5 ls)) ((x : Int) - 255)) := by
  unfold expEntry SoftmaxRef.expEntry
  simp only [Int.toNat_natCast]
  by_cases hge : (x : Int) - 255 ≥ -(SoftmaxRef.calculateInputRadius 5 ls)
  · simp only [hge, if_true]
    have hfit := shifted_fits ((x : Int) - 255) ls (by omega) hge
    have hI : inI32 (((x : Int) - 255) * 2 ^ ls) = true := inI32_of _ (by omega) (by omega)
    have hS : inI32 scale = true := inI32_of _ (by omega) (by omega)
    rw [srdhm32_eq _ _ hI hS]
    rw [cast32_id _ (by omega) (by omega)]
    have hnp := srdhm32_nonpos _ _ hI hS hfit.2 hs1
    have hr := srdhm32_range (((x : Int) - 255) * 2 ^ ls) scale
    show liftF (expOnNegativeValues _) = _
    rw [expneg_eq _ hr hnp]
    rfl
  · simp only [hge, if_false]
    rfl


/-! ### the table from the `(multiplier, shift)` pair of `quantise_scale` -/

theorem diffMin_ok (ls : Nat) : diffMin (ls : Int) = .ok (-(SoftmaxRef.calculateInputRadius 5 ls)) := by
  unfold diffMin pow2 SoftmaxRef.calculateInputRadius integerBits totalSignedBits
  have h : ¬ ((ls : Int) < 0) := by omega
  simp only [h, if_false, Int.toNat_natCast]
  rfl

theorem tableFrom_ok (scale : Int) (ls : Nat) (hs1 : 0 ≤ scale) (hs2 : scale ≤ 2147483647) :
    tableFrom scale (ls : Int) = .ok (SoftmaxRef.expTable scale ls) := by
  unfold tableFrom
  rw [diffMin_ok]
  unfold SoftmaxRef.expTable
  exact mapM_ok' _ _ _ (fun x hx => entry_eq scale ls x (List.mem_range.1 hx) hs1 hs2)

theorem generate_of_pair (prod : Dbl) (scale : Int) (ls : Nat)
    (hq : quantiseScale (pyMin prod maxRealMultiplier) = .ok (scale, 31 - (ls : Int)))
    (hs1 : 0 ≤ scale) (hs2 : scale ≤ 2147483647) :
    generateExpTable prod = .ok (SoftmaxRef.expTable scale ls) := by
  unfold generateExpTable
  rw [hq]
  have hr : renormalise (scale, 31 - (ls : Int)) = (scale, 31 - (ls : Int)) := by
    unfold renormalise
    have hne : (scale == 2147483648) = false := by
      rw [beq_eq_false_iff_ne]; omega
    simp only [hne, Bool.false_eq_true, if_false]
  have e : (31 : Int) - (31 - (ls : Int)) = ls := by omega
  simp only [hr, e]
  exact tableFrom_ok scale ls hs1 hs2

/-- the multiplier `2^31` is renormalised to `(2^30, shift − 1)` (commit 20248de) and then yields the table of the
    halved multiplier with one more left shift -/
theorem generate_of_pair_m31 (prod : Dbl) (ls : Nat)
    (hq : quantiseScale (pyMin prod maxRealMultiplier) = .ok (2147483648, 31 - (ls : Int))) :
    generateExpTable prod = .ok (SoftmaxRef.expTable 1073741824 (ls + 1)) := by
  unfold generateExpTable
  rw [hq]
  have hr : renormalise (2147483648, 31 - (ls : Int)) = (1073741824, 31 - (ls : Int) - 1) := by
    unfold renormalise
    have h1 : ((2147483648 : Int) == 2147483648) = true := by decide
    have h2 : (2147483648 : Int) >>> 1 = 1073741824 := by decide
    simp only [h1, if_true, h2]
  have e : (31 : Int) - (31 - (ls : Int) - 1) = ((ls + 1 : Nat) : Int) := by omega
  simp only [hr, e]
  exact tableFrom_ok 1073741824 (ls + 1) (by decide) (by decide)


/-! ### `min(prod, 2^31 − 1)` and `quantise_scale` against `std::min` and `QuantizeMultiplierGreaterThanOne` -/

theorem log2_max : Nat.log2 2147483647 = 30 := (Nat.log2_eq_iff (by decide)).2 ⟨by decide, by decide⟩

theorem quantise_max : quantiseScale maxRealMultiplier = .ok (2147483647, 0) := by
  unfold maxRealMultiplier
  rw [quantiseScale_pos 2147483647 0 (by decide) (by decide)]
  unfold frexpNorm normShift
  rw [log2_max]
  decide

theorem ref_max : SoftmaxRef.quantizeMultiplierGreaterThanOne ((2 ^ 31 - 1) * 2 ^ 22) 22 = some (2147483647, 31) := by
  decide

/-- the saturating branch: `prod > 2^31 − 1` -/
theorem clamped (q : Nat) (k : Int) (h1 : 2 ^ 52 ≤ q)
    (hc : k - 26 ≤ 0 ∨ q > (2 ^ 31 - 1) * 2 ^ (k - 26).toNat) :
    pyMin (.fin false q (26 - k)) maxRealMultiplier = maxRealMultiplier ∧
    SoftmaxRef.scaledClamped q k = ((2 ^ 31 - 1) * 2 ^ 22, 22) := by
  constructor
  · unfold pyMin
    have hlt : Dbl.lt maxRealMultiplier (.fin false q (26 - k)) = true := by
      unfold maxRealMultiplier
      show magLt 2147483647 0 q (26 - k) = true
      unfold magLt
      simp only [decide_eq_true_eq]
      rcases hc with hc | hc
      · have hm : min (0:Int) (26 - k) = 0 := by omega
        rw [hm]
        have hp : 0 < 2 ^ (26 - k - 0).toNat := Nat.pow_pos (by decide)
        have : q * 1 ≤ q * 2 ^ (26 - k - 0).toNat := Nat.mul_le_mul_left q hp
        simp only [Int.sub_self, Int.toNat_zero, Nat.pow_zero, Nat.mul_one] at this ⊢
        omega
      · by_cases hk : k - 26 ≤ 0
        · have hm : min (0:Int) (26 - k) = 0 := by omega
          rw [hm]
          have hp : 0 < 2 ^ (26 - k - 0).toNat := Nat.pow_pos (by decide)
          have : q * 1 ≤ q * 2 ^ (26 - k - 0).toNat := Nat.mul_le_mul_left q hp
          simp only [Int.sub_self, Int.toNat_zero, Nat.pow_zero, Nat.mul_one] at this ⊢
          omega
        · have hm : min (0:Int) (26 - k) = 26 - k := by omega
          rw [hm]
          have e1 : (0 - (26 - k)).toNat = (k - 26).toNat := by congr 1; omega
          have e2 : (26 - k - (26 - k)).toNat = 0 := by simp
          rw [e1, e2]
          simp only [Nat.pow_zero, Nat.mul_one]
          have : (2:Nat) ^ 31 - 1 = 2147483647 := by decide
          omega
    simp only [hlt, if_true]
  · unfold SoftmaxRef.scaledClamped
    simp only [hc, if_true]

/-- the regular branch: `1 < prod ≤ 2^31 − 1` and the multiplier does not round up to `2^31` -/
theorem unclamped (q : Nat) (k : Int) (h1 : 2 ^ 52 ≤ q) (h2 : q < 2 ^ 53)
    (hk : 0 < k - 26) (hle : q ≤ (2 ^ 31 - 1) * 2 ^ (k - 26).toNat) (hgt : q > 2 ^ (k - 26).toNat)
    (hcarry : (q + 2 ^ 21) / 2 ^ 22 ≠ 2 ^ 31) :
    (48 ≤ k ∧ k ≤ 78) ∧
    quantiseScale (pyMin (.fin false q (26 - k)) maxRealMultiplier) =
      .ok ((((q + 2 ^ 21) / 2 ^ 22 : Nat) : Int), 31 - (((79 - k).toNat : Nat) : Int)) ∧
    SoftmaxRef.quantizeMultiplierGreaterThanOne (SoftmaxRef.scaledClamped q k).1 (SoftmaxRef.scaledClamped q k).2 =
      some ((((q + 2 ^ 21) / 2 ^ 22 : Nat) : Int), (79 - k).toNat) := by
  -- range of k
  generalize hj : (k - 26).toNat = j at hle hgt
  have hkj : k = (j : Int) + 26 := by omega
  have hj1 : 22 ≤ j := by
    have : (2:Nat) ^ 31 - 1 < 2 ^ 31 := by decide
    have h3 : (2 ^ 31 - 1) * 2 ^ j < 2 ^ 31 * 2 ^ j := Nat.mul_lt_mul_of_pos_right this (Nat.pow_pos (by decide))
    have h4 : (2:Nat) ^ 52 < 2 ^ (31 + j) := by rw [Nat.pow_add]; omega
    have := (Nat.pow_lt_pow_iff_right (by decide : 1 < 2)).1 h4
    omega
  have hj2 : j ≤ 52 := by
    have h4 : (2:Nat) ^ j < 2 ^ 53 := by omega
    have := (Nat.pow_lt_pow_iff_right (by decide : 1 < 2)).1 h4
    omega
  refine ⟨by omega, ?_, ?_⟩
  · -- model side
    have hnlt : Dbl.lt maxRealMultiplier (.fin false q (26 - k)) = false := by
      unfold maxRealMultiplier
      show magLt 2147483647 0 q (26 - k) = false
      unfold magLt
      simp only [decide_eq_false_iff_not]
      have hm : min (0:Int) (26 - k) = 26 - k := by omega
      rw [hm]
      have e1 : (0 - (26 - k)).toNat = j := by omega
      have e2 : (26 - k - (26 - k)).toNat = 0 := by simp
      rw [e1, e2]
      simp only [Nat.pow_zero, Nat.mul_one]
      have : (2:Nat) ^ 31 - 1 = 2147483647 := by decide
      omega
    unfold pyMin
    simp only [hnlt, Bool.false_eq_true, if_false]
    rw [quantiseScale_norm q (26 - k) h1 h2, quantiseNorm_in q (26 - k) (by omega) (by omega), sigQ31_eq q h2]
    congr 2
    omega
  · -- reference side
    have hsc : SoftmaxRef.scaledClamped q k = (q, k - 26) := by
      unfold SoftmaxRef.scaledClamped
      have hn : ¬ (k - 26 ≤ 0 ∨ q > (2 ^ 31 - 1) * 2 ^ (k - 26).toNat) := by
        rw [hj]; omega
      simp only [hn, if_false]
    rw [hsc]
    unfold SoftmaxRef.quantizeMultiplierGreaterThanOne Gemmlowp.quantizeMultiplier
    have hk0 : ¬ (k - 26 < 0) := by omega
    simp only [hk0, if_false, hj, hgt, decide_true, not_true_eq_false]
    simp only [hcarry, if_false]
    have hs1 : ¬ ((53:Int) - (k - 26) < -31) := by omega
    simp only [hs1, if_false]
    have hs2 : ¬ ((53:Int) - (k - 26) < 0) := by omega
    simp only [hs2, if_false]
    congr 2
    omega


/-! ### range of the reference exponential -/

/-- `exp_on_interval_between_negative_one_quarter_and_0_excl` stays inside `[exp(-1/4) − ε, 1)` in Q0.31
    (same interval chain as `expint_eq`, reference side only) -/
theorem expOnInterval_bounds (a : Int) (h1 : -536870912 ≤ a) (h2 : a < 0) :
    1642812179 ≤ Gemmlowp.expOnInterval a ∧ Gemmlowp.expOnInterval a ≤ 2147483157 := by
  unfold Gemmlowp.expOnInterval
  have e28 : (2:Int) ^ 28 = 268435456 := by decide
  simp only [e28]
  have hxr : -268435456 ≤ a + 268435456 ∧ a + 268435456 ≤ 268435455 := by omega
  rw [add32_id a 268435456 (by omega) (by omega)]
  generalize a + 268435456 = x at hxr
  have hx : inI32 x = true := inI32_of x (by omega) (by omega)
  have b2 := srdhm32_bound x x 72057594037927936 hx hx (by decide)
    (mul_bounds 268435456 268435456 x x (by omega) (by omega) (by omega) (by omega))
  generalize Gemmlowp.srdhm32 x x = x2 at b2
  have hx2 : inI32 x2 = true := inI32_of x2 (by omega) (by omega)
  have hx2r : -33554432 ≤ x2 ∧ x2 ≤ 33554432 := by omega
  have b3 := srdhm32_bound x2 x 9007199254740992 hx2 hx (by decide)
    (mul_bounds 33554432 268435456 x2 x (by omega) (by omega) (by omega) (by omega))
  have b4 := srdhm32_bound x2 x2 1125899906842624 hx2 hx2 (by decide)
    (mul_bounds 33554432 33554432 x2 x2 (by omega) (by omega) (by omega) (by omega))
  generalize Gemmlowp.srdhm32 x2 x = x3 at b3
  generalize Gemmlowp.srdhm32 x2 x2 = x4 at b4
  have hx3r : -4194304 ≤ x3 ∧ x3 ≤ 4194304 := by omega
  have hx4r : -524288 ≤ x4 ∧ x4 ≤ 524288 := by omega
  have e2 : Gemmlowp.saturatingRoundingMultiplyByPOT x4 (-2) = Gemmlowp.roundingDivideByPOT x4 2 := by
    unfold Gemmlowp.saturatingRoundingMultiplyByPOT; simp
  rw [e2]
  have b5 := rdbp2_bound x4
  generalize Gemmlowp.roundingDivideByPOT x4 2 = q4 at b5
  have hq4r : -131072 ≤ q4 ∧ q4 ≤ 131073 := by omega
  have hs1r : -4325376 ≤ q4 + x3 ∧ q4 + x3 ≤ 4325377 := by omega
  rw [add32_id q4 x3 (by omega) (by omega)]
  generalize q4 + x3 = s1 at hs1r
  have hs1 : inI32 s1 = true := inI32_of s1 (by omega) (by omega)
  have hc13 : inI32 715827883 = true := by decide
  have b6 := srdhm32_bound s1 715827883 3096225597333891 hs1 hc13 (by decide) (by omega)
  generalize Gemmlowp.srdhm32 s1 715827883 = t at b6
  have htr : -1441793 ≤ t ∧ t ≤ 1441793 := by omega
  rw [add32_id t x2 (by omega) (by omega)]
  have hs2r : -34996225 ≤ t + x2 ∧ t + x2 ≤ 34996225 := by omega
  generalize t + x2 = s2 at hs2r
  have e3 : Gemmlowp.saturatingRoundingMultiplyByPOT s2 (-1) = Gemmlowp.roundingDivideByPOT s2 1 := by
    unfold Gemmlowp.saturatingRoundingMultiplyByPOT; simp
  rw [e3]
  have b7 := rdbp1_bound s2
  generalize Gemmlowp.roundingDivideByPOT s2 1 = poly at b7
  have hpr : -17498113 ≤ poly ∧ poly ≤ 17498113 := by omega
  rw [add32_id x poly (by omega) (by omega)]
  have hyr : -285933569 ≤ x + poly ∧ x + poly ≤ 285933568 := by omega
  generalize x + poly = y at hyr
  have hy : inI32 y = true := inI32_of y (by omega) (by omega)
  have hct : inI32 1895147668 = true := by decide
  have b8 := srdhm32_bound 1895147668 y 541886336493267092 hct hy (by decide) (by omega)
  generalize Gemmlowp.srdhm32 1895147668 y = m at b8
  have hmr : -252335489 ≤ m ∧ m ≤ 252335489 := by omega
  rw [add32_id 1895147668 m (by omega) (by omega)]
  omega

/-- a non-negative value times a non-negative Q0.31 multiplier: non-negative and not larger -/
theorem srdhm32_nonneg_le (a b : Int) (ha1 : 0 ≤ a) (ha2 : a ≤ 2147483647) (hb1 : 0 ≤ b) (hb2 : b ≤ 2147483647) :
    0 ≤ Gemmlowp.srdhm32 a b ∧ Gemmlowp.srdhm32 a b ≤ a := by
  have hab0 : 0 ≤ a * b := Int.mul_nonneg ha1 hb1
  have hab1 : a * b ≤ a * 2147483647 := Int.mul_le_mul_of_nonneg_left hb2 ha1
  unfold Gemmlowp.srdhm32
  rw [int32Min_eq, int32Max_eq]
  simp only []
  have hov : ¬ ((a == b && a == i32min) = true) := by
    simp only [Bool.and_eq_true, beq_iff_eq]
    intro ⟨_, e2⟩
    unfold i32min at e2
    omega
  simp only [hov, Bool.false_eq_true, if_false]
  generalize a * b = ab at hab0 hab1 ⊢
  have hge : ab ≥ 0 := hab0
  simp only [hge, if_true]
  have hr := tdiv31_range (ab + 2 ^ 30) (by omega) (by omega)
  rw [cast32_id _ hr.1 hr.2, Int.tdiv_eq_ediv_of_nonneg (by omega)]
  omega

theorem specStage_nonneg (remainder res : Int) (st : Int × Int) (hr1 : 0 ≤ res) (hr2 : res ≤ 2147483647)
    (hm1 : 0 ≤ st.2) (hm2 : st.2 ≤ 2147483647) :
    0 ≤ specStage remainder res st ∧ specStage remainder res st ≤ 2147483647 := by
  unfold specStage
  have := srdhm32_nonneg_le res st.2 hr1 hr2 hm1 hm2
  split
  · simp only []
    split <;> omega
  · omega

theorem fold_nonneg (remainder : Int) (stages : List (Int × Int))
    (hst : ∀ st ∈ stages, 0 ≤ st.2 ∧ st.2 ≤ 2147483647) :
    ∀ res, 0 ≤ res → res ≤ 2147483647 →
      0 ≤ stages.foldl (specStage remainder) res ∧ stages.foldl (specStage remainder) res ≤ 2147483647 := by
  induction stages with
  | nil => intro res h1 h2; exact ⟨h1, h2⟩
  | cons st t ih =>
    intro res h1 h2
    have hs := hst st (by simp)
    have hn := specStage_nonneg remainder res st h1 h2 hs.1 hs.2
    rw [List.foldl_cons]
    exact ih (fun s hs => hst s (by simp [hs])) _ hn.1 hn.2

/-- gemmlowp `exp_on_negative_values` yields a value of `[0, 1]` in Q0.31 for every int32 `a` -/
theorem expOnNegativeValues_range (a : Int) (ha : inI32 a = true) :
    0 ≤ Gemmlowp.expOnNegativeValues a ∧ Gemmlowp.expOnNegativeValues a ≤ 2147483647 := by
  have ha' := (inI32_iff a).1 ha
  unfold Gemmlowp.expOnNegativeValues
  simp only []
  by_cases hz : (a == 0) = true
  · simp only [hz, if_true]
    decide
  · simp only [hz, Bool.false_eq_true, if_false]
    have em : Gemmlowp.sub32 (2 ^ 24) 1 = 2 ^ 24 - 1 := by decide
    rw [em, bitAnd32_mask a 24 (by decide)]
    have e24 : (2:Int) ^ 24 = 16777216 := by decide
    rw [e24]
    have hamq : -16777216 ≤ a % 16777216 - 16777216 ∧ a % 16777216 - 16777216 ≤ -1 := by omega
    have es : Gemmlowp.sub32 (a % 16777216) 16777216 = a % 16777216 - 16777216 := cast32_id _ (by omega) (by omega)
    rw [es]
    generalize a % 16777216 - 16777216 = amq at hamq
    rw [rescale5_val amq hamq.1 hamq.2]
    have hb := expOnInterval_bounds (amq * 32) (by omega) (by omega)
    generalize Gemmlowp.expOnInterval (amq * 32) = res0 at hb
    exact fold_nonneg (Gemmlowp.sub32 amq a) Gemmlowp.expBarrel (by decide) res0 (by omega) (by omega)


/-! ### the rescaling is monotone -/

theorem srdhm32_mono (a a' b : Int) (ha : inI32 a = true) (ha' : inI32 a' = true) (hb : inI32 b = true)
    (h : a ≤ a') (hb0 : 0 ≤ b) : Gemmlowp.srdhm32 a b ≤ Gemmlowp.srdhm32 a' b := by
  have h1 := (inI32_iff a).1 ha
  have h2 := (inI32_iff a').1 ha'
  have h3 := (inI32_iff b).1 hb
  have hmul : a * b ≤ a' * b := Int.mul_le_mul_of_nonneg_right h hb0
  have hne : ¬ (a = -2147483648 ∧ b = -2147483648) := by omega
  have hne' : ¬ (a' = -2147483648 ∧ b = -2147483648) := by omega
  have hp := prod32_bounds a b h1.1 h1.2 h3.1 h3.2 hne
  have hp' := prod32_bounds a' b h2.1 h2.2 h3.1 h3.2 hne'
  unfold Gemmlowp.srdhm32
  rw [int32Min_eq, int32Max_eq]
  simp only []
  have hov : ¬ ((a == b && a == i32min) = true) := by
    simp only [Bool.and_eq_true, beq_iff_eq]
    intro ⟨e1, e2⟩
    unfold i32min at e2
    omega
  have hov' : ¬ ((a' == b && a' == i32min) = true) := by
    simp only [Bool.and_eq_true, beq_iff_eq]
    intro ⟨e1, e2⟩
    unfold i32min at e2
    omega
  simp only [hov, hov', Bool.false_eq_true, if_false]
  generalize a * b = ab at hp hmul ⊢
  generalize a' * b = ab' at hp' hmul ⊢
  have hr := tdiv31_range (ab + if ab ≥ 0 then 2 ^ 30 else 1 - 2 ^ 30) (by split <;> omega) (by split <;> omega)
  have hr' := tdiv31_range (ab' + if ab' ≥ 0 then 2 ^ 30 else 1 - 2 ^ 30) (by split <;> omega) (by split <;> omega)
  rw [cast32_id _ hr.1 hr.2, cast32_id _ hr'.1 hr'.2]
  by_cases hz : ab ≥ 0
  · have hz' : ab' ≥ 0 := by omega
    simp only [hz, hz', if_true]
    rw [Int.tdiv_eq_ediv_of_nonneg (by omega), Int.tdiv_eq_ediv_of_nonneg (by omega)]
    omega
  · by_cases hz' : ab' ≥ 0
    · simp only [hz, hz', if_true, if_false]
      rw [tdiv_neg _ _ (by decide) (by omega), Int.tdiv_eq_ediv_of_nonneg (by omega)]
      split <;> omega
    · simp only [hz, hz', if_false]
      rw [tdiv_neg _ _ (by decide) (by omega), tdiv_neg _ _ (by decide) (by omega)]
      split <;> split <;> omega

/-- `2^ls` times a non-positive difference is monotone in the difference -/
theorem shifted_mono (d d' : Int) (ls : Nat) (h : d ≤ d') : d * 2 ^ ls ≤ d' * 2 ^ ls :=
  Int.mul_le_mul_of_nonneg_right h (by have := two_pow_pos ls; omega)

/-- the reference table is non-decreasing **if** gemmlowp's `exp_on_negative_values` is non-decreasing on the rescaled
    differences (hypothesis `hmono`; checked exhaustively over all 2^31 arguments by a C program, not proved in Lean) -/
theorem entry_mono (mult : Int) (ls : Nat) (hm1 : 0 ≤ mult) (hm2 : mult ≤ 2147483647)
    (hmono : ∀ a b : Int, -2147483648 ≤ a → a ≤ b → b ≤ 0 →
      Gemmlowp.expOnNegativeValues a ≤ Gemmlowp.expOnNegativeValues b)
    (x y : Nat) (hy : y < 256) (hxy : x < y) :
    SoftmaxRef.expEntry mult ls (-(SoftmaxRef.calculateInputRadius 5 ls)) ((x : Int) - 255) ≤
      SoftmaxRef.expEntry mult ls (-(SoftmaxRef.calculateInputRadius 5 ls)) ((y : Int) - 255) := by
  unfold SoftmaxRef.expEntry
  have hS : inI32 mult = true := inI32_of _ (by omega) (by omega)
  by_cases hgy : (y : Int) - 255 ≥ -(SoftmaxRef.calculateInputRadius 5 ls)
  · have hfy := shifted_fits ((y : Int) - 255) ls (by omega) hgy
    have hIy : inI32 (((y : Int) - 255) * 2 ^ ls) = true := inI32_of _ (by omega) (by omega)
    simp only [hgy, if_true]
    by_cases hgx : (x : Int) - 255 ≥ -(SoftmaxRef.calculateInputRadius 5 ls)
    · have hfx := shifted_fits ((x : Int) - 255) ls (by omega) hgx
      have hIx : inI32 (((x : Int) - 255) * 2 ^ ls) = true := inI32_of _ (by omega) (by omega)
      simp only [hgx, if_true]
      rw [cast32_id _ (by omega) (by omega), cast32_id _ (by omega) (by omega)]
      have hsm := shifted_mono ((x : Int) - 255) ((y : Int) - 255) ls (by omega)
      have hm := srdhm32_mono _ _ mult hIx hIy hS hsm hm1
      have hnp := srdhm32_nonpos _ _ hIy hS hfy.2 hm1
      have hlo := (inI32_iff _).1 (srdhm32_range (((x : Int) - 255) * 2 ^ ls) mult)
      exact hmono _ _ hlo.1 hm hnp
    · simp only [hgx, if_false]
      rw [cast32_id _ (by omega) (by omega)]
      exact (expOnNegativeValues_range _ (srdhm32_range _ _)).1
  · have hgx : ¬ ((x : Int) - 255 ≥ -(SoftmaxRef.calculateInputRadius 5 ls)) := by omega
    simp only [hgy, hgx, if_false]
    exact Int.le_refl 0

/-! ### the unnormalised multiplier `2^31` is rejected by the assert of `saturating_rounding_mul32`
(what happened before the renormalisation of commit 20248de; used by the `generateExpTableOld` witness only) -/

theorem mapM_err {α β : Type} (f : α → Except Err β) (E : Err) (l : List α)
    (h : ∀ x ∈ l, f x = .error E ∨ ∃ v, f x = .ok v) (hex : ∃ x ∈ l, f x = .error E) : l.mapM f = .error E := by
  induction l with
  | nil => obtain ⟨x, hx, _⟩ := hex; simp at hx
  | cons a t ih =>
    rcases h a (by simp) with ha | ⟨v, ha⟩
    · simp only [List.mapM_cons, ha]; rfl
    · have hex' : ∃ x ∈ t, f x = .error E := by
        obtain ⟨x, hx, hxe⟩ := hex
        rcases List.mem_cons.1 hx with rfl | hxt
        · rw [ha] at hxe; cases hxe
        · exact ⟨x, hxt, hxe⟩
      have ht := ih (fun x hx => h x (by simp [hx])) hex'
      simp only [List.mapM_cons, ha, ht]; rfl

theorem srm32_rejects_m31 (a : Int) : saturatingRoundingMul32 a 2147483648 = .error .assert_ := by
  unfold saturatingRoundingMul32 chk32
  cases h : inI32 a
  · rfl
  · have : inI32 2147483648 = false := by decide
    simp only [this]; rfl

theorem tableFrom_m31 (ls : Nat) : tableFrom 2147483648 (ls : Int) = .error (.fp .assert_) := by
  unfold tableFrom
  rw [diffMin_ok]
  apply mapM_err
  · intro x _
    unfold expEntry
    simp only []
    by_cases hc : ((x : Int) - 255 ≥ -(SoftmaxRef.calculateInputRadius 5 ls))
    · left
      simp only [hc, if_true]
      rw [srm32_rejects_m31]; rfl
    · right
      simp only [hc, if_false]
      exact ⟨0, rfl⟩
  · refine ⟨255, by simp, ?_⟩
    unfold expEntry
    have hR : 0 ≤ SoftmaxRef.calculateInputRadius 5 ls := by
      unfold SoftmaxRef.calculateInputRadius
      exact Int.ediv_nonneg (by decide) (by have := two_pow_pos ls; omega)
    have : (((255 : Nat) : Int) - 255 ≥ -(SoftmaxRef.calculateInputRadius 5 ls)) := by omega
    simp only [this, if_true]
    rw [srm32_rejects_m31]; rfl


/-- the regular branch when the multiplier *does* round up to `2^31`: `quantise_scale` keeps `2^31`,
    TFLite renormalises to `(2^30, shift + 1)` (and so does `generate_exp_table` since commit 20248de:
    `generate_carry` below) -/
theorem unclamped_carry (q : Nat) (k : Int) (h1 : 2 ^ 52 ≤ q) (h2 : q < 2 ^ 53)
    (hk : 0 < k - 26) (hle : q ≤ (2 ^ 31 - 1) * 2 ^ (k - 26).toNat) (hgt : q > 2 ^ (k - 26).toNat)
    (hcarry : (q + 2 ^ 21) / 2 ^ 22 = 2 ^ 31) :
    (48 ≤ k ∧ k ≤ 78) ∧
    quantiseScale (pyMin (.fin false q (26 - k)) maxRealMultiplier) =
      .ok (2147483648, 31 - (((79 - k).toNat : Nat) : Int)) ∧
    SoftmaxRef.quantizeMultiplierGreaterThanOne (SoftmaxRef.scaledClamped q k).1 (SoftmaxRef.scaledClamped q k).2 =
      some (1073741824, (80 - k).toNat) := by
  generalize hj : (k - 26).toNat = j at hle hgt
  have hkj : k = (j : Int) + 26 := by omega
  have hj1 : 22 ≤ j := by
    have : (2:Nat) ^ 31 - 1 < 2 ^ 31 := by decide
    have h3 : (2 ^ 31 - 1) * 2 ^ j < 2 ^ 31 * 2 ^ j := Nat.mul_lt_mul_of_pos_right this (Nat.pow_pos (by decide))
    have h4 : (2:Nat) ^ 52 < 2 ^ (31 + j) := by rw [Nat.pow_add]; omega
    have := (Nat.pow_lt_pow_iff_right (by decide : 1 < 2)).1 h4
    omega
  have hj2 : j ≤ 52 := by
    have h4 : (2:Nat) ^ j < 2 ^ 53 := by omega
    have := (Nat.pow_lt_pow_iff_right (by decide : 1 < 2)).1 h4
    omega
  refine ⟨by omega, ?_, ?_⟩
  · have hnlt : Dbl.lt maxRealMultiplier (.fin false q (26 - k)) = false := by
      unfold maxRealMultiplier
      show magLt 2147483647 0 q (26 - k) = false
      unfold magLt
      simp only [decide_eq_false_iff_not]
      have hm : min (0:Int) (26 - k) = 26 - k := by omega
      rw [hm]
      have e1 : (0 - (26 - k)).toNat = j := by omega
      have e2 : (26 - k - (26 - k)).toNat = 0 := by simp
      rw [e1, e2]
      simp only [Nat.pow_zero, Nat.mul_one]
      have : (2:Nat) ^ 31 - 1 = 2147483647 := by decide
      omega
    unfold pyMin
    simp only [hnlt, Bool.false_eq_true, if_false]
    rw [quantiseScale_norm q (26 - k) h1 h2, quantiseNorm_in q (26 - k) (by omega) (by omega), sigQ31_eq q h2, hcarry]
    congr 2
    omega
  · have hsc : SoftmaxRef.scaledClamped q k = (q, k - 26) := by
      unfold SoftmaxRef.scaledClamped
      have hn : ¬ (k - 26 ≤ 0 ∨ q > (2 ^ 31 - 1) * 2 ^ (k - 26).toNat) := by
        rw [hj]; omega
      simp only [hn, if_false]
    rw [hsc]
    unfold SoftmaxRef.quantizeMultiplierGreaterThanOne Gemmlowp.quantizeMultiplier
    have hk0 : ¬ (k - 26 < 0) := by omega
    simp only [hk0, if_false, hj, hgt, decide_true, not_true_eq_false]
    simp only [hcarry, if_true]
    have hs1 : ¬ ((53:Int) - (k - 26) + 1 < -31) := by omega
    simp only [hs1, if_false]
    have hs2 : ¬ ((53:Int) - (k - 26) + 1 < 0) := by omega
    simp only [hs2, if_false]
    congr 2
    omega

/-- the carry case end to end: the repaired `generate_exp_table` yields the table of the reference's renormalised pair -/
theorem generate_carry (q : Nat) (k : Int) (h1 : 2 ^ 52 ≤ q) (h2 : q < 2 ^ 53)
    (hk : 0 < k - 26) (hle : q ≤ (2 ^ 31 - 1) * 2 ^ (k - 26).toNat) (hgt : q > 2 ^ (k - 26).toNat)
    (hcarry : (q + 2 ^ 21) / 2 ^ 22 = 2 ^ 31) :
    generateExpTable (.fin false q (26 - k)) = .ok (SoftmaxRef.expTable 1073741824 (80 - k).toNat) := by
  obtain ⟨hkb, hq, _⟩ := unclamped_carry q k h1 h2 hk hle hgt hcarry
  have e : (80 - k).toNat = (79 - k).toNat + 1 := by omega
  rw [e]
  exact generate_of_pair_m31 _ _ hq

end VelaVerif.SoftmaxTable
