import VelaVerif.Lemmas.Sem
/-! Helper lemmas for the executor theorems of `Props/C01.lean`: indexing of nested range lists, `mapM` in `Except`. -/
namespace VelaVerif.Lemmas.Exec
open VelaVerif.Requant VelaVerif.TfliteRef VelaVerif.Lemmas.Sem VelaVerif.NpuSem VelaVerif.Footprint VelaVerif.Decode

theorem length_flatMap_range {α : Type} (m n : Nat) (g : Nat → List α) (hlen : ∀ i, (g i).length = n) :
    ((List.range m).flatMap g).length = m * n := by
  induction m with
  | zero => simp
  | succ k ih =>
    rw [List.range_succ, List.flatMap_append, List.length_append, ih]
    simp [hlen, Nat.succ_mul]

theorem flatMap_range_get {α : Type} (m n : Nat) (g : Nat → List α) (hlen : ∀ i, (g i).length = n)
    (i j : Nat) (hi : i < m) (hj : j < n) : ((List.range m).flatMap g)[i * n + j]? = (g i)[j]? := by
  induction m with
  | zero => omega
  | succ k ih =>
    rw [List.range_succ, List.flatMap_append]
    have hl := length_flatMap_range k n g hlen
    by_cases hik : i < k
    · have hlt : i * n + j < ((List.range k).flatMap g).length := by
        rw [hl]
        have : i * n + n ≤ k * n := by
          have := Nat.mul_le_mul_right n (show i + 1 ≤ k by omega)
          rw [Nat.add_mul, Nat.one_mul] at this
          exact this
        omega
      rw [List.getElem?_append_left hlt]
      exact ih hik
    · have hik' : i = k := by omega
      subst hik'
      have hge : ((List.range i).flatMap g).length ≤ i * n + j := by rw [hl]; omega
      rw [List.getElem?_append_right hge, hl]
      simp only [List.flatMap_cons, List.flatMap_nil, List.append_nil]
      have : i * n + j - i * n = j := by omega
      rw [this]

theorem nested_range_get {α : Type} (oh ow od : Nat) (f : Nat → Nat → Nat → α) (oy ox oc : Nat)
    (hy : oy < oh) (hx : ox < ow) (hc : oc < od) :
    ((List.range oh).flatMap fun oy => (List.range ow).flatMap fun ox => (List.range od).map fun oc => f oy ox oc)[(oy * ow + ox) * od + oc]? =
      some (f oy ox oc) := by
  have hin : ∀ y, ((List.range ow).flatMap fun ox => (List.range od).map fun oc => f y ox oc).length = ow * od :=
    fun y => length_flatMap_range ow od _ (fun _ => by simp)
  have e : (oy * ow + ox) * od + oc = oy * (ow * od) + (ox * od + oc) := by
    rw [Nat.add_mul, Nat.mul_assoc]; omega
  have hlt : ox * od + oc < ow * od := by
    have := Nat.mul_le_mul_right od (show ox + 1 ≤ ow by omega)
    rw [Nat.add_mul, Nat.one_mul] at this
    omega
  rw [e, flatMap_range_get oh (ow * od) _ hin oy (ox * od + oc) hy hlt,
      flatMap_range_get ow od _ (fun _ => by simp) ox oc hx hc]
  simp [hc]

theorem mapM_except_get {α β : Type} (f : α → Except String β) : ∀ (l : List α) (r : List β), l.mapM f = .ok r →
    r.length = l.length ∧ ∀ (i : Nat) (a : α), l[i]? = some a → ∃ v, r[i]? = some v ∧ f a = .ok v := by
  intro l
  induction l with
  | nil =>
    intro r h
    simp only [List.mapM_nil] at h
    cases h
    exact ⟨rfl, fun i a hi => by simp at hi⟩
  | cons x xs ih =>
    intro r h
    rw [List.mapM_cons] at h
    cases hx : f x with
    | error e => rw [hx] at h; cases h
    | ok v =>
      rw [hx] at h
      cases hxs : xs.mapM f with
      | error e => rw [hxs] at h; cases h
      | ok vs =>
        rw [hxs] at h
        cases h
        have ⟨hl, hg⟩ := ih vs hxs
        refine ⟨by simp [hl], ?_⟩
        intro i a hi
        cases i with
        | zero =>
          simp only [List.getElem?_cons_zero, Option.some.injEq] at hi
          subst hi
          exact ⟨v, by simp, hx⟩
        | succ k =>
          simp only [List.getElem?_cons_succ] at hi ⊢
          exact hg k a hi

theorem coords3_get (h w d y x c : Nat) (hy : y < h) (hx : x < w) (hc : c < d) :
    (coords3 h w d)[(y * w + x) * d + c]? = some (y, x, c) := by
  unfold coords3
  exact nested_range_get h w d (fun y x c => (y, x, c)) y x c hy hx hc

theorem convAcc_congr_inrange (H W C : Nat) (f g : Nat → Nat → Nat → Int) (hfg : ∀ y x c, y < H → x < W → c < C → f y x c = g y x c)
    (kh kw : Nat) (wgt : Nat → Nat → Nat → Int) (sy sx dy dx pt pl : Nat) (zp : Int) (oy ox : Nat) :
    NpuSem.convAcc H W C f kh kw wgt sy sx dy dx pt pl zp oy ox = NpuSem.convAcc H W C g kh kw wgt sy sx dy dx pt pl zp oy ox := by
  unfold NpuSem.convAcc
  apply sumRange_congr; intro ky _
  apply sumRange_congr; intro kx _
  simp only []
  split
  · rename_i h
    apply sumRange_congr; intro ic hic
    rw [hfg _ _ _ h.2.1 h.2.2.2 hic]
  · rfl


end VelaVerif.Lemmas.Exec
