import VelaVerif.Lemmas.Sem
/-! Helper lemmas for the executor theorems of `Props/C01.lean`: indexing of nested range lists, `mapM` in `Except`. -/
namespace VelaVerif.Lemmas.Exec
open VelaVerif.Requant VelaVerif.TfliteRef VelaVerif.Lemmas.Sem VelaVerif.NpuSem VelaVerif.Footprint VelaVerif.Decode

theorem length_flatMap_range {α : Type} (m n : Nat) (g : Nat → List α) (hlen : ∀ i, (g i).length = n) :
    ((List.range m).flatMap g).length = m * n := by
  induction m with
  | zero => simp
  | succ k ih =>
    rw [List.range_succ, List.flatMap_append, List.length_append, ih]
    simp [hlen, Nat.succ_mul]

theorem flatMap_range_get {α : Type} (m n : Nat) (g : Nat → List α) (hlen : ∀ i, (g i).length = n)
    (i j : Nat) (hi : i < m) (hj : j < n) : ((List.range m).flatMap g)[i * n + j]? = (g i)[j]? := by
  induction m with
  | zero => omega
  | succ k ih =>
    rw [List.range_succ, List.flatMap_append]
    have hl := length_flatMap_range k n g hlen
    by_cases hik : i < k
    · have hlt : i * n + j < ((List.range k).flatMap g).length := by
        rw [hl]
        have : i * n + n ≤ k * n := by
          have := Nat.mul_le_mul_right n (show i + 1 ≤ k by omega)
          rw [Nat.add_mul, Nat.one_mul] at this
          exact this
        omega
      rw [List.getElem?_append_left hlt]
      exact ih hik
    · have hik' : i = k := by omega
      subst hik'
      have hge : ((List.range i).flatMap g).length ≤ i * n + j := by rw [hl]; omega
      rw [List.getElem?_append_right hge, hl]
      simp only [List.flatMap_cons, List.flatMap_nil, List.append_nil]
      have : i * n + j - i * n = j := by omega
      rw [this]

theorem nested_range_get {α : Type} (oh ow od : Nat) (f : Nat → Nat → Nat → α) (oy ox oc : Nat)
    (hy : oy < oh) (hx : ox < ow) (hc : oc < od) :
    ((List.range oh).flatMap fun oy => (List.range ow).flatMap fun ox => (List.range od).map fun oc => f oy ox oc)[(oy * ow + ox) * od + oc]? =
      some (f oy ox oc) := by
  have hin : ∀ y, ((List.range ow).flatMap fun ox => (List.range od).map fun oc => f y ox oc).length = ow * od :=
    fun y => length_flatMap_range ow od _ (fun _ => by simp)
  have e : (oy * ow + ox) * od + oc = oy * (ow * od) + (ox * od + oc) := by
    rw [Nat.add_mul, Nat.mul_assoc]; omega
  have hlt : ox * od + oc < ow * od := by
    have := Nat.mul_le_mul_right od (show ox + 1 ≤ ow by omega)
    rw [Nat.add_mul, Nat.one_mul] at this
    omega
  rw [e, flatMap_range_get oh (ow * od) _ hin oy (ox * od + oc) hy hlt,
      flatMap_range_get ow od _ (fun _ => by simp) ox oc hx hc]
  simp [hc]

theorem mapM_except_get {α β : Type} (f : α → Except String β) : ∀ (l : List α) (r : List β), l.mapM f = .ok r →
    r.length = l.length ∧ ∀ (i : Nat) (a : α), l[i]? = some a → ∃ v, r[i]? = some v ∧ f a = .ok v := by
  intro l
  induction l with
  | nil =>
    intro r h
    simp only [List.mapM_nil] at h
    cases h
    exact ⟨rfl, fun i a hi => by simp at hi⟩
  | cons x xs ih =>
    intro r h
    rw [List.mapM_cons] at h
    cases hx : f x with
    | error e => rw [hx] at h; cases h
    | ok v =>
      rw [hx] at h
      cases hxs : xs.mapM f with
      | error e => rw [hxs] at h; cases h
      | ok vs =>
        rw [hxs] at h
        cases h
        have ⟨hl, hg⟩ := ih vs hxs
        refine ⟨by simp [hl], ?_⟩
        intro i a hi
        cases i with
        | zero =>
          simp only [List.getElem?_cons_zero, Option.some.injEq] at hi
          subst hi
          exact ⟨v, by simp, hx⟩
        | succ k =>
          simp only [List.getElem?_cons_succ] at hi ⊢
          exact hg k a hi

theorem coords3_get (h w d y x c : Nat) (hy : y < h) (hx : x < w) (hc : c < d) :
    (coords3 h w d)[(y * w + x) * d + c]? = some (y, x, c) := by
  unfold coords3
  exact nested_range_get h w d (fun y x c => (y, x, c)) y x c hy hx hc

theorem convAcc_congr_inrange (H W C : Nat) (f g : Nat → Nat → Nat → Int) (hfg : ∀ y x c, y < H → x < W → c < C → f y x c = g y x c)
    (kh kw : Nat) (wgt : Nat → Nat → Nat → Int) (sy sx dy dx pt pl : Nat) (zp : Int) (oy ox : Nat) :
    NpuSem.convAcc H W C f kh kw wgt sy sx dy dx pt pl zp oy ox = NpuSem.convAcc H W C g kh kw wgt sy sx dy dx pt pl zp oy ox := by
  unfold NpuSem.convAcc
  apply sumRange_congr; intro ky _
  apply sumRange_congr; intro kx _
  simp only []
  split
  · rename_i h
    apply sumRange_congr; intro ic hic
    rw [hfg _ _ _ h.2.1 h.2.2.2 hic]
  · rfl


/-! ## Bytes: `putElem`, `readUnsigned`, the writes of `scatter` -/

theorem ba_get_set_same (b : ByteArray) (i : Nat) (v : UInt8) (h : i < b.size) : (b.set! i v).get! i = v := by
  cases b with | mk bs =>
  simp only [ByteArray.set!, ByteArray.get!]
  have h' : i < bs.size := h
  simp [Array.set!, getElem!_pos, Array.size_setIfInBounds, h']

theorem ba_get_set_other (b : ByteArray) (i j : Nat) (v : UInt8) (h : i ≠ j) : (b.set! i v).get! j = b.get! j := by
  cases b with | mk bs =>
  simp only [ByteArray.set!, ByteArray.get!]
  by_cases hj : j < bs.size
  · simp [Array.set!, getElem!_pos, Array.size_setIfInBounds, hj, h]
  · simp [Array.set!, getElem!_neg, Array.size_setIfInBounds, hj]


def setBytes (b : ByteArray) (addr u n : Nat) : ByteArray :=
  (List.range n).foldl (fun (acc : ByteArray) i => acc.set! (addr + i) (UInt8.ofNat (u / 256 ^ i % 256))) b

theorem putElem_eq (b : ByteArray) (addr n : Nat) (v : Int) :
    putElem b addr n v = setBytes b addr (v % (2 : Int) ^ (8 * n)).toNat n := rfl

theorem setBytes_succ (b : ByteArray) (addr u n : Nat) :
    setBytes b addr u (n + 1) = (setBytes b addr u n).set! (addr + n) (UInt8.ofNat (u / 256 ^ n % 256)) := by
  unfold setBytes
  rw [List.range_succ, List.foldl_append]
  rfl

theorem setBytes_size (b : ByteArray) (addr u n : Nat) : (setBytes b addr u n).size = b.size := by
  induction n with
  | zero => rfl
  | succ k ih => rw [setBytes_succ, ByteArray.size_set!, ih]

theorem setBytes_get_out (b : ByteArray) (addr u n k : Nat) (h : k < addr ∨ addr + n ≤ k) :
    (setBytes b addr u n).get! k = b.get! k := by
  induction n with
  | zero => rfl
  | succ j ih =>
    rw [setBytes_succ, ba_get_set_other _ _ _ _ (by omega), ih (by omega)]

theorem setBytes_get_in (b : ByteArray) (addr u n i : Nat) (hi : i < n) (hs : addr + n ≤ b.size) :
    (setBytes b addr u n).get! (addr + i) = UInt8.ofNat (u / 256 ^ i % 256) := by
  induction n with
  | zero => omega
  | succ j ih =>
    rw [setBytes_succ]
    by_cases hij : i = j
    · subst hij
      rw [ba_get_set_same _ _ _ (by rw [setBytes_size]; omega)]
    · rw [ba_get_set_other _ _ _ _ (by omega), ih (by omega) (by omega)]

/-- base-256 digits reassemble the number -/
theorem digits_sum (u n : Nat) (h : u < 256 ^ n) :
    (List.range n).foldl (fun v i => v + (u / 256 ^ i % 256) * 256 ^ i) 0 = u := by
  have gen : ∀ n, (List.range n).foldl (fun v i => v + (u / 256 ^ i % 256) * 256 ^ i) 0 = u % 256 ^ n := by
    intro n
    induction n with
    | zero => simp [Nat.mod_one]
    | succ k ih =>
      rw [List.range_succ, List.foldl_append, ih]
      simp only [List.foldl]
      rw [Nat.pow_succ, Nat.mod_mul, Nat.mul_comm]
  rw [gen n, Nat.mod_eq_of_lt h]


theorem foldlM_ok {α β : Type} (f : β → α → Except String β) (g : β → α → β) (l : List α)
    (h : ∀ v a, a ∈ l → f v a = .ok (g v a)) : ∀ init, l.foldlM f init = .ok (l.foldl g init) := by
  induction l with
  | nil => intro init; rfl
  | cons x xs ih =>
    intro init
    rw [List.foldlM_cons, h init x List.mem_cons_self]
    exact ih (fun v a ha => h v a (List.mem_cons_of_mem x ha)) (g init x)

theorem readByte_ok (m : Mem) (region s addr : Nat) (hs : regionSlot region = some s)
    (ha : addr < (m.regions.getD s ByteArray.empty).size) :
    m.readByte region addr = .ok ((m.regions.getD s ByteArray.empty).get! addr).toNat := by
  unfold Mem.readByte
  rw [hs]
  simp only [ha, if_true]
  rfl

theorem readUnsigned_ok (m : Mem) (region s addr n : Nat) (hs : regionSlot region = some s)
    (ha : addr + n ≤ (m.regions.getD s ByteArray.empty).size) :
    m.readUnsigned region addr n =
      .ok ((List.range n).foldl (fun v i => v + ((m.regions.getD s ByteArray.empty).get! (addr + i)).toNat * 256 ^ i) 0) := by
  unfold Mem.readUnsigned
  apply foldlM_ok
  intro v i hi
  have hi' : i < n := List.mem_range.mp hi
  rw [readByte_ok m region s (addr + i) hs (by omega)]
  rfl

/-- reading back `n` bytes written by `setBytes` gives the number written -/
theorem read_setBytes (b : ByteArray) (addr u n : Nat) (hu : u < 256 ^ n) (hs : addr + n ≤ b.size) :
    (List.range n).foldl (fun v i => v + ((setBytes b addr u n).get! (addr + i)).toNat * 256 ^ i) 0 = u := by
  have e : ∀ (l : List Nat), (∀ i ∈ l, i < n) → ∀ init,
      l.foldl (fun v i => v + ((setBytes b addr u n).get! (addr + i)).toNat * 256 ^ i) init =
      l.foldl (fun v i => v + (u / 256 ^ i % 256) * 256 ^ i) init := by
    intro l
    induction l with
    | nil => intro _ init; rfl
    | cons x xs ih =>
      intro hl init
      simp only [List.foldl]
      rw [setBytes_get_in b addr u n x (hl x List.mem_cons_self) hs]
      have : (UInt8.ofNat (u / 256 ^ x % 256)).toNat = u / 256 ^ x % 256 := by
        simp [UInt8.toNat_ofNat, Nat.mod_mod]
      rw [this]
      exact ih (fun i hi => hl i (List.mem_cons_of_mem x hi)) _
  rw [e (List.range n) (fun i hi => List.mem_range.mp hi) 0]
  exact digits_sum u n hu


section Writes
variable {ε : Type} (region n : Nat) (addr : ε → Nat) (val : ε → Int)

def step (b : ByteArray) (e : ε) : Except String ByteArray := writeElem region n b (addr e) (val e)

theorem writeElem_ok (b b1 : ByteArray) (a : Nat) (v : Int) (h : writeElem region n b a v = .ok b1) :
    a + n ≤ b.size ∧ b1 = putElem b a n v := by
  unfold writeElem at h
  split at h
  · cases h
  · rename_i hle
    cases h
    exact ⟨by omega, rfl⟩

theorem writes_size (l : List ε) : ∀ (b b' : ByteArray), l.foldlM (step region n addr val) b = .ok b' → b'.size = b.size := by
  induction l with
  | nil => intro b b' h; cases h; rfl
  | cons x xs ih =>
    intro b b' h
    rw [List.foldlM_cons] at h
    cases h1 : step region n addr val b x with
    | error e => rw [h1] at h; cases h
    | ok b1 =>
      rw [h1] at h
      have ⟨_, e1⟩ := writeElem_ok region n b b1 _ _ h1
      have := ih b1 b' h
      rw [this, e1, putElem_eq, setBytes_size]

theorem writes_untouched (l : List ε) : ∀ (b b' : ByteArray), l.foldlM (step region n addr val) b = .ok b' →
    ∀ k, (∀ e, e ∈ l → k < addr e ∨ addr e + n ≤ k) → b'.get! k = b.get! k := by
  induction l with
  | nil => intro b b' h k _; cases h; rfl
  | cons x xs ih =>
    intro b b' h k hk
    rw [List.foldlM_cons] at h
    cases h1 : step region n addr val b x with
    | error e => rw [h1] at h; cases h
    | ok b1 =>
      rw [h1] at h
      have ⟨_, e1⟩ := writeElem_ok region n b b1 _ _ h1
      rw [ih b1 b' h k (fun e he => hk e (List.mem_cons_of_mem x he)), e1, putElem_eq,
        setBytes_get_out _ _ _ _ _ (hk x List.mem_cons_self)]

theorem writes_readback (l : List ε) : ∀ (b b' : ByteArray), l.foldlM (step region n addr val) b = .ok b' →
    ∀ (idx : Nat) (e : ε), l[idx]? = some e →
      (∀ (j : Nat) (e' : ε), l[j]? = some e' → j ≠ idx → addr e + n ≤ addr e' ∨ addr e' + n ≤ addr e) →
      addr e + n ≤ b'.size ∧
      ∀ i, i < n → b'.get! (addr e + i) = UInt8.ofNat ((val e % (2 : Int) ^ (8 * n)).toNat / 256 ^ i % 256) := by
  induction l with
  | nil => intro b b' _ idx e he; simp at he
  | cons x xs ih =>
    intro b b' h idx e he hd
    rw [List.foldlM_cons] at h
    cases h1 : step region n addr val b x with
    | error er => rw [h1] at h; cases h
    | ok b1 =>
      rw [h1] at h
      have ⟨hb, e1⟩ := writeElem_ok region n b b1 _ _ h1
      have hsz1 : b1.size = b.size := by rw [e1, putElem_eq, setBytes_size]
      have hsz : b'.size = b1.size := writes_size region n addr val xs b1 b' h
      cases idx with
      | zero =>
        simp only [List.getElem?_cons_zero, Option.some.injEq] at he
        subst he
        refine ⟨by omega, ?_⟩
        intro i hi
        have hun := writes_untouched region n addr val xs b1 b' h (addr x + i) (by
          intro e' he'
          obtain ⟨j, hj⟩ := List.getElem?_of_mem he'
          have := hd (j + 1) e' (by simpa using hj) (by omega)
          omega)
        rw [hun, e1, putElem_eq, setBytes_get_in _ _ _ _ _ hi hb]
      | succ k =>
        simp only [List.getElem?_cons_succ] at he
        have := ih b1 b' h k e he (by
          intro j e' hj hne
          exact hd (j + 1) e' (by simpa using hj) (by omega))
        exact this
end Writes



theorem coords3_get_inv (h w d j : Nat) (e : Nat × Nat × Nat) (hj : (coords3 h w d)[j]? = some e) :
    e.1 < h ∧ e.2.1 < w ∧ e.2.2 < d ∧ j = (e.1 * w + e.2.1) * d + e.2.2 := by
  have hlen : (coords3 h w d).length = h * (w * d) := by
    unfold coords3
    exact length_flatMap_range h (w * d) _ (fun y => length_flatMap_range w d _ (fun _ => by simp))
  have hjl : j < h * (w * d) := by
    have := (List.getElem?_eq_some_iff.mp hj).1
    omega
  have hwd : 0 < w * d := by
    rcases Nat.eq_zero_or_pos (w * d) with hz | hp
    · rw [hz] at hjl; omega
    · exact hp
  have hd : 0 < d := by
    rcases Nat.eq_zero_or_pos d with hz | hp
    · rw [hz] at hwd; omega
    · exact hp
  have hw : 0 < w := by
    rcases Nat.eq_zero_or_pos w with hz | hp
    · rw [hz] at hwd; omega
    · exact hp
  have hy : j / (w * d) < h := (Nat.div_lt_iff_lt_mul hwd).mpr hjl
  have hr : j % (w * d) < w * d := Nat.mod_lt _ hwd
  have hx : j % (w * d) / d < w := (Nat.div_lt_iff_lt_mul hd).mpr hr
  have hc : j % (w * d) % d < d := Nat.mod_lt _ hd
  have hidx : (j / (w * d) * w + j % (w * d) / d) * d + j % (w * d) % d = j := by
    have h1 := Nat.div_add_mod j (w * d)
    have h2 := Nat.div_add_mod (j % (w * d)) d
    rw [Nat.add_mul, Nat.mul_assoc]
    have h3 : j % (w * d) / d * d = d * (j % (w * d) / d) := Nat.mul_comm _ _
    have h4 : j / (w * d) * (w * d) = w * d * (j / (w * d)) := Nat.mul_comm _ _
    omega
  have := coords3_get h w d (j / (w * d)) (j % (w * d) / d) (j % (w * d) % d) hy hx hc
  rw [hidx, hj] at this
  cases this
  exact ⟨hy, hx, hc, hidx.symm⟩

theorem pow_8n (n : Nat) : (2 : Nat) ^ (8 * n) = 256 ^ n := by
  rw [Nat.pow_mul]


/-! ## A concrete block for the non-vacuity examples of `Props/C01.lean` -/
/-- a 1x2x1 int8 IFM at scratch offset 0, 1x1 kernel of weight 3, scale record (bias 1, scale 2^30, shift 30) in the
    constants region, 1x2x1 OFM at scratch offset 4 -/
def exFm (base : Nat) : FM := { region := 1, base := [base, 0, 0, 0], height0 := 1, height1 := 1, width0 := 2, strideX := 1, strideY := 2, strideC := 1, height := 1, width := 2, depth := 1, elemBytes := 1, signed := true, nhcwb16 := false, zeroPoint := 0 }

def exBlock : BlockOp := { kind := .conv, subOp := 0, ifm := (exFm 0), ifm2 := none, ifm2Scalar := none, ifm2Broadcast := 0, ofm := (exFm 4), kernelW := 1, kernelH := 1, strideX := 1, strideY := 1, dilationX := 1, dilationY := 1, partKernelFirst := false, padTop := 0, padLeft := 0, padBottom := 0, padRight := 0, upscale := 0, weights := [], scales := [⟨0, 0, 10⟩], activation := 0, actMin := -128, actMax := 127, blkW := 1, blkH := 1, blkD := 1, ibEnd := 0, abStart := 0, ib2Start := none, accFormat := 0, blockdep := 0, ofmPrecision := 0, ifmPrecision := 0, ofmScale := none, opaScale := none, opbScale := none }

def exMem : Mem := { regions := #[ByteArray.mk #[1, 0, 0, 0, 0, 0, 0, 0, 64, 30], ByteArray.mk #[5, 250, 0, 0, 0, 0, 0, 0], ByteArray.empty, ByteArray.empty] }
def exW : Weights := { oc := 1, kh := 1, kw := 1, ic := 1, vals := #[3] }


end VelaVerif.Lemmas.Exec
