import VelaVerif.Model.MlwDecode
/-!
Lemmas about the reader monad of `Model/MlwDecode.lean`: every action only consumes bits
(`Adv`), and the fuel handed to the two loops is never exhausted.
-/
namespace VelaVerif.Mlw

/-- `b'` is `b` after consuming at least `k` bits -/
def Adv (b b' : Bits) (k : Nat) : Prop :=
  b'.rest.length + k ≤ b.rest.length ∧ b'.pos + b'.rest.length = b.pos + b.rest.length

theorem Adv.refl (b : Bits) : Adv b b 0 := ⟨by omega, rfl⟩

theorem Adv.trans {b b' b'' : Bits} {j k : Nat} (h1 : Adv b b' j) (h2 : Adv b' b'' k) : Adv b b'' (j + k) := by
  unfold Adv at *; omega

theorem Adv.weaken {b b' : Bits} {j k : Nat} (h : Adv b b' j) (hk : k ≤ j) : Adv b b' k := by
  unfold Adv at *; omega

/-- every successful run of `m` consumes at least `k` bits -/
def Mono (m : Rd α) (k : Nat) : Prop := ∀ b a b', m b = .ok (a, b') → Adv b b' k

/-- `m` started on `b` does not run out of fuel -/
def NoFuelAt (m : Rd α) (b : Bits) : Prop := m b ≠ .error .fuel

theorem bind_eq (m : Rd α) (f : α → Rd β) : (m >>= f) = Rd.bind m f := rfl
theorem pure_eq (a : α) : (pure a : Rd α) = Rd.pure a := rfl

theorem bind_ok {m : Rd α} {f : α → Rd β} {b b'' : Bits} {c : β} :
    Rd.bind m f b = .ok (c, b'') ↔ ∃ a b', m b = .ok (a, b') ∧ f a b' = .ok (c, b'') := by
  unfold Rd.bind
  cases h : m b with
  | error e => simp
  | ok p =>
    obtain ⟨a, b'⟩ := p
    constructor
    · intro h2; exact ⟨a, b', rfl, h2⟩
    · rintro ⟨a2, b2, h1, h2⟩
      cases h1; exact h2

theorem bind_err {m : Rd α} {f : α → Rd β} {b : Bits} {e : DecErr} :
    Rd.bind m f b = .error e ↔ m b = .error e ∨ ∃ a b', m b = .ok (a, b') ∧ f a b' = .error e := by
  unfold Rd.bind
  cases h : m b with
  | error e' => simp
  | ok p =>
    obtain ⟨a, b'⟩ := p
    constructor
    · intro h2; exact Or.inr ⟨a, b', rfl, h2⟩
    · rintro (h1 | ⟨a2, b2, h1, h2⟩)
      · cases h1
      · cases h1; exact h2

theorem pure_ok {a c : α} {b b' : Bits} : Rd.pure a b = .ok (c, b') ↔ a = c ∧ b = b' := by
  unfold Rd.pure; simp

theorem pure_err {a : α} {b : Bits} {e : DecErr} : Rd.pure a b = .error e ↔ False := by
  unfold Rd.pure; simp

theorem takeBits_length : ∀ (n : Nat) (r : List Bool) (v : Nat) (r' : List Bool),
    takeBits n r = some (v, r') → r'.length + n = r.length
  | 0, r, v, r', h => by simp [takeBits] at h; obtain ⟨_, rfl⟩ := h; rfl
  | n + 1, [], v, r', h => by simp [takeBits] at h
  | n + 1, x :: r, v, r', h => by
    simp only [takeBits] at h
    cases h2 : takeBits n r with
    | none => simp [h2] at h
    | some p =>
      obtain ⟨v2, r2⟩ := p
      simp [h2] at h
      have := takeBits_length n r v2 r2 h2
      obtain ⟨_, rfl⟩ := h
      simp only [List.length_cons]; omega

theorem get_ok {n : Nat} {b b' : Bits} {v : Nat} (h : get n b = .ok (v, b')) : Adv b b' n := by
  unfold get at h
  cases h2 : takeBits n b.rest with
  | none => simp [h2] at h
  | some p =>
    obtain ⟨v2, r2⟩ := p
    simp [h2] at h
    have := takeBits_length n b.rest v2 r2 h2
    obtain ⟨_, rfl⟩ := h
    unfold Adv; simp; omega

theorem get_err {n : Nat} {b : Bits} {e : DecErr} (h : get n b = .error e) : e = .underrun := by
  unfold get at h
  cases h2 : takeBits n b.rest with
  | none => simp [h2] at h; exact h.symm
  | some p => obtain ⟨v2, r2⟩ := p; simp [h2] at h

theorem takeBits_none : ∀ (n : Nat) (r : List Bool), r.length < n → takeBits n r = none
  | 0, r, h => by omega
  | n + 1, [], _ => by simp [takeBits]
  | n + 1, x :: r, h => by
    simp only [takeBits]
    rw [takeBits_none n r (by simp only [List.length_cons] at h; omega)]

/-- a read that would pass the end of the buffer is reported -/
theorem get_underrun {n : Nat} {b : Bits} (h : b.rest.length < n) : get n b = .error .underrun := by
  unfold get; rw [takeBits_none n b.rest h]

theorem mono_get (n : Nat) : Mono (get n) n := fun _ _ _ h => get_ok h

theorem getRemains_ok : ∀ (div : Nat) (qs : List Nat) (b b' : Bits) (rs : List Nat),
    getRemains div qs b = .ok (rs, b') → Adv b b' 0
  | _, [], b, b', rs, h => by
    simp only [getRemains, pure_eq, pure_ok] at h
    obtain ⟨_, rfl⟩ := h; exact Adv.refl _
  | div, q :: qs, b, b', rs, h => by
    simp only [getRemains, bind_eq, pure_eq, bind_ok, pure_ok] at h
    obtain ⟨r, b1, h1, rest, b2, h2, _, rfl⟩ := h
    exact ((get_ok h1).trans (getRemains_ok div qs b1 b2 rest h2)).weaken (by omega)

theorem getRemains_err : ∀ (div : Nat) (qs : List Nat) (b : Bits) (e : DecErr),
    getRemains div qs b = .error e → e = .underrun
  | _, [], b, e, h => by simp [getRemains, pure_eq, pure_err] at h
  | div, q :: qs, b, e, h => by
    simp only [getRemains, bind_eq, pure_eq, bind_err, pure_err] at h
    rcases h with h | ⟨r, b1, _, h | ⟨rest, b2, _, h⟩⟩
    · exact get_err h
    · exact getRemains_err div qs b1 e h
    · exact h.elim

theorem wUnaryLoop_zero_length (trunc : Bool) : ∀ (n i u1 cnt : Nat) (acc : List Nat),
    (wUnaryLoop 0 trunc n i u1 cnt acc).1.length = acc.length + n
  | 0, i, u1, cnt, acc => by simp [wUnaryLoop]
  | n + 1, i, u1, cnt, acc => by
    simp only [wUnaryLoop, Nat.zero_testBit, Bool.false_eq_true, if_false]
    simp only [Nat.zero_lt_succ, decide_true, Bool.true_or, if_true]
    rw [wUnaryLoop_zero_length trunc n (i + 1) u1 0 _]
    simp only [List.length_cons]; omega

theorem zUnaryLen_ge (c : SliceCfg) : 8 ≤ c.zUnaryLen := by unfold SliceCfg.zUnaryLen; split <;> omega
theorem maxSymbols_ge (c : SliceCfg) : 8 ≤ c.maxSymbols ∧ c.maxSymbols ≤ 12 := by unfold SliceCfg.maxSymbols; split <;> omega

theorem chunkStep_ok {c : SliceCfg} {wEn zEn : Bool} {s s' : Chunk} {b b' : Bits}
    (h : chunkStep c wEn zEn s b = .ok (s', b')) :
    Adv b b' ((if wEn && !c.uncompressed then 12 else 0) + (if zEn then 8 else 0)) ∧
    s.wPos ≤ s'.wPos ∧ (wEn = true → c.uncompressed = true → s'.wPos = s.wPos + c.maxSymbols) := by
  simp only [chunkStep, bind_eq, pure_eq, bind_ok, pure_ok] at h
  obtain ⟨u0, b1, h1, z, b2, h2, w, b3, h3, wr, b4, h4, zr, b5, h5, rfl, rfl⟩ := h
  -- WUNARY0
  have a1 : Adv b b1 (if wEn && !c.uncompressed then 12 else 0) ∧ (c.uncompressed = true → u0 = 0) := by
    unfold readW0 at h1
    by_cases hc : (wEn && !c.uncompressed) = true
    · rw [if_pos hc] at h1 ⊢
      refine ⟨get_ok h1, ?_⟩
      intro hu; simp [hu] at hc
    · rw [if_neg hc] at h1 ⊢
      simp only [pure_eq, pure_ok] at h1
      obtain ⟨rfl, rfl⟩ := h1
      exact ⟨Adv.refl _, fun _ => rfl⟩
  have a2 : Adv b1 b2 (if zEn then 8 else 0) := by
    unfold readZ at h2
    by_cases hz : zEn = true
    · rw [if_pos hz] at h2 ⊢
      simp only [pure_eq, bind_ok, pure_ok] at h2
      obtain ⟨zu, bz, hg, _, rfl⟩ := h2
      exact (get_ok hg).weaken (zUnaryLen_ge c)
    · rw [if_neg hz] at h2 ⊢
      simp only [pure_eq, pure_ok] at h2
      obtain ⟨_, rfl⟩ := h2
      exact Adv.refl _
  have a3 : Adv b2 b3 0 ∧ (wEn = true → u0 = 0 → w.1.length = c.maxSymbols) := by
    unfold readW1 at h3
    split at h3
    · simp only [pure_eq, bind_ok, pure_ok] at h3
      obtain ⟨u1, bw, hg, rfl, rfl⟩ := h3
      refine ⟨(get_ok hg).weaken (by omega), ?_⟩
      intro _ hu
      subst hu
      rw [wUnaryLoop_zero_length]; simp
    · rename_i hw
      simp only [pure_eq, pure_ok] at h3
      obtain ⟨_, rfl⟩ := h3
      exact ⟨Adv.refl _, fun h => absurd h hw⟩
  have a4 : Adv b3 b4 0 := by
    unfold readWRemain at h4
    split at h4
    · exact getRemains_ok _ _ _ _ _ h4
    · simp only [pure_eq, pure_ok] at h4
      obtain ⟨_, rfl⟩ := h4
      exact Adv.refl _
  have a5 : Adv b4 b5 0 := by
    unfold readZRemain at h5
    split at h5
    · exact getRemains_ok _ _ _ _ _ h5
    · simp only [pure_eq, pure_ok] at h5
      obtain ⟨_, rfl⟩ := h5
      exact Adv.refl _
  refine ⟨((((a1.1.trans a2).trans a3.1).trans a4).trans a5).weaken (by omega), by simp, ?_⟩
  intro hw hu
  simp [a3.2 hw (a1.2 hu)]

theorem chunkStep_err {c : SliceCfg} {wEn zEn : Bool} {s : Chunk} {b : Bits} {e : DecErr}
    (h : chunkStep c wEn zEn s b = .error e) : e = .underrun := by
  simp only [chunkStep, bind_eq, pure_eq, bind_err, pure_err] at h
  rcases h with h | ⟨u0, b1, _, h | ⟨z, b2, _, h | ⟨w, b3, _, h | ⟨wr, b4, _, h | ⟨zr, b5, _, h⟩⟩⟩⟩⟩
  · unfold readW0 at h; split at h
    · exact get_err h
    · simp [pure_eq, pure_err] at h
  · unfold readZ at h; split at h
    · simp only [pure_eq, bind_err, pure_err] at h
      rcases h with h | ⟨_, _, _, h⟩
      · exact get_err h
      · exact h.elim
    · simp [pure_eq, pure_err] at h
  · unfold readW1 at h; split at h
    · simp only [pure_eq, bind_err, pure_err] at h
      rcases h with h | ⟨_, _, _, h⟩
      · exact get_err h
      · exact h.elim
    · simp [pure_eq, pure_err] at h
  · unfold readWRemain at h; split at h
    · exact getRemains_err _ _ _ _ h
    · simp [pure_eq, pure_err] at h
  · unfold readZRemain at h; split at h
    · exact getRemains_err _ _ _ _ h
    · simp [pure_eq, pure_err] at h
  · exact h.elim
theorem chunkLoop_ok (c : SliceCfg) : ∀ (f : Nat) (s : Chunk) (b : Bits) (s' : Chunk) (b' : Bits),
    chunkLoop c f s b = .ok (s', b') → Adv b b' 0
  | 0, s, b, s', b', h => by simp [chunkLoop, Rd.fail] at h
  | f + 1, s, b, s', b', h => by
    simp only [chunkLoop, bind_eq, pure_eq, bind_ok] at h
    obtain ⟨s1, b1, h1, h2⟩ := h
    have a1 := (chunkStep_ok h1).1.weaken (Nat.zero_le _)
    split at h2
    · exact (a1.trans (chunkLoop_ok c f s1 b1 s' b' h2)).weaken (by omega)
    · simp only [pure_ok] at h2
      obtain ⟨_, rfl⟩ := h2
      exact a1

theorem chunkLoop_err (c : SliceCfg) : ∀ (f : Nat) (s : Chunk) (b : Bits) (e : DecErr),
    b.rest.length + (c.nvalues + 12 - s.wPos) < f → chunkLoop c f s b = .error e → e = .underrun
  | 0, s, b, e, hf, h => by omega
  | f + 1, s, b, e, hf, h => by
    simp only [chunkLoop, bind_eq, pure_eq, bind_err] at h
    rcases h with h | ⟨s1, b1, h1, h2⟩
    · exact chunkStep_err h
    · split at h2
      · rename_i hen
        obtain ⟨adv, hpos, hunc⟩ := chunkStep_ok h1
        refine chunkLoop_err c f s1 b1 e ?_ h2
        have hw : wEnable c s = true → s.wPos < c.nvalues := by
          intro hw; simp [wEnable] at hw; exact hw.2
        have hm := maxSymbols_ge c
        unfold Adv at adv
        by_cases hwe : wEnable c s = true
        · have := hw hwe
          by_cases hu : c.uncompressed = true
          · have := hunc hwe hu
            omega
          · simp [hwe, hu] at adv
            omega
        · have hze : zEnable c s = true := by simpa [hwe] using hen
          simp [hwe, hze] at adv
          omega
      · simp [pure_err] at h2
theorem getPalette_ok (pb : Nat) : ∀ (n : Nat) (b b' : Bits) (l : List Nat),
    getPalette pb n b = .ok (l, b') → Adv b b' 0
  | 0, b, b', l, h => by
    simp only [getPalette, pure_eq, pure_ok] at h
    obtain ⟨_, rfl⟩ := h; exact Adv.refl _
  | n + 1, b, b', l, h => by
    simp only [getPalette, bind_eq, pure_eq, bind_ok, pure_ok] at h
    obtain ⟨v, b1, h1, rest, b2, h2, _, rfl⟩ := h
    exact ((get_ok h1).trans (getPalette_ok pb n b1 b2 rest h2)).weaken (by omega)

theorem getPalette_err (pb : Nat) : ∀ (n : Nat) (b : Bits) (e : DecErr),
    getPalette pb n b = .error e → e = .underrun
  | 0, b, e, h => by simp [getPalette, pure_eq, pure_err] at h
  | n + 1, b, e, h => by
    simp only [getPalette, bind_eq, pure_eq, bind_err, pure_err] at h
    rcases h with h | ⟨r, b1, _, h | ⟨rest, b2, _, h⟩⟩
    · exact get_err h
    · exact getPalette_err pb n b1 e h
    · exact h.elim

theorem weightOf_err {pal : Pal} {i : Nat} {e : DecErr} (h : weightOf pal i = .error e) : e ≠ .fuel := by
  unfold weightOf at h
  split at h
  · cases h; simp
  · split at h
    · split at h
      · cases h; simp
      · cases h
    · cases h

theorem emitLoop_err (pal : Pal) (useZ : Bool) : ∀ (ws zs : List Nat) (acc : List Int) (e : DecErr),
    emitLoop pal useZ ws zs acc = .error e → e ≠ .fuel := by
  intro ws
  induction ws with
  | nil =>
    intro zs acc e h
    cases zs with
    | nil => simp [emitLoop] at h
    | cons z zs => simp [emitLoop] at h; subst h; simp
  | cons w ws ih =>
    intro zs acc e h
    simp only [emitLoop] at h
    split at h
    · rename_i e' he; cases h; exact weightOf_err he
    · split at h
      · split at h
        · cases h; simp
        · exact ih _ _ _ h
      · exact ih _ _ _ h

theorem emitSlice_err {pal : Pal} {useZ newPal : Bool} {ws zs : List Nat} {acc : List Int} {e : DecErr}
    (h : emitSlice pal useZ newPal ws zs acc = .error e) : e ≠ .fuel := by
  unfold emitSlice at h
  split at h
  · split at h
    · split at h
      · cases h; simp
      · exact emitLoop_err _ _ _ _ _ _ h
    · exact emitLoop_err _ _ _ _ _ _ h
  · exact emitLoop_err _ _ _ _ _ _ h

theorem lift_ok {x : Except DecErr α} {b b' : Bits} {a : α} (h : Rd.lift x b = .ok (a, b')) : x = .ok a ∧ b' = b := by
  unfold Rd.lift at h; split at h
  · cases h
  · cases h; exact ⟨rfl, rfl⟩

theorem lift_err {x : Except DecErr α} {b : Bits} {e : DecErr} (h : Rd.lift x b = .error e) : x = .error e := by
  unfold Rd.lift at h; split at h
  · cases h; rfl
  · cases h

theorem remaining_ok {b b' : Bits} {r : Nat} (h : remaining b = .ok (r, b')) : r = b.rest.length ∧ b' = b := by
  unfold remaining at h; simp at h; exact ⟨h.1.symm, h.2.symm⟩

theorem readSliceHeader_ok {b b' : Bits} {r : Nat × Nat × Bool × Bool}
    (h : readSliceHeader b = .ok (r, b')) : Adv b b' 20 := by
  simp only [readSliceHeader, bind_eq, pure_eq, bind_ok, pure_ok] at h
  obtain ⟨_, b1, h1, _, b2, h2, _, b3, h3, _, b4, h4, _, rfl⟩ := h
  exact (((get_ok h1).trans (get_ok h2)).trans (get_ok h3)).trans (get_ok h4)

theorem readSliceHeader_err {b : Bits} {e : DecErr} (h : readSliceHeader b = .error e) : e = .underrun := by
  simp only [readSliceHeader, bind_eq, pure_eq, bind_err, pure_err] at h
  rcases h with h | ⟨_, _, _, h | ⟨_, _, _, h | ⟨_, _, _, h | ⟨_, _, _, h⟩⟩⟩⟩
  · exact get_err h
  · exact get_err h
  · exact get_err h
  · exact get_err h
  · exact h.elim

theorem readPalette_ok {b b' : Bits} {pal : Pal} (h : readPalette b = .ok (pal, b')) : Adv b b' 13 := by
  simp only [readPalette, bind_eq, pure_eq, bind_ok, pure_ok] at h
  obtain ⟨_, b1, h1, _, b2, h2, _, b3, h3, _, b4, h4, _, rfl⟩ := h
  exact ((((get_ok h1).trans (get_ok h2)).trans (get_ok h3)).trans (getPalette_ok _ _ _ _ _ h4)).weaken (by omega)

theorem readPalette_err {b : Bits} {e : DecErr} (h : readPalette b = .error e) : e = .underrun := by
  simp only [readPalette, bind_eq, pure_eq, bind_err, pure_err] at h
  rcases h with h | ⟨_, _, _, h | ⟨_, _, _, h | ⟨_, _, _, h | ⟨_, _, _, h⟩⟩⟩⟩
  · exact get_err h
  · exact get_err h
  · exact get_err h
  · exact getPalette_err _ _ _ _ h
  · exact h.elim

theorem sliceBody_ok {zdiv : Nat} {o o' : Outer} {b b' : Bits}
    (h : sliceBody zdiv o b = .ok (o', b')) : Adv b b' 0 := by
  simp only [sliceBody, bind_eq, pure_eq] at h
  split at h
  · simp [Rd.fail] at h
  simp only [bind_ok] at h
  obtain ⟨⟨n, wdiv, t, np⟩, b4, h4, h⟩ := h
  simp only at h
  split at h
  · simp [Rd.fail] at h
  split at h
  · simp [Rd.fail] at h
  simp only [bind_ok] at h
  obtain ⟨pal, b5, h5, h⟩ := h
  have a5 : Adv b4 b5 0 := by
    split at h5
    · exact (readPalette_ok h5).weaken (by omega)
    · simp only [pure_ok] at h5; obtain ⟨_, rfl⟩ := h5; exact Adv.refl _
  split at h
  · simp [Rd.fail] at h
  simp only [bind_ok] at h
  obtain ⟨r, b6, h6, s, b7, h7, h⟩ := h
  obtain ⟨_, rfl⟩ := remaining_ok h6
  have a7 := chunkLoop_ok _ _ _ _ _ _ h7
  simp only [pure_ok] at h
  obtain ⟨out, b8, h8, _, rfl⟩ := h
  obtain ⟨_, rfl⟩ := lift_ok h8
  exact (((readSliceHeader_ok h4).trans a5).trans a7).weaken (by omega)

theorem sliceBody_err {zdiv : Nat} {o : Outer} {b : Bits} {e : DecErr}
    (h : sliceBody zdiv o b = .error e) : e ≠ .fuel := by
  simp only [sliceBody, bind_eq, pure_eq] at h
  split at h
  · simp [Rd.fail] at h; subst h; simp
  simp only [bind_err] at h
  rcases h with h | ⟨⟨n, wdiv, t, np⟩, b4, h4, h⟩
  · rw [readSliceHeader_err h]; simp
  simp only at h
  split at h
  · simp [Rd.fail] at h; subst h; simp
  split at h
  · simp [Rd.fail] at h; subst h; simp
  simp only [bind_err] at h
  rcases h with h | ⟨pal, b5, h5, h⟩
  · split at h
    · rw [readPalette_err h]; simp
    · simp [pure_err] at h
  split at h
  · simp [Rd.fail] at h; subst h; simp
  simp only [bind_err] at h
  rcases h with h | ⟨r, b6, h6, h | ⟨s, b7, h7, h⟩⟩
  · simp [remaining] at h
  · obtain ⟨rfl, rfl⟩ := remaining_ok h6
    rw [chunkLoop_err _ _ _ _ _ (by simp; omega) h]; simp
  · simp only [pure_err] at h
    rcases h with h | ⟨_, _, _, h⟩
    · exact emitSlice_err (lift_err h)
    · exact h.elim

theorem atEnd_ok {b b' : Bits} {r : Bool} (h : atEnd b = .ok (r, b')) : b' = b := by
  unfold atEnd at h; simp at h; exact h.2.symm
theorem bitPos_ok {b b' : Bits} {r : Nat} (h : bitPos b = .ok (r, b')) : b' = b := by
  unfold bitPos at h; simp at h; exact h.2.symm

theorem sliceLoop_ok : ∀ (f : Nat) (o : Outer) (b : Bits) (o' : Outer) (b' : Bits),
    sliceLoop f o b = .ok (o', b') → Adv b b' 0
  | 0, o, b, o', b', h => by simp [sliceLoop, Rd.fail] at h
  | f + 1, o, b, o', b', h => by
    simp only [sliceLoop, bind_eq, pure_eq, bind_ok] at h
    obtain ⟨zdiv, b1, h1, h⟩ := h
    have a1 := get_ok h1
    split at h
    · simp only [bind_ok] at h
      obtain ⟨pos, b2, h2, _, b3, h3, e, b4, h4, h⟩ := h
      cases bitPos_ok h2; cases atEnd_ok h4
      have a3 := get_ok h3
      split at h
      · simp only [pure_ok] at h; obtain ⟨_, rfl⟩ := h
        exact (a1.trans a3).weaken (by omega)
      · exact ((a1.trans a3).trans (sliceLoop_ok f _ _ _ _ h)).weaken (by omega)
    · simp only [bind_ok] at h
      obtain ⟨e, b2, h2, h⟩ := h
      cases atEnd_ok h2
      split at h
      · simp only [pure_ok] at h; obtain ⟨_, rfl⟩ := h
        exact a1.weaken (by omega)
      · simp only [bind_ok] at h
        obtain ⟨o2, b3, h3, pos, b4, h4, h⟩ := h
        cases bitPos_ok h4
        exact ((a1.trans (sliceBody_ok h3)).trans (sliceLoop_ok f _ _ _ _ h)).weaken (by omega)

theorem sliceLoop_err : ∀ (f : Nat) (o : Outer) (b : Bits) (e : DecErr),
    b.rest.length < f → sliceLoop f o b = .error e → e ≠ .fuel
  | 0, o, b, e, hf, h => by omega
  | f + 1, o, b, e, hf, h => by
    simp only [sliceLoop, bind_eq, pure_eq, bind_err] at h
    rcases h with h | ⟨zdiv, b1, h1, h⟩
    · rw [get_err h]; simp
    have a1 := get_ok h1
    split at h
    · simp only [bind_err] at h
      rcases h with h | ⟨pos, b2, h2, h | ⟨_, b3, h3, h | ⟨en, b4, h4, h⟩⟩⟩
      · simp [bitPos] at h
      · rw [get_err h]; simp
      · simp [atEnd] at h
      · cases bitPos_ok h2; cases atEnd_ok h4
        have a3 := get_ok h3
        split at h
        · simp [pure_err] at h
        · refine sliceLoop_err f _ _ e ?_ h
          unfold Adv at a1 a3; omega
    · simp only [bind_err] at h
      rcases h with h | ⟨en, b2, h2, h⟩
      · simp [atEnd] at h
      cases atEnd_ok h2
      split at h
      · simp [pure_err] at h
      · simp only [bind_err] at h
        rcases h with h | ⟨o2, b3, h3, h | ⟨pos, b4, h4, h⟩⟩
        · exact sliceBody_err h
        · simp [bitPos] at h
        · cases bitPos_ok h4
          have a3 := sliceBody_ok h3
          refine sliceLoop_err f _ _ e ?_ h
          unfold Adv at a1 a3; omega

theorem bytesToBits_length (bs : List Nat) : (bytesToBits bs).length = 8 * bs.length := by
  induction bs with
  | nil => rfl
  | cons b bs ih => simp [bytesToBits, List.flatMap_cons] at ih ⊢; omega

theorem decodeBits_total (bits : List Bool) :
    decodeBits bits ≠ .error .fuel ∧ ∀ d, decodeBits bits = .ok d → d.bitsRead ≤ bits.length := by
  unfold decodeBits
  constructor
  · cases h : sliceLoop (bits.length + 1) {} ⟨bits, 0⟩ with
    | error e =>
      have := sliceLoop_err _ _ _ _ (by simp) h
      simpa using this
    | ok p => simp
  · intro d hd
    cases h : sliceLoop (bits.length + 1) {} ⟨bits, 0⟩ with
    | error e => simp [h] at hd
    | ok p =>
      obtain ⟨o, b⟩ := p
      simp [h] at hd
      have := sliceLoop_ok _ _ _ _ _ h
      unfold Adv at this
      subst hd
      simp at this ⊢
      omega
end VelaVerif.Mlw
