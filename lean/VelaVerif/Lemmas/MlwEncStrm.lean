import VelaVerif.Lemmas.MlwEncSym
/-!
One GRC stream (weights or zero runs) across the chunks of a slice (C07): the invariant that ties the encoder
model's stream state to the decoder's bookkeeping (`w_pos`, `w_prev_pos`, `w_carry`, `w_prev_q`, `w_value`),
and how an enabled / a disabled chunk preserves it.  The remainders of a chunk are written one iteration later,
so the invariant carries the quotients and remainders that are still in flight.
-/
namespace VelaVerif.MlwEnc
open VelaVerif.Mlw List

theorem SR.cy_le {div : Nat} {s : Strm} {cy : Nat} (h : SR div s cy) : cy ≤ pot div s.todo := by
  by_cases hq : s.q < 0
  · rw [h.1 hq]; omega
  · obtain ⟨v, t, h1, _, h3⟩ := h.2 (by omega)
    rw [h1, pot]; omega

/-- stream invariant between two iterations of the chunk loop.  Encoder side: the stream `s`, whether it was
    enabled in the last iteration (`prevEn`) and the remainders it queued (`prevRem`).  Decoder side:
    `dPos` symbols seen, `dPrevPos` values complete, the carry, the quotients in flight, the values (reversed). -/
structure StrmInv (div : Nat) (vals : List Nat) (s : Strm) (prevEn : Bool) (prevRem : List Nat)
    (dPos dPrevPos dCarry : Nat) (dPrevQ dVals : List Nat) : Prop where
  sr : SR div s dCarry
  todo : s.todo = vals.drop s.pos
  pos_le : s.pos ≤ vals.length
  pos : s.pos = min dPos vals.length
  done : dVals.reverse = vals.take dPrevPos
  pend : dPrevPos + (if prevEn = true then prevRem.length else 0) = s.pos
  qlen : prevEn = true → prevRem.length ≤ dPrevQ.length
  pad : prevEn = true → prevRem.length < dPrevQ.length → s.pos = vals.length
  prevVals : prevEn = true → zipWith (comb div) dPrevQ prevRem = (vals.drop dPrevPos).take prevRem.length
  small : prevEn = true → ∀ x ∈ prevRem, x < 2 ^ div

/-- the values the decoder completes in an iteration: `WREMAIN` of the previous chunk -/
def flush (div nv : Nat) (prevEn : Bool) (dPrevQ prevRem : List Nat) (dPrevPos : Nat) : List Nat :=
  if prevEn = true then zipWith (comb div) (dPrevQ.take (nv - dPrevPos)) prevRem else []

theorem zipWith_take_left {f : Nat → Nat → Nat} : ∀ (qs rs : List Nat) (k : Nat), rs.length ≤ k →
    zipWith f (qs.take k) rs = zipWith f qs rs
  | [], rs, k, _ => by simp
  | q :: qs, [], k, _ => by simp
  | q :: qs, r :: rs, 0, h => by simp at h
  | q :: qs, r :: rs, k + 1, h => by
    simp only [take_succ_cons, zipWith_cons_cons, cons.injEq, true_and]
    exact zipWith_take_left qs rs k (by simpa using h)

section
variable {div : Nat} {vals : List Nat} {s : Strm} {prevEn : Bool} {prevRem : List Nat}
  {dPos dPrevPos dCarry : Nat} {dPrevQ dVals : List Nat}

/-- the decoder asks for exactly as many remainders as the encoder queued -/
theorem StrmInv.take_len (h : StrmInv div vals s prevEn prevRem dPos dPrevPos dCarry dPrevQ dVals)
    (hen : prevEn = true) : (dPrevQ.take (vals.length - dPrevPos)).length = prevRem.length := by
  have h1 := h.pend; have h2 := h.qlen hen; have h3 := h.pad hen; have h4 := h.pos_le
  simp only [hen, if_true] at h1
  rw [length_take]
  by_cases hlt : prevRem.length < dPrevQ.length
  · have := h3 hlt; omega
  · omega

theorem StrmInv.flush_eq (h : StrmInv div vals s prevEn prevRem dPos dPrevPos dCarry dPrevQ dVals) :
    flush div vals.length prevEn dPrevQ prevRem dPrevPos = (vals.drop dPrevPos).take (s.pos - dPrevPos) ∧
    dPrevPos + (flush div vals.length prevEn dPrevQ prevRem dPrevPos).length = s.pos := by
  unfold flush
  have h1 := h.pend
  by_cases hen : prevEn = true
  · simp only [hen, if_true] at h1 ⊢
    have h4 := h.pos_le
    rw [zipWith_take_left _ _ _ (by omega), h.prevVals hen]
    refine ⟨by congr 1; omega, ?_⟩
    rw [length_take, length_drop]; omega
  · simp only [hen, Bool.false_eq_true, if_false] at h1 ⊢
    simp; omega

theorem StrmInv.vals_next (h : StrmInv div vals s prevEn prevRem dPos dPrevPos dCarry dPrevQ dVals) :
    ((flush div vals.length prevEn dPrevQ prevRem dPrevPos).reverse ++ dVals).reverse = vals.take s.pos := by
  obtain ⟨h1, h2⟩ := h.flush_eq
  rw [reverse_append, reverse_reverse, h.done, h1]
  have : s.pos = dPrevPos + (s.pos - dPrevPos) := by omega
  conv => rhs; rw [this, take_add]

/-- an iteration in which the stream is disabled -/
theorem StrmInv.step_dis (h : StrmInv div vals s prevEn prevRem dPos dPrevPos dCarry dPrevQ dVals)
    (stale : List Nat) :
    StrmInv div vals s false stale dPos
      (dPrevPos + (flush div vals.length prevEn dPrevQ prevRem dPrevPos).length) dCarry []
      ((flush div vals.length prevEn dPrevQ prevRem dPrevPos).reverse ++ dVals) := by
  obtain ⟨_, h2⟩ := h.flush_eq
  refine ⟨h.sr, h.todo, h.pos_le, h.pos, ?_, by simp [h2], by simp, by simp, by simp, by simp⟩
  rw [h.vals_next, h2]

/-- an iteration in which the stream is enabled and its chunk did `ChunkRel` -/
theorem StrmInv.step_en (h : StrmInv div vals s prevEn prevRem dPos dPrevPos dCarry dPrevQ dVals)
    (hlt : s.pos < vals.length) {s' : Strm} {cy' : Nat} {qs rs : List Nat}
    (hr : ChunkRel div s s' dCarry cy' qs rs) :
    StrmInv div vals s' true rs (dPos + qs.length)
      (dPrevPos + (flush div vals.length prevEn dPrevQ prevRem dPrevPos).length) cy' qs
      ((flush div vals.length prevEn dPrevQ prevRem dPrevPos).reverse ++ dVals) := by
  obtain ⟨_, h2⟩ := h.flush_eq
  have hpos := h.pos
  have hdp : dPos = s.pos := by omega
  have hlen := hr.len
  rw [h.todo, length_drop] at hlen
  refine ⟨hr.sr, ?_, ?_, ?_, ?_, ?_, fun _ => hr.qlen, ?_, ?_, fun _ => hr.small⟩
  · rw [hr.todo, h.todo, drop_drop, hr.pos]
  · rw [hr.pos]; omega
  · rw [hr.pos]
    by_cases hp : rs.length < qs.length
    · have := hr.pad hp
      rw [hr.todo, h.todo, drop_drop] at this
      have := drop_eq_nil_iff.mp this
      omega
    · have := hr.qlen; omega
  · rw [h.vals_next, h2]
  · simp only [if_true]; rw [h2, hr.pos]
  · intro _ hp
    have := hr.pad hp
    rw [hr.todo, h.todo, drop_drop] at this
    have := drop_eq_nil_iff.mp this
    rw [hr.pos]; omega
  · intro _
    rw [hr.vals, h.todo, h2]

end

end VelaVerif.MlwEnc
