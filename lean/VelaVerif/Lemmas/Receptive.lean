import VelaVerif.Spec.Receptive
import Mathlib.Tactic.Ring
import Mathlib.Tactic.Linarith
/-! Helper lemmas for C10: from the DESIGN.md equations to the tap-level specification. -/
namespace VelaVerif.Receptive

theorem mul_bounds {y h s : Int} (hy0 : 0 ≤ y) (hy : y < h) (hs : 0 ≤ s) :
    0 ≤ y * s ∧ y * s ≤ (h - 1) * s := by
  constructor
  · exact Int.mul_nonneg hy0 hs
  · exact Int.mul_le_mul_of_nonneg_right (by omega) hs

/-- The equations imply the tap-level receptive-field specification (no upscaling). -/
theorem receptive_of_equations (o : Op) (st : Stripe) (hmode : o.mode = .none) (hup : o.up = 1)
    (hs : 0 ≤ o.s) (hd : 0 ≤ o.d) (hoff : o.off ≤ st.a) (heq : Equations o st) : Receptive o st := by
  intro y j hy0 hy hj0 hj
  obtain ⟨e1, e2, e3, e4⟩ := heq
  have hP := mul_bounds hy0 hy hs
  have hQ := mul_bounds hj0 hj hd
  have hexp : (st.y0 + y) * o.s = st.y0 * o.s + y * o.s := by ring
  have hexp2 : (st.y0 + st.h) * o.s - o.s = st.y0 * o.s + (st.h - 1) * o.s := by ring
  simp only [hwSrc, refSrc, upRow, hmode, hup, implicitExtent, dilated, Int.mul_one] at *
  rw [hexp]
  rw [hexp2] at e4
  generalize y * o.s = P at *
  generalize j * o.d = Q at *
  generalize st.y0 * o.s = Y at *
  generalize (st.h - 1) * o.s = HS at *
  generalize (o.k - 1) * o.d = KD at *
  by_cases c1 : P + Q - st.pt < 0 ∨ P + Q - st.pt ≥ HS + (KD + 1) - st.pt - st.pb
  · rw [if_pos c1, if_pos]
    omega
  · rw [if_neg c1, if_neg]
    · congr 1; omega
    · omega

/-- … and, when the box end is not before the clipped receptive-field end, coverage. -/
theorem covers_of_equations (o : Op) (st : Stripe) (hmode : o.mode = .none)
    (hs : 0 ≤ o.s) (hd : 0 ≤ o.d) (heq : Equations o st)
    (hb : o.off + min ((st.y0 + st.h) * o.s - o.s - o.top + dilated o.k o.d) o.H ≤ st.b) : BoxCovers o st := by
  intro y j hy0 hy hj0 hj r hr
  obtain ⟨e1, e2, e3, e4⟩ := heq
  have hP := mul_bounds hy0 hy hs
  have hQ := mul_bounds hj0 hj hd
  simp only [hwSrc, hmode, implicitExtent, dilated] at *
  generalize y * o.s = P at *
  generalize j * o.d = Q at *
  by_cases c1 : P + Q - st.pt < 0 ∨ P + Q - st.pt ≥ (st.h - 1) * o.s + ((o.k - 1) * o.d + 1) - st.pt - st.pb
  · rw [if_pos c1] at hr; cases hr
  · rw [if_neg c1] at hr
    injection hr with hr
    omega

theorem refSrc_transpose (o : Op) (h : o.mode = .transpose) (Y j : Int) :
    refSrc o Y j = (if Y * o.s + j * o.d - o.top < 0 ∨ Y * o.s + j * o.d - o.top ≥ o.H * o.up then Src.pad
      else if (Y * o.s + j * o.d - o.top) % o.up = 0 then Src.row (o.off + (Y * o.s + j * o.d - o.top) / o.up) else Src.pad) := by
  unfold refSrc upRow
  rw [h]
  simp only
  split
  · rfl
  · by_cases hc : (Y * o.s + j * o.d - o.top) % o.up = 0 <;> simp [hc]

theorem refSrc_nearest (o : Op) (h : o.mode = .nearest) (Y j : Int) :
    refSrc o Y j = (if Y * o.s + j * o.d - o.top < 0 ∨ Y * o.s + j * o.d - o.top ≥ o.H * o.up then Src.pad
      else Src.row (o.off + (Y * o.s + j * o.d - o.top) / o.up)) := by
  unfold refSrc upRow
  rw [h]


end VelaVerif.Receptive
