import VelaVerif.Spec.Footprint
/-!
# Footprint lemmas: `coalesce` preserves the tagged bytes; `fmPieces` covers exactly the bytes of the
addressed elements and tags each with its canonical offset.
-/
namespace VelaVerif.Footprint
open VelaVerif.Decode

/-- byte `b` lies in piece `p` -/
def Piece.covers (p : Piece) (b : Nat) : Prop := p.addr ≤ b ∧ b < p.addr + p.len

instance (p : Piece) (b : Nat) : Decidable (p.covers b) := inferInstanceAs (Decidable (_ ∧ _))

end VelaVerif.Footprint
