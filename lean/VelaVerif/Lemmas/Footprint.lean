import VelaVerif.Spec.Footprint
/-!
# Footprint lemmas: `coalesce` preserves the tagged bytes; `fmPieces` covers exactly the bytes of the
addressed elements and tags each with its canonical offset.
-/
namespace VelaVerif.Footprint
open VelaVerif.Decode

/-- byte `b` lies in piece `p` -/
def Piece.covers (p : Piece) (b : Nat) : Prop := p.addr ≤ b ∧ b < p.addr + p.len

instance (p : Piece) (b : Nat) : Decidable (p.covers b) := inferInstanceAs (Decidable (_ ∧ _))


theorem coalesce_cons (p : Piece) (rest : List Piece) :
    coalesce (p :: rest) =
      match coalesce rest with
      | [] => [p]
      | q :: qs =>
        if p.addr + p.len = q.addr ∧ p.delta = q.delta then { p with len := p.len + q.len } :: qs
        else p :: q :: qs := rfl

/-- 7. `coalesce` changes neither the set of bytes nor the tag (`delta`) any byte is covered with -/
theorem coalesce_preserves_bytes (ps : List Piece) (b : Nat) (δ : Int) :
    (∃ p ∈ coalesce ps, p.covers b ∧ p.delta = δ) ↔ (∃ p ∈ ps, p.covers b ∧ p.delta = δ) := by
  induction ps with
  | nil => exact Iff.rfl
  | cons p rest ih =>
    rw [coalesce_cons]
    cases hc : coalesce rest with
    | nil =>
      rw [hc] at ih
      simp only
      constructor
      · intro ⟨q, hq, h⟩
        exact ⟨q, List.mem_cons.mpr (Or.inl (List.mem_singleton.mp hq)), h⟩
      · intro ⟨q, hq, h⟩
        rcases List.mem_cons.mp hq with rfl | hq
        · exact ⟨q, List.mem_singleton.mpr rfl, h⟩
        · obtain ⟨x, hx, _⟩ := ih.mpr ⟨q, hq, h⟩
          cases hx
    | cons q qs =>
      rw [hc] at ih
      simp only
      split
      · rename_i hadj
        constructor
        · intro ⟨x, hx, hcov, hd⟩
          rcases List.mem_cons.mp hx with rfl | hx
          · simp only [Piece.covers] at hcov
            by_cases hb : b < p.addr + p.len
            · exact ⟨p, List.mem_cons_self, ⟨hcov.1, hb⟩, hd⟩
            · obtain ⟨y, hy, hy2⟩ := ih.mp ⟨q, List.mem_cons_self, ⟨by omega, by omega⟩, hadj.2 ▸ hd⟩
              exact ⟨y, List.mem_cons_of_mem _ hy, hy2⟩
          · obtain ⟨y, hy, hy2⟩ := ih.mp ⟨x, List.mem_cons_of_mem _ hx, hcov, hd⟩
            exact ⟨y, List.mem_cons_of_mem _ hy, hy2⟩
        · intro ⟨x, hx, hcov, hd⟩
          rcases List.mem_cons.mp hx with rfl | hx
          · refine ⟨_, List.mem_cons_self, ?_, hd⟩
            simp only [Piece.covers] at hcov ⊢
            omega
          · obtain ⟨y, hy, hycov, hyd⟩ := ih.mpr ⟨x, hx, hcov, hd⟩
            rcases List.mem_cons.mp hy with rfl | hy
            · refine ⟨_, List.mem_cons_self, ?_, ?_⟩
              · simp only [Piece.covers] at hycov ⊢
                omega
              · simp only; rw [hadj.2]; exact hyd
            · exact ⟨y, List.mem_cons_of_mem _ hy, hycov, hyd⟩
      · constructor
        · intro ⟨x, hx, h⟩
          rcases List.mem_cons.mp hx with rfl | hx
          · exact ⟨x, List.mem_cons_self, h⟩
          · obtain ⟨y, hy, hy2⟩ := ih.mp ⟨x, hx, h⟩
            exact ⟨y, List.mem_cons_of_mem _ hy, hy2⟩
        · intro ⟨x, hx, h⟩
          rcases List.mem_cons.mp hx with rfl | hx
          · exact ⟨x, List.mem_cons_self, h⟩
          · obtain ⟨y, hy, hy2⟩ := ih.mpr ⟨x, hx, h⟩
            exact ⟨y, List.mem_cons_of_mem _ hy, hy2⟩


/-! ### arithmetic helpers -/

theorem off_lt (r n s k : Nat) (hr : r < n) (hk : k < s) : r * s + k < n * s := by
  have h1 : (r + 1) * s ≤ n * s := Nat.mul_le_mul_right s hr
  have h2 : (r + 1) * s = r * s + s := Nat.succ_mul r s
  omega

theorem delta_shift (ca aa D : Nat) : ((ca + D : Nat) : Int) - ((aa + D : Nat) : Int) = (ca : Int) - (aa : Int) := by
  omega

/-! ### `fmAddr` / `canon` along an x-run -/

/-- the tile-dependent part of `fmAddr`: base of the tile plus the row offset -/
def rowBase (fm : FM) (y : Nat) (inB : Bool) : Nat :=
  let hSplit := if inB then fm.height1 else fm.height0
  let lower := y ≥ hSplit
  let y' := if lower then y - hSplit else y
  let t := (if inB then 1 else 0) + (if lower then 2 else 0)
  fm.base.getD t 0 + y' * fm.strideY

theorem fmAddr_eq (fm : FM) (y x c : Nat) :
    fmAddr fm y x c =
      if fm.nhcwb16 then
        rowBase fm y (decide (x ≥ fm.width0)) + (if x ≥ fm.width0 then x - fm.width0 else x) * (16 * fm.elemBytes) +
          (c / 16) * fm.strideC + (c % 16) * fm.elemBytes
      else
        rowBase fm y (decide (x ≥ fm.width0)) + (if x ≥ fm.width0 then x - fm.width0 else x) * fm.strideX +
          c * fm.elemBytes := by
  unfold fmAddr rowBase
  by_cases h : x ≥ fm.width0 <;> simp [h]

/-- inside one tile, stepping `d` elements in x adds `d` strides -/
theorem tile_x (fm : FM) (xa d s : Nat) (h : xa + d < fm.width0 ∨ fm.width0 ≤ xa) :
    decide (xa + d ≥ fm.width0) = decide (xa ≥ fm.width0) ∧
    (if xa + d ≥ fm.width0 then xa + d - fm.width0 else xa + d) * s =
      (if xa ≥ fm.width0 then xa - fm.width0 else xa) * s + d * s := by
  by_cases h1 : xa ≥ fm.width0
  · have h2 : xa + d ≥ fm.width0 := by omega
    rw [if_pos h1, if_pos h2, ← Nat.add_mul]
    refine ⟨by simp [h1, h2], ?_⟩
    congr 1; omega
  · have h2 : ¬ xa + d ≥ fm.width0 := by omega
    rw [if_neg h1, if_neg h2, ← Nat.add_mul]
    exact ⟨by simp [h1, h2], rfl⟩

theorem fmAddr_run_nhwc (fm : FM) (hn : fm.nhcwb16 = false) (y xa d c : Nat)
    (h : xa + d < fm.width0 ∨ fm.width0 ≤ xa) :
    fmAddr fm y (xa + d) c = fmAddr fm y xa 0 + (d * fm.strideX + c * fm.elemBytes) := by
  rw [fmAddr_eq, fmAddr_eq]
  simp only [hn, Bool.false_eq_true, if_false]
  obtain ⟨h1, h2⟩ := tile_x fm xa d fm.strideX h
  rw [h1, h2, Nat.zero_mul]
  omega

theorem canon_run_nhwc (fm : FM) (hn : fm.nhcwb16 = false) (Y xa d x0 c c0 : Nat) :
    canon fm Y (xa + d + x0) (c + c0) = canon fm Y (xa + x0) (0 + c0) + (d * fm.strideX + c * fm.elemBytes) := by
  unfold canon
  simp only [hn, Bool.false_eq_true, if_false]
  have e0 : xa + d + x0 = (xa + x0) + d := by omega
  have e1 := Nat.add_mul (xa + x0) d fm.strideX
  have e2 := Nat.add_mul c c0 fm.elemBytes
  rw [e0, Nat.zero_add]
  omega

theorem fmAddr_run_b16 (fm : FM) (hn : fm.nhcwb16 = true) (y xa d c : Nat)
    (h : xa + d < fm.width0 ∨ fm.width0 ≤ xa) :
    fmAddr fm y (xa + d) c =
      fmAddr fm y xa (16 * (c / 16)) + (d * (16 * fm.elemBytes) + (c % 16) * fm.elemBytes) := by
  rw [fmAddr_eq, fmAddr_eq]
  simp only [hn, if_true]
  obtain ⟨h1, h2⟩ := tile_x fm xa d (16 * fm.elemBytes) h
  have e1 : 16 * (c / 16) / 16 = c / 16 := by omega
  have e2 : 16 * (c / 16) % 16 = 0 := by omega
  rw [h1, h2, e1, e2, Nat.zero_mul]
  omega

theorem canon_run_b16 (fm : FM) (hn : fm.nhcwb16 = true) (Y xa d x0 c c0 : Nat) (hc0 : c0 % 16 = 0) :
    canon fm Y (xa + d + x0) (c + c0) =
      canon fm Y (xa + x0) (16 * (c / 16) + c0) + (d * (16 * fm.elemBytes) + (c % 16) * fm.elemBytes) := by
  unfold canon
  simp only [hn, if_true]
  have e0 : xa + d + x0 = (xa + x0) + d := by omega
  have e1 : (16 * (c / 16) + c0) / 16 = (c + c0) / 16 := by omega
  have e2 : (16 * (c / 16) + c0) % 16 = 0 := by omega
  have e3 : (c + c0) % 16 = c % 16 := by omega
  have e4 := Nat.add_mul (xa + x0) d (16 * fm.elemBytes)
  rw [e0, e1, e2, e3, Nat.zero_mul]
  omega


theorem runPieces_covers (fm : FM) (y0 x0 c0 y xa xb x c k : Nat)
    (hxa : xa ≤ x) (hxb : x < xb) (htile : xb ≤ fm.width0 ∨ fm.width0 ≤ xa)
    (hc : c < fm.depth) (hk : k < fm.elemBytes) :
    ∃ p ∈ runPieces fm y0 x0 c0 y xa xb, p.covers (fmAddr fm y x c + k) ∧
      ((fm.nhcwb16 = true → c0 % 16 = 0) →
        p.delta = (canon fm (y + y0) (x + x0) (c + c0) : Int) - (fmAddr fm y x c : Int)) := by
  obtain ⟨d, rfl⟩ : ∃ d, x = xa + d := ⟨x - xa, by omega⟩
  have ht : xa + d < fm.width0 ∨ fm.width0 ≤ xa := by omega
  have ht0 : xa + d + 0 < fm.width0 ∨ fm.width0 ≤ xa + d := by omega
  unfold runPieces
  rw [if_neg (by omega)]
  cases hn : fm.nhcwb16 with
  | false =>
    simp only [Bool.false_eq_true, if_false]
    split
    · rename_i hfull
      have hA := fmAddr_run_nhwc fm hn y xa d c ht
      have hC := canon_run_nhwc fm hn (y + y0) xa d x0 c c0
      refine ⟨_, List.mem_singleton.mpr rfl, ?_, fun _ => ?_⟩
      · unfold mkPiece Piece.covers; simp only
        have h1 := off_lt c fm.depth fm.elemBytes k hc hk
        have h2 := off_lt d (xb - xa) fm.strideX (c * fm.elemBytes + k) (by omega) (by omega)
        omega
      · unfold mkPiece; simp only
        rw [hA, hC]; exact (delta_shift _ _ _).symm
    · have hA : fmAddr fm y (xa + d) c = fmAddr fm y (xa + d) 0 + (0 * fm.strideX + c * fm.elemBytes) :=
        fmAddr_run_nhwc fm hn y (xa + d) 0 c ht0
      have hC : canon fm (y + y0) (xa + d + x0) (c + c0) =
          canon fm (y + y0) (xa + d + x0) (0 + c0) + (0 * fm.strideX + c * fm.elemBytes) :=
        canon_run_nhwc fm hn (y + y0) (xa + d) 0 x0 c c0
      refine ⟨mkPiece fm y0 x0 c0 y (xa + d) 0 (fm.depth * fm.elemBytes),
        List.mem_map.mpr ⟨d, List.mem_range.mpr (by omega), rfl⟩, ?_, fun _ => ?_⟩
      · unfold mkPiece Piece.covers; simp only
        have h1 := off_lt c fm.depth fm.elemBytes k hc hk
        omega
      · unfold mkPiece; simp only
        rw [hA, hC]; exact (delta_shift _ _ _).symm
  | true =>
    simp only [if_true]
    have hcb : c / 16 ∈ List.range (ceilDiv fm.depth 16) := by
      apply List.mem_range.mpr; unfold ceilDiv; omega
    by_cases h16 : min 16 (fm.depth - 16 * (c / 16)) = 16
    · have hA := fmAddr_run_b16 fm hn y xa d c ht
      refine ⟨mkPiece fm y0 x0 c0 y xa (16 * (c / 16)) ((xb - xa) * 16 * fm.elemBytes),
        List.mem_flatMap.mpr ⟨c / 16, hcb, ?_⟩, ?_, fun h0 => ?_⟩
      · rw [if_pos h16]; exact List.mem_singleton.mpr rfl
      · unfold mkPiece Piece.covers; simp only
        have h1 := off_lt (d * 16 + c % 16) ((xb - xa) * 16) fm.elemBytes k (by omega) hk
        have h2 := Nat.add_mul (d * 16) (c % 16) fm.elemBytes
        have h3 := Nat.mul_assoc d 16 fm.elemBytes
        omega
      · have hC := canon_run_b16 fm hn (y + y0) xa d x0 c c0 (h0 trivial)
        unfold mkPiece; simp only
        rw [hA, hC]; exact (delta_shift _ _ _).symm
    · have hA : fmAddr fm y (xa + d) c = fmAddr fm y (xa + d) (16 * (c / 16)) +
          (0 * (16 * fm.elemBytes) + (c % 16) * fm.elemBytes) := fmAddr_run_b16 fm hn y (xa + d) 0 c ht0
      refine ⟨mkPiece fm y0 x0 c0 y (xa + d) (16 * (c / 16)) (min 16 (fm.depth - 16 * (c / 16)) * fm.elemBytes),
        List.mem_flatMap.mpr ⟨c / 16, hcb, ?_⟩, ?_, fun h0 => ?_⟩
      · rw [if_neg h16]
        exact List.mem_map.mpr ⟨d, List.mem_range.mpr (by omega), rfl⟩
      · unfold mkPiece Piece.covers; simp only
        have h1 := off_lt (c % 16) (min 16 (fm.depth - 16 * (c / 16))) fm.elemBytes k (by omega) hk
        omega
      · have hC : canon fm (y + y0) (xa + d + x0) (c + c0) =
            canon fm (y + y0) (xa + d + x0) (16 * (c / 16) + c0) +
              (0 * (16 * fm.elemBytes) + (c % 16) * fm.elemBytes) :=
          canon_run_b16 fm hn (y + y0) (xa + d) 0 x0 c c0 (h0 trivial)
        unfold mkPiece; simp only
        rw [hA, hC]; exact (delta_shift _ _ _).symm


/-- the un-coalesced piece list of `fmPieces` -/
def rawPieces (fm : FM) (y0 x0 c0 : Nat) : List Piece :=
  (List.range fm.height).flatMap fun y =>
    runPieces fm y0 x0 c0 y 0 (min fm.width fm.width0) ++ runPieces fm y0 x0 c0 y fm.width0 fm.width

theorem fmPieces_eq (fm : FM) (y0 x0 c0 : Nat) : fmPieces fm y0 x0 c0 = coalesce (rawPieces fm y0 x0 c0) := rfl

theorem rawPieces_covers (fm : FM) (y0 x0 c0 y x c k : Nat)
    (hy : y < fm.height) (hx : x < fm.width) (hc : c < fm.depth) (hk : k < fm.elemBytes) :
    ∃ p ∈ rawPieces fm y0 x0 c0, p.covers (fmAddr fm y x c + k) ∧
      ((fm.nhcwb16 = true → c0 % 16 = 0) →
        p.delta = (canon fm (y + y0) (x + x0) (c + c0) : Int) - (fmAddr fm y x c : Int)) := by
  unfold rawPieces
  by_cases hw : x < fm.width0
  · obtain ⟨p, hp, h⟩ := runPieces_covers fm y0 x0 c0 y 0 (min fm.width fm.width0) x c k
      (Nat.zero_le _) (by omega) (Or.inl (by omega)) hc hk
    exact ⟨p, List.mem_flatMap.mpr ⟨y, List.mem_range.mpr hy, List.mem_append_left _ hp⟩, h⟩
  · obtain ⟨p, hp, h⟩ := runPieces_covers fm y0 x0 c0 y fm.width0 fm.width x c k
      (by omega) hx (Or.inr (Nat.le_refl _)) hc hk
    exact ⟨p, List.mem_flatMap.mpr ⟨y, List.mem_range.mpr hy, List.mem_append_right _ hp⟩, h⟩

/-- 8. every byte of every addressed element lies in a piece of `fmPieces`, and that piece is tagged with
    the element's canonical offset minus its address.  Side condition: for NHCWB16 the channel origin
    of the box must be brick aligned (`c0 % 16 = 0`); NHWC needs none. -/
theorem fmPieces_covers (fm : FM) (y0 x0 c0 y x c k : Nat)
    (hy : y < fm.height) (hx : x < fm.width) (hc : c < fm.depth) (hk : k < fm.elemBytes) :
    ∃ p ∈ fmPieces fm y0 x0 c0, p.covers (fmAddr fm y x c + k) ∧
      ((fm.nhcwb16 = true → c0 % 16 = 0) →
        p.delta = (canon fm (y + y0) (x + x0) (c + c0) : Int) - (fmAddr fm y x c : Int)) := by
  obtain ⟨p, hp, hcov, hd⟩ := rawPieces_covers fm y0 x0 c0 y x c k hy hx hc hk
  obtain ⟨q, hq, hqcov, hqd⟩ :=
    (coalesce_preserves_bytes (rawPieces fm y0 x0 c0) (fmAddr fm y x c + k) p.delta).mpr ⟨p, hp, hcov, rfl⟩
  exact ⟨q, hq, hqcov, fun h => by rw [hqd]; exact hd h⟩


theorem split_off (o L s : Nat) (h : o < L * s) : ∃ d r, d < L ∧ r < s ∧ o = d * s + r := by
  have hs : 0 < s := by
    cases s with
    | zero => rw [Nat.mul_zero] at h; omega
    | succ n => omega
  refine ⟨o / s, o % s, (Nat.div_lt_iff_lt_mul hs).mpr h, Nat.mod_lt _ hs, ?_⟩
  have := Nat.div_add_mod o s
  rw [Nat.mul_comm] at this
  omega

/-- 9 (run level). every byte of every piece of a run is a byte of an element of the run -/
theorem runPieces_exact (fm : FM) (y0 x0 c0 y xa xb : Nat) (htile : xb ≤ fm.width0 ∨ fm.width0 ≤ xa)
    (p : Piece) (hp : p ∈ runPieces fm y0 x0 c0 y xa xb) (B : Nat) (hB : p.covers B) :
    ∃ x c k, xa ≤ x ∧ x < xb ∧ c < fm.depth ∧ k < fm.elemBytes ∧ B = fmAddr fm y x c + k ∧
      ((fm.nhcwb16 = true → c0 % 16 = 0) →
        p.delta = (canon fm (y + y0) (x + x0) (c + c0) : Int) - (fmAddr fm y x c : Int)) := by
  unfold runPieces at hp
  split at hp
  · cases hp
  rename_i hlt
  cases hn : fm.nhcwb16 with
  | false =>
    rw [hn] at hp
    simp only [Bool.false_eq_true, if_false] at hp
    split at hp
    · rename_i hfull
      rw [List.mem_singleton] at hp
      subst hp
      unfold mkPiece Piece.covers at hB
      simp only at hB
      obtain ⟨d, r, hd, hr, ho⟩ := split_off (B - fmAddr fm y xa 0) (xb - xa) fm.strideX (by omega)
      rw [← hfull] at hr
      obtain ⟨c, k, hc, hk, hr2⟩ := split_off r fm.depth fm.elemBytes hr
      have hA := fmAddr_run_nhwc fm hn y xa d c (by omega)
      have hC := canon_run_nhwc fm hn (y + y0) xa d x0 c c0
      refine ⟨xa + d, c, k, by omega, by omega, hc, hk, by omega, fun _ => ?_⟩
      unfold mkPiece; simp only
      rw [hA, hC]; exact (delta_shift _ _ _).symm
    · obtain ⟨d, hd, rfl⟩ := List.mem_map.mp hp
      rw [List.mem_range] at hd
      unfold mkPiece Piece.covers at hB
      simp only at hB
      obtain ⟨c, k, hc, hk, ho⟩ := split_off (B - fmAddr fm y (xa + d) 0) fm.depth fm.elemBytes (by omega)
      have hA : fmAddr fm y (xa + d) c = fmAddr fm y (xa + d) 0 + (0 * fm.strideX + c * fm.elemBytes) :=
        fmAddr_run_nhwc fm hn y (xa + d) 0 c (by omega)
      have hC : canon fm (y + y0) (xa + d + x0) (c + c0) =
          canon fm (y + y0) (xa + d + x0) (0 + c0) + (0 * fm.strideX + c * fm.elemBytes) :=
        canon_run_nhwc fm hn (y + y0) (xa + d) 0 x0 c c0
      refine ⟨xa + d, c, k, by omega, by omega, hc, hk, by omega, fun _ => ?_⟩
      unfold mkPiece; simp only
      rw [hA, hC]; exact (delta_shift _ _ _).symm
  | true =>
    rw [hn] at hp
    simp only [if_true] at hp
    obtain ⟨cb, hcb, hp⟩ := List.mem_flatMap.mp hp
    rw [List.mem_range] at hcb
    unfold ceilDiv at hcb
    split at hp
    · rename_i h16
      rw [List.mem_singleton] at hp
      subst hp
      unfold mkPiece Piece.covers at hB
      simp only at hB
      obtain ⟨e, k, he, hk, ho⟩ := split_off (B - fmAddr fm y xa (16 * cb)) ((xb - xa) * 16) fm.elemBytes (by omega)
      obtain ⟨d, r, hr, rfl⟩ : ∃ d r, r < 16 ∧ e = d * 16 + r := ⟨e / 16, e % 16, by omega, by omega⟩
      have e1 : (16 * cb + r) / 16 = cb := by omega
      have e2 : (16 * cb + r) % 16 = r := by omega
      have hA := fmAddr_run_b16 fm hn y xa d (16 * cb + r) (by omega)
      rw [e1, e2] at hA
      have h2 := Nat.add_mul (d * 16) r fm.elemBytes
      have h3 := Nat.mul_assoc d 16 fm.elemBytes
      refine ⟨xa + d, 16 * cb + r, k, by omega, by omega, by omega, hk, by omega, fun h0 => ?_⟩
      have hC := canon_run_b16 fm hn (y + y0) xa d x0 (16 * cb + r) c0 (h0 rfl)
      rw [e1, e2] at hC
      unfold mkPiece; simp only
      rw [hA, hC]; exact (delta_shift _ _ _).symm
    · rename_i h16
      obtain ⟨d, hd, rfl⟩ := List.mem_map.mp hp
      rw [List.mem_range] at hd
      unfold mkPiece Piece.covers at hB
      simp only at hB
      obtain ⟨r, k, hr, hk, ho⟩ := split_off (B - fmAddr fm y (xa + d) (16 * cb))
        (min 16 (fm.depth - 16 * cb)) fm.elemBytes (by omega)
      have e1 : (16 * cb + r) / 16 = cb := by omega
      have e2 : (16 * cb + r) % 16 = r := by omega
      have hA : fmAddr fm y (xa + d) (16 * cb + r) = fmAddr fm y (xa + d) (16 * ((16 * cb + r) / 16)) +
          (0 * (16 * fm.elemBytes) + ((16 * cb + r) % 16) * fm.elemBytes) :=
        fmAddr_run_b16 fm hn y (xa + d) 0 (16 * cb + r) (by omega)
      rw [e1, e2] at hA
      refine ⟨xa + d, 16 * cb + r, k, by omega, by omega, by omega, hk, by omega, fun h0 => ?_⟩
      have hC : canon fm (y + y0) (xa + d + x0) (16 * cb + r + c0) =
          canon fm (y + y0) (xa + d + x0) (16 * ((16 * cb + r) / 16) + c0) +
            (0 * (16 * fm.elemBytes) + ((16 * cb + r) % 16) * fm.elemBytes) :=
        canon_run_b16 fm hn (y + y0) (xa + d) 0 x0 (16 * cb + r) c0 (h0 rfl)
      rw [e1, e2] at hC
      unfold mkPiece; simp only
      rw [hA, hC]; exact (delta_shift _ _ _).symm


theorem rawPieces_exact (fm : FM) (y0 x0 c0 : Nat) (p : Piece) (hp : p ∈ rawPieces fm y0 x0 c0)
    (B : Nat) (hB : p.covers B) :
    ∃ y x c k, y < fm.height ∧ x < fm.width ∧ c < fm.depth ∧ k < fm.elemBytes ∧ B = fmAddr fm y x c + k ∧
      ((fm.nhcwb16 = true → c0 % 16 = 0) →
        p.delta = (canon fm (y + y0) (x + x0) (c + c0) : Int) - (fmAddr fm y x c : Int)) := by
  unfold rawPieces at hp
  obtain ⟨y, hy, hp⟩ := List.mem_flatMap.mp hp
  rw [List.mem_range] at hy
  rcases List.mem_append.mp hp with hp | hp
  · obtain ⟨x, c, k, _, hx, h⟩ := runPieces_exact fm y0 x0 c0 y 0 (min fm.width fm.width0)
      (Or.inl (by omega)) p hp B hB
    exact ⟨y, x, c, k, hy, by omega, h⟩
  · obtain ⟨x, c, k, _, hx, h⟩ := runPieces_exact fm y0 x0 c0 y fm.width0 fm.width
      (Or.inr (Nat.le_refl _)) p hp B hB
    exact ⟨y, x, c, k, hy, hx, h⟩

/-- 9. the footprint is exact: every byte of every piece of `fmPieces` is a byte of an addressed element
    (and the piece carries that element's tag). Both layouts; NHCWB16 tag part needs `c0 % 16 = 0`. -/
theorem fmPieces_exact (fm : FM) (y0 x0 c0 : Nat) (p : Piece) (hp : p ∈ fmPieces fm y0 x0 c0)
    (B : Nat) (hB : p.covers B) :
    ∃ y x c k, y < fm.height ∧ x < fm.width ∧ c < fm.depth ∧ k < fm.elemBytes ∧ B = fmAddr fm y x c + k ∧
      ((fm.nhcwb16 = true → c0 % 16 = 0) →
        p.delta = (canon fm (y + y0) (x + x0) (c + c0) : Int) - (fmAddr fm y x c : Int)) := by
  obtain ⟨q, hq, hqB, hqd⟩ := (coalesce_preserves_bytes (rawPieces fm y0 x0 c0) B p.delta).mp ⟨p, hp, hB, rfl⟩
  obtain ⟨y, x, c, k, h1, h2, h3, h4, h5, h6⟩ := rawPieces_exact fm y0 x0 c0 q hq B hqB
  exact ⟨y, x, c, k, h1, h2, h3, h4, h5, fun h => by rw [← hqd]; exact h6 h⟩

/-- the bytes touched by `fmPieces` are exactly the bytes of the addressed elements -/
theorem fmPieces_bytes_iff (fm : FM) (y0 x0 c0 B : Nat) :
    (∃ p ∈ fmPieces fm y0 x0 c0, p.covers B) ↔
      ∃ y x c k, y < fm.height ∧ x < fm.width ∧ c < fm.depth ∧ k < fm.elemBytes ∧ B = fmAddr fm y x c + k := by
  constructor
  · intro ⟨p, hp, hB⟩
    obtain ⟨y, x, c, k, h1, h2, h3, h4, h5, _⟩ := fmPieces_exact fm y0 x0 c0 p hp B hB
    exact ⟨y, x, c, k, h1, h2, h3, h4, h5⟩
  · intro ⟨y, x, c, k, h1, h2, h3, h4, h5⟩
    obtain ⟨p, hp, hB, _⟩ := fmPieces_covers fm y0 x0 c0 y x c k h1 h2 h3 h4
    exact ⟨p, hp, h5 ▸ hB⟩


/-! ### per-tile shifted footprint `fmPiecesS` -/

theorem mem_shiftPieces {s : Int} {ps : List Piece} {q : Piece} :
    q ∈ shiftPieces s ps ↔ ∃ p ∈ ps, q = { p with delta := p.delta + s } := by
  unfold shiftPieces
  rw [List.mem_map]
  exact ⟨fun ⟨p, hp, h⟩ => ⟨p, hp, h.symm⟩, fun ⟨p, hp, h⟩ => ⟨p, hp, h.symm⟩⟩

/-- all elements of an x-run on one side of `width0` lie in the tile of the run's first column -/
theorem tileOf_left (fm : FM) (y x : Nat) (h : x < fm.width0) : tileOf fm y x = tileOf fm y 0 := by
  unfold tileOf
  have h0 : ¬ (0 ≥ fm.width0) := by omega
  have hx : ¬ (x ≥ fm.width0) := by omega
  simp only [hx, h0, if_false]

theorem tileOf_right (fm : FM) (y x : Nat) (h : fm.width0 ≤ x) : tileOf fm y x = tileOf fm y fm.width0 := by
  unfold tileOf
  have h0 : fm.width0 ≥ fm.width0 := Nat.le_refl _
  have hx : x ≥ fm.width0 := h
  simp only [hx, h0, if_true]

/-- the un-coalesced piece list of `fmPiecesS` -/
def rawPiecesS (fm : FM) (y0 x0 c0 : Nat) (shifts : List Int) : List Piece :=
  (List.range fm.height).flatMap fun y =>
    shiftPieces (tileShift shifts (tileOf fm y 0)) (runPieces fm y0 x0 c0 y 0 (min fm.width fm.width0)) ++
    shiftPieces (tileShift shifts (tileOf fm y fm.width0)) (runPieces fm y0 x0 c0 y fm.width0 fm.width)

theorem fmPiecesS_eq (fm : FM) (y0 x0 c0 : Nat) (shifts : List Int) :
    fmPiecesS fm y0 x0 c0 shifts = coalesce (rawPiecesS fm y0 x0 c0 shifts) := rfl

theorem rawPiecesS_covers (fm : FM) (y0 x0 c0 : Nat) (shifts : List Int) (y x c k : Nat)
    (hy : y < fm.height) (hx : x < fm.width) (hc : c < fm.depth) (hk : k < fm.elemBytes) :
    ∃ p ∈ rawPiecesS fm y0 x0 c0 shifts, p.covers (fmAddr fm y x c + k) ∧
      ((fm.nhcwb16 = true → c0 % 16 = 0) →
        p.delta = (canon fm (y + y0) (x + x0) (c + c0) : Int) - (fmAddr fm y x c : Int) +
          tileShift shifts (tileOf fm y x)) := by
  unfold rawPiecesS
  by_cases hw : x < fm.width0
  · obtain ⟨p, hp, hcov, hd⟩ := runPieces_covers fm y0 x0 c0 y 0 (min fm.width fm.width0) x c k
      (Nat.zero_le _) (by omega) (Or.inl (by omega)) hc hk
    refine ⟨{ p with delta := p.delta + tileShift shifts (tileOf fm y 0) },
      List.mem_flatMap.mpr ⟨y, List.mem_range.mpr hy, List.mem_append_left _ (mem_shiftPieces.mpr ⟨p, hp, rfl⟩)⟩,
      hcov, fun h => ?_⟩
    simp only
    rw [hd h, tileOf_left fm y x hw]
  · obtain ⟨p, hp, hcov, hd⟩ := runPieces_covers fm y0 x0 c0 y fm.width0 fm.width x c k
      (by omega) hx (Or.inr (Nat.le_refl _)) hc hk
    refine ⟨{ p with delta := p.delta + tileShift shifts (tileOf fm y fm.width0) },
      List.mem_flatMap.mpr ⟨y, List.mem_range.mpr hy, List.mem_append_right _ (mem_shiftPieces.mpr ⟨p, hp, rfl⟩)⟩,
      hcov, fun h => ?_⟩
    simp only
    rw [hd h, tileOf_right fm y x (by omega)]

/-- 8S. coverage for the per-tile shifted footprint: the piece containing a byte of element `(y, x, c)`
    carries `canon − fmAddr + shifts[tile(y, x)]` -/
theorem fmPiecesS_covers (fm : FM) (y0 x0 c0 : Nat) (shifts : List Int) (y x c k : Nat)
    (hy : y < fm.height) (hx : x < fm.width) (hc : c < fm.depth) (hk : k < fm.elemBytes) :
    ∃ p ∈ fmPiecesS fm y0 x0 c0 shifts, p.covers (fmAddr fm y x c + k) ∧
      ((fm.nhcwb16 = true → c0 % 16 = 0) →
        p.delta = (canon fm (y + y0) (x + x0) (c + c0) : Int) - (fmAddr fm y x c : Int) +
          tileShift shifts (tileOf fm y x)) := by
  obtain ⟨p, hp, hcov, hd⟩ := rawPiecesS_covers fm y0 x0 c0 shifts y x c k hy hx hc hk
  obtain ⟨q, hq, hqcov, hqd⟩ :=
    (coalesce_preserves_bytes (rawPiecesS fm y0 x0 c0 shifts) (fmAddr fm y x c + k) p.delta).mpr ⟨p, hp, hcov, rfl⟩
  exact ⟨q, hq, hqcov, fun h => by rw [hqd]; exact hd h⟩

theorem rawPiecesS_exact (fm : FM) (y0 x0 c0 : Nat) (shifts : List Int) (p : Piece)
    (hp : p ∈ rawPiecesS fm y0 x0 c0 shifts) (B : Nat) (hB : p.covers B) :
    ∃ y x c k, y < fm.height ∧ x < fm.width ∧ c < fm.depth ∧ k < fm.elemBytes ∧ B = fmAddr fm y x c + k ∧
      ((fm.nhcwb16 = true → c0 % 16 = 0) →
        p.delta = (canon fm (y + y0) (x + x0) (c + c0) : Int) - (fmAddr fm y x c : Int) +
          tileShift shifts (tileOf fm y x)) := by
  unfold rawPiecesS at hp
  obtain ⟨y, hy, hp⟩ := List.mem_flatMap.mp hp
  rw [List.mem_range] at hy
  rcases List.mem_append.mp hp with hp | hp
  · obtain ⟨q, hq, rfl⟩ := mem_shiftPieces.mp hp
    obtain ⟨x, c, k, _, hx, h1, h2, h3, h4⟩ := runPieces_exact fm y0 x0 c0 y 0 (min fm.width fm.width0)
      (Or.inl (by omega)) q hq B hB
    refine ⟨y, x, c, k, hy, by omega, h1, h2, h3, fun h => ?_⟩
    simp only
    rw [h4 h, tileOf_left fm y x (by omega)]
  · obtain ⟨q, hq, rfl⟩ := mem_shiftPieces.mp hp
    obtain ⟨x, c, k, hxa, hx, h1, h2, h3, h4⟩ := runPieces_exact fm y0 x0 c0 y fm.width0 fm.width
      (Or.inr (Nat.le_refl _)) q hq B hB
    refine ⟨y, x, c, k, hy, hx, h1, h2, h3, fun h => ?_⟩
    simp only
    rw [h4 h, tileOf_right fm y x hxa]

/-- 9S. exactness for the per-tile shifted footprint -/
theorem fmPiecesS_exact (fm : FM) (y0 x0 c0 : Nat) (shifts : List Int) (p : Piece)
    (hp : p ∈ fmPiecesS fm y0 x0 c0 shifts) (B : Nat) (hB : p.covers B) :
    ∃ y x c k, y < fm.height ∧ x < fm.width ∧ c < fm.depth ∧ k < fm.elemBytes ∧ B = fmAddr fm y x c + k ∧
      ((fm.nhcwb16 = true → c0 % 16 = 0) →
        p.delta = (canon fm (y + y0) (x + x0) (c + c0) : Int) - (fmAddr fm y x c : Int) +
          tileShift shifts (tileOf fm y x)) := by
  obtain ⟨q, hq, hqB, hqd⟩ :=
    (coalesce_preserves_bytes (rawPiecesS fm y0 x0 c0 shifts) B p.delta).mp ⟨p, hp, hB, rfl⟩
  obtain ⟨y, x, c, k, h1, h2, h3, h4, h5, h6⟩ := rawPiecesS_exact fm y0 x0 c0 shifts q hq B hqB
  exact ⟨y, x, c, k, h1, h2, h3, h4, h5, fun h => by rw [← hqd]; exact h6 h⟩

/-- the shifts change tags only: `fmPiecesS` touches exactly the bytes `fmPieces` touches -/
theorem fmPiecesS_bytes_iff (fm : FM) (y0 x0 c0 : Nat) (shifts : List Int) (B : Nat) :
    (∃ p ∈ fmPiecesS fm y0 x0 c0 shifts, p.covers B) ↔ (∃ p ∈ fmPieces fm y0 x0 c0, p.covers B) := by
  rw [fmPieces_bytes_iff]
  constructor
  · intro ⟨p, hp, hB⟩
    obtain ⟨y, x, c, k, h1, h2, h3, h4, h5, _⟩ := fmPiecesS_exact fm y0 x0 c0 shifts p hp B hB
    exact ⟨y, x, c, k, h1, h2, h3, h4, h5⟩
  · intro ⟨y, x, c, k, h1, h2, h3, h4, h5⟩
    obtain ⟨p, hp, hB, _⟩ := fmPiecesS_covers fm y0 x0 c0 shifts y x c k h1 h2 h3 h4
    exact ⟨p, hp, h5 ▸ hB⟩

/-! ### a uniform shift is the old single-shift behaviour -/

theorem shiftPieces_nil (s : Int) : shiftPieces s [] = [] := rfl
theorem shiftPieces_cons (s : Int) (p : Piece) (ps : List Piece) :
    shiftPieces s (p :: ps) = { p with delta := p.delta + s } :: shiftPieces s ps := rfl

theorem shiftPieces_append (s : Int) (a b : List Piece) :
    shiftPieces s (a ++ b) = shiftPieces s a ++ shiftPieces s b := by
  unfold shiftPieces; exact List.map_append

theorem shiftPieces_zero (ps : List Piece) : shiftPieces 0 ps = ps := by
  induction ps with
  | nil => rfl
  | cons p ps ih => rw [shiftPieces_cons, ih, Int.add_zero]

theorem coalesce_shiftPieces (s : Int) (ps : List Piece) :
    coalesce (shiftPieces s ps) = shiftPieces s (coalesce ps) := by
  induction ps with
  | nil => rfl
  | cons p rest ih =>
    rw [shiftPieces_cons, coalesce_cons, coalesce_cons, ih]
    cases hc : coalesce rest with
    | nil => rfl
    | cons q qs =>
      simp only [shiftPieces_cons]
      by_cases h : p.addr + p.len = q.addr ∧ p.delta = q.delta
      · rw [if_pos h, if_pos ⟨h.1, by rw [h.2]⟩]; rfl
      · rw [if_neg h, if_neg (fun h' => h ⟨h'.1, by have := h'.2; omega⟩)]; rfl

theorem flatMap_shiftPieces {α : Type} (s : Int) (l : List α) (f : α → List Piece) :
    l.flatMap (fun a => shiftPieces s (f a)) = shiftPieces s (l.flatMap f) := by
  induction l with
  | nil => rfl
  | cons a l ih => rw [List.flatMap_cons, List.flatMap_cons, ih, shiftPieces_append]

theorem tileOf_lt (fm : FM) (y x : Nat) : tileOf fm y x < 4 := by
  unfold tileOf
  simp only
  split <;> split <;> omega

/-- when all four tiles have the same shift `s`, `fmPiecesS` is `fmPieces` with every tag shifted by `s`
    (what the single-shift checker compared against) -/
theorem fmPiecesS_uniform (fm : FM) (y0 x0 c0 : Nat) (shifts : List Int) (s : Int)
    (h : ∀ t, t < 4 → tileShift shifts t = s) :
    fmPiecesS fm y0 x0 c0 shifts = shiftPieces s (fmPieces fm y0 x0 c0) := by
  unfold fmPiecesS fmPieces
  rw [← coalesce_shiftPieces, ← flatMap_shiftPieces]
  congr 2
  funext y
  rw [h _ (tileOf_lt fm y 0), h _ (tileOf_lt fm y fm.width0), shiftPieces_append]

theorem fmPiecesS_zero (fm : FM) (y0 x0 c0 : Nat) :
    fmPiecesS fm y0 x0 c0 [0, 0, 0, 0] = fmPieces fm y0 x0 c0 := by
  rw [fmPiecesS_uniform fm y0 x0 c0 [0, 0, 0, 0] 0, shiftPieces_zero]
  intro t ht
  unfold tileShift
  match t, ht with
  | 0, _ | 1, _ | 2, _ | 3, _ => rfl

end VelaVerif.Footprint
