import VelaVerif.Spec.Mem
/-!
# The interval map of `Spec/Mem.lean` refines the per-byte tag map

`IMap.Inv` is the representation invariant (segments non-empty, sorted, pairwise disjoint).
Under it `IMap.write` is a byte-range update of the per-byte view `IMap.get` and
`IMap.firstMismatch` decides "every byte of the range carries the expected tag".
-/
namespace VelaVerif.Mem

/-- representation invariant: every segment is non-empty (`lo < hi`) and each segment ends at or
    before the start of the next one (hence sorted by `lo` and pairwise disjoint). -/
def IMap.Inv : IMap → Prop
  | [] => True
  | [s] => s.lo < s.hi
  | s :: t :: rest => s.lo < s.hi ∧ s.hi ≤ t.lo ∧ IMap.Inv (t :: rest)

instance IMap.decInv : (m : IMap) → Decidable (IMap.Inv m)
  | [] => isTrue trivial
  | [s] => inferInstanceAs (Decidable (s.lo < s.hi))
  | s :: t :: rest =>
    have := IMap.decInv (t :: rest)
    inferInstanceAs (Decidable (s.lo < s.hi ∧ s.hi ≤ t.lo ∧ IMap.Inv (t :: rest)))

namespace IMap

theorem inv_nil : Inv [] := trivial

theorem Inv.tail {s : Seg} {rest : IMap} (h : Inv (s :: rest)) : Inv rest := by
  cases rest with
  | nil => trivial
  | cons t r => exact h.2.2

theorem Inv.head {s : Seg} {rest : IMap} (h : Inv (s :: rest)) : s.lo < s.hi := by
  cases rest with
  | nil => exact h
  | cons t r => exact h.1

/-- every later segment starts at or after the end of the head -/
theorem Inv.head_le {s : Seg} {rest : IMap} (h : Inv (s :: rest)) : ∀ t ∈ rest, s.hi ≤ t.lo := by
  induction rest generalizing s with
  | nil => intro t ht; cases ht
  | cons u r ih =>
    intro t ht
    rcases List.mem_cons.mp ht with rfl | ht
    · exact h.2.1
    · have h2 : Inv (u :: r) := h.2.2
      have := ih h2 t ht
      have := h2.head
      have := h.2.1
      omega

/-- the pairwise form of the invariant -/
theorem inv_cons_iff (s : Seg) (rest : IMap) :
    Inv (s :: rest) ↔ s.lo < s.hi ∧ (∀ t ∈ rest, s.hi ≤ t.lo) ∧ Inv rest := by
  constructor
  · intro h; exact ⟨h.head, h.head_le, h.tail⟩
  · intro ⟨h1, h2, h3⟩
    cases rest with
    | nil => exact h1
    | cons t r => exact ⟨h1, h2 t (List.mem_cons_self), h3⟩

theorem Inv.mem_pos {m : IMap} (h : Inv m) : ∀ s ∈ m, s.lo < s.hi := by
  induction m with
  | nil => intro s hs; cases hs
  | cons a r ih =>
    intro s hs
    rcases List.mem_cons.mp hs with rfl | hs
    · exact h.head
    · exact ih h.tail s hs

/-! ### `get` -/

@[simp] theorem get_nil (b : Nat) : get [] b = none := rfl

theorem get_cons (s : Seg) (rest : IMap) (b : Nat) :
    get (s :: rest) b = if s.lo ≤ b ∧ b < s.hi then some (s.tid, s.delta) else get rest b := rfl

/-- a byte below every segment is undefined -/
theorem get_none_of_lt {m : IMap} {b : Nat} (h : ∀ t ∈ m, b < t.lo) : get m b = none := by
  induction m with
  | nil => rfl
  | cons s r ih =>
    have hs := h s (List.mem_cons_self)
    rw [get_cons, if_neg (by omega)]
    exact ih (fun t ht => h t (List.mem_cons_of_mem _ ht))

/-- a byte outside every segment is undefined -/
theorem get_none_of_outside {m : IMap} {b : Nat} (h : ∀ t ∈ m, b < t.lo ∨ t.hi ≤ b) : get m b = none := by
  induction m with
  | nil => rfl
  | cons s r ih =>
    have hs := h s (List.mem_cons_self)
    rw [get_cons, if_neg (by omega)]
    exact ih (fun t ht => h t (List.mem_cons_of_mem _ ht))

theorem get_cons_none_of_lt {s : Seg} {rest : IMap} {b : Nat} (h : Inv (s :: rest)) (hb : b < s.lo) :
    get (s :: rest) b = none := by
  apply get_none_of_lt
  intro t ht
  rcases List.mem_cons.mp ht with rfl | ht
  · exact hb
  · have := h.head_le t ht
    have := h.head
    omega

theorem get_append (m1 m2 : IMap) (b : Nat) :
    get (m1 ++ m2) b = match get m1 b with | some t => some t | none => get m2 b := by
  induction m1 with
  | nil => rfl
  | cons s r ih =>
    rw [List.cons_append, get_cons, get_cons]
    split
    · rfl
    · exact ih

/-- `get` finds a segment of the map -/
theorem get_eq_some {m : IMap} {b : Nat} {t : Nat × Int} (h : get m b = some t) :
    ∃ s ∈ m, s.lo ≤ b ∧ b < s.hi ∧ t = (s.tid, s.delta) := by
  induction m with
  | nil => cases h
  | cons s r ih =>
    rw [get_cons] at h
    split at h
    · rename_i hin
      exact ⟨s, List.mem_cons_self, hin.1, hin.2, (Option.some.inj h).symm⟩
    · obtain ⟨s', hs', h'⟩ := ih h
      exact ⟨s', List.mem_cons_of_mem _ hs', h'⟩

/-- under the invariant the segment containing a byte is unique, so `get` returns its tag -/
theorem get_of_mem {m : IMap} (hm : Inv m) {s : Seg} (hs : s ∈ m) {b : Nat} (h1 : s.lo ≤ b) (h2 : b < s.hi) :
    get m b = some (s.tid, s.delta) := by
  induction m with
  | nil => cases hs
  | cons a r ih =>
    rw [get_cons]
    rcases List.mem_cons.mp hs with rfl | hs
    · rw [if_pos ⟨h1, h2⟩]
    · have := hm.head_le s hs
      rw [if_neg (by omega)]
      exact ih hm.tail hs

/-! ### `cut` -/

theorem cut_nil (lo hi : Nat) : cut [] lo hi = [] := rfl

theorem cut_cons (s : Seg) (rest : IMap) (lo hi : Nat) :
    cut (s :: rest) lo hi =
      if s.hi ≤ lo then s :: cut rest lo hi
      else if hi ≤ s.lo then s :: rest
      else (if s.lo < lo then [{ s with hi := lo }] else []) ++
        (if hi < s.hi then { s with lo := hi } :: rest else cut rest lo hi) := by
  show (if s.hi ≤ lo then s :: cut rest lo hi
      else if hi ≤ s.lo then s :: rest
      else (if s.lo < lo then [{ s with hi := lo }] else []) ++
        (if hi < s.hi then (if hi < s.hi then [{ s with lo := hi }] else []) ++ rest else cut rest lo hi)) = _
  by_cases h : hi < s.hi
  · simp only [if_pos h, List.singleton_append]
  · simp only [if_neg h]

/-- every segment of `cut m lo hi` is a non-empty piece of a segment of `m` lying outside `[lo, hi)` -/
theorem mem_cut {m : IMap} {lo hi : Nat} (hm : Inv m) (hlh : lo ≤ hi) {t : Seg} (ht : t ∈ cut m lo hi) :
    t.lo < t.hi ∧ (t.hi ≤ lo ∨ hi ≤ t.lo) ∧
      ∃ s ∈ m, s.lo ≤ t.lo ∧ t.hi ≤ s.hi ∧ t.tid = s.tid ∧ t.delta = s.delta := by
  have _ := hlh
  induction m with
  | nil => cases ht
  | cons s rest ih =>
    have hpos := hm.head
    have hle := hm.head_le
    have ih' := fun h => ih hm.tail h
    rw [cut_cons] at ht
    split at ht
    · rcases List.mem_cons.mp ht with rfl | ht
      · exact ⟨hpos, Or.inl ‹_›, t, List.mem_cons_self, by omega, by omega, rfl, rfl⟩
      · obtain ⟨a, b, s', hs', c⟩ := ih' ht
        exact ⟨a, b, s', List.mem_cons_of_mem _ hs', c⟩
    · split at ht
      · rcases List.mem_cons.mp ht with rfl | ht
        · exact ⟨hpos, Or.inr ‹_›, t, List.mem_cons_self, by omega, by omega, rfl, rfl⟩
        · have := hle t ht
          exact ⟨hm.tail.mem_pos t ht, Or.inr (by omega), t, List.mem_cons_of_mem _ ht, by omega, by omega, rfl, rfl⟩
      · rcases List.mem_append.mp ht with ht | ht
        · split at ht
          · rw [List.mem_singleton] at ht
            subst ht
            exact ⟨by simpa, Or.inl (by simp), s, List.mem_cons_self, by simp, by simp; omega, rfl, rfl⟩
          · cases ht
        · split at ht
          · rcases List.mem_cons.mp ht with rfl | ht
            · exact ⟨by simpa, Or.inr (by simp), s, List.mem_cons_self, by simp; omega, by simp, rfl, rfl⟩
            · have := hle t ht
              exact ⟨hm.tail.mem_pos t ht, Or.inr (by omega), t, List.mem_cons_of_mem _ ht, by omega, by omega, rfl, rfl⟩
          · obtain ⟨a, b, s', hs', c⟩ := ih' ht
            exact ⟨a, b, s', List.mem_cons_of_mem _ hs', c⟩

theorem cut_inv {m : IMap} {lo hi : Nat} (hm : Inv m) (hlh : lo ≤ hi) : Inv (cut m lo hi) := by
  induction m with
  | nil => exact inv_nil
  | cons s rest ih =>
    have hpos := hm.head
    have hle := hm.head_le
    have ih' := ih hm.tail
    rw [cut_cons]
    split
    · rw [inv_cons_iff]
      refine ⟨hpos, ?_, ih'⟩
      intro t ht
      obtain ⟨_, _, s', hs', h1, _⟩ := mem_cut hm.tail hlh ht
      have := hle s' hs'
      omega
    · split
      · exact hm
      · have hR : Inv (if hi < s.hi then { s with lo := hi } :: rest else cut rest lo hi) ∧
            ∀ t ∈ (if hi < s.hi then { s with lo := hi } :: rest else cut rest lo hi), lo ≤ t.lo := by
          split
          · refine ⟨?_, ?_⟩
            · rw [inv_cons_iff]; exact ⟨by simpa, by simpa using hle, hm.tail⟩
            · intro t ht
              rcases List.mem_cons.mp ht with rfl | ht
              · simpa using hlh
              · have := hle t ht; omega
          · refine ⟨ih', ?_⟩
            intro t ht
            obtain ⟨_, _, s', hs', h1, _⟩ := mem_cut hm.tail hlh ht
            have := hle s' hs'
            omega
        split
        · rw [List.singleton_append, inv_cons_iff]
          exact ⟨by simpa, by simpa using hR.2, hR.1⟩
        · exact hR.1

/-- per-byte meaning of `cut`: bytes of `[lo, hi)` become undefined, all others are unchanged -/
theorem get_cut {m : IMap} {lo hi : Nat} (hm : Inv m) (hlh : lo ≤ hi) (b : Nat) :
    get (cut m lo hi) b = if lo ≤ b ∧ b < hi then none else get m b := by
  have _ := hlh
  induction m with
  | nil => simp [cut_nil]
  | cons s rest ih =>
    have hpos := hm.head
    have hle := hm.head_le
    have ih' := ih hm.tail
    rw [cut_cons]
    split
    · rw [get_cons, get_cons, ih']
      split <;> split <;> first | rfl | omega
    · split
      · split
        · exact get_cons_none_of_lt hm (by omega)
        · rfl
      · have hR : get (if hi < s.hi then { s with lo := hi } :: rest else cut rest lo hi) b =
            if lo ≤ b ∧ b < hi then none else if hi ≤ b ∧ b < s.hi then some (s.tid, s.delta) else get rest b := by
          split
          · rw [get_cons]
            simp only
            split
            · rw [if_neg (by omega)]
            · split
              · apply get_none_of_lt
                intro t ht; have := hle t ht; omega
              · rfl
          · rw [ih']
            split
            · rfl
            · rw [if_neg (by omega)]
        split
        · rw [List.singleton_append, get_cons, hR, get_cons]
          simp only
          split <;> split <;> (try split) <;> (try split) <;> first | rfl | omega
        · rw [List.nil_append, hR, get_cons]
          split <;> (try split) <;> (try split) <;> first | rfl | omega


/-! ### `insertSorted` -/

theorem insertSorted_cons (s n : Seg) (rest : IMap) :
    insertSorted (s :: rest) n = if n.hi ≤ s.lo then n :: s :: rest else s :: insertSorted rest n := rfl

theorem mem_insertSorted {m : IMap} {n t : Seg} (h : t ∈ insertSorted m n) : t = n ∨ t ∈ m := by
  induction m with
  | nil => exact Or.inl (List.mem_singleton.mp h)
  | cons s rest ih =>
    rw [insertSorted_cons] at h
    split at h
    · rcases List.mem_cons.mp h with rfl | h
      · exact Or.inl rfl
      · exact Or.inr h
    · rcases List.mem_cons.mp h with rfl | h
      · exact Or.inr List.mem_cons_self
      · rcases ih h with h | h
        · exact Or.inl h
        · exact Or.inr (List.mem_cons_of_mem _ h)

theorem insertSorted_inv {m : IMap} {n : Seg} (hm : Inv m) (hn : n.lo < n.hi)
    (hd : ∀ s ∈ m, s.hi ≤ n.lo ∨ n.hi ≤ s.lo) : Inv (insertSorted m n) := by
  induction m with
  | nil => exact hn
  | cons s rest ih =>
    have hpos := hm.head
    have hle := hm.head_le
    rw [insertSorted_cons]
    split
    · exact ⟨hn, ‹_›, hm⟩
    · rw [inv_cons_iff]
      refine ⟨hpos, ?_, ih hm.tail (fun t ht => hd t (List.mem_cons_of_mem _ ht))⟩
      intro t ht
      rcases mem_insertSorted ht with rfl | ht
      · have := hd s List.mem_cons_self; omega
      · exact hle t ht

theorem get_insertSorted {m : IMap} {n : Seg} (hd : ∀ s ∈ m, s.hi ≤ n.lo ∨ n.hi ≤ s.lo) (b : Nat) :
    get (insertSorted m n) b = if n.lo ≤ b ∧ b < n.hi then some (n.tid, n.delta) else get m b := by
  induction m with
  | nil => rfl
  | cons s rest ih =>
    rw [insertSorted_cons]
    split
    · rw [get_cons]
    · rw [get_cons, get_cons, ih (fun t ht => hd t (List.mem_cons_of_mem _ ht))]
      have := hd s List.mem_cons_self
      split <;> split <;> first | rfl | omega

/-! ### `write` -/

theorem write_eq (m : IMap) (lo hi tid : Nat) (d : Int) :
    write m lo hi tid d = if hi ≤ lo then m else insertSorted (cut m lo hi) ⟨lo, hi, tid, d⟩ := rfl

/-- 1. `write` preserves the representation invariant -/
theorem write_inv {m : IMap} (hm : Inv m) (lo hi tid : Nat) (d : Int) : Inv (write m lo hi tid d) := by
  rw [write_eq]
  split
  · exact hm
  · have hlh : lo ≤ hi := by omega
    apply insertSorted_inv (cut_inv hm hlh)
    · show lo < hi; omega
    · intro s hs
      exact (mem_cut hm hlh hs).2.1

/-- 2. `write` is the byte-range update of the per-byte view -/
theorem imap_refines_bytes {m : IMap} (hm : Inv m) (lo hi tid : Nat) (d : Int) (b : Nat) :
    get (write m lo hi tid d) b = if lo ≤ b ∧ b < hi then some (tid, d) else get m b := by
  rw [write_eq]
  split
  · rw [if_neg (by omega)]
  · have hlh : lo ≤ hi := by omega
    rw [get_insertSorted (fun s hs => (mem_cut hm hlh hs).2.1), get_cut hm hlh]
    simp only
    split <;> rfl

/-! ### `firstMismatch` -/

theorem firstMismatch_nil (lo hi tid : Nat) (d : Int) :
    firstMismatch [] lo hi tid d = if hi ≤ lo then none else some (lo, none) := rfl

theorem firstMismatch_cons (s : Seg) (rest : IMap) (lo hi tid : Nat) (d : Int) :
    firstMismatch (s :: rest) lo hi tid d =
      if hi ≤ lo then none
      else if s.hi ≤ lo then firstMismatch rest lo hi tid d
      else if lo < s.lo then some (lo, none)
      else if s.tid ≠ tid ∨ s.delta ≠ d then some (lo, some (s.tid, s.delta))
      else if hi ≤ s.hi then none
      else firstMismatch rest s.hi hi tid d := rfl

/-- 3. the checker accepts a range exactly when every byte of it carries the expected tag -/
theorem firstMismatch_none_iff {m : IMap} (hm : Inv m) (lo hi tid : Nat) (d : Int) :
    firstMismatch m lo hi tid d = none ↔ ∀ b, lo ≤ b → b < hi → get m b = some (tid, d) := by
  induction m generalizing lo with
  | nil =>
    rw [firstMismatch_nil]
    split
    · exact ⟨fun _ b _ _ => by omega, fun _ => rfl⟩
    · constructor
      · intro h; cases h
      · intro h; have := h lo (Nat.le_refl _) (by omega); cases this
  | cons s rest ih =>
    have hpos := hm.head
    have hle := hm.head_le
    rw [firstMismatch_cons]
    split
    · exact ⟨fun _ b _ _ => by omega, fun _ => rfl⟩
    · split
      · rw [ih hm.tail]
        constructor
        · intro h b h1 h2
          rw [get_cons, if_neg (by omega)]; exact h b h1 h2
        · intro h b h1 h2
          have := h b h1 h2
          rwa [get_cons, if_neg (by omega)] at this
      · split
        · constructor
          · intro h; cases h
          · intro h
            have := h lo (Nat.le_refl _) (by omega)
            rw [get_cons_none_of_lt hm ‹_›] at this; cases this
        · split
          · constructor
            · intro h; cases h
            · intro h
              have := h lo (Nat.le_refl _) (by omega)
              rw [get_cons, if_pos (by omega)] at this
              rename_i hne
              injection this with this
              injection this with h1 h2
              rcases hne with hne | hne
              · exact absurd h1 hne
              · exact absurd h2 hne
          · rename_i hne
            have htid : s.tid = tid := by
              apply Classical.byContradiction; intro h; exact hne (Or.inl h)
            have hdel : s.delta = d := by
              apply Classical.byContradiction; intro h; exact hne (Or.inr h)
            split
            · constructor
              · intro _ b h1 h2
                rw [get_cons, if_pos (by omega), htid, hdel]
              · intro _; rfl
            · rw [ih hm.tail]
              constructor
              · intro h b h1 h2
                rw [get_cons]
                split
                · rw [htid, hdel]
                · exact h b (by omega) h2
              · intro h b h1 h2
                have := h b (by omega) h2
                rwa [get_cons, if_neg (by omega)] at this


/-- 4. a reported mismatch is a byte of the range whose stored tag is what is reported and is not the
    expected one; moreover it is the *first* such byte. -/
theorem firstMismatch_some_sound {m : IMap} (hm : Inv m) {lo hi tid : Nat} {d : Int} {b : Nat}
    {found : Option (Nat × Int)} (h : firstMismatch m lo hi tid d = some (b, found)) :
    lo ≤ b ∧ b < hi ∧ get m b = found ∧ found ≠ some (tid, d) ∧
      ∀ b', lo ≤ b' → b' < b → get m b' = some (tid, d) := by
  induction m generalizing lo with
  | nil =>
    rw [firstMismatch_nil] at h
    split at h
    · cases h
    · injection h with h; injection h with h1 h2
      subst h1; subst h2
      exact ⟨Nat.le_refl _, by omega, rfl, by simp, fun b' _ _ => by omega⟩
  | cons s rest ih =>
    have hpos := hm.head
    have hle := hm.head_le
    rw [firstMismatch_cons] at h
    split at h
    · cases h
    · split at h
      · obtain ⟨h1, h2, h3, h4, h5⟩ := ih hm.tail h
        refine ⟨h1, h2, ?_, h4, ?_⟩
        · rw [get_cons, if_neg (by omega)]; exact h3
        · intro b' hb1 hb2
          rw [get_cons, if_neg (by omega)]; exact h5 b' hb1 hb2
      · split at h
        · injection h with h; injection h with h1 h2
          subst h1; subst h2
          exact ⟨Nat.le_refl _, by omega, get_cons_none_of_lt hm ‹_›, by simp, fun b' _ _ => by omega⟩
        · split at h
          · rename_i hne
            injection h with h; injection h with h1 h2
            subst h1; subst h2
            refine ⟨Nat.le_refl _, by omega, ?_, ?_, fun b' _ _ => by omega⟩
            · rw [get_cons, if_pos (by omega)]
            · intro heq
              injection heq with heq; injection heq with e1 e2
              rcases hne with hne | hne
              · exact hne e1
              · exact hne e2
          · rename_i hne
            have htid : s.tid = tid := by
              apply Classical.byContradiction; intro h; exact hne (Or.inl h)
            have hdel : s.delta = d := by
              apply Classical.byContradiction; intro h; exact hne (Or.inr h)
            split at h
            · cases h
            · obtain ⟨h1, h2, h3, h4, h5⟩ := ih hm.tail h
              refine ⟨by omega, h2, ?_, h4, ?_⟩
              · rw [get_cons, if_neg (by omega)]; exact h3
              · intro b' hb1 hb2
                rw [get_cons]
                split
                · rw [htid, hdel]
                · exact h5 b' (by omega) hb2

example : Inv (write (write [] 0 100 1 0) 40 60 2 5) := by decide

end IMap
end VelaVerif.Mem
