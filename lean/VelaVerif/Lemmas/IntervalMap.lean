import VelaVerif.Spec.Mem
import VelaVerif.Lemmas.Footprint
/-!
# The interval map of `Spec/Mem.lean` refines the per-byte tag map

`IMap.Inv` is the representation invariant (segments non-empty, sorted, pairwise disjoint).
Under it `IMap.write` is a byte-range update of the per-byte view `IMap.get` and
`IMap.firstMismatch` decides "every byte of the range carries the expected tag".
-/
namespace VelaVerif.Mem

/-- representation invariant: every segment is non-empty (`lo < hi`) and each segment ends at or
    before the start of the next one (hence sorted by `lo` and pairwise disjoint). -/
def IMap.Inv : IMap → Prop
  | [] => True
  | [s] => s.lo < s.hi
  | s :: t :: rest => s.lo < s.hi ∧ s.hi ≤ t.lo ∧ IMap.Inv (t :: rest)

instance IMap.decInv : (m : IMap) → Decidable (IMap.Inv m)
  | [] => isTrue trivial
  | [s] => inferInstanceAs (Decidable (s.lo < s.hi))
  | s :: t :: rest =>
    have := IMap.decInv (t :: rest)
    inferInstanceAs (Decidable (s.lo < s.hi ∧ s.hi ≤ t.lo ∧ IMap.Inv (t :: rest)))

namespace IMap

theorem inv_nil : Inv [] := trivial

theorem Inv.tail {s : Seg} {rest : IMap} (h : Inv (s :: rest)) : Inv rest := by
  cases rest with
  | nil => trivial
  | cons t r => exact h.2.2

theorem Inv.head {s : Seg} {rest : IMap} (h : Inv (s :: rest)) : s.lo < s.hi := by
  cases rest with
  | nil => exact h
  | cons t r => exact h.1

/-- every later segment starts at or after the end of the head -/
theorem Inv.head_le {s : Seg} {rest : IMap} (h : Inv (s :: rest)) : ∀ t ∈ rest, s.hi ≤ t.lo := by
  induction rest generalizing s with
  | nil => intro t ht; cases ht
  | cons u r ih =>
    intro t ht
    rcases List.mem_cons.mp ht with rfl | ht
    · exact h.2.1
    · have h2 : Inv (u :: r) := h.2.2
      have := ih h2 t ht
      have := h2.head
      have := h.2.1
      omega

/-- the pairwise form of the invariant -/
theorem inv_cons_iff (s : Seg) (rest : IMap) :
    Inv (s :: rest) ↔ s.lo < s.hi ∧ (∀ t ∈ rest, s.hi ≤ t.lo) ∧ Inv rest := by
  constructor
  · intro h; exact ⟨h.head, h.head_le, h.tail⟩
  · intro ⟨h1, h2, h3⟩
    cases rest with
    | nil => exact h1
    | cons t r => exact ⟨h1, h2 t (List.mem_cons_self), h3⟩

theorem Inv.mem_pos {m : IMap} (h : Inv m) : ∀ s ∈ m, s.lo < s.hi := by
  induction m with
  | nil => intro s hs; cases hs
  | cons a r ih =>
    intro s hs
    rcases List.mem_cons.mp hs with rfl | hs
    · exact h.head
    · exact ih h.tail s hs

/-! ### `get` -/

@[simp] theorem get_nil (b : Nat) : get [] b = none := rfl

theorem get_cons (s : Seg) (rest : IMap) (b : Nat) :
    get (s :: rest) b = if s.lo ≤ b ∧ b < s.hi then some (s.tid, s.delta) else get rest b := rfl

/-- a byte below every segment is undefined -/
theorem get_none_of_lt {m : IMap} {b : Nat} (h : ∀ t ∈ m, b < t.lo) : get m b = none := by
  induction m with
  | nil => rfl
  | cons s r ih =>
    have hs := h s (List.mem_cons_self)
    rw [get_cons, if_neg (by omega)]
    exact ih (fun t ht => h t (List.mem_cons_of_mem _ ht))

/-- a byte outside every segment is undefined -/
theorem get_none_of_outside {m : IMap} {b : Nat} (h : ∀ t ∈ m, b < t.lo ∨ t.hi ≤ b) : get m b = none := by
  induction m with
  | nil => rfl
  | cons s r ih =>
    have hs := h s (List.mem_cons_self)
    rw [get_cons, if_neg (by omega)]
    exact ih (fun t ht => h t (List.mem_cons_of_mem _ ht))

theorem get_cons_none_of_lt {s : Seg} {rest : IMap} {b : Nat} (h : Inv (s :: rest)) (hb : b < s.lo) :
    get (s :: rest) b = none := by
  apply get_none_of_lt
  intro t ht
  rcases List.mem_cons.mp ht with rfl | ht
  · exact hb
  · have := h.head_le t ht
    have := h.head
    omega

theorem get_append (m1 m2 : IMap) (b : Nat) :
    get (m1 ++ m2) b = match get m1 b with | some t => some t | none => get m2 b := by
  induction m1 with
  | nil => rfl
  | cons s r ih =>
    rw [List.cons_append, get_cons, get_cons]
    split
    · rfl
    · exact ih

/-- `get` finds a segment of the map -/
theorem get_eq_some {m : IMap} {b : Nat} {t : Nat × Int} (h : get m b = some t) :
    ∃ s ∈ m, s.lo ≤ b ∧ b < s.hi ∧ t = (s.tid, s.delta) := by
  induction m with
  | nil => cases h
  | cons s r ih =>
    rw [get_cons] at h
    split at h
    · rename_i hin
      exact ⟨s, List.mem_cons_self, hin.1, hin.2, (Option.some.inj h).symm⟩
    · obtain ⟨s', hs', h'⟩ := ih h
      exact ⟨s', List.mem_cons_of_mem _ hs', h'⟩

/-- under the invariant the segment containing a byte is unique, so `get` returns its tag -/
theorem get_of_mem {m : IMap} (hm : Inv m) {s : Seg} (hs : s ∈ m) {b : Nat} (h1 : s.lo ≤ b) (h2 : b < s.hi) :
    get m b = some (s.tid, s.delta) := by
  induction m with
  | nil => cases hs
  | cons a r ih =>
    rw [get_cons]
    rcases List.mem_cons.mp hs with rfl | hs
    · rw [if_pos ⟨h1, h2⟩]
    · have := hm.head_le s hs
      rw [if_neg (by omega)]
      exact ih hm.tail hs

/-! ### `cut` -/

theorem cut_nil (lo hi : Nat) : cut [] lo hi = [] := rfl

theorem cut_cons (s : Seg) (rest : IMap) (lo hi : Nat) :
    cut (s :: rest) lo hi =
      if s.hi ≤ lo then s :: cut rest lo hi
      else if hi ≤ s.lo then s :: rest
      else (if s.lo < lo then [{ s with hi := lo }] else []) ++
        (if hi < s.hi then { s with lo := hi } :: rest else cut rest lo hi) := by
  show (if s.hi ≤ lo then s :: cut rest lo hi
      else if hi ≤ s.lo then s :: rest
      else (if s.lo < lo then [{ s with hi := lo }] else []) ++
        (if hi < s.hi then (if hi < s.hi then [{ s with lo := hi }] else []) ++ rest else cut rest lo hi)) = _
  by_cases h : hi < s.hi
  · simp only [if_pos h, List.singleton_append]
  · simp only [if_neg h]

/-- every segment of `cut m lo hi` is a non-empty piece of a segment of `m` lying outside `[lo, hi)` -/
theorem mem_cut {m : IMap} {lo hi : Nat} (hm : Inv m) (hlh : lo ≤ hi) {t : Seg} (ht : t ∈ cut m lo hi) :
    t.lo < t.hi ∧ (t.hi ≤ lo ∨ hi ≤ t.lo) ∧
      ∃ s ∈ m, s.lo ≤ t.lo ∧ t.hi ≤ s.hi ∧ t.tid = s.tid ∧ t.delta = s.delta := by
  have _ := hlh
  induction m with
  | nil => cases ht
  | cons s rest ih =>
    have hpos := hm.head
    have hle := hm.head_le
    have ih' := fun h => ih hm.tail h
    rw [cut_cons] at ht
    split at ht
    · rcases List.mem_cons.mp ht with rfl | ht
      · exact ⟨hpos, Or.inl ‹_›, t, List.mem_cons_self, by omega, by omega, rfl, rfl⟩
      · obtain ⟨a, b, s', hs', c⟩ := ih' ht
        exact ⟨a, b, s', List.mem_cons_of_mem _ hs', c⟩
    · split at ht
      · rcases List.mem_cons.mp ht with rfl | ht
        · exact ⟨hpos, Or.inr ‹_›, t, List.mem_cons_self, by omega, by omega, rfl, rfl⟩
        · have := hle t ht
          exact ⟨hm.tail.mem_pos t ht, Or.inr (by omega), t, List.mem_cons_of_mem _ ht, by omega, by omega, rfl, rfl⟩
      · rcases List.mem_append.mp ht with ht | ht
        · split at ht
          · rw [List.mem_singleton] at ht
            subst ht
            exact ⟨by simpa, Or.inl (by simp), s, List.mem_cons_self, by simp, by simp; omega, rfl, rfl⟩
          · cases ht
        · split at ht
          · rcases List.mem_cons.mp ht with rfl | ht
            · exact ⟨by simpa, Or.inr (by simp), s, List.mem_cons_self, by simp; omega, by simp, rfl, rfl⟩
            · have := hle t ht
              exact ⟨hm.tail.mem_pos t ht, Or.inr (by omega), t, List.mem_cons_of_mem _ ht, by omega, by omega, rfl, rfl⟩
          · obtain ⟨a, b, s', hs', c⟩ := ih' ht
            exact ⟨a, b, s', List.mem_cons_of_mem _ hs', c⟩

theorem cut_inv {m : IMap} {lo hi : Nat} (hm : Inv m) (hlh : lo ≤ hi) : Inv (cut m lo hi) := by
  induction m with
  | nil => exact inv_nil
  | cons s rest ih =>
    have hpos := hm.head
    have hle := hm.head_le
    have ih' := ih hm.tail
    rw [cut_cons]
    split
    · rw [inv_cons_iff]
      refine ⟨hpos, ?_, ih'⟩
      intro t ht
      obtain ⟨_, _, s', hs', h1, _⟩ := mem_cut hm.tail hlh ht
      have := hle s' hs'
      omega
    · split
      · exact hm
      · have hR : Inv (if hi < s.hi then { s with lo := hi } :: rest else cut rest lo hi) ∧
            ∀ t ∈ (if hi < s.hi then { s with lo := hi } :: rest else cut rest lo hi), lo ≤ t.lo := by
          split
          · refine ⟨?_, ?_⟩
            · rw [inv_cons_iff]; exact ⟨by simpa, by simpa using hle, hm.tail⟩
            · intro t ht
              rcases List.mem_cons.mp ht with rfl | ht
              · simpa using hlh
              · have := hle t ht; omega
          · refine ⟨ih', ?_⟩
            intro t ht
            obtain ⟨_, _, s', hs', h1, _⟩ := mem_cut hm.tail hlh ht
            have := hle s' hs'
            omega
        split
        · rw [List.singleton_append, inv_cons_iff]
          exact ⟨by simpa, by simpa using hR.2, hR.1⟩
        · exact hR.1

/-- per-byte meaning of `cut`: bytes of `[lo, hi)` become undefined, all others are unchanged -/
theorem get_cut {m : IMap} {lo hi : Nat} (hm : Inv m) (hlh : lo ≤ hi) (b : Nat) :
    get (cut m lo hi) b = if lo ≤ b ∧ b < hi then none else get m b := by
  have _ := hlh
  induction m with
  | nil => simp [cut_nil]
  | cons s rest ih =>
    have hpos := hm.head
    have hle := hm.head_le
    have ih' := ih hm.tail
    rw [cut_cons]
    split
    · rw [get_cons, get_cons, ih']
      split <;> split <;> first | rfl | omega
    · split
      · split
        · exact get_cons_none_of_lt hm (by omega)
        · rfl
      · have hR : get (if hi < s.hi then { s with lo := hi } :: rest else cut rest lo hi) b =
            if lo ≤ b ∧ b < hi then none else if hi ≤ b ∧ b < s.hi then some (s.tid, s.delta) else get rest b := by
          split
          · rw [get_cons]
            simp only
            split
            · rw [if_neg (by omega)]
            · split
              · apply get_none_of_lt
                intro t ht; have := hle t ht; omega
              · rfl
          · rw [ih']
            split
            · rfl
            · rw [if_neg (by omega)]
        split
        · rw [List.singleton_append, get_cons, hR, get_cons]
          simp only
          split <;> split <;> (try split) <;> (try split) <;> first | rfl | omega
        · rw [List.nil_append, hR, get_cons]
          split <;> (try split) <;> (try split) <;> first | rfl | omega


/-! ### `insertSorted` -/

theorem insertSorted_cons (s n : Seg) (rest : IMap) :
    insertSorted (s :: rest) n = if n.hi ≤ s.lo then n :: s :: rest else s :: insertSorted rest n := rfl

theorem mem_insertSorted {m : IMap} {n t : Seg} (h : t ∈ insertSorted m n) : t = n ∨ t ∈ m := by
  induction m with
  | nil => exact Or.inl (List.mem_singleton.mp h)
  | cons s rest ih =>
    rw [insertSorted_cons] at h
    split at h
    · rcases List.mem_cons.mp h with rfl | h
      · exact Or.inl rfl
      · exact Or.inr h
    · rcases List.mem_cons.mp h with rfl | h
      · exact Or.inr List.mem_cons_self
      · rcases ih h with h | h
        · exact Or.inl h
        · exact Or.inr (List.mem_cons_of_mem _ h)

theorem insertSorted_inv {m : IMap} {n : Seg} (hm : Inv m) (hn : n.lo < n.hi)
    (hd : ∀ s ∈ m, s.hi ≤ n.lo ∨ n.hi ≤ s.lo) : Inv (insertSorted m n) := by
  induction m with
  | nil => exact hn
  | cons s rest ih =>
    have hpos := hm.head
    have hle := hm.head_le
    rw [insertSorted_cons]
    split
    · exact ⟨hn, ‹_›, hm⟩
    · rw [inv_cons_iff]
      refine ⟨hpos, ?_, ih hm.tail (fun t ht => hd t (List.mem_cons_of_mem _ ht))⟩
      intro t ht
      rcases mem_insertSorted ht with rfl | ht
      · have := hd s List.mem_cons_self; omega
      · exact hle t ht

theorem get_insertSorted {m : IMap} {n : Seg} (hd : ∀ s ∈ m, s.hi ≤ n.lo ∨ n.hi ≤ s.lo) (b : Nat) :
    get (insertSorted m n) b = if n.lo ≤ b ∧ b < n.hi then some (n.tid, n.delta) else get m b := by
  induction m with
  | nil => rfl
  | cons s rest ih =>
    rw [insertSorted_cons]
    split
    · rw [get_cons]
    · rw [get_cons, get_cons, ih (fun t ht => hd t (List.mem_cons_of_mem _ ht))]
      have := hd s List.mem_cons_self
      split <;> split <;> first | rfl | omega

/-! ### `write` -/

theorem write_eq (m : IMap) (lo hi tid : Nat) (d : Int) :
    write m lo hi tid d = if hi ≤ lo then m else insertSorted (cut m lo hi) ⟨lo, hi, tid, d⟩ := rfl

/-- 1. `write` preserves the representation invariant -/
theorem write_inv {m : IMap} (hm : Inv m) (lo hi tid : Nat) (d : Int) : Inv (write m lo hi tid d) := by
  rw [write_eq]
  split
  · exact hm
  · have hlh : lo ≤ hi := by omega
    apply insertSorted_inv (cut_inv hm hlh)
    · show lo < hi; omega
    · intro s hs
      exact (mem_cut hm hlh hs).2.1

/-- 2. `write` is the byte-range update of the per-byte view -/
theorem imap_refines_bytes {m : IMap} (hm : Inv m) (lo hi tid : Nat) (d : Int) (b : Nat) :
    get (write m lo hi tid d) b = if lo ≤ b ∧ b < hi then some (tid, d) else get m b := by
  rw [write_eq]
  split
  · rw [if_neg (by omega)]
  · have hlh : lo ≤ hi := by omega
    rw [get_insertSorted (fun s hs => (mem_cut hm hlh hs).2.1), get_cut hm hlh]
    simp only
    split <;> rfl

/-! ### `firstMismatch` -/

theorem firstMismatch_nil (lo hi tid : Nat) (d : Int) :
    firstMismatch [] lo hi tid d = if hi ≤ lo then none else some (lo, none) := rfl

theorem firstMismatch_cons (s : Seg) (rest : IMap) (lo hi tid : Nat) (d : Int) :
    firstMismatch (s :: rest) lo hi tid d =
      if hi ≤ lo then none
      else if s.hi ≤ lo then firstMismatch rest lo hi tid d
      else if lo < s.lo then some (lo, none)
      else if s.tid ≠ tid ∨ s.delta ≠ d then some (lo, some (s.tid, s.delta))
      else if hi ≤ s.hi then none
      else firstMismatch rest s.hi hi tid d := rfl

/-- 3. the checker accepts a range exactly when every byte of it carries the expected tag -/
theorem firstMismatch_none_iff {m : IMap} (hm : Inv m) (lo hi tid : Nat) (d : Int) :
    firstMismatch m lo hi tid d = none ↔ ∀ b, lo ≤ b → b < hi → get m b = some (tid, d) := by
  induction m generalizing lo with
  | nil =>
    rw [firstMismatch_nil]
    split
    · exact ⟨fun _ b _ _ => by omega, fun _ => rfl⟩
    · constructor
      · intro h; cases h
      · intro h; have := h lo (Nat.le_refl _) (by omega); cases this
  | cons s rest ih =>
    have hpos := hm.head
    have hle := hm.head_le
    rw [firstMismatch_cons]
    split
    · exact ⟨fun _ b _ _ => by omega, fun _ => rfl⟩
    · split
      · rw [ih hm.tail]
        constructor
        · intro h b h1 h2
          rw [get_cons, if_neg (by omega)]; exact h b h1 h2
        · intro h b h1 h2
          have := h b h1 h2
          rwa [get_cons, if_neg (by omega)] at this
      · split
        · constructor
          · intro h; cases h
          · intro h
            have := h lo (Nat.le_refl _) (by omega)
            rw [get_cons_none_of_lt hm ‹_›] at this; cases this
        · split
          · constructor
            · intro h; cases h
            · intro h
              have := h lo (Nat.le_refl _) (by omega)
              rw [get_cons, if_pos (by omega)] at this
              rename_i hne
              injection this with this
              injection this with h1 h2
              rcases hne with hne | hne
              · exact absurd h1 hne
              · exact absurd h2 hne
          · rename_i hne
            have htid : s.tid = tid := by
              apply Classical.byContradiction; intro h; exact hne (Or.inl h)
            have hdel : s.delta = d := by
              apply Classical.byContradiction; intro h; exact hne (Or.inr h)
            split
            · constructor
              · intro _ b h1 h2
                rw [get_cons, if_pos (by omega), htid, hdel]
              · intro _; rfl
            · rw [ih hm.tail]
              constructor
              · intro h b h1 h2
                rw [get_cons]
                split
                · rw [htid, hdel]
                · exact h b (by omega) h2
              · intro h b h1 h2
                have := h b (by omega) h2
                rwa [get_cons, if_neg (by omega)] at this


/-- 4. a reported mismatch is a byte of the range whose stored tag is what is reported and is not the
    expected one; moreover it is the *first* such byte. -/
theorem firstMismatch_some_sound {m : IMap} (hm : Inv m) {lo hi tid : Nat} {d : Int} {b : Nat}
    {found : Option (Nat × Int)} (h : firstMismatch m lo hi tid d = some (b, found)) :
    lo ≤ b ∧ b < hi ∧ get m b = found ∧ found ≠ some (tid, d) ∧
      ∀ b', lo ≤ b' → b' < b → get m b' = some (tid, d) := by
  induction m generalizing lo with
  | nil =>
    rw [firstMismatch_nil] at h
    split at h
    · cases h
    · injection h with h; injection h with h1 h2
      subst h1; subst h2
      exact ⟨Nat.le_refl _, by omega, rfl, by simp, fun b' _ _ => by omega⟩
  | cons s rest ih =>
    have hpos := hm.head
    have hle := hm.head_le
    rw [firstMismatch_cons] at h
    split at h
    · cases h
    · split at h
      · obtain ⟨h1, h2, h3, h4, h5⟩ := ih hm.tail h
        refine ⟨h1, h2, ?_, h4, ?_⟩
        · rw [get_cons, if_neg (by omega)]; exact h3
        · intro b' hb1 hb2
          rw [get_cons, if_neg (by omega)]; exact h5 b' hb1 hb2
      · split at h
        · injection h with h; injection h with h1 h2
          subst h1; subst h2
          exact ⟨Nat.le_refl _, by omega, get_cons_none_of_lt hm ‹_›, by simp, fun b' _ _ => by omega⟩
        · split at h
          · rename_i hne
            injection h with h; injection h with h1 h2
            subst h1; subst h2
            refine ⟨Nat.le_refl _, by omega, ?_, ?_, fun b' _ _ => by omega⟩
            · rw [get_cons, if_pos (by omega)]
            · intro heq
              injection heq with heq; injection heq with e1 e2
              rcases hne with hne | hne
              · exact hne e1
              · exact hne e2
          · rename_i hne
            have htid : s.tid = tid := by
              apply Classical.byContradiction; intro h; exact hne (Or.inl h)
            have hdel : s.delta = d := by
              apply Classical.byContradiction; intro h; exact hne (Or.inr h)
            split at h
            · cases h
            · obtain ⟨h1, h2, h3, h4, h5⟩ := ih hm.tail h
              refine ⟨by omega, h2, ?_, h4, ?_⟩
              · rw [get_cons, if_neg (by omega)]; exact h3
              · intro b' hb1 hb2
                rw [get_cons]
                split
                · rw [htid, hdel]
                · exact h5 b' (by omega) hb2

example : Inv (write (write [] 0 100 1 0) 40 60 2 5) := by decide

end IMap

open VelaVerif.Footprint

/-! ## Memory = region ↦ interval map -/

/-- per-byte view of the whole memory -/
def Memory.get (m : Memory) (region b : Nat) : Option (Nat × Int) := IMap.get (m.getMap region) b

/-- memory-wide invariant: the map of every region satisfies `IMap.Inv` -/
def Memory.Inv (m : Memory) : Prop := ∀ region, IMap.Inv (m.getMap region)

theorem Memory.getMap_nil (r : Nat) : Memory.getMap [] r = [] := rfl

theorem Memory.getMap_cons (p : Nat × IMap) (m : Memory) (r : Nat) :
    Memory.getMap (p :: m) r = if p.1 = r then p.2 else Memory.getMap m r := by
  unfold Memory.getMap
  rw [List.find?_cons]
  by_cases h : p.1 = r
  · simp [h]
  · simp [h]

theorem Memory.inv_nil : Memory.Inv [] := fun _ => IMap.inv_nil

/-- a concrete memory satisfies the invariant when each stored map does (decidable) -/
theorem Memory.inv_of_forall {m : Memory} (h : ∀ p ∈ m, IMap.Inv p.2) : m.Inv := by
  intro r
  induction m with
  | nil => exact IMap.inv_nil
  | cons p m ih =>
    rw [Memory.getMap_cons]
    split
    · exact h p List.mem_cons_self
    · exact ih (fun q hq => h q (List.mem_cons_of_mem _ hq))

theorem Memory.getMap_map_ne (m : Memory) (r r' : Nat) (im : IMap) (h : r' ≠ r) :
    Memory.getMap (m.map (fun p => if p.1 = r then (r, im) else p)) r' = Memory.getMap m r' := by
  induction m with
  | nil => rfl
  | cons p m ih =>
    rw [List.map_cons, Memory.getMap_cons, Memory.getMap_cons, ih]
    by_cases hp : p.1 = r
    · rw [if_pos hp]
      simp only
      rw [if_neg (by omega), if_neg (by omega)]
    · rw [if_neg hp]

theorem Memory.getMap_map_eq (m : Memory) (r : Nat) (im : IMap) (h : m.any (fun p => decide (p.1 = r)) = true) :
    Memory.getMap (m.map (fun p => if p.1 = r then (r, im) else p)) r = im := by
  induction m with
  | nil => cases h
  | cons p m ih =>
    rw [List.map_cons, Memory.getMap_cons]
    by_cases hp : p.1 = r
    · rw [if_pos hp]; simp
    · rw [if_neg hp, if_neg hp]
      apply ih
      rw [List.any_cons] at h
      simpa [hp] using h

/-- `setMap` is a point update of `getMap` -/
theorem Memory.getMap_setMap (m : Memory) (r r' : Nat) (im : IMap) :
    Memory.getMap (Memory.setMap m r im) r' = if r' = r then im else Memory.getMap m r' := by
  unfold Memory.setMap
  split
  · rename_i hany
    by_cases h : r' = r
    · subst h; rw [if_pos rfl]; exact Memory.getMap_map_eq m r' im hany
    · rw [if_neg h]; exact Memory.getMap_map_ne m r r' im h
  · rw [Memory.getMap_cons]
    simp only
    by_cases h : r' = r
    · rw [if_pos h.symm, if_pos h]
    · rw [if_neg (by omega), if_neg h]

/-! ### writing a list of pieces into one interval map -/

/-- the fold `writePieces` performs on the map of the written region -/
def IMap.writeAll (im : IMap) (tid : Nat) (shift : Int) (ps : List Piece) : IMap :=
  ps.foldl (fun im p => IMap.write im p.addr (p.addr + p.len) tid (p.delta + shift)) im

theorem IMap.writeAll_nil (im : IMap) (tid : Nat) (shift : Int) : IMap.writeAll im tid shift [] = im := rfl

theorem IMap.writeAll_cons (im : IMap) (tid : Nat) (shift : Int) (p : Piece) (ps : List Piece) :
    IMap.writeAll im tid shift (p :: ps) =
      IMap.writeAll (IMap.write im p.addr (p.addr + p.len) tid (p.delta + shift)) tid shift ps := rfl

theorem IMap.writeAll_inv {im : IMap} (h : IMap.Inv im) (tid : Nat) (shift : Int) (ps : List Piece) :
    IMap.Inv (IMap.writeAll im tid shift ps) := by
  induction ps generalizing im with
  | nil => exact h
  | cons p ps ih => rw [IMap.writeAll_cons]; exact ih (IMap.write_inv h _ _ _ _)

/-- the last piece of the list that contains byte `b` (later writes win) -/
def lastCover : List Piece → Nat → Option Piece
  | [], _ => none
  | p :: ps, b =>
    match lastCover ps b with
    | some q => some q
    | none => if p.covers b then some p else none

theorem lastCover_some {ps : List Piece} {b : Nat} {q : Piece} (h : lastCover ps b = some q) :
    q ∈ ps ∧ q.covers b := by
  induction ps with
  | nil => cases h
  | cons p ps ih =>
    unfold lastCover at h
    split at h
    · rename_i q' hq'
      injection h with h; subst h
      exact ⟨List.mem_cons_of_mem _ (ih hq').1, (ih hq').2⟩
    · split at h
      · injection h with h; subst h
        exact ⟨List.mem_cons_self, ‹_›⟩
      · cases h

theorem lastCover_cons (p : Piece) (ps : List Piece) (b : Nat) :
    lastCover (p :: ps) b =
      match lastCover ps b with
      | some q => some q
      | none => if p.covers b then some p else none := rfl

theorem lastCover_none_iff {ps : List Piece} {b : Nat} :
    lastCover ps b = none ↔ ∀ p ∈ ps, ¬ p.covers b := by
  induction ps with
  | nil => exact ⟨fun _ p hp => (by cases hp), fun _ => rfl⟩
  | cons p ps ih =>
    rw [lastCover_cons]
    cases hl : lastCover ps b with
    | some q =>
      simp only
      constructor
      · intro h; cases h
      · intro h
        have := lastCover_some hl
        exact absurd this.2 (h q (List.mem_cons_of_mem _ this.1))
    | none =>
      simp only
      have hn := ih.mp hl
      constructor
      · intro h q hq
        rcases List.mem_cons.mp hq with rfl | hq
        · intro hc; rw [if_pos hc] at h; cases h
        · exact hn q hq
      · intro h
        rw [if_neg (h p List.mem_cons_self)]

/-- per-byte meaning of the fold: the last covering piece determines the tag, uncovered bytes keep theirs -/
theorem IMap.get_writeAll {im : IMap} (h : IMap.Inv im) (tid : Nat) (shift : Int) (ps : List Piece) (b : Nat) :
    IMap.get (IMap.writeAll im tid shift ps) b =
      match lastCover ps b with
      | some q => some (tid, q.delta + shift)
      | none => IMap.get im b := by
  induction ps generalizing im with
  | nil => rfl
  | cons p ps ih =>
    rw [IMap.writeAll_cons, ih (IMap.write_inv h _ _ _ _), lastCover_cons]
    cases hl : lastCover ps b with
    | some q => rfl
    | none =>
      simp only
      rw [IMap.imap_refines_bytes h]
      by_cases hc : p.covers b
      · rw [if_pos hc, if_pos (show p.addr ≤ b ∧ b < p.addr + p.len from hc)]
      · rw [if_neg hc, if_neg (show ¬ (p.addr ≤ b ∧ b < p.addr + p.len) from hc)]


/-! ### `writePieces` / `readPieces` -/

theorem writePieces_eq (m : Memory) (region tid : Nat) (ps : List Piece) (shift : Int) :
    writePieces m region tid ps shift =
      m.setMap region (IMap.writeAll (m.getMap region) tid shift ps) := rfl

theorem getMap_writePieces (m : Memory) (region tid : Nat) (ps : List Piece) (shift : Int) (r' : Nat) :
    (writePieces m region tid ps shift).getMap r' =
      if r' = region then IMap.writeAll (m.getMap region) tid shift ps else m.getMap r' := by
  rw [writePieces_eq, Memory.getMap_setMap]

/-- 5a. `writePieces` preserves the memory-wide invariant -/
theorem writePieces_inv {m : Memory} (h : m.Inv) (region tid : Nat) (ps : List Piece) (shift : Int) :
    (writePieces m region tid ps shift).Inv := by
  intro r'
  rw [getMap_writePieces]
  split
  · exact IMap.writeAll_inv (h region) _ _ _
  · exact h r'

/-- 5b. exact per-byte meaning of `writePieces`: in the written region the last piece containing a byte
    determines its tag; every other byte of the memory is unchanged. -/
theorem get_writePieces {m : Memory} (h : m.Inv) (region tid : Nat) (ps : List Piece) (shift : Int) (r' b : Nat) :
    (writePieces m region tid ps shift).get r' b =
      if r' = region then
        match lastCover ps b with
        | some q => some (tid, q.delta + shift)
        | none => m.get region b
      else m.get r' b := by
  unfold Memory.get
  rw [getMap_writePieces]
  split
  · exact IMap.get_writeAll (h region) _ _ _ _
  · rfl

/-- other regions are untouched -/
theorem get_writePieces_other_region {m : Memory} (h : m.Inv) (region tid : Nat) (ps : List Piece) (shift : Int)
    {r' : Nat} (hr : r' ≠ region) (b : Nat) :
    (writePieces m region tid ps shift).get r' b = m.get r' b := by
  rw [get_writePieces h, if_neg hr]

/-- bytes outside every piece are untouched -/
theorem get_writePieces_outside {m : Memory} (h : m.Inv) (region tid : Nat) (ps : List Piece) (shift : Int)
    (r' : Nat) {b : Nat} (hb : ∀ p ∈ ps, ¬ p.covers b) :
    (writePieces m region tid ps shift).get r' b = m.get r' b := by
  rw [get_writePieces h]
  split
  · rename_i hr; rw [lastCover_none_iff.mpr hb, hr]
  · rfl

/-- every byte of every written piece reads back the tag of a piece that contains it -/
theorem get_writePieces_written {m : Memory} (h : m.Inv) (region tid : Nat) (ps : List Piece) (shift : Int)
    {p : Piece} (hp : p ∈ ps) {b : Nat} (hb : p.covers b) :
    ∃ q ∈ ps, q.covers b ∧ (writePieces m region tid ps shift).get region b = some (tid, q.delta + shift) := by
  rw [get_writePieces h, if_pos rfl]
  cases hl : lastCover ps b with
  | none => exact absurd hb (lastCover_none_iff.mp hl p hp)
  | some q => exact ⟨q, (lastCover_some hl).1, (lastCover_some hl).2, rfl⟩

/-- … and when the pieces containing the byte agree on the tag (in particular when the pieces are
    pairwise disjoint), it reads back exactly the written tag of `p` -/
theorem get_writePieces_written_eq {m : Memory} (h : m.Inv) (region tid : Nat) (ps : List Piece) (shift : Int)
    {p : Piece} (hp : p ∈ ps) {b : Nat} (hb : p.covers b) (hcons : ∀ q ∈ ps, q.covers b → q.delta = p.delta) :
    (writePieces m region tid ps shift).get region b = some (tid, p.delta + shift) := by
  obtain ⟨q, hq, hqb, hget⟩ := get_writePieces_written h region tid ps shift hp hb
  rw [hget, hcons q hq hqb]

/-- 5c. `readPieces` accepts exactly when every byte of every piece holds the expected tag -/
theorem readPieces_none_iff {m : Memory} (h : m.Inv) (region tid : Nat) (ps : List Piece) (shift : Int) :
    readPieces m region tid ps shift = none ↔
      ∀ p ∈ ps, ∀ b, p.covers b → m.get region b = some (tid, p.delta + shift) := by
  unfold readPieces
  simp only
  rw [List.findSome?_eq_none_iff]
  constructor
  · intro hall p hp b hb
    have := hall p hp
    cases hfm : IMap.firstMismatch (m.getMap region) p.addr (p.addr + p.len) tid (p.delta + shift) with
    | none => exact (IMap.firstMismatch_none_iff (h region) _ _ _ _).mp hfm b hb.1 hb.2
    | some r => rw [hfm] at this; cases this
  · intro hall p hp
    have := (IMap.firstMismatch_none_iff (h region) p.addr (p.addr + p.len) tid (p.delta + shift)).mpr
      (fun b h1 h2 => hall p hp b ⟨h1, h2⟩)
    rw [this]

/-- a reported read error names a real offending byte -/
theorem readPieces_some_sound {m : Memory} (h : m.Inv) (region tid : Nat) (ps : List Piece) (shift : Int)
    {msg : String} (hr : readPieces m region tid ps shift = some msg) :
    ∃ p ∈ ps, ∃ b, p.covers b ∧ m.get region b ≠ some (tid, p.delta + shift) := by
  apply Classical.byContradiction
  intro hne
  have : readPieces m region tid ps shift = none := by
    rw [readPieces_none_iff h]
    intro p hp b hb
    apply Classical.byContradiction
    intro hx
    exact hne ⟨p, hp, b, hb, hx⟩
  rw [this] at hr; cases hr

open VelaVerif.Decode VelaVerif.Isa

/-! ## The tagged-memory machine -/

/-- the read is satisfied by memory `m`: every byte of every piece carries the expected tag -/
def Read.Ok (m : Memory) (r : Read) : Prop :=
  ∀ p ∈ r.pieces, ∀ b, p.covers b → m.get r.region b = some (r.tid, p.delta + r.shift)

theorem readErr_nil_iff {m : Memory} (h : m.Inv) (idx : Nat) (r : Read) : readErr m idx r = [] ↔ r.Ok m := by
  unfold readErr Read.Ok
  rw [← readPieces_none_iff h]
  cases readPieces m r.region r.tid r.pieces r.shift with
  | none => simp
  | some msg => simp

theorem flatMap_readErr_nil_iff {m : Memory} (h : m.Inv) (idx : Nat) (rs : List Read) :
    rs.flatMap (readErr m idx) = [] ↔ ∀ r ∈ rs, r.Ok m := by
  rw [List.flatMap_eq_nil_iff]
  constructor
  · intro hh r hr; exact (readErr_nil_iff h idx r).mp (hh r hr)
  · intro hh r hr; exact (readErr_nil_iff h idx r).mpr (hh r hr)

/-- the reads of a step, `none` when the side information is of the wrong kind -/
def readsOf (e : Env) : DecOp → Info → Option (List Read)
  | .block b, .block i => some (blockReads e b i)
  | .dma d, .dma i => some (dmaReads e d i)
  | _, _ => none

/-- the memory after a step (independent of the reads' verdict) -/
def nextMem (e : Env) (m : Memory) : DecOp → Info → Memory
  | .block b, .block i =>
    writePieces (writePieces m REGION_SHRAM junkTid (shramClobber e b) 0)
      b.ofm.region i.ofm.tid (fmPiecesS b.ofm i.ofm.y0 i.ofm.x0 i.ofm.c0 i.ofm.shifts) 0
  | .dma d, .dma i =>
    writePieces (writePieces m d.dst.region junkTid [⟨d.dst.addr, d.dst.len, 0⟩]) d.dst.region i.dstTid
      [⟨d.dst.addr, i.validLen d.dst.len, i.dstDelta⟩] 0
  | _, _ => m

/-- a step is fine in memory `m`: kinds agree and all its reads are satisfied -/
def StepOk (e : Env) (m : Memory) (op : DecOp) (info : Info) : Prop :=
  ∃ rs, readsOf e op info = some rs ∧ ∀ r ∈ rs, r.Ok m

theorem step_snd (e : Env) (m : Memory) (idx : Nat) (op : DecOp) (info : Info) :
    (step e m idx op info).2 = nextMem e m op info := by
  cases op <;> cases info <;> rfl

theorem nextMem_inv (e : Env) {m : Memory} (h : m.Inv) (op : DecOp) (info : Info) : (nextMem e m op info).Inv := by
  cases op <;> cases info <;>
    first | exact writePieces_inv h _ _ _ _ | exact writePieces_inv (writePieces_inv h _ _ _ _) _ _ _ _ | exact h

theorem step_fst_nil_iff (e : Env) {m : Memory} (h : m.Inv) (idx : Nat) (op : DecOp) (info : Info) :
    (step e m idx op info).1 = [] ↔ StepOk e m op info := by
  cases op with
  | block b =>
    cases info with
    | block i =>
      show (blockReads e b i).flatMap (readErr m idx) = [] ↔ _
      rw [flatMap_readErr_nil_iff h]
      exact ⟨fun hh => ⟨_, rfl, hh⟩, fun ⟨rs, h1, h2⟩ => by cases h1; exact h2⟩
    | dma i => exact ⟨fun hh => (by cases hh), fun ⟨rs, h1, _⟩ => (by cases h1)⟩
  | dma d =>
    cases info with
    | block i => exact ⟨fun hh => (by cases hh), fun ⟨rs, h1, _⟩ => (by cases h1)⟩
    | dma i =>
      show (dmaReads e d i).flatMap (readErr m idx) = [] ↔ _
      rw [flatMap_readErr_nil_iff h]
      exact ⟨fun hh => ⟨_, rfl, hh⟩, fun ⟨rs, h1, h2⟩ => by cases h1; exact h2⟩

/-- the whole run is fine: each step is fine in the memory produced by the steps before it -/
def RunOk (e : Env) : Memory → List (DecOp × Info) → Prop
  | _, [] => True
  | m, (op, info) :: rest => StepOk e m op info ∧ RunOk e (nextMem e m op info) rest

theorem execGo_nil_iff (e : Env) (l : List ((DecOp × Info) × Nat)) {m : Memory} (h : m.Inv) (acc : List String) :
    execGo e l m acc = [] ↔ acc = [] ∧ RunOk e m (l.map (·.1)) := by
  induction l generalizing m acc with
  | nil => exact ⟨fun hh => ⟨hh, trivial⟩, fun hh => hh.1⟩
  | cons x rest ih =>
    obtain ⟨⟨op, info⟩, idx⟩ := x
    show execGo e rest (step e m idx op info).2 (acc ++ (step e m idx op info).1) = [] ↔
      acc = [] ∧ StepOk e m op info ∧ RunOk e (nextMem e m op info) (rest.map (·.1))
    rw [step_snd, ih (nextMem_inv e h op info), List.append_eq_nil_iff, step_fst_nil_iff e h]
    exact ⟨fun ⟨⟨a, b⟩, c⟩ => ⟨a, b, c⟩, fun ⟨a, b, c⟩ => ⟨⟨a, b⟩, c⟩⟩

theorem zipIdx_map_fst {α : Type} (l : List α) (k : Nat) : (l.zipIdx k).map (·.1) = l := by
  induction l generalizing k with
  | nil => rfl
  | cons a l ih => rw [List.zipIdx_cons, List.map_cons, ih]

/-- 6. the tagged-memory machine reports nothing exactly when every step's reads are satisfied at
    the moment the step executes -/
theorem execTagged_nil_iff (e : Env) {init : Memory} (h : init.Inv) (ops : List DecOp) (infos : List Info) :
    execTagged e init ops infos = [] ↔ RunOk e init (ops.zip infos) := by
  unfold execTagged
  rw [execGo_nil_iff e _ h, zipIdx_map_fst]
  exact ⟨fun hh => hh.2, fun hh => ⟨rfl, hh⟩⟩

/-- memory at the moment step `k` executes -/
def memAt (e : Env) (init : Memory) (l : List (DecOp × Info)) (k : Nat) : Memory :=
  (l.take k).foldl (fun m oi => nextMem e m oi.1 oi.2) init

theorem memAt_zero (e : Env) (init : Memory) (l : List (DecOp × Info)) : memAt e init l 0 = init := rfl

theorem memAt_succ_cons (e : Env) (init : Memory) (x : DecOp × Info) (l : List (DecOp × Info)) (k : Nat) :
    memAt e init (x :: l) (k + 1) = memAt e (nextMem e init x.1 x.2) l k := rfl

theorem RunOk_iff_forall (e : Env) (init : Memory) (l : List (DecOp × Info)) :
    RunOk e init l ↔ ∀ k (hk : k < l.length), StepOk e (memAt e init l k) l[k].1 l[k].2 := by
  induction l generalizing init with
  | nil => exact ⟨fun _ k hk => absurd hk (Nat.not_lt_zero _), fun _ => trivial⟩
  | cons x rest ih =>
    obtain ⟨op, info⟩ := x
    show StepOk e init op info ∧ RunOk e (nextMem e init op info) rest ↔ _
    rw [ih]
    constructor
    · intro ⟨h0, hr⟩ k hk
      cases k with
      | zero => exact h0
      | succ k => exact hr k (Nat.lt_of_succ_lt_succ hk)
    · intro hh
      exact ⟨hh 0 (Nat.zero_lt_succ _), fun k hk => hh (k + 1) (Nat.succ_lt_succ hk)⟩


/-! ### the reads of a block / DMA operation spelled out -/

/-- every byte of the footprint of `fm` holds tensor `fi.tid` at the expected canonical offset
    (the pieces of `fmPiecesS` already carry the shift of the tile they lie in) -/
def FmHolds (m : Memory) (fm : FM) (fi : FmInfo) : Prop :=
  ∀ p ∈ fmPiecesS fm fi.y0 fi.x0 fi.c0 fi.shifts, ∀ byte, p.covers byte →
    m.get fm.region byte = some (fi.tid, p.delta)

/-- every byte of the range holds the copy of constants-region byte `src + (byte − addr)` -/
def ConstHolds (m : Memory) (region addr len : Nat) (src : Int) : Prop :=
  ∀ byte, addr ≤ byte → byte < addr + len → m.get region byte = some (constTid, src - addr)

theorem fmRead_ok {e : Env} {m : Memory} {what : String} {fm : FM} {fi : FmInfo}
    (h : ∀ r ∈ fmRead e what fm fi, r.Ok m) (hr : fm.region ≠ e.constRegion) : FmHolds m fm fi := by
  unfold fmRead at h
  rw [if_neg hr] at h
  intro p hp byte hb
  have := h _ List.mem_cons_self p hp byte hb
  simpa using this

theorem constReads_ok {e : Env} {m : Memory} {what : String} {rs : List AddrRange} {srcs : List Int}
    (h : ∀ r ∈ constReads e what rs srcs, r.Ok m) {rg : AddrRange} {src : Int}
    (hmem : (rg, src) ∈ rs.zip srcs) (hr : rg.region ≠ e.constRegion) : ConstHolds m rg.region rg.addr rg.len src := by
  have hin : (⟨what, rg.region, constTid, [⟨rg.addr, rg.len, src - rg.addr⟩], 0⟩ : Read) ∈ constReads e what rs srcs := by
    unfold constReads
    rw [List.mem_flatMap]
    refine ⟨(rg, src), hmem, ?_⟩
    simp only
    rw [if_neg hr]
    exact List.mem_cons_self
  intro byte h1 h2
  have := h _ hin ⟨rg.addr, rg.len, src - rg.addr⟩ List.mem_cons_self byte ⟨h1, h2⟩
  simpa using this

/-- one-step soundness for a block operation: no error means every byte the operation reads held the
    expected tag in the memory the step ran in -/
theorem stepBlock_sound (e : Env) {m : Memory} (h : m.Inv) (idx : Nat) (b : BlockOp) (i : OpInfo)
    (herr : (stepBlock e m idx b i).1 = []) :
    (b.ifm.region ≠ e.constRegion → FmHolds m b.ifm i.ifm) ∧
    (∀ f, b.ifm2 = some f → f.region ≠ e.constRegion → FmHolds m f i.ifm2) ∧
    (∀ rg src, (rg, src) ∈ b.weights.zip i.wsrc → rg.region ≠ e.constRegion →
      ConstHolds m rg.region rg.addr rg.len src) ∧
    (∀ rg src, (rg, src) ∈ b.scales.zip i.ssrc → rg.region ≠ e.constRegion →
      ConstHolds m rg.region rg.addr rg.len src) ∧
    (∀ li, lutIndex b.activation = some li →
      ConstHolds m REGION_SHRAM (lutAddr e b li) (lutTableBytes b) i.lutsrc) := by
  have hall : ∀ r ∈ blockReads e b i, r.Ok m := (flatMap_readErr_nil_iff h idx _).mp herr
  unfold blockReads at hall
  simp only [List.mem_append] at hall
  refine ⟨?_, ?_, ?_, ?_, ?_⟩
  · exact fmRead_ok (fun r hr => hall r (Or.inl (Or.inl (Or.inl (Or.inl hr)))))
  · intro f hf
    refine fmRead_ok (what := "IFM2") (fun r hr => hall r (Or.inl (Or.inl (Or.inl (Or.inr ?_)))))
    rw [hf]; exact hr
  · intro rg src hmem
    exact constReads_ok (fun r hr => hall r (Or.inl (Or.inl (Or.inr hr)))) hmem
  · intro rg src hmem
    exact constReads_ok (fun r hr => hall r (Or.inl (Or.inr hr))) hmem
  · intro li hli byte h1 h2
    have hin : (⟨"LUT", REGION_SHRAM, constTid, [⟨lutAddr e b li, lutTableBytes b, i.lutsrc - (lutAddr e b li : Nat)⟩], 0⟩ : Read)
        ∈ lutRead e b i := by
      unfold lutRead; rw [hli]; exact List.mem_cons_self
    have := hall _ (Or.inr hin) _ List.mem_cons_self byte ⟨h1, h2⟩
    simpa using this

/-- one-step soundness for a DMA -/
theorem stepDma_sound (e : Env) {m : Memory} (h : m.Inv) (idx : Nat) (d : DmaOp) (i : DmaInfo)
    (herr : (stepDma e m idx d i).1 = []) (hr : d.src.region ≠ e.constRegion) :
    ∀ byte, d.src.addr ≤ byte → byte < d.src.addr + i.validLen d.src.len →
      m.get d.src.region byte = some (i.srcTid, i.srcDelta) := by
  have hall : ∀ r ∈ dmaReads e d i, r.Ok m := (flatMap_readErr_nil_iff h idx _).mp herr
  unfold dmaReads at hall
  rw [if_neg hr] at hall
  intro byte h1 h2
  have := hall _ List.mem_cons_self _ List.mem_cons_self byte ⟨h1, h2⟩
  simpa using this

end VelaVerif.Mem
