import VelaVerif.Lemmas.SchedFast
/-!
# The final assertion of `use_fast_storage_for_feature_maps` holds (`Model/SchedMem.lean`)
-/
namespace VelaVerif.SchedMem
open VelaVerif.Spec.SchedMem

/-- `max_mem_usage` = `base_mem_usage` + the ranges not yet decided (`pool`); wherever `base_mem_usage` exceeds the limit
    nothing movable has been kept (it still is the fixed usage) -/
structure GInv (limit : Int) (fixed : List Int) (st : FS) (pool : List FLR) : Prop where
  lenM : st.maxU.length = fixed.length
  lenB : st.baseU.length = fixed.length
  i1 : ∀ t, t < fixed.length → val st.maxU t = val st.baseU t + sumCond (fun _ => true) pool t
  i23 : ∀ t, t < fixed.length → val st.baseU t ≤ limit ∨ val st.baseU t = val fixed t

theorem sumCond_append (p : FLR → Bool) (a b : List FLR) (t : Nat) : sumCond p (a ++ b) t = sumCond p a t + sumCond p b t := by
  induction a with
  | nil => simp [sumCond]
  | cons x r ih => simp only [List.cons_append, sumCond, ih]; omega

theorem sumCond_middle (R T : List FLR) (lr : FLR) (t : Nat) :
    sumCond (fun _ => true) (R ++ lr :: T) t = sumCond (fun _ => true) (R ++ T) t + lr.contrib t := by
  simp only [sumCond_append, sumCond, ↓reduceIte]; omega

theorem sumCond_perm {p : FLR → Bool} {a b : List FLR} (h : a.Perm b) (t : Nat) : sumCond p a t = sumCond p b t := by
  induction h with
  | nil => rfl
  | cons x _ ih => simp only [sumCond, ih]
  | swap x y l => simp only [sumCond]; omega
  | trans _ _ ih1 ih2 => rw [ih1, ih2]

theorem contrib_nonneg (lr : FLR) (t : Nat) : 0 ≤ lr.contrib t := by unfold FLR.contrib; split <;> omega

theorem GInv.evict {limit : Int} {fixed : List Int} {st st' : FS} {R T : List FLR} {lr : FLR} {rec : Bool}
    (h : GInv limit fixed st (R ++ lr :: T)) (he : st.evict lr rec = .ok st') :
    GInv limit fixed st' (R ++ T) := by
  unfold FS.evict evictUsage at he
  cases ha : addTicks st.maxU lr (-(lr.size : Int)) with
  | error e => simp [ha, bind, Except.bind] at he
  | ok m =>
    simp only [ha, bind, Except.bind, Except.ok.injEq] at he
    subst he
    obtain ⟨hl', hv⟩ := addTicks_ok ha
    have hl := h.lenM
    refine ⟨by simpa [hl] using hl', h.lenB, ?_, h.i23⟩
    intro t ht
    have := h.i1 t ht
    rw [sumCond_middle] at this
    simp only
    rw [hv t (by omega)]
    unfold FLR.contrib at this
    split <;> simp_all <;> omega

theorem GInv.keep {limit : Int} {fixed : List Int} {st st' : FS} {R T : List FLR} {lr : FLR}
    (h : GInv limit fixed st (R ++ lr :: T))
    (hg : ∀ t, t < fixed.length → lr.start ≤ t → t ≤ lr.end_ → val st.baseU t + lr.size ≤ limit)
    (hk : st.keep lr = .ok st') : GInv limit fixed st' (R ++ T) := by
  unfold FS.keep keepUsage at hk
  cases ha : addTicks st.baseU lr (lr.size : Int) with
  | error e => simp [ha, bind, Except.bind] at hk
  | ok m =>
    simp only [ha, bind, Except.bind, Except.ok.injEq] at hk
    subst hk
    obtain ⟨hl', hv⟩ := addTicks_ok ha
    have hl := h.lenB
    refine ⟨h.lenM, by simpa [hl] using hl', ?_, ?_⟩
    · intro t ht
      have := h.i1 t ht
      rw [sumCond_middle] at this
      simp only
      rw [hv t (by omega)]
      unfold FLR.contrib at this
      split <;> simp_all <;> omega
    · intro t ht
      simp only
      rw [hv t (by omega)]
      by_cases hc : lr.start ≤ t ∧ t ≤ lr.end_
      · left; simp only [hc, and_self, ↓reduceIte]; exact hg t ht hc.1 hc.2
      · simp only [hc, ↓reduceIte, Int.add_zero]; exact h.i23 t ht

/-- the eviction pattern `pat` (true = evicted) keeps only ranges that pass `can_fit` when the kept ones are added to
    `base_mem_usage` in order -/
def Feasible (limit : Int) : List Int → List FLR → List Bool → Prop
  | _, [], [] => True
  | base, lr :: r, false :: p =>
    (∃ m, sliceMax base lr.start (lr.end_ + 1) = .ok m ∧ m + lr.size ≤ limit) ∧
    ∃ base', keepUsage base lr = .ok base' ∧ Feasible limit base' r p
  | base, _ :: r, true :: p => Feasible limit base r p
  | _, _, _ => False

theorem bind_ok {α β : Type} {x : Except Err α} {f : α → Except Err β} {b : β} (h : (x >>= f) = .ok b) :
    ∃ a, x = .ok a ∧ f a = .ok b := by
  cases x with
  | error e => simp [bind, Except.bind] at h
  | ok a => exact ⟨a, rfl, by simpa [bind, Except.bind] using h⟩

theorem allocExh_good (limit : Int) (P : List Bool → Prop) :
    ∀ (rest : List FLR) (score : Int) (base mx : List Int) (curr : List Bool) (best best' : Exh),
      (∀ suffix, Feasible limit base rest suffix → P (curr ++ suffix)) →
      (0 ≤ best.bestScore → P best.evicted) →
      allocExh limit rest score base mx curr best = .ok best' →
      (0 ≤ best'.bestScore → P best'.evicted) ∧ best.bestScore ≤ best'.bestScore := by
  intro rest
  induction rest with
  | nil =>
    intro score base mx curr best best' hpf hb h
    simp only [allocExh, Except.ok.injEq] at h
    subst h
    split
    · next hs => exact ⟨fun _ => by simpa using hpf [] (by simp [Feasible]), by simp only; omega⟩
    · exact ⟨hb, Int.le_refl _⟩
  | cons lr rest ih =>
    intro score base mx curr best best' hpf hb h
    unfold allocExh at h
    obtain ⟨bmax, hs, h⟩ := bind_ok h
    obtain ⟨best1, h1, h⟩ := bind_ok h
    obtain ⟨mmax, hs2, h⟩ := bind_ok h
    have hb1 : (0 ≤ best1.bestScore → P best1.evicted) ∧ best.bestScore ≤ best1.bestScore := by
      split at h1
      · next hfit =>
        obtain ⟨b', hk, h1⟩ := bind_ok h1
        refine ih _ b' mx _ best best1 ?_ hb h1
        intro suffix hf
        have := hpf (false :: suffix) ⟨⟨bmax, hs, hfit⟩, b', hk, hf⟩
        simpa using this
      · simp only [Except.ok.injEq] at h1; subst h1; exact ⟨hb, Int.le_refl _⟩
    split at h
    · obtain ⟨m', he, h⟩ := bind_ok h
      obtain ⟨hb2, hm2⟩ := ih score base m' (curr ++ [true]) best1 best' (by
        intro suffix hf
        have := hpf (true :: suffix) hf
        simpa using this) hb1.1 h
      exact ⟨hb2, Int.le_trans hb1.2 hm2⟩
    · simp only [Except.ok.injEq] at h; subst h; exact hb1

theorem foldl_max_mem (x : Int) (xs : List Int) : xs.foldl max x ∈ x :: xs := by
  induction xs generalizing x with
  | nil => simp
  | cons a r ih =>
    simp only [List.foldl_cons]
    have := ih (max x a)
    simp only [List.mem_cons] at this ⊢
    rcases this with h | h
    · rw [h]
      rcases Int.le_total x a with hle | hle
      · right; left; exact Int.max_eq_right hle
      · left; exact Int.max_eq_left hle
    · right; right; exact h

theorem sliceMax_attained {u : List Int} {a b : Nat} {m : Int} (h : sliceMax u a b = .ok m) :
    ∃ t, a ≤ t ∧ t < b ∧ t < u.length ∧ val u t = m := by
  unfold sliceMax at h
  split at h
  · simp at h
  · next x xs hx =>
    simp only [Except.ok.injEq] at h
    have hm : m ∈ x :: xs := h ▸ foldl_max_mem x xs
    rw [← hx] at hm
    simp only [List.mem_map, List.mem_filter] at hm
    obtain ⟨⟨v, t⟩, ⟨hmem, hc⟩, rfl⟩ := hm
    have := List.mem_zipIdx hmem
    simp only [decide_eq_true_eq] at hc
    refine ⟨t, hc.1, hc.2, by omega, ?_⟩
    simp only [Nat.zero_add, Nat.sub_zero] at this
    simp [val, List.getD, this.2.1, this.2.2]

theorem keepUsage_val {u u' : List Int} {lr : FLR} (h : keepUsage u lr = .ok u') :
    u'.length = u.length ∧ ∀ t, t < u.length → val u' t = val u t + lr.contrib t := by
  obtain ⟨h1, h2⟩ := addTicks_ok h
  exact ⟨h1, fun t ht => by rw [h2 t ht]; rfl⟩

theorem evictUsage_val {u u' : List Int} {lr : FLR} (h : evictUsage u lr = .ok u') :
    u'.length = u.length ∧ ∀ t, t < u.length → val u' t = val u t - lr.contrib t := by
  obtain ⟨h1, h2⟩ := addTicks_ok h
  refine ⟨h1, fun t ht => ?_⟩
  rw [h2 t ht]; unfold FLR.contrib; split <;> omega

theorem allocExh_reaches (limit : Int) (n : Nat) :
    ∀ (rest : List FLR) (score : Int) (base mx : List Int) (curr : List Bool) (best best' : Exh),
      base.length = n → mx.length = n →
      (∀ t, t < n → val base t + sumCond (fun _ => true) rest t ≤ val mx t) →
      allocExh limit rest score base mx curr best = .ok best' → score ≤ best'.bestScore := by
  intro rest
  induction rest with
  | nil =>
    intro score base mx curr best best' _ _ _ h
    simp only [allocExh, Except.ok.injEq] at h
    subst h
    split
    · exact Int.le_refl _
    · omega
  | cons lr rest ih =>
    intro score base mx curr best best' hlb hlm hM h
    unfold allocExh at h
    obtain ⟨bmax, hs, h⟩ := bind_ok h
    obtain ⟨best1, h1, h⟩ := bind_ok h
    obtain ⟨mmax, hs2, h⟩ := bind_ok h
    have hmono : best1.bestScore ≤ best'.bestScore := by
      split at h
      · obtain ⟨m', he, h⟩ := bind_ok h
        exact (allocExh_good limit (fun _ => True) rest score base m' _ best1 best' (fun _ _ => trivial) (fun _ => trivial) h).2
      · simp only [Except.ok.injEq] at h; subst h; exact Int.le_refl _
    by_cases hfit : bmax + ↑lr.size ≤ limit
    · simp only [hfit, ↓reduceIte] at h1
      obtain ⟨b', hk, h1⟩ := bind_ok h1
      obtain ⟨hl', hv'⟩ := keepUsage_val hk
      have := ih (score + lr.score) b' mx _ best best1 (by omega) hlm (by
        intro t ht
        have := hM t ht
        rw [hv' t (by omega)]
        simp only [sumCond, ↓reduceIte] at this
        omega) h1
      omega
    · simp only [hfit, ↓reduceIte, Except.ok.injEq] at h1
      subst h1
      have hnot : ¬ (mmax ≤ limit) := by
        intro hle
        obtain ⟨t, h1, h2, h3, h4⟩ := sliceMax_attained hs
        have hMt := hM t (by omega)
        have hc : lr.contrib t = lr.size := by simp [FLR.contrib, h1]; omega
        have hmx := sliceMax_ge hs2 t h1 h2 (by omega)
        have hnn := sumCond_nonneg (fun _ => true) rest t
        simp only [sumCond, ↓reduceIte] at hMt
        omega
      have hb : (!decide (mmax ≤ limit)) = true := by simp [hnot]
      simp only [hb, ↓reduceIte] at h
      obtain ⟨m', he, h⟩ := bind_ok h
      obtain ⟨hl', hv'⟩ := evictUsage_val he
      exact ih score base m' _ best best' hlb (by omega) (by
        intro t ht
        have := hM t ht
        rw [hv' t (by omega)]
        simp only [sumCond, ↓reduceIte] at this
        omega) h

theorem neverFit_g (limit : Int) (fixed : List Int) :
    ∀ (input : List FLR) (st : FS) (remaining : List FLR) (st' : FS) (rem' : List FLR),
      GInv limit fixed st (remaining ++ input) → neverFitPhase limit input st remaining = .ok (st', rem') →
      GInv limit fixed st' rem' := by
  intro input
  induction input with
  | nil => intro st remaining st' rem' hg h; simp [neverFitPhase] at h; obtain ⟨rfl, rfl⟩ := h; simpa using hg
  | cons lr rest ih =>
    intro st remaining st' rem' hg h
    unfold neverFitPhase at h
    obtain ⟨bu, hs, h⟩ := bind_ok h
    split at h
    · obtain ⟨st1, he, h⟩ := bind_ok h
      have hg1 := hg.evict he
      exact ih { st1 with evictedFms := st1.evictedFms ++ [lr.id] } remaining st' rem' ⟨hg1.lenM, hg1.lenB, hg1.i1, hg1.i23⟩ h
    · exact ih st (remaining ++ [lr]) st' rem' (by simpa using hg) h

theorem alwaysFit_g (limit : Int) (fixed : List Int) :
    ∀ (input : List FLR) (st : FS) (competing : List FLR) (st' : FS) (comp' : List FLR),
      GInv limit fixed st (competing ++ input) → alwaysFitPhase limit input st competing = .ok (st', comp') →
      GInv limit fixed st' comp' := by
  intro input
  induction input with
  | nil => intro st competing st' comp' hg h; simp [alwaysFitPhase] at h; obtain ⟨rfl, rfl⟩ := h; simpa using hg
  | cons lr rest ih =>
    intro st competing st' comp' hg h
    unfold alwaysFitPhase at h
    obtain ⟨mu, hs, h⟩ := bind_ok h
    split at h
    · next hle =>
      obtain ⟨st1, hk, h⟩ := bind_ok h
      refine ih st1 competing st' comp' (hg.keep ?_ hk) h
      intro t ht h1 h2
      have hi := hg.i1 t ht
      rw [sumCond_middle] at hi
      have hnn := sumCond_nonneg (fun _ => true) (competing ++ rest) t
      have hc : lr.contrib t = lr.size := by simp [FLR.contrib, h1, h2]
      have hm := sliceMax_ge hs t h1 (by omega) (by rw [hg.lenM]; exact ht)
      omega
    · exact ih st (competing ++ [lr]) st' comp' (by simpa using hg) h

theorem GInv.perm {limit : Int} {fixed : List Int} {st : FS} {a b : List FLR} (h : GInv limit fixed st a) (hp : a.Perm b) :
    GInv limit fixed st b :=
  ⟨h.lenM, h.lenB, fun t ht => by rw [← sumCond_perm hp]; exact h.i1 t ht, h.i23⟩

theorem longPhase_g (lrs curr : List FLR) (all : List Int) (limit : Int) (fixed : List Int) (hu : UniqueIds lrs)
    (hsub : ∀ lr ∈ curr, lr ∈ lrs) (copy : List FLR) :
    ∀ (zs : List (FLR × Nat)) (st : FS) (competing : List FLR) (st' : FS) (comp' : List FLR),
      FInv lrs all st → PInv curr st competing → GInv limit fixed st competing →
      (∀ z ∈ zs, z.1 ∈ competing) → (zs.map (·.1.id)).Nodup →
      longPhase copy zs st competing = .ok (st', comp') → GInv limit fixed st' comp' := by
  intro zs
  induction zs with
  | nil => intro st competing st' comp' _ _ hg _ _ h; simp [longPhase] at h; obtain ⟨rfl, rfl⟩ := h; exact hg
  | cons z rest ih =>
    intro st competing st' comp' hi hp hg hz hn h
    obtain ⟨lr, i⟩ := z
    have hn' := List.nodup_cons.mp (by simpa using hn : (lr.id :: rest.map (·.1.id)).Nodup)
    have hrest : ∀ z ∈ rest, z.1 ∈ competing := fun z hz' => hz z (by simp [hz'])
    unfold longPhase at h
    split at h
    · simp only at h
      split at h
      · simp at h
      · next other ho =>
        split at h
        · obtain ⟨st1, he, h⟩ := bind_ok h
          have hlc : lr ∈ competing := hz (lr, i) (by simp)
          obtain ⟨R, T, hRT⟩ := List.append_of_mem hlc
          have hnd : (competing.map (·.id)).Nodup := (List.nodup_append.mp hp.nodup).2.1
          obtain ⟨hi1, hev, _, _⟩ := evict_spec hu (hsub lr (hp.poolIn lr hlc)) hi he
          have hfil : competing.filter (·.id != lr.id) = R ++ T := by rw [hRT] at hnd ⊢; exact filter_remove R T lr hnd
          rw [hfil] at h
          refine ih st1 (R ++ T) st' comp' hi1 ((hRT ▸ hp).evictHead hev) ((hRT ▸ hg).evict he) ?_ hn'.2 h
          intro z hz'
          have hzc := hrest z hz'
          rw [hRT] at hzc
          simp only [List.mem_append, List.mem_cons] at hzc ⊢
          rcases hzc with hzc | hzc | hzc
          · exact Or.inl hzc
          · exact absurd (List.mem_map.mpr ⟨z, hz', by rw [hzc]⟩) hn'.1
          · exact Or.inr hzc
        · exact ih st competing st' comp' hi hp hg hrest hn'.2 h
    · exact ih st competing st' comp' hi hp hg hrest hn'.2 h

theorem feasible_length {limit : Int} : ∀ {base : List Int} {c : List FLR} {pat : List Bool}, Feasible limit base c pat → pat.length = c.length
  | _, [], [], _ => rfl
  | _, [], _ :: _, h => by simp [Feasible] at h
  | _, _ :: _, [], h => by simp [Feasible] at h
  | _, _ :: r, false :: p, h => by
    obtain ⟨_, b', _, hf⟩ := h
    simp [feasible_length hf]
  | _, _ :: r, true :: p, h => by
    have : Feasible limit _ r p := h
    simp [feasible_length this]

theorem decide_fold_g (limit : Int) (fixed : List Int) :
    ∀ (c : List FLR) (pat : List Bool) (st st' : FS) (pool : List FLR),
      Feasible limit st.baseU c pat → GInv limit fixed st (c ++ pool) →
      (c.zip pat).foldlM (fun st p => if p.2 then st.evict p.1 true else st.keep p.1) st = .ok st' →
      GInv limit fixed st' pool := by
  intro c
  induction c with
  | nil => intro pat st st' pool _ hg h; simp [pure, Except.pure] at h; subst h; simpa using hg
  | cons lr rest ih =>
    intro pat st st' pool hf hg h
    cases pat with
    | nil => simp [Feasible] at hf
    | cons p pr =>
      simp only [List.zip_cons_cons, List.foldlM_cons] at h
      have hg0 : GInv limit fixed st ([] ++ lr :: (rest ++ pool)) := by simpa using hg
      cases p with
      | true =>
        simp only [↓reduceIte] at h
        obtain ⟨st1, he, h⟩ := bind_ok h
        have hb : st1.baseU = st.baseU := by
          unfold FS.evict at he
          obtain ⟨m, _, he⟩ := bind_ok he
          simp only [Except.ok.injEq] at he; subst he; rfl
        exact ih pr st1 st' pool (by rw [hb]; exact hf) (by simpa using hg0.evict he) h
      | false =>
        simp only [Bool.false_eq_true, ↓reduceIte] at h
        obtain ⟨st1, hk, h⟩ := bind_ok h
        obtain ⟨⟨m, hs, hm⟩, b', hku, hf'⟩ := hf
        have hb : st1.baseU = b' := by
          unfold FS.keep at hk
          obtain ⟨b, hb, hk⟩ := bind_ok hk
          simp only [Except.ok.injEq] at hk; subst hk
          rw [hku] at hb; simp only [Except.ok.injEq] at hb; exact hb.symm
        refine ih pr st1 st' pool (by rw [hb]; exact hf') ?_ h
        have := hg0.keep (fun t ht h1 h2 => by
          have := sliceMax_ge hs t h1 (by omega) (by rw [hg.lenB]; exact ht)
          omega) hk
        simpa using this

theorem bind_err {α β : Type} {x : Except Err α} {f : α → Except Err β} {e : Err} (h : (x >>= f) = .error e) :
    x = .error e ∨ ∃ a, x = .ok a ∧ f a = .error e := by
  cases x with
  | error e' => left; simpa [bind, Except.bind] using h
  | ok a => right; exact ⟨a, rfl, by simpa [bind, Except.bind] using h⟩

theorem sliceMax_err {u : List Int} {a b : Nat} {e : Err} (h : sliceMax u a b = .error e) : e ≠ .assert_ := by
  unfold sliceMax at h
  split at h
  · simp at h; subst h; decide
  · simp at h

theorem addTicks_err {u : List Int} {lr : FLR} {v : Int} {e : Err} (h : addTicks u lr v = .error e) : e ≠ .assert_ := by
  unfold addTicks at h
  split at h
  · simp at h; subst h; decide
  · simp at h

theorem evict_err {st : FS} {lr : FLR} {r : Bool} {e : Err} (h : st.evict lr r = .error e) : e ≠ .assert_ := by
  unfold FS.evict at h
  rcases bind_err h with h | ⟨_, _, h⟩
  · exact addTicks_err h
  · simp at h

theorem keep_err {st : FS} {lr : FLR} {e : Err} (h : st.keep lr = .error e) : e ≠ .assert_ := by
  unfold FS.keep at h
  rcases bind_err h with h | ⟨_, _, h⟩
  · exact addTicks_err h
  · simp at h

theorem allocExh_err (limit : Int) : ∀ (rest : List FLR) (score : Int) (base mx : List Int) (curr : List Bool) (best : Exh) (e : Err),
    allocExh limit rest score base mx curr best = .error e → e ≠ .assert_ := by
  intro rest
  induction rest with
  | nil => intro score base mx curr best e h; simp [allocExh] at h
  | cons lr rest ih =>
    intro score base mx curr best e h
    unfold allocExh at h
    rcases bind_err h with h | ⟨bmax, _, h⟩
    · exact sliceMax_err h
    rcases bind_err h with h | ⟨best1, _, h⟩
    · split at h
      · rcases bind_err h with h | ⟨b', _, h⟩
        · exact addTicks_err h
        · exact ih _ _ _ _ _ _ h
      · simp at h
    rcases bind_err h with h | ⟨mmax, _, h⟩
    · exact sliceMax_err h
    split at h
    · rcases bind_err h with h | ⟨m', _, h⟩
      · exact addTicks_err h
      · exact ih _ _ _ _ _ _ h
    · simp at h

theorem foldlM_err {α : Type} (f : FS → α → Except Err FS) (hf : ∀ st a e, f st a = .error e → e ≠ .assert_) :
    ∀ (l : List α) (st : FS) (e : Err), l.foldlM f st = .error e → e ≠ .assert_ := by
  intro l
  induction l with
  | nil => intro st e h; simp [pure, Except.pure] at h
  | cons a r ih =>
    intro st e h
    simp only [List.foldlM_cons] at h
    rcases bind_err h with h | ⟨st1, _, h⟩
    · exact hf st a e h
    · exact ih st1 e h

theorem allocateComponent_err (limit : Int) (st : FS) (c : List FLR) (e : Err) (h : allocateComponent limit st c = .error e) : e ≠ .assert_ := by
  unfold allocateComponent at h
  rcases bind_err h with h | ⟨best, _, h⟩
  · exact allocExh_err limit _ _ _ _ _ _ _ h
  · refine foldlM_err _ ?_ _ _ _ h
    intro st p e h
    split at h
    · exact evict_err h
    · exact keep_err h

theorem neverFit_err (limit : Int) : ∀ (input : List FLR) (st : FS) (rem : List FLR) (e : Err),
    neverFitPhase limit input st rem = .error e → e ≠ .assert_ := by
  intro input
  induction input with
  | nil => intro st rem e h; simp [neverFitPhase] at h
  | cons lr rest ih =>
    intro st rem e h
    unfold neverFitPhase at h
    rcases bind_err h with h | ⟨bu, _, h⟩
    · exact sliceMax_err h
    split at h
    · rcases bind_err h with h | ⟨st1, _, h⟩
      · exact evict_err h
      · exact ih _ _ _ h
    · exact ih _ _ _ h

theorem alwaysFit_err (limit : Int) : ∀ (input : List FLR) (st : FS) (comp : List FLR) (e : Err),
    alwaysFitPhase limit input st comp = .error e → e ≠ .assert_ := by
  intro input
  induction input with
  | nil => intro st comp e h; simp [alwaysFitPhase] at h
  | cons lr rest ih =>
    intro st comp e h
    unfold alwaysFitPhase at h
    rcases bind_err h with h | ⟨mu, _, h⟩
    · exact sliceMax_err h
    split at h
    · rcases bind_err h with h | ⟨st1, _, h⟩
      · exact keep_err h
      · exact ih _ _ _ h
    · exact ih _ _ _ h

theorem longPhase_err (copy : List FLR) : ∀ (zs : List (FLR × Nat)) (st : FS) (comp : List FLR) (e : Err),
    longPhase copy zs st comp = .error e → e ≠ .assert_ := by
  intro zs
  induction zs with
  | nil => intro st comp e h; simp [longPhase] at h
  | cons z rest ih =>
    intro st comp e h
    obtain ⟨lr, i⟩ := z
    unfold longPhase at h
    split at h
    · simp only at h
      split at h
      · simp at h; subst h; decide
      · split at h
        · rcases bind_err h with h | ⟨st1, _, h⟩
          · exact evict_err h
          · exact ih _ _ _ h
        · exact ih _ _ _ h
    · exact ih _ _ _ h

theorem allocateComponent_g (limit : Int) (fixed : List Int) (c : List FLR) (st st' : FS) (pool : List FLR)
    (hg : GInv limit fixed st (c ++ pool)) (h : allocateComponent limit st c = .ok st') : GInv limit fixed st' pool := by
  unfold allocateComponent at h
  obtain ⟨best, hb, h⟩ := bind_ok h
  have hreach := allocExh_reaches limit fixed.length c 0 st.baseU st.maxU [] _ best hg.lenB hg.lenM (by
    intro t ht
    have := hg.i1 t ht
    rw [sumCond_append] at this
    have := sumCond_nonneg (fun _ => true) pool t
    omega) hb
  have hgood := (allocExh_good limit (Feasible limit st.baseU c) c 0 st.baseU st.maxU [] _ best
    (by intro suffix hf; simpa using hf) (by intro hneg; simp at hneg) hb).1 hreach
  exact decide_fold_g limit fixed c best.evicted st st' pool hgood hg h

theorem components_fold_g (limit : Int) (fixed : List Int) :
    ∀ (comps : List (List FLR)) (st st' : FS), GInv limit fixed st comps.flatten →
      comps.foldlM (fun st c => allocateComponent limit st c) st = .ok st' → GInv limit fixed st' [] := by
  intro comps
  induction comps with
  | nil => intro st st' hg h; simp [pure, Except.pure] at h; subst h; simpa using hg
  | cons c rest ih =>
    intro st st' hg h
    simp only [List.foldlM_cons] at h
    obtain ⟨st1, ha, h⟩ := bind_ok h
    exact ih st1 st' (allocateComponent_g limit fixed c st st1 rest.flatten (by simpa using hg) ha) h

theorem zip_all_of_val (u f : List Int) (limit : Int) (hl : u.length = f.length)
    (h : ∀ t, t < u.length → val u t ≤ max limit (val f t)) :
    ((u.zip f).all fun p => decide (p.1 ≤ max limit p.2)) = true := by
  induction u generalizing f with
  | nil => simp
  | cons a r ih =>
    cases f with
    | nil => simp at hl
    | cons b s =>
      simp only [List.zip_cons_cons, List.all_cons, Bool.and_eq_true, decide_eq_true_eq]
      refine ⟨by simpa [val] using h 0 (by simp), ih s (by simpa using hl) ?_⟩
      intro t ht
      simpa [val] using h (t + 1) (by simpa using ht)

theorem fastComponents_no_assert (limit : Int) (fixed : List Int) (st3 : FS) (competing3 : List FLR)
    (hg : GInv limit fixed st3 competing3) : fastComponents limit fixed st3 competing3 ≠ .error .assert_ := by
  unfold fastComponents
  split
  · simp
  · next first tl =>
    intro h
    cases hc : List.foldlM (fun st c => allocateComponent limit st c) st3 (components (first :: tl) [] first.end_) with
    | error e =>
      simp only [hc, bind, Except.bind] at h
      -- an error of a component is never the assertion: `allocateComponent` raises index / value errors only
      have := foldlM_err _ (fun st c e h => allocateComponent_err limit st c e h) _ _ _ hc
      simp only [Except.error.injEq] at h
      exact this h
    | ok st4 =>
      simp only [hc, bind, Except.bind] at h
      have hg4 := components_fold_g limit fixed _ st3 st4 (by rw [components_flatten]; simpa using hg) hc
      have hall := zip_all_of_val st4.maxU fixed limit hg4.lenM (by
        intro t ht
        have h1 := hg4.i1 t (by rw [← hg4.lenM]; exact ht)
        have h2 := hg4.i23 t (by rw [← hg4.lenM]; exact ht)
        simp only [sumCond, Int.add_zero] at h1
        rcases h2 with h2 | h2
        · exact Int.le_trans (by omega) (Int.le_max_left _ _)
        · rw [h1, h2]; exact Int.le_max_right _ _)
      simp [hall] at h


/-- **the final assertion holds**: `use_fast_storage_for_feature_maps` never ends in the AssertionError
    "Allocation exceeds staging limit" (nor in any other assertion) once the live ranges were extracted -/
theorem useFastStorage_no_assert (lrs : List FLR) (ct : Nat) (limit : Int) (maxU : List Int)
    (hids : (lrs.map (·.id)).Nodup) (hT : temporalUsage (lrs.map (·.tlr)) ct = .ok maxU) :
    useFastStorage lrs ct limit ≠ .error .assert_ := by
  intro h
  unfold useFastStorage at h
  simp only [hT, bind, Except.bind] at h
  have hu := uniqueIds_of_nodup hids
  split at h
  · simp at h
  · have hsub : ∀ lr ∈ lrs.filter (·.scratched), lr ∈ lrs := fun lr hlr => (List.mem_filter.mp hlr).1
    generalize hbase : (lrs.filter (·.scratched)).foldl (fun u lr => addRange u lr.start (lr.end_ + 1) (-(lr.size : Int))) maxU = baseU at h
    have hlenB : baseU.length = maxU.length := by
      rw [← hbase]
      cases hm : maxU with
      | nil =>
        have : ∀ (l : List FLR) (u : List Int), u = [] → l.foldl (fun u lr => addRange u lr.start (lr.end_ + 1) (-(lr.size : Int))) u = [] := by
          intro l; induction l with
          | nil => intro u hu; simpa using hu
          | cons a r ih => intro u hu; simp only [List.foldl_cons]; exact ih _ (by subst hu; simp [addRange])
        simp [this _ [] rfl]
      | cons x xs => rw [← hm]; exact (fold_sub _ maxU 0 (by rw [hm]; simp)).2
    have hi0 : FInv lrs maxU { baseU := baseU, maxU := maxU, evicted := [], kept := [], evictedFms := [] } :=
      ⟨rfl, hlenB, by intro t _; simp [evSum]⟩
    have hp0 : PInv (lrs.filter (·.scratched)) { baseU := baseU, maxU := maxU, evicted := [], kept := [], evictedFms := [] } ([] ++ lrs.filter (·.scratched)) := by
      refine ⟨?_, by intro id hid; simp at hid, by intro lr hlr; simpa using hlr⟩
      simp only [List.nil_append]
      exact hids.sublist ((List.filter_sublist).map _)
    have hg0 : GInv limit baseU { baseU := baseU, maxU := maxU, evicted := [], kept := [], evictedFms := [] } ([] ++ lrs.filter (·.scratched)) := by
      refine ⟨hlenB.symm, rfl, ?_, fun _ _ => Or.inr rfl⟩
      intro t ht
      simp only [List.nil_append]
      have := (fold_sub (lrs.filter (·.scratched)) maxU t (by omega)).1
      rw [hbase] at this
      omega
    cases h1 : neverFitPhase limit (lrs.filter (·.scratched)) { baseU := baseU, maxU := maxU, evicted := [], kept := [], evictedFms := [] } [] with
    | error e => simp only [h1, Except.error.injEq] at h; exact neverFit_err limit _ _ _ _ h1 h
    | ok r1 =>
      obtain ⟨st1, curr1⟩ := r1
      simp only [h1] at h
      obtain ⟨hi1, hp1, _, _, _, _⟩ := neverFit_spec lrs _ maxU limit hu hsub _ _ [] st1 curr1 hi0 hp0 h1
      have hg1 := neverFit_g limit baseU _ _ [] st1 curr1 hg0 h1
      cases h2 : alwaysFitPhase limit curr1 st1 [] with
      | error e => simp only [h2, Except.error.injEq] at h; exact alwaysFit_err limit _ _ _ _ h2 h
      | ok r2 =>
        obtain ⟨st2, competing⟩ := r2
        simp only [h2] at h
        obtain ⟨hi2, hp2, _, _, _, _⟩ := alwaysFit_spec lrs _ maxU limit curr1 st1 [] st2 competing hi1 (by simpa using hp1) h2
        have hg2 := alwaysFit_g limit baseU curr1 st1 [] st2 competing (by simpa using hg1) h2
        split at h
        · simp at h
        · have hps : PInv (lrs.filter (·.scratched)) st2 (sortFlr competing) := by
            refine ⟨?_, hp2.evIn, fun lr hlr => hp2.poolIn lr ((sortFlr_perm _).mem_iff.mp hlr)⟩
            exact ((List.Perm.append_left _ ((sortFlr_perm competing).map _)).nodup_iff).mpr hp2.nodup
          have hgs : GInv limit baseU st2 (sortFlr competing) := hg2.perm (sortFlr_perm competing).symm
          split at h
          · cases h3 : longPhase (sortFlr competing) (sortFlr competing).zipIdx st2 (sortFlr competing) with
            | error e => simp only [h3, Except.error.injEq] at h; exact longPhase_err _ _ _ _ _ h3 h
            | ok r3 =>
              obtain ⟨st3, competing3⟩ := r3
              simp only [h3] at h
              have hz : ∀ z ∈ (sortFlr competing).zipIdx, z.1 ∈ sortFlr competing := by
                intro z hz; exact (List.mem_zipIdx hz).2.2 ▸ List.getElem_mem _
              have hn : ((sortFlr competing).zipIdx.map (fun z => z.1.id)).Nodup := by
                have e : (fun z : FLR × Nat => z.1.id) = (fun lr : FLR => lr.id) ∘ Prod.fst := rfl
                rw [e, ← List.map_map, List.zipIdx_map_fst]
                exact (List.nodup_append.mp hps.nodup).2.1
              have hg3 := longPhase_g lrs _ maxU limit baseU hu hsub _ _ st2 _ st3 competing3 hi2 hps hgs hz hn h3
              exact fastComponents_no_assert limit baseU st3 competing3 hg3 h
          · exact fastComponents_no_assert limit baseU st2 _ hgs h

end VelaVerif.SchedMem
