import VelaVerif.Lemmas.Config
/-!
C18: the model of `_get_vela_config` refines the documented rules (`Spec/Config.lean`), step by step.
-/
namespace VelaVerif.Config
open VelaVerif.Spec.Config

def Refines {α β : Type} (R : α → β → Prop) (x : Except Err α) (v : Verdict β) : Prop :=
  match v with
  | .unspecified => True
  | .reject => ∃ e, x = .error e
  | .accept b => ∃ a, x = .ok a ∧ R a b

theorem Verdict.bind_eq {α β : Type} (v : Verdict α) (f : α → Verdict β) : (v >>= f) = v.bind f := rfl
theorem Verdict.pure_eq {α : Type} (a : α) : (pure a : Verdict α) = .accept a := rfl

theorem Refines.bind {α β γ δ : Type} {R : α → β → Prop} {S : γ → δ → Prop} {x : Except Err α} {v : Verdict β}
    {f : α → Except Err γ} {g : β → Verdict δ}
    (h : Refines R x v) (hf : ∀ a b, v = .accept b → R a b → Refines S (f a) (g b)) :
    Refines S (x >>= f) (v.bind g) := by
  cases v with
  | unspecified => trivial
  | reject =>
    obtain ⟨e, he⟩ := h
    exact ⟨e, by simp [he, Bind.bind, Except.bind]⟩
  | accept b =>
    obtain ⟨a, ha, hr⟩ := h
    have := hf a b rfl hr
    simpa [ha, Bind.bind, Except.bind, Verdict.bind] using this

theorem ok_bind {α β : Type} (x : α) (f : α → Except Err β) : ((Except.ok x : Except Err α) >>= f) = f x := rfl

theorem fieldOr_refines {α : Type} (r : Option String) (d d' : α) (p : String → Option α) (e : Err)
    (hd : r = none → d = d') : Refines Eq (fieldOr r d p e) (optVal r d' p) := by
  cases r with
  | none => exact ⟨d, rfl, hd rfl⟩
  | some v =>
    simp only [fieldOr, optVal]
    cases p v with
    | none => exact ⟨e, rfl⟩
    | some x => exact ⟨x, rfl, rfl⟩

theorem intField_refines (r : Option String) (d d' : Int) (hd : r = none → d = d') :
    Refines Eq (intField r d) (docInt64 r d') := by
  have h := fieldOr_refines r d d' parseInt .valueError hd
  simp only [intField, docInt64]
  cases hv : optVal r d' parseInt with
  | unspecified => trivial
  | reject =>
    rw [hv] at h
    obtain ⟨e, he⟩ := h
    rw [he]; exact ⟨e, rfl⟩
  | accept x =>
    rw [hv] at h
    obtain ⟨a, ha, hr⟩ := h
    subst hr
    rw [ha]
    simp only
    split
    · trivial
    · exact ⟨a, rfl, rfl⟩

theorem optVal_none_accept {α : Type} {d x : α} {p : String → Option α} (h : optVal none d p = .accept x) : x = d := by
  simp [optVal] at h; exact h.symm

theorem docInt64_none_accept {d x : Int} (h : docInt64 none d = .accept x) : x = d := by
  simp only [docInt64, optVal] at h
  split at h
  · cases h
  · cases h; rfl

/-- a row the documentation accepts has the documented default wherever the key is absent -/
theorem docRow_accept_defaults {ch : List Section} {a : MemArea} {r : Row} (h : docRow ch a = .accept r) :
    (nearest (a.key ++ "_clock_scale") ch = none → r.scale = Dy.one) ∧
    (nearest (a.key ++ "_burst_length") ch = none → r.burst = 1) ∧
    (nearest (a.key ++ "_read_latency") ch = none → r.rlat = 0) ∧
    (nearest (a.key ++ "_write_latency") ch = none → r.wlat = 0) := by
  simp only [docRow, Verdict.bind_eq, Verdict.pure_eq] at h
  cases h1 : optVal (nearest (a.key ++ "_clock_scale") ch) Dy.one parseFloat with
  | unspecified => rw [h1] at h; cases h
  | reject => rw [h1] at h; cases h
  | accept sc =>
    rw [h1] at h
    cases h2 : docInt64 (nearest (a.key ++ "_burst_length") ch) 1 with
    | unspecified => rw [h2] at h; cases h
    | reject => rw [h2] at h; cases h
    | accept bl =>
      rw [h2] at h
      cases h3 : docInt64 (nearest (a.key ++ "_read_latency") ch) 0 with
      | unspecified => rw [h3] at h; cases h
      | reject => rw [h3] at h; cases h
      | accept rl =>
        rw [h3] at h
        cases h4 : docInt64 (nearest (a.key ++ "_write_latency") ch) 0 with
        | unspecified => rw [h4] at h; cases h
        | reject => rw [h4] at h; cases h
        | accept wl =>
          rw [h4] at h; simp only [Verdict.bind] at h
          cases h
          refine ⟨fun hn => ?_, fun hn => ?_, fun hn => ?_, fun hn => ?_⟩
          · rw [hn] at h1; exact optVal_none_accept h1
          · rw [hn] at h2; exact docInt64_none_accept h2
          · rw [hn] at h3; exact docInt64_none_accept h3
          · rw [hn] at h4; exact docInt64_none_accept h4

theorem readArea_refines (rd : Reader) (ch : List Section) (hrd : ∀ k, rd k = .ok (nearest k ch))
    (t : Tab) (a : MemArea) (row : Row) (hg : t.get? a = some row)
    (hrow : (nearest (a.key ++ "_clock_scale") ch = none → row.scale = Dy.one) ∧
      (nearest (a.key ++ "_burst_length") ch = none → row.burst = 1) ∧
      (nearest (a.key ++ "_read_latency") ch = none → row.rlat = 0) ∧
      (nearest (a.key ++ "_write_latency") ch = none → row.wlat = 0)) :
    Refines (fun t' r => t' = t.set a r) (readArea rd t a) (docRow ch a) := by
  simp only [readArea, hg, docRow, hrd, Verdict.bind_eq, Verdict.pure_eq]
  simp only [ok_bind]
  apply Refines.bind (fieldOr_refines _ _ _ _ _ hrow.1)
  intro sc sc' _ hsc; subst hsc
  apply Refines.bind (intField_refines _ _ _ hrow.2.1)
  intro bl bl' _ hbl; subst hbl
  apply Refines.bind (intField_refines _ _ _ hrow.2.2.1)
  intro rl rl' _ hrl; subst hrl
  apply Refines.bind (intField_refines _ _ _ hrow.2.2.2)
  intro wl wl' _ hwl; subst hwl
  exact ⟨_, rfl, rfl⟩

theorem beq_lit_false {a s : String} (h : ¬ s = a) : (a == s) = false := by
  rw [beq_eq_false_iff_ne]; exact fun e => h e.symm

theorem memPort_refines (r : Option String) :
    Refines Eq (fieldOr r MemPort.axi0 MemPort.ofName? .keyError) (docMemPort r) := by
  cases r with
  | none => exact ⟨_, rfl, rfl⟩
  | some s =>
    simp only [fieldOr, docMemPort]
    by_cases h0 : s = "Axi0"
    · subst h0; exact ⟨_, rfl, rfl⟩
    · by_cases h1 : s = "Axi1"
      · subst h1; exact ⟨_, rfl, rfl⟩
      · have : MemPort.ofName? s = none := by
          simp [MemPort.ofName?, MemPort.all, MemPort.name, List.find?, beq_lit_false h0, beq_lit_false h1]
        simp [this, h0, h1, Refines]

theorem port_refines (r : Option String) :
    Refines Eq (fieldOr r MemArea.sram MemArea.ofName? .keyError) (docPort r) := by
  cases r with
  | none => exact ⟨_, rfl, rfl⟩
  | some s =>
    simp only [fieldOr, docPort]
    by_cases h1 : s = "Sram"
    · subst h1; exact ⟨_, rfl, rfl⟩
    by_cases h2 : s = "Dram"
    · subst h2; exact ⟨_, rfl, rfl⟩
    by_cases h3 : s = "OnChipFlash"
    · subst h3; exact ⟨_, rfl, rfl⟩
    by_cases h4 : s = "OffChipFlash"
    · subst h4; exact ⟨_, rfl, rfl⟩
    by_cases h5 : s = "Unknown"
    · subst h5; trivial
    by_cases h6 : s = "Shram"
    · subst h6; trivial
    by_cases h7 : s = "Size"
    · subst h7; trivial
    have : MemArea.ofName? s = none := by
      simp [MemArea.ofName?, MemArea.all, MemArea.name, List.find?, beq_lit_false h1, beq_lit_false h2,
        beq_lit_false h3, beq_lit_false h4, beq_lit_false h5, beq_lit_false h6, beq_lit_false h7]
    simp [this, h1, h2, h3, h4, h5, h6, h7, Refines]


def MemArea.documented (a : MemArea) : Prop := a = .sram ∨ a = .dram ∨ a = .onChipFlash ∨ a = .offChipFlash

theorem docPort_accept {r : Option String} {a : MemArea} (h : docPort r = .accept a) : a.documented := by
  cases r with
  | none => simp [docPort] at h; subst h; exact Or.inl rfl
  | some s =>
    simp only [docPort] at h
    split at h
    · cases h; exact Or.inl rfl
    · split at h
      · cases h; exact Or.inr (Or.inl rfl)
      · split at h
        · cases h; exact Or.inr (Or.inr (Or.inl rfl))
        · split at h
          · cases h; exact Or.inr (Or.inr (Or.inr rfl))
          · split at h <;> cases h

theorem get_init_documented {a : MemArea} (h : a.documented) : Tab.init.get? a = some Row.init := by
  rcases h with rfl | rfl | rfl | rfl <;> rfl

theorem get_set_documented {a b : MemArea} (ha : a.documented) (hb : b.documented) (r : Row) :
    (Tab.init.set a r).get? b = some (if b = a then r else Row.init) := by
  rcases ha with rfl | rfl | rfl | rfl <;> rcases hb with rfl | rfl | rfl | rfl <;> simp [Tab.set, Tab.get?, Tab.init]

theorem sysFromFile_refines (rd : Reader) (ch : List Section) (hrd : ∀ k, rd k = .ok (nearest k ch)) :
    Refines (fun s v => v = (s.coreClock, s.axi0, s.axi1, s.tab)) (sysFromFile rd) (sysFromChain ch) := by
  simp only [sysFromFile, sysFromChain, hrd, Verdict.bind_eq, Verdict.pure_eq, ok_bind]
  apply Refines.bind (fieldOr_refines _ _ _ _ _ (fun _ => rfl))
  intro cc cc' _ hcc; subst hcc
  apply Refines.bind (port_refines _)
  intro a0 a0' ha0 e; subst e
  apply Refines.bind (port_refines _)
  intro a1 a1' ha1 e; subst e
  have d0 := docPort_accept ha0
  have d1 := docPort_accept ha1
  apply Refines.bind (readArea_refines rd ch hrd Tab.init a0 Row.init (get_init_documented d0)
    ⟨fun _ => rfl, fun _ => rfl, fun _ => rfl, fun _ => rfl⟩)
  intro t0 r0 hr0 e; subst e
  have hrow : (nearest (a1.key ++ "_clock_scale") ch = none → (if a1 = a0 then r0 else Row.init).scale = Dy.one) ∧
      (nearest (a1.key ++ "_burst_length") ch = none → (if a1 = a0 then r0 else Row.init).burst = 1) ∧
      (nearest (a1.key ++ "_read_latency") ch = none → (if a1 = a0 then r0 else Row.init).rlat = 0) ∧
      (nearest (a1.key ++ "_write_latency") ch = none → (if a1 = a0 then r0 else Row.init).wlat = 0) := by
    by_cases e : a1 = a0
    · subst e
      simpa using docRow_accept_defaults hr0
    · simp only [e, if_false]
      exact ⟨fun _ => rfl, fun _ => rfl, fun _ => rfl, fun _ => rfl⟩
  apply Refines.bind (readArea_refines rd ch hrd _ a1 _ (get_set_documented d0 d1 r0) hrow)
  intro t1 r1 _ e; subst e
  exact ⟨_, rfl, rfl⟩

theorem memFromFile_refines (rd : Reader) (ch : List Section) (hrd : ∀ k, rd k = .ok (nearest k ch)) (maxAddr : Nat) :
    Refines (fun m v => v = (m.constPort, m.arenaPort, m.cachePort, m.size)) (memFromFile rd maxAddr)
      (memFromChain ch maxAddr) := by
  simp only [memFromFile, memFromChain, hrd, Verdict.bind_eq, Verdict.pure_eq, ok_bind]
  apply Refines.bind (memPort_refines _)
  intro c c' _ e; subst e
  apply Refines.bind (memPort_refines _)
  intro a a' _ e; subst e
  apply Refines.bind (memPort_refines _)
  intro k k' _ e; subst e
  apply Refines.bind (fieldOr_refines _ _ _ _ _ (fun _ => rfl))
  intro sz sz' _ e; subst e
  exact ⟨_, rfl, rfl⟩


/-- the architecture record built from the (possibly Sram-only adjusted) configurations -/
def archOf (s : SysCfg) (m : MemCfg) (size : Int) : Arch :=
  { coreClock := s.coreClock, axi0 := s.axi0, axi1 := s.axi1, tab := s.tab,
    constPort := m.constPort, arenaPort := m.arenaPort, cachePort := m.cachePort,
    arenaCacheSize := size, permanent := portArea s.axi0 s.axi1 m.constPort,
    featureMap := portArea s.axi0 s.axi1 m.arenaPort, fast := portArea s.axi0 s.axi1 m.cachePort }

theorem checkArch_refines (maxAddr : Nat) (s : SysCfg) (m : MemCfg) (size : Int) :
    Refines Eq (checkArch maxAddr s m size)
      (if constOk (portArea s.axi0 s.axi1 m.constPort) && arenaOk (portArea s.axi0 s.axi1 m.arenaPort) &&
          cacheOk (portArea s.axi0 s.axi1 m.cachePort) && decide (0 ≤ size) && decide (size ≤ (maxAddr : Int)) then
        Verdict.accept (archOf s m size)
      else .reject) := by
  have e1 : ∀ a, legalConstArea a = constOk a := fun _ => rfl
  have e2 : ∀ a, legalArenaArea a = arenaOk a := fun _ => rfl
  have e3 : ∀ a, legalCacheArea a = cacheOk a := fun _ => rfl
  simp only [checkArch, e1, e2, e3]
  cases constOk (portArea s.axi0 s.axi1 m.constPort)
  · exact ⟨_, rfl⟩
  cases arenaOk (portArea s.axi0 s.axi1 m.arenaPort)
  · exact ⟨_, rfl⟩
  cases cacheOk (portArea s.axi0 s.axi1 m.cachePort)
  · exact ⟨_, rfl⟩
  by_cases h0 : size < 0
  · have : ¬ (0 ≤ size) := by omega
    simp only [h0, this, if_true, decide_false, Bool.and_false, Bool.false_and, Bool.false_eq_true, if_false]
    exact ⟨_, rfl⟩
  · have h0' : 0 ≤ size := by omega
    by_cases h1 : size > (maxAddr : Int)
    · have : ¬ (size ≤ (maxAddr : Int)) := by omega
      simp only [h0, h1, this, if_true, if_false, decide_false, Bool.and_false, Bool.false_eq_true]
      exact ⟨_, rfl⟩
    · have : size ≤ (maxAddr : Int) := by omega
      simp only [h0, h1, h0', this, if_true, if_false, decide_true, Bool.and_self]
      exact ⟨_, rfl, rfl⟩

/-- the Sram-only arrangement as the documentation describes it -/
def specOverride (s : SysCfg) (m : MemCfg) : SysCfg × MemCfg :=
  let so := m.constPort == m.arenaPort && m.arenaPort == m.cachePort && portArea s.axi0 s.axi1 m.constPort == .sram
  let c' := if so then otherPort m.constPort else m.constPort
  ({ s with axi0 := if so && c' == .axi0 then MemArea.onChipFlash else s.axi0,
            axi1 := if so && c' == .axi1 then MemArea.onChipFlash else s.axi1,
            tab := if so then { s.tab with onChipFlash := s.tab.sram } else s.tab },
   { m with constPort := c' })

theorem sramOverride_eq (s : SysCfg) (m : MemCfg) : sramOverride s m = specOverride s m := by
  obtain ⟨cc, a0, a1, tab⟩ := s
  obtain ⟨c, a, k, sz⟩ := m
  cases c <;> cases a <;> cases k <;> simp only [sramOverride, specOverride, portArea, otherPort]
  · by_cases h : a0 = MemArea.sram <;> simp [h, Tab.set]
  all_goals first | (by_cases h : a1 = MemArea.sram <;> simp [h, Tab.set]) | simp

theorem finalize_refines (maxAddr : Nat) (cli : Option Int) (s : SysCfg) (m : MemCfg) :
    Refines Eq (finalize maxAddr cli s m)
      (specFinal maxAddr cli (s.coreClock, s.axi0, s.axi1, s.tab) (m.constPort, m.arenaPort, m.cachePort, m.size)) := by
  have h := checkArch_refines maxAddr (specOverride s m).1 (specOverride s m).2 (chosenSize cli m.size)
  simp only [finalize, sramOverride_eq]
  have hs : (specOverride s m).2.size = m.size := rfl
  rw [hs]
  have : specFinal maxAddr cli (s.coreClock, s.axi0, s.axi1, s.tab) (m.constPort, m.arenaPort, m.cachePort, m.size) =
      (if constOk (portArea (specOverride s m).1.axi0 (specOverride s m).1.axi1 (specOverride s m).2.constPort) &&
          arenaOk (portArea (specOverride s m).1.axi0 (specOverride s m).1.axi1 (specOverride s m).2.arenaPort) &&
          cacheOk (portArea (specOverride s m).1.axi0 (specOverride s m).1.axi1 (specOverride s m).2.cachePort) &&
          decide (0 ≤ chosenSize cli m.size) && decide (chosenSize cli m.size ≤ (maxAddr : Int)) then
        Verdict.accept (archOf (specOverride s m).1 (specOverride s m).2 (chosenSize cli m.size))
      else .reject) := by
    cases cli <;> rfl
  rw [this]
  exact h


theorem readConfig_of_spec_chain {ini : Ini} {fuel : Nat} {sec : String} {ch : List Section}
    (h : chain ini fuel sec = some ch) (k : String) : readConfig ini fuel sec k = .ok (nearest k ch) := by
  have := readConfig_eq_chain ini k fuel sec
  rw [h] at this
  cases hr : readConfig ini fuel sec k with
  | error e => rw [hr] at this; simp [Except.toOption] at this
  | ok r => rw [hr] at this; simp [Except.toOption] at this; rw [this]

theorem readConfig_of_spec_reject {ini : Ini} {fuel : Nat} {sec : String}
    (h : chain ini fuel sec = none) (k : String) : ∃ e, readConfig ini fuel sec k = .error e := by
  have := readConfig_eq_chain ini k fuel sec
  rw [h] at this
  cases hr : readConfig ini fuel sec k with
  | error e => exact ⟨e, rfl⟩
  | ok r => rw [hr] at this; simp [Except.toOption] at this

theorem defaultName_eq : defaultName = internalDefault := by decide

def sysTuple (s : SysCfg) : Dy × MemArea × MemArea × Tab := (s.coreClock, s.axi0, s.axi1, s.tab)
def memTuple (m : MemCfg) : MemPort × MemPort × MemPort × Int := (m.constPort, m.arenaPort, m.cachePort, m.size)

/-- the hard-coded `_set_default_sys_config` equals the section of the example file that OPTIONS.md names
    (re-checked against the live vela.ini and OPTIONS.md) -/
theorem docInternalSys_eq (b : Bool) : docInternalSys b = .accept (sysTuple (defaultSys b)) := by
  cases b <;> decide

def exChainMem (b : Bool) : List Section :=
  match exampleChain (if b then Gen.Cfg.docMemU65 else Gen.Cfg.docMemU55) with
  | .accept c => c
  | _ => []

theorem docInternalMem_eq (b : Bool) (maxAddr : Nat) :
    docInternalMem b maxAddr = .accept (memTuple (defaultMem b maxAddr)) := by
  have h0 : exampleChain (if b then Gen.Cfg.docMemU65 else Gen.Cfg.docMemU55) = .accept (exChainMem b) := by
    cases b <;> decide
  simp only [docInternalMem, Verdict.bind_eq, h0, Verdict.bind, memFromChain, Verdict.pure_eq]
  cases b
  · have h1 : nearest "const_mem_area" (exChainMem false) = some "Axi1" := by decide
    have h2 : nearest "arena_mem_area" (exChainMem false) = some "Axi0" := by decide
    have h3 : nearest "cache_mem_area" (exChainMem false) = some "Axi0" := by decide
    have h4 : nearest "arena_cache_size" (exChainMem false) = none := by decide
    simp only [h1, h2, h3, h4]
    rfl
  · have h1 : nearest "const_mem_area" (exChainMem true) = some "Axi1" := by decide
    have h2 : nearest "arena_mem_area" (exChainMem true) = some "Axi1" := by decide
    have h3 : nearest "cache_mem_area" (exChainMem true) = some "Axi0" := by decide
    have h4 : nearest "arena_cache_size" (exChainMem true) = some "393216" := by decide
    have h5 : parseInt "393216" = some 393216 := by decide
    simp only [h1, h2, h3, h4]
    simp only [optVal, h5]
    rfl


theorem sysStage_refines (inp : Input) (himx : inp.imx93 = false) :
    Refines (fun s v => v = sysTuple s) (sysStage inp) (docSysConfig inp.ini inp.isU65 inp.systemConfig) := by
  simp only [sysStage, docSysConfig, selectSection, Verdict.bind_eq, himx, Bool.false_eq_true, if_false, defaultName_eq]
  cases hini : inp.ini with
  | none =>
    simp only
    by_cases hn : (inp.systemConfig == internalDefault) = true
    · simp only [hn, if_true, Verdict.bind, docInternalSys_eq]
      exact ⟨_, rfl, rfl⟩
    · simp only [hn, if_false, Verdict.bind, Bool.false_eq_true]
      exact ⟨_, rfl⟩
  | some f =>
    simp only [Ini.hasSection]
    by_cases hs : (f.lookup ("System_Config." ++ inp.systemConfig)).isSome = true
    · simp only [hs, if_true]
      cases hc : chain f (Spec.Config.fuelFor f) ("System_Config." ++ inp.systemConfig) with
      | none =>
        obtain ⟨e, he⟩ := readConfig_of_spec_reject hc "core_clock"
        refine ⟨e, ?_⟩
        simp only [sysFromFile]
        have : fuelFor f = Spec.Config.fuelFor f := rfl
        rw [this, he]; rfl
      | some ch =>
        simp only [Verdict.bind]
        have : fuelFor f = Spec.Config.fuelFor f := rfl
        rw [this]
        exact sysFromFile_refines _ ch (readConfig_of_spec_chain hc)
    · simp only [hs, if_false, Bool.false_eq_true]
      by_cases hn : (inp.systemConfig == internalDefault) = true
      · simp only [hn, if_true, Verdict.bind, docInternalSys_eq]
        exact ⟨_, rfl, rfl⟩
      · simp only [hn, if_false, Verdict.bind, Bool.false_eq_true]
        exact ⟨_, rfl⟩

theorem memStage_refines (inp : Input) :
    Refines (fun m v => v = memTuple m) (memStage inp) (docMemMode inp.ini inp.isU65 inp.maxAddr inp.memoryMode) := by
  simp only [memStage, docMemMode, selectSection, Verdict.bind_eq, defaultName_eq]
  cases hini : inp.ini with
  | none =>
    simp only
    by_cases hn : (inp.memoryMode == internalDefault) = true
    · simp only [hn, if_true, Verdict.bind, docInternalMem_eq]
      exact ⟨_, rfl, rfl⟩
    · simp only [hn, if_false, Verdict.bind, Bool.false_eq_true]
      exact ⟨_, rfl⟩
  | some f =>
    simp only [Ini.hasSection]
    by_cases hs : (f.lookup ("Memory_Mode." ++ inp.memoryMode)).isSome = true
    · simp only [hs, if_true]
      cases hc : chain f (Spec.Config.fuelFor f) ("Memory_Mode." ++ inp.memoryMode) with
      | none =>
        obtain ⟨e, he⟩ := readConfig_of_spec_reject hc "const_mem_area"
        refine ⟨e, ?_⟩
        simp only [memFromFile]
        have : fuelFor f = Spec.Config.fuelFor f := rfl
        rw [this, he]; rfl
      | some ch =>
        simp only [Verdict.bind]
        have : fuelFor f = Spec.Config.fuelFor f := rfl
        rw [this]
        exact memFromFile_refines _ ch (readConfig_of_spec_chain hc) inp.maxAddr
    · simp only [hs, if_false, Bool.false_eq_true]
      by_cases hn : (inp.memoryMode == internalDefault) = true
      · simp only [hn, if_true, Verdict.bind, docInternalMem_eq]
        exact ⟨_, rfl, rfl⟩
      · simp only [hn, if_false, Verdict.bind, Bool.false_eq_true]
        exact ⟨_, rfl⟩

/-- the model of `_get_vela_config` (base class) refines the documented rules, for every input -/
theorem getVelaConfig_refines (inp : Input) (himx : inp.imx93 = false) :
    Refines Eq (getVelaConfig inp)
      (specArch inp.ini inp.isU65 inp.maxAddr inp.systemConfig inp.memoryMode inp.cli) := by
  simp only [getVelaConfig, specArch]
  apply Refines.bind (sysStage_refines inp himx)
  intro s sv _ e; subst e
  apply Refines.bind (memStage_refines inp)
  intro m mv _ e; subst e
  exact finalize_refines inp.maxAddr inp.cli s m

theorem specCheck_of_refines {x : Except Err Arch} {v : Verdict Arch} (h : Refines Eq x v) :
    specCheck v x.toOption = true := by
  cases v with
  | unspecified => rfl
  | reject => obtain ⟨e, he⟩ := h; subst he; rfl
  | accept b => obtain ⟨a, ha, hr⟩ := h; subst ha; subst hr; simp [specCheck, Except.toOption]

end VelaVerif.Config
