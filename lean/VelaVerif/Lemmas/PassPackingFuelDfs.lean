import VelaVerif.Lemmas.PassPackingFinal
/-!
# The traversal of `pack_into_passes` never runs out of the model's fuel (well-formed graphs)
-/
namespace VelaVerif.Lemmas.PassPackingDfs
open VelaVerif.PassPacking VelaVerif.Gen.PassPacking VelaVerif.PassPackingSpec VelaVerif.Lemmas.PassPackingWalk

variable {G : Graph} {rk : Nat → Nat}

/-! ## the traversal never runs out of fuel -/

theorem filter_lt_succ (l : List Nat) (n : Nat) : (l.filter (· < n + 1)).length = (l.filter (· < n)).length + l.count n := by
  induction l with
  | nil => simp
  | cons x rest ih =>
    simp only [List.filter_cons, List.count_cons]
    by_cases h1 : x < n
    · have h2 : x < n + 1 := by omega
      have h3 : (x == n) = false := by simp; omega
      simp [h1, h2, h3, ih]; omega
    · by_cases h2 : x = n
      · subst h2; simp [ih]; omega
      · have h3 : ¬ x < n + 1 := by omega
        have h4 : (x == n) = false := by simpa using h2
        simp [h1, h3, h4, ih]

theorem length_le_sum_of_count_le (l : List Nat) (f : Nat → Nat) (N : Nat) (hc : ∀ t, l.count t ≤ f t) (h0 : ∀ t, N ≤ t → f t = 0) :
    l.length ≤ ((List.range N).map f).sum := by
  have hfil : ∀ n, (l.filter (· < n)).length ≤ ((List.range n).map f).sum := by
    intro n
    induction n with
    | zero => simp
    | succ n ih =>
      rw [filter_lt_succ, List.range_succ, List.map_append, List.sum_append]
      have := hc n
      simp only [List.map_cons, List.map_nil, List.sum_cons, List.sum_nil]
      omega
  have hall : l.filter (· < N) = l := by
    rw [List.filter_eq_self]
    intro t ht
    simp only [decide_eq_true_eq]
    rcases Nat.lt_or_ge t N with h | h
    · exact h
    · have h1 := hc t
      rw [h0 t h] at h1
      have : l.count t ≥ 1 := List.count_pos_iff.mpr ht
      omega
  have := hfil N
  rw [hall] at this
  exact this

theorem sum_range_tensors (G : Graph) : ((List.range G.tensors.length).map fun t => (G.tensor t).consumers.length).sum =
    (G.tensors.map fun t => t.consumers.length).sum := by
  congr 1
  apply List.ext_getElem
  · simp
  · intro i h1 h2
    simp only [List.length_map, List.length_range] at h1
    simp [Graph.tensor, List.getD_eq_getElem?_getD, List.getElem?_eq_getElem h1]

theorem sum_range_ops (G : Graph) : ((List.range G.ops.length).map fun o => (G.op o).outputs.length).sum =
    (G.ops.map fun o => o.outputs.length).sum := by
  congr 1
  apply List.ext_getElem
  · simp
  · intro i h1 h2
    simp only [List.length_map, List.length_range] at h1
    simp [Graph.op, List.getD_eq_getElem?_getD, List.getElem?_eq_getElem h1]

/-- the visits made so far fit into the fuel -/
theorem visits_bound {d : Dfs} (hA : DInvA G d) : d.doneT.length + d.doneO.length + 1 ≤ dfsFuel G := by
  have h1 : d.doneT.length ≤ ((List.range G.tensors.length).map fun t => (G.tensor t).consumers.length).sum := by
    apply length_le_sum_of_count_le
    · exact hA.bound
    · intro t ht
      rw [tensor_default (Nat.not_lt.mpr ht)]; rfl
  have h2 : d.doneO.length ≤ ((List.range G.ops.length).map fun o => (G.op o).outputs.length).sum := by
    apply length_le_sum_of_count_le
    · intro o
      by_cases hz : d.doneO.count o = 0
      · omega
      · have := hA.obound o (by omega); omega
    · intro o ho
      rw [op_default (Nat.not_lt.mpr ho)]; rfl
  rw [sum_range_tensors] at h1
  rw [sum_range_ops] at h2
  unfold dfsFuel
  omega

theorem stepCase_progress {d d' : Dfs} (hc : StepCase G d d') (hne : d.stack ≠ []) :
    d'.doneT.length + d'.doneO.length = d.doneT.length + d.doneO.length + 1 ∧ d'.fuelOut = d.fuelOut := by
  cases hc with
  | idle h => exact absurd h hne
  | vt t rest hs hle => simp; omega
  | voPlain o rest hs hle hty => simp; omega
  | voPass o rest p hs heq hty hp => simp; omega

theorem dfsStart_fuelOut (d : Dfs) (o : Nat) : (dfsStart Rules.current G d o).fuelOut = d.fuelOut ∧
    ((dfsStart Rules.current G d o).err ≠ d.err → (dfsStart Rules.current G d o).stack = []) := by
  unfold dfsStart
  split
  · exact ⟨rfl, fun h => absurd rfl h⟩
  · split
    · exact ⟨rfl, fun _ => rfl⟩
    · exact ⟨rfl, fun h => absurd rfl h⟩

/-- a step that raises leaves an empty stack and does not touch the fuel flag -/
theorem dfsStep_fail (d : Dfs) : (dfsStep Rules.current G d).fuelOut = d.fuelOut ∧
    ((dfsStep Rules.current G d).err ≠ d.err → (dfsStep Rules.current G d).stack = []) := by
  unfold dfsStep
  split
  · exact ⟨rfl, fun h => absurd rfl h⟩
  · simp only []
    split
    · exact ⟨rfl, fun _ => rfl⟩
    · split
      · exact ⟨rfl, fun h => absurd rfl h⟩
      · exact ⟨rfl, fun h => absurd rfl h⟩
  · simp only []
    split
    · exact ⟨rfl, fun _ => rfl⟩
    · split
      · exact dfsStart_fuelOut _ _
      · exact ⟨rfl, fun h => absurd rfl h⟩

theorem dfsRun_fuel (hW : WFU G rk) (n : Nat) (d : Dfs) (hA : DInvA G d) (hB : DInvB G d) (herr : d.err = none)
    (hf : d.fuelOut = false) (hn : dfsFuel G ≤ d.doneT.length + d.doneO.length + n) :
    (dfsRun Rules.current G n d).fuelOut = false := by
  induction n generalizing d with
  | zero =>
    simp only [dfsRun]
    split
    · exact hf
    · have := visits_bound hA; omega
  | succ n ih =>
    simp only [dfsRun]
    split
    · exact hf
    · rename_i hne
      have hne' : d.stack ≠ [] := by intro h; simp [h] at hne
      obtain ⟨hfo, hfail⟩ := dfsStep_fail (G := G) d
      by_cases he : (dfsStep Rules.current G d).err = none
      · obtain ⟨hA', hB'⟩ := dfsStep_inv hW d hA hB he
        obtain ⟨hprog, _⟩ := stepCase_progress (dfsStep_cases d he) hne'
        exact ih _ hA' hB' he (by rw [hfo]; exact hf) (by omega)
      · have hst := hfail (by rw [herr]; exact he)
        rw [dfsRun_empty Rules.current n _ hst, hfo]; exact hf

/-- **the traversal from the graph outputs never runs out of the fuel the model gives it** (well-formed graphs) -/
theorem dfsMain_fuel_ok (hW : WFU G rk) : (dfsMain Rules.current G).fuelOut = false := by
  unfold dfsMain
  exact dfsRun_fuel hW (dfsFuel G) _ init_inv.1 init_inv.2 rfl rfl (by simp)

end VelaVerif.Lemmas.PassPackingDfs
