import VelaVerif.Model.Box
import VelaVerif.Lemmas.Receptive
/-! Helper lemmas for C10 about `Model/Box.lean`. -/
namespace VelaVerif.Box
open VelaVerif.Receptive

/-- Height axis without upscaling: closed form of what `transformH` returns, in terms of the products
    `Y0 = (y0-w0)*s`, `Y1 = (y1-w0)*s`; `H` = rows the operator can read, `off` = read offset.
    The OFM stripe may end below the IFM (`y1 - w0 > H`). -/
theorem transformH_up1 (y0 y1 w0 s skT skB H kd : Int) (off : Option Int)
    (hs : 1 ≤ s) (h01 : y0 < y1) (hsk : kd - s ≤ skT + skB) :
    let r := transformH y0 y1 w0 off (some (s, skT, skB)) H 1 kd
    let e := (y1 - w0) * s - s - skT + kd
    r.a = max ((y0 - w0) * s - skT) 0 + offOf off ∧ r.pt = max (skT - (y0 - w0) * s) 0 ∧
    r.pb = max (e - H) 0 ∧ r.b = max (min (min (y1 - w0) H * s + skB) H) 1 + offOf off ∧ e ≤ (y1 - w0) * s + skB := by
  intro r e
  have htot : s * (y1 - w0 - (y0 - w0) - 1) = (y1 - w0) * s - (y0 - w0) * s - s := by ring
  have hge : (y0 - w0) * s + s ≤ (y1 - w0) * s := by
    have : (y0 - w0 + 1) * s ≤ (y1 - w0) * s := Int.mul_le_mul_of_nonneg_right (by omega) (by omega)
    have e2 : (y0 - w0 + 1) * s = (y0 - w0) * s + s := by ring
    omega
  simp only [r, e, transformH, Int.emod_one, Int.ediv_one, Int.add_zero, Int.mul_one, if_true]
  simp only [htot]
  generalize (y0 - w0) * s = Y0 at *
  generalize (y1 - w0) * s = Y1 at *
  generalize min (y1 - w0) H * s = M at *
  refine ⟨by omega, by omega, ?_, trivial, by omega⟩
  split <;> omega

/-- `needed_total_padding` is TensorFlow Lite's total SAME padding `max((out-1)*s + k_dil - H, 0)` -/
theorem neededTotalPadding_eq_sameTotal (H s kd : Int) (hs : 1 ≤ s) :
    neededTotalPadding H s kd = sameTotal H s kd := by
  unfold neededTotalPadding sameTotal sameOut
  have hdm := Int.mul_ediv_add_emod H s
  have hm0 := Int.emod_nonneg H (by omega : s ≠ 0)
  have hm1 := Int.emod_lt_of_pos H (by omega : 0 < s)
  by_cases hz : H % s = 0
  · rw [if_pos hz]
    have e : (H + s - 1) / s = H / s := by
      have : H + s - 1 = (s - 1) + s * (H / s) := by omega
      rw [this, Int.add_mul_ediv_left _ _ (by omega : s ≠ 0), Int.ediv_eq_zero_of_lt (by omega) (by omega)]
      omega
    rw [e]
    have e2 : (H / s - 1) * s = s * (H / s) - s := by ring
    rw [e2]
    omega
  · rw [if_neg hz]
    have e : (H + s - 1) / s = H / s + 1 := by
      have : H + s - 1 = (H % s - 1) + s * (H / s + 1) := by
        have : s * (H / s + 1) = s * (H / s) + s := by ring
        omega
      rw [this, Int.add_mul_ediv_left _ _ (by omega : s ≠ 0), Int.ediv_eq_zero_of_lt (by omega) (by omega)]
      omega
    rw [e]
    have e2 : (H / s + 1 - 1) * s = s * (H / s) := by ring
    rw [e2]
    omega

/-- `needed_total_padding ≥ k_dil - stride`: the skirt hypothesis of the receptive-field theorems -/
theorem neededTotalPadding_ge (H s kd : Int) (hs : 1 ≤ s) : kd - s ≤ neededTotalPadding H s kd := by
  unfold neededTotalPadding
  have hm1 := Int.emod_lt_of_pos H (by omega : 0 < s)
  split <;> omega

end VelaVerif.Box
