import Mathlib.Tactic.Linarith
import Mathlib.Tactic.Ring
import Mathlib.Tactic.Positivity
import VelaVerif.Lemmas.FpMath
import VelaVerif.Lemmas.Sem
import VelaVerif.Spec.SoftmaxKernel
import VelaVerif.Spec.NpuWide
/-!
# Arithmetic of the SOFTMAX decomposition: the 32-bit NPU operations against the gemmlowp primitives of the reference

Helper lemmas for `Props/C01Softmax.lean`.  `fl n = ⌊(n + 2^30) / 2^31⌋` is the closed form of
`SaturatingRoundingDoublingHighMul` on a product `n` (outside INT32_MIN²).  The Newton–Raphson iteration of gemmlowp
`one_over_one_plus_x_for_x_in_0_1` is analysed on integers: the invariant `0 ≤ x ≤ INT32_MAX ∧ hd·x ≤ 2^61 − 2^56`
(`hd` = the half denominator in `[2^30, 2^31)`) is preserved by one step and implies that no 32-bit addition of the step
wraps (reference) or saturates (NPU), which is where the two could differ.
-/
namespace VelaVerif.Lemmas.SoftmaxArith
open VelaVerif VelaVerif.Requant VelaVerif.Lemmas.Sem

def LO : Int := -2147483648
def HI : Int := 2147483647

/-- closed form of the rounding doubling high multiplication on the product `n` -/
def fl (n : Int) : Int := (n + 1073741824) / 2147483648

theorem clamp_id (v : Int) (h1 : -2147483648 ≤ v) (h2 : v ≤ 2147483647) : clamp v NpuWide.INT32_LO NpuWide.INT32_HI = v := by
  unfold clamp NpuWide.INT32_LO NpuWide.INT32_HI
  split
  · omega
  · split <;> omega

theorem srdhm_eq_fl (a b : Int) (h : ¬ (a = -2147483648 ∧ b = -2147483648)) : srdhm a b = fl (a * b) := by
  rw [srdhm_floor a b h]; rfl

/-- gemmlowp's int32 `SaturatingRoundingDoublingHighMul` (with its casts) is the unbounded-integer one on int32 operands -/
theorem srdhm32_eq_srdhm (a b : Int) (ha1 : -2147483648 ≤ a) (ha2 : a ≤ 2147483647) (hb1 : -2147483648 ≤ b)
    (hb2 : b ≤ 2147483647) : Gemmlowp.srdhm32 a b = srdhm a b := by
  unfold Gemmlowp.srdhm32 srdhm
  by_cases hov : a = -2147483648 ∧ b = -2147483648
  · obtain ⟨h1, h2⟩ := hov
    subst h1; subst h2; decide
  · have hov' : (a == b && a == Gemmlowp.int32Min) = false := by
      rw [Bool.eq_false_iff]
      intro hc
      simp only [Bool.and_eq_true, beq_iff_eq] at hc
      apply hov
      have : a = -2147483648 := hc.2
      exact ⟨this, by rw [← hc.1]; exact this⟩
    have hne : ¬ (a = INT32_MIN ∧ b = INT32_MIN) := hov
    simp only [hov', Bool.false_eq_true, if_false, hne]
    have hp := FpMath.prod32_bounds a b ha1 ha2 hb1 hb2 hov
    generalize a * b = ab at hp ⊢
    have e1 : (2 : Int) ^ 30 = 1073741824 := by decide
    have e2 : (2 : Int) ^ 31 = 2147483648 := by decide
    rw [e1, e2]
    have hr := FpMath.tdiv31_range (ab + if ab ≥ 0 then 1073741824 else 1 - 1073741824) (by split <;> omega) (by split <;> omega)
    rw [e2] at hr
    exact FpMath.cast32_id _ hr.1 hr.2

theorem rdbp_eq_rdivpot (x : Int) (e : Nat) (he : e ≤ 31) : Gemmlowp.roundingDivideByPOT x e = rdivpot x e := by
  rw [FpMath.rdbp_formula x e he]
  rfl

theorem fl_range (n : Int) (h1 : -4611686016279904256 ≤ n) (h2 : n ≤ 4611686016279904256) :
    -2147483648 ≤ fl n ∧ fl n ≤ 2147483647 := by
  unfold fl; omega

/-- 32-bit MUL with shift 31, TFL rounding and the saturating 32-bit output stage = SaturatingRoundingDoublingHighMul -/
theorem npu_mul31 (a b : Int) (ha1 : -2147483648 ≤ a) (ha2 : a ≤ 2147483647) (hb1 : -2147483648 ≤ b) (hb2 : b ≤ 2147483647) :
    clamp (npuScale .tfl (a * b) 1 31) NpuWide.INT32_LO NpuWide.INT32_HI = srdhm a b := by
  by_cases hov : a = -2147483648 ∧ b = -2147483648
  · obtain ⟨h1, h2⟩ := hov
    subst h1; subst h2; decide
  · have hne : ¬ (a = INT32_MIN ∧ b = INT32_MIN) := hov
    have e : npuScale .tfl (a * b) 1 31 = srdhm a b := by
      rw [srdhm_floor a b hne]
      simp only [npuScale, npuScaleTfl, show (31 : Nat) ≥ 31 by omega, if_true, Nat.sub_self, Int.pow_zero, Int.mul_one,
        Int.ediv_one, Int.emod_one]
      simp
    rw [e, srdhm_eq_fl a b hov]
    have hp := FpMath.prod32_bounds a b ha1 ha2 hb1 hb2 hov
    have hr := fl_range (a * b) hp.1 hp.2
    exact clamp_id _ hr.1 hr.2

theorem npu_shift0 (v : Int) : npuScale .tfl v 1 0 = v := by
  simp only [npuScale, npuScaleTfl, show ¬ ((0 : Nat) ≥ 31) by omega, if_false, Int.mul_one]
  have : (2 : Int) ^ (31 - 0) = 2147483648 := by decide
  rw [this]; omega

theorem npu_shift1 (v : Int) : npuScale .tfl v 1 1 = (v + 1) / 2 := by
  simp only [npuScale, npuScaleTfl, show ¬ ((1 : Nat) ≥ 31) by omega, if_false, Int.mul_one]
  have : (2 : Int) ^ (31 - 1) = 1073741824 := by decide
  rw [this]; omega

theorem fl_nonneg (n : Int) (h : 0 ≤ n) : 0 ≤ fl n := by unfold fl; omega


/-- bound `T = 2^61 − 2^56` of the invariant on `hd · x` -/
def T : Int := 2233785415175766016

/-- one Newton–Raphson step on unbounded integers: `x + sat(4 · fl (x · (2^29 − fl (hd · x))))` -/
def nrZ (hd x : Int) : Int := x + clamp (4 * fl (x * (536870912 - fl (hd * x)))) (-2147483648) 2147483647

structure Inv (hd x : Int) : Prop where
  x0 : 0 ≤ x
  x1 : x ≤ 2147483647
  w : hd * x ≤ T

theorem nr_facts (hd x : Int) (h1 : 1073741824 ≤ hd) (h2 : hd ≤ 2147483647) (hi : Inv hd x) :
    0 ≤ fl (hd * x) ∧ fl (hd * x) ≤ 1040187392 ∧ fl (hd * x) ≤ x ∧
    -536870912 ≤ fl (x * (536870912 - fl (hd * x))) ∧ fl (x * (536870912 - fl (hd * x))) ≤ 536870912 ∧
    0 ≤ nrZ hd x ∧ hd * nrZ hd x ≤ 1152921504606846976 + 8589934592 := by
  obtain ⟨hx0, hx1, hw⟩ := hi
  have hw0 : 0 ≤ hd * x := Int.mul_nonneg (by omega) hx0
  have hwx : hd * x ≤ 2147483647 * x := Int.mul_le_mul_of_nonneg_right h2 hx0
  unfold T at hw
  unfold nrZ
  generalize hwd : hd * x = w at *
  have ha0 : 0 ≤ fl w := by unfold fl; omega
  have ha1 : fl w ≤ 1040187392 := by unfold fl; omega
  have ha2 : fl w ≤ x := by unfold fl; omega
  have hlo : 2147483648 * fl w + 2147483648 > w + 1073741824 := by unfold fl; omega
  generalize fl w = a at *
  -- u = x * om, |om| ≤ 2^29
  have hu1 : x * (536870912 - a) ≤ x * 536870912 := Int.mul_le_mul_of_nonneg_left (by omega) hx0
  have hu2 : x * (-503316480) ≤ x * (536870912 - a) := Int.mul_le_mul_of_nonneg_left (by omega) hx0
  have hu3 : 0 ≤ 536870912 - a → 0 ≤ x * (536870912 - a) := fun h => Int.mul_nonneg hx0 h
  have hu4 : 536870912 - a < 0 → x * (536870912 - a) ≤ 0 := fun h => by
    have := Int.mul_le_mul_of_nonneg_left (show 536870912 - a ≤ 0 by omega) hx0
    omega
  -- hd * u = w * om
  have hmul : hd * (x * (536870912 - a)) = w * 536870912 - w * a := by rw [← hwd]; ring
  generalize hu : x * (536870912 - a) = u at *
  have hp1 : 2147483648 * fl u ≤ u + 1073741824 := by unfold fl; omega
  have hp0 : -536870912 ≤ fl u := by unfold fl; omega
  have hp2 : fl u ≤ 536870912 := by unfold fl; omega
  have hp3 : 0 ≤ 536870912 - a → 0 ≤ fl u := fun h => by have := hu3 h; unfold fl; omega
  have hp4 : 536870912 - a < 0 → fl u ≤ 0 ∧ 0 ≤ x + 4 * fl u := fun h => by
    have := hu4 h; unfold fl; omega
  generalize fl u = p at *
  refine ⟨ha0, ha1, ha2, hp0, hp2, ?_, ?_⟩
  · -- x' ≥ 0
    by_cases hom : 0 ≤ 536870912 - a
    · have := hp3 hom
      unfold clamp; split
      · omega
      · split <;> omega
    · have := hp4 (by omega)
      unfold clamp; split
      · omega
      · split <;> omega
  · -- hd * x' ≤ 2^60 + 2^33
    have ht : clamp (4 * p) (-2147483648) 2147483647 ≤ 4 * p := by
      unfold clamp; split
      · omega
      · split <;> omega
    have hhd : (0 : Int) ≤ hd := by omega
    have e0 : hd * (x + clamp (4 * p) (-2147483648) 2147483647) ≤ hd * (x + 4 * p) :=
      Int.mul_le_mul_of_nonneg_left (by omega) hhd
    have e1 : hd * (2147483648 * p) ≤ hd * (u + 1073741824) := Int.mul_le_mul_of_nonneg_left hp1 hhd
    have e2 : w * (w + 1073741824 - 2147483648) ≤ w * (2147483648 * a) := Int.mul_le_mul_of_nonneg_left (by omega) hw0
    have e3 : 0 ≤ (2 * w - 2305843009213693952) ^ 2 := by positivity
    have key : 4611686018427387904 * (hd * (x + 4 * p)) ≤
        5316911983139663491615228241121378304 + 4294967296 * w + 9223372036854775808 * hd := by
      nlinarith [e1, e2, e3, hmul, hwd]
    have : 4611686018427387904 * (hd * (x + 4 * p)) ≤
        5316911983139663491615228241121378304 + 4294967296 * 2233785415175766016 + 9223372036854775808 * 2147483647 := by
      linarith
    generalize hd * (x + 4 * p) = Z at *
    generalize hd * (x + clamp (4 * p) (-2147483648) 2147483647) = Z' at *
    omega

theorem inv_step (hd x : Int) (h1 : 1073741824 ≤ hd) (h2 : hd ≤ 2147483647) (hi : Inv hd x) : Inv hd (nrZ hd x) := by
  obtain ⟨_, _, _, _, _, hx0, hw⟩ := nr_facts hd x h1 h2 hi
  have h3 : 1073741824 * nrZ hd x ≤ hd * nrZ hd x := Int.mul_le_mul_of_nonneg_right h1 hx0
  refine ⟨hx0, ?_, ?_⟩
  · generalize hd * nrZ hd x = Z at *
    omega
  · unfold T; omega

/-- gemmlowp `SaturatingRoundingMultiplyByPOT<2>` / `<1>` on an int32 value = multiplication with saturation -/
theorem srmbp2_eq_clamp (p : Int) (h1 : -2147483648 ≤ p) (h2 : p ≤ 2147483647) :
    Gemmlowp.rescale 4 2 p = clamp (4 * p) (-2147483648) 2147483647 := by
  unfold Gemmlowp.rescale Gemmlowp.saturatingRoundingMultiplyByPOT
  simp only [show ((4 : Int) - 2 > 0) by decide, if_true, show ((4 : Int) - 2).toNat = 2 by decide]
  unfold Gemmlowp.srmbpPos Gemmlowp.shiftLeft32 Gemmlowp.int32Min Gemmlowp.int32Max clamp
  have e1 : (2 : Int) ^ (32 - 1 - 2) = 536870912 := by decide
  have e2 : (2 : Int) ^ 2 = 4 := by decide
  have e3 : (2 : Int) ^ 31 = 2147483648 := by decide
  simp only [e1, e2, e3]
  by_cases c1 : p < -(536870912 - 1)
  · simp only [c1, if_true]; split <;> omega
  · simp only [c1, if_false]
    by_cases c2 : p > 536870912 - 1
    · simp only [c2, if_true]; split
      · omega
      · split <;> omega
    · simp only [c2, if_false]
      have c3 : ¬ (p * 4 < -2147483648) := by omega
      have c4 : ¬ (p * 4 > 2147483648 - 1) := by omega
      simp only [c3, c4, if_false]
      rw [FpMath.cast32_id _ (by omega) (by omega)]
      split
      · omega
      · split <;> omega

theorem srmbp1_eq_clamp (p : Int) (h1 : -2147483648 ≤ p) (h2 : p ≤ 2147483647) :
    Gemmlowp.rescale 1 0 p = clamp (2 * p) (-2147483648) 2147483647 := by
  unfold Gemmlowp.rescale Gemmlowp.saturatingRoundingMultiplyByPOT
  simp only [show ((1 : Int) - 0 > 0) by decide, if_true, show ((1 : Int) - 0).toNat = 1 by decide]
  unfold Gemmlowp.srmbpPos Gemmlowp.shiftLeft32 Gemmlowp.int32Min Gemmlowp.int32Max clamp
  have e1 : (2 : Int) ^ (32 - 1 - 1) = 1073741824 := by decide
  have e2 : (2 : Int) ^ 1 = 2 := by decide
  have e3 : (2 : Int) ^ 31 = 2147483648 := by decide
  simp only [e1, e2, e3]
  by_cases c1 : p < -(1073741824 - 1)
  · simp only [c1, if_true]; split <;> omega
  · simp only [c1, if_false]
    by_cases c2 : p > 1073741824 - 1
    · simp only [c2, if_true]; split
      · omega
      · split <;> omega
    · simp only [c2, if_false]
      have c3 : ¬ (p * 2 < -2147483648) := by omega
      have c4 : ¬ (p * 2 > 2147483648 - 1) := by omega
      simp only [c3, c4, if_false]
      rw [FpMath.cast32_id _ (by omega) (by omega)]
      split
      · omega
      · split <;> omega

/-- the reference's Newton–Raphson step is the unbounded-integer one under the invariant -/
theorem ref_nr (hd x : Int) (h1 : 1073741824 ≤ hd) (h2 : hd ≤ 2147483647) (hi : Inv hd x) :
    SoftmaxKernel.nrStep hd x = nrZ hd x := by
  obtain ⟨ha0, ha1, ha2, hp0, hp2, hx0, hw⟩ := nr_facts hd x h1 h2 hi
  have hi' := inv_step hd x h1 h2 hi
  obtain ⟨hx0, hx1, _⟩ := hi
  unfold SoftmaxKernel.nrStep
  simp only []
  rw [srdhm32_eq_srdhm hd x (by omega) (by omega) (by omega) (by omega), srdhm_eq_fl hd x (by omega)]
  have e29 : (2 : Int) ^ 29 = 536870912 := by decide
  rw [e29]
  have es : Gemmlowp.sub32 536870912 (fl (hd * x)) = 536870912 - fl (hd * x) := by
    unfold Gemmlowp.sub32; exact FpMath.cast32_id _ (by omega) (by omega)
  rw [es, srdhm32_eq_srdhm x _ (by omega) (by omega) (by omega) (by omega), srdhm_eq_fl x _ (by omega)]
  rw [srmbp2_eq_clamp _ (by omega) (by omega)]
  unfold Gemmlowp.add32
  have := hi'.x0
  have := hi'.x1
  unfold nrZ at *
  exact FpMath.cast32_id _ (by omega) (by omega)


/-! ## The NPU operations of passes 10 – 28 as functions -/

/-- 32-bit MUL / ADD / SUB with OFM shift `sh`, TFL rounding, 32-bit saturating output stage -/
def nMul (sh : Nat) (a b : Int) : Int := clamp (npuScale .tfl (a * b) 1 sh) NpuWide.INT32_LO NpuWide.INT32_HI
def nAdd (sh : Nat) (a b : Int) : Int := clamp (npuScale .tfl (a + b) 1 sh) NpuWide.INT32_LO NpuWide.INT32_HI
def nSub (sh : Nat) (a b : Int) : Int := clamp (npuScale .tfl (a - b) 1 sh) NpuWide.INT32_LO NpuWide.INT32_HI

/-- passes 13 – 17 (18 – 22, 23 – 27) -/
def npuNr (hd x : Int) : Int :=
  nAdd 0 x (nMul 0 (nMul 31 x (nSub 0 536870912 (nMul 31 x hd))) 4)

/-- passes 10 – 28 applied to the OFM of pass 9 -/
def npuRecip (a : Int) : Int :=
  let hd := nAdd 1 a 2147483647
  let x0 := nAdd 0 (nMul 31 hd (-1010580540)) 1515870810
  nMul 0 (npuNr hd (npuNr hd (npuNr hd x0))) 2

theorem clamp32_eq (v : Int) : clamp v NpuWide.INT32_LO NpuWide.INT32_HI = clamp v (-2147483648) 2147483647 := rfl

theorem npu_nr (hd x : Int) (h1 : 1073741824 ≤ hd) (h2 : hd ≤ 2147483647) (hi : Inv hd x) :
    npuNr hd x = nrZ hd x := by
  obtain ⟨ha0, ha1, ha2, hp0, hp2, hx0', hw⟩ := nr_facts hd x h1 h2 hi
  have hi' := inv_step hd x h1 h2 hi
  obtain ⟨hx0, hx1, _⟩ := hi
  have s13 : nMul 31 x hd = fl (hd * x) := by
    unfold nMul
    rw [npu_mul31 x hd (by omega) (by omega) (by omega) (by omega), srdhm_eq_fl x hd (by omega), Int.mul_comm x hd]
  have s14 : nSub 0 536870912 (fl (hd * x)) = 536870912 - fl (hd * x) := by
    unfold nSub
    rw [npu_shift0, clamp_id _ (by omega) (by omega)]
  have s15 : nMul 31 x (536870912 - fl (hd * x)) = fl (x * (536870912 - fl (hd * x))) := by
    unfold nMul
    rw [npu_mul31 x _ (by omega) (by omega) (by omega) (by omega), srdhm_eq_fl x _ (by omega)]
  have s16 : ∀ p : Int, nMul 0 p 4 = clamp (4 * p) (-2147483648) 2147483647 := by
    intro p
    unfold nMul
    rw [npu_shift0, Int.mul_comm p 4, clamp32_eq]
  unfold npuNr
  rw [s13, s14, s15, s16]
  have := hi'.x0
  have := hi'.x1
  unfold nAdd
  rw [npu_shift0]
  unfold nrZ at *
  exact clamp_id _ (by omega) (by omega)

theorem half_den (a : Int) (h0 : 0 ≤ a) (h1 : a ≤ 2147483647) :
    nAdd 1 a 2147483647 = (a + 2147483648) / 2 ∧
    SoftmaxKernel.roundingHalfSum a Gemmlowp.int32Max = (a + 2147483648) / 2 := by
  constructor
  · unfold nAdd
    rw [npu_shift1, clamp_id _ (by omega) (by omega)]
    omega
  · unfold SoftmaxKernel.roundingHalfSum Gemmlowp.int32Max
    have e : (2 : Int) ^ 31 - 1 = 2147483647 := by decide
    simp only [e, show a + 2147483647 ≥ 0 by omega, if_true]
    rw [Int.tdiv_eq_ediv_of_nonneg (by omega), FpMath.cast32_id _ (by omega) (by omega)]
    omega

theorem x0_facts (hd : Int) (h1 : 1073741824 ≤ hd) (h2 : hd ≤ 2147483647) :
    nAdd 0 (nMul 31 hd (-1010580540)) 1515870810 = 1515870810 + fl (hd * (-1010580540)) ∧
    Gemmlowp.add32 1515870810 (Gemmlowp.srdhm32 hd (-1010580540)) = 1515870810 + fl (hd * (-1010580540)) ∧
    Inv hd (1515870810 + fl (hd * (-1010580540))) := by
  have hb : 505290270 ≤ 1515870810 + fl (hd * (-1010580540)) ∧ 1515870810 + fl (hd * (-1010580540)) ≤ 1010580540 := by
    unfold fl; omega
  refine ⟨?_, ?_, ?_⟩
  · unfold nAdd nMul
    rw [npu_mul31 hd _ (by omega) (by omega) (by omega) (by omega), srdhm_eq_fl hd _ (by omega), npu_shift0,
      clamp_id _ (by omega) (by omega)]
    omega
  · rw [srdhm32_eq_srdhm hd _ (by omega) (by omega) (by omega) (by omega), srdhm_eq_fl hd _ (by omega)]
    unfold Gemmlowp.add32
    exact FpMath.cast32_id _ (by omega) (by omega)
  · refine ⟨by omega, by omega, ?_⟩
    generalize 1515870810 + fl (hd * (-1010580540)) = x0 at *
    have e1 : hd * x0 ≤ 2147483647 * x0 := Int.mul_le_mul_of_nonneg_right h2 (by omega)
    unfold T; omega

/-- **passes 10 – 28 = gemmlowp `one_over_one_plus_x_for_x_in_0_1`** on every raw F0 value `a ∈ [0, 2^31)`; the result is
    a non-negative int32 value -/
theorem npu_recip_eq (a : Int) (h0 : 0 ≤ a) (h1 : a ≤ 2147483647) :
    npuRecip a = SoftmaxKernel.oneOverOnePlusX a ∧ 0 ≤ npuRecip a ∧ npuRecip a ≤ 2147483647 := by
  obtain ⟨e1, e2⟩ := half_den a h0 h1
  have hh1 : 1073741824 ≤ (a + 2147483648) / 2 := by omega
  have hh2 : (a + 2147483648) / 2 ≤ 2147483647 := by omega
  obtain ⟨f1, f2, f3⟩ := x0_facts _ hh1 hh2
  have i1 := inv_step _ _ hh1 hh2 f3
  have i2 := inv_step _ _ hh1 hh2 i1
  have i3 := inv_step _ _ hh1 hh2 i2
  have hn : npuRecip a = clamp (2 * nrZ ((a + 2147483648) / 2) (nrZ ((a + 2147483648) / 2) (nrZ ((a + 2147483648) / 2)
      (1515870810 + fl ((a + 2147483648) / 2 * (-1010580540)))))) (-2147483648) 2147483647 := by
    unfold npuRecip
    simp only []
    rw [e1, f1, npu_nr _ _ hh1 hh2 f3, npu_nr _ _ hh1 hh2 i1, npu_nr _ _ hh1 hh2 i2]
    unfold nMul
    rw [npu_shift0, Int.mul_comm _ 2, clamp32_eq]
  refine ⟨?_, ?_, ?_⟩
  · rw [hn]
    unfold SoftmaxKernel.oneOverOnePlusX
    simp only []
    rw [e2, f2, ref_nr _ _ hh1 hh2 f3, ref_nr _ _ hh1 hh2 i1, ref_nr _ _ hh1 hh2 i2]
    have := i3.x0
    have := i3.x1
    rw [srmbp1_eq_clamp _ (by omega) (by omega)]
  · rw [hn]; have := i3.x0; unfold clamp; split
    · omega
    · split <;> omega
  · rw [hn]; unfold clamp; split
    · omega
    · split <;> omega
end VelaVerif.Lemmas.SoftmaxArith
