import VelaVerif.Lemmas.PassPackingRefs
/-!
# What the traversal of `pack_into_passes` needs to know about a pass (`PassFacts`), for well-formed graphs (`WFU`)
-/
namespace VelaVerif.Lemmas.PassPackingDfs
open VelaVerif.PassPacking VelaVerif.Gen.PassPacking VelaVerif.PassPackingSpec VelaVerif.Lemmas.PassPackingWalk

/-- the facts of `WF` without the range bounds (an operator / tensor number outside the lists is the empty default) -/
structure WFU (G : Graph) (rk : Nat → Nat) : Prop where
  consCount : ∀ t c, (G.tensor t).consumers.count (some c) = (G.op c).inputs.count (some t)
  noneCount : ∀ t, (G.tensor t).consumers.count none = G.outputs.count t
  prodOut : ∀ o t, o ∈ (G.tensor t).ops ↔ t ∈ (G.op o).outputs
  opsNodup : ∀ t, (G.tensor t).ops.Nodup
  outputsNodup : ∀ o, (G.op o).outputs.Nodup
  rank : ∀ c, ∀ pr ∈ producersOf G c, rk pr < rk c
  startupNoInputs : ∀ o, startupInitOps.contains (G.op o).type = true → (G.op o).inputs = []
  noDoubleEdge : ∀ c t u, some t ∈ (G.op c).inputs → some u ∈ (G.op c).inputs → t ≠ u →
    ∀ pr, pr ∈ (G.tensor t).ops → pr ∈ (G.tensor u).ops → False
  opsRange : ∀ t, ∀ p ∈ (G.tensor t).ops, p < G.ops.length
  consRange : ∀ t c, some c ∈ (G.tensor t).consumers → c < G.ops.length
  needed : ∀ o < G.ops.length, Needed G o

theorem op_default {G : Graph} {o : Nat} (h : ¬ o < G.ops.length) : G.op o = default := by
  unfold Graph.op; simp [List.getD_eq_getElem?_getD, List.getElem?_eq_none (Nat.le_of_not_lt h)]

theorem tensor_default {G : Graph} {t : Nat} (h : ¬ t < G.tensors.length) : G.tensor t = default := by
  unfold Graph.tensor; simp [List.getD_eq_getElem?_getD, List.getElem?_eq_none (Nat.le_of_not_lt h)]

theorem default_op_fields : (default : POp).inputs = [] ∧ (default : POp).outputs = [] ∧ (default : POp).type = 0 := ⟨rfl, rfl, rfl⟩
theorem default_tensor_fields : (default : PTensor).ops = [] ∧ (default : PTensor).consumers = [] := ⟨rfl, rfl⟩

theorem type0_not_startup : startupInitOps.contains 0 = false := by decide

theorem wf_wfu {G : Graph} (h : WF G) : ∃ rk, WFU G rk := by
  obtain ⟨rk, hrk⟩ := h.acyclic
  refine ⟨rk, ?_⟩
  constructor
  · intro t c
    by_cases ht : t < G.tensors.length
    · by_cases hc : c < G.ops.length
      · exact h.consCount t ht c hc
      · rw [op_default hc, default_op_fields.1]
        simp only [List.count_nil]
        apply List.count_eq_zero.mpr
        intro hm; exact hc (h.consumersRange t ht c hm)
    · rw [tensor_default ht, default_tensor_fields.2]
      simp only [List.count_nil]
      symm; apply List.count_eq_zero.mpr
      intro hm
      by_cases hc : c < G.ops.length
      · exact ht (h.inputsRange c hc t hm)
      · rw [op_default hc, default_op_fields.1] at hm; simp at hm
  · intro t
    by_cases ht : t < G.tensors.length
    · exact h.noneCount t ht
    · rw [tensor_default ht, default_tensor_fields.2]
      simp only [List.count_nil]
      symm; apply List.count_eq_zero.mpr
      intro hm; exact ht (h.graphOutputsRange t hm)
  · intro o t
    by_cases ho : o < G.ops.length
    · by_cases ht : t < G.tensors.length
      · exact h.prodOut o ho t ht
      · rw [tensor_default ht, default_tensor_fields.1]
        constructor
        · intro hm; simp at hm
        · intro hm; exact absurd (h.outputsRange o ho t hm) ht
    · rw [op_default ho, default_op_fields.2.1]
      constructor
      · intro hm
        by_cases ht : t < G.tensors.length
        · exact absurd (h.producersRange t ht o hm) ho
        · rw [tensor_default ht, default_tensor_fields.1] at hm; simp at hm
      · intro hm; simp at hm
  · intro t
    by_cases ht : t < G.tensors.length
    · exact h.opsNodup t ht
    · rw [tensor_default ht, default_tensor_fields.1]; exact List.nodup_nil
  · intro o
    by_cases ho : o < G.ops.length
    · exact h.outputsNodup o ho
    · rw [op_default ho, default_op_fields.2.1]; exact List.nodup_nil
  · intro c pr hpr
    by_cases hc : c < G.ops.length
    · exact hrk c hc pr hpr
    · unfold producersOf at hpr
      rw [op_default hc, default_op_fields.1] at hpr; simp at hpr
  · intro o ho
    by_cases hol : o < G.ops.length
    · exact h.startupNoInputs o hol ho
    · rw [op_default hol]; rfl
  · intro c t u ht hu hne pr h1 h2
    by_cases hc : c < G.ops.length
    · exact h.noDoubleEdge c hc t u ht hu hne pr h1 h2
    · rw [op_default hc, default_op_fields.1] at ht; simp at ht
  · intro t p hp
    by_cases ht : t < G.tensors.length
    · exact h.producersRange t ht p hp
    · rw [tensor_default ht, default_tensor_fields.1] at hp; simp at hp
  · intro t c hc
    by_cases ht : t < G.tensors.length
    · exact h.consumersRange t ht c hc
    · rw [tensor_default ht, default_tensor_fields.2] at hc; simp at hc
  · exact h.needed


section
variable {G : Graph} {rk : Nat → Nat}

theorem mem_producersOf {c pr : Nat} : pr ∈ producersOf G c ↔ ∃ t, some t ∈ (G.op c).inputs ∧ pr ∈ (G.tensor t).ops := by
  unfold producersOf
  simp only [List.mem_flatMap]
  constructor
  · rintro ⟨i, hi, hp⟩
    cases i with
    | none => simp at hp
    | some t => exact ⟨t, hi, hp⟩
  · rintro ⟨t, ht, hp⟩
    exact ⟨some t, ht, hp⟩

/-- **the consumer condition of `can_pack`**: when `can_pack(t, c)` holds, `c` is the only reader of anything the producer
    of `t` writes -/
theorem canPack_only_consumer (R : Rules) (hW : WFU G rk) {t c pr u c' : Nat} (hcp : canPack R G t c = some true)
    (hops : (G.tensor t).ops = [pr]) (hpu : pr ∈ (G.tensor u).ops) (hin : some u ∈ (G.op c').inputs) :
    c' = c ∧ (G.tensor u).consumers = [some c] := by
  obtain ⟨nx, hnx, _, _, h3, _, _⟩ := (canPack_true_iff R G t c).mp hcp
  have : nx = pr := by rw [hops] at hnx; simpa using hnx.symm
  subst this
  have hu : u ∈ (G.op nx).outputs := (hW.prodOut nx u).mp hpu
  unfold cpConsumersOk at h3
  have hoc : otherConsumer (G.tensor u).consumers c = false := by
    cases hx : otherConsumer (G.tensor u).consumers c with
    | false => rfl
    | true =>
      have : (G.op nx).outputs.any (fun o => otherConsumer (G.tensor o).consumers c) = true := List.any_eq_true.mpr ⟨u, hu, hx⟩
      rw [this] at h3; exact Bool.noConfusion h3
  have honly := otherConsumer_false hoc
  have hmem : some c' ∈ (G.tensor u).consumers := by
    have h1 : (G.op c').inputs.count (some u) ≥ 1 := List.count_pos_iff.mpr hin
    rw [← hW.consCount u c'] at h1
    exact List.count_pos_iff.mp h1
  unfold onlyConsumer at honly
  simp only [Bool.or_eq_true, beq_iff_eq] at honly
  rcases honly with h0 | h0
  · rw [h0] at hmem; simp at hmem
  · rw [h0] at hmem
    simp only [List.mem_singleton, Option.some.injEq] at hmem
    exact ⟨hmem, h0⟩

/-- the consumer of a packed entry comes later in the list -/
theorem accOk_split (R : Rules) (start : List Nat) : ∀ (l : List Acc), AccOk R G start l → ∀ pre a post, l = pre ++ a :: post →
    (match a.via with
     | none => a.op ∈ start
     | some (t, c) => c ∈ post.map (·.op) ∧ canPack R G t c = some true ∧ (G.tensor t).ops = [a.op] ∧ some t ∈ (G.op c).inputs)
  | [], _, pre, a, post, h => by simp at h
  | x :: rest, hacc, pre, a, post, h => by
    cases pre with
    | nil =>
      simp only [List.nil_append, List.cons.injEq] at h
      obtain ⟨rfl, rfl⟩ := h
      exact hacc.2.2
    | cons y pre' =>
      simp only [List.cons_append, List.cons.injEq] at h
      exact accOk_split R start rest hacc.1 pre' a post h.2

/-- ranks: everything in the pass is at most as far from the inputs as the start operator -/
theorem accOk_rank (R : Rules) (hW : WFU G rk) (s : Nat) : ∀ (l : List Acc), AccOk R G [s] l → ∀ a ∈ l, rk a.op ≤ rk s
  | [], _, a, ha => by simp at ha
  | x :: rest, hacc, a, ha => by
    rcases List.mem_cons.mp ha with rfl | ha
    · have := hacc.2.2
      cases hv : a.via with
      | none => rw [hv] at this; simp at this; rw [this]; exact Nat.le_refl _
      | some tc =>
        obtain ⟨t, c⟩ := tc
        rw [hv] at this
        obtain ⟨hc, _, hops, hin⟩ := this
        obtain ⟨b, hb, hbc⟩ := List.mem_map.mp hc
        have h1 := accOk_rank R hW s rest hacc.1 b hb
        have h2 : rk a.op < rk c := hW.rank c a.op (mem_producersOf.mpr ⟨t, hin, by rw [hops]; simp⟩)
        rw [hbc] at h1; omega
    · exact accOk_rank R hW s rest hacc.1 a ha

/-- what the traversal needs to know about a pass built from start operator `s` -/
structure PassFacts (G : Graph) (s : Nat) (ops : List Nat) (refs : List (Nat × Nat)) (S : List Nat) : Prop where
  nodup : ops.Nodup
  last : ops.getLast? = some s
  /-- every other operator was reached over a tensor `can_pack` let through, from an operator LATER in the list -/
  packed : ∀ pre o post, ops = pre ++ o :: post → o ≠ s →
    ∃ t c, c ∈ post ∧ canPack Rules.current G t c = some true ∧ (G.tensor t).ops = [o] ∧ some t ∈ (G.op c).inputs
  count : ∀ t, refOf refs t = if t ∈ S then occ G ops t else 0
  keys : (refs.map (·.1)).Nodup
  cover : ∀ c ∈ ops, ∀ t, some t ∈ (G.op c).inputs →
    t ∈ S ∨ (canPack Rules.current G t c = some true ∧ ∃ pr, (G.tensor t).ops = [pr] ∧ pr ∈ ops)
  excl : ∀ t ∈ S, ∀ pr ∈ (G.tensor t).ops, pr ∉ ops
  used : ∀ t ∈ S, ∃ c ∈ ops, some t ∈ (G.op c).inputs
  /-- the start operator feeds no operator of its own pass (no cycles) -/
  noSelf : ∀ c ∈ ops, s ∉ producersOf G c

theorem accOk_last (R : Rules) (s : Nat) : ∀ (l : List Acc), l ≠ [] → AccOk R G [s] l → (l.map (·.op)).getLast? = some s
  | [], h, _ => absurd rfl h
  | [a], _, hacc => by
    have := hacc.2.2
    cases hv : a.via with
    | none => rw [hv] at this; simp at this; simp [this]
    | some tc => rw [hv] at this; simp at this
  | a :: b :: rest, _, hacc => by
    have := accOk_last R s (b :: rest) (by simp) hacc.1
    simpa [List.getLast?_cons_cons] using this

/-- an entry without `via` is the start operator, and only the last entry is -/
theorem accOk_via_some (R : Rules) (s : Nat) (l : List Acc) (hacc : AccOk R G [s] l) (pre : List Acc) (a : Acc) (post : List Acc)
    (hl : l = pre ++ a :: post) (hne : a.op ≠ s) : ∃ t c, a.via = some (t, c) := by
  have := accOk_split R [s] l hacc pre a post hl
  cases hv : a.via with
  | none => rw [hv] at this; simp at this; exact absurd this hne
  | some tc => exact ⟨tc.1, tc.2, rfl⟩

theorem buildPass_facts (hW : WFU G rk) {s : Nat} {p : Pass} (h : buildPass Rules.current G s = .ok p) :
    ∃ S, PassFacts G s p.ops p.inputRefs S := by
  obtain ⟨ofm, ofs, hfin, _⟩ := buildPass_ok Rules.current G h
  obtain ⟨herrNone, hp⟩ := finishPass_ok G hfin
  obtain ⟨herr, _, hne, hcr⟩ := finishErr_none G herrNone
  have inv := walkRun_inv Rules.current G [s] (walkFuel G 1) _ (walkStart_inv Rules.current G [s])
  have inv2 := walkRun_inv2 Rules.current G (walkFuel G 1) _ (walkStart_inv2 Rules.current G [s])
  have invB := walkRun_invB Rules.current G cur_noClear' [s] (walkFuel G 1) _ (walkStart_inv Rules.current G [s])
    (walkStart_invB Rules.current G [s])
  have hq := walkRun_queue Rules.current G (walkFuel G 1) (walkStart [s])
  generalize walkRun Rules.current G (walkFuel G 1) (walkStart [s]) = w at *
  subst hp
  have hnd : w.ops.Nodup := accOk_nodup G Rules.current [s] w.acc inv.acc
  have hrank := accOk_rank Rules.current hW s w.acc inv.acc
  have haccne : w.acc ≠ [] := by intro h0; apply hne; simp [Walk.ops, h0]
  -- exclusivity on the walk's own input set
  have hexcl : ∀ t ∈ w.inputSet, ∀ pr ∈ (G.tensor t).ops, pr ∉ w.ops := by
    intro t ht pr hpr hin
    rcases invB.why herr t ht with ⟨c, hc, hinc, hcp⟩ | ⟨pr', c, hops', _, _, hnot, _⟩
    · obtain ⟨a, ha, hao⟩ := List.mem_map.mp hin
      obtain ⟨pre, post, hsplit⟩ := List.append_of_mem ha
      have hsp := accOk_split Rules.current [s] w.acc inv.acc pre a post hsplit
      cases hv : a.via with
      | none =>
        rw [hv] at hsp; simp at hsp
        obtain ⟨b, hb, hbc⟩ := List.mem_map.mp hc
        have h1 := hrank b hb
        have h2 : rk pr < rk c := hW.rank c pr (mem_producersOf.mpr ⟨t, hinc, hpr⟩)
        rw [← hao, hsp] at h2; rw [hbc] at h1; omega
      | some tc =>
        obtain ⟨t0, c0⟩ := tc
        rw [hv] at hsp
        obtain ⟨_, hcp0, hops0, hin0⟩ := hsp
        rw [hao] at hops0
        obtain ⟨hcc, _⟩ := canPack_only_consumer Rules.current hW hcp0 hops0 hpr hinc
        subst hcc
        by_cases htt : t = t0
        · subst htt; exact hcp hcp0
        · exact hW.noDoubleEdge c t t0 hinc hin0 htt pr hpr (by rw [hops0]; simp)
    · rw [hops'] at hpr
      simp only [List.mem_singleton] at hpr
      subst hpr; exact hnot hin
  -- the created average pool's input is already in the input set
  have hfinS : ∀ t, t ∈ finInputSet G w ↔ t ∈ w.inputSet := by
    intro t
    unfold finInputSet
    cases hci : createdInp G w with
    | none => rfl
    | some t0 =>
      simp only []
      rw [mem_setInsert]
      constructor
      · rintro (h1 | rfl)
        · exact h1
        · -- t is the first input of the newest operator
          have hnc : needCreate G w = true := by
            unfold createdInp at hci
            split at hci
            · assumption
            · simp at hci
          have hinp : (G.op (firstOp w)).inputs.headD none = some t := by
            unfold createdInp at hci; simpa [hnc] using hci
          have hfin' : some t ∈ (G.op (firstOp w)).inputs := by
            cases hl : (G.op (firstOp w)).inputs with
            | nil => rw [hl] at hinp; simp at hinp
            | cons x r => rw [hl] at hinp; simp at hinp; simp [hinp]
          obtain ⟨a0, rest, hacc0⟩ : ∃ a0 rest, w.acc = a0 :: rest := by
            cases hl : w.acc with
            | nil => exact absurd hl haccne
            | cons a0 rest => exact ⟨a0, rest, rfl⟩
          have hfo : firstOp w = a0.op := by simp [firstOp, Walk.ops, hacc0]
          have hfmem : firstOp w ∈ w.ops := by rw [hfo]; simp [Walk.ops, hacc0]
          rcases invB.cover herr (firstOp w) hfmem t hfin' with h1 | ⟨hcp, pr, hops, h2⟩
          · exact h1
          · exfalso
            rcases h2 with h2 | ⟨q, hq', _⟩
            · -- pr in the pass: it would have to be older than the newest operator and still feed it
              obtain ⟨a, ha, hao⟩ := List.mem_map.mp h2
              have hrk : rk pr < rk (firstOp w) := hW.rank _ pr (mem_producersOf.mpr ⟨t, hfin', by rw [hops]; simp⟩)
              rw [hacc0] at ha
              rcases List.mem_cons.mp ha with rfl | ha
              · rw [hfo, hao] at hrk; omega
              · obtain ⟨pre, post, hsplit⟩ := List.append_of_mem ha
                have hsp := accOk_split Rules.current [s] w.acc inv.acc (a0 :: pre) a post (by rw [hacc0, hsplit]; rfl)
                cases hv : a.via with
                | none =>
                  rw [hv] at hsp; simp at hsp
                  have := hrank a0 (by rw [hacc0]; simp)
                  rw [hfo] at hrk; rw [← hao, hsp] at hrk; omega
                | some tc =>
                  obtain ⟨t1, c1⟩ := tc
                  rw [hv] at hsp
                  obtain ⟨hc1, hcp1, hops1, _⟩ := hsp
                  rw [hao] at hops1
                  obtain ⟨hcc, _⟩ := canPack_only_consumer Rules.current hW hcp1 hops1 (by rw [hops]; simp) hfin'
                  -- the newest operator would occur again further down
                  have : a0.op ∈ rest.map (·.op) := by
                    rw [← hfo, hcc, hsplit]
                    simp only [List.map_append, List.map_cons, List.mem_append, List.mem_cons]
                    exact Or.inr (Or.inr hc1)
                  have hndacc : (w.acc.map (·.op)).Nodup := hnd
                  rw [hacc0] at hndacc
                  exact (List.nodup_cons.mp hndacc).1 this
            · rw [hq] at hq'; simp at hq'
      · exact Or.inl
  refine ⟨w.inputSet, ?_⟩
  have hrefs := fun t => finInAcc_refs G w t hnd hne
    (fun hc => by
      obtain ⟨t, ht⟩ := hcr hc
      intro h0
      unfold createdInp at ht
      simp [hc, h0] at ht)
    (fun m hm => (inv2.primSome m hm).1)
  constructor
  · exact hnd
  · exact accOk_last Rules.current s w.acc haccne inv.acc
  · intro pre o post hsplit hos
    -- the entry of `o`
    have hsplit' : w.acc.map (·.op) = pre ++ o :: post := hsplit
    obtain ⟨apre, a, apost, hal, hpre, hao, hpost⟩ : ∃ apre a apost, w.acc = apre ++ a :: apost ∧ apre.map (·.op) = pre ∧
        a.op = o ∧ apost.map (·.op) = post := by
      have := List.map_eq_append_iff.mp hsplit'
      obtain ⟨l1, l2, h1, h2, h3⟩ := this
      cases l2 with
      | nil => simp at h3
      | cons a apost =>
        simp only [List.map_cons, List.cons.injEq] at h3
        exact ⟨l1, a, apost, h1, h2, h3.1, h3.2⟩
    have hsp := accOk_split Rules.current [s] w.acc inv.acc apre a apost hal
    cases hv : a.via with
    | none => rw [hv] at hsp; simp at hsp; exact absurd (hao ▸ hsp) hos
    | some tc =>
      obtain ⟨t, c⟩ := tc
      rw [hv] at hsp
      obtain ⟨hc, hcp, hops, hin⟩ := hsp
      exact ⟨t, c, by rw [← hpost]; exact hc, hcp, by rw [← hao]; exact hops, hin⟩
  · intro t
    show refOf (finInAcc G w).refs t = if t ∈ w.inputSet then occ G w.ops t else 0
    rw [(hrefs t).1]
    by_cases ht : t ∈ w.inputSet
    · simp [ht, (hfinS t).mpr ht]
    · have : t ∉ finInputSet G w := fun h' => ht ((hfinS t).mp h')
      simp [ht, this]
  · exact (hrefs 0).2
  · intro c hc t ht
    rcases invB.cover herr c hc t ht with h1 | ⟨hcp, pr, hops, h2⟩
    · exact Or.inl h1
    · rcases h2 with h2 | ⟨q, hq', _⟩
      · exact Or.inr ⟨hcp, pr, hops, h2⟩
      · rw [hq] at hq'; simp at hq'
  · exact hexcl
  · intro t ht
    rcases invB.why herr t ht with ⟨c, hc, hinc, _⟩ | ⟨_, c, _, hc, hinc, _, _⟩
    · exact ⟨c, hc, hinc⟩
    · exact ⟨c, hc, hinc⟩
  · intro c hc hs
    obtain ⟨b, hb, hbc⟩ := List.mem_map.mp hc
    have h1 := hrank b hb
    have h2 := hW.rank c s hs
    rw [hbc] at h1; omega

end
end VelaVerif.Lemmas.PassPackingDfs
