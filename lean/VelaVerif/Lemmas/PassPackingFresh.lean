import VelaVerif.Lemmas.PassPackingDfs
/-!
# The traversal of `pack_into_passes`: no operator gets into two passes
-/
namespace VelaVerif.Lemmas.PassPackingDfs
open VelaVerif.PassPacking VelaVerif.Gen.PassPacking VelaVerif.PassPackingSpec VelaVerif.Lemmas.PassPackingWalk

variable {G : Graph} {rk : Nat → Nat}

/-- when `can_pack(t, c)` holds, every tensor the producer of `t` writes is read by `c` once, or by nobody -/
theorem canPack_outputs (R : Rules) (hW : WFU G rk) {t c pr u : Nat} (hcp : canPack R G t c = some true)
    (hops : (G.tensor t).ops = [pr]) (hpu : pr ∈ (G.tensor u).ops) :
    (G.tensor u).consumers = [] ∨ (G.tensor u).consumers = [some c] := by
  obtain ⟨nx, hnx, _, _, h3, _, _⟩ := (canPack_true_iff R G t c).mp hcp
  have : nx = pr := by rw [hops] at hnx; simpa using hnx.symm
  subst this
  have hu : u ∈ (G.op nx).outputs := (hW.prodOut nx u).mp hpu
  unfold cpConsumersOk at h3
  have hoc : otherConsumer (G.tensor u).consumers c = false := by
    cases hx : otherConsumer (G.tensor u).consumers c with
    | false => rfl
    | true =>
      have : (G.op nx).outputs.any (fun o => otherConsumer (G.tensor o).consumers c) = true := List.any_eq_true.mpr ⟨u, hu, hx⟩
      rw [this] at h3; exact Bool.noConfusion h3
  have honly := otherConsumer_false hoc
  unfold onlyConsumer at honly
  simpa using honly

/-! ## sums over consumer lists -/

theorem sum_map_add (L : List Nat) (f g : Nat → Nat) : (L.map fun c => f c + g c).sum = (L.map f).sum + (L.map g).sum := by
  induction L with
  | nil => simp
  | cons c rest ih => simp only [List.map_cons, List.sum_cons, ih]; omega

theorem sum_map_zero (L : List Nat) : (L.map fun _ => 0).sum = 0 := by
  induction L with
  | nil => rfl
  | cons c rest ih => simp [ih]

theorem count_cons_opt (x : Option Nat) (l : List (Option Nat)) (c : Nat) :
    (x :: l).count (some c) = l.count (some c) + (if x = some c then 1 else 0) := by
  by_cases h : x = some c
  · subst h; simp
  · have : (x == some c) = false := by simpa using h
    simp [List.count_cons, this, h]

theorem sum_count_cons (L : List Nat) (x : Option Nat) (l : List (Option Nat)) :
    (L.map fun c => (x :: l).count (some c)).sum = (L.map fun c => l.count (some c)).sum + (L.map fun c => if x = some c then 1 else 0).sum := by
  rw [← sum_map_add]
  congr 1
  apply List.map_congr_left
  intro c _
  exact count_cons_opt x l c

theorem sum_indicator (L : List Nat) (hn : L.Nodup) (c0 : Nat) :
    (L.map fun c => if some c0 = some c then 1 else 0).sum = if c0 ∈ L then 1 else 0 := by
  induction L with
  | nil => simp
  | cons c rest ih =>
    have hn' := List.nodup_cons.mp hn
    simp only [List.map_cons, List.sum_cons, ih hn'.2, List.mem_cons]
    by_cases h : c0 = c
    · subst h; simp [hn'.1]
    · have : ¬ (some c0 = some c) := fun h' => h (Option.some.inj h')
      simp [this, h]

theorem sum_indicator_none (L : List Nat) : (L.map fun c => if (none : Option Nat) = some c then 1 else 0).sum = 0 := by
  have : (fun c : Nat => if (none : Option Nat) = some c then 1 else 0) = fun _ => 0 := by funext c; simp
  rw [this]; exact sum_map_zero L

/-- distinct consumers account for distinct entries of the consumer list -/
theorem sum_count_le (L : List Nat) (hn : L.Nodup) (l : List (Option Nat)) :
    (L.map fun c => l.count (some c)).sum + l.count none ≤ l.length := by
  induction l with
  | nil => simp [sum_map_zero]
  | cons x rest ih =>
    rw [sum_count_cons]
    cases x with
    | none => rw [sum_indicator_none]; simp [List.count_cons]; omega
    | some c0 =>
      rw [sum_indicator L hn c0]
      simp only [List.count_cons, List.length_cons]
      have : ((some c0 : Option Nat) == none) = false := rfl
      simp only [this, Bool.false_eq_true, if_false]
      split <;> omega

theorem sum_count_eq (L : List Nat) (hn : L.Nodup) (l : List (Option Nat)) (hall : ∀ c, some c ∈ l → c ∈ L) :
    (L.map fun c => l.count (some c)).sum + l.count none = l.length := by
  induction l with
  | nil => simp [sum_map_zero]
  | cons x rest ih =>
    have ih' := ih (fun c hc => hall c (List.mem_cons_of_mem _ hc))
    rw [sum_count_cons]
    cases x with
    | none => rw [sum_indicator_none]; simp [List.count_cons]; omega
    | some c0 =>
      rw [sum_indicator L hn c0]
      simp only [List.count_cons, List.length_cons]
      have : ((some c0 : Option Nat) == none) = false := rfl
      simp only [this, Bool.false_eq_true, if_false, hall c0 List.mem_cons_self, if_true]
      omega

theorem sum_flatMap (ps : List Pass) (f : Nat → Nat) :
    ((ps.flatMap (·.ops)).map f).sum = (ps.map fun p => (p.ops.map f).sum).sum := by
  induction ps with
  | nil => rfl
  | cons p rest ih => simp [List.flatMap_cons, List.map_append, List.sum_append, ih]

theorem sum_le_sum (l : List Pass) (f g : Pass → Nat) (h : ∀ p ∈ l, f p ≤ g p) : (l.map f).sum ≤ (l.map g).sum := by
  induction l with
  | nil => simp
  | cons p rest ih =>
    simp only [List.map_cons, List.sum_cons]
    have := h p List.mem_cons_self
    have := ih (fun q hq => h q (List.mem_cons_of_mem _ hq))
    omega

/-- **the passes never ask for more visits of a tensor than it has consumers** -/
theorem emitted_le (hW : WFU G rk) (ps : List Pass) (hfacts : ∀ p ∈ ps, ∃ s S, PassFacts G s p.ops p.inputRefs S)
    (hnd : (ps.flatMap (·.ops)).Nodup) (t : Nat) :
    emitted ps t + G.outputs.count t ≤ (G.tensor t).consumers.length := by
  have h1 : emitted ps t ≤ (ps.map fun p => occ G p.ops t).sum := by
    apply sum_le_sum
    intro p hp
    obtain ⟨s, S, hF⟩ := hfacts p hp
    rw [hF.count t]; split <;> omega
  have h2 : (ps.map fun p => occ G p.ops t).sum = ((ps.flatMap (·.ops)).map fun c => (G.tensor t).consumers.count (some c)).sum := by
    rw [sum_flatMap]
    congr 1
    apply List.map_congr_left
    intro p _
    unfold occ cnt
    congr 1
    apply List.map_congr_left
    intro c _
    exact (hW.consCount t c).symm
  have h3 := sum_count_le (ps.flatMap (·.ops)) hnd (G.tensor t).consumers
  rw [hW.noneCount t] at h3
  omega


/-- the operators that are in a pass or on the start-up list -/
def placed (d : Dfs) : List Nat := d.passes.flatMap (·.ops) ++ d.startup

theorem exists_of_sum_pos {α : Type} (l : List α) (f : α → Nat) (h : (l.map f).sum ≥ 1) : ∃ x ∈ l, f x ≥ 1 := by
  induction l with
  | nil => simp at h
  | cons x rest ih =>
    simp only [List.map_cons, List.sum_cons] at h
    by_cases hx : f x ≥ 1
    · exact ⟨x, List.mem_cons_self, hx⟩
    · obtain ⟨y, hy, hfy⟩ := ih (by omega)
      exact ⟨y, List.mem_cons_of_mem _ hy, hfy⟩

theorem flatMap_nodup_unique : ∀ (ps : List Pass), (ps.flatMap (·.ops)).Nodup → ∀ p ∈ ps, ∀ q ∈ ps, ∀ x, x ∈ p.ops → x ∈ q.ops → p = q
  | [], _, p, hp, _, _, _, _, _ => by simp at hp
  | a :: rest, hn, p, hp, q, hq, x, hxp, hxq => by
    rw [List.flatMap_cons, List.nodup_append] at hn
    obtain ⟨_, hn2, hdisj⟩ := hn
    rcases List.mem_cons.mp hp with hpa | hpr <;> rcases List.mem_cons.mp hq with hqa | hqr
    · rw [hpa, hqa]
    · exact absurd rfl (hdisj x (hpa ▸ hxp) x (List.mem_flatMap.mpr ⟨q, hqr, hxq⟩))
    · exact absurd rfl (hdisj x (hqa ▸ hxq) x (List.mem_flatMap.mpr ⟨p, hpr, hxp⟩))
    · exact flatMap_nodup_unique rest hn2 p hpr q hqr x hxp hxq

theorem start_mem_startsOf {ps : List Pass} {p : Pass} {s : Nat} (hp : p ∈ ps) (hl : p.ops.getLast? = some s) : s ∈ startsOf ps :=
  List.mem_filterMap.mpr ⟨p, hp, hl⟩

/-- a tensor all of whose consumers have been visited, read by `c` only: some pass holds `c` and asked for it -/
theorem full_single_emitted (hW : WFU G rk) {d : Dfs} (hA : DInvA G d) {u c : Nat} (hfull : full G d u = true)
    (hcons : (G.tensor u).consumers = [some c]) :
    ∃ p ∈ d.passes, ∃ s S, PassFacts G s p.ops p.inputRefs S ∧ u ∈ S ∧ c ∈ p.ops := by
  unfold full at hfull
  simp only [Bool.and_eq_true, beq_iff_eq, bne_iff_ne, ne_eq] at hfull
  have hvt := hA.vt u
  have hnone : G.outputs.count u = 0 := by rw [← hW.noneCount u, hcons]; rfl
  rw [hnone, hfull.1, hcons] at hvt
  have hem : emitted d.passes u ≥ 1 := by simp at hvt; omega
  obtain ⟨p, hp, hr⟩ := exists_of_sum_pos d.passes _ hem
  obtain ⟨s, S, hF, _⟩ := hA.facts p hp
  rw [hF.count u] at hr
  split at hr
  · rename_i hS
    obtain ⟨c'', hc'', hcnt⟩ := exists_of_sum_pos p.ops _ hr
    have hin : some u ∈ (G.op c'').inputs := List.count_pos_iff.mp hcnt
    have : some c'' ∈ (G.tensor u).consumers := by
      have h1 : (G.op c'').inputs.count (some u) ≥ 1 := hcnt
      rw [← hW.consCount u c''] at h1
      exact List.count_pos_iff.mp h1
    rw [hcons] at this
    simp only [List.mem_singleton, Option.some.injEq] at this
    subst this
    exact ⟨p, hp, s, S, hF, hS, hc''⟩
  · omega

/-- an operator that has been visited has an output all of whose consumers have been visited -/
theorem visited_has_full {d : Dfs} (hA : DInvA G d) {x : Nat} (h : d.doneO.count x + d.stack.count (.vo x) ≥ 1) :
    ∃ u ∈ (G.op x).outputs, full G d u = true := by
  rw [hA.vo x] at h
  have : (G.op x).outputs.filter (full G d) ≠ [] := by intro h0; rw [h0] at h; simp at h
  obtain ⟨u, hu⟩ := List.exists_mem_of_ne_nil _ this
  exact ⟨u, (List.mem_filter.mp hu).1, (List.mem_filter.mp hu).2⟩

theorem placed_cases {d : Dfs} (hA : DInvA G d) {x : Nat} (hx : x ∈ placed d) :
    (x ∈ startsOf d.passes ∨ x ∈ d.startup) ∨
    (∃ p ∈ d.passes, ∃ s S, PassFacts G s p.ops p.inputRefs S ∧ x ∈ p.ops ∧ x ≠ s) := by
  rcases List.mem_append.mp hx with hx | hx
  · obtain ⟨p, hp, hxp⟩ := List.mem_flatMap.mp hx
    obtain ⟨s, S, hF, _⟩ := hA.facts p hp
    by_cases hxs : x = s
    · subst hxs; exact Or.inl (Or.inl (start_mem_startsOf hp hF.last))
    · exact Or.inr ⟨p, hp, s, S, hF, hxp, hxs⟩
  · exact Or.inl (Or.inr hx)

theorem mem_placed_of_pass {d : Dfs} {p : Pass} {x : Nat} (hp : p ∈ d.passes) (hx : x ∈ p.ops) : x ∈ placed d :=
  List.mem_append_left _ (List.mem_flatMap.mpr ⟨p, hp, hx⟩)

/-- **an operator that `can_pack` lets into the pass of a consumer that is in no pass yet is in no pass either** -/
theorem fresh_of_fresh_consumer (hW : WFU G rk) {d : Dfs} (hA : DInvA G d) {x t c : Nat}
    (hcp : canPack Rules.current G t c = some true) (hops : (G.tensor t).ops = [x]) (hin : some t ∈ (G.op c).inputs)
    (hc : c ∉ placed d) : x ∉ placed d := by
  intro hx
  rcases placed_cases hA hx with hst | ⟨p', hp', s', S', hF', hxp', hxs'⟩
  · -- started: one of its outputs has been visited by all consumers, i.e. by c, which would have to be in a pass
    have hcount := ((hA.started x).mp hst).1
    obtain ⟨u, hu, hfull⟩ := visited_has_full hA (x := x) (by omega)
    have hxu : x ∈ (G.tensor u).ops := (hW.prodOut x u).mpr hu
    have hcons : (G.tensor u).consumers = [some c] := by
      rcases canPack_outputs Rules.current hW hcp hops hxu with h0 | h0
      · unfold full at hfull; simp [h0] at hfull
      · exact h0
    obtain ⟨p, hp, _, _, _, _, hcp'⟩ := full_single_emitted hW hA hfull hcons
    exact hc (mem_placed_of_pass hp hcp')
  · -- packed into an older pass: then through the same consumer
    obtain ⟨pre, post, hsplit⟩ := List.append_of_mem hxp'
    obtain ⟨t', c', hc', hcp', hops', _⟩ := hF'.packed pre x post hsplit hxs'
    have hxt : x ∈ (G.tensor t).ops := by rw [hops]; simp
    have hmem : some c ∈ (G.tensor t).consumers := by
      have h1 : (G.op c).inputs.count (some t) ≥ 1 := List.count_pos_iff.mpr hin
      rw [← hW.consCount t c] at h1
      exact List.count_pos_iff.mp h1
    rcases canPack_outputs Rules.current hW hcp' hops' hxt with h0 | h0
    · rw [h0] at hmem; simp at hmem
    · rw [h0] at hmem
      simp only [List.mem_singleton, Option.some.injEq] at hmem
      subst hmem
      exact hc (mem_placed_of_pass hp' (by rw [hsplit]; simp [hc']))

/-- **the operator whose visit is being made and that is not complete yet is in no pass** -/
theorem popped_fresh (hW : WFU G rk) {d : Dfs} (hA : DInvA G d) (hnd : (placed d).Nodup) {o : Nat} {rest : List Task}
    (hs : d.stack = .vo o :: rest) (hle : d.doneO.count o + 1 + unusedOutputs G o ≤ (G.op o).outputs.length) :
    o ∉ placed d := by
  intro hx
  rcases placed_cases hA hx with hst | ⟨p', hp', s', S', hF', hxp', hxs'⟩
  · have := (hA.started o).mp hst
    omega
  · obtain ⟨pre, post, hsplit⟩ := List.append_of_mem hxp'
    obtain ⟨t', c', hc', hcp', hops', _⟩ := hF'.packed pre o post hsplit hxs'
    obtain ⟨u, hu, hfull⟩ := visited_has_full hA (x := o) (by rw [hs]; simp; omega)
    have hou : o ∈ (G.tensor u).ops := (hW.prodOut o u).mpr hu
    have hcons : (G.tensor u).consumers = [some c'] := by
      rcases canPack_outputs Rules.current hW hcp' hops' hou with h0 | h0
      · unfold full at hfull; simp [h0] at hfull
      · exact h0
    obtain ⟨p'', hp'', s'', S'', hF'', hS'', hcp''⟩ := full_single_emitted hW hA hfull hcons
    have hflat : (d.passes.flatMap (·.ops)).Nodup := (List.nodup_append.mp hnd).1
    have hc'p' : c' ∈ p'.ops := by rw [hsplit]; simp [hc']
    have : p'' = p' := flatMap_nodup_unique d.passes hflat p'' hp'' p' hp' c' hcp'' hc'p'
    subst this
    exact hF''.excl u hS'' o hou hxp'

end VelaVerif.Lemmas.PassPackingDfs
