import VelaVerif.Model.Reorder
/-!
Lemmas about the brick traversal (`Model/Reorder.lean`): loop ranges, counting in nested loops,
and the bijection of the depth-first traversal.
-/
namespace VelaVerif.Reorder
open List

/-! ### `for (x = 0; x < n; x += s)` -/

theorem mem_stepRange {n s a : Nat} (hs : 0 < s) : a ∈ stepRange n s ↔ a < n ∧ s ∣ a := by
  unfold stepRange
  simp only [mem_map, mem_range]
  constructor
  · rintro ⟨j, hj, rfl⟩
    have h1 : j + 1 ≤ (n + s - 1) / s := hj
    rw [Nat.le_div_iff_mul_le hs] at h1
    have : (j + 1) * s = j * s + s := by rw [Nat.add_mul, Nat.one_mul]
    exact ⟨by omega, Nat.dvd_mul_left s j⟩
  · rintro ⟨ha, k, rfl⟩
    refine ⟨k, ?_, Nat.mul_comm k s⟩
    show k + 1 ≤ (n + s - 1) / s
    rw [Nat.le_div_iff_mul_le hs]
    have : (k + 1) * s = s * k + s := by rw [Nat.add_mul, Nat.one_mul, Nat.mul_comm]
    omega

theorem nodup_stepRange {n s : Nat} (hs : 0 < s) : (stepRange n s).Nodup := by
  unfold stepRange
  rw [List.Nodup, pairwise_map]
  refine Pairwise.imp ?_ (nodup_range (n := (n + s - 1) / s))
  intro a b hab h
  exact hab (Nat.eq_of_mul_eq_mul_right hs h)

theorem length_stepRange (n s : Nat) : (stepRange n s).length = (n + s - 1) / s := by
  simp [stepRange]

/-- a value lies in exactly one block of width `s` -/
theorem block_unique {s a a' v : Nat} (ha : s ∣ a) (ha' : s ∣ a') (h1 : a ≤ v) (h2 : v < a + s)
    (h1' : a' ≤ v) (h2' : v < a' + s) : a = a' := by
  obtain ⟨k, rfl⟩ := ha
  obtain ⟨k', rfl⟩ := ha'
  have hlt : ∀ x y : Nat, s * x ≤ v → v < s * y + s → x < y + 1 := by
    intro x y hx hy
    have : s * x < s * (y + 1) := by rw [Nat.mul_add, Nat.mul_one]; omega
    exact Nat.lt_of_mul_lt_mul_left this
  have := hlt k k' h1 h2'
  have := hlt k' k h1' h2
  have : k = k' := by omega
  rw [this]

/-- the block of `v` -/
theorem block_of {s v : Nat} (hs : 0 < s) : s ∣ v / s * s ∧ v / s * s ≤ v ∧ v < v / s * s + s := by
  refine ⟨Nat.dvd_mul_left s _, Nat.div_mul_le_self v s, ?_⟩
  have h1 := Nat.div_add_mod v s
  have h2 := Nat.mod_lt v hs
  rw [Nat.mul_comm] at h1
  omega

/-- two multiples of `s`, one below the other, are at least `s` apart -/
theorem dvd_lt_add_le {s a b : Nat} (ha : s ∣ a) (hb : s ∣ b) (h : a < b) : a + s ≤ b := by
  obtain ⟨k, rfl⟩ := ha
  obtain ⟨k', rfl⟩ := hb
  have : k < k' := Nat.lt_of_mul_lt_mul_left h
  calc s * k + s = s * (k + 1) := by rw [Nat.mul_add, Nat.mul_one]
    _ ≤ s * k' := Nat.mul_le_mul_left s this

/-! ### counting in nested loops -/

theorem count_flatMap_zero {α β : Type} [BEq β] [LawfulBEq β] (l : List α) (f : α → List β) (y : β)
    (h : ∀ a ∈ l, y ∉ f a) : count y (l.flatMap f) = 0 := by
  rw [count_eq_zero, mem_flatMap]
  rintro ⟨a, ha, hy⟩
  exact h a ha hy

/-- if exactly one iteration `a` of a loop can produce `y`, count only that iteration -/
theorem count_flatMap_unique {α β : Type} [BEq β] [LawfulBEq β] (l : List α) (f : α → List β) (y : β) (a : α)
    (hn : l.Nodup) (ha : a ∈ l) (h : ∀ a' ∈ l, a' ≠ a → y ∉ f a') :
    count y (l.flatMap f) = count y (f a) := by
  induction l with
  | nil => cases ha
  | cons x xs ih =>
    rw [flatMap_cons, count_append]
    rw [nodup_cons] at hn
    by_cases hx : x = a
    · subst hx
      rw [count_flatMap_zero xs f y]
      · omega
      · intro a' ha' hy
        exact h a' (mem_cons_of_mem _ ha') (fun e => hn.1 (e ▸ ha')) hy
    · have hax : a ∈ xs := by
        rcases mem_cons.mp ha with e | e
        · exact absurd e.symm hx
        · exact e
      have h0 : count y (f x) = 0 := count_eq_zero.mpr (h x (mem_cons_self) hx)
      rw [h0, ih hn.2 hax (fun a' ha' => h a' (mem_cons_of_mem _ ha'))]
      omega

theorem count_map_unique {α β : Type} [BEq β] [LawfulBEq β] (l : List α) (g : α → β) (y : β) (a : α)
    (hn : l.Nodup) (ha : a ∈ l) (hg : g a = y) (h : ∀ a' ∈ l, a' ≠ a → g a' ≠ y) :
    count y (l.map g) = 1 := by
  have : ∀ l : List α, l.map g = l.flatMap (fun a => [g a]) := by
    intro l
    induction l with
    | nil => rfl
    | cons x xs ih => simp [flatMap_cons, ih]
  rw [this l, count_flatMap_unique l _ y a hn ha]
  · simp [hg]
  · intro a' ha' hne hy
    simp at hy
    exact h a' ha' hne hy.symm

/-! ### every traversal is a bijection onto the volume plus padding -/

theorem cell_eq_some {p : Params} {B Bi sy sx subH subW io ub e ii uz iz : Nat} {c : Coord} :
    cell p B Bi sy sx subH subW io ub e ii uz iz = some c ↔
      (Bi + (ii + io) + iz < p.ifmDepth ∧ B + ub + uz < p.ofmDepth ∧ e / subW < subH) ∧
      c = ⟨B + ub + uz, sy + e / subW, sx + e % subW, Bi + (ii + io) + iz⟩ := by
  unfold cell
  simp only []
  split
  · rename_i h
    simp only [Bool.and_eq_true, decide_eq_true_eq] at h
    simp only [Option.some.injEq]
    constructor
    · intro e; exact ⟨⟨h.1.1, h.1.2, h.2⟩, e.symm⟩
    · intro e; exact e.2.symm
  · rename_i h
    simp only [Bool.and_eq_true, decide_eq_true_eq] at h
    constructor
    · intro e; cases e
    · intro e; exact absurd ⟨⟨e.1.1, e.1.2.1⟩, e.1.2.2⟩ h

theorem mem_stepRange_one {s a : Nat} (hs : 0 < s) : a ∈ stepRange 1 s ↔ a = 0 := by
  rw [mem_stepRange hs]
  constructor
  · rintro ⟨h1, _⟩; omega
  · rintro rfl; exact ⟨by omega, Nat.dvd_zero _⟩

theorem le_roundUp (n d : Nat) (hd : 0 < d) : n ≤ roundUp n d := by
  unfold roundUp
  have h1 := Nat.div_add_mod (n + d - 1) d
  have h2 := Nat.mod_lt (n + d - 1) hd
  rw [Nat.mul_comm] at h1
  omega

theorem le_subkernelElements (p : Params) (subW subH : Nat) : subW * subH ≤ p.subkernelElements subW subH := by
  unfold Params.subkernelElements
  simp only []
  split
  · split
    · exact le_roundUp _ _ (by decide)
    · split
      · exact le_roundUp _ _ (by decide)
      · exact Nat.le_refl _
  · split
    · exact le_roundUp _ _ (by decide)
    · exact Nat.le_refl _

/-- levels 5–10, all traversals: inside one sub-kernel of one brick -/
theorem count_subkernel {p : Params} (hiu : 0 < p.ifmUblockDepth) (hou : 0 < p.ofmUblockDepth)
    {B cl Bi clIfm sy sx subH subW : Nat} {c : Coord}
    (hsw : 0 < subW)
    (ho1 : B ≤ c.o) (ho2 : c.o < B + cl) (ho3 : c.o < p.ofmDepth)
    (hi1 : Bi ≤ c.i) (hi2 : c.i < Bi + clIfm) (hi3 : c.i < p.ifmDepth)
    (hdwi : p.isDepthwise = true → c.i = Bi)
    (hy1 : sy ≤ c.y) (hy2 : c.y < sy + subH) (hx1 : sx ≤ c.x) (hx2 : c.x < sx + subW) :
    count (some c) (subkernel p B cl Bi clIfm sy sx subH subW) = 1 := by
  obtain ⟨co, cy, cx, ci⟩ := c
  simp only at ho1 ho2 ho3 hi1 hi2 hi3 hy1 hy2 hx1 hx2 hdwi
  have helems := le_subkernelElements p subW subH
  unfold subkernel
  simp only []
  generalize p.subkernelElements subW subH = elems at helems
  obtain ⟨hib1, hib2, hib3⟩ := block_of (v := ci - Bi) hiu
  generalize hib : (ci - Bi) / p.ifmUblockDepth * p.ifmUblockDepth = ib at hib1 hib2 hib3
  -- level 5: outer IFM micro-block (part-kernel-first) or the single iteration 0
  refine (count_flatMap_unique _ _ _ (if p.isPartkernel then ib else 0) (nodup_stepRange hiu) ?_ ?_).trans ?_
  · split
    · exact (mem_stepRange hiu).mpr ⟨by omega, hib1⟩
    · exact (mem_stepRange_one hiu).mpr rfl
  · intro io' hio' hne hmem
    simp only [mem_flatMap, mem_map, mem_range, cell_eq_some, Coord.mk.injEq] at hmem
    obtain ⟨ub, hub, e, he, ii, hii, uz, huz, iz, hiz, hg, h1, h2, h3, h4⟩ := hmem
    by_cases hpk : p.isPartkernel = true
    · simp only [hpk, if_true] at hio' hii hne
      rw [mem_stepRange hiu] at hio'
      rw [mem_stepRange_one hiu] at hii
      subst hii
      have hizlt : iz < p.ifmUblockDepth := by split at hiz <;> omega
      exact hne (block_unique (v := ci - Bi) hio'.2 hib1 (by omega) (by omega) hib2 hib3)
    · simp only [hpk, Bool.false_eq_true, if_false] at hio' hne
      rw [mem_stepRange_one hiu] at hio'
      exact hne hio'
  -- level 6: OFM micro-block
  obtain ⟨hub1, hub2, hub3⟩ := block_of (v := co - B) hou
  refine (count_flatMap_unique _ _ _ ((co - B) / p.ofmUblockDepth * p.ofmUblockDepth) (nodup_stepRange hou)
    ((mem_stepRange hou).mpr ⟨by omega, hub1⟩) ?_).trans ?_
  · intro ub' hub' hne hmem
    rw [mem_stepRange hou] at hub'
    simp only [mem_flatMap, mem_map, mem_range, cell_eq_some, Coord.mk.injEq] at hmem
    obtain ⟨e, he, ii, hii, uz, huz, iz, hiz, hg, h1, h2, h3, h4⟩ := hmem
    exact hne (block_unique (v := co - B) hub'.2 hub1 (by omega) (by omega) hub2 hub3)
  generalize hub : (co - B) / p.ofmUblockDepth * p.ofmUblockDepth = ub at hub1 hub2 hub3
  -- level 7: kernel element
  have he_div : ((cy - sy) * subW + (cx - sx)) / subW = cy - sy := by
    rw [Nat.add_comm, Nat.add_mul_div_right _ _ hsw, Nat.div_eq_of_lt (by omega)]; omega
  have he_mod : ((cy - sy) * subW + (cx - sx)) % subW = cx - sx := by
    rw [Nat.add_comm, Nat.add_mul_mod_self_right, Nat.mod_eq_of_lt (by omega)]
  have he_lt : (cy - sy) * subW + (cx - sx) < elems := by
    refine Nat.lt_of_lt_of_le ?_ helems
    calc (cy - sy) * subW + (cx - sx) < (cy - sy) * subW + subW := by omega
      _ = (cy - sy + 1) * subW := by rw [Nat.add_mul, Nat.one_mul]
      _ ≤ subH * subW := Nat.mul_le_mul_right _ (by omega)
      _ = subW * subH := Nat.mul_comm _ _
  refine (count_flatMap_unique _ _ _ ((cy - sy) * subW + (cx - sx)) nodup_range (mem_range.mpr he_lt) ?_).trans ?_
  · intro e' he' hne hmem
    simp only [mem_flatMap, mem_map, mem_range, cell_eq_some, Coord.mk.injEq] at hmem
    obtain ⟨ii, hii, uz, huz, iz, hiz, hg, h1, h2, h3, h4⟩ := hmem
    apply hne
    have := Nat.div_add_mod e' subW
    have h2' : e' / subW = cy - sy := by omega
    have h3' : e' % subW = cx - sx := by omega
    rw [← this, h2', h3', Nat.mul_comm]
  -- level 8: inner IFM micro-block (depth-first) or the single iteration 0
  refine (count_flatMap_unique _ _ _ (if p.isPartkernel then 0 else ib) (nodup_stepRange hiu) ?_ ?_).trans ?_
  · split
    · exact (mem_stepRange_one hiu).mpr rfl
    · exact (mem_stepRange hiu).mpr ⟨by omega, hib1⟩
  · intro ii' hii' hne hmem
    simp only [mem_flatMap, mem_map, mem_range, cell_eq_some, Coord.mk.injEq] at hmem
    obtain ⟨uz, huz, iz, hiz, hg, h1, h2, h3, h4⟩ := hmem
    by_cases hpk : p.isPartkernel = true
    · simp only [hpk, if_true] at hii' hne
      rw [mem_stepRange_one hiu] at hii'
      exact hne hii'
    · simp only [hpk, Bool.false_eq_true, if_false] at hii' hne h4
      rw [mem_stepRange hiu] at hii'
      have hizlt : iz < p.ifmUblockDepth := by split at hiz <;> omega
      exact hne (block_unique (v := ci - Bi) hii'.2 hib1 (by omega) (by omega) hib2 hib3)
  have hsum : (if p.isPartkernel = true then 0 else ib) + (if p.isPartkernel = true then ib else 0) = ib := by
    split <;> omega
  -- level 9: element of the OFM micro-block
  refine (count_flatMap_unique _ _ _ (co - B - ub) nodup_range (mem_range.mpr (by omega)) ?_).trans ?_
  · intro uz' huz' hne hmem
    simp only [mem_map, mem_range, cell_eq_some, Coord.mk.injEq] at hmem
    obtain ⟨iz, hiz, hg, h1, h2, h3, h4⟩ := hmem
    omega
  -- level 10: element of the IFM micro-block
  have hizr : ci - Bi - ib < (if p.isDepthwise = true then 1 else p.ifmUblockDepth) := by
    split
    · rename_i hd; have := hdwi hd; omega
    · omega
  refine count_map_unique _ _ _ (ci - Bi - ib) nodup_range (mem_range.mpr hizr) ?_ ?_
  · rw [cell_eq_some, he_div, he_mod, hsum]
    refine ⟨⟨by omega, by omega, by omega⟩, ?_⟩
    simp only [Coord.mk.injEq]
    omega
  · intro iz' hiz' hne hmem
    simp only [cell_eq_some, Coord.mk.injEq, hsum] at hmem
    omega

theorem ifmBlockDepth_pos (p : Params) : 0 < p.ifmBlockDepth := by
  unfold Params.ifmBlockDepth; split <;> decide

theorem clippedIfm_le {p : Params} (v : ValidConfig p) (Bi : Nat) : clippedIfm p Bi ≤ p.ifmBlockDepth := by
  unfold clippedIfm
  split
  · exact Nat.le_of_dvd (ifmBlockDepth_pos p) v.iuDvd
  · split
    · exact Nat.min_le_left _ _
    · exact Nat.le_refl _

/-- what a coordinate emitted inside one sub-kernel looks like (all traversals) -/
theorem mem_subkernel {p : Params} (hiu : 0 < p.ifmUblockDepth) (hou : 0 < p.ofmUblockDepth)
    {B cl Bi clIfm sy sx subH subW : Nat} {c : Coord} (hsw : 0 < subW)
    (h : some c ∈ subkernel p B cl Bi clIfm sy sx subH subW) :
    ∃ ub uz t iz, (ub < cl ∧ p.ofmUblockDepth ∣ ub) ∧ uz < p.ofmUblockDepth ∧
      (t < clIfm ∧ p.ifmUblockDepth ∣ t) ∧ iz < p.ifmUblockDepth ∧
      c.o = B + ub + uz ∧ c.i = Bi + t + iz ∧ c.o < p.ofmDepth ∧ c.i < p.ifmDepth ∧
      sy ≤ c.y ∧ c.y < sy + subH ∧ sx ≤ c.x ∧ c.x < sx + subW := by
  unfold subkernel at h
  simp only [mem_flatMap, mem_map, mem_range, cell_eq_some, mem_stepRange hou] at h
  obtain ⟨io, hio, ub, hub, e, he, ii, hii, uz, huz, iz, hiz, ⟨g1, g2, g3⟩, rfl⟩ := h
  have hizlt : iz < p.ifmUblockDepth := by split at hiz <;> omega
  have := Nat.mod_lt e hsw
  have ht : (ii + io < clIfm ∧ p.ifmUblockDepth ∣ ii + io) := by
    by_cases hpk : p.isPartkernel = true
    · simp only [hpk, if_true] at hio hii
      rw [mem_stepRange_one hiu] at hii
      rw [mem_stepRange hiu] at hio
      subst hii; simpa using hio
    · simp only [hpk, Bool.false_eq_true, if_false] at hio hii
      rw [mem_stepRange_one hiu] at hio
      rw [mem_stepRange hiu] at hii
      subst hio; simpa using hii
  exact ⟨ub, uz, ii + io, iz, hub, huz, ht, hizlt, rfl, rfl, g2, g1, by simp, by simp; omega, by simp, by simp; omega⟩

/-- what a coordinate emitted inside one brick looks like -/
theorem mem_brick {p : Params} (v : ValidConfig p) {B cl Bi : Nat} {c : Coord}
    (h : some c ∈ brick p B cl Bi) :
    ∃ ub uz t iz, (ub < cl ∧ p.ofmUblockDepth ∣ ub) ∧ uz < p.ofmUblockDepth ∧
      (t < p.ifmBlockDepth ∧ p.ifmUblockDepth ∣ t) ∧ iz < p.ifmUblockDepth ∧
      c.o = B + ub + uz ∧ c.i = Bi + t + iz ∧ p.inRange c = true := by
  unfold brick at h
  simp only [mem_flatMap, mem_stepRange v.dhPos, mem_stepRange v.dwPos] at h
  obtain ⟨sy, ⟨hsy, _⟩, sx, ⟨hsx, _⟩, h⟩ := h
  obtain ⟨ub, uz, t, iz, h1, h2, h3, h4, h5, h6, h7, h8, h9, h10, h11, h12⟩ :=
    mem_subkernel v.iuPos v.ouPos (by have := v.dwPos; omega) h
  have hcl := clippedIfm_le v Bi
  refine ⟨ub, uz, t, iz, h1, h2, ⟨by omega, h3.2⟩, h4, h5, h6, ?_⟩
  simp only [Params.inRange, Bool.and_eq_true, decide_eq_true_eq]
  omega

/-- levels 3–4: the sub-kernel decomposition inside one brick -/
theorem count_brick {p : Params} (v : ValidConfig p) {B cl Bi : Nat} {c : Coord}
    (ho1 : B ≤ c.o) (ho2 : c.o < B + cl) (hi1 : Bi ≤ c.i) (hi2 : c.i < Bi + clippedIfm p Bi)
    (hdwi : p.isDepthwise = true → c.i = Bi)
    (hr : p.inRange c = true) : count (some c) (brick p B cl Bi) = 1 := by
  simp only [Params.inRange, Bool.and_eq_true, decide_eq_true_eq] at hr
  obtain ⟨⟨⟨hr1, hr2⟩, hr3⟩, hr4⟩ := hr
  unfold brick
  simp only []
  obtain ⟨hy1, hy2, hy3⟩ := block_of (v := c.y) v.dhPos
  obtain ⟨hx1, hx2, hx3⟩ := block_of (v := c.x) v.dwPos
  refine (count_flatMap_unique _ _ _ (c.y / p.decompH * p.decompH) (nodup_stepRange v.dhPos)
    ((mem_stepRange v.dhPos).mpr ⟨by omega, hy1⟩) ?_).trans ?_
  · intro sy' hsy' hne hmem
    rw [mem_stepRange v.dhPos] at hsy'
    simp only [mem_flatMap, mem_stepRange v.dwPos] at hmem
    obtain ⟨sx, ⟨hsx, _⟩, hmem⟩ := hmem
    obtain ⟨_, _, _, _, _, _, _, _, _, _, _, _, h9, h10, _, _⟩ :=
      mem_subkernel v.iuPos v.ouPos (by have := v.dwPos; omega) hmem
    exact hne (block_unique (v := c.y) hsy'.2 hy1 h9 (by omega) hy2 hy3)
  refine (count_flatMap_unique _ _ _ (c.x / p.decompW * p.decompW) (nodup_stepRange v.dwPos)
    ((mem_stepRange v.dwPos).mpr ⟨by omega, hx1⟩) ?_).trans ?_
  · intro sx' hsx' hne hmem
    rw [mem_stepRange v.dwPos] at hsx'
    obtain ⟨_, _, _, _, _, _, _, _, _, _, _, _, _, _, h11, h12⟩ :=
      mem_subkernel v.iuPos v.ouPos (by have := v.dwPos; omega) hmem
    exact hne (block_unique (v := c.x) hsx'.2 hx1 h11 (by omega) hx2 hx3)
  exact count_subkernel v.iuPos v.ouPos (by have := v.dwPos; omega)
    ho1 ho2 hr1 hi1 hi2 hr4 hdwi hy2 (by omega) hx2 (by omega)

/-- every emitted coordinate lies inside the volume -/
theorem traverse_sound {p : Params} (v : ValidConfig p) {c : Coord} (h : some c ∈ traverse p) :
    p.inRange c = true := by
  unfold traverse at h
  simp only [mem_flatMap] at h
  obtain ⟨B, _, Bi, _, h⟩ := h
  obtain ⟨_, _, _, _, _, _, _, _, _, _, hr⟩ := mem_brick v h
  exact hr

/-- levels 1–2: every in-range coordinate is emitted exactly once -/
theorem count_traverse {p : Params} (v : ValidConfig p) {c : Coord} (hr : p.inRange c = true) :
    count (some c) (traverse p) = 1 := by
  have hr' := hr
  simp only [Params.inRange, Bool.and_eq_true, decide_eq_true_eq] at hr'
  obtain ⟨⟨⟨hr1, hr2⟩, hr3⟩, hr4⟩ := hr'
  have hibd := ifmBlockDepth_pos p
  unfold traverse
  simp only []
  obtain ⟨ho1, ho2, ho3⟩ := block_of (v := c.o) v.obdPos
  obtain ⟨hi1, hi2, hi3⟩ := block_of (v := c.i) hibd
  refine (count_flatMap_unique _ _ _ (c.o / p.ofmBlockDepth * p.ofmBlockDepth) (nodup_stepRange v.obdPos)
    ((mem_stepRange v.obdPos).mpr ⟨by omega, ho1⟩) ?_).trans ?_
  · intro B' hB' hne hmem
    rw [mem_stepRange v.obdPos] at hB'
    simp only [mem_flatMap] at hmem
    obtain ⟨Bi, _, hmem⟩ := hmem
    obtain ⟨ub, uz, t, iz, ⟨h1, h1'⟩, h2, _, _, h5, _, _⟩ := mem_brick v hmem
    have : ub + p.ofmUblockDepth ≤ p.ofmBlockDepth := dvd_lt_add_le h1' v.ouDvd (by omega)
    exact hne (block_unique (v := c.o) hB'.2 ho1 (by omega) (by omega) ho2 ho3)
  have hci_dw : p.isDepthwise = true → c.i = 0 := by
    intro hd; have := v.depthwiseIfm hd; omega
  have hBi0 : p.isDepthwise = true → c.i / p.ifmBlockDepth * p.ifmBlockDepth = 0 := by
    intro hd; rw [hci_dw hd]; simp
  refine (count_flatMap_unique _ _ _ (c.i / p.ifmBlockDepth * p.ifmBlockDepth) (nodup_stepRange hibd)
    ((mem_stepRange hibd).mpr ⟨?_, hi1⟩) ?_).trans ?_
  · split
    · rename_i hd; rw [hBi0 hd]; omega
    · omega
  · intro Bi' hBi' hne hmem
    rw [mem_stepRange hibd] at hBi'
    obtain ⟨ub, uz, t, iz, _, _, ⟨h3, h3'⟩, h4, _, h6, _⟩ := mem_brick v hmem
    have : t + p.ifmUblockDepth ≤ p.ifmBlockDepth := dvd_lt_add_le h3' v.iuDvd h3
    exact hne (block_unique (v := c.i) hBi'.2 hi1 (by omega) (by omega) hi2 hi3)
  refine count_brick v ho2 (by omega) hi2 ?_ ?_ hr
  · unfold clippedIfm
    split
    · rename_i hd; rw [hBi0 hd, hci_dw hd]; have := v.iuPos; omega
    · split <;> omega
  · intro hd; rw [hBi0 hd, hci_dw hd]


end VelaVerif.Reorder
